/-
C09 — Kernel-matrix caches return the true entries and respect their memory bound.

Property theorems about the models in `Model/Cache.lean` (tied to
`shark::LRUCache` / `shark::CachedMatrix` by the correspondence check
`checks/c09.py`).  Helper lemmas live in `Lemmas/Cache.lean`,
`Lemmas/CachedMatrix.lean`.

All statements quantify over *every* finite history of valid operations, every
matrix size `n`, every capacity `cap` (the validity predicate demands
`stop ≤ cap` for a row request of length `stop`, which is the C++
`SIZE_CHECK(size <= m_maxSize)`; "minimum admissible capacity").
-/
import SharkVerif.Lemmas.CachedMatrix
import SharkVerif.Model.KernelMatrices
namespace SharkVerif.C09
open SharkVerif.Cache

variable {V : Type}

/-- the operations of `CachedMatrix` a client can perform -/
inductive Op where
  | row (k stop : Nat)              -- row(k, 0, stop): cached prefix request
  | flip (i j : Nat)                -- flipColumnsAndRows
  | maxidx (n' : Nat)               -- setMaxCachedIndex
  | clear
  deriving Repr, DecidableEq

/-- preconditions stated by the C++ (`SIZE_CHECK`s and index ranges) -/
def Op.valid (n cap : Nat) : Op → Prop
  | .row k stop => k < n ∧ 0 < stop ∧ stop ≤ n ∧ stop ≤ cap
  | .flip i j => i < n ∧ j < n
  | .maxidx n' => n' ≤ n
  | .clear => True

instance (n cap : Nat) (op : Op) : Decidable (op.valid n cap) := by
  cases op <;> (simp only [Op.valid]; infer_instance)

def apply (m : CM V) : Op → CM V
  | .row k stop => m.row k 0 stop
  | .flip i j => m.flip i j
  | .maxidx n' => m.setMaxCachedIndex n'
  | .clear => m.clear

def run (m : CM V) (ops : List Op) : CM V := ops.foldl apply m

theorem flip_n (m : CM V) (i j : Nat) : (m.flip i j).n = m.n := by
  unfold CM.flip; split
  · rfl
  · split <;> rfl

theorem flip_base (m : CM V) (i j : Nat) : (m.flip i j).base = m.base := by
  unfold CM.flip; split
  · rfl
  · split <;> rfl

theorem apply_base (m : CM V) (op : Op) : (apply m op).base = m.base := by
  cases op <;> simp [apply, CM.row, flip_base, CM.setMaxCachedIndex, CM.clear]

theorem run_base (ops : List Op) : ∀ (m : CM V), (run m ops).base = m.base := by
  induction ops with
  | nil => intro m; rfl
  | cons op ops ih => intro m; simp only [run, List.foldl_cons]; exact (ih _).trans (apply_base m op)

theorem apply_n (m : CM V) (op : Op) : (apply m op).n = m.n := by
  cases op <;> simp [apply, CM.row, flip_n, CM.setMaxCachedIndex, CM.clear]

theorem markFold_maxSize (ds : List Nat) (n' : Nat) : ∀ (c : LRU V),
    (ds.foldl (fun c d => c.markForDeletion (n' + d)) c).maxSize = c.maxSize := by
  induction ds with
  | nil => intro c; rfl
  | cons d ds ih =>
    intro c; simp only [List.foldl_cons]; rw [ih]
    unfold LRU.markForDeletion; split <;> rfl

theorem flip_maxSize (m : CM V) (i j : Nat) : (m.flip i j).cache.maxSize = m.cache.maxSize := by
  unfold CM.flip; split
  · rfl
  · split <;> (simp only [LRU.swapLineIndices]; split <;> rfl)

theorem apply_maxSize (m : CM V) (op : Op) : (apply m op).cache.maxSize = m.cache.maxSize := by
  cases op with
  | row k stop => simp [apply, CM.row, getCacheLine_maxSize]
  | flip i j => exact flip_maxSize m i j
  | maxidx n' => simp [apply, CM.setMaxCachedIndex, markFold_maxSize]
  | clear => simp [apply, CM.clear, LRU.clear, ensureFree_maxSize]

theorem apply_inv {m : CM V} (h : CMInv m) {op : Op} (hv : op.valid m.n m.cache.maxSize) :
    CMInv (apply m op) := by
  cases op with
  | row k stop => exact cmInv_row h 0 hv.1 hv.2.1 hv.2.2.1 hv.2.2.2
  | flip i j => exact cmInv_flip h hv.1 hv.2
  | maxidx n' => exact cmInv_setMaxCachedIndex h n'
  | clear => exact cmInv_clear h

/-- **Invariant for every reachable state**: any finite history of valid
operations from the empty cache keeps the `CachedMatrix` invariant. -/
theorem reachable_inv (n cap : Nat) (base : Nat → Nat → V) (ops : List Op)
    (hv : ∀ op ∈ ops, op.valid n cap) :
    CMInv (run (CM.init n base cap) ops) ∧ (run (CM.init n base cap) ops).n = n ∧
      (run (CM.init n base cap) ops).cache.maxSize = cap := by
  suffices H : ∀ (m : CM V), CMInv m → m.n = n → m.cache.maxSize = cap →
      CMInv (run m ops) ∧ (run m ops).n = n ∧ (run m ops).cache.maxSize = cap from
    H _ (cmInv_init n base cap) rfl rfl
  induction ops with
  | nil => intro m h hn hc; exact ⟨h, hn, hc⟩
  | cons op ops ih =>
    intro m h hn hc
    have hop : op.valid m.n m.cache.maxSize := by rw [hn, hc]; exact hv op (by simp)
    exact ih (fun o ho => hv o (by simp [ho])) (apply m op) (apply_inv h hop)
      (by rw [apply_n, hn]) (by rw [apply_maxSize, hc])

/-- **C09 (entries are true)**: after any history, every value the cache holds
is the entry of the underlying matrix under the *current* variable order. -/
theorem cache_entries_true (n cap : Nat) (base : Nat → Nat → V) (ops : List Op)
    (hv : ∀ op ∈ ops, op.valid n cap) (k c : Nat) (v : V) :
    let m := run (CM.init n base cap) ops
    (m.cache.lines k)[c]? = some v → v = base (m.perm k) (m.perm c) := by
  intro m hvv
  have := (reachable_inv n cap base ops hv).1.truth k c v hvv
  simp only [CM.entry, run_base] at this
  exact this

/-- **C09 (returned rows)**: a row request after any history returns a line
that covers the requested prefix and whose every entry (the whole line, not
only the requested prefix) is the true matrix entry. -/
theorem returned_row_true (n cap : Nat) (base : Nat → Nat → V) (ops : List Op)
    (hv : ∀ op ∈ ops, op.valid n cap) (k stop : Nat) (hr : (Op.row k stop).valid n cap) :
    let m := run (CM.init n base cap) ops
    stop ≤ (m.rowResult k 0 stop).length ∧
    ∀ c (hc : c < (m.rowResult k 0 stop).length), (m.rowResult k 0 stop)[c] = m.entry k c := by
  intro m
  obtain ⟨hinv, hn, hcap⟩ := reachable_inv n cap base ops hv
  have hinv' : CMInv (m.row k 0 stop) :=
    cmInv_row hinv 0 (by rw [hn]; exact hr.1) hr.2.1 (by rw [hn]; exact hr.2.2.1) (by rw [hcap]; exact hr.2.2.2)
  constructor
  · show stop ≤ ((m.row k 0 stop).cache.lines k).length
    rw [row_line_self]
    split
    · rename_i h; exact h.2
    · rw [resized_length]; exact Nat.le_refl _
  · intro c hc
    have := hinv'.truth k c _ (List.getElem?_eq_getElem hc)
    exact this

/-- **C09 (out-of-order read into external storage)**: `row(k,start,stop,storage)`
fills exactly `stop - start` values (no write outside the buffer *in the model*)
and each equals the true entry. -/
theorem storage_row_true {m : CM V} (h : CMInv m) (k start stop : Nat) (hs : start ≤ stop) :
    m.rowStorage k start stop = (List.range (stop - start)).map fun t => m.entry k (start + t) := by
  apply List.ext_getElem?
  intro t
  have htr := h.truth k
  simp only [CM.rowStorage]
  by_cases ht : t < stop - start
  · rw [List.getElem?_map, List.getElem?_range ht]
    simp only [Option.map_some]
    by_cases hcached : start + t < (m.cache.lines k).length
    · -- value comes from the cached line
      have h1 : t < ((m.cache.lines k).drop start |>.take (min (m.cache.lines k).length stop - start)).length := by
        simp; omega
      rw [List.getElem?_append_left h1, List.getElem?_take_of_lt (by omega), List.getElem?_drop]
      have hg := List.getElem?_eq_getElem hcached
      rw [hg, htr _ _ hg]
    · have hlen : ((m.cache.lines k).drop start |>.take (min (m.cache.lines k).length stop - start)).length
          = min (m.cache.lines k).length stop - start := by simp; omega
      have h1 : ((m.cache.lines k).drop start |>.take (min (m.cache.lines k).length stop - start)).length ≤ t := by
        rw [hlen]; omega
      rw [List.getElem?_append_right h1, hlen, List.getElem?_map]
      have h2 : t - (min (m.cache.lines k).length stop - start) < stop - max (m.cache.lines k).length start := by omega
      rw [List.getElem?_range h2]
      simp only [Option.map_some]
      congr 2
      omega
  · have hlen : (((m.cache.lines k).drop start |>.take (min (m.cache.lines k).length stop - start)) ++
        ((List.range (stop - max (m.cache.lines k).length start)).map
          fun d => m.entry k (max (m.cache.lines k).length start + d))).length = stop - start := by
      simp; omega
    rw [List.getElem?_eq_none (by rw [hlen]; omega), List.getElem?_eq_none (by simp; omega)]

/-- **C09 (size accounting and capacity)** after any history: the stored size
counter equals the total length of the lines held, the LRU list holds exactly
the cached lines without duplicates, and the capacity is respected. -/
theorem size_accounting (n cap : Nat) (base : Nat → Nat → V) (ops : List Op)
    (hv : ∀ op ∈ ops, op.valid n cap) :
    let c := (run (CM.init n base cap) ops).cache
    c.size = total c.lines c.lru ∧ c.lru.Nodup ∧ (∀ i, i ∈ c.lru ↔ c.lines i ≠ []) ∧
    c.size ≤ cap ∧ (∀ k, (c.lines k).length ≤ n) := by
  intro c
  obtain ⟨hinv, hn, hcap⟩ := reachable_inv n cap base ops hv
  refine ⟨hinv.lru.acc, hinv.lru.nodup, hinv.lru.mem, ?_, ?_⟩
  · have := hinv.lru.cap; rw [hcap] at this; exact this
  · intro k; have := hinv.short k; rw [hn] at this; exact this

/-- **C09 (two most recent rows stay valid if capacity allows)**: if `b` and `a`
are the two most recently requested rows and their lengths plus the new request
fit into the capacity, fetching a third row `c` neither evicts nor reallocates
them (their contents — and in C++ their pointers — are unchanged). -/
theorem two_recent_rows_valid {m : CM V} (h : CMInv m) {a b c stop : Nat} {rest : List Nat}
    (hl : m.cache.lru = b :: a :: rest) (hca : c ≠ a) (hcb : c ≠ b)
    (hfit : (m.cache.lines a).length + (m.cache.lines b).length + stop ≤ m.cache.maxSize) :
    (m.row c 0 stop).cache.lines a = m.cache.lines a ∧
    (m.row c 0 stop).cache.lines b = m.cache.lines b := by
  have hnd := h.lru.nodup
  have key : ∀ k, k = a ∨ k = b → (m.row c 0 stop).cache.lines k = m.cache.lines k := by
    intro k hk
    have hkc : k ≠ c := by rcases hk with e | e <;> (subst e; exact Ne.symm ‹_›)
    have hkp : k ∈ [b, a] := by rcases hk with e | e <;> simp [e]
    simp only [CM.row, LRU.getCacheLine]
    split
    · -- not cached: createRow
      simp only [LRU.createRow]
      rw [upd_ne _ _ hkc]
      have hp := LRU.ensureFree.eq_1 m.cache ((List.range stop).map fun c_1 => m.entry c c_1).length
      have := (ensureFreeGo_protects (V := V) ((List.range stop).map fun c_1 => m.entry c c_1).length
        m.cache.lru.length m.cache [b, a] rest h.lru (by rw [hl]; rfl)
        (by simp [total]; omega)).1 k hkp
      rw [hp]; exact this
    · split
      · rfl
      · -- resize: remove c first, then evict
        simp only [LRU.resizeLine]
        rw [upd_ne _ _ hkc]
        have hc_notin : c ∉ [b, a] := by simp [hca, hcb]
        have hl' : (m.cache.removeRow c).lru = [b, a] ++ rest.erase c := by
          show m.cache.lru.erase c = _
          rw [hl]
          show ([b, a] ++ rest).erase c = _
          rw [List.erase_append_right _ hc_notin]
        have hlines : ∀ k' ∈ [b, a], (m.cache.removeRow c).lines k' = m.cache.lines k' := by
          intro k' hk'
          exact upd_ne _ _ (fun e => hc_notin (e ▸ hk'))
        have htot : total (m.cache.removeRow c).lines [b, a] = total m.cache.lines [b, a] :=
          total_congr hlines
        have := (ensureFreeGo_protects (V := V) stop (m.cache.removeRow c).lru.length
          (m.cache.removeRow c) [b, a] (rest.erase c) (inv_removeRow h.lru c) hl'
          (by rw [htot]; simp [total]; show _ ≤ m.cache.maxSize; omega)).1 k hkp
        rw [LRU.ensureFree, this, hlines k hkp]
  exact ⟨key a (Or.inl rfl), key b (Or.inr rfl)⟩

/-! ### Non-vacuity and the "only if capacity allows" witnesses -/

def demoBase (a b : Nat) : Nat := a * 1000 + b + 1

/-- a concrete non-trivial valid history -/
def demoOps : List Op := [.row 0 2, .row 1 3, .flip 0 2, .row 2 3, .maxidx 1, .row 1 1]

example : ∀ op ∈ demoOps, op.valid 3 6 := by decide

/-- premises of `two_recent_rows_valid` are satisfiable: capacity 6 holds three rows of length 2 -/
example :
    let m := run (CM.init 3 demoBase 6) [.row 0 2, .row 1 2]
    m.cache.lru = [1, 0] ∧ (m.cache.lines 0).length + (m.cache.lines 1).length + 2 ≤ m.cache.maxSize ∧
    (m.row 2 0 2).cache.lines 0 = [1, 2] := by decide

/-- … and with capacity 5 < 2+2+2 the oldest of the two rows *is* evicted: the
hypothesis `hfit` of `two_recent_rows_valid` cannot be dropped. -/
theorem two_recent_rows_evicted_when_too_small :
    let m := run (CM.init 3 demoBase 5) [.row 0 2, .row 1 2]
    m.cache.lru = [1, 0] ∧ (m.row 2 0 2).cache.lines 0 = [] := by decide

end SharkVerif.C09

/-! ## Wrapper matrices agree entry-wise with direct kernel evaluation

For every history of variable flips, each wrapper's `entry`/`row` equals the
defining formula evaluated directly on the kernel `k` at the *original* indices
`π a`, `π b`, where `π` is the composition of the transpositions performed so
far. -/
namespace SharkVerif.C09.Wrappers
open SharkVerif.Cache (swapIdx)
open SharkVerif.KM

/-- the permutation accumulated by a history of flips (first flip innermost) -/
def permOf : List (Nat × Nat) → Nat → Nat
  | [] => id
  | (i, j) :: fs => fun a => swapIdx i j (permOf fs a)

/-- apply flips in history order -/
def flips {W : Type} (flip : W → Nat → Nat → W) (w : W) (fs : List (Nat × Nat)) : W :=
  fs.foldl (fun w p => flip w p.1 p.2) w

/-- generic lifting: a one-step equivariance law gives the law for all histories -/
theorem entry_flips {W V : Type} (entry : W → Nat → Nat → V) (flip : W → Nat → Nat → W)
    (h1 : ∀ w i j a b, entry (flip w i j) a b = entry w (swapIdx i j a) (swapIdx i j b)) :
    ∀ (fs : List (Nat × Nat)) (w : W) (a b : Nat),
      entry (flips flip w fs) a b = entry w (permOf fs a) (permOf fs b) := by
  intro fs
  induction fs with
  | nil => intro w a b; rfl
  | cons p fs ih =>
    intro w a b
    obtain ⟨i, j⟩ := p
    show entry (flips flip (flip w i j) fs) a b = _
    rw [ih, h1]
    rfl

variable {V : Type}

/-- `KernelMatrix`: after any flips, `entry a b = k (π a) (π b)` -/
theorem kernel_entry_true (k : Nat → Nat → V) (fs : List (Nat × Nat)) (a b : Nat) :
    (flips Kernel.flip (Kernel.init k) fs).entry a b = k (permOf fs a) (permOf fs b) := by
  rw [entry_flips Kernel.entry Kernel.flip (fun _ _ _ _ _ => rfl)]
  rfl

/-- the aux vector swapped alongside follows the same permutation -/
theorem regularized_diag_after_flips [Add V] :
    ∀ (fs : List (Nat × Nat)) (m : Regularized V) (a : Nat),
      (flips Regularized.flip m fs).diag a = m.diag (permOf fs a) ∧
      (flips Regularized.flip m fs).base.x a = m.base.x (permOf fs a) ∧
      (flips Regularized.flip m fs).base.k = m.base.k := by
  intro fs
  induction fs with
  | nil => intro m a; exact ⟨rfl, rfl, rfl⟩
  | cons p fs ih =>
    intro m a
    obtain ⟨i, j⟩ := p
    have := ih (m.flip i j) a
    exact ⟨this.1, this.2.1, this.2.2⟩

/-- `RegularizedKernelMatrix`: `entry a b = k (π a) (π b) + [a = b]·diag₀ (π a)` after any flips -/
theorem regularized_entry_true [Add V] (k : Nat → Nat → V) (d : Nat → V) (fs : List (Nat × Nat)) (a b : Nat) :
    (flips Regularized.flip (Regularized.init k d) fs).entry a b =
      if a = b then k (permOf fs a) (permOf fs b) + d (permOf fs a) else k (permOf fs a) (permOf fs b) := by
  have h := regularized_diag_after_flips fs (Regularized.init k d)
  simp only [Regularized.entry, Kernel.entry]
  rw [(h a).1, (h a).2.1, (h b).2.1, (h a).2.2]
  rfl

/-- its `row` (separate code path: base row, then one in-place addition) equals the entries -/
theorem regularized_row_eq_entries [Add V] (m : Regularized V) (r start stop : Nat) :
    m.row r start stop = (List.range (stop - start)).map fun t => m.entry r (start + t) := by
  apply List.ext_getElem?
  intro t
  simp only [Regularized.row, Kernel.row]
  by_cases ht : t < stop - start
  · rw [List.getElem?_map, List.getElem?_range ht]
    simp only [Option.map_some]
    split
    · rename_i hk
      by_cases e : t = r - start
      · subst e
        rw [List.getElem?_set_self (by simp; omega)]
        simp only [Regularized.entry]
        have : start + (r - start) = r := by omega
        rw [this]
        simp only [↓reduceIte]
        congr 2
        rw [List.getD_eq_getElem?_getD, List.getElem?_map, List.getElem?_range (by omega)]
        simp [this]
      · rw [List.getElem?_set_ne (Ne.symm e), List.getElem?_map, List.getElem?_range ht]
        simp only [Option.map_some, Regularized.entry]
        have : r ≠ start + t := by omega
        simp [this]
    · rename_i hk
      rw [List.getElem?_map, List.getElem?_range ht]
      simp only [Option.map_some, Regularized.entry]
      have : r ≠ start + t := by omega
      simp [this]
  · have h1 : ((List.range (stop - start)).map fun t => m.entry r (start + t))[t]? = none := by
      simp; omega
    rw [h1]
    split <;> simp <;> omega

theorem modified_after_flips [Mul V] :
    ∀ (fs : List (Nat × Nat)) (m : Modified V) (a : Nat),
      (flips Modified.flip m fs).labels a = m.labels (permOf fs a) ∧
      (flips Modified.flip m fs).base.x a = m.base.x (permOf fs a) ∧
      (flips Modified.flip m fs).modEq = m.modEq ∧ (flips Modified.flip m fs).modNe = m.modNe ∧
      (flips Modified.flip m fs).base.k = m.base.k := by
  intro fs
  induction fs with
  | nil => intro m a; exact ⟨rfl, rfl, rfl, rfl, rfl⟩
  | cons p fs ih =>
    intro m a
    obtain ⟨i, j⟩ := p
    have := ih (m.flip i j) a
    exact ⟨this.1, this.2.1, this.2.2.1, this.2.2.2.1, this.2.2.2.2⟩

/-- `ModifiedKernelMatrix`: entries are the kernel value times the factor chosen by
equality of the *original* labels, after any flips -/
theorem modified_entry_true [Mul V] (k : Nat → Nat → V) (lab : Nat → Nat) (e n : V)
    (fs : List (Nat × Nat)) (a b : Nat) :
    (flips Modified.flip (Modified.init k lab e n) fs).entry a b =
      (if lab (permOf fs a) = lab (permOf fs b) then e else n) * k (permOf fs a) (permOf fs b) := by
  have h := modified_after_flips fs (Modified.init k lab e n)
  simp only [Modified.entry, Modified.modifier, Kernel.entry]
  rw [(h a).1, (h b).1, (h a).2.1, (h b).2.1, (h a).2.2.1, (h a).2.2.2.1, (h a).2.2.2.2]
  rfl

/-- `PrecomputedMatrix` built from any base and the base itself stay equal under the same flips -/
theorem precomputed_entry_true (k : Nat → Nat → V) (fs : List (Nat × Nat)) (a b : Nat) :
    (flips Precomputed.flip (Precomputed.init (Kernel.init k).entry) fs).entry a b =
      (flips Kernel.flip (Kernel.init k) fs).entry a b := by
  rw [kernel_entry_true, entry_flips Precomputed.entry Precomputed.flip (fun _ _ _ _ _ => rfl)]
  rfl

/-- `BlockMatrix2x2`: entry = base entry at the mapped indices, mapping follows the flips -/
theorem block2_entry_true (be : Nat → Nat → V) (n : Nat) (fs : List (Nat × Nat)) (a b : Nat) :
    (flips Block2.flip (Block2.init be n) fs).entry a b =
      be ((Block2.init be n).mapping (permOf fs a)) ((Block2.init be n).mapping (permOf fs b)) := by
  rw [entry_flips Block2.entry Block2.flip (fun _ _ _ _ _ => rfl)]
  rfl

/-- `DifferenceKernelMatrix`: `entry a b = k(g,g') − k(g,s') − k(s,g') + k(s,s')` for the
pairs originally at `π a`, `π b` -/
theorem difference_entry_true [Add V] [Sub V] (k : Nat → Nat → V) (pairs : Nat → Nat × Nat)
    (fs : List (Nat × Nat)) (a b : Nat) :
    (flips Difference.flip (Difference.init k pairs) fs).entry a b =
      k (pairs (permOf fs a)).2 (pairs (permOf fs b)).2 - k (pairs (permOf fs a)).2 (pairs (permOf fs b)).1
        - k (pairs (permOf fs a)).1 (pairs (permOf fs b)).2 + k (pairs (permOf fs a)).1 (pairs (permOf fs b)).1 := by
  rw [entry_flips Difference.entry Difference.flip (fun _ _ _ _ _ => rfl)]
  rfl

/-- `PartlyPrecomputedMatrix`: stored rows and on-demand rows both give the base entry -/
theorem partly_entry_true (be : Nat → Nat → V) (n bytes sz i j : Nat) :
    (Partly.init be n bytes sz).entry i j = be i j := by
  simp only [Partly.entry, Partly.init]; exact ite_self _

/-- non-vacuity: a concrete flip history moves entries as stated -/
example : (flips Kernel.flip (Kernel.init fun a b => a * 10 + b) [(0, 2), (1, 2)]).entry 1 2 = 1 := by decide

end SharkVerif.C09.Wrappers
