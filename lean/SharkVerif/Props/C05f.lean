/-
C05, third part (end to end for the Gaussian base kernel) — the vector the executable model
`modelKernelParamGrad` computes from LISTS (what `drv_c05` prints for the op `mn pderiv` and what is compared with
`ModelKernel::weightedParameterDerivative` of the real code) is, at the position of every weight of every optimised dense
layer of the chain, the derivative of the weighted sum of model-kernel values:

    gauss_modelKernel_weight_derivative_lists

The proof glues Props/C05c (`modelKernel_weight_derivative_correct`, `gauss_kernelInputDerivs`) to the list-based code via
Props/C05e (`gaussInputDeriv_entry`, `gaussD2_eq_gaussD1_transpose`, `matFn_eq_lmat`); that the backward pass only reads the
in-range coefficient entries follows from uniqueness of derivatives (`backward_weight_entry_congr`).
-/
import SharkVerif.Props.C05e
set_option linter.unusedSectionVars false
set_option linter.unusedVariables false
namespace SharkVerif.C05
open SharkVerif SharkVerif.Models SharkVerif.Kernels Finset

theorem chainOutDim_eq_nOut : ∀ (c : Chain ℝ) (n : ℕ), chainOutDim c n = Chain.nOut c n
  | [], n => rfl
  | (l, o) :: rest, n => by simp only [chainOutDim, Chain.nOut]; exact chainOutDim_eq_nOut rest l.nOut

theorem objective_congr (c : Chain ℝ) (B nIn : ℕ) (X Cf Cf' : ℕ → ℕ → ℝ)
    (h : ∀ i, i < B → ∀ k, k < Chain.nOut c nIn → Cf i k = Cf' i k) :
    Chain.objective c B nIn X Cf = Chain.objective c B nIn X Cf' := by
  unfold Chain.objective
  apply Finset.sum_congr rfl; intro i hi
  apply Finset.sum_congr rfl; intro k hk
  rw [h i (Finset.mem_range.1 hi) k (Finset.mem_range.1 hk)]

/-- the weight entry of the backward pass depends only on the coefficient entries inside the batch × output range -/
theorem backward_weight_entry_congr (pre post : Chain ℝ) (m : Dense ℝ) (B nIn : ℕ) (X Cf Cf' : ℕ → ℕ → ℝ) (k0 j0 : ℕ)
    (hk0 : k0 < m.nOut) (hj0 : j0 < m.nIn)
    (hwf : Chain.WF (pre ++ (Layer.dense m, true) :: post) nIn)
    (hnk : Chain.NoKink B (pre ++ (Layer.dense m, true) :: post) X)
    (h : ∀ i, i < B → ∀ k, k < Chain.nOut (pre ++ (Layer.dense m, true) :: post) nIn → Cf i k = Cf' i k) :
    (Chain.backward Real.tanh Real.exp B (pre ++ (Layer.dense m, true) :: post) X Cf).1.getD
        ((Chain.params pre).length + (k0 * m.nIn + j0)) 0 =
    (Chain.backward Real.tanh Real.exp B (pre ++ (Layer.dense m, true) :: post) X Cf').1.getD
        ((Chain.params pre).length + (k0 * m.nIn + j0)) 0 := by
  have h1 := Chain.weight_derivative_correct pre post m B nIn X Cf k0 j0 hk0 hj0 hwf hnk
  have h2 := Chain.weight_derivative_correct pre post m B nIn X Cf' k0 j0 hk0 hj0 hwf hnk
  have e : (fun t => Chain.objective
        (pre ++ (Layer.dense { m with W := fun k j => if k = k0 ∧ j = j0 then t else m.W k j }, true) :: post) B nIn X Cf) =
      (fun t => Chain.objective
        (pre ++ (Layer.dense { m with W := fun k j => if k = k0 ∧ j = j0 then t else m.W k j }, true) :: post) B nIn X Cf') := by
    funext t
    apply objective_congr
    intro i hi k hk
    apply h i hi k
    simpa only [Chain.nOut_append, Chain.nOut_cons, Layer.nOut] using hk
  rw [e] at h1
  exact h1.unique h2

/-! ### list plumbing -/

theorem fnMat_length (r c : ℕ) (f : ℕ → ℕ → ℝ) : (fnMat r c f).length = r := by simp [fnMat]

theorem fnMat_row_length (r c : ℕ) (f : ℕ → ℕ → ℝ) (i : ℕ) (hi : i < r) : ((fnMat r c f).getD i []).length = c := by
  simp [fnMat, List.getD_eq_getElem?_getD, hi]

theorem lmat_fnMat (r c : ℕ) (f : ℕ → ℕ → ℝ) (i j : ℕ) (hi : i < r) (hj : j < c) : lmat (fnMat r c f) i j = f i j := by
  simp [lmat, fnMat, List.getD_eq_getElem?_getD, hi, hj]

theorem transposeM_length (M : Mat ℝ) (n : ℕ) : (transposeM M n).length = n := by simp [transposeM]

theorem transposeM_row_length (M : Mat ℝ) (n j : ℕ) (hj : j < n) : ((transposeM M n).getD j []).length = M.length := by
  simp [transposeM, List.getD_eq_getElem?_getD, hj]

theorem lmat_transposeM (M : Mat ℝ) (n i j : ℕ) (hj : j < n) (hi : i < M.length) :
    lmat (transposeM M n) j i = lmat M i j := by
  simp [lmat, transposeM, List.getD_eq_getElem?_getD, hj, hi]

theorem gaussFn_congr (γ : ℝ) (d : ℕ) (x x' z z' : ℕ → ℝ) (hx : ∀ a, a < d → x a = x' a) (hz : ∀ a, a < d → z a = z' a) :
    gaussFn γ d x z = gaussFn γ d x' z' := by
  unfold gaussFn
  congr 2
  apply Finset.sum_congr rfl
  intro a ha
  rw [hx a (Finset.mem_range.1 ha), hz a (Finset.mem_range.1 ha)]

/-- `gaussD1` at an in-range entry reads only in-range entries of its arguments -/
theorem gaussD1_congr (γ : ℝ) (d B1 B2 : ℕ) (C C' Y1 Y1' Y2 Y2' : ℕ → ℕ → ℝ) (i a : ℕ) (hi : i < B1) (ha : a < d)
    (hC : ∀ i, i < B1 → ∀ j, j < B2 → C i j = C' i j)
    (h1 : ∀ i, i < B1 → ∀ b, b < d → Y1 i b = Y1' i b) (h2 : ∀ j, j < B2 → ∀ b, b < d → Y2 j b = Y2' j b) :
    gaussD1 γ d B2 C Y1 Y2 i a = gaussD1 γ d B2 C' Y1' Y2' i a := by
  unfold gaussD1
  apply Finset.sum_congr rfl
  intro j hj
  have hj' := Finset.mem_range.1 hj
  rw [hC i hi j hj', gaussFn_congr γ d (Y1 i) (Y1' i) (Y2 j) (Y2' j) (h1 i hi) (h2 j hj'), h1 i hi a ha, h2 j hj' a ha]

/-- **end to end, Gaussian base kernel, lists**: the entry of the model part of the gradient the executable model computes
from the lists `C`, `X1`, `X2` — `chainGradM` of `X1` with `gaussInputDeriv(g(X1), g(X2), C)` plus `chainGradM` of `X2` with
`gaussInputDeriv(g(X2), g(X1), Cᵀ)`, exactly the two summands of `modelKernelParamGrad` (`modelKernelParamGrad_eq`) — at the
position of the weight `W[k0][j0]` of an optimised dense layer anywhere in the chain is the derivative of
`Σᵢⱼ Cᵢⱼ exp(-γ‖g(x1ᵢ) − g(x2ⱼ)‖²)` with respect to that weight; batches of any (different) sizes. -/
theorem gauss_modelKernel_weight_derivative_lists (γ : ℝ) (pre post : Chain ℝ) (m : Dense ℝ) (nIn : ℕ)
    (C X1 X2 : Mat ℝ) (k0 j0 : ℕ) (hk0 : k0 < m.nOut) (hj0 : j0 < m.nIn)
    (hCl : C.length = X1.length) (hCr : ∀ i, i < X1.length → (C.getD i []).length = X2.length)
    (hwf : Chain.WF (pre ++ (Layer.dense m, true) :: post) nIn)
    (hnk1 : Chain.NoKink X1.length (pre ++ (Layer.dense m, true) :: post) (matFn X1))
    (hnk2 : Chain.NoKink X2.length (pre ++ (Layer.dense m, true) :: post) (matFn X2)) :
    HasDerivAt (fun t => modelKernelSum (gaussFn γ (Chain.nOut (pre ++ (Layer.dense m, true) :: post) nIn))
        (pre ++ (Layer.dense { m with W := fun k j => if k = k0 ∧ j = j0 then t else m.W k j }, true) :: post)
        X1.length X2.length (matFn X1) (matFn X2) (lmat C))
      ((chainGradM Real.tanh Real.exp (pre ++ (Layer.dense m, true) :: post) X1
          (gaussInputDeriv Real.exp γ C
            (chainEvalM Real.tanh Real.exp (pre ++ (Layer.dense m, true) :: post) nIn X1)
            (chainEvalM Real.tanh Real.exp (pre ++ (Layer.dense m, true) :: post) nIn X2))).getD
          ((Chain.params pre).length + (k0 * m.nIn + j0)) 0 +
       (chainGradM Real.tanh Real.exp (pre ++ (Layer.dense m, true) :: post) X2
          (gaussInputDeriv Real.exp γ (transposeM C X2.length)
            (chainEvalM Real.tanh Real.exp (pre ++ (Layer.dense m, true) :: post) nIn X2)
            (chainEvalM Real.tanh Real.exp (pre ++ (Layer.dense m, true) :: post) nIn X1))).getD
          ((Chain.params pre).length + (k0 * m.nIn + j0)) 0) (m.W k0 j0) := by
  set c := pre ++ (Layer.dense m, true) :: post with hc
  set d := Chain.nOut c nIn with hd
  set Y1 := Chain.evalB Real.tanh Real.exp c (matFn X1) with hY1
  set Y2 := Chain.evalB Real.tanh Real.exp c (matFn X2) with hY2
  have main := modelKernel_weight_derivative_correct (gaussFn γ d) pre post m X1.length X2.length nIn (matFn X1) (matFn X2)
    (lmat C) (gaussD1 γ d X2.length (lmat C) Y1 Y2) (gaussD2 γ d X1.length (lmat C) Y1 Y2) k0 j0 hk0 hj0 hwf hnk1 hnk2
    (gauss_kernelInputDerivs γ d X1.length X2.length (lmat C) Y1 Y2)
  refine main.congr_deriv ?_
  -- the tabulated evaluations
  have hU1len : (chainEvalM Real.tanh Real.exp c nIn X1).length = X1.length := fnMat_length _ _ _
  have hU2len : (chainEvalM Real.tanh Real.exp c nIn X2).length = X2.length := fnMat_length _ _ _
  have hU1row : ∀ i, i < X1.length → ((chainEvalM Real.tanh Real.exp c nIn X1).getD i []).length = d := by
    intro i hi; unfold chainEvalM; rw [fnMat_row_length _ _ _ i hi, chainOutDim_eq_nOut]
  have hU2row : ∀ j, j < X2.length → ((chainEvalM Real.tanh Real.exp c nIn X2).getD j []).length = d := by
    intro j hj; unfold chainEvalM; rw [fnMat_row_length _ _ _ j hj, chainOutDim_eq_nOut]
  have hU1 : ∀ i, i < X1.length → ∀ b, b < d → lmat (chainEvalM Real.tanh Real.exp c nIn X1) i b = Y1 i b := by
    intro i hi b hb; unfold chainEvalM; rw [lmat_fnMat _ _ _ i b hi (by rw [chainOutDim_eq_nOut]; exact hb)]
  have hU2 : ∀ j, j < X2.length → ∀ b, b < d → lmat (chainEvalM Real.tanh Real.exp c nIn X2) j b = Y2 j b := by
    intro j hj b hb; unfold chainEvalM; rw [lmat_fnMat _ _ _ j b hj (by rw [chainOutDim_eq_nOut]; exact hb)]
  rw [chainGradM_eq, chainGradM_eq]
  congr 1
  · -- batch X1
    apply backward_weight_entry_congr pre post m X1.length nIn (matFn X1) _ _ k0 j0 hk0 hj0 hwf hnk1
    intro i hi a ha
    rw [matFn_eq_lmat,
      gaussInputDeriv_entry γ d C _ _ i a (by rw [hU1len]; exact hi) ha (by rw [hU1len]; exact hCl)
        (by rw [hU2len]; exact hCr i hi) (hU1row i hi) (by intro j hj; rw [hU2len] at hj; exact hU2row j hj), hU2len]
    exact gaussD1_congr γ d X1.length X2.length _ _ _ _ _ _ i a hi ha (fun _ _ _ _ => rfl)
      (fun i hi b hb => (hU1 i hi b hb).symm) (fun j hj b hb => (hU2 j hj b hb).symm)
  · -- batch X2: the transposed call
    apply backward_weight_entry_congr pre post m X2.length nIn (matFn X2) _ _ k0 j0 hk0 hj0 hwf hnk2
    intro j hj a ha
    rw [gaussD2_eq_gaussD1_transpose, matFn_eq_lmat,
      gaussInputDeriv_entry γ d (transposeM C X2.length) _ _ j a (by rw [hU2len]; exact hj) ha
        (by rw [hU2len, transposeM_length]) (by rw [hU1len, transposeM_row_length _ _ j hj, hCl])
        (hU2row j hj) (by intro i hi; rw [hU1len] at hi; exact hU1row i hi), hU1len]
    exact gaussD1_congr γ d X2.length X1.length _ _ _ _ _ _ j a hj ha
      (fun j hj i hi => (lmat_transposeM C X2.length i j hj (by rw [hCl]; exact hi)).symm)
      (fun j hj b hb => (hU2 j hj b hb).symm) (fun i hi b hb => (hU1 i hi b hb).symm)

end SharkVerif.C05
