/-
C05, second part — theorems about the derivative code of the COMPOSED kernel classes and the helpers built on the
kernel interface (model: Model/KernelGrad.lean, tied to the C++ by the exact correspondence of the ops
`pderiv` / `ideriv` / `gderivx` / `kx` / `skip` / `task` / `mt` / `mk`).
-/
import SharkVerif.Props.C05
import SharkVerif.Model.KernelGrad
import Mathlib.Analysis.SpecialFunctions.Sqrt
set_option linter.unusedSectionVars false
set_option linter.unusedVariables false
namespace SharkVerif.C05
open SharkVerif.Kernels

/-! ## 15. MonomialKernel::weightedInputDerivative -/

/-- exponent ≥ 2: entry `t` of row `i` is the partial derivative of `Σⱼ Cᵢⱼ ⟨x, x2ⱼ⟩ⁿ` in coordinate `t` of `x = x1ᵢ`,
including the `safe_div(·,·,0)` branch where `⟨x,z⟩ = 0` -/
theorem monomial_weightedInputDerivative (exp sqrt : ℝ → ℝ) (n : ℕ) (hn : 2 ≤ n) (crow : List ℝ) (x : Point ℝ) (X2 : Mat ℝ)
    (t : ℕ) (ht : t < x.length) :
    HasDerivAt (fun s => sumRow (fun c z => c * (Kern.monomial n).eval exp sqrt (x.set t s) z) crow X2)
      ((monoInputRow n crow x X2).getD t 0) (x.getD t 0) := by
  have h := poly_weightedInputDerivative exp sqrt n hn 0 crow x X2 t ht
  have e1 : monoInputRow n crow x X2 = polyInputRow n 0 crow x X2 := by
    simp only [monoInputRow, polyInputRow, monoWeights, polyWeights, add_zero]
  have e2 : (fun s => sumRow (fun c z => c * (Kern.monomial n).eval exp sqrt (x.set t s) z) crow X2) =
      fun s => sumRow (fun c z => c * (Kern.poly n 0).eval exp sqrt (x.set t s) z) crow X2 := by
    funext s; simp only [Kern.eval, add_zero]
  rw [e1, e2]; exact h

/-- exponent 1 (the branch repaired by e15da9fc): the linear case, also where `⟨x,z⟩ = 0` -/
theorem monomial_one_weightedInputDerivative (exp sqrt : ℝ → ℝ) (C X1 X2 : Mat ℝ) (crow : List ℝ) (x : Point ℝ) (t : ℕ)
    (ht : t < x.length) (s₀ : ℝ) :
    monoInputDeriv 1 C X1 X2 = linearInputDeriv C X1 X2 ∧
    HasDerivAt (fun s => sumRow (fun c z => c * (Kern.monomial 1).eval exp sqrt (x.set t s) z) crow X2)
      ((gemmRow crow X2 x.length).getD t 0) s₀ := by
  refine ⟨by simp [monoInputDeriv], ?_⟩
  have h := linear_weightedInputDerivative exp sqrt crow x X2 t ht s₀
  have e : (fun s => sumRow (fun c z => c * (Kern.monomial 1).eval exp sqrt (x.set t s) z) crow X2) =
      fun s => sumRow (fun c z => c * (Kern.linear : Kern ℝ).eval exp sqrt (x.set t s) z) crow X2 := by
    funext s; simp only [Kern.eval, powNat_one]
  rw [e]; exact h

example : HasDerivAt (fun s => sumRow (fun c z => c * (Kern.monomial 3).eval Real.exp Real.sqrt ([1, 2].set 0 s) z) [2, -1] [[0, 1], [1, 1]])
    ((monoInputRow 3 [2, -1] [1, 2] [[0, 1], [1, 1]]).getD 0 0) 1 := by
  have h := monomial_weightedInputDerivative Real.exp Real.sqrt 3 (by norm_num) [2, -1] [1, 2] [[0, 1], [1, 1]] 0 (by simp)
  simpa using h

/-! ## 16. Wrappers that re-index their inputs: SubrangeKernelWrapper, ModelKernel (kernel parameters) -/

theorem sumRow_map (s : Point ℝ → Point ℝ) (f : ℝ → Point ℝ → ℝ) : ∀ (cs : List ℝ) (zs : Mat ℝ),
    sumRow (fun c z => f c (s z)) cs zs = sumRow f cs (zs.map s)
  | [], _ => by simp [sumRow]
  | _ :: _, [] => by simp [sumRow]
  | c :: cs, z :: zs => by simp only [sumRow, List.map_cons]; rw [sumRow_map s f cs zs]

/-- the weighted sum of a kernel that first maps both inputs is the weighted sum of the inner kernel on the mapped batches -/
theorem weightedSum_comap (s : Point ℝ → Point ℝ) (κ : Point ℝ → Point ℝ → ℝ) : ∀ (C X1 X2 : Mat ℝ),
    weightedSum (fun x z => κ (s x) (s z)) C X1 X2 = weightedSum κ C (X1.map s) (X2.map s)
  | [], _, _ => by simp [weightedSum, sumBlock]
  | _ :: _, [], _ => by simp [weightedSum, sumBlock]
  | crow :: C, x :: X1, X2 => by
      have ih := weightedSum_comap s κ C X1 X2
      unfold weightedSum at ih ⊢
      simp only [sumBlock, List.map_cons]
      rw [ih, sumRow_map s (fun c z => c * κ (s x) z) crow X2]

/-- **SubrangeKernelWrapper::weightedParameterDerivative** forwards to the wrapped kernel on `columns(batch, start, end)`:
the model does exactly that, and whatever is the derivative of the wrapped kernel's weighted sum on the sliced batches is the
derivative of the wrapper's weighted sum on the full batches (any parameter `q`, any family `k q`). -/
theorem subrange_weightedParameterDerivative (exp sqrt : ℝ → ℝ) (a b : ℕ) (k : ℝ → Kern ℝ) (C X1 X2 : Mat ℝ) (G p : ℝ)
    (h : HasDerivAt (fun q => weightedSum ((k q).eval exp sqrt) C (X1.map (slice a b)) (X2.map (slice a b))) G p) :
    HasDerivAt (fun q => weightedSum ((Kern.subrange a b (k q)).eval exp sqrt) C X1 X2) G p := by
  have e : (fun q => weightedSum ((Kern.subrange a b (k q)).eval exp sqrt) C X1 X2) =
      fun q => weightedSum ((k q).eval exp sqrt) C (X1.map (slice a b)) (X2.map (slice a b)) := by
    funext q
    rw [← weightedSum_comap (slice a b) ((k q).eval exp sqrt) C X1 X2]
    unfold weightedSum
    exact sumBlock_congr _ _ (fun c x z => by simp only [Kern.eval]) C X1 X2
  rw [e]; exact h

theorem subrange_paramGrad_eq (exp sqrt : ℝ → ℝ) (ad : Bool) (a b : ℕ) (k : Kern ℝ) (C X1 X2 : Mat ℝ) :
    (Kern.subrange a b k).paramGradA exp sqrt ad C X1 X2 =
      k.paramGradA exp sqrt ad C (X1.map (slice a b)) (X2.map (slice a b)) := by
  rw [Kern.paramGradA]

/-- **ModelKernel**, the kernel-parameter part: the weighted sum of `k(f(x), f(z))` is the weighted sum of `k` on the
mapped batches, so a derivative of the inner kernel's weighted sum with respect to an inner-kernel parameter is the
derivative of the model kernel's weighted sum; the model's gradient starts with the inner kernel's gradient on the mapped
batches (`kernelGrad | modelGrad`). -/
theorem mapped_weightedParameterDerivative (exp sqrt : ℝ → ℝ) (A : Mat ℝ) (bv : List ℝ) (k : ℝ → Kern ℝ) (C X1 X2 : Mat ℝ)
    (G p : ℝ)
    (h : HasDerivAt (fun q => weightedSum ((k q).eval exp sqrt) C (X1.map (affine A bv)) (X2.map (affine A bv))) G p) :
    HasDerivAt (fun q => weightedSum ((Kern.mapped A bv (k q)).eval exp sqrt) C X1 X2) G p := by
  have e : (fun q => weightedSum ((Kern.mapped A bv (k q)).eval exp sqrt) C X1 X2) =
      fun q => weightedSum ((k q).eval exp sqrt) C (X1.map (affine A bv)) (X2.map (affine A bv)) := by
    funext q
    rw [← weightedSum_comap (affine A bv) ((k q).eval exp sqrt) C X1 X2]
    unfold weightedSum
    exact sumBlock_congr _ _ (fun c x z => by simp only [Kern.eval]) C X1 X2
  rw [e]; exact h

theorem mapped_paramGrad_prefix (exp sqrt : ℝ → ℝ) (ad : Bool) (A : Mat ℝ) (bv : List ℝ) (k : Kern ℝ) (C X1 X2 : Mat ℝ) :
    ∃ rest, (Kern.mapped A bv k).paramGradA exp sqrt ad C X1 X2 =
      k.paramGradA exp sqrt ad C (X1.map (affine A bv)) (X2.map (affine A bv)) ++ rest := by
  rw [Kern.paramGradA]; exact ⟨_, rfl⟩

example : HasDerivAt (fun q => weightedSum ((Kern.subrange 1 2 (Kern.poly 2 q)).eval Real.exp Real.sqrt) [[1, -2]] [[1, 2]] [[0, 1], [3, 1]])
    (polyParamDeriv 2 1 [[1, -2]] ([[1, 2]].map (slice 1 2)) ([[0, 1], [3, 1]].map (slice 1 2))) 1 :=
  subrange_weightedParameterDerivative Real.exp Real.sqrt 1 2 (fun q => .poly 2 q) _ _ _ _ _
    (poly_weightedParameterDerivative Real.exp Real.sqrt 2 (by norm_num) 1 _ _ _)

/-! ## 17. WeightedSumKernel: the sub-kernel part of the parameter derivative (adaptive sub-kernels) -/

/-- the weighted sum of a `WeightedSumKernel` is the weight-normalised combination of the sub-kernels' weighted sums -/
theorem weightedSum_wsum (exp sqrt : ℝ → ℝ) (ws : List ℝ) (W : ℝ) (ks : List (Kern ℝ)) (C X1 X2 : Mat ℝ) :
    weightedSum ((Kern.wsum ws W ks).eval exp sqrt) C X1 X2 =
      wfold ws (ks.map fun k => weightedSum (k.eval exp sqrt) C X1 X2) 0 / W := by
  have hN := weightedSum_wfold C X1 X2 ws (ks.map fun k => k.eval exp sqrt) (fun _ _ => 0)
  simp only [List.map_map, Function.comp_def] at hN
  have e0 : weightedSum (fun _ _ => (0 : ℝ)) C X1 X2 = 0 := by
    show sumBlock (fun c x z => c * (0 : ℝ)) C X1 X2 = 0
    have e : (fun (c : ℝ) (x z : Point ℝ) => c * (0 : ℝ)) = fun _ _ _ => 0 := by funext c x z; ring
    rw [e]; exact sumBlock_zero C X1 X2
  rw [e0] at hN
  rw [← hN, div_eq_mul_inv, mul_comm]
  unfold weightedSum
  rw [← sumBlock_mul_left]
  exact sumBlock_congr _ _ (fun c x z => by simp only [Kern.eval, evalList_eq_map, div_eq_mul_inv]; ring) C X1 X2

/-- **WeightedSumKernel, adaptive sub-kernel** `i`: `gradient = (weight_i / weightsum) * kernelGrad_i`.  If `G` is the
derivative of the weighted sum of sub-kernel `i` in one of ITS parameters (the other sub-kernels do not depend on it), then
`(w_i / W) * G` is the derivative of the weighted sum of the whole kernel. -/
theorem wsum_subkernel_hasDerivAt (exp sqrt : ℝ → ℝ) (ws : List ℝ) (W : ℝ) (ks : List (Kern ℝ)) (i : ℕ) (k : ℝ → Kern ℝ)
    (C X1 X2 : Mat ℝ) (G p : ℝ) (hi : i < ws.length) (hk : i < ks.length)
    (h : HasDerivAt (fun q => weightedSum ((k q).eval exp sqrt) C X1 X2) G p) :
    HasDerivAt (fun q => weightedSum ((Kern.wsum ws W (ks.set i (k q))).eval exp sqrt) C X1 X2)
      (ws.getD i 0 / W * G) p := by
  set Ss : List ℝ := ks.map fun k => weightedSum (k.eval exp sqrt) C X1 X2 with hSs
  have hSlen : i < Ss.length := by simp [hSs, hk]
  have hfun : (fun q => weightedSum ((Kern.wsum ws W (ks.set i (k q))).eval exp sqrt) C X1 X2) =
      fun q => ((wfold ws Ss 0 - ws.getD i 0 * Ss.getD i 0) + ws.getD i 0 * weightedSum ((k q).eval exp sqrt) C X1 X2) / W := by
    funext q
    rw [weightedSum_wsum, List.map_set]
    -- swap roles: `wfold` is symmetric in (weights, values)
    have key : ∀ (ws vs : List ℝ) (i : ℕ) (v' : ℝ), i < ws.length → i < vs.length →
        wfold ws (vs.set i v') 0 = wfold ws vs 0 - ws.getD i 0 * vs.getD i 0 + ws.getD i 0 * v' := by
      intro ws
      induction ws with
      | nil => intro vs i v' h1; simp at h1
      | cons w ws ih =>
        intro vs i v' h1 h2
        cases vs with
        | nil => simp at h2
        | cons v vs =>
          cases i with
          | zero =>
            simp only [List.set_cons_zero, wfold, List.getD_cons_zero]
            rw [wfold_acc ws vs (0 + w * v'), wfold_acc ws vs (0 + w * v)]; ring
          | succ i =>
            simp only [List.set_cons_succ, wfold, List.getD_cons_succ]
            rw [wfold_acc ws (vs.set i v') (0 + w * v), wfold_acc ws vs (0 + w * v),
              ih vs i v' (by simpa using h1) (by simpa using h2)]
            ring
    rw [key ws Ss i _ hi hSlen]
  rw [hfun]
  have := ((h.const_mul (ws.getD i 0)).const_add (wfold ws Ss 0 - ws.getD i 0 * Ss.getD i 0)).div_const W
  refine this.congr_deriv ?_
  ring

/-! ## 18. NormalizedKernel::weightedParameterDerivative — the chain rule through the quotient and the square roots -/

/-- calculus core: `θ ↦ k(θ) / √a(θ) / √b(θ)` with `a, b > 0` -/
theorem scal_normalized (k a b : ℝ → ℝ) (k' a' b' θ : ℝ) (hk : HasDerivAt k k' θ) (ha : HasDerivAt a a' θ)
    (hb : HasDerivAt b b' θ) (hapos : 0 < a θ) (hbpos : 0 < b θ) :
    HasDerivAt (fun q => k q / Real.sqrt (a q) / Real.sqrt (b q))
      (k' / Real.sqrt (a θ * b θ) - k θ / Real.sqrt (a θ * b θ) / (2 * a θ) * a' - k θ / Real.sqrt (a θ * b θ) / (2 * b θ) * b') θ := by
  have hsa := ha.sqrt (ne_of_gt hapos)
  have hsb := hb.sqrt (ne_of_gt hbpos)
  have hsa0 : Real.sqrt (a θ) ≠ 0 := (Real.sqrt_pos.mpr hapos).ne'
  have hsb0 : Real.sqrt (b θ) ≠ 0 := (Real.sqrt_pos.mpr hbpos).ne'
  have h := (hk.div hsa hsa0).div hsb hsb0
  refine h.congr_deriv ?_
  obtain ⟨sa, hsapos, hsaeq⟩ : ∃ sa : ℝ, 0 < sa ∧ a θ = sa ^ 2 :=
    ⟨Real.sqrt (a θ), Real.sqrt_pos.mpr hapos, (Real.sq_sqrt hapos.le).symm⟩
  obtain ⟨sb, hsbpos, hsbeq⟩ : ∃ sb : ℝ, 0 < sb ∧ b θ = sb ^ 2 :=
    ⟨Real.sqrt (b θ), Real.sqrt_pos.mpr hbpos, (Real.sq_sqrt hbpos.le).symm⟩
  simp only [Pi.div_apply]
  rw [hsaeq, hsbeq, Real.sqrt_mul (sq_nonneg sa), Real.sqrt_sq hsapos.le, Real.sqrt_sq hsbpos.le]
  have hsa' : sa ≠ 0 := hsapos.ne'
  have hsb' : sb ≠ 0 := hsbpos.ne'
  field_simp

/-- **NormalizedKernel::weightedParameterDerivative on a 1×1 block** (`_partial`: single pairs; larger blocks are the same
code summed over the pairs and are tied by the exact correspondence `pderiv` on arbitrary blocks): for every base kernel
family `κ θ` whose derivative in `θ` the base code `G` returns (`G [[c]] [x] [z] = c · ∂κ(x,z)/∂θ`), with a positive
diagonal at both points, the value the code computes from the state (`kxy`, `kxx`, `kyy`) is the derivative of
`c · κ(x,z)/√κ(x,x)/√κ(z,z)` — the chain rule through the quotient and both square roots. -/
theorem normalized_weightedParameterDerivative_partial (κ : ℝ → Point ℝ → Point ℝ → ℝ) (d : Point ℝ → Point ℝ → ℝ) (θ : ℝ)
    (G : Mat ℝ → Mat ℝ → Mat ℝ → ℝ)
    (hd : ∀ x z, HasDerivAt (fun q => κ q x z) (d x z) θ)
    (hG : ∀ (c : ℝ) (x z : Point ℝ), G [[c]] [x] [z] = c * d x z)
    (c : ℝ) (x z : Point ℝ) (hx : 0 < κ θ x x) (hz : 0 < κ θ z z) :
    HasDerivAt (fun q => c * (κ q x z / Real.sqrt (κ q x x) / Real.sqrt (κ q z z)))
      (normParamGradG Real.sqrt (· - ·) G [[κ θ x z]] [κ θ x x] [κ θ z z] [[c]] [x] [z]) θ := by
  have h := (scal_normalized (fun q => κ q x z) (fun q => κ q x x) (fun q => κ q z z) _ _ _ θ (hd x z) (hd x x) (hd z z) hx hz).const_mul c
  refine h.congr_deriv ?_
  have r1 : List.range 1 = [0] := rfl
  simp only [normParamGradG, normWeights, zipMat, colSums, rowSum, two, List.zipWith_cons_cons,
    List.zipWith_nil_right, List.length_cons, List.length_nil, r1, List.map_cons, List.map_nil,
    List.foldl_cons, List.foldl_nil, List.getD_cons_zero, Nat.zero_add, subEachG, hG]
  have hxz : Real.sqrt (κ θ x x * κ θ z z) ≠ 0 := (Real.sqrt_pos.mpr (mul_pos hx hz)).ne'
  have hx' : κ θ x x ≠ 0 := hx.ne'
  have hz' : κ θ z z ≠ 0 := hz.ne'
  field_simp
  ring

/-- non-vacuity: `NormalizedKernel(PolynomialKernel(2, offset))`, derivative in the offset at offset 1 -/
example : HasDerivAt (fun q => (3 : ℝ) * ((Kern.poly 2 q).eval Real.exp Real.sqrt [1, 2] [0, 1] /
      Real.sqrt ((Kern.poly 2 q).eval Real.exp Real.sqrt [1, 2] [1, 2]) / Real.sqrt ((Kern.poly 2 q).eval Real.exp Real.sqrt [0, 1] [0, 1])))
    (normParamGradG Real.sqrt (· - ·) (fun C X1 X2 => polyParamDeriv 2 1 C X1 X2)
      [[(Kern.poly 2 1).eval Real.exp Real.sqrt [1, 2] [0, 1]]] [(Kern.poly 2 1).eval Real.exp Real.sqrt [1, 2] [1, 2]]
      [(Kern.poly 2 1).eval Real.exp Real.sqrt [0, 1] [0, 1]] [[3]] [[1, 2]] [[0, 1]]) 1 := by
  refine normalized_weightedParameterDerivative_partial (fun q => (Kern.poly 2 q).eval Real.exp Real.sqrt)
    (fun x z => 2 * (dot x z + 1)) 1 _ ?_ ?_ 3 [1, 2] [0, 1] ?_ ?_
  · intro x z
    have h := poly_weightedParameterDerivative Real.exp Real.sqrt 2 (by norm_num) 1 [[1]] [x] [z]
    simp only [weightedSum, sumBlock, sumRow, polyParamDeriv] at h
    convert h using 1
    · funext q; simp
    · by_cases hb : dot x z + 1 = 0 <;> simp [safeDiv, hb, ofNatS, powNat] <;> ring
  · intro c x z
    by_cases hb : dot x z + 1 = 0 <;> simp [polyParamDeriv, sumBlock, sumRow, safeDiv, hb, ofNatS, powNat] <;> ring
  · norm_num [Kern.eval, dot, powNat]
  · norm_num [Kern.eval, dot, powNat]

/-! ## 19. evalSkipMissingFeatures: the two overloads agree -/

theorem dot_pad (a b : Point ℝ) : ∀ n : ℕ, dot (List.replicate n (0 : ℝ) ++ a) (List.replicate n 0 ++ b) = dot a b
  | 0 => by simp
  | n + 1 => by simp [List.replicate_succ, dot_pad a b n]

/-- the 4-argument overload `resize`s its temporaries before it `push_back`s the valid features, so the kernel sees `n`
leading zeros in both arguments; for every kernel that `supportsVariableInputSize` (linear, polynomial, monomial — all
functions of `⟨x,z⟩`) this changes nothing: both overloads return the kernel on the features present in both inputs. -/
theorem evalSkip_overloads_agree (exp sqrt : ℝ → ℝ) (k : Kern ℝ) (hk : k.variableInputSize = true) (keep : List Bool)
    (a b : Point ℝ) (hlen : a.length = b.length) :
    evalSkip4 (k.eval exp sqrt) keep a b = evalSkip3 (k.eval exp sqrt) keep a b := by
  unfold evalSkip4 evalSkip3
  rw [hlen]
  cases k <;> simp [Kern.variableInputSize] at hk <;> simp only [Kern.eval, dot_pad]

/-! ## 20. MultiTaskKernel is positive semi-definite when its two factors are -/

/-- `MultiTaskKernel((x,t),(x',t')) = k_input(x,x') · k_task(t,t')`: Schur product of two pulled-back PSD kernels -/
theorem multiTask_psd {κ : Point ℝ → Point ℝ → ℝ} (table : Mat ℝ) (hκ : IsPSD κ)
    (ht : IsPSD (fun i j : ℕ => discreteEval table i j)) : IsPSD (multiTaskEval κ table) :=
  ((hκ.comap (Prod.fst : Point ℝ × ℕ → Point ℝ)).mul (ht.comap (Prod.snd : Point ℝ × ℕ → ℕ))).congr fun a b => by
    simp [multiTaskEval]

/-- `MultiTaskKernel` is symmetric when its factors are -/
theorem multiTask_symm {κ : Point ℝ → Point ℝ → ℝ} (table : Mat ℝ) (hκ : ∀ x z, κ x z = κ z x)
    (ht : ∀ i j, discreteEval table i j = discreteEval table j i) (a b : Point ℝ × ℕ) :
    multiTaskEval κ table a b = multiTaskEval κ table b a := by
  simp only [multiTaskEval, hκ a.1 b.1, ht a.2 b.2]

example : IsPSD (multiTaskEval ((Kern.poly 2 1 : Kern ℝ).eval Real.exp Real.sqrt) [[1]]) := by
  refine multiTask_psd [[1]] (kernel_psd Real.exp Real.sqrt _ (by simp only [Admissible]; norm_num)) ?_
  have : IsPSD (fun i j : ℕ => (if i = 0 then (1 : ℝ) else 0) * (if j = 0 then 1 else 0)) := IsPSD.rankOne _
  refine this.congr fun i j => ?_
  cases i <;> cases j <;> simp [discreteEval]

end SharkVerif.C05


/-! ## 21. calculateKernelMatrixParameterDerivative: blockwise, lower triangle doubled = the full weighted sum,
for EVERY batch partition -/
namespace SharkVerif.C05
open SharkVerif.Kernels

section gramderiv
variable {β : Type}

/-- `Σ_{x ∈ bi (rows sx, sx+1, ..)} Σ_{z ∈ bj (columns sy, sy+1, ..)} W(row, column) · d(x, z)` -/
def blockSumW (W : ℕ → ℕ → ℝ) (d : β → β → ℝ) (sx : ℕ) (bi : List β) (sy : ℕ) (bj : List β) : ℝ :=
  ((bi.zipIdx sx).map fun p => ((bj.zipIdx sy).map fun q => W p.2 q.2 * d p.1 q.1).sum).sum

theorem blockSumW_append_right (W : ℕ → ℕ → ℝ) (d : β → β → ℝ) (sx : ℕ) (bi : List β) (sy : ℕ) (l1 l2 : List β) :
    blockSumW W d sx bi sy (l1 ++ l2) = blockSumW W d sx bi sy l1 + blockSumW W d sx bi (sy + l1.length) l2 := by
  unfold blockSumW
  rw [← List.sum_map_add]
  apply congrArg
  apply List.map_congr_left
  intro p _
  rw [List.zipIdx_append, List.map_append, List.sum_append]

theorem blockSumW_append_left (W : ℕ → ℕ → ℝ) (d : β → β → ℝ) (sx : ℕ) (l1 l2 : List β) (sy : ℕ) (bj : List β) :
    blockSumW W d sx (l1 ++ l2) sy bj = blockSumW W d sx l1 sy bj + blockSumW W d (sx + l1.length) l2 sy bj := by
  unfold blockSumW
  rw [List.zipIdx_append, List.map_append, List.sum_append]

theorem blockSumW_nil_right (W : ℕ → ℕ → ℝ) (d : β → β → ℝ) (sx : ℕ) (bi : List β) (sy : ℕ) :
    blockSumW W d sx bi sy [] = 0 := by
  unfold blockSumW
  simp

theorem blockSumW_symm (W : ℕ → ℕ → ℝ) (d : β → β → ℝ) (hW : ∀ r c, W r c = W c r) (hd : ∀ x z, d x z = d z x)
    (sx : ℕ) (bi : List β) (sy : ℕ) (bj : List β) :
    blockSumW W d sx bi sy bj = blockSumW W d sy bj sx bi := by
  unfold blockSumW
  rw [sum_sum_comm (fun (p q : β × ℕ) => W p.2 q.2 * d p.1 q.1)]
  apply congrArg
  apply List.map_congr_left
  intro q _
  apply congrArg
  apply List.map_congr_left
  intro p _
  rw [hW, hd]

theorem gramDerivInner_done (bg : List (List ℝ) → List β → List β → ℝ) (W : ℕ → ℕ → ℝ) (bi : List β) (sx i : ℕ)
    (rest : List (List β)) (j sy : ℕ) (acc : ℝ) (h : i < j) :
    gramDerivInner (· + ·) (2 * ·) bg W bi sx i rest j sy acc = acc := by
  cases rest with
  | nil => rfl
  | cons bj rest => simp only [gramDerivInner, if_pos h]

theorem gramDerivInner_spec (bg : List (List ℝ) → List β → List β → ℝ) (W : ℕ → ℕ → ℝ) (d : β → β → ℝ) (bi : List β) (sx i : ℕ)
    (hbg : ∀ sy bj, bg (subW W sx bi.length sy bj.length) bi bj = blockSumW W d sx bi sy bj) :
    ∀ (rest : List (List β)) (j sy : ℕ) (acc : ℝ), j ≤ i → i < j + rest.length →
      gramDerivInner (· + ·) (2 * ·) bg W bi sx i rest j sy acc =
        acc + 2 * blockSumW W d sx bi sy (rest.take (i - j)).flatten +
          blockSumW W d sx bi (sy + (rest.take (i - j)).flatten.length) (rest.getD (i - j) [])
  | [], j, sy, acc, h1, h2 => by simp at h2; omega
  | bj :: rest, j, sy, acc, h1, h2 => by
      simp only [gramDerivInner]
      rw [if_neg (by omega), hbg]
      by_cases hji : j = i
      · subst hji
        rw [if_pos rfl, gramDerivInner_done _ _ _ _ _ _ _ _ _ (by omega)]
        simp [blockSumW_nil_right]
      · rw [if_neg hji]
        have hlt : j + 1 ≤ i := by omega
        rw [gramDerivInner_spec bg W d bi sx i hbg rest (j + 1) (sy + bj.length) _ hlt (by simp at h2; omega)]
        obtain ⟨k, hk⟩ : ∃ k, i - j = k + 1 := ⟨i - j - 1, by omega⟩
        have hk' : i - (j + 1) = k := by omega
        rw [hk, hk']
        simp only [List.take_succ_cons, List.flatten_cons, List.getD_cons_succ, List.length_append]
        rw [blockSumW_append_right]
        ring_nf

/-- `T(l) = Σ_r Σ_c W r c · d(l_r, l_c)` over a whole list grows by the cross terms (twice, by symmetry) and the new
diagonal block when a batch is appended -/
theorem blockSumW_total_append (W : ℕ → ℕ → ℝ) (d : β → β → ℝ) (hW : ∀ r c, W r c = W c r) (hd : ∀ x z, d x z = d z x)
    (l m : List β) :
    blockSumW W d 0 (l ++ m) 0 (l ++ m) =
      blockSumW W d 0 l 0 l + 2 * blockSumW W d l.length m 0 l + blockSumW W d l.length m l.length m := by
  rw [blockSumW_append_left, blockSumW_append_right, blockSumW_append_right,
    blockSumW_symm W d hW hd 0 l (0 + l.length) m]
  simp only [Nat.zero_add]
  ring

theorem gramDerivOuter_spec (bg : List (List ℝ) → List β → List β → ℝ) (W : ℕ → ℕ → ℝ) (d : β → β → ℝ)
    (hW : ∀ r c, W r c = W c r) (hd : ∀ x z, d x z = d z x)
    (hbg : ∀ sx bi sy bj, bg (subW W sx bi.length sy bj.length) bi bj = blockSumW W d sx bi sy bj) (all : List (List β)) :
    ∀ (rest pre : List (List β)) (acc : ℝ), all = pre ++ rest →
      gramDerivOuter (· + ·) (2 * ·) bg W all rest pre.length pre.flatten.length acc =
        acc + (blockSumW W d 0 all.flatten 0 all.flatten - blockSumW W d 0 pre.flatten 0 pre.flatten)
  | [], pre, acc, h => by
      simp only [gramDerivOuter]
      rw [h]; simp
  | bi :: rest, pre, acc, h => by
      simp only [gramDerivOuter]
      have hin := gramDerivInner_spec bg W d bi pre.flatten.length pre.length (hbg pre.flatten.length bi) all 0 0 acc
        (Nat.zero_le _) (by rw [h]; simp)
      have htake : all.take (pre.length - 0) = pre := by rw [h]; simp
      have hget : all.getD (pre.length - 0) [] = bi := by rw [h]; simp
      rw [htake, hget] at hin
      rw [hin]
      have ih := gramDerivOuter_spec bg W d hW hd hbg all rest (pre ++ [bi])
        (acc + 2 * blockSumW W d pre.flatten.length bi 0 pre.flatten +
          blockSumW W d pre.flatten.length bi (0 + pre.flatten.length) bi) (by rw [h]; simp)
      simp only [List.length_append, List.length_singleton, List.flatten_append, List.flatten_cons, List.flatten_nil,
        List.append_nil] at ih
      rw [ih, blockSumW_total_append W d hW hd pre.flatten bi]
      simp only [Nat.zero_add]
      ring

/-- **gram_parameterDerivative_correct** — `calculateKernelMatrixParameterDerivative(kernel, dataset, weights)`: whenever the
block derivative `bg` returns `Σᵢⱼ Cᵢⱼ · d(x1ᵢ, x2ⱼ)` for the weight sub-block it is handed (`d` = the partial derivative of
the kernel in one parameter, symmetric because the kernel is), and the weight matrix is symmetric, the blockwise sum over the
lower triangle with the off-diagonal blocks doubled is the full sum `Σ_r Σ_c W r c · d(x_r, x_c)` over the dataset — for
EVERY list of batches (= every batch partition, including empty batches). -/
theorem gram_parameterDerivative_correct (bg : List (List ℝ) → List β → List β → ℝ) (W : ℕ → ℕ → ℝ) (d : β → β → ℝ)
    (hW : ∀ r c, W r c = W c r) (hd : ∀ x z, d x z = d z x)
    (hbg : ∀ sx bi sy bj, bg (subW W sx bi.length sy bj.length) bi bj = blockSumW W d sx bi sy bj)
    (batches : List (List β)) :
    gramParamDeriv (· + ·) (2 * ·) 0 bg W batches = blockSumW W d 0 batches.flatten 0 batches.flatten := by
  have h := gramDerivOuter_spec bg W d hW hd hbg batches batches [] 0 (by simp)
  simp only [List.length_nil, List.flatten_nil] at h
  unfold gramParamDeriv
  rw [h]
  simp [blockSumW]

/-- the Gram-level parameter derivative does not depend on how the data is batched -/
theorem gram_parameterDerivative_partition_independent (bg : List (List ℝ) → List β → List β → ℝ) (W : ℕ → ℕ → ℝ)
    (d : β → β → ℝ) (hW : ∀ r c, W r c = W c r) (hd : ∀ x z, d x z = d z x)
    (hbg : ∀ sx bi sy bj, bg (subW W sx bi.length sy bj.length) bi bj = blockSumW W d sx bi sy bj)
    (p q : List (List β)) (hpq : p.flatten = q.flatten) :
    gramParamDeriv (· + ·) (2 * ·) 0 bg W p = gramParamDeriv (· + ·) (2 * ·) 0 bg W q := by
  rw [gram_parameterDerivative_correct bg W d hW hd hbg p, gram_parameterDerivative_correct bg W d hW hd hbg q, hpq]

/-- non-vacuity: the hypotheses are satisfiable (take the block derivative to be the specification itself) -/
example (W : ℕ → ℕ → ℝ) (hW : ∀ r c, W r c = W c r) :
    gramParamDeriv (· + ·) (2 * ·) 0
      (fun C (b1 b2 : List ℝ) => ((b1.zipIdx 0).map fun p => ((b2.zipIdx 0).map fun q => (C.getD p.2 []).getD q.2 0 * (p.1 * q.1)).sum).sum)
      W [[1, 2], [], [3]] =
    gramParamDeriv (· + ·) (2 * ·) 0
      (fun C (b1 b2 : List ℝ) => ((b1.zipIdx 0).map fun p => ((b2.zipIdx 0).map fun q => (C.getD p.2 []).getD q.2 0 * (p.1 * q.1)).sum).sum)
      W [[1], [2, 3]] := by
  simp [gramParamDeriv, gramDerivOuter, gramDerivInner, subW, List.zipIdx, List.range_succ]
  rw [hW 0 1, hW 1 2]
  ring

end gramderiv

/-! the hypothesis `hbg` of `gram_parameterDerivative_correct` is what the per-kernel derivative theorems deliver: a block
derivative that returns the weighted sum `Σ Cᵢⱼ d(x1ᵢ,x2ⱼ)` of the coefficient block it is handed -/

theorem sumRow_range_eq (w : ℕ → ℝ) (g : Point ℝ → ℝ) : ∀ (bj : Mat ℝ) (sy : ℕ),
    sumRow (fun c z => c * g z) ((List.range bj.length).map fun b => w (sy + b)) bj =
      ((bj.zipIdx sy).map fun q => w q.2 * g q.1).sum
  | [], _ => by simp [sumRow]
  | z :: zs, sy => by
      have ih := sumRow_range_eq w g zs (sy + 1)
      have e : (List.range zs.length).map (fun b => w (sy + (b + 1))) = (List.range zs.length).map fun b => w (sy + 1 + b) := by
        apply List.map_congr_left; intro b _; congr 1; omega
      simp only [List.length_cons, List.range_succ_eq_map, List.map_cons, List.map_map, Function.comp_def, sumRow,
        List.zipIdx_cons, List.sum_cons, Nat.add_zero, Nat.succ_eq_add_one]
      rw [e, ih]

theorem weightedSum_subW (W : ℕ → ℕ → ℝ) (d : Point ℝ → Point ℝ → ℝ) (sy : ℕ) (bj : Mat ℝ) : ∀ (bi : Mat ℝ) (sx : ℕ),
    weightedSum d (subW W sx bi.length sy bj.length) bi bj = blockSumW W d sx bi sy bj
  | [], _ => by simp [weightedSum, subW, sumBlock, blockSumW]
  | x :: xs, sx => by
      have ih := weightedSum_subW W d sy bj xs (sx + 1)
      have e : (List.range xs.length).map (fun a => (List.range bj.length).map fun b => W (sx + (a + 1)) (sy + b)) =
          (List.range xs.length).map fun a => (List.range bj.length).map fun b => W (sx + 1 + a) (sy + b) := by
        apply List.map_congr_left; intro a _; apply List.map_congr_left; intro b _; congr 1; omega
      unfold weightedSum subW blockSumW at *
      simp only [List.length_cons, List.range_succ_eq_map, List.map_cons, List.map_map, Function.comp_def, sumBlock,
        List.zipIdx_cons, List.sum_cons, Nat.add_zero, Nat.succ_eq_add_one]
      rw [e, ih, sumRow_range_eq (fun c => W sx c) (fun z => d x z) bj sy]

/-- **end-to-end for the Gaussian kernel**: `calculateKernelMatrixParameterDerivative` with the modelled
`GaussianRbfKernel::weightedParameterDerivative` as block derivative is, for every batch partition and every symmetric weight
matrix, the derivative in `γ` of `Σ_r Σ_c W r c · exp(-γ‖x_r − x_c‖²)`. -/
theorem gauss_gram_parameterDerivative (W : ℕ → ℕ → ℝ) (hW : ∀ r c, W r c = W c r) (γ : ℝ) (batches : List (Mat ℝ)) :
    gramParamDeriv (· + ·) (2 * ·) 0 (fun C b1 b2 => gaussParamDeriv Real.exp γ C b1 b2) W batches =
      blockSumW W (fun x z => -(Real.exp (-γ * distSqr x z) * distSqr x z)) 0 batches.flatten 0 batches.flatten := by
  apply gram_parameterDerivative_correct _ W _ hW (fun x z => by rw [distSqr_comm])
  intro sx bi sy bj
  rw [← weightedSum_subW]
  unfold gaussParamDeriv weightedSum
  rw [← sumBlock_neg]
  exact sumBlock_congr _ _ (fun c x z => by ring) _ _ _

end SharkVerif.C05
