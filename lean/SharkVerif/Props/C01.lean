/-
C01 — Linear-algebra expressions evaluate to their element-wise mathematical meaning.
(first version: proxy index composition; extended below)
-/
import SharkVerif.Model.Remora
namespace SharkVerif.C01
open SharkVerif.Remora

/-- `row(trans(A), j)` addresses the elements `A(k, j)` -/
theorem proxy_index_column (m : MRef) (j k : Nat) : (m.column j).addr k = m.addr k j := by
  unfold MRef.column MRef.row MRef.trans VRef.addr MRef.addr
  cases m.rowMajor <;> simp <;> omega

end SharkVerif.C01
