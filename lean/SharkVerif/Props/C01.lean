/-
C01 — Linear-algebra expressions evaluate to their element-wise mathematical meaning.

Property theorems about the model `Model/Remora.lean`:

* the denotation `⟦e⟧ = (size, index ↦ R)` of the deep embedding `VExp/MExp` *is* the documented
  element-wise definition (quickref `remora.rst`); every rewrite rule of
  `detail/expression_optimizers.hpp` preserves it — those 86 lemmas are **generated** on every run
  by `translate/remora_rules.py` into `Gen/RemoraRules.lean`; `optimize_sound` lifts per-rule
  soundness (denotation and well-formedness preserved) to any composition of rules; `genOpt_run_sound`
  instantiates it for the optimiser generated from the rule table (`Gen/RemoraOpt.lean`);
* `assign_alias_correct`: the aliasing assignment forms `x op= e` give
  `x'(i) = f(x(i), ⟦e⟧_old(i))` and leave everything else untouched, for **every** `e`, also when
  `e` reads the target (the "target appears on the right-hand side" clause);
* `assign_noalias_correct`: the in-place forms `noalias(x) op= e` give the same result when `e`
  does not read the target's storage; `assign_noalias_elementwise_correct`: … or reads it only
  at the index being written;
* `orientation_irrelevant`: storing a matrix into a row-major and into a column-major container
  and reading it back denotes the same matrix, for all shapes (0×n, n×0, 1×n …);
* `proxy_index_*`: the address arithmetic of nested dense proxies composes to the definition;
  `proxy_read_*`: a dense proxy read from memory denotes the expression-level proxy of the matrix read
  from memory (the dense.hpp optimisers agree with the proxy specification).

The model is tied to the C++ by T1 (rule table) and the correspondence check K-C01
(`checks/c01.py`): generated programs, exact comparison, both BLAS configurations.
-/
import SharkVerif.Lemmas.Remora
import SharkVerif.Lemmas.RemoraKernels
import SharkVerif.Gen.RemoraKernelConsts
import SharkVerif.Gen.RemoraRules
import SharkVerif.Gen.RemoraOpt
import Mathlib.Data.List.Nodup
namespace SharkVerif.C01
open SharkVerif.Remora

/-! ## 1. denotational equivalence is an equivalence; composite rewrites -/
section Equiv
variable {R : Type} [CommRing R]

theorem VExp.equiv_refl (a : VExp R) : a ≈ᵥ a := ⟨rfl, fun _ _ => rfl⟩
theorem MExp.equiv_refl (a : MExp R) : a ≈ₘ a := ⟨rfl, rfl, fun _ _ _ _ => rfl⟩

theorem VExp.equiv_trans {a b c : VExp R} (h1 : a ≈ᵥ b) (h2 : b ≈ᵥ c) : a ≈ᵥ c :=
  ⟨h1.1.trans h2.1, fun i hi => (h1.2 i (h2.1 ▸ hi)).trans (h2.2 i hi)⟩

theorem MExp.equiv_trans {a b c : MExp R} (h1 : a ≈ₘ b) (h2 : b ≈ₘ c) : a ≈ₘ c :=
  ⟨h1.1.trans h2.1, h1.2.1.trans h2.2.1,
   fun i j hi hj => (h1.2.2 i j (h2.1 ▸ hi) (h2.2.1 ▸ hj)).trans (h2.2.2 i j hi hj)⟩

/-- equivalent expressions print the same (what the driver outputs and the harness compares) -/
theorem VExp.toList_eq_of_equiv {a b : VExp R} (h : a ≈ᵥ b) : a.toList = b.toList := by
  unfold VExp.toList
  rw [h.1]
  apply List.map_congr_left
  intro i hi
  exact h.2 i (List.mem_range.mp hi)

/-- A rewriting system in the style of `expression_optimizers.hpp`: one layer of rewriting
(`stepV`/`stepM`) which may call the optimiser recursively on sub-terms through `recV`/`recM`. -/
structure Optimizer (R : Type) where
  stepV : (VExp R → VExp R) → (MExp R → MExp R) → VExp R → VExp R
  stepM : (VExp R → VExp R) → (MExp R → MExp R) → MExp R → MExp R

/-- the optimiser unfolded `n` layers deep (template instantiation depth) -/
def Optimizer.run (o : Optimizer R) : Nat → (VExp R → VExp R) × (MExp R → MExp R)
  | 0 => (id, id)
  | n+1 => (o.stepV (o.run n).1 (o.run n).2, o.stepM (o.run n).1 (o.run n).2)

/-- every layer is sound *given* that the recursive calls are — denotation preserved **and**
well-formedness preserved (so that rules compose): exactly the shape of the generated
`rule_*` / `rule_*_wf` lemmas (recursive call = fresh variable + induction hypothesis) -/
structure Optimizer.Sound (o : Optimizer R) : Prop where
  v : ∀ recV recM, (∀ e : VExp R, e.WF → recV e ≈ᵥ e ∧ (recV e).WF) →
        (∀ m : MExp R, m.WF → recM m ≈ₘ m ∧ (recM m).WF) →
        ∀ e : VExp R, e.WF → o.stepV recV recM e ≈ᵥ e ∧ (o.stepV recV recM e).WF
  m : ∀ recV recM, (∀ e : VExp R, e.WF → recV e ≈ᵥ e ∧ (recV e).WF) →
        (∀ m : MExp R, m.WF → recM m ≈ₘ m ∧ (recM m).WF) →
        ∀ e : MExp R, e.WF → o.stepM recV recM e ≈ₘ e ∧ (o.stepM recV recM e).WF

/-- **optimize_sound**: if every rule is sound, every composite rewrite — to any depth — denotes
the same as the original expression (and is again well-formed). -/
theorem optimize_sound (o : Optimizer R) (h : o.Sound) (n : Nat) :
    (∀ e : VExp R, e.WF → (o.run n).1 e ≈ᵥ e ∧ ((o.run n).1 e).WF) ∧
    (∀ m : MExp R, m.WF → (o.run n).2 m ≈ₘ m ∧ ((o.run n).2 m).WF) := by
  induction n with
  | zero => exact ⟨fun e he => ⟨VExp.equiv_refl e, he⟩, fun m hm => ⟨MExp.equiv_refl m, hm⟩⟩
  | succ n ih => exact ⟨h.v _ _ ih.1 ih.2, h.m _ _ ih.1 ih.2⟩

/-- the optimiser **generated from the rule table** (`Gen/RemoraOpt.lean`, regenerated on every
run): all rules of the proxy, scalar-multiply and unary families whose recursive calls take
results of earlier calls or sub-terms of the matched expression (69 of the 86 translated rules at this commit,
`Rules.genOptRuleCount`). -/
def genOpt : Optimizer R := ⟨Rules.genStepV, Rules.genStepM⟩

theorem genOpt_sound : (genOpt (R := R)).Sound where
  v := fun recV recM hV hM e hwf => Rules.genStepV_sound recV recM hV hM e hwf
  m := fun recV recM hV hM e hwf => Rules.genStepM_sound recV recM hV hM e hwf

/-- **every composite rewrite by the generated optimiser, to any depth, preserves the denotation** -/
theorem genOpt_run_sound (n : Nat) :
    (∀ e : VExp R, e.WF → ((genOpt (R := R)).run n).1 e ≈ᵥ e ∧ (((genOpt (R := R)).run n).1 e).WF) ∧
    (∀ m : MExp R, m.WF → ((genOpt (R := R)).run n).2 m ≈ₘ m ∧ (((genOpt (R := R)).run n).2 m).WF) :=
  optimize_sound genOpt genOpt_sound n

end Equiv

/-! ## 2. assignment -/
section Assign
variable {σ R : Type}

/-- what is assumed of a memory: reading back a written cell, other cells unchanged -/
structure Lawful (ops : MemOps σ R) : Prop where
  rd_wr_same : ∀ s a v, ops.rd (ops.wr s a v) a = v
  rd_wr_other : ∀ s a b v, b ≠ a → ops.rd (ops.wr s a v) b = ops.rd s b

theorem funMem_lawful : Lawful (funMem R) where
  rd_wr_same := by intro s a v; simp [funMem]
  rd_wr_other := by intro s a b v h; simp [funMem, h]

/-- the element loop with a right-hand side that does not depend on the memory (a temporary) -/
theorem assignLoop_const (ops : MemOps σ R) (hl : Lawful ops) (f : R → R → R) (addr : Nat → Nat)
    (g : Nat → R) : ∀ (idxs : List Nat), idxs.Nodup →
    (∀ i ∈ idxs, ∀ j ∈ idxs, addr i = addr j → i = j) → ∀ s : σ,
    (∀ i ∈ idxs, ops.rd (assignLoop ops f addr (fun _ => g) idxs s) (addr i) = f (ops.rd s (addr i)) (g i)) ∧
    (∀ a, (∀ i ∈ idxs, a ≠ addr i) → ops.rd (assignLoop ops f addr (fun _ => g) idxs s) a = ops.rd s a) := by
  intro idxs
  induction idxs with
  | nil => intro _ _ s; exact ⟨fun i hi => (List.not_mem_nil hi).elim, fun a _ => rfl⟩
  | cons i0 rest ih =>
    intro hnd hinj s
    have hnd' := (List.nodup_cons.mp hnd)
    have hinj' : ∀ i ∈ rest, ∀ j ∈ rest, addr i = addr j → i = j :=
      fun i hi j hj => hinj i (List.mem_cons_of_mem _ hi) j (List.mem_cons_of_mem _ hj)
    have ih' := ih hnd'.2 hinj' (ops.wr s (addr i0) (f (ops.rd s (addr i0)) (g i0)))
    have hne : ∀ i ∈ rest, addr i0 ≠ addr i := by
      intro i hi h
      have := hinj i0 (List.mem_cons_self ..) i (List.mem_cons_of_mem _ hi) h
      exact hnd'.1 (this ▸ hi)
    simp only [assignLoop, List.foldl_cons] at ih' ⊢
    constructor
    · intro i hi
      rcases List.mem_cons.mp hi with h | h
      · subst h
        rw [ih'.2 (addr i) hne, hl.rd_wr_same]
      · rw [ih'.1 i h, hl.rd_wr_other _ _ _ _ (fun e => hne i h e.symm)]
    · intro a ha
      rw [ih'.2 a (fun i hi => ha i (List.mem_cons_of_mem _ hi)),
          hl.rd_wr_other _ _ _ _ (ha i0 (List.mem_cons_self ..))]

/-- **assign_alias_correct** — `x op= e` (forms `=`, `+=`, `-=`, `*=`, `/=`: any `f`): every target
element becomes `f(old x(i), ⟦e⟧ on the OLD memory at i)`, whatever `e` reads — in particular
when the target occurs in `e` — and no other cell changes.  `idxs` is the kernel's element
order (any duplicate-free order), `addr` the target proxy's (injective) index → address map. -/
theorem assign_alias_correct (ops : MemOps σ R) (hl : Lawful ops) (f : R → R → R) (addr : Nat → Nat)
    (e : σ → Nat → R) (idxs : List Nat) (hnd : idxs.Nodup)
    (hinj : ∀ i ∈ idxs, ∀ j ∈ idxs, addr i = addr j → i = j) (s : σ) :
    (∀ i ∈ idxs, ops.rd (assignAlias ops f addr e idxs s) (addr i) = f (ops.rd s (addr i)) (e s i)) ∧
    (∀ a, (∀ i ∈ idxs, a ≠ addr i) → ops.rd (assignAlias ops f addr e idxs s) a = ops.rd s a) :=
  assignLoop_const ops hl f addr (e s) idxs hnd hinj s

/-- in-place evaluation agrees with evaluation through a temporary when the right-hand side
does not read the cells being written -/
theorem assignLoop_indep (ops : MemOps σ R) (hl : Lawful ops) (f : R → R → R) (addr : Nat → Nat)
    (e : σ → Nat → R) (target : List Nat)
    (hindep : ∀ s1 s2 : σ, (∀ a, (∀ i ∈ target, a ≠ addr i) → ops.rd s1 a = ops.rd s2 a) →
      ∀ i, e s1 i = e s2 i) (s0 : σ) :
    ∀ (idxs : List Nat), (∀ i ∈ idxs, i ∈ target) → ∀ s : σ,
    (∀ a, (∀ i ∈ target, a ≠ addr i) → ops.rd s a = ops.rd s0 a) →
    assignLoop ops f addr e idxs s = assignLoop ops f addr (fun _ => e s0) idxs s := by
  intro idxs
  induction idxs with
  | nil => intro _ _ _; rfl
  | cons i0 rest ih =>
    intro hsub s hag
    simp only [assignLoop, List.foldl_cons]
    rw [hindep s s0 hag i0]
    apply ih (fun i hi => hsub i (List.mem_cons_of_mem _ hi))
    intro a ha
    rw [hl.rd_wr_other _ _ _ _ (ha i0 (hsub i0 (List.mem_cons_self ..)))]
    exact hag a ha

/-- **assign_noalias_correct** — `noalias(x) op= e` evaluated in place, in kernel order: if the
storage of the target is disjoint from what `e` reads (`e` gives the same values on memories
that agree outside the target cells), the result is the documented one. -/
theorem assign_noalias_correct (ops : MemOps σ R) (hl : Lawful ops) (f : R → R → R) (addr : Nat → Nat)
    (e : σ → Nat → R) (idxs : List Nat) (hnd : idxs.Nodup)
    (hinj : ∀ i ∈ idxs, ∀ j ∈ idxs, addr i = addr j → i = j)
    (hdisj : ∀ s1 s2 : σ, (∀ a, (∀ i ∈ idxs, a ≠ addr i) → ops.rd s1 a = ops.rd s2 a) →
      ∀ i, e s1 i = e s2 i) (s : σ) :
    (∀ i ∈ idxs, ops.rd (assignNoalias ops f addr e idxs s) (addr i) = f (ops.rd s (addr i)) (e s i)) ∧
    (∀ a, (∀ i ∈ idxs, a ≠ addr i) → ops.rd (assignNoalias ops f addr e idxs s) a = ops.rd s a) := by
  unfold assignNoalias
  rw [assignLoop_indep ops hl f addr e idxs hdisj s idxs (fun _ h => h) s (fun _ _ => rfl)]
  exact assignLoop_const ops hl f addr (e s) idxs hnd hinj s

/-- the aliasing and the alias-free form agree under disjointness -/
theorem assign_noalias_eq_alias (ops : MemOps σ R) (hl : Lawful ops) (f : R → R → R) (addr : Nat → Nat)
    (e : σ → Nat → R) (idxs : List Nat)
    (hdisj : ∀ s1 s2 : σ, (∀ a, (∀ i ∈ idxs, a ≠ addr i) → ops.rd s1 a = ops.rd s2 a) →
      ∀ i, e s1 i = e s2 i) (s : σ) :
    assignNoalias ops f addr e idxs s = assignAlias ops f addr e idxs s := by
  unfold assignNoalias assignAlias
  exact assignLoop_indep ops hl f addr e idxs hdisj s idxs (fun _ h => h) s (fun _ _ => rfl)

/-- element-wise right-hand sides that read the target only at the index being written
(`noalias(x) *= y`, `noalias(x) = x + y` with element-wise kernels): generalised loop lemma.
`done` are the indices already processed. -/
theorem assignLoop_elementwise (ops : MemOps σ R) (hl : Lawful ops) (f : R → R → R) (addr : Nat → Nat)
    (e : σ → Nat → R) (s0 : σ) :
    ∀ (idxs done : List Nat), (done ++ idxs).Nodup →
    (∀ i ∈ done ++ idxs, ∀ j ∈ done ++ idxs, addr i = addr j → i = j) →
    (∀ i ∈ idxs, ∀ s1 s2 : σ, (∀ a, (∀ j ∈ done ++ idxs, j ≠ i → a ≠ addr j) → ops.rd s1 a = ops.rd s2 a) →
      e s1 i = e s2 i) →
    ∀ s : σ, (∀ a, (∀ j ∈ done, a ≠ addr j) → ops.rd s a = ops.rd s0 a) →
    (∀ i ∈ idxs, ops.rd (assignLoop ops f addr e idxs s) (addr i) = f (ops.rd s0 (addr i)) (e s0 i)) ∧
    (∀ a, (∀ i ∈ idxs, a ≠ addr i) → ops.rd (assignLoop ops f addr e idxs s) a = ops.rd s a) := by
  intro idxs
  induction idxs with
  | nil => intro _ _ _ _ s _; exact ⟨fun i hi => (List.not_mem_nil hi).elim, fun a _ => rfl⟩
  | cons i0 rest ih =>
    intro done hnd hinj hloc s hag
    have hmem0 : i0 ∈ done ++ i0 :: rest := List.mem_append_right _ (List.mem_cons_self ..)
    have hi0_notin_done : i0 ∉ done := by
      intro h
      have := List.nodup_append.mp hnd
      exact this.2.2 i0 h i0 (List.mem_cons_self ..) rfl
    have hi0_notin_rest : i0 ∉ rest := by
      have := (List.nodup_append.mp hnd).2.1
      exact (List.nodup_cons.mp this).1
    -- the value read for index i0 on the current memory equals the one on the original memory
    have he : e s i0 = e s0 i0 := by
      apply hloc i0 (List.mem_cons_self ..) s s0
      intro a ha
      apply hag a
      intro j hj
      exact ha j (List.mem_append_left _ hj) (fun h => hi0_notin_done (h ▸ hj))
    have hrd : ops.rd s (addr i0) = ops.rd s0 (addr i0) := by
      apply hag
      intro j hj h
      have := hinj i0 hmem0 j (List.mem_append_left _ hj) h
      exact hi0_notin_done (this ▸ hj)
    -- re-associate: done ++ i0 :: rest = (done ++ [i0]) ++ rest
    have hassoc : done ++ i0 :: rest = (done ++ [i0]) ++ rest := by simp
    have ih' := ih (done ++ [i0]) (hassoc ▸ hnd) (hassoc ▸ hinj)
      (fun i hi s1 s2 h => hloc i (List.mem_cons_of_mem _ hi) s1 s2 (hassoc ▸ h))
      (ops.wr s (addr i0) (f (ops.rd s (addr i0)) (e s i0)))
      (by
        intro a ha
        have hne : a ≠ addr i0 := ha i0 (List.mem_append_right _ (List.mem_singleton_self ..))
        rw [hl.rd_wr_other _ _ _ _ hne]
        exact hag a (fun j hj => ha j (List.mem_append_left _ hj)))
    have hne : ∀ i ∈ rest, addr i0 ≠ addr i := by
      intro i hi h
      have := hinj i0 hmem0 i (List.mem_append_right _ (List.mem_cons_of_mem _ hi)) h
      exact hi0_notin_rest (this ▸ hi)
    simp only [assignLoop, List.foldl_cons] at ih' ⊢
    constructor
    · intro i hi
      rcases List.mem_cons.mp hi with h | h
      · subst h
        rw [ih'.2 (addr i) hne, hl.rd_wr_same, he, hrd]
      · exact ih'.1 i h
    · intro a ha
      rw [ih'.2 a (fun i hi => ha i (List.mem_cons_of_mem _ hi)),
          hl.rd_wr_other _ _ _ _ (ha i0 (List.mem_cons_self ..))]

/-- **assign_noalias_elementwise_correct** — `noalias(x) op= e` where `e(i)` may read the target,
but only at the cell of index `i` itself. -/
theorem assign_noalias_elementwise_correct (ops : MemOps σ R) (hl : Lawful ops) (f : R → R → R)
    (addr : Nat → Nat) (e : σ → Nat → R) (idxs : List Nat) (hnd : idxs.Nodup)
    (hinj : ∀ i ∈ idxs, ∀ j ∈ idxs, addr i = addr j → i = j)
    (hloc : ∀ i ∈ idxs, ∀ s1 s2 : σ, (∀ a, (∀ j ∈ idxs, j ≠ i → a ≠ addr j) → ops.rd s1 a = ops.rd s2 a) →
      e s1 i = e s2 i) (s : σ) :
    (∀ i ∈ idxs, ops.rd (assignNoalias ops f addr e idxs s) (addr i) = f (ops.rd s (addr i)) (e s i)) ∧
    (∀ a, (∀ i ∈ idxs, a ≠ addr i) → ops.rd (assignNoalias ops f addr e idxs s) a = ops.rd s a) := by
  unfold assignNoalias
  exact assignLoop_elementwise ops hl f addr e s idxs [] (by simpa using hnd) (by simpa using hinj)
    (by simpa using hloc) s (fun _ _ => rfl)

end Assign

/-! ## 3. dense storage: proxies and orientation -/
section Storage

theorem proxy_index_trans (m : MRef) (i j : Nat) : m.trans.addr i j = m.addr j i := by
  unfold MRef.trans MRef.addr
  cases m.rowMajor <;> simp

/-- `row(trans(A), j)` addresses the elements `A(k, j)` -/
theorem proxy_index_column (m : MRef) (j k : Nat) : (m.column j).addr k = m.addr k j := by
  unfold MRef.column MRef.row MRef.trans VRef.addr MRef.addr
  cases m.rowMajor <;> simp <;> omega

theorem proxy_index_row (m : MRef) (i k : Nat) : (m.row i).addr k = m.addr i k := by
  unfold MRef.row VRef.addr MRef.addr
  cases m.rowMajor <;> simp <;> omega

theorem proxy_index_diag (m : MRef) (k : Nat) : m.diag.addr k = m.addr k k := by
  unfold MRef.diag VRef.addr MRef.addr
  cases m.rowMajor <;> simp [Nat.mul_add] <;> omega

theorem proxy_index_vrange (v : VRef) (s t k : Nat) : (v.range s t).addr k = v.addr (s + k) := by
  unfold VRef.range VRef.addr
  simp [Nat.add_mul]; omega

theorem proxy_index_vrange_vrange (v : VRef) (s t s' t' k : Nat) :
    ((v.range s t).range s' t').addr k = v.addr (s + s' + k) := by
  rw [proxy_index_vrange, proxy_index_vrange]; congr 1; omega

theorem proxy_index_mrange (m : MRef) (s1 e1 s2 e2 i j : Nat) :
    (m.range s1 e1 s2 e2).addr i j = m.addr (s1 + i) (s2 + j) := by
  unfold MRef.range MRef.addr
  cases m.rowMajor <;> simp [Nat.add_mul] <;> omega

theorem proxy_index_rows (m : MRef) (s e i j : Nat) : (m.rows s e).addr i j = m.addr (s + i) j := by
  unfold MRef.rows; rw [proxy_index_mrange]; simp

theorem proxy_index_columns (m : MRef) (s e i j : Nat) : (m.columns s e).addr i j = m.addr i (s + j) := by
  unfold MRef.columns; rw [proxy_index_trans, proxy_index_rows, proxy_index_trans]

/-- nesting: `subrange(row(trans(A), j), s, t)(k) = A(s + k, j)` -/
theorem proxy_index_range_row_trans (m : MRef) (j s t k : Nat) :
    ((m.trans.row j).range s t).addr k = m.addr (s + k) j := by
  rw [proxy_index_vrange, proxy_index_row, proxy_index_trans]

/-- nesting: `row(subrange(A, s1, e1, s2, e2), i)(k) = A(s1 + i, s2 + k)` -/
theorem proxy_index_row_mrange (m : MRef) (s1 e1 s2 e2 i k : Nat) :
    ((m.range s1 e1 s2 e2).row i).addr k = m.addr (s1 + i) (s2 + k) := by
  rw [proxy_index_row, proxy_index_mrange]

/-- nesting: `diag(trans(subrange(A, ...)))(k) = A(s1 + k, s2 + k)` -/
theorem proxy_index_diag_trans_mrange (m : MRef) (s1 e1 s2 e2 k : Nat) :
    ((m.range s1 e1 s2 e2).trans.diag).addr k = m.addr (s1 + k) (s2 + k) := by
  rw [proxy_index_diag, proxy_index_trans, proxy_index_mrange]

/-- `to_vector(A)` of a container linearises in *storage* order: row by row for a row-major,
column by column for a column-major container -/
theorem proxy_index_linear_row_major (base n1 n2 k : Nat) :
    (MRef.container base n1 n2 true).linear.addr k = (MRef.container base n1 n2 true).addr (k / n2) (k % n2) := by
  simp only [MRef.container, MRef.linear, VRef.addr, MRef.addr, if_true, Nat.mul_one]
  have := Nat.div_add_mod k n2
  rw [Nat.mul_comm] at this
  omega

theorem proxy_index_linear_column_major (base n1 n2 k : Nat) :
    (MRef.container base n1 n2 false).linear.addr k = (MRef.container base n1 n2 false).addr (k % n1) (k / n1) := by
  simp only [MRef.container, MRef.linear, VRef.addr, MRef.addr, Bool.false_eq_true, if_false, Nat.mul_one]
  have := Nat.div_add_mod k n1
  rw [Nat.mul_comm] at this
  omega

/-- sizes of the proxies -/
theorem proxy_size (m : MRef) (s1 e1 s2 e2 i : Nat) :
    ((m.range s1 e1 s2 e2).row i).size = e2 - s2 ∧ (m.trans).size1 = m.size2 ∧ (m.column i).size = m.size1 := by
  unfold MRef.column MRef.row MRef.range MRef.trans
  cases m.rowMajor <;> simp

theorem idx_inj {n i j i' j' : Nat} (hj : j < n) (hj' : j' < n) (h : i * n + j = i' * n + j') :
    i = i' ∧ j = j' := by
  have hn : 0 < n := by omega
  have h1 : (i * n + j) / n = i := by
    rw [Nat.mul_comm, Nat.mul_add_div hn, Nat.div_eq_of_lt hj, Nat.add_zero]
  have h2 : (i' * n + j') / n = i' := by
    rw [Nat.mul_comm, Nat.mul_add_div hn, Nat.div_eq_of_lt hj', Nat.add_zero]
  have hi : i = i' := by rw [← h1, ← h2, h]
  subst hi
  exact ⟨rfl, by omega⟩

/-- the index maps of a container — row-major and column-major — are injective on its index
rectangle, for every shape (including `0 × n`, `n × 0`, `1 × n`) -/
theorem container_addr_injective (base n1 n2 : Nat) (rm : Bool) (i j i' j' : Nat)
    (hi : i < n1) (hj : j < n2) (hi' : i' < n1) (hj' : j' < n2)
    (h : (MRef.container base n1 n2 rm).addr i j = (MRef.container base n1 n2 rm).addr i' j') :
    i = i' ∧ j = j' := by
  unfold MRef.container MRef.addr at h
  cases rm
  · simp at h
    have := idx_inj hi hi' (by omega : j * n1 + i = j' * n1 + i')
    exact ⟨this.2, this.1⟩
  · simp at h
    exact idx_inj hj hj' (by omega)

end Storage

section Orientation
variable {σ R : Type} [Zero R] [Add R] [Mul R]

/-- **orientation_irrelevant** — assign the same matrix `val` (any `n1 × n2`, incl. empty shapes)
to a row-major and to a column-major container, each in any duplicate-free element order covering
the index rectangle (row sweep, column sweep, …), and read both back: they denote the same matrix,
namely `val`. -/
theorem orientation_irrelevant (ops : MemOps σ R) (hl : Lawful ops) (n1 n2 base1 base2 : Nat)
    (val : Nat → Nat → R) (idxs1 idxs2 : List Nat)
    (hnd1 : idxs1.Nodup) (hnd2 : idxs2.Nodup)
    (hc1 : ∀ k, k ∈ idxs1 ↔ k < n1 * n2) (hc2 : ∀ k, k ∈ idxs2 ↔ k < n1 * n2) (s1 s2 : σ) :
    let mr := MRef.container base1 n1 n2 true
    let mc := MRef.container base2 n1 n2 false
    let e : σ → Nat → R := fun _ k => val (k / n2) (k % n2)
    let sr := assignAlias ops (fun _ y => y) (fun k => mr.addr (k / n2) (k % n2)) e idxs1 s1
    let sc := assignAlias ops (fun _ y => y) (fun k => mc.addr (k / n2) (k % n2)) e idxs2 s2
    ∀ i j, i < n1 → j < n2 →
      (mr.read (ops.rd sr)).get i j = val i j ∧ (mc.read (ops.rd sc)).get i j = val i j := by
  intro mr mc e sr sc i j hi hj
  have hk : i * n2 + j < n1 * n2 := by
    calc i * n2 + j < i * n2 + n2 := by omega
      _ = (i + 1) * n2 := by rw [Nat.add_mul]; simp
      _ ≤ n1 * n2 := Nat.mul_le_mul_right _ hi
  have hdiv : (i * n2 + j) / n2 = i := by
    rw [Nat.mul_comm, Nat.mul_add_div (by omega), Nat.div_eq_of_lt hj, Nat.add_zero]
  have hmod : (i * n2 + j) % n2 = j := by
    rw [Nat.mul_comm, Nat.mul_add_mod, Nat.mod_eq_of_lt hj]
  have inj : ∀ (m : MRef), (∀ a b a' b', a < n1 → b < n2 → a' < n1 → b' < n2 →
      m.addr a b = m.addr a' b' → a = a' ∧ b = b') →
      ∀ (idxs : List Nat), (∀ k, k ∈ idxs ↔ k < n1 * n2) →
      ∀ k ∈ idxs, ∀ k' ∈ idxs, m.addr (k / n2) (k % n2) = m.addr (k' / n2) (k' % n2) → k = k' := by
    intro m hm idxs hc k hkm k' hkm' h
    have hn2 : 0 < n2 := by omega
    have b1 : k / n2 < n1 := (Nat.div_lt_iff_lt_mul hn2).mpr ((hc k).mp hkm)
    have b2 : k' / n2 < n1 := (Nat.div_lt_iff_lt_mul hn2).mpr ((hc k').mp hkm')
    have := hm _ _ _ _ b1 (Nat.mod_lt _ hn2) b2 (Nat.mod_lt _ hn2) h
    rw [← Nat.div_add_mod k n2, ← Nat.div_add_mod k' n2, this.1, this.2]
  have r1 := (assign_alias_correct ops hl (fun _ y => y) (fun k => mr.addr (k / n2) (k % n2)) e idxs1 hnd1
    (inj mr (fun a b a' b' => container_addr_injective base1 n1 n2 true a b a' b') idxs1 hc1) s1).1
      (i * n2 + j) ((hc1 _).mpr hk)
  have r2 := (assign_alias_correct ops hl (fun _ y => y) (fun k => mc.addr (k / n2) (k % n2)) e idxs2 hnd2
    (inj mc (fun a b a' b' => container_addr_injective base2 n1 n2 false a b a' b') idxs2 hc2) s2).1
      (i * n2 + j) ((hc2 _).mpr hk)
  simp only [hdiv, hmod] at r1 r2
  exact ⟨by simpa [MRef.read, MExp.get, e, hdiv, hmod] using r1, by simpa [MRef.read, MExp.get, e, hdiv, hmod] using r2⟩

/-- the row sweep is an admissible element order -/
theorem rowSweep_covers (n1 n2 : Nat) : (rowSweep n1 n2).Nodup ∧ ∀ k, k ∈ rowSweep n1 n2 ↔ k < n1 * n2 := by
  unfold rowSweep
  exact ⟨List.nodup_range, fun k => List.mem_range⟩

end Orientation

/-! ## 3b. dense proxies denote the expression-level proxies; kernel element orders -/
section ProxyRead
variable {R : Type} [CommRing R]

/-- the dense proxies of dense.hpp denote what the proxy constructors of the expression layer
denote: `row(A,i)` as a strided view of the storage = row `i` of the matrix read from it, … -/
theorem proxy_read_row (m : MRef) (rd : Nat → R) (i : Nat) :
    (m.row i).read rd ≈ᵥ VExp.row (m.read rd) i := by
  refine ⟨?_, fun k _ => ?_⟩
  · unfold MRef.row; cases m.rowMajor <;> simp [VRef.read, MRef.read, VExp.size, MExp.size2]
  · simp only [VRef.read, MRef.read, VExp.get, MExp.get, proxy_index_row]

theorem proxy_read_trans (m : MRef) (rd : Nat → R) : m.trans.read rd ≈ₘ MExp.trans (m.read rd) := by
  refine ⟨?_, ?_, fun i j _ _ => ?_⟩
  · simp [MRef.read, MRef.trans, MExp.size1, MExp.size2]
  · simp [MRef.read, MRef.trans, MExp.size1, MExp.size2]
  · simp only [MRef.read, MExp.get, proxy_index_trans]

theorem proxy_read_column (m : MRef) (rd : Nat → R) (j : Nat) :
    (m.column j).read rd ≈ᵥ VExp.row (MExp.trans (m.read rd)) j := by
  refine ⟨?_, fun k _ => ?_⟩
  · unfold MRef.column MRef.row MRef.trans; cases m.rowMajor <;> simp [VRef.read, MRef.read, VExp.size, MExp.size2, MExp.size1]
  · simp only [VRef.read, MRef.read, VExp.get, MExp.get, proxy_index_column]

theorem proxy_read_vrange (v : VRef) (rd : Nat → R) (s t : Nat) :
    (v.range s t).read rd ≈ᵥ VExp.range (v.read rd) s t := by
  refine ⟨?_, fun k _ => ?_⟩
  · simp [VRef.read, VRef.range, VExp.size]
  · simp only [VRef.read, VExp.get, proxy_index_vrange]

theorem proxy_read_mrange (m : MRef) (rd : Nat → R) (s1 e1 s2 e2 : Nat) :
    (m.range s1 e1 s2 e2).read rd ≈ₘ MExp.range (m.read rd) s1 e1 s2 e2 := by
  refine ⟨?_, ?_, fun i j _ _ => ?_⟩
  · simp [MRef.read, MRef.range, MExp.size1]
  · simp [MRef.read, MRef.range, MExp.size2]
  · simp only [MRef.read, MExp.get, proxy_index_mrange]

theorem proxy_read_rows (m : MRef) (rd : Nat → R) (s e : Nat) :
    (m.rows s e).read rd ≈ₘ MExp.rows (m.read rd) s e := by
  refine ⟨?_, ?_, fun i j _ _ => ?_⟩
  · simp [MRef.read, MRef.rows, MRef.range, MExp.size1]
  · simp [MRef.read, MRef.rows, MRef.range, MExp.size2]
  · simp only [MRef.read, MExp.get, proxy_index_rows]

theorem proxy_read_diag (m : MRef) (rd : Nat → R) : m.diag.read rd ≈ᵥ VExp.diag (m.read rd) := by
  refine ⟨?_, fun k _ => ?_⟩
  · simp [VRef.read, MRef.read, MRef.diag, VExp.size, MExp.size1, MExp.size2]
  · simp only [VRef.read, MRef.read, VExp.get, MExp.get, proxy_index_diag]

theorem proxy_read_columns (m : MRef) (rd : Nat → R) (s e : Nat) :
    (m.columns s e).read rd ≈ₘ MExp.trans (MExp.rows (MExp.trans (m.read rd)) s e) := by
  refine ⟨?_, ?_, fun i j _ _ => ?_⟩
  · simp [MRef.read, MRef.columns, MRef.rows, MRef.range, MRef.trans, MExp.size1, MExp.size2]
  · simp [MRef.read, MRef.columns, MRef.rows, MRef.range, MRef.trans, MExp.size1, MExp.size2]
  · simp only [MRef.read, MExp.get, proxy_index_columns]

/-- nested: `subrange(column(A,j),s,t)` read from memory is the sub-range of column `j` of the matrix read from memory -/
theorem proxy_read_range_column (m : MRef) (rd : Nat → R) (j s t : Nat) :
    ((m.column j).range s t).read rd ≈ᵥ VExp.range (VExp.row (MExp.trans (m.read rd)) j) s t := by
  refine ⟨?_, fun k _ => ?_⟩
  · simp [VRef.read, VRef.range, VExp.size]
  · simp only [VRef.read, MRef.read, VExp.get, MExp.get, proxy_index_vrange, proxy_index_column]

end ProxyRead

/-- the column sweep (the element order of the column-major kernels) is an admissible order -/
theorem colSweep_mem (n1 n2 k : Nat) : k ∈ colSweep n1 n2 ↔ k < n1 * n2 := by
  unfold colSweep
  simp only [List.mem_flatMap, List.mem_range, List.mem_map]
  constructor
  · rintro ⟨j, hj, i, hi, rfl⟩
    calc i * n2 + j < i * n2 + n2 := by omega
      _ = (i + 1) * n2 := by rw [Nat.add_mul]; simp
      _ ≤ n1 * n2 := Nat.mul_le_mul_right _ hi
  · intro hk
    have hn2 : 0 < n2 := by
      rcases Nat.eq_zero_or_pos n2 with h | h
      · subst h; simp at hk
      · exact h
    refine ⟨k % n2, Nat.mod_lt _ hn2, k / n2, (Nat.div_lt_iff_lt_mul hn2).mpr hk, ?_⟩
    rw [Nat.mul_comm]; exact Nat.div_add_mod k n2

theorem colSweep_nodup (n1 n2 : Nat) : (colSweep n1 n2).Nodup := by
  unfold colSweep
  rw [List.nodup_flatMap]
  constructor
  · intro j hj
    have hj' : j < n2 := List.mem_range.mp hj
    apply List.Nodup.map_on _ List.nodup_range
    intro a _ b _ h
    exact (idx_inj hj' hj' h).1
  · have : List.Pairwise (fun a b : Nat => a < b) (List.range n2) := List.pairwise_lt_range
    refine List.Pairwise.imp_of_mem ?_ this
    intro a b ha hb hab
    have ha' : a < n2 := List.mem_range.mp ha
    have hb' : b < n2 := List.mem_range.mp hb
    intro x hx1 hx2
    obtain ⟨i, _, rfl⟩ := List.mem_map.mp hx1
    obtain ⟨i', _, h⟩ := List.mem_map.mp hx2
    have := (idx_inj hb' ha' h).2
    omega

section KernelOrders
variable {σ R : Type} [Zero R] [Add R] [Mul R]

/-- `orientation_irrelevant` instantiated with the element orders of the dense kernels: row sweep for
the row-major, column sweep for the column-major container -/
theorem orientation_irrelevant_kernel_orders (ops : MemOps σ R) (hl : Lawful ops) (n1 n2 base1 base2 : Nat)
    (val : Nat → Nat → R) (s1 s2 : σ) (i j : Nat) (hi : i < n1) (hj : j < n2) :
    let mr := MRef.container base1 n1 n2 true
    let mc := MRef.container base2 n1 n2 false
    let e : σ → Nat → R := fun _ k => val (k / n2) (k % n2)
    let sr := assignAlias ops (fun _ y => y) (fun k => mr.addr (k / n2) (k % n2)) e (rowSweep n1 n2) s1
    let sc := assignAlias ops (fun _ y => y) (fun k => mc.addr (k / n2) (k % n2)) e (colSweep n1 n2) s2
    (mr.read (ops.rd sr)).get i j = val i j ∧ (mc.read (ops.rd sc)).get i j = val i j :=
  orientation_irrelevant ops hl n1 n2 base1 base2 val (rowSweep n1 n2) (colSweep n1 n2)
    (rowSweep_covers n1 n2).1 (colSweep_nodup n1 n2) (rowSweep_covers n1 n2).2 (colSweep_mem n1 n2) s1 s2 i j hi hj

end KernelOrders


/-! ## 3c. folds, blocked / tiled kernels, extent of strided proxies -/
section Kernels

/-- **foldFrom_max_spec** — the row fold with `max`, seeded with the first element, is the maximum
of `x 0 .. x n`: an upper bound that is attained — for data of any sign. -/
theorem foldFrom_max_spec {R : Type} [LinearOrder R] (x : Nat → R) (n : Nat) :
    (∀ k, k ≤ n → x k ≤ foldFrom max x n) ∧ ∃ k, k ≤ n ∧ foldFrom max x n = x k := by
  induction n with
  | zero => exact ⟨fun k hk => by simp [Nat.le_zero.mp hk, foldFrom], 0, Nat.le_refl 0, rfl⟩
  | succ n ih =>
    obtain ⟨hub, k0, hk0, hat⟩ := ih
    constructor
    · intro k hk
      simp only [foldFrom]
      rcases Nat.lt_or_ge k (n + 1) with h | h
      · exact le_trans (hub k (by omega)) (le_max_left _ _)
      · have : k = n + 1 := by omega
        subst this; exact le_max_right _ _
    · simp only [foldFrom]
      rcases max_choice (foldFrom max x n) (x (n + 1)) with h | h
      · exact ⟨k0, by omega, by rw [h, hat]⟩
      · exact ⟨n + 1, Nat.le_refl _, h⟩

/-- **foldFrom_min_spec** — the same for `min`. -/
theorem foldFrom_min_spec {R : Type} [LinearOrder R] (x : Nat → R) (n : Nat) :
    (∀ k, k ≤ n → foldFrom min x n ≤ x k) ∧ ∃ k, k ≤ n ∧ foldFrom min x n = x k := by
  induction n with
  | zero => exact ⟨fun k hk => by simp [Nat.le_zero.mp hk, foldFrom], 0, Nat.le_refl 0, rfl⟩
  | succ n ih =>
    obtain ⟨hlb, k0, hk0, hat⟩ := ih
    constructor
    · intro k hk
      simp only [foldFrom]
      rcases Nat.lt_or_ge k (n + 1) with h | h
      · exact le_trans (min_le_left _ _) (hlb k (by omega))
      · have : k = n + 1 := by omega
        subst this; exact min_le_right _ _
    · simp only [foldFrom]
      rcases min_choice (foldFrom min x n) (x (n + 1)) with h | h
      · exact ⟨k0, by omega, by rw [h, hat]⟩
      · exact ⟨n + 1, Nat.le_refl _, h⟩

/-- **rowFold_max_is_row_maximum** — `max(as_rows(M))_i` (and, through `trans`, `max(as_columns(M))_j`)
is the largest element of the line: `≥` every element of the line and equal to one of them. -/
theorem rowFold_max_is_row_maximum {R : Type} [LinearOrder R] [Zero R] [Add R] [Mul R] (m : MExp R) (i : Nat)
    (h : 0 < m.size2) :
    (∀ j, j < m.size2 → m.get i j ≤ (VExp.rowFold m max id).get i) ∧
    ∃ j, j < m.size2 ∧ (VExp.rowFold m max id).get i = m.get i j := by
  have hne : m.size2 ≠ 0 := by omega
  obtain ⟨hub, k, hk, hat⟩ := foldFrom_max_spec (fun k => m.get i k) (m.size2 - 1)
  simp only [VExp.get, hne, if_false, id]
  exact ⟨fun j hj => hub j (by omega), k, by omega, hat⟩

theorem rowFold_min_is_row_minimum {R : Type} [LinearOrder R] [Zero R] [Add R] [Mul R] (m : MExp R) (i : Nat)
    (h : 0 < m.size2) :
    (∀ j, j < m.size2 → (VExp.rowFold m min id).get i ≤ m.get i j) ∧
    ∃ j, j < m.size2 ∧ (VExp.rowFold m min id).get i = m.get i j := by
  have hne : m.size2 ≠ 0 := by omega
  obtain ⟨hlb, k, hk, hat⟩ := foldFrom_min_spec (fun k => m.get i k) (m.size2 - 1)
  simp only [VExp.get, hne, if_false, id]
  exact ⟨fun j hj => hlb j (by omega), k, by omega, hat⟩

/-- **foldRowsBlocked_correct** — the blocked column-major kernel computes the denotation of
`matrix_row_transform` for every block size `bs`, every shape and every fold function. -/
theorem foldRowsBlocked_correct {R : Type} [Zero R] [Add R] [Mul R] (m : MExp R) (f : R → R → R) (g : R → R)
    (bs : Nat) (r : Nat) (h : 0 < m.size2) :
    foldRowsBlocked f g m.get m.size2 bs r = (VExp.rowFold m f g).get r := by
  have hne : m.size2 ≠ 0 := by omega
  have hr : r / bs * bs + r % bs = r := by rw [Nat.mul_comm]; exact Nat.div_add_mod r bs
  simp only [foldRowsBlocked, VExp.get, hne, if_false, hr]

/-- a fold that starts from the seed `0` instead of the line's first element is a different function:
it is wrong for `max` on all-negative lines (and for `min` on all-positive ones) -/
example : foldSeeded max (0 : Int) (fun k => [-3, -1, -2].getD k 0) 2 = 0 ∧
    foldFrom max (fun k => ([-3, -1, -2] : List Int).getD k 0) 2 = -1 := by decide
example : foldSeeded min (0 : Int) (fun k => [3, 1, 2].getD k 0) 2 = 0 ∧
    foldFrom min (fun k => ([3, 1, 2] : List Int).getD k 0) 2 = 1 := by decide

/-- **sumTiled_correct** — tiling the inner dimension of a product into `⌈K/T⌉` tiles that start at
`b*T` and have `min T (K - b*T)` columns gives the defining sum `Σ_{k<K}`, for every tile size
`T > 0` and every `K` (in particular `K` not a multiple of `T`, `K < T`, `K = 0`).
(proof: `Lemmas/RemoraKernels.lean`, where the block gemm uses it for its `KC` loop) -/
theorem sumTiled_correct {R : Type} [CommRing R] (T K : Nat) (hT : 0 < T) (f : Nat → R) :
    sumTiled T K f = sumTo K f := sumTiled_eq_sumTo T K hT f

/-- a tile that starts at `b * (current tile size)` instead of `b*T` drops the tail and repeats an
earlier slice: `K = 3`, `T = 2`, `f k = 10^k` gives `11 + 10` instead of `111` -/
example : sumTiled 2 3 (fun k => (10 : Int) ^ k) = 111 ∧
    sumTo 2 (fun b => sumTo (min 2 (3 - b * 2)) (fun k => (10 : Int) ^ (b * (min 2 (3 - b * 2)) + k))) = 21 := by
  decide

/-- **strided_disjoint_of_extent** — two strided proxies do not share a cell when the LAST cell of one
(`base + (size-1)*stride`, not `base + size`) lies before the first cell of the other. -/
theorem strided_disjoint_of_extent (t s : VRef) (h : t.last < s.first) (i j : Nat) (hi : i < t.size) :
    t.addr i ≠ s.addr j := by
  unfold VRef.last VRef.first at h
  unfold VRef.addr
  have : i * t.stride ≤ (t.size - 1) * t.stride := Nat.mul_le_mul_right _ (by omega)
  omega

/-- the test `base + size ≤ base'` (extent measured in elements, stride forgotten) does NOT imply
disjointness: rows 1..3 and rows 0..2 of a column of a 4-wide row-major matrix pass it and share 2 cells -/
example : let s : VRef := ⟨0, 4, 3⟩; let t : VRef := ⟨4, 4, 3⟩
    s.base + s.size ≤ t.base ∧ t.addr 0 = s.addr 1 ∧ t.addr 1 = s.addr 2 := by decide

/-- and there the in-place loop is wrong: shifting a strided window down by one through a temporary
gives `(x0,x0,x1,x2)`, in place it smears the first element `(x0,x0,x0,x0)` -/
example :
    let mem : Nat → Int := fun a => a
    let src : VRef := ⟨0, 4, 3⟩
    let tgt : VRef := ⟨4, 4, 3⟩
    let viaTemp := assignAlias (funMem Int) (fun _ y => y) tgt.addr (fun m i => m (src.addr i)) [0, 1, 2] mem
    let inPlace := assignNoalias (funMem Int) (fun _ y => y) tgt.addr (fun m i => m (src.addr i)) [0, 1, 2] mem
    (viaTemp 4, viaTemp 8, viaTemp 12) = (0, 4, 8) ∧ (inPlace 4, inPlace 8, inPlace 12) = (0, 0, 0) := by decide

/-- non-vacuity of `foldRowsBlocked_correct` / `sumTiled_correct` / `strided_disjoint_of_extent` -/
example : foldRowsBlocked max id (fun i j => ((i : Int) - 20) * (j + 1)) 3 16 17 = -3 := by decide
example : sumTiled 512 513 (fun k => (k : Int)) = sumTo 513 (fun k => (k : Int)) :=
  sumTiled_correct 512 513 (by decide) _
example : (⟨0, 4, 3⟩ : VRef).last < (⟨9, 4, 3⟩ : VRef).first := by decide

end Kernels


/-! ## 3d. the blocked dense kernels equal the element-wise definition, for all block constants -/
section BlockedKernels
open SharkVerif.Gen.RemoraKernelConsts

/-- **denseGemm_correct** — the value `kernels::gemm` leaves in a row-major dense target:
for all well-formed operands `a` (`M × K`), `b` (`K × N`) and ALL positive blocking constants
`MC, NC, KC, MR, NR`, the packed three-level block gemm (`dense_gemm` → `pack_A/B_dense` → `mgemm`
→ `ugemm`) turns every target element `(i,j)` into `C(i,j) + ⟦alpha * prod(a,b)⟧(i,j)` — the
denotation of `matrix_matrix_prod` — and writes nothing outside the `M × N` target. -/
theorem denseGemm_correct {R : Type} [CommRing R] [DecidableEq R] (a b : MExp R) (hab : a.size2 = b.size1)
    (MC NC KC MR NR : Nat) (hMC : 0 < MC) (hNC : 0 < NC) (hKC : 0 < KC) (hMR : 0 < MR) (hNR : 0 < NR)
    (alpha : R) (C : Nat → Nat → R) (i j : Nat) :
    denseGemm a.size1 b.size2 a.size2 MC NC KC MR NR alpha a.get b.get C i j =
      if i < a.size1 ∧ j < b.size2 then C i j + (MExp.mmprod a b alpha).get i j else C i j := by
  have _ := hab
  rw [denseGemm_spec _ _ _ _ _ _ _ _ hMC hNC hKC hMR hNR]
  rfl

/-- the same with the constants the C++ uses for `double`, `float` and `long double`
(regenerated from `gemm_block_size<T>` on every run) -/
theorem denseGemm_correct_lib {R : Type} [CommRing R] [DecidableEq R] (blk : GemmBlock)
    (hblk : blk = gemmDouble ∨ blk = gemmFloat ∨ blk = gemmLongDouble)
    (a b : MExp R) (hab : a.size2 = b.size1) (alpha : R) (C : Nat → Nat → R) (i j : Nat) :
    denseGemm a.size1 b.size2 a.size2 blk.mc blk.nc blk.kc blk.mr blk.nr alpha a.get b.get C i j =
      if i < a.size1 ∧ j < b.size2 then C i j + (MExp.mmprod a b alpha).get i j else C i j := by
  have hok : blk.Ok := by
    rcases hblk with h | h | h <;> subst h
    · exact gemmDouble_ok
    · exact gemmFloat_ok
    · exact gemmLongDouble_ok
  obtain ⟨h1, h2, h3, h4, h5, _, _⟩ := hok
  exact denseGemm_correct a b hab _ _ _ _ _ h3 h5 h4 h1 h2 alpha C i j

/-- a column-major target is computed as `gemm(trans(e2), trans(e1), trans(m))` (`kernels/gemm.hpp`):
the transposed call yields the transposed product -/
theorem denseGemm_transposed_dispatch {R : Type} [CommRing R] [DecidableEq R] (a b : MExp R)
    (MC NC KC MR NR : Nat) (hMC : 0 < MC) (hNC : 0 < NC) (hKC : 0 < KC) (hMR : 0 < MR) (hNR : 0 < NR)
    (alpha : R) (C : Nat → Nat → R) (i j : Nat) (hi : i < a.size1) (hj : j < b.size2) :
    denseGemm b.size2 a.size1 a.size2 MC NC KC MR NR alpha (MExp.trans b).get (MExp.trans a).get
        (fun p q => C q p) j i = C i j + (MExp.mmprod a b alpha).get i j := by
  rw [denseGemm_spec _ _ _ _ _ _ _ _ hMC hNC hKC hMR hNR, if_pos ⟨hj, hi⟩]
  show C i j + alpha * sumTo a.size2 (fun k => b.get k j * a.get i k) = C i j + alpha * sumTo a.size2 (fun k => a.get i k * b.get k j)
  congr 2
  exact sumTo_congr rfl (fun k _ => by ring)

/-- **packed buffers fit**: `pack_A_dense` writes `⌈mc/MR⌉·kc·MR` cells into a buffer of `MC·KC`
cells; with `mc ≤ MC`, `kc ≤ KC` that is enough when `MR ∣ MC` (generated theorem `gemm*_ok`) -/
theorem packedSize_le (mc kc MR MC KC : Nat) (hMR : 0 < MR) (hdiv : MR ∣ MC) (hmc : mc ≤ MC) (hkc : kc ≤ KC) :
    packedSize mc kc MR ≤ MC * KC := by
  obtain ⟨q, rfl⟩ := hdiv
  unfold packedSize nBlocks
  have h1 : (mc + MR - 1) / MR ≤ q := by
    rw [Nat.div_le_iff_le_mul_add_pred hMR]
    have : q * MR = MR * q := Nat.mul_comm _ _
    omega
  calc (mc + MR - 1) / MR * kc * MR = ((mc + MR - 1) / MR * MR) * kc := by ring
    _ ≤ (q * MR) * kc := Nat.mul_le_mul_right _ (Nat.mul_le_mul_right _ h1)
    _ = MR * q * kc := by ring
    _ ≤ MR * q * KC := Nat.mul_le_mul_left _ hkc

/-- … and not otherwise: with `MR = 3`, `MC = 4` a full block of 4 rows needs two stripes of 3 -/
example : ¬ packedSize 4 1 3 ≤ 4 * 1 := by decide

/-- the pointer arithmetic of the C++ addresses the tile the model updates: `&C_[i*MC*ldc + j*NC]`
advanced by `ip*MR*stride1 + jp*NR*stride2` and `i0*stride1 + j0*stride2` (`stride1 = ldc`,
`stride2 = 1`) is the row-major address of element `(i*MC + ip*MR + i0, j*NC + jp*NR + j0)` -/
theorem gemm_tile_address (m : MRef) (hrm : m.rowMajor = true) (i MC ip MR i0 j NC jp NR j0 : Nat) :
    m.base + (i * MC * m.ld + j * NC) + (ip * MR * m.ld + jp * NR * 1) + (i0 * m.ld + j0 * 1)
      = m.addr (i * MC + ip * MR + i0) (j * NC + jp * NR + j0) := by
  simp only [MRef.addr, hrm, if_true]
  ring

/-- **assignTransBlocked_correct** — `noalias(m) op= e` for a row-major dense target and a
column-major dense source: the `BS × BS`-blocked kernel gives every target element
`f(m(i,j), ⟦e⟧(i,j))` and writes nothing else, for EVERY block size `BS > 0` and every shape -/
theorem assignTransBlocked_correct {R : Type} [Zero R] [Add R] [Mul R] (f : R → R → R) (BS : Nat) (hBS : 0 < BS)
    (e : MExp R) (m : Nat → Nat → R) (i j : Nat) :
    assignTransBlocked f BS e.size1 e.size2 e.get m i j =
      if i < e.size1 ∧ j < e.size2 then f (m i j) (e.get i j) else m i j :=
  assignTransBlocked_spec f BS e.size1 e.size2 hBS e.get m i j

/-- with the two block sizes of the library (8 for `=`, 16 for `op=`) -/
theorem assignTransBlocked_correct_lib {R : Type} [Zero R] [Add R] [Mul R] (f : R → R → R) (e : MExp R)
    (m : Nat → Nat → R) (i j : Nat) (BS : Nat) (hBS : BS = assignTransBlock ∨ BS = assignTransFunctorBlock) :
    assignTransBlocked f BS e.size1 e.size2 e.get m i j =
      if i < e.size1 ∧ j < e.size2 then f (m i j) (e.get i j) else m i j := by
  apply assignTransBlocked_correct
  rcases hBS with h | h <;> subst h
  · exact assign_blocks_pos.1
  · exact assign_blocks_pos.2.1

/-- `foldRowsBlocked_correct` holds in particular for the library's `BLOCK_SIZE` -/
theorem foldRowsBlock_pos : 0 < foldRowsBlock := assign_blocks_pos.2.2

/-! non-vacuity: the kernels do compute something (a 3×2·2×3 product with 2×2 micro tiles, every
tile partial or full; a 3×3 transposing assignment with block 2), and a neighbouring wrong variant
(tile start `l*kc` instead of `l*KC`, i.e. the tile offset taken from the CURRENT tile length)
differs -/
example :
    (List.range 9).map (fun t => denseGemm 3 3 2 2 2 1 2 2 (1 : Int)
      (fun i k => (i + k : Int)) (fun k j => (k * 3 + j : Int)) (fun _ _ => 100) (t / 3) (t % 3))
      = [103, 104, 105, 106, 109, 112, 109, 114, 119] := by decide
example : (MExp.mmprod (MExp.lit 3 2 fun i k => (i + k : Int)) (MExp.lit 2 3 fun k j => (k * 3 + j : Int)) 1).get 2 2 = 19 := by
  decide
example :
    (List.range 9).map (fun t => assignTransBlocked (fun x y => x - y) 2 3 3
      (fun i j => (10 * i + j : Int)) (fun _ _ => (0 : Int)) (t / 3) (t % 3))
      = [0, -1, -2, -10, -11, -12, -20, -21, -22] := by decide
example : sumTo 2 (fun l => sumTo (min 2 (3 - l * 2)) (fun t => (10 : Int) ^ (l * (min 2 (3 - l * 2)) + t))) ≠
    sumTo 3 (fun k => (10 : Int) ^ k) := by decide

end BlockedKernels

/-! ## 4. non-vacuity: the hypotheses of the theorems above are satisfiable, the statements
are evaluated on concrete instances (tests, not the theorems) -/
section NonVacuity

/-- `assign_alias_correct` on function memory: `subrange(x,0,2) += subrange(x,1,3)` (target read
by the right-hand side) at `x = (1,2,3)` gives `(3,5,3)` -/
example :
    let s : Nat → Int := fun a => [1, 2, 3].getD a 0
    let s' := assignAlias (funMem Int) (· + ·) (fun i => i) (fun m i => m (i + 1)) [0, 1] s
    (s' 0, s' 1, s' 2) = (3, 5, 3) := by decide

/-- the same statement evaluated in place gives a different result, `(3,6,3)` at index 1 uses the
already updated... no: here index 1 reads cell 2 which is not written, but index 0 reads cell 1
*before* it is written; reversing the order shows the dependence on the order that `noalias` forbids -/
example :
    let s : Nat → Int := fun a => [1, 2, 3].getD a 0
    let s' := assignNoalias (funMem Int) (· + ·) (fun i => i) (fun m i => m (i + 1)) [1, 0] s
    (s' 0, s' 1, s' 2) = (6, 5, 3) := by decide

/-- hypotheses of `assign_noalias_correct` are satisfiable: target cells 0,1; `e` reads cell 5 -/
example : ∃ (e : (Nat → Int) → Nat → Int),
    (∀ s1 s2 : Nat → Int, (∀ a, (∀ i ∈ [0, 1], a ≠ (fun i => i) i) → (funMem Int).rd s1 a = (funMem Int).rd s2 a) →
      ∀ i, e s1 i = e s2 i) :=
  ⟨fun m _ => m 5, fun s1 s2 h _ => h 5 (by decide)⟩

/-- `genOpt` really rewrites: `row(2*(u vᵀ) + C, 1)` is pushed through sum, scalar multiple and outer product -/
example : ((genOpt (R := Int)).run 3).1
      (.row (.add (.scal (.outer (.lit 2 fun i => (i : Int)) (.lit 3 fun j => (j : Int) + 1)) 2) (.const 2 3 5)) 1) =
    .add (.scal (.scal (.lit 3 fun j => (j : Int) + 1) ((VExp.lit 2 fun i => (i : Int)).get 1)) 2) (.const 3 5) := by
  rfl

/-- the nested rule family (F9): `subrange(3*(A v), 1, 2)` becomes `(3*1)*(rows(A,1,2) v)` — the factor is kept -/
example : ((genOpt (R := Int)).run 2).1
      (.range (.mvprod (.lit 3 2 fun i j => (i + j : Int)) (.lit 2 fun k => (k : Int) + 1) 3) 1 2) =
    .mvprod (.range (.lit 3 2 fun i j => (i + j : Int)) 1 2 0 2) (.lit 2 fun k => (k : Int) + 1) (3 * 1) := by
  rfl

/-- a well-formed instance for `genOpt_run_sound` -/
example : (VExp.range (VExp.scal (VExp.add (VExp.lit 4 fun i => (i : Int)) (VExp.const 4 10)) 2) 1 3).WF := by
  simp [VExp.WF, VExp.size]

/-- `container_addr_injective` is not vacuous for degenerate shapes: a 1×3 column-major container -/
example : (MRef.container 7 1 3 false).addr 0 2 = 9 := by decide

end NonVacuity

/-! ## 5. the rule table, family R of the correspondence: neighbouring wrong variants of two rules, evaluated on
the model.  The generated lemmas (`Gen/RemoraRules.lean`) state that every rule of the table preserves the
denotation; these two say that the argument mix-ups the directed witnesses are built to expose DO change it. -/
section RuleWitnesses

/-- `range(alpha*prod(A,B), r0,r1, c0,c1) = alpha*prod(A[r0:r1, :], B[:, c0:c1])`: with the ROW window on the right
operand (`B[:, r0:r1]`) the value differs as soon as the two windows differ -/
theorem range_prod_row_window_on_right_operand_differs :
    let a : MExp Int := MExp.lit 2 1 fun i _ => (i + 1 : Int)
    let b : MExp Int := MExp.lit 1 2 fun _ j => (10 ^ j : Int)
    (MExp.range (MExp.mmprod a b 1) 0 1 1 2).get 0 0 = 10 ∧
    (MExp.mmprod (MExp.range a 0 1 0 1) (MExp.range b 0 1 1 2) 1).get 0 0 = 10 ∧
    (MExp.mmprod (MExp.range a 0 1 0 1) (MExp.range b 0 1 0 1) 1).get 0 0 = 1 := by
  decide

/-- `f2(f1(x)) = (f2 ∘ f1)(x)`: the order of the composition is observable once `f1` carries a folded
negative factor (`-2*abs`), the witness `sqr(-2*abs(v))` of family R -/
theorem compose_order_matters :
    (VExp.unary (VExp.unary (VExp.lit 1 fun _ => (3 : Int)) (fun x => -2 * x.natAbs)) (fun x => x * x)).get 0 = 36 ∧
    (VExp.unary (VExp.unary (VExp.lit 1 fun _ => (3 : Int)) (fun x => x * x)) (fun x => -2 * x.natAbs)).get 0 = -18 := by
  decide

end RuleWitnesses

end SharkVerif.C01
