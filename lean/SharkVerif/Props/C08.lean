/-
C08 — The SVM solver keeps its dual state consistent and never loses objective.

Property theorems about
* the hand-written model `Model/Smo.lean` of `SvmProblem` / `BoxConstrainedProblem` /
  `BoxBasedShrinkingStrategy` / `QpSolver` (tied to the C++ by `checks/c08.py`: the Float
  instance bit-for-bit, the Rat instance exactly on FE_INEXACT-free runs), and
* the T0-generated analytic sub-solvers `Gen/Analytic.lean` (regenerated from
  `AnalyticProblems.h` on every run, so these proofs are re-checked against the current source).

All statements are over `Rat` (exact arithmetic) and quantify over every size `n`, every
symmetric matrix `K`, every box and every finite sequence of admissible operations (SMO steps of
both problem kinds, coordinate flips, shrink, unshrink).
Helper lemmas: `Lemmas/Smo.lean` (invariant, flips, shrink/unshrink), `Lemmas/SmoStep.lean` (SMO steps),
`Lemmas/SmoObjective.lean` (dual objective), `Lemmas/Box2d.lean` (shape of the generated 2-D box solver).
-/
import SharkVerif.Lemmas.SolveLoop
import SharkVerif.Lemmas.ShrinkFinal
import Mathlib.Tactic.FieldSimp
namespace SharkVerif.C08
open SharkVerif.Qp SharkVerif.Gen.Analytic SharkVerif.Smo

/-! ## 1. The T0-generated analytic kernels -/

/-- `solveQuadraticEdge` returns a point of `[L,U]` (any inputs with `L ≤ U`). -/
theorem edge_in_box (alpha g Q L U : Rat) (hLU : L ≤ U) :
    L ≤ solveQuadraticEdge alpha g Q L U ∧ solveQuadraticEdge alpha g Q L U ≤ U := by
  unfold solveQuadraticEdge smin smax
  grind

example : (0 : Rat) ≤ solveQuadraticEdge (1/2 : Rat) 1 2 0 1 ∧ solveQuadraticEdge (1/2 : Rat) 1 2 0 1 ≤ 1 :=
  edge_in_box (1/2) 1 2 0 1 (by norm_num)

/-- FULL STATEMENT (not provable for the code as it is): for every curvature `Q ≥ 0` the 1-D step does not
decrease the objective `g·a − Q/2·a²`.  PROVED PART: all `Q` outside the guard region `0 < Q < 1e-12`, in which the
C++ deliberately treats the curvature as zero. -/
theorem edge_gain_nonneg_partial (alpha g Q L U : Rat) (hL : L ≤ alpha) (hU : alpha ≤ U)
    (hQ : Q = 0 ∨ 1 / 1000000000000 ≤ Q) :
    0 ≤ (solveQuadraticEdge alpha g Q L U - alpha) * g
        - Q * (solveQuadraticEdge alpha g Q L U - alpha) * (solveQuadraticEdge alpha g Q L U - alpha) / 2 := by
  unfold solveQuadraticEdge smin smax
  simp only [lit0, litE]
  rcases hQ with hQ | hQ
  · subst hQ
    norm_num
    split_ifs <;> nlinarith
  · have hq : ¬ Q < 1 / 1000000000000 := not_lt.mpr hQ
    have hQ0 : 0 < Q := by linarith
    simp only [hq, if_false]
    obtain ⟨t, ht⟩ : ∃ t, g = t * Q := ⟨g / Q, by field_simp⟩
    have htq : g / Q = t := by rw [ht]; field_simp
    rw [htq, ht]
    have key : ∀ d : Rat, 0 ≤ d * (t - d / 2) → 0 ≤ d * (t * Q) - Q * d * d / 2 := by
      intro d hd
      have : d * (t * Q) - Q * d * d / 2 = Q * (d * (t - d / 2)) := by ring
      rw [this]; exact mul_nonneg hQ0.le hd
    split_ifs <;> apply key <;> nlinarith [sq_nonneg t]

example : (0 : Rat) ≤ (solveQuadraticEdge 0 1 2 0 1 - 0) * 1
    - 2 * (solveQuadraticEdge 0 1 2 0 1 - 0) * (solveQuadraticEdge 0 1 2 0 1 - 0) / 2 :=
  edge_gain_nonneg_partial 0 1 2 0 1 (by norm_num) (by norm_num) (Or.inr (by norm_num))

/-- witness inside the excluded guard region: `Q = 1e-13`, `g = 1e-20`, `[L,U] = [0,1]`, start 0: the generated
function jumps to `U = 1` and the objective changes by `1e-20 − 5e-14 < 0`. -/
theorem edge_gain_negative_witness :
    let a' := solveQuadraticEdge (0 : Rat) (1 / 10 ^ 20) (1 / 10 ^ 13) 0 1
    (a' - 0) * (1 / 10 ^ 20) - (1 / 10 ^ 13) * (a' - 0) * (a' - 0) / 2 < 0 := by
  simp only [solveQuadraticEdge, smin, smax, lit0, litE]
  norm_num

/-- `solveQuadratic2DBox` returns a point of the box (any matrix, any gradient). -/
theorem box2d_in_box (ai aj gi gj Qii Qij Qjj Li Ui Lj Uj : Rat)
    (hi : Li ≤ ai ∧ ai ≤ Ui) (hj : Lj ≤ aj ∧ aj ≤ Uj) :
    (Li ≤ (solveQuadratic2DBox ai aj gi gj Qii Qij Qjj Li Ui Lj Uj).1 ∧
     (solveQuadratic2DBox ai aj gi gj Qii Qij Qjj Li Ui Lj Uj).1 ≤ Ui) ∧
    (Lj ≤ (solveQuadratic2DBox ai aj gi gj Qii Qij Qjj Li Ui Lj Uj).2 ∧
     (solveQuadratic2DBox ai aj gi gj Qii Qij Qjj Li Ui Lj Uj).2 ≤ Uj) := by
  have hLUi : Li ≤ Ui := by linarith
  have hLUj : Lj ≤ Uj := by linarith
  have e1 := fun a g Q => edge_in_box a g Q Li Ui hLUi
  have e2 := fun a g Q => edge_in_box a g Q Lj Uj hLUj
  unfold solveQuadratic2DBox
  grind (splits := 40)

example : (0:Rat) ≤ (solveQuadratic2DBox (1/2) (1/2) 1 (-1) 2 0 2 0 1 0 1).1 :=
  (box2d_in_box (1/2) (1/2) 1 (-1) 2 0 2 0 1 0 1 (by norm_num) (by norm_num)).1.1

/-- **box2d_gain_nonneg**: the (repaired) 2-D box sub-solver never decreases the objective
`μᵀg − ½ μᵀQμ` of its sub-problem, for every box and every start point (not even required to lie in the box),
whenever the diagonal entry `Qii` is non-negative (true for every PSD matrix).  The hypothesis is used in the interior
branch only (`det > 1e-12` and `Qii ≥ 0` make `Q` positive definite); the edge branch compares every candidate's gain
with 0 and keeps the current point if none improves, so it needs no hypothesis at all. -/
theorem box2d_gain_nonneg (ai aj gi gj Qii Qij Qjj Li Ui Lj Uj : Rat) (hQ : 0 ≤ Qii) :
    0 ≤ gain2 gi gj Qii Qij Qjj ((solveQuadratic2DBox ai aj gi gj Qii Qij Qjj Li Ui Lj Uj).1 - ai)
        ((solveQuadratic2DBox ai aj gi gj Qii Qij Qjj Li Ui Lj Uj).2 - aj) := by
  rw [box2d_unfold]
  split
  · rename_i hdet
    split
    · rw [litE] at hdet
      have hd : 0 < Qii * Qjj - Qij * Qij := by
        have : (0:Rat) < 1 / 1000000000000 := by norm_num
        linarith
      simp only [add_sub_cancel_left]
      exact interior_gain_nonneg gi gj Qii Qij Qjj hQ hd
    · exact edgeRes_gain_nonneg ..
  · exact edgeRes_gain_nonneg ..

example : (0 : Rat) ≤ gain2 1 (-1) 2 0 2 ((solveQuadratic2DBox (1/2) (1/2) 1 (-1) 2 0 2 0 1 0 1).1 - 1/2)
    ((solveQuadratic2DBox (1/2) (1/2) 1 (-1) 2 0 2 0 1 0 1).2 - 1/2) :=
  box2d_gain_nonneg (1/2) (1/2) 1 (-1) 2 0 2 0 1 0 1 (by norm_num)

/-- the former defect F5 (`Q = 1e-6·I`, `g = 0`, `α = (½,½)`, box `[0,1]²`: the unrepaired code returned `(0, ½)` with
gain `−1.25e-7`): the regenerated definition keeps the current point. -/
theorem box2d_F5_instance_repaired :
    solveQuadratic2DBox (1/2 : Rat) (1/2) 0 0 (1/1000000) 0 (1/1000000) 0 1 0 1 = (1/2, 1/2) := by
  rw [box2d_unfold]
  have hdet : ¬ ((1/1000000 : Rat) * (1/1000000) - 0 * 0 > (1.0e-12 : Rat)) := by rw [litE]; norm_num
  rw [if_neg hdet]
  simp only [edgeRes, gainK, choose4, solveQuadraticEdge, smin, smax, lit0, lit05, litE]
  norm_num

/-- the hypothesis `0 ≤ Qii` cannot be dropped for inputs the C++ accepts: for the negative definite `Q = −I` the
"free solution" is the minimiser and the generated function moves there (`g = (1/10, 0)`, start `(½,½)`, box `[0,1]²`:
result `(2/5, ½)`, gain `−1/200`).  Not reachable with kernel (PSD) matrices. -/
theorem box2d_gain_negative_nonpsd_witness :
    gain2 (1/10) 0 (-1) 0 (-1) ((solveQuadratic2DBox (1/2 : Rat) (1/2) (1/10) 0 (-1) 0 (-1) 0 1 0 1).1 - 1/2)
      ((solveQuadratic2DBox (1/2 : Rat) (1/2) (1/10) 0 (-1) 0 (-1) 0 1 0 1).2 - 1/2) < 0 := by
  rw [box2d_unfold]
  have hdet : ((-1 : Rat) * (-1) - 0 * 0 > (1.0e-12 : Rat)) := by rw [litE]; norm_num
  rw [if_pos hdet]
  norm_num [gain2]

/-! ## 2. The state invariant over all operation sequences -/

/-- operations on the problem state: everything `QpSolver::solve` does to the problem object -/
inductive Op where
  | flip (i j : Nat)        -- flipCoordinates
  | unshrink
  | shrink (eps : Rat)
  | smo (i j : Nat)         -- updateSMO (either problem kind; `i = j` is the 1-D step of the box kind)
  deriving Repr

/-- admissibility (the C++ preconditions): flips stay inside the active or inside the shrunk block; the working set
of an SMO step is active (`SIZE_CHECK(i < active())`), and for the equality-constrained kind it is oriented the way
every selection criterion returns it: `i` is the "up" candidate, `g_i ≥ g_j` (see
`smo_svm_orientation_witness` for why this cannot be dropped, and `select_valid` for the criteria). -/
def Op.valid (s : RS) : Op → Prop
  | .flip i j => i < s.n ∧ j < s.n ∧ (i < s.active ↔ j < s.active)
  | .unshrink => True
  | .shrink _ => True
  | .smo i j => i < s.active ∧ j < s.active ∧ (s.eqc = true → s.g j ≤ s.g i)

def apply (s : RS) : Op → RS
  | .flip i j => s.flip i j
  | .unshrink => s.unshrink
  | .shrink eps => (s.shrink eps).1
  | .smo i j => s.updateSMO i j

/-- **`SvmProblem::updateSMO` + edge bookkeeping preserves the invariant** (equality-constrained kind) -/
theorem updateSMO_inv_svm {s : RS} (h : Inv s) (he : s.eqc = true) {i j : Nat} (hi : i < s.active)
    (hj : j < s.active) (hg : s.g j ≤ s.g i) : Inv (s.updateSMO i j) :=
  inv_updateSMO_svm h he hi hj hg

/-- **`BoxConstrainedProblem::updateSMO` + edge bookkeeping preserves the invariant** (uses the generated
`solveQuadraticEdge` / `solveQuadratic2DBox` through `edge_in_box` / `box2d_in_box`); any working set, `i = j` included -/
theorem updateSMO_inv_box {s : RS} (h : Inv s) (he : s.eqc = false) {i j : Nat} (hi : i < s.active)
    (hj : j < s.active) : Inv (s.updateSMO i j) :=
  inv_updateSMO_box h he (fun a g Q L U hLU => edge_in_box a g Q L U hLU)
    (fun ai aj gi gj Qii Qij Qjj Li Ui Lj Uj hi hj => box2d_in_box ai aj gi gj Qii Qij Qjj Li Ui Lj Uj hi hj) hi hj

/-- the orientation hypothesis of the equality-constrained step is necessary: `n = 2`, `K = I`, `lin = (0,1)`,
box `[0,1]²`, cold start; the wrongly oriented working set `(0,1)` (`g_0 = 0 < g_1 = 1`) makes the model of
`SvmProblem::updateSMO` step to `α_0 = −½`, outside the box. -/
theorem smo_svm_orientation_witness :
    ((State.init 2 (fun a b => if a = b then (1 : Rat) else 0) true false (fun k => if k = 0 then 0 else 1)
        (fun _ => 0) (fun _ => 1)).updateSMO 0 1).alpha 0 = -1 / 2 := by
  rw [updateSMO_svm_alpha rfl]
  simp only [svmR, svmDen, State.init, State.boxMax, State.boxMin, State.q, smin, smax, upd, lit0, lit2, litE]
  norm_num

/-- every operation preserves the invariant -/
theorem apply_inv {s : RS} (h : Inv s) {op : Op} (hv : op.valid s) : Inv (apply s op) := by
  cases op with
  | flip i j => exact inv_flip h hv.1 hv.2.1 hv.2.2
  | unshrink => exact inv_unshrink h
  | shrink eps => exact inv_shrink h eps
  | smo i j =>
    cases he : s.eqc
    · exact updateSMO_inv_box h he hv.1 hv.2.1
    · exact updateSMO_inv_svm h he hv.1 hv.2.1 (hv.2.2 he)

/-- run a sequence of operations -/
def run : RS → List Op → RS
  | s, [] => s
  | s, op :: ops => run (apply s op) ops

/-- admissibility of a whole sequence (each op in the state it is applied to) -/
def validSeq : RS → List Op → Prop
  | _, [] => True
  | s, op :: ops => op.valid s ∧ validSeq (apply s op) ops

/-- **Invariant for every reachable state**: every finite history of SMO steps (both problem kinds), coordinate flips,
shrink and unshrink events. -/
theorem reachable_inv (ops : List Op) : ∀ (s : RS), Inv s → validSeq s ops → Inv (run s ops) := by
  induction ops with
  | nil => intro s h _; exact h
  | cons op ops ih => intro s h hv; exact ih _ (apply_inv h hv.1) hv.2

/-- the freshly constructed problem (cold start) satisfies the invariant -/
theorem init_inv (n : Nat) (K : Nat → Nat → Rat) (eqc sh : Bool) (lin L U : Nat → Rat)
    (hsym : ∀ x y, K x y = K y x) (hbox : ∀ k, k < n → L k ≤ 0 ∧ 0 ≤ U k) :
    Inv (State.init n K eqc sh lin L U) := by
  have hz : ∀ a, Kalpha (State.init n K eqc sh lin L U) a = 0 := by
    intro a; simp only [Kalpha, State.init, lit0, mul_zero]; exact rsum_const_zero n
  have hze : ∀ a, KalphaEdge (State.init n K eqc sh lin L U) a = 0 := by
    intro a; simp only [KalphaEdge, State.init, lit0, mul_zero, ite_self]; exact rsum_const_zero n
  refine { sym := hsym, act_le := Nat.le_refl _, noshrink := fun _ => rfl, perm_lt := fun k hk => hk,
           perm_inj := fun a b _ _ e => e, diag := fun k _ => rfl, box := ?_, flo := ?_, fup := ?_,
           grad := ?_, edge := ?_, shrunk := ?_ }
  · intro k hk; simp only [State.init, lit0]; exact hbox k hk
  · intro k _; simp only [State.init, lit0, beq_iff_eq]
  · intro k _; simp only [State.init, lit0, beq_iff_eq]
  · intro a _; rw [hz a]; simp [State.init]
  · intro _ a _; rw [hze a]; simp [State.init]
  · intro k hk1 hk2; exact absurd hk2 (Nat.not_lt.mpr hk1)

example : ∃ s : RS, Inv s ∧ validSeq s [Op.smo 0 1, Op.shrink (1/1000), Op.unshrink] :=
  ⟨State.init 2 (fun _ _ => 1) false true (fun _ => 1) (fun _ => 0) (fun _ => 1),
   init_inv 2 _ false true _ _ _ (fun _ _ => rfl) (fun _ _ => by norm_num),
   ⟨⟨by decide, by decide, fun h => by simp [State.init] at h⟩, trivial, trivial, trivial⟩⟩

/-- **grad_inv**: after any admissible history the maintained gradient of every active variable is
`lin − K·α` (under the current permutation). -/
theorem grad_inv (s : RS) (h : Inv s) (ops : List Op) (hv : validSeq s ops) (a : Nat)
    (ha : a < (run s ops).active) :
    (run s ops).g a = (run s ops).lin a - Kalpha (run s ops) a :=
  (reachable_inv ops s h hv).grad a ha

/-- **gradient of ALL variables after un-shrinking**, whatever happened before. -/
theorem grad_all_after_unshrink (s : RS) (h : Inv s) (ops : List Op) (hv : validSeq s ops) (a : Nat)
    (ha : a < s.n) (hn : (run s ops).n = s.n) :
    (run s ops).unshrink.g a = (run s ops).unshrink.lin a - Kalpha (run s ops).unshrink a := by
  have hi := inv_unshrink (reachable_inv ops s h hv)
  apply hi.grad
  have : (run s ops).unshrink.active = (run s ops).n := by
    unfold State.unshrink; split
    · assumption
    · rfl
  rw [this, hn]; exact ha

/-- **box_inv / flags_inv / shrunk_at_bound / perm_inv** for every reachable state. -/
theorem box_flags_perm_inv (s : RS) (h : Inv s) (ops : List Op) (hv : validSeq s ops) :
    let t := run s ops
    (∀ k, k < t.n → t.L k ≤ t.alpha k ∧ t.alpha k ≤ t.U k) ∧
    (∀ k, k < t.n → ((t.lo k = true ↔ t.alpha k = t.L k) ∧ (t.up k = true ↔ t.alpha k = t.U k))) ∧
    (∀ k, t.active ≤ k → k < t.n → (t.alpha k = t.L k ∨ t.alpha k = t.U k)) ∧
    (∀ k, k < t.n → t.perm k < t.n) ∧ (∀ a b, a < t.n → b < t.n → t.perm a = t.perm b → a = b) := by
  intro t
  have hi := reachable_inv ops s h hv
  exact ⟨hi.box, fun k hk => ⟨hi.flo k hk, hi.fup k hk⟩, hi.shrunk, hi.perm_lt, hi.perm_inj⟩

/-- **edge_inv**: `m_gradientEdge` is `lin − K·α` restricted to the variables at a bound. -/
theorem edge_inv (s : RS) (h : Inv s) (ops : List Op) (hv : validSeq s ops)
    (hs : (run s ops).shrinkOn = true) (a : Nat) (ha : a < (run s ops).n) :
    (run s ops).gEdge a = (run s ops).lin a - KalphaEdge (run s ops) a :=
  (reachable_inv ops s h hv).edge hs a ha


/-! ## 3. The equality constraint -/

/-- a quantity that does not depend on the order of the variables is unchanged by flips, unshrink and shrink; an SMO
step changes it as the step itself does -/
theorem apply_orderFree {β : Type} {F : RS → β} (hF : OrderFree F) {s : RS} (h : Inv s) {op : Op} (hv : op.valid s)
    (hsmo : ∀ i j, op = Op.smo i j → F (s.updateSMO i j) = F s) : F (apply s op) = F s := by
  cases op with
  | flip i j => exact hF.flip s i j hv.1 hv.2.1
  | unshrink => exact hF.unshrink s
  | shrink eps => exact hF.shrink h eps
  | smo i j => exact hsmo i j rfl

/-- size and problem kind never change -/
theorem run_n_eqc (ops : List Op) : ∀ (s : RS), Inv s → validSeq s ops →
    (run s ops).n = s.n ∧ (run s ops).eqc = s.eqc := by
  induction ops with
  | nil => intro s _ _; exact ⟨rfl, rfl⟩
  | cons op ops ih =>
    intro s h hv
    obtain ⟨h1, h2⟩ := ih _ (apply_inv h hv.1) hv.2
    have e1 : (apply s op).n = s.n := apply_orderFree orderFree_n h hv.1 (fun i j _ => (updateSMO_frame s i j).1)
    have e2 : (apply s op).eqc = s.eqc := apply_orderFree orderFree_eqc h hv.1 (fun i j _ => (updateSMO_frame s i j).2.1)
    exact ⟨h1.trans e1, h2.trans e2⟩

/-- **sum_inv (one step)**: `SvmProblem::updateSMO` leaves `Σα` unchanged. -/
theorem sum_inv_step {s : RS} (h : Inv s) (he : s.eqc = true) {i j : Nat} (hi : i < s.active) (hj : j < s.active)
    (hg : s.g j ≤ s.g i) : alphaSum (s.updateSMO i j) = alphaSum s :=
  alphaSum_updateSMO_svm h he hi hj hg

/-- **sum_inv**: for the equality-constrained problem the sum of the coefficients is the same after every admissible
history (SMO steps, flips, shrink, unshrink) as before it. -/
theorem sum_inv (ops : List Op) : ∀ (s : RS), Inv s → s.eqc = true → validSeq s ops →
    alphaSum (run s ops) = alphaSum s := by
  induction ops with
  | nil => intro s _ _ _; rfl
  | cons op ops ih =>
    intro s h he hv
    have he' : (apply s op).eqc = true :=
      (apply_orderFree orderFree_eqc h hv.1 (fun i j _ => (updateSMO_frame s i j).2.1)).trans he
    have e : alphaSum (apply s op) = alphaSum s :=
      apply_orderFree orderFree_alphaSum h hv.1 (fun i j hop => by
        subst hop; exact sum_inv_step h he hv.1.1 hv.1.2.1 (hv.1.2.2 he))
    exact (ih _ (apply_inv h hv.1) he' hv.2).trans e

example : ∃ s : RS, Inv s ∧ s.eqc = true ∧ validSeq s [Op.smo 0 1] :=
  ⟨State.init 2 (fun _ _ => 1) true true (fun k => if k = 0 then 1 else 0) (fun _ => -1) (fun _ => 1),
   init_inv 2 _ true true _ _ _ (fun _ _ => rfl) (fun _ _ => by norm_num), rfl,
   ⟨⟨by decide, by decide, fun _ => by simp [State.init]⟩, trivial⟩⟩

/-! ## 4. The dual objective never decreases -/

/-- **smo_step_gain**: the equality-constrained clipped step with working set `(i,j)`, `g_i ≥ g_j`, moves
`α_i += μ`, `α_j −= μ` with a step length `0 ≤ μ ≤ (g_i − g_j) / max(K_ii + K_jj − 2K_ij, 1e-12)` that keeps both
coefficients in their boxes, and changes the dual objective by exactly
`μ·(g_i − g_j) − ½·μ²·(K_ii + K_jj − 2K_ij)`, which is at least `½·μ·(g_i − g_j) ≥ 0`.

Which hypothesis does the `max(denominator, 1e-12)` guard need?  None: `max(κ,1e-12) ≥ κ`, so the guarded step is
never longer than the exact line maximiser when `κ ≥ 0` (it is merely shorter when `0 ≤ κ < 1e-12`), and for `κ < 0`
(not PSD) the second-order term only adds.  So not even `κ ≥ 0` is needed for monotonicity; symmetry of `K` and the
gradient invariant (both part of `Inv`) are. -/
theorem smo_step_gain {s : RS} (h : Inv s) (he : s.eqc = true) {i j : Nat} (hi : i < s.active) (hj : j < s.active)
    (hg : s.g j ≤ s.g i) :
    let μ := (svmR s i j).1
    let κ := s.diag i + s.diag j - 2 * s.q i j
    (0 ≤ μ ∧ μ ≤ (s.g i - s.g j) / svmDen s i j ∧ μ ≤ s.U i - s.alpha i ∧ μ ≤ s.alpha j - s.L j) ∧
    dualObjective (s.updateSMO i j) - dualObjective s = μ * (s.g i - s.g j) - (1 / 2) * (μ * μ) * κ ∧
    (1 / 2) * (μ * (s.g i - s.g j)) ≤ dualObjective (s.updateSMO i j) - dualObjective s ∧
    dualObjective s ≤ dualObjective (s.updateSMO i j) := by
  intro μ κ
  have hin : i < s.n := Nat.lt_of_lt_of_le hi h.act_le
  have hjn : j < s.n := Nat.lt_of_lt_of_le hj h.act_le
  obtain ⟨h0, h1, _, _, h4, h5⟩ := svmR_spec h hin hjn hg
  have hd := dual_updateSMO_svm h he hi hj hg
  have hge := svm_gain_ge h hin hjn hg
  have hnn : 0 ≤ (svmR s i j).1 * (s.g i - s.g j) := mul_nonneg h0 (by linarith)
  refine ⟨⟨h0, h1, h4, h5⟩, hd, ?_, ?_⟩
  · rw [hd]; exact hge
  · linarith

/-- the guarded curvature of `smo_step_gain` is what the C++ computes: `max(K_ii + K_jj − 2K_ij, 1e-12)` -/
theorem svmDen_is_guard (s : RS) (i j : Nat) :
    svmDen s i j = max (s.diag i + s.diag j - 2 * s.q i j) (1 / 1000000000000) := by
  unfold svmDen smax; rw [lit2, litE]
  split
  · rename_i h; exact (max_eq_right (le_of_lt h)).symm
  · rename_i h; exact (max_eq_left (not_lt.mp h)).symm

/-- **strict progress**: a strictly violating pair with room to move (`α_i < U_i`, `α_j > L_j`) gains strictly. -/
theorem smo_step_gain_pos {s : RS} (h : Inv s) (he : s.eqc = true) {i j : Nat} (hi : i < s.active) (hj : j < s.active)
    (hg : s.g j < s.g i) (hui : s.alpha i < s.U i) (hlj : s.L j < s.alpha j) :
    dualObjective s < dualObjective (s.updateSMO i j) := by
  have hin : i < s.n := Nat.lt_of_lt_of_le hi h.act_le
  have hjn : j < s.n := Nat.lt_of_lt_of_le hj h.act_le
  have hp := svmR_pos h hin hjn hg hui hlj
  have := (smo_step_gain h he hi hj (le_of_lt hg)).2.2.1
  have hpos : 0 < (svmR s i j).1 * (s.g i - s.g j) := mul_pos hp (by linarith)
  linarith

example : ∃ (s : RS) (i j : Nat), Inv s ∧ s.eqc = true ∧ i < s.active ∧ j < s.active ∧ s.g j < s.g i ∧
    s.alpha i < s.U i ∧ s.L j < s.alpha j :=
  ⟨State.init 2 (fun _ _ => 1) true true (fun k => if k = 0 then 1 else 0) (fun _ => -1) (fun _ => 1), 0, 1,
   init_inv 2 _ true true _ _ _ (fun _ _ => rfl) (fun _ _ => by norm_num), rfl, by decide, by decide,
   by simp [State.init], by simp [State.init, lit0], by simp [State.init, lit0]⟩

/-- **2-D box step**: `BoxConstrainedProblem::updateSMO(i,j)`, `i ≠ j`, changes the dual objective by exactly the
`gain` expression of `solveQuadratic2DBox` at the point it returns, which is `≥ 0` when `K_ii ≥ 0`
(`box2d_gain_nonneg`). -/
theorem box_step_gain_two {s : RS} (h : Inv s) (he : s.eqc = false) {i j : Nat} (hi : i < s.active) (hj : j < s.active)
    (hij : i ≠ j) (hQ : 0 ≤ s.diag i) :
    dualObjective (s.updateSMO i j) - dualObjective s
      = gain2 (s.g i) (s.g j) (s.diag i) (s.q i j) (s.diag j) ((boxV2 s i j).1 - s.alpha i) ((boxV2 s i j).2 - s.alpha j) ∧
    dualObjective s ≤ dualObjective (s.updateSMO i j) := by
  have hd := dual_updateSMO_box_two h he hi hj hij
  refine ⟨hd, ?_⟩
  have := box2d_gain_nonneg (s.alpha i) (s.alpha j) (s.g i) (s.g j) (s.diag i) (s.q i j) (s.diag j)
    (s.boxMin i) (s.boxMax i) (s.boxMin j) (s.boxMax j) hQ
  unfold boxV2 at hd
  linarith

/-- FULL STATEMENT (not provable for the code as it is): the 1-D box step never decreases the dual objective.
PROVED PART: all curvatures outside the guard region `0 < K_ii < 1e-12` of `solveQuadraticEdge`
(`edge_gain_negative_witness` / `box_step_gain_one_negative_witness` lie inside it). -/
theorem box_step_gain_one_partial {s : RS} (h : Inv s) (he : s.eqc = false) {i : Nat} (hi : i < s.active)
    (hQ : s.diag i = 0 ∨ 1 / 1000000000000 ≤ s.diag i) :
    dualObjective s ≤ dualObjective (s.updateSMO i i) := by
  have hin : i < s.n := Nat.lt_of_lt_of_le hi h.act_le
  have hd := dual_updateSMO_box_one h he hi
  have hb := h.box i hin
  have := edge_gain_nonneg_partial (s.alpha i) (s.g i) (s.diag i) (s.boxMin i) (s.boxMax i)
    (by rw [boxMin_eq h hin]; exact hb.1) (by rw [boxMax_eq h hin]; exact hb.2) hQ
  unfold boxV1 at hd
  linarith

/-- solver-level witness inside the excluded guard region: one variable, `K = 1e-13`, `lin = 1e-20`, box `[0,1]`,
cold start: the 1-D step jumps to `α = 1` and the dual objective drops from `0` to `1e-20 − 5e-14`. -/
theorem box_step_gain_one_negative_witness :
    let s : RS := State.init 1 (fun _ _ => 1 / 10 ^ 13) false false (fun _ => 1 / 10 ^ 20) (fun _ => 0) (fun _ => 1)
    dualObjective (s.updateSMO 0 0) < dualObjective s := by
  intro s
  have hI : Inv s := init_inv 1 _ false false _ _ _ (fun _ _ => rfl) (fun _ _ => by norm_num)
  have hd := dual_updateSMO_box_one hI rfl (i := 0) (by decide)
  have hv : boxV1 s 0 = 1 := by
    simp only [boxV1, s, State.init, State.boxMin, State.boxMax, solveQuadraticEdge, lit0, litE]
    norm_num
  rw [hv] at hd
  have e1 : s.alpha 0 = 0 := lit0
  have e2 : s.g 0 = 1 / 10 ^ 20 := rfl
  have e3 : s.diag 0 = 1 / 10 ^ 13 := rfl
  rw [e1, e2, e3] at hd
  have : (1 - 0) * (1 / 10 ^ 20) - 1 / 10 ^ 13 * (1 - 0) * (1 - 0) / 2 < (0 : Rat) := by norm_num
  linarith

/-- the diagonal of the (unpermuted) matrix never changes -/
theorem run_K (ops : List Op) : ∀ (s : RS), Inv s → validSeq s ops → (run s ops).K = s.K := by
  induction ops with
  | nil => intro s _ _; rfl
  | cons op ops ih =>
    intro s h hv
    have e : (apply s op).K = s.K :=
      apply_orderFree (F := fun t : RS => t.K) ⟨fun _ _ _ _ hK _ _ _ => hK, fun _ _ _ _ _ => rfl⟩ h hv.1
        (fun i j _ => (updateSMO_frame s i j).2.2.1)
    exact (ih _ (apply_inv h hv.1) hv.2).trans e

/-- one operation never decreases the dual objective (hypothesis on the diagonal only for the box kind) -/
theorem apply_objective {s : RS} (h : Inv s) {op : Op} (hv : op.valid s)
    (hK : s.eqc = false → ∀ x, s.K x x = 0 ∨ 1 / 1000000000000 ≤ s.K x x) :
    dualObjective s ≤ dualObjective (apply s op) := by
  cases op with
  | flip i j => exact le_of_eq (orderFree_dual.flip s i j hv.1 hv.2.1).symm
  | unshrink => exact le_of_eq (orderFree_dual.unshrink s).symm
  | shrink eps => exact le_of_eq (orderFree_dual.shrink h eps).symm
  | smo i j =>
    have hin : i < s.n := Nat.lt_of_lt_of_le hv.1 h.act_le
    cases he : s.eqc
    · have hd := hK he (s.perm i)
      rw [← h.diag i hin] at hd
      by_cases hij : i = j
      · subst hij; exact box_step_gain_one_partial h he hv.1 hd
      · refine (box_step_gain_two h he hv.1 hv.2.1 hij ?_).2
        rcases hd with hd | hd
        · rw [hd]
        · exact le_trans (by norm_num) hd
    · exact (smo_step_gain h he hv.1 hv.2.1 (hv.2.2 he)).2.2.2

/-- **objective monotonicity, equality-constrained problem (full)**: after every admissible history the dual
objective `lin·α − ½ αᵀKα` is at least what it was before -- any symmetric `K`, no curvature hypothesis. -/
theorem objective_monotone_svm (ops : List Op) : ∀ (s : RS), Inv s → s.eqc = true → validSeq s ops →
    dualObjective s ≤ dualObjective (run s ops) := by
  induction ops with
  | nil => intro s _ _ _; exact le_refl _
  | cons op ops ih =>
    intro s h he hv
    have he' : (apply s op).eqc = true :=
      (apply_orderFree orderFree_eqc h hv.1 (fun i j _ => (updateSMO_frame s i j).2.1)).trans he
    have e := apply_objective h hv.1 (fun hf => by rw [he] at hf; exact absurd hf (by simp))
    exact le_trans e (ih _ (apply_inv h hv.1) he' hv.2)

/-- FULL STATEMENT (not provable for the code as it is): for every PSD `K` the dual objective never decreases along
any admissible history of either problem kind.  PROVED PART: all matrices whose diagonal entries are `0` or `≥ 1e-12`
(outside the curvature guard of the 1-D sub-solver); see `box_step_gain_one_negative_witness`. -/
theorem objective_monotone_partial (ops : List Op) : ∀ (s : RS), Inv s →
    (∀ x, s.K x x = 0 ∨ 1 / 1000000000000 ≤ s.K x x) → validSeq s ops →
    dualObjective s ≤ dualObjective (run s ops) := by
  induction ops with
  | nil => intro s _ _ _; exact le_refl _
  | cons op ops ih =>
    intro s h hK hv
    have eK : (apply s op).K = s.K := run_K [op] s h ⟨hv.1, trivial⟩
    have e := apply_objective h hv.1 (fun _ => hK)
    exact le_trans e (ih _ (apply_inv h hv.1) (by rw [eK]; exact hK) hv.2)

example : ∃ s : RS, Inv s ∧ (∀ x, s.K x x = 0 ∨ 1 / 1000000000000 ≤ s.K x x) ∧ validSeq s [Op.smo 0 1, Op.smo 0 0] :=
  ⟨State.init 2 (fun _ _ => 1) false true (fun _ => 1) (fun _ => 0) (fun _ => 1),
   init_inv 2 _ false true _ _ _ (fun _ _ => rfl) (fun _ _ => by norm_num),
   fun _ => Or.inr (by simp [State.init]; norm_num),
   ⟨⟨by decide, by decide, fun h => by simp [State.init] at h⟩,
    ⟨by show 0 < (State.updateSMO _ 0 1).active; rw [updateSMO_active]; decide,
     by show 0 < (State.updateSMO _ 0 1).active; rw [updateSMO_active]; decide, fun _ => le_refl _⟩, trivial⟩⟩


/-! ## 5. Shrinking is sound -/

/-- **shrink_sound (one test)**: in any state that satisfies the invariant, with any bounds `largestUp` / `smallestDown`
that are valid for the active variables (`Bounds`; `getMaxKKTViolations` computes such bounds, `bounds_maxKKT`), a
variable for which `testShrinkVariable` answers "shrink" cannot take part in an improving step at that moment:
* equality-constrained problem (`NoGainSvm`): EVERY feasible sum-preserving two-variable move of non-zero length that
  involves it, with any active partner and non-negative curvature along the move (true for PSD `K`), strictly
  decreases the dual objective -- exact second-order statement, not only first order;
* box problem (`NoGainBox`): every feasible move of the variable has a strictly negative first-order effect (alone or
  as part of a joint move), and moving it alone strictly decreases the dual objective when `K_aa ≥ 0`. -/
theorem shrink_sound_step {s : RS} (h : Inv s) {lu sd : Rat} (hB : Bounds s lu sd) {a : Nat} (ha : a < s.active)
    (ht : s.testShrink a lu sd = true) :
    (s.eqc = true → NoGainSvm s a) ∧ (s.eqc = false → NoGainBox s a) :=
  ⟨fun he => noGain_svm h he hB ha ht, fun he => noGain_box h he ha ht⟩

/-- **shrink_sound**: `shrink(eps)` (with its optional internal unshrink and the re-computation of the bounds) is the
back-to-front loop started in `shrinkStart s eps`; `removals` lists the states and variables at which that loop removes
a variable (`shrinkGo_active`: one per decrement of `active`), and at EVERY such moment the invariant holds, the
bounds computed before the loop are still valid for the remaining active variables, and the removed variable cannot
take part in an improving step (`NoGainSvm` / `NoGainBox` as in `shrink_sound_step`).  Hence shrinking never removes
a variable that could improve the objective at that moment; that the optimum is unchanged is C07
`stopped_near_optimal_svm/_box`, which holds for the reported state after ANY history (`reachable_inv`). -/
theorem shrink_sound {s : RS} (h : Inv s) (eps : Rat) (hs : s.shrinkOn = true) :
    let st := shrinkStart s eps
    (s.shrink eps).1 = State.shrinkGo st.2.1 st.2.2 st.1.active st.1 ∧
    (State.shrinkGo st.2.1 st.2.2 st.1.active st.1).active + (removals st.2.1 st.2.2 st.1.active st.1).length
      = st.1.active ∧
    ∀ p, p ∈ removals st.2.1 st.2.2 st.1.active st.1 →
      Inv p.1 ∧ p.2 < p.1.active ∧ (s.eqc = true → NoGainSvm p.1 p.2) ∧ (s.eqc = false → NoGainBox p.1 p.2) := by
  intro st
  obtain ⟨hI, hs', he, hB⟩ := shrinkStart_spec h eps hs
  refine ⟨shrink_eq s eps hs, shrinkGo_active _ _ _ _ (Nat.le_refl _), ?_⟩
  intro p hp
  obtain ⟨h1, h2, h3, h4, h5⟩ := removals_spec st.2.1 st.2.2 st.1.active st.1 hI hs' (Nat.le_refl _) hB p hp
  have hpe : p.1.eqc = s.eqc := h5.trans he
  exact ⟨h1, h2, fun e => noGain_svm h1 (hpe.trans e) h3 h2 h4, fun e => noGain_box h1 (hpe.trans e) h2 h4⟩

/-- **shrink_final_sound**: `shrink_sound` read off the FINAL state of `shrink(eps)` -- exactly what the independent
oracle of the harness checks on the real code after every call.  Let `m` be the size of the start set of the call
(`shrinkStart_size`: ALL `n` variables when the call un-shrinks first -- `m_isUnshrinked` false and KKT gap of the
active variables below `10·eps` --, the active ones otherwise) and `s'` the state after the call.  Then
* `s'.active ≤ m` and the positions `s'.active ≤ a < m` hold the variables removed by this call;
* every variable of the start set carries its TRUE gradient `lin − K·α` in `s'` (also the removed ones, and also the
  ones the un-shrink re-activated), is inside its box and has correct flags: the invariant holds for `s'` with `active`
  reset to `m`;
* equality-constrained kind: a removed variable `a` and ANY other variable `b` of the start set -- still active or
  removed by the same call -- admit no feasible ascending first-order move (`PairNoAscent`: `a` can go up and `b` down
  only if `g a < g b`, `a` down and `b` up only if `g b < g a`, strictly);
* box kind: a removed variable cannot move in a direction of non-negative slope (`SingleNoAscent`).
In particular a KKT violator that an earlier call had removed and that the un-shrink re-activates takes part in the
thresholds of the re-shrinking: neither it nor any variable that could pair with it is removed. -/
theorem shrink_final_sound {s : RS} (h : Inv s) (eps : Rat) (hs : s.shrinkOn = true) :
    let m := (shrinkStart s eps).1.active
    let s' := (s.shrink eps).1
    s'.active ≤ m ∧ Inv ({ s' with active := m } : RS) ∧
    (∀ a, a < m → s'.g a = s'.lin a - Kalpha s' a) ∧
    (s.eqc = true → ∀ a b, s'.active ≤ a → a < m → b < m → b ≠ a → PairNoAscent s' a b) ∧
    (s.eqc = false → ∀ a, s'.active ≤ a → a < m → SingleNoAscent s' a) := by
  intro m s'
  obtain ⟨hI, hs', he, hB⟩ := shrinkStart_spec h eps hs
  have r := shrinkGo_final (shrinkStart s eps).2.1 (shrinkStart s eps).2.2 m (shrinkStart s eps).1.active
    (shrinkStart s eps).1 hI hs' (Nat.le_refl _) (Nat.le_refl _) hI hB
    (fun _ x _ hx hxm _ _ => absurd hxm (Nat.not_lt.mpr hx))
    (fun _ x hx hxm => absurd hxm (Nat.not_lt.mpr hx))
  have e : s' = State.shrinkGo (shrinkStart s eps).2.1 (shrinkStart s eps).2.2 (shrinkStart s eps).1.active
      (shrinkStart s eps).1 := shrink_eq s eps hs
  rw [← e] at r
  obtain ⟨r1, r2, _, r4, r5⟩ := r
  exact ⟨r1, r2, fun a ha => r2.grad a ha, fun e' => r4 (he.trans e'), fun e' => r5 (he.trans e')⟩

/-- the start set of `shrink(eps)`: all `n` variables exactly when the call un-shrinks first -/
theorem shrinkStart_size (s : RS) (eps : Rat) :
    (shrinkStart s eps).1.active =
      if (!s.unshrinked && decide ((s.maxKKT s.active).1 - (s.maxKKT s.active).2 < (10.0 : Rat) * eps)) = true
      then s.n else s.active := shrinkStart_active s eps

/-- features of the witness: movers `(1), (−1)`, a leverage point `(−8)`, a bystander `(0)`; linear kernel -/
def wgX (k : Nat) : Rat := if k = 0 then 1 else if k = 1 then -1 else if k = 2 then -8 else 0
/-- cold start of the witness problem (equality-constrained kind, shrinking on) -/
def wrongGuess0 : RS := State.init 4 (fun a b => wgX a * wgX b) true true
  (fun k => if k = 0 then 1 else if k = 1 then -1 else if k = 2 then -3 else 2)
  (fun k => if k = 1 then -4 else if k = 3 then -1 else 0)
  (fun k => if k = 0 then 4 else if k = 2 then 1 else 0)
/-- `shrink(1/1000)` at the cold start removes variables 2 and 3 (correctly, at that moment); the step on the remaining
pair `(0,1)` solves the active sub-problem and moves the gradient of the shrunk variable 2 from −3 to 5 -/
def wrongGuess : RS := run wrongGuess0 [Op.shrink (1/1000), Op.smo 0 1]

/-- **the un-shrink branch is inhabited, with a wrongly shrunk variable present, and the re-computation of the thresholds
over ALL variables cannot be dropped**: in `wrongGuess` (reachable: invariant holds) two variables are shrunk and one of
them has become a KKT violator (it can go up, active variable 1 can go down, slope `g 2 − g 1 = 5` with the true gradients
that un-shrinking restores).  `shrink(1/1000)` un-shrinks (KKT gap of the active pair `0 < 10·eps`, first time) and,
with the thresholds recomputed over all four variables, removes nothing.  With the thresholds of the two formerly
active variables instead (the seeded defect `shrink-stale-active-count-after-unshrink`) the same loop removes variable 3
although the pair (2 up, 3 down) is a feasible ascending move: `PairNoAscent` fails for it. -/
theorem shrink_unshrink_branch_witness :
    Inv wrongGuess ∧ wrongGuess.shrinkOn = true ∧ wrongGuess.n = 4 ∧ wrongGuess.active = 2 ∧
    wrongGuess.unshrinked = false ∧
    wrongGuess.unshrink.g 2 - wrongGuess.unshrink.g 1 = 5 ∧
    (shrinkStart wrongGuess (1/1000)).1.active = 4 ∧ (wrongGuess.shrink (1/1000)).1.active = 4 ∧
    (State.shrinkGo (wrongGuess.maxKKT 2).1 (wrongGuess.maxKKT 2).2 4 wrongGuess.unshrink).active = 3 ∧
    ¬ PairNoAscent (State.shrinkGo (wrongGuess.maxKKT 2).1 (wrongGuess.maxKKT 2).2 4 wrongGuess.unshrink) 3 2 := by
  refine ⟨?_, by decide +kernel, by decide +kernel, by decide +kernel, by decide +kernel, by decide +kernel,
          by decide +kernel, by decide +kernel, by decide +kernel, ?_⟩
  · refine reachable_inv _ _ (init_inv 4 _ true true _ _ _ (fun x y => mul_comm _ _) ?_) ?_
    · intro k _; constructor <;> (repeat' split) <;> norm_num
    · exact ⟨trivial, ⟨by decide +kernel, by decide +kernel, fun _ => by decide +kernel⟩, trivial⟩
  · intro h
    have := h.2 (by decide +kernel) (by decide +kernel)
    revert this
    decide +kernel
/-- non-vacuity of `shrink_final_sound` (its hypotheses are those of `shrink_sound`): a cold-start problem -/
example : ∃ s : RS, Inv s ∧ s.shrinkOn = true :=
  ⟨State.init 2 (fun a b => if a = b then 1 else 0) true true (fun k => if k = 0 then -1 else 1) (fun _ => 0) (fun _ => 1),
   init_inv 2 _ true true _ _ _ (by intro x y; by_cases hxy : x = y <;> simp [hxy, eq_comm]) (fun _ _ => by norm_num), rfl⟩

/-- non-vacuity of `shrink_sound_step`: two variables, box `[0,1]`, `lin = (−1, 1)`, cold start: variable 0 sits at its
lower bound with negative gradient and passes the shrink test -/
example : ∃ (s : RS) (lu sd : Rat) (a : Nat), Inv s ∧ s.shrinkOn = true ∧ Bounds s lu sd ∧ a < s.active ∧
    s.testShrink a lu sd = true := by
  refine ⟨State.init 2 (fun a b => if a = b then 1 else 0) false true (fun k => if k = 0 then -1 else 1)
    (fun _ => 0) (fun _ => 1), 1, 0, 0, init_inv 2 _ false true _ _ _ ?_ (fun _ _ => by norm_num), rfl, ?_, by decide, ?_⟩
  · intro x y; by_cases hxy : x = y <;> simp [hxy, eq_comm]
  · intro b _
    constructor
    · intro _; simp only [State.init]; split <;> norm_num
    · intro hl; simp [State.init, lit0] at hl
  · simp [State.testShrink, State.init, smin, lit0]


/-! ## 6. The working sets the solver selects are admissible -/

/-- **select_valid** (`selection_returns_violating_pair`): whenever a selection criterion reports a positive
violation -- in particular whenever `QpSolver::solve` goes on to `updateSMO` because the reported value is `≥ eps > 0`
-- the working set it returns is admissible for `updateSMO` in the sense of `Op.valid`: both indices active and, for
the MVP and LibSVM criteria (strategies 0, 1; the only ones used with the equality-constrained problem), `g_i ≥ g_j`.
For MVP the gradients of the active variables must lie inside the C++ sentinel range `[−1e100, 1e100]`. -/
theorem select_valid (s : RS) (strategy i0 j0 : Nat) (hk : s.eqc = true → strategy ≤ 1)
    (hr : strategy = 0 → ∀ a, a < s.active → -(10 : Rat) ^ 100 ≤ s.g a ∧ s.g a ≤ 10 ^ 100)
    (hv : 0 < (s.select strategy i0 j0).2.2) :
    (Op.smo (s.select strategy i0 j0).1 (s.select strategy i0 j0).2.1).valid s := by
  match strategy, hk, hr, hv with
  | 0, _, hr, hv =>
    obtain ⟨h1, h2, h3⟩ := selectMVP_spec s i0 j0 (hr rfl) hv
    have hv' : 0 < (s.selectMVP i0 j0).2.2 := hv
    exact ⟨h1, h2, fun _ => by
      show s.g (s.selectMVP i0 j0).2.1 ≤ s.g (s.selectMVP i0 j0).1
      linarith⟩
  | 1, _, _, hv =>
    obtain ⟨h1, h2, h3⟩ := selectLibSVM_spec s hv
    exact ⟨h1, h2, fun _ => le_of_lt h3⟩
  | n + 2, hk, _, hv =>
    obtain ⟨h1, h2⟩ := selectMaxGain_spec s hv
    refine ⟨h1, h2, fun he => ?_⟩
    have := hk he
    omega

/-- **one pass of `QpSolver::solve` without the stopping branch** (the selection reports a violation `≥ eps > 0`):
every state the pass produces (after `updateSMO`, after the periodic `shrink`) satisfies the invariant, and the dual
objective of the equality-constrained problem does not decrease. -/
theorem solveIter_direct_inv (strategy : Nat) (eps : Rat) (heps : 0 < eps) (s : RS) (counter : Nat) (h : Inv s)
    (hk : s.eqc = true → strategy ≤ 1)
    (hr : strategy = 0 → ∀ a, a < s.active → -(10 : Rat) ^ 100 ≤ s.g a ∧ s.g a ≤ 10 ^ 100)
    (hdirect : ¬ (s.select strategy 0 0).2.2 < eps) :
    ∀ e, e ∈ (solveIter strategy eps s counter).1 → Inv e.2 := by
  have hv : 0 < (s.select strategy 0 0).2.2 := lt_of_lt_of_le heps (not_lt.mp hdirect)
  have hval := select_valid s strategy 0 0 hk hr hv
  have hI : Inv (s.updateSMO (s.select strategy 0 0).1 (s.select strategy 0 0).2.1) :=
    apply_inv (op := Op.smo _ _) h hval
  intro e he
  unfold solveIter at he
  simp only [hdirect, if_false, List.nil_append] at he
  split at he
  · simp only [List.cons_append, List.nil_append, List.mem_cons, List.not_mem_nil, or_false] at he
    rcases he with he | he
    · rw [he]; exact hI
    · rw [he]; exact inv_shrink hI eps
  · simp only [List.mem_cons, List.not_mem_nil, or_false] at he
    rw [he]; exact hI


/-! ## 7. Every run of `QpSolver::solve` on the box-constrained problem -/

/-- **every pass of `QpSolver::solve` on the box-constrained problem** (maximum-gain selection, `strategy ≥ 2`,
`eps > 0`), the stopping branch with its re-selection included: every state the pass produces satisfies the invariant,
and so does the state handed to the next pass. -/
theorem solveIter_inv_box (strategy : Nat) (hstr : 2 ≤ strategy) (eps : Rat) (heps : 0 < eps) (s : RS) (counter : Nat)
    (h : Inv s) (he : s.eqc = false) :
    (∀ e, e ∈ (solveIter strategy eps s counter).1 → Inv e.2 ∧ e.2.eqc = false) ∧
    (∀ s' c', (solveIter strategy eps s counter).2 = some (s', c') → Inv s' ∧ s'.eqc = false) := by
  have hsel : ∀ (t : RS) (i0 j0 : Nat), t.select strategy i0 j0 = t.selectMaxGain := by
    intro t i0 j0
    match strategy, hstr with
    | n + 2, _ => rfl
  -- the SMO step on a pair of active indices
  have hstep : ∀ (t : RS), Inv t → t.eqc = false → 0 < t.active →
      Inv (t.updateSMO t.selectMaxGain.1 t.selectMaxGain.2.1) ∧ (t.updateSMO t.selectMaxGain.1 t.selectMaxGain.2.1).eqc = false := by
    intro t ht hte hpos
    obtain ⟨hi, hj⟩ := selectMaxGain_lt t hpos
    exact ⟨updateSMO_inv_box ht hte hi hj, ((updateSMO_frame t _ _).2.1).trans hte⟩
  -- the tail of the pass: SMO step on `t`, then possibly the periodic shrink
  have htail : ∀ (t : RS) (pre : List (Ev × RS)), Inv t → t.eqc = false → 0 < t.active →
      (∀ e, e ∈ pre → Inv e.2 ∧ e.2.eqc = false) →
      let s3 := t.updateSMO t.selectMaxGain.1 t.selectMaxGain.2.1
      let evs := pre ++ [(Ev.smo t.selectMaxGain.1 t.selectMaxGain.2.1, s3)]
      (∀ e, e ∈ evs → Inv e.2 ∧ e.2.eqc = false) ∧
      (∀ e, e ∈ evs ++ [(Ev.shrink (s3.shrink eps).2, (s3.shrink eps).1)] → Inv e.2 ∧ e.2.eqc = false) ∧
      (Inv (s3.shrink eps).1 ∧ (s3.shrink eps).1.eqc = false) ∧ (Inv s3 ∧ s3.eqc = false) := by
    intro t pre ht hte hpos hpre s3 evs
    have h3 := hstep t ht hte hpos
    have h4 : Inv (s3.shrink eps).1 ∧ (s3.shrink eps).1.eqc = false :=
      ⟨inv_shrink h3.1 eps, (shrink_eqc s3 h3.1 eps).trans h3.2⟩
    refine ⟨?_, ?_, h4, h3⟩
    · intro e he'
      rcases List.mem_append.mp he' with h' | h'
      · exact hpre e h'
      · simp only [List.mem_cons, List.not_mem_nil, or_false] at h'; rw [h']; exact h3
    · intro e he'
      rcases List.mem_append.mp he' with h' | h'
      · rcases List.mem_append.mp h' with h'' | h''
        · exact hpre e h''
        · simp only [List.mem_cons, List.not_mem_nil, or_false] at h''; rw [h'']; exact h3
      · simp only [List.mem_cons, List.not_mem_nil, or_false] at h'; rw [h']; exact h4
  unfold solveIter
  simp only [hsel]
  by_cases hacc : s.selectMaxGain.2.2 < eps
  · -- stopping branch
    simp only [hacc, if_true]
    have hu : Inv s.unshrink := inv_unshrink h
    have hue : s.unshrink.eqc = false := (unshrink_eqc s).trans he
    by_cases hkkt : s.unshrink.checkKKT < eps
    · simp only [hkkt, if_true]
      refine ⟨?_, fun s' c' hn => by simp at hn⟩
      intro e he'
      simp only [List.mem_cons, List.not_mem_nil, or_false] at he'
      rw [he']; exact ⟨hu, hue⟩
    · simp only [hkkt, if_false]
      have hkpos : 0 < s.unshrink.checkKKT := lt_of_lt_of_le heps (not_lt.mp hkkt)
      have ht : Inv (s.unshrink.shrink eps).1 := inv_shrink hu eps
      have hte : (s.unshrink.shrink eps).1.eqc = false := (shrink_eqc _ hu eps).trans hue
      have hpos : 0 < (s.unshrink.shrink eps).1.active :=
        shrink_box_active_pos hu hue (unshrink_active s) eps hkpos
      have hpre : ∀ e, e ∈ [(Ev.unshrink, s.unshrink), (Ev.shrink (s.unshrink.shrink eps).2, (s.unshrink.shrink eps).1)] →
          Inv e.2 ∧ e.2.eqc = false := by
        intro e he'
        simp only [List.mem_cons, List.not_mem_nil, or_false] at he'
        rcases he' with h' | h' <;> rw [h']
        · exact ⟨hu, hue⟩
        · exact ⟨ht, hte⟩
      obtain ⟨t1, t2, t3, t4⟩ := htail _ _ ht hte hpos hpre
      try dsimp only at t1 t2 t3 t4 ⊢
      split
      · exact ⟨t2, fun s' c' hn => by simp only [Option.some.injEq, Prod.mk.injEq] at hn; rw [← hn.1]; exact t3⟩
      · exact ⟨t1, fun s' c' hn => by simp only [Option.some.injEq, Prod.mk.injEq] at hn; rw [← hn.1]; exact t4⟩
  · -- direct branch: the selection reports a violation ≥ eps > 0
    simp only [hacc, if_false]
    have hv : 0 < s.selectMaxGain.2.2 := lt_of_lt_of_le heps (not_lt.mp hacc)
    have hpos : 0 < s.active := by have := (selectMaxGain_spec s hv).1; omega
    obtain ⟨t1, t2, t3, t4⟩ := htail s [] h he hpos (fun e he' => by simp at he')
    try dsimp only at t1 t2 t3 t4 ⊢
    simp only [List.nil_append] at t1 t2 ⊢
    split
    · exact ⟨t2, fun s' c' hn => by simp only [Option.some.injEq, Prod.mk.injEq] at hn; rw [← hn.1]; exact t3⟩
    · exact ⟨t1, fun s' c' hn => by simp only [Option.some.injEq, Prod.mk.injEq] at hn; rw [← hn.1]; exact t4⟩


/-- **the whole solver run on the box-constrained problem** (`CSvmTrainer` without bias: maximum-gain selection): for
every iteration limit, start counter and `eps > 0`, the state `QpSolver::solve` ends in satisfies the invariant -- no
admissibility hypothesis on the working sets is left, the solver's own selections are covered, the re-selection in the
stopping branch included. -/
theorem solve_inv_box (strategy : Nat) (hstr : 2 ≤ strategy) (eps : Rat) (heps : 0 < eps) :
    ∀ (fuel : Nat) (s : RS) (counter it : Nat), Inv s → s.eqc = false →
      Inv (solve strategy eps fuel s counter it).1 ∧ (solve strategy eps fuel s counter it).1.eqc = false := by
  intro fuel
  induction fuel with
  | zero => intro s _ _ h he; exact ⟨inv_unshrink h, (unshrink_eqc s).trans he⟩
  | succ fuel ih =>
    intro s counter it h he
    obtain ⟨hev, hnext⟩ := solveIter_inv_box strategy hstr eps heps s counter h he
    unfold solve
    cases hn : (solveIter strategy eps s counter).2 with
    | none =>
      simp only []
      cases hl : (solveIter strategy eps s counter).1.getLast? with
      | none => simpa using ⟨h, he⟩
      | some e => simpa using hev e (List.mem_of_getLast? hl)
    | some p =>
      obtain ⟨s', c'⟩ := p
      simp only []
      exact ih s' c' (it + 1) (hnext s' c' hn).1 (hnext s' c' hn).2

/-! ## 8. Every run of `QpSolver::solve` on the equality-constrained problem -/

/-- **every pass of `QpSolver::solve` on the equality-constrained problem** (LibSVM second-order selection,
`strategy = 1`, `eps > 0`), the stopping branch with its re-selection included, as long as the gradients of the
un-shrunk state stay strictly inside the C++ sentinel range `(−1e100, 1e100)`: every state the pass produces satisfies
the invariant, and so does the state handed to the next pass. -/
theorem solveIter_inv_svm (eps : Rat) (heps : 0 < eps) (s : RS) (counter : Nat)
    (h : Inv s) (he : s.eqc = true) (hr : SentinelOK s) :
    (∀ e, e ∈ (solveIter 1 eps s counter).1 → Inv e.2 ∧ e.2.eqc = true) ∧
    (∀ s' c', (solveIter 1 eps s counter).2 = some (s', c') → Inv s' ∧ s'.eqc = true) := by
  have hsel : ∀ (t : RS) (i0 j0 : Nat), t.select 1 i0 j0 = t.selectLibSVM := fun _ _ _ => rfl
  have hstep : ∀ (t : RS), Inv t → t.eqc = true → 0 < t.selectLibSVM.2.2 →
      Inv (t.updateSMO t.selectLibSVM.1 t.selectLibSVM.2.1) ∧ (t.updateSMO t.selectLibSVM.1 t.selectLibSVM.2.1).eqc = true := by
    intro t ht hte hpos
    obtain ⟨hi, hj, hg⟩ := selectLibSVM_spec t hpos
    exact ⟨updateSMO_inv_svm ht hte hi hj (le_of_lt hg), ((updateSMO_frame t _ _).2.1).trans hte⟩
  have htail : ∀ (t : RS) (pre : List (Ev × RS)), Inv t → t.eqc = true → 0 < t.selectLibSVM.2.2 →
      (∀ e, e ∈ pre → Inv e.2 ∧ e.2.eqc = true) →
      let s3 := t.updateSMO t.selectLibSVM.1 t.selectLibSVM.2.1
      let evs := pre ++ [(Ev.smo t.selectLibSVM.1 t.selectLibSVM.2.1, s3)]
      (∀ e, e ∈ evs → Inv e.2 ∧ e.2.eqc = true) ∧
      (∀ e, e ∈ evs ++ [(Ev.shrink (s3.shrink eps).2, (s3.shrink eps).1)] → Inv e.2 ∧ e.2.eqc = true) ∧
      (Inv (s3.shrink eps).1 ∧ (s3.shrink eps).1.eqc = true) ∧ (Inv s3 ∧ s3.eqc = true) := by
    intro t pre ht hte hpos hpre s3 evs
    have h3 := hstep t ht hte hpos
    have h4 : Inv (s3.shrink eps).1 ∧ (s3.shrink eps).1.eqc = true :=
      ⟨inv_shrink h3.1 eps, (shrink_eqc s3 h3.1 eps).trans h3.2⟩
    refine ⟨?_, ?_, h4, h3⟩
    · intro e he'
      rcases List.mem_append.mp he' with h' | h'
      · exact hpre e h'
      · simp only [List.mem_cons, List.not_mem_nil, or_false] at h'; rw [h']; exact h3
    · intro e he'
      rcases List.mem_append.mp he' with h' | h'
      · rcases List.mem_append.mp h' with h'' | h''
        · exact hpre e h''
        · simp only [List.mem_cons, List.not_mem_nil, or_false] at h''; rw [h'']; exact h3
      · simp only [List.mem_cons, List.not_mem_nil, or_false] at h'; rw [h']; exact h4
  unfold solveIter
  simp only [hsel]
  by_cases hacc : s.selectLibSVM.2.2 < eps
  · simp only [hacc, if_true]
    have hu : Inv s.unshrink := inv_unshrink h
    have hue : s.unshrink.eqc = true := (unshrink_eqc s).trans he
    by_cases hkkt : s.unshrink.checkKKT < eps
    · simp only [hkkt, if_true]
      refine ⟨?_, fun s' c' hn => by simp at hn⟩
      intro e he'
      simp only [List.mem_cons, List.not_mem_nil, or_false] at he'
      rw [he']; exact ⟨hu, hue⟩
    · simp only [hkkt, if_false]
      have hkpos : 0 < s.unshrink.checkKKT := lt_of_lt_of_le heps (not_lt.mp hkkt)
      have ht : Inv (s.unshrink.shrink eps).1 := inv_shrink hu eps
      have hte : (s.unshrink.shrink eps).1.eqc = true := (shrink_eqc _ hu eps).trans hue
      have hn : s.unshrink.n = s.n := orderFree_n.unshrink s
      have hpos : 0 < (s.unshrink.shrink eps).1.selectLibSVM.2.2 :=
        shrink_svm_select_pos hu hue (unshrink_active s) eps hkpos (fun a ha => hr a (by rw [← hn]; exact ha))
      have hpre : ∀ e, e ∈ [(Ev.unshrink, s.unshrink), (Ev.shrink (s.unshrink.shrink eps).2, (s.unshrink.shrink eps).1)] →
          Inv e.2 ∧ e.2.eqc = true := by
        intro e he'
        simp only [List.mem_cons, List.not_mem_nil, or_false] at he'
        rcases he' with h' | h' <;> rw [h']
        · exact ⟨hu, hue⟩
        · exact ⟨ht, hte⟩
      obtain ⟨t1, t2, t3, t4⟩ := htail _ _ ht hte hpos hpre
      try dsimp only at t1 t2 t3 t4 ⊢
      split
      · exact ⟨t2, fun s' c' hn => by simp only [Option.some.injEq, Prod.mk.injEq] at hn; rw [← hn.1]; exact t3⟩
      · exact ⟨t1, fun s' c' hn => by simp only [Option.some.injEq, Prod.mk.injEq] at hn; rw [← hn.1]; exact t4⟩
  · simp only [hacc, if_false]
    have hv : 0 < s.selectLibSVM.2.2 := lt_of_lt_of_le heps (not_lt.mp hacc)
    obtain ⟨t1, t2, t3, t4⟩ := htail s [] h he hv (fun e he' => by simp at he')
    try dsimp only at t1 t2 t3 t4 ⊢
    simp only [List.nil_append] at t1 t2 ⊢
    split
    · exact ⟨t2, fun s' c' hn => by simp only [Option.some.injEq, Prod.mk.injEq] at hn; rw [← hn.1]; exact t3⟩
    · exact ⟨t1, fun s' c' hn => by simp only [Option.some.injEq, Prod.mk.injEq] at hn; rw [← hn.1]; exact t4⟩

/-- the states at which the passes of a run start -/
def passStates (strategy : Nat) (eps : Rat) : Nat → RS → Nat → List RS
  | 0, _, _ => []
  | fuel + 1, s, counter =>
    s :: (match (solveIter strategy eps s counter).2 with
          | none => []
          | some (s', c') => passStates strategy eps fuel s' c')

/-- **the whole solver run on the equality-constrained problem** (`CSvmTrainer` with bias, ε-regression, one-class:
LibSVM second-order selection): the final state satisfies the invariant, provided the gradients stay strictly inside the
sentinel range at the start of every pass. -/
theorem solve_inv_svm_partial (eps : Rat) (heps : 0 < eps) :
    ∀ (fuel : Nat) (s : RS) (counter it : Nat), Inv s → s.eqc = true →
      (∀ t, t ∈ passStates 1 eps fuel s counter → SentinelOK t) →
      Inv (solve 1 eps fuel s counter it).1 ∧ (solve 1 eps fuel s counter it).1.eqc = true := by
  intro fuel
  induction fuel with
  | zero => intro s _ _ h he _; exact ⟨inv_unshrink h, (unshrink_eqc s).trans he⟩
  | succ fuel ih =>
    intro s counter it h he hr
    have hrs : SentinelOK s := hr s (by unfold passStates; exact List.mem_cons_self ..)
    obtain ⟨hev, hnext⟩ := solveIter_inv_svm eps heps s counter h he hrs
    unfold solve
    cases hn : (solveIter 1 eps s counter).2 with
    | none =>
      simp only []
      cases hl : (solveIter 1 eps s counter).1.getLast? with
      | none => simpa using ⟨h, he⟩
      | some e => simpa using hev e (List.mem_of_getLast? hl)
    | some p =>
      obtain ⟨s', c'⟩ := p
      simp only []
      refine ih s' c' (it + 1) (hnext s' c' hn).1 (hnext s' c' hn).2 ?_
      intro t ht
      apply hr t
      unfold passStates
      rw [hn]
      exact List.mem_cons_of_mem _ ht

/-- the sentinel hypothesis is not an artefact: with gradients below `−1e100` the LibSVM criterion overlooks a strictly
violating admissible pair (two free variables with gradients `−2e100 > −3e100`) and reports the violation 0 -/
def sentinelWitness : RS where
  n := 2
  K := fun _ _ => 0
  eqc := true
  shrinkOn := false
  unshrinked := false
  active := 2
  perm := fun k => k
  lin := fun k => if k = 0 then -(2 * 10 ^ 100) else -(3 * 10 ^ 100)
  alpha := fun _ => 1 / 2
  diag := fun _ => 0
  L := fun _ => 0
  U := fun _ => 1
  g := fun k => if k = 0 then -(2 * 10 ^ 100) else -(3 * 10 ^ 100)
  gEdge := fun k => if k = 0 then -(2 * 10 ^ 100) else -(3 * 10 ^ 100)
  lo := fun _ => false
  up := fun _ => false

theorem selectLibSVM_sentinel_witness :
    sentinelWitness.up 0 = false ∧ sentinelWitness.lo 1 = false ∧ sentinelWitness.g 1 < sentinelWitness.g 0 ∧
    sentinelWitness.selectLibSVM.2.2 = 0 := by
  refine ⟨rfl, rfl, by norm_num [sentinelWitness], ?_⟩
  simp only [State.selectLibSVM, sentinelWitness, List.range_succ, List.range_zero, List.nil_append, List.foldl_cons,
    List.foldl_nil, List.cons_append, lit1e100', lit0]
  norm_num

end SharkVerif.C08
