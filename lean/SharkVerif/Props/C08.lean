/-
C08 — The SVM solver keeps its dual state consistent and never loses objective.

Property theorems about
* the hand-written model `Model/Smo.lean` of `SvmProblem` / `BoxConstrainedProblem` /
  `BoxBasedShrinkingStrategy` / `QpSolver` (tied to the C++ by `checks/c08.py`: the Float
  instance bit-for-bit, the Rat instance exactly on FE_INEXACT-free runs), and
* the T0-generated analytic sub-solvers `Gen/Analytic.lean` (regenerated from
  `AnalyticProblems.h` on every run, so these proofs are re-checked against the current source).

All statements are over `Rat` (exact arithmetic) and quantify over every size `n`, every
symmetric matrix `K`, every box and every finite sequence of admissible operations.
Helper lemmas: `Lemmas/Smo.lean`.
-/
import SharkVerif.Lemmas.Smo
import Mathlib.Tactic.FieldSimp
namespace SharkVerif.C08
open SharkVerif.Qp SharkVerif.Gen.Analytic SharkVerif.Smo

/-! ## 1. The T0-generated analytic kernels -/

/-- `solveQuadraticEdge` returns a point of `[L,U]` (any inputs with `L ≤ U`). -/
theorem edge_in_box (alpha g Q L U : Rat) (hLU : L ≤ U) :
    L ≤ solveQuadraticEdge alpha g Q L U ∧ solveQuadraticEdge alpha g Q L U ≤ U := by
  unfold solveQuadraticEdge smin smax
  grind

example : (0 : Rat) ≤ solveQuadraticEdge (1/2 : Rat) 1 2 0 1 ∧ solveQuadraticEdge (1/2 : Rat) 1 2 0 1 ≤ 1 :=
  edge_in_box (1/2) 1 2 0 1 (by norm_num)

/-- FULL STATEMENT (not provable for the code as it is): for every curvature `Q ≥ 0` the 1-D step does not
decrease the objective `g·a − Q/2·a²`.  PROVED PART: all `Q` outside the guard region `0 < Q < 1e-12`, in which the
C++ deliberately treats the curvature as zero. -/
theorem edge_gain_nonneg_partial (alpha g Q L U : Rat) (hL : L ≤ alpha) (hU : alpha ≤ U)
    (hQ : Q = 0 ∨ 1 / 1000000000000 ≤ Q) :
    0 ≤ (solveQuadraticEdge alpha g Q L U - alpha) * g
        - Q * (solveQuadraticEdge alpha g Q L U - alpha) * (solveQuadraticEdge alpha g Q L U - alpha) / 2 := by
  unfold solveQuadraticEdge smin smax
  simp only [lit0, litE]
  rcases hQ with hQ | hQ
  · subst hQ
    norm_num
    split_ifs <;> nlinarith
  · have hq : ¬ Q < 1 / 1000000000000 := not_lt.mpr hQ
    have hQ0 : 0 < Q := by linarith
    simp only [hq, if_false]
    obtain ⟨t, ht⟩ : ∃ t, g = t * Q := ⟨g / Q, by field_simp⟩
    have htq : g / Q = t := by rw [ht]; field_simp
    rw [htq, ht]
    have key : ∀ d : Rat, 0 ≤ d * (t - d / 2) → 0 ≤ d * (t * Q) - Q * d * d / 2 := by
      intro d hd
      have : d * (t * Q) - Q * d * d / 2 = Q * (d * (t - d / 2)) := by ring
      rw [this]; exact mul_nonneg hQ0.le hd
    split_ifs <;> apply key <;> nlinarith [sq_nonneg t]

example : (0 : Rat) ≤ (solveQuadraticEdge 0 1 2 0 1 - 0) * 1
    - 2 * (solveQuadraticEdge 0 1 2 0 1 - 0) * (solveQuadraticEdge 0 1 2 0 1 - 0) / 2 :=
  edge_gain_nonneg_partial 0 1 2 0 1 (by norm_num) (by norm_num) (Or.inr (by norm_num))

/-- witness inside the excluded guard region: `Q = 1e-13`, `g = 1e-20`, `[L,U] = [0,1]`, start 0: the generated
function jumps to `U = 1` and the objective changes by `1e-20 − 5e-14 < 0`. -/
theorem edge_gain_negative_witness :
    let a' := solveQuadraticEdge (0 : Rat) (1 / 10 ^ 20) (1 / 10 ^ 13) 0 1
    (a' - 0) * (1 / 10 ^ 20) - (1 / 10 ^ 13) * (a' - 0) * (a' - 0) / 2 < 0 := by
  simp only [solveQuadraticEdge, smin, smax, lit0, litE]
  norm_num

/-- `solveQuadratic2DBox` returns a point of the box (any matrix, any gradient). -/
theorem box2d_in_box (ai aj gi gj Qii Qij Qjj Li Ui Lj Uj : Rat)
    (hi : Li ≤ ai ∧ ai ≤ Ui) (hj : Lj ≤ aj ∧ aj ≤ Uj) :
    (Li ≤ (solveQuadratic2DBox ai aj gi gj Qii Qij Qjj Li Ui Lj Uj).1 ∧
     (solveQuadratic2DBox ai aj gi gj Qii Qij Qjj Li Ui Lj Uj).1 ≤ Ui) ∧
    (Lj ≤ (solveQuadratic2DBox ai aj gi gj Qii Qij Qjj Li Ui Lj Uj).2 ∧
     (solveQuadratic2DBox ai aj gi gj Qii Qij Qjj Li Ui Lj Uj).2 ≤ Uj) := by
  have hLUi : Li ≤ Ui := by linarith
  have hLUj : Lj ≤ Uj := by linarith
  have e1 := fun a g Q => edge_in_box a g Q Li Ui hLUi
  have e2 := fun a g Q => edge_in_box a g Q Lj Uj hLUj
  unfold solveQuadratic2DBox
  grind (splits := 40)

example : (0:Rat) ≤ (solveQuadratic2DBox (1/2) (1/2) 1 (-1) 2 0 2 0 1 0 1).1 :=
  (box2d_in_box (1/2) (1/2) 1 (-1) 2 0 2 0 1 0 1 (by norm_num) (by norm_num)).1.1

/-! ## 2. The state invariant over all operation sequences -/

/-- operations on the problem state that do not involve a sub-problem solution -/
inductive Op where
  | flip (i j : Nat)        -- flipCoordinates
  | unshrink
  | shrink (eps : Rat)
  deriving Repr

/-- admissibility (the C++ preconditions): flips stay inside the active or inside the shrunk block -/
def Op.valid (s : RS) : Op → Prop
  | .flip i j => i < s.n ∧ j < s.n ∧ (i < s.active ↔ j < s.active)
  | .unshrink => True
  | .shrink _ => True

def apply (s : RS) : Op → RS
  | .flip i j => s.flip i j
  | .unshrink => s.unshrink
  | .shrink eps => (s.shrink eps).1

/-- every operation preserves the invariant -/
theorem apply_inv {s : RS} (h : Inv s) {op : Op} (hv : op.valid s) : Inv (apply s op) := by
  cases op with
  | flip i j => exact inv_flip h hv.1 hv.2.1 hv.2.2
  | unshrink => exact inv_unshrink h
  | shrink eps => exact inv_shrink h eps

/-- run a sequence; `none` if some operation is not admissible in the state it is applied to -/
def run : RS → List Op → RS
  | s, [] => s
  | s, op :: ops => run (apply s op) ops

/-- admissibility of a whole sequence (each op in the state it is applied to) -/
def validSeq : RS → List Op → Prop
  | _, [] => True
  | s, op :: ops => op.valid s ∧ validSeq (apply s op) ops

/-- **Invariant for every reachable state (flip / shrink / unshrink histories).** -/
theorem reachable_inv_partial (ops : List Op) : ∀ (s : RS), Inv s → validSeq s ops → Inv (run s ops) := by
  induction ops with
  | nil => intro s h _; exact h
  | cons op ops ih => intro s h hv; exact ih _ (apply_inv h hv.1) hv.2

/-- the freshly constructed problem (cold start) satisfies the invariant -/
theorem init_inv (n : Nat) (K : Nat → Nat → Rat) (eqc sh : Bool) (lin L U : Nat → Rat)
    (hsym : ∀ x y, K x y = K y x) (hbox : ∀ k, k < n → L k ≤ 0 ∧ 0 ≤ U k) :
    Inv (State.init n K eqc sh lin L U) := by
  have hz : ∀ a, Kalpha (State.init n K eqc sh lin L U) a = 0 := by
    intro a; simp only [Kalpha, State.init, lit0, mul_zero]; exact rsum_const_zero n
  have hze : ∀ a, KalphaEdge (State.init n K eqc sh lin L U) a = 0 := by
    intro a; simp only [KalphaEdge, State.init, lit0, mul_zero, ite_self]; exact rsum_const_zero n
  refine { sym := hsym, act_le := Nat.le_refl _, noshrink := fun _ => rfl, perm_lt := fun k hk => hk,
           perm_inj := fun a b _ _ e => e, diag := fun k _ => rfl, box := ?_, flo := ?_, fup := ?_,
           grad := ?_, edge := ?_, shrunk := ?_ }
  · intro k hk; simp only [State.init, lit0]; exact hbox k hk
  · intro k _; simp only [State.init, lit0, beq_iff_eq]
  · intro k _; simp only [State.init, lit0, beq_iff_eq]
  · intro a _; rw [hz a]; simp [State.init]
  · intro _ a _; rw [hze a]; simp [State.init]
  · intro k hk1 hk2; exact absurd hk2 (Nat.not_lt.mpr hk1)

/-- **grad_inv**: after any admissible history the maintained gradient of every active variable is
`lin − K·α` (under the current permutation). -/
theorem grad_inv (s : RS) (h : Inv s) (ops : List Op) (hv : validSeq s ops) (a : Nat)
    (ha : a < (run s ops).active) :
    (run s ops).g a = (run s ops).lin a - Kalpha (run s ops) a :=
  (reachable_inv_partial ops s h hv).grad a ha

/-- **gradient of ALL variables after un-shrinking**, whatever happened before. -/
theorem grad_all_after_unshrink (s : RS) (h : Inv s) (ops : List Op) (hv : validSeq s ops) (a : Nat)
    (ha : a < s.n) (hn : (run s ops).n = s.n) :
    (run s ops).unshrink.g a = (run s ops).unshrink.lin a - Kalpha (run s ops).unshrink a := by
  have hi := inv_unshrink (reachable_inv_partial ops s h hv)
  apply hi.grad
  have : (run s ops).unshrink.active = (run s ops).n := by
    unfold State.unshrink; split
    · assumption
    · rfl
  rw [this, hn]; exact ha

/-- **box_inv / flags_inv / shrunk_at_bound / perm_inv** for every reachable state. -/
theorem box_flags_perm_inv (s : RS) (h : Inv s) (ops : List Op) (hv : validSeq s ops) :
    let t := run s ops
    (∀ k, k < t.n → t.L k ≤ t.alpha k ∧ t.alpha k ≤ t.U k) ∧
    (∀ k, k < t.n → ((t.lo k = true ↔ t.alpha k = t.L k) ∧ (t.up k = true ↔ t.alpha k = t.U k))) ∧
    (∀ k, t.active ≤ k → k < t.n → (t.alpha k = t.L k ∨ t.alpha k = t.U k)) ∧
    (∀ k, k < t.n → t.perm k < t.n) ∧ (∀ a b, a < t.n → b < t.n → t.perm a = t.perm b → a = b) := by
  intro t
  have hi := reachable_inv_partial ops s h hv
  exact ⟨hi.box, fun k hk => ⟨hi.flo k hk, hi.fup k hk⟩, hi.shrunk, hi.perm_lt, hi.perm_inj⟩

/-- **edge_inv**: `m_gradientEdge` is `lin − K·α` restricted to the variables at a bound. -/
theorem edge_inv (s : RS) (h : Inv s) (ops : List Op) (hv : validSeq s ops)
    (hs : (run s ops).shrinkOn = true) (a : Nat) (ha : a < (run s ops).n) :
    (run s ops).gEdge a = (run s ops).lin a - KalphaEdge (run s ops) a :=
  (reachable_inv_partial ops s h hv).edge hs a ha

end SharkVerif.C08
