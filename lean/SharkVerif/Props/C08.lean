/-
C08 — The SVM solver keeps its dual state consistent and never loses objective.
(work in progress: first theorems on the T0-generated analytic kernels)
-/
import SharkVerif.Model.Smo
namespace SharkVerif.C08
open SharkVerif.Qp SharkVerif.Gen.Analytic SharkVerif.Smo

/-- the generated 1-D solver stays in the box `[L,U]` (for `L ≤ U`) -/
theorem edge_in_box (alpha g Q L U : Rat) (hLU : L ≤ U) :
    L ≤ solveQuadraticEdge alpha g Q L U ∧ solveQuadraticEdge alpha g Q L U ≤ U := by
  unfold solveQuadraticEdge smin smax
  grind

end SharkVerif.C08
