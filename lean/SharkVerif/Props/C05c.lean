/-
C05, third part — `ModelKernel` over a model WITH state: the MODEL-parameter part of
`ModelKernelImpl::weightedParameterDerivative` for a `ConcatenatedModel` chain of any length
(model: Model/KernelChain.lean `modelKernelParamGrad` with `chainEvalM` / `chainGradM`, i.e.
`Chain.evalB` / `Chain.backward` of Model/Models.lean, whose backward pass is proved correct in
Lemmas/ChainDeriv.lean).

Main statement (`modelKernel_weight_derivative_correct`, `modelKernel_offset_derivative_correct`): for a weight
`W[k0][j0]` / offset `b[k0]` of ANY optimised dense layer anywhere in the chain, the sum of

  * the entry of the backward pass of batch `X1` (through the hidden responses of `X1`) with the coefficients
    `D1 = kernel.weightedInputDerivative(g(X1), g(X2), C)`, and
  * the entry of the backward pass of batch `X2` (through the hidden responses of `X2`) with the coefficients
    `D2 = kernel.weightedInputDerivative(g(X2), g(X1), Cᵀ)`

is the derivative of `Σᵢⱼ Cᵢⱼ k(g_θ(xᵢ), g_θ(zⱼ))` with respect to that parameter — for all batch sizes `B1 ≠ B2`
and all batches `X1 ≠ X2`.  The base kernel enters through `KernelInputDerivs` (its weighted sum is differentiable
along every curve of pairs of batches, with the two input-derivative matrices as gradient); the Gaussian kernel
satisfies it for all points, bandwidths and coefficients (`gauss_kernelInputDerivs`).
-/
import SharkVerif.Lemmas.ChainDeriv
import SharkVerif.Model.KernelChain
import Mathlib.Analysis.SpecialFunctions.ExpDeriv
set_option linter.unusedSectionVars false
set_option linter.unusedVariables false
namespace SharkVerif.C05
open SharkVerif SharkVerif.Models SharkVerif.Kernels Finset

/-- the weighted sum of kernel values of a `ModelKernel` over a chain: `Σᵢⱼ Cᵢⱼ κ(g(x1ᵢ), g(x2ⱼ))` -/
noncomputable def modelKernelSum (κ : (ℕ → ℝ) → (ℕ → ℝ) → ℝ) (c : Chain ℝ) (B1 B2 : ℕ) (X1 X2 C : ℕ → ℕ → ℝ) : ℝ :=
  ∑ i ∈ range B1, ∑ j ∈ range B2,
    C i j * κ (Chain.evalB Real.tanh Real.exp c X1 i) (Chain.evalB Real.tanh Real.exp c X2 j)

/-- the base kernel's weighted sum `Σᵢⱼ Cᵢⱼ κ(u1ᵢ, u2ⱼ)` over points of dimension `d` is differentiable along every
differentiable curve of pairs of batches through `(Y1, Y2)`, and its derivative is the pairing of `D1` / `D2` (what
`weightedInputDerivative(Y1,Y2,C)` / `weightedInputDerivative(Y2,Y1,Cᵀ)` return) with the velocities -/
def KernelInputDerivs (κ : (ℕ → ℝ) → (ℕ → ℝ) → ℝ) (d B1 B2 : ℕ) (C Y1 Y2 D1 D2 : ℕ → ℕ → ℝ) : Prop :=
  ∀ (U1 U2 : ℝ → ℕ → ℕ → ℝ) (U1' U2' : ℕ → ℕ → ℝ) (t0 : ℝ), U1 t0 = Y1 → U2 t0 = Y2 →
    (∀ i, i < B1 → ∀ a, a < d → HasDerivAt (fun t => U1 t i a) (U1' i a) t0) →
    (∀ j, j < B2 → ∀ a, a < d → HasDerivAt (fun t => U2 t j a) (U2' j a) t0) →
    HasDerivAt (fun t => ∑ i ∈ range B1, ∑ j ∈ range B2, C i j * κ (U1 t i) (U2 t j))
      ((∑ i ∈ range B1, ∑ a ∈ range d, D1 i a * U1' i a) + (∑ j ∈ range B2, ∑ a ∈ range d, D2 j a * U2' j a)) t0

/-- indicator coefficient matrix -/
def unitCoeff (i0 a0 : ℕ) : ℕ → ℕ → ℝ := fun i a => if i = i0 ∧ a = a0 then 1 else 0

theorem objective_unitCoeff (c : Chain ℝ) (B nIn : ℕ) (X : ℕ → ℕ → ℝ) (i0 a0 : ℕ) (hi : i0 < B)
    (ha : a0 < Chain.nOut c nIn) :
    Chain.objective c B nIn X (unitCoeff i0 a0) = Chain.evalB Real.tanh Real.exp c X i0 a0 := by
  unfold Chain.objective unitCoeff
  rw [Finset.sum_eq_single i0]
  · rw [Finset.sum_eq_single a0]
    · simp
    · intro a _ hne; simp [hne]
    · intro h; exact absurd (Finset.mem_range.2 ha) h
  · intro i _ hne; simp [hne]
  · intro h; exact absurd (Finset.mem_range.2 hi) h

/-- **the chain rule of `ModelKernel` through both arguments**, for any curve of chains `cc t` whose weighted output
sums are differentiable with derivative `G1 Cf` (batch `X1`) / `G2 Cf` (batch `X2`) for EVERY coefficient matrix `Cf`:
the model kernel's weighted sum has derivative `G1 D1 + G2 D2`. -/
theorem modelKernel_curve_hasDerivAt (κ : (ℕ → ℝ) → (ℕ → ℝ) → ℝ) (cc : ℝ → Chain ℝ) (t0 : ℝ) (nIn d B1 B2 : ℕ)
    (X1 X2 C D1 D2 : ℕ → ℕ → ℝ) (G1 G2 : (ℕ → ℕ → ℝ) → ℝ)
    (hd : ∀ t, Chain.nOut (cc t) nIn = d)
    (hG1 : ∀ Cf, HasDerivAt (fun t => Chain.objective (cc t) B1 nIn X1 Cf) (G1 Cf) t0)
    (hG2 : ∀ Cf, HasDerivAt (fun t => Chain.objective (cc t) B2 nIn X2 Cf) (G2 Cf) t0)
    (hκ : KernelInputDerivs κ d B1 B2 C (Chain.evalB Real.tanh Real.exp (cc t0) X1)
      (Chain.evalB Real.tanh Real.exp (cc t0) X2) D1 D2) :
    HasDerivAt (fun t => modelKernelSum κ (cc t) B1 B2 X1 X2 C) (G1 D1 + G2 D2) t0 := by
  -- entrywise differentiability of the chain's outputs on a batch
  have entry : ∀ (B : ℕ) (X : ℕ → ℕ → ℝ) (G : (ℕ → ℕ → ℝ) → ℝ),
      (∀ Cf, HasDerivAt (fun t => Chain.objective (cc t) B nIn X Cf) (G Cf) t0) →
      ∀ i, i < B → ∀ a, a < d →
        HasDerivAt (fun t => Chain.evalB Real.tanh Real.exp (cc t) X i a) (G (unitCoeff i a)) t0 := by
    intro B X G hG i hi a ha
    have h := hG (unitCoeff i a)
    have e : (fun t => Chain.objective (cc t) B nIn X (unitCoeff i a)) =
        fun t => Chain.evalB Real.tanh Real.exp (cc t) X i a := by
      funext t
      exact objective_unitCoeff (cc t) B nIn X i a hi (by rw [hd t]; exact ha)
    rw [e] at h
    exact h
  -- the pairing of any coefficient matrix with the entrywise derivatives is the derivative for that matrix
  have pairing : ∀ (B : ℕ) (X : ℕ → ℕ → ℝ) (G : (ℕ → ℕ → ℝ) → ℝ),
      (∀ Cf, HasDerivAt (fun t => Chain.objective (cc t) B nIn X Cf) (G Cf) t0) →
      ∀ D : ℕ → ℕ → ℝ, (∑ i ∈ range B, ∑ a ∈ range d, D i a * G (unitCoeff i a)) = G D := by
    intro B X G hG D
    have h1 := hG D
    have e : (fun t => Chain.objective (cc t) B nIn X D) =
        fun t => ∑ i ∈ range B, ∑ a ∈ range d, D i a * Chain.evalB Real.tanh Real.exp (cc t) X i a := by
      funext t
      unfold Chain.objective
      rw [hd t]
    rw [e] at h1
    have h2 : HasDerivAt (fun t => ∑ i ∈ range B, ∑ a ∈ range d, D i a * Chain.evalB Real.tanh Real.exp (cc t) X i a)
        (∑ i ∈ range B, ∑ a ∈ range d, D i a * G (unitCoeff i a)) t0 := by
      apply HasDerivAt.fun_sum
      intro i hi
      apply HasDerivAt.fun_sum
      intro a ha
      exact (entry B X G hG i (Finset.mem_range.1 hi) a (Finset.mem_range.1 ha)).const_mul (D i a)
    exact h2.unique h1
  have h := hκ (fun t => Chain.evalB Real.tanh Real.exp (cc t) X1) (fun t => Chain.evalB Real.tanh Real.exp (cc t) X2)
    (fun i a => G1 (unitCoeff i a)) (fun j a => G2 (unitCoeff j a)) t0 rfl rfl
    (entry B1 X1 G1 hG1) (entry B2 X2 G2 hG2)
  rw [pairing B1 X1 G1 hG1 D1, pairing B2 X2 G2 hG2 D2] at h
  exact h

/-- **ModelKernel, model-parameter part, weights**: for the weight `W[k0][j0]` of an optimised dense layer `m` anywhere
in the chain `c = pre ++ m :: post`, the entry (position of that weight in `parameterVector()`) of
`modelGradX1 + modelGradX2` — the backward pass of `X1` with coefficients `D1` plus the backward pass of `X2` with
coefficients `D2`, each through the hidden responses of ITS OWN batch — is the derivative of
`Σᵢⱼ Cᵢⱼ κ(g(x1ᵢ), g(x2ⱼ))` with respect to that weight.  Any batch sizes `B1`, `B2`, any batches. -/
theorem modelKernel_weight_derivative_correct (κ : (ℕ → ℝ) → (ℕ → ℝ) → ℝ) (pre post : Chain ℝ) (m : Dense ℝ)
    (B1 B2 nIn : ℕ) (X1 X2 C D1 D2 : ℕ → ℕ → ℝ) (k0 j0 : ℕ) (hk0 : k0 < m.nOut) (hj0 : j0 < m.nIn)
    (hwf : Chain.WF (pre ++ (Layer.dense m, true) :: post) nIn)
    (hnk1 : Chain.NoKink B1 (pre ++ (Layer.dense m, true) :: post) X1)
    (hnk2 : Chain.NoKink B2 (pre ++ (Layer.dense m, true) :: post) X2)
    (hκ : KernelInputDerivs κ (Chain.nOut (pre ++ (Layer.dense m, true) :: post) nIn) B1 B2 C
      (Chain.evalB Real.tanh Real.exp (pre ++ (Layer.dense m, true) :: post) X1)
      (Chain.evalB Real.tanh Real.exp (pre ++ (Layer.dense m, true) :: post) X2) D1 D2) :
    HasDerivAt (fun t => modelKernelSum κ
        (pre ++ (Layer.dense { m with W := fun k j => if k = k0 ∧ j = j0 then t else m.W k j }, true) :: post)
        B1 B2 X1 X2 C)
      ((Chain.backward Real.tanh Real.exp B1 (pre ++ (Layer.dense m, true) :: post) X1 D1).1.getD
          ((Chain.params pre).length + (k0 * m.nIn + j0)) 0 +
       (Chain.backward Real.tanh Real.exp B2 (pre ++ (Layer.dense m, true) :: post) X2 D2).1.getD
          ((Chain.params pre).length + (k0 * m.nIn + j0)) 0) (m.W k0 j0) := by
  have hw0 : ∀ k j, (if k = k0 ∧ j = j0 then m.W k0 j0 else m.W k j) = m.W k j := by
    intro k j; split
    · rename_i h; rw [h.1, h.2]
    · rfl
  refine modelKernel_curve_hasDerivAt κ
    (fun t => pre ++ (Layer.dense { m with W := fun k j => if k = k0 ∧ j = j0 then t else m.W k j }, true) :: post)
    (m.W k0 j0) nIn (Chain.nOut (pre ++ (Layer.dense m, true) :: post) nIn) B1 B2 X1 X2 C D1 D2
    (fun Cf => (Chain.backward Real.tanh Real.exp B1 (pre ++ (Layer.dense m, true) :: post) X1 Cf).1.getD
          ((Chain.params pre).length + (k0 * m.nIn + j0)) 0)
    (fun Cf => (Chain.backward Real.tanh Real.exp B2 (pre ++ (Layer.dense m, true) :: post) X2 Cf).1.getD
          ((Chain.params pre).length + (k0 * m.nIn + j0)) 0)
    ?_ ?_ ?_ ?_
  · intro t; simp only [Chain.nOut_append, Chain.nOut_cons, Layer.nOut]
  · intro Cf; exact Chain.weight_derivative_correct pre post m B1 nIn X1 Cf k0 j0 hk0 hj0 hwf hnk1
  · intro Cf; exact Chain.weight_derivative_correct pre post m B2 nIn X2 Cf k0 j0 hk0 hj0 hwf hnk2
  · simp only [hw0]; exact hκ

/-- **ModelKernel, model-parameter part, offsets**: the same for the offset entry `b[k0]` of an optimised dense layer -/
theorem modelKernel_offset_derivative_correct (κ : (ℕ → ℝ) → (ℕ → ℝ) → ℝ) (pre post : Chain ℝ) (m : Dense ℝ)
    (B1 B2 nIn : ℕ) (X1 X2 C D1 D2 : ℕ → ℕ → ℝ) (k0 : ℕ) (hk0 : k0 < m.nOut) (hb : m.hasB = true)
    (hwf : Chain.WF (pre ++ (Layer.dense m, true) :: post) nIn)
    (hnk1 : Chain.NoKink B1 (pre ++ (Layer.dense m, true) :: post) X1)
    (hnk2 : Chain.NoKink B2 (pre ++ (Layer.dense m, true) :: post) X2)
    (hκ : KernelInputDerivs κ (Chain.nOut (pre ++ (Layer.dense m, true) :: post) nIn) B1 B2 C
      (Chain.evalB Real.tanh Real.exp (pre ++ (Layer.dense m, true) :: post) X1)
      (Chain.evalB Real.tanh Real.exp (pre ++ (Layer.dense m, true) :: post) X2) D1 D2) :
    HasDerivAt (fun t => modelKernelSum κ
        (pre ++ (Layer.dense { m with b := fun k => if k = k0 then t else m.b k }, true) :: post)
        B1 B2 X1 X2 C)
      ((Chain.backward Real.tanh Real.exp B1 (pre ++ (Layer.dense m, true) :: post) X1 D1).1.getD
          ((Chain.params pre).length + (m.nOut * m.nIn + k0)) 0 +
       (Chain.backward Real.tanh Real.exp B2 (pre ++ (Layer.dense m, true) :: post) X2 D2).1.getD
          ((Chain.params pre).length + (m.nOut * m.nIn + k0)) 0) (m.b k0) := by
  have hb0 : ∀ k, (if k = k0 then m.b k0 else m.b k) = m.b k := by
    intro k; split
    · rename_i h; rw [h]
    · rfl
  refine modelKernel_curve_hasDerivAt κ
    (fun t => pre ++ (Layer.dense { m with b := fun k => if k = k0 then t else m.b k }, true) :: post)
    (m.b k0) nIn (Chain.nOut (pre ++ (Layer.dense m, true) :: post) nIn) B1 B2 X1 X2 C D1 D2
    (fun Cf => (Chain.backward Real.tanh Real.exp B1 (pre ++ (Layer.dense m, true) :: post) X1 Cf).1.getD
          ((Chain.params pre).length + (m.nOut * m.nIn + k0)) 0)
    (fun Cf => (Chain.backward Real.tanh Real.exp B2 (pre ++ (Layer.dense m, true) :: post) X2 Cf).1.getD
          ((Chain.params pre).length + (m.nOut * m.nIn + k0)) 0)
    ?_ ?_ ?_ ?_
  · intro t; simp only [Chain.nOut_append, Chain.nOut_cons, Layer.nOut]
  · intro Cf; exact Chain.offset_derivative_correct pre post m B1 nIn X1 Cf k0 hk0 hb hwf hnk1
  · intro Cf; exact Chain.offset_derivative_correct pre post m B2 nIn X2 Cf k0 hk0 hb hwf hnk2
  · simp only [hb0]; exact hκ

/-! ### the executable model is these objects -/

/-- the gradient `ModelKernelImpl::weightedParameterDerivative` returns is `kernelGrad | (modelGradX1 + modelGradX2)`
with the coefficient matrices `D1`, `D2` of the theorems above -/
theorem modelKernelParamGrad_eq {α : Type} [Add α] [OfNat α 0] (kG : Mat α → Mat α → Mat α → List α)
    (kI : Mat α → Mat α → Mat α → Mat α) (g : Mat α → Mat α) (bw : Mat α → Mat α → List α) (C X1 X2 : Mat α) :
    modelKernelParamGrad kG kI g bw C X1 X2 =
      kG C (g X1) (g X2) ++ vadd (bw X1 (kI C (g X1) (g X2))) (bw X2 (kI (transposeM C X2.length) (g X2) (g X1))) := rfl

/-- the model's `weightedParameterDerivative` of the executable model is the first component of `Chain.backward` on
that batch -/
theorem chainGradM_eq (c : Chain ℝ) (X D : Mat ℝ) :
    chainGradM Real.tanh Real.exp c X D = (Chain.backward Real.tanh Real.exp X.length c (matFn X) (matFn D)).1 := rfl

/-- entry of `modelGradX1 + modelGradX2` -/
theorem vadd_getD (a b : List ℝ) (i : ℕ) (ha : i < a.length) (hb : i < b.length) :
    (vadd a b).getD i 0 = a.getD i 0 + b.getD i 0 := by
  unfold vadd
  simp [List.getD_eq_getElem?_getD, List.getElem?_zipWith, List.getElem?_eq_getElem ha, List.getElem?_eq_getElem hb]

/-! ### the Gaussian kernel satisfies `KernelInputDerivs` -/

/-- `exp(-γ ‖x − z‖²)` on points of dimension `d` -/
noncomputable def gaussFn (γ : ℝ) (d : ℕ) (x z : ℕ → ℝ) : ℝ :=
  Real.exp (-γ * ∑ a ∈ range d, (x a - z a) * (x a - z a))

/-- `GaussianRbfKernel::weightedInputDerivative(Y1, Y2, C)`: row `i`, column `a` -/
noncomputable def gaussD1 (γ : ℝ) (d B2 : ℕ) (C Y1 Y2 : ℕ → ℕ → ℝ) (i a : ℕ) : ℝ :=
  ∑ j ∈ range B2, C i j * gaussFn γ d (Y1 i) (Y2 j) * (-2 * γ * (Y1 i a - Y2 j a))
/-- `GaussianRbfKernel::weightedInputDerivative(Y2, Y1, Cᵀ)`: row `j`, column `a` -/
noncomputable def gaussD2 (γ : ℝ) (d B1 : ℕ) (C Y1 Y2 : ℕ → ℕ → ℝ) (j a : ℕ) : ℝ :=
  ∑ i ∈ range B1, C i j * gaussFn γ d (Y1 i) (Y2 j) * (-2 * γ * (Y2 j a - Y1 i a))

theorem gauss_kernelInputDerivs (γ : ℝ) (d B1 B2 : ℕ) (C Y1 Y2 : ℕ → ℕ → ℝ) :
    KernelInputDerivs (gaussFn γ d) d B1 B2 C Y1 Y2 (gaussD1 γ d B2 C Y1 Y2) (gaussD2 γ d B1 C Y1 Y2) := by
  intro U1 U2 U1' U2' t0 h1 h2 hU1 hU2
  subst h1 h2
  have term : ∀ i, i < B1 → ∀ j, j < B2 →
      HasDerivAt (fun t => C i j * gaussFn γ d (U1 t i) (U2 t j))
        ((∑ a ∈ range d, C i j * gaussFn γ d (U1 t0 i) (U2 t0 j) * (-2 * γ * (U1 t0 i a - U2 t0 j a)) * U1' i a) +
         (∑ a ∈ range d, C i j * gaussFn γ d (U1 t0 i) (U2 t0 j) * (-2 * γ * (U2 t0 j a - U1 t0 i a)) * U2' j a)) t0 := by
    intro i hi j hj
    have hs : HasDerivAt (fun t => ∑ a ∈ range d, (U1 t i a - U2 t j a) * (U1 t i a - U2 t j a))
        (∑ a ∈ range d, ((U1' i a - U2' j a) * (U1 t0 i a - U2 t0 j a) + (U1 t0 i a - U2 t0 j a) * (U1' i a - U2' j a))) t0 := by
      apply HasDerivAt.fun_sum
      intro a ha
      have hd := (hU1 i hi a (Finset.mem_range.1 ha)).sub (hU2 j hj a (Finset.mem_range.1 ha))
      exact hd.mul hd
    have he := ((hs.const_mul (-γ)).exp).const_mul (C i j)
    unfold gaussFn
    refine he.congr_deriv ?_
    rw [← Finset.sum_add_distrib]
    generalize Real.exp (-γ * ∑ a ∈ range d, (U1 t0 i a - U2 t0 j a) * (U1 t0 i a - U2 t0 j a)) = E
    rw [Finset.mul_sum, Finset.mul_sum, Finset.mul_sum]
    apply Finset.sum_congr rfl
    intro a _
    ring
  have hsum : HasDerivAt (fun t => ∑ i ∈ range B1, ∑ j ∈ range B2, C i j * gaussFn γ d (U1 t i) (U2 t j))
      (∑ i ∈ range B1, ∑ j ∈ range B2,
        ((∑ a ∈ range d, C i j * gaussFn γ d (U1 t0 i) (U2 t0 j) * (-2 * γ * (U1 t0 i a - U2 t0 j a)) * U1' i a) +
         (∑ a ∈ range d, C i j * gaussFn γ d (U1 t0 i) (U2 t0 j) * (-2 * γ * (U2 t0 j a - U1 t0 i a)) * U2' j a))) t0 := by
    apply HasDerivAt.fun_sum
    intro i hi
    apply HasDerivAt.fun_sum
    intro j hj
    exact term i (Finset.mem_range.1 hi) j (Finset.mem_range.1 hj)
  refine hsum.congr_deriv ?_
  unfold gaussD1 gaussD2
  simp only [Finset.sum_add_distrib, Finset.sum_mul]
  congr 1
  · apply Finset.sum_congr rfl; intro i _; exact Finset.sum_comm
  · rw [Finset.sum_comm]; apply Finset.sum_congr rfl; intro j _; exact Finset.sum_comm

/-! ### non-vacuity: Gaussian kernel over the four-layer chain `chainDemo` (tanh dense layer, frozen logistic neuron
layer, linear dense layer, softmax), two batches of different sizes -/

example (B1 B2 : ℕ) (X1 X2 C : ℕ → ℕ → ℝ) (γ : ℝ) :
    HasDerivAt (fun t => modelKernelSum (gaussFn γ 2)
        (chainDemoPre ++ (Layer.dense { chainDemoMid with
          W := fun k j => if k = 1 ∧ j = 2 then t else chainDemoMid.W k j }, true) :: chainDemoPost) B1 B2 X1 X2 C)
      ((Chain.backward Real.tanh Real.exp B1 chainDemo X1
          (gaussD1 γ 2 B2 C (Chain.evalB Real.tanh Real.exp chainDemo X1) (Chain.evalB Real.tanh Real.exp chainDemo X2))).1.getD
          ((Chain.params chainDemoPre).length + (1 * chainDemoMid.nIn + 2)) 0 +
       (Chain.backward Real.tanh Real.exp B2 chainDemo X2
          (gaussD2 γ 2 B1 C (Chain.evalB Real.tanh Real.exp chainDemo X1) (Chain.evalB Real.tanh Real.exp chainDemo X2))).1.getD
          ((Chain.params chainDemoPre).length + (1 * chainDemoMid.nIn + 2)) 0) (chainDemoMid.W 1 2) :=
  modelKernel_weight_derivative_correct (gaussFn γ 2) chainDemoPre chainDemoPost chainDemoMid B1 B2 2 X1 X2 C _ _ 1 2
    (by simp [chainDemoMid]) (by simp [chainDemoMid]) ⟨rfl, rfl, rfl, rfl, trivial⟩
    (by simp [chainDemoPre, chainDemoMid, chainDemoPost, Chain.NoKink, Layer.NoKink])
    (by simp [chainDemoPre, chainDemoMid, chainDemoPost, Chain.NoKink, Layer.NoKink])
    (gauss_kernelInputDerivs γ 2 B1 B2 C _ _)

end SharkVerif.C05
