/-
C12 — cross-validation folds partition the data (work in progress: see sections below)
-/
import SharkVerif.Lemmas.BatchArith
import SharkVerif.Lemmas.Dataset
import SharkVerif.Model.CV
namespace SharkVerif.C12
open SharkVerif.CheckedNat SharkVerif.Gen.BatchArith SharkVerif.BatchArith SharkVerif.Dataset SharkVerif.CV

/-- sizes of equal-size folds sum to n -/
theorem sameSizes_defined (n k : Nat) (hk : 0 < k) : ∃ l, sameSizes n k = some l ∧ l.length = k := by
  have : n / k * k ≤ n := Nat.div_mul_le_self n k
  simp [sameSizes, cdiv, csub, Nat.ne_of_gt hk, this]

end SharkVerif.C12
