/-
C12 — Cross-validation folds partition the data.

Property theorems about `Model/CV.lean` (hand-written model of CVDatasetTools.h, tied to the C++ by
`checks/c12.py`) and about the machine-translated `batchPartitioning` (`Gen/BatchArith.lean`).

Sections
  A  batchPartitioning: fold starts are prefix sums, batch sizes per partition sum to the partition size
  B  folds built from starts: validation batch sets are pairwise disjoint and cover all batches;
     training indices are exactly the complement
  C  equal-size folds: sizes sum to n and differ by at most one; round-robin dealing is class-balanced
  D  the reorganised dataset (model `regroup`): shape kept, every picked element exactly once, grouped by fold;
     createCVIndexed / createCVSameSize at the element level
  E  elements of the folds: validation ∪ training = everything, validation parts concatenate to the dataset
  F  folds.validation(p) holds exactly the elements requested for fold p
  G  every fold-construction function (createCVIID / FullyIndexed / SameSizeBalanced / Batch)

No hypothesis on the batch arithmetic is left: the regenerated `optimalBatchSizes` is total (`CVAny.optimalBatchSizes_any`:
no batch for zero elements since the repair of finding F1, maximum batch size 0 = unlimited since /repo 1c8c99ed), closed
form `obsAny`.  The fold-construction functions of `Model/CV.lean` run the element-dealing loop of the C++ (`regroupLoop`);
`regroupLoop_eq_regroup` (section D) identifies it with the specification `regroup` about which sections D–G speak.
Continued in `Props/C12Ops.lean` (CVFolds operations, end-to-end statements per function, totality, nested CV).
-/
import SharkVerif.Lemmas.BatchArith
import SharkVerif.Lemmas.BatchPartitioning
import SharkVerif.Lemmas.Dataset
import SharkVerif.Model.CV
import SharkVerif.Props.C03
import SharkVerif.Lemmas.Regroup
import SharkVerif.Lemmas.View
import SharkVerif.Lemmas.Subset
import SharkVerif.Lemmas.Blocks
import SharkVerif.Lemmas.Dealing
import SharkVerif.Lemmas.DealingSorted
import SharkVerif.Lemmas.CVAny
import SharkVerif.Lemmas.DealLoop
namespace SharkVerif.C12
open SharkVerif.CheckedNat SharkVerif.Gen.BatchArith SharkVerif.BatchArith SharkVerif.Dataset SharkVerif.CV SharkVerif.CVAny

variable {ι κ : Type}

/-! ## A. batchPartitioning -/

/-- **batchPartitioning** (generated from the C++): if `optimalBatchSizes` is defined on every partition
size (`f` = its result), the function returns the total number of batches, the fold starts = prefix sums of
the per-partition batch counts (`starts`, appended to `partitionStart`) and the concatenated batch sizes
(proof: Lemmas/BatchPartitioning.lean, re-checked against the regenerated definition on every run) -/
theorem batchPartitioning_spec (ps s0 b0 : List Nat) (m : Nat) (f : Nat → List Nat)
    (hf : ∀ p ∈ ps, optimalBatchSizes p m = some (f p)) :
    batchPartitioning ps s0 b0 m =
      some ((ps.map fun p => (f p).length).sum, s0 ++ starts (ps.map fun p => (f p).length) 0, b0 ++ ps.flatMap f) :=
  batchPartitioning_eq ps s0 b0 m f hf

/-- with all partition sizes positive (every fold / class non-empty) and m > 0, unconditionally:
starts are prefix sums of ⌈pᵢ/m⌉ and the batch sizes of partition i sum to pᵢ -/
theorem batchPartitioning_pos (ps : List Nat) (m : Nat) (hm : 0 < m) (hps : ∀ p ∈ ps, 0 < p) :
    batchPartitioning ps [] [] m =
      some ((ps.map fun p => (obsSpec p m).length).sum, starts (ps.map fun p => (obsSpec p m).length) 0,
            ps.flatMap fun p => obsSpec p m) ∧
    ∀ p ∈ ps, (obsSpec p m).sum = p := by
  refine ⟨?_, ?_⟩
  · have := batchPartitioning_spec ps [] [] m (fun p => obsSpec p m)
      (fun p hp => C03.optimalBatchSizes_defined (hps p hp) hm)
    simpa using this
  · intro p hp
    obtain ⟨l, hl, hs⟩ := C03.optimalBatchSizes_sum (hps p hp) hm
    rw [C03.optimalBatchSizes_defined (hps p hp) hm] at hl
    cases hl; exact hs

/-- **batchPartitioning is total**: empty partitions (absent class, fold without element) and every maximum batch
size (0 = unlimited included) — no hypothesis left (the source returns no batch for zero elements since the repair of
finding F1, and takes 0 as "unlimited" since /repo 1c8c99ed); `obsAny m p` is the closed form of the batch sizes of a
fold of p elements -/
theorem batchPartitioning_with_empty (ps : List Nat) (m : Nat) :
    batchPartitioning ps [] [] m =
      some ((ps.map fun p => (obsAny m p).length).sum, starts (ps.map fun p => (obsAny m p).length) 0,
            ps.flatMap (obsAny m)) ∧
    ∀ p ∈ ps, (obsAny m p).sum = p :=
  ⟨batchPartitioning_total ps m, fun p _ => obsAny_sum m p⟩

/-- the batches of a fold of p elements: none for p = 0, else ⌈p/m⌉ (one for m = 0) non-empty batches, none larger
than m (if m > 0), any two differing by at most one element, together p elements -/
theorem fold_batch_layout (m p : Nat) :
    optimalBatchSizes p m = some (obsAny m p) ∧ (obsAny m p).sum = p ∧
    (obsAny m p).length = (if p = 0 then 0 else if m = 0 then 1 else (p + m - 1) / m) ∧
    (∀ s ∈ obsAny m p, 1 ≤ s ∧ (0 < m → s ≤ m)) ∧ (∀ s ∈ obsAny m p, ∀ t ∈ obsAny m p, s ≤ t + 1) := by
  refine ⟨optimalBatchSizes_any p m, obsAny_sum m p, obsAny_length m p, ?_, (obsAny_bounds m p).2⟩
  intro s hs
  have := (obsAny_bounds m p).1 s hs
  refine ⟨this.1, fun hm => ?_⟩
  have e : effMax m p = m := by unfold effMax; rw [if_neg (by omega)]
  rw [e] at this; exact this.2

/-! ## B. folds from starts -/

/-- the validation batch sets of folds built from the starts of `batchPartitioning`: fold i = the next
`counts[i]` batch indices -/
def foldRanges : List Nat → Nat → List (List Nat)
  | [], _ => []
  | c :: cs, acc => ((List.range c).map (· + acc)) :: foldRanges cs (acc + c)

theorem range_shift_append (a c : Nat) :
    (List.range a) ++ (List.range c).map (· + a) = List.range (a + c) := by
  induction c with
  | zero => simp
  | succ c ih =>
    rw [List.range_succ, List.map_append, ← List.append_assoc, ih]
    simp [← Nat.add_assoc, List.range_succ, Nat.add_comm]

theorem foldRanges_flatten (cs : List Nat) (acc : Nat) :
    List.range acc ++ (foldRanges cs acc).flatten = List.range (acc + cs.sum) := by
  induction cs generalizing acc with
  | nil => simp [foldRanges]
  | cons c cs ih =>
    simp only [foldRanges, List.flatten_cons, List.sum_cons]
    rw [← List.append_assoc, range_shift_append, ih, Nat.add_assoc]

/-- **folds_disjoint_cover**: the validation batch sets, concatenated in fold order, are exactly
0, 1, …, numBatches-1 — each batch belongs to exactly one validation part (pairwise disjoint, covering) -/
theorem folds_disjoint_cover (counts : List Nat) :
    (foldRanges counts 0).flatten = List.range counts.sum ∧ (foldRanges counts 0).flatten.Nodup := by
  have := foldRanges_flatten counts 0
  simp only [List.range_zero, List.nil_append, Nat.zero_add] at this
  rw [this]; exact ⟨rfl, List.nodup_range⟩

theorem foldsFromStarts_starts (counts : List Nat) : ∀ acc,
    CVFolds.foldsFromStarts (starts counts acc) (acc + counts.sum) = some (foldRanges counts acc) := by
  induction counts with
  | nil => intro acc; simp [starts, CVFolds.foldsFromStarts, foldRanges]
  | cons c cs ih =>
    intro acc
    cases cs with
    | nil => simp [starts, CVFolds.foldsFromStarts, foldRanges, csub]
    | cons c' cs' =>
      have := ih (acc + c)
      simp only [starts, List.sum_cons] at this ⊢
      rw [CVFolds.foldsFromStarts]
      have e : acc + (c + (c' + cs'.sum)) = acc + c + (c' + cs'.sum) := by omega
      rw [e, this]
      simp [csub, foldRanges]

/-- `CVFolds(set, foldStart)` with the starts computed by `batchPartitioning` yields exactly `foldRanges`:
together with `folds_disjoint_cover`, the validation parts are pairwise disjoint and cover the dataset -/
theorem ofStarts_eq_foldRanges (set : LabeledData ι κ) (counts : List Nat)
    (hnb : set.numberOfBatches = counts.sum) :
    CVFolds.ofStarts set (starts counts 0) = .ok ⟨set, foldRanges counts 0⟩ := by
  have := foldsFromStarts_starts counts 0
  simp only [Nat.zero_add] at this
  simp [CVFolds.ofStarts, hnb, this, ofOpt, bind, Except.bind, pure, Except.pure]

/-- **training_is_complement**: for every index set `v` the training indices `complement v n` contain exactly
the batch indices below n that are not in `v`, each once, in ascending order -/
theorem training_is_complement (v : List Nat) (n : Nat) :
    (∀ i, i ∈ Data.complement v n ↔ (i < n ∧ i ∉ v)) ∧ (Data.complement v n).Nodup := complement_spec v n

/-- validation ∪ training is a permutation of all batch indices (for duplicate-free validation sets) -/
theorem validation_training_partition (v : List Nat) (n : Nat) (hv : v.Nodup) (hlt : ∀ i ∈ v, i < n) :
    (v ++ Data.complement v n).Perm (List.range n) := subset_complement_indices v n hv hlt

/-! ## C. equal sizes and class balance -/

/-- `createCVSameSize` / `createCVSameSizeBalanced`: the validation sizes are defined for k > 0, there are k
of them, they sum to n and any two differ by at most one -/
theorem samesize_balanced (n k : Nat) (hk : 0 < k) :
    ∃ l, sameSizes n k = some l ∧ l.length = k ∧ l.sum = n ∧ ∀ s ∈ l, ∀ t ∈ l, s ≤ t + 1 := by
  have hmul : n / k * k ≤ n := Nat.div_mul_le_self n k
  have hmod : n - n / k * k = n % k := by
    have := Nat.div_add_mod n k; rw [Nat.mul_comm] at this; omega
  refine ⟨(List.range k).map fun i => n / k + (if i < n % k then 1 else 0), ?_, by simp, ?_, ?_⟩
  · simp [sameSizes, cdiv, csub, Nat.ne_of_gt hk, hmul, hmod]
  · have h := C03.sum_range_ite (n / k) (n % k) k
    have e : ((List.range k).map fun i => n / k + (if i < n % k then 1 else 0)) =
        ((List.range k).map fun j => if j < n % k then n / k + 1 else n / k) := by
      apply List.map_congr_left; intro i _; split <;> rfl
    rw [e, h, Nat.min_eq_left (Nat.le_of_lt (Nat.mod_lt n hk))]
    have := Nat.div_add_mod n k
    rw [Nat.mul_comm]; omega
  · intro s hs t ht
    simp only [List.mem_map, List.mem_range] at hs ht
    obtain ⟨i, _, rfl⟩ := hs
    obtain ⟨j, _, rfl⟩ := ht
    split <;> split <;> omega

/-- **dealing_class_balance** (`createCVSameSizeBalanced`: `fold = (fold+1) % k` with the counter running on
across classes): the members of one class occupy a block of `m` consecutive dealing positions starting at some
position `a`; for any two folds the numbers of class members they receive differ by at most one -/
theorem dealing_class_balance (k a m f g : Nat) (hk : 0 < k) (hf : f < k) (hg : g < k) :
    ((List.range m).filter fun j => (a + j) % k = f).length ≤
    ((List.range m).filter fun j => (a + j) % k = g).length + 1 :=
  Dealing.window_balance k a m f g hk hf hg

/-- **dealing_fills_folds_exactly**: dealing n elements round-robin gives fold f exactly ⌊n/k⌋ (+1 if f < n mod k)
elements — the validation sizes from which the batch layout was computed beforehand (`sameSizes`), so every
batch of the new set is filled exactly -/
theorem dealing_fills_folds_exactly (n k f : Nat) (hk : 0 < k) (hf : f < k) :
    ((List.range n).filter fun j => j % k = f).length = n / k + (if f < n % k then 1 else 0) ∧
    sameSizes n k = some ((List.range k).map fun i => n / k + (if i < n % k then 1 else 0)) := by
  refine ⟨?_, ?_⟩
  · have := Dealing.count_window k f 0 hk hf n
    simp only [Nat.zero_add, Dealing.cnt, Nat.zero_div, Nat.zero_mod, Nat.not_lt_zero, if_false, Nat.add_zero] at this
    exact this
  · have hmul : n / k * k ≤ n := Nat.div_mul_le_self n k
    have hmod : n - n / k * k = n % k := by
      have := Nat.div_add_mod n k; rw [Nat.mul_comm] at this; omega
    simp [sameSizes, cdiv, csub, Nat.ne_of_gt hk, hmul, hmod]

/-- adjacent elements in order ⇒ the list is sorted -/
theorem pairwise_of_adjacent (ls : List Nat)
    (h : ∀ j, j + 1 < ls.length → ls[j]?.getD 0 ≤ ls[j + 1]?.getD 0) : ls.Pairwise (· ≤ ·) := by
  rw [List.pairwise_iff_getElem]
  intro i j hi hj hij
  have key : ∀ d, ∀ i, (hid : i + d < ls.length) → ls[i]'(by omega) ≤ ls[i + d]'hid := by
    intro d
    induction d with
    | zero => intro i _; exact Nat.le_refl _
    | succ d ih =>
      intro i hid
      have h1 := ih i (by omega)
      have h2 := h (i + d) (by omega)
      rw [List.getElem?_eq_getElem (by omega), List.getElem?_eq_getElem (by omega)] at h2
      simp only [Option.getD_some] at h2
      have e : i + (d + 1) = i + d + 1 := by omega
      simp only [e]
      exact Nat.le_trans h1 h2
  have := key (j - i) i (by omega)
  have e : i + (j - i) = j := by omega
  simp only [e] at this
  exact this

/-- **class balance of createCVSameSizeBalanced** for every admissible dealing order: if `validSeq labels seq`
(what the model checks on the observed order: every position once, class by class) then, with dealing position j
going to fold j mod k, the members of any class c are spread over any two folds p, q with counts that differ by
at most one (`idxs c ls 0` = the dealing positions holding class c) -/
theorem balanced_class_balance (labels seq : List Nat) (hv : validSeq labels seq = true) (k : Nat) (hk : 0 < k)
    (c p q : Nat) (hp : p < k) (hq : q < k) :
    let ls := seq.map fun i => labels[i]?.getD 0
    ((idxs c ls 0).filter (fun j => j % k = p)).length ≤ ((idxs c ls 0).filter (fun j => j % k = q)).length + 1 := by
  intro ls
  simp only [validSeq, Bool.and_eq_true, List.all_eq_true, List.mem_range, decide_eq_true_eq] at hv
  have hs : ls.Pairwise (· ≤ ·) := by
    apply pairwise_of_adjacent
    intro j hj
    have hlen : ls.length = (List.map (fun i => labels[i]?.getD 0) seq).length := rfl
    exact hv.2 j (by omega)
  exact dealing_balance_sorted ls hs k hk c p q hp hq

/-! ## D. the reorganised dataset -/

/-- **shape_kept**: the reorganised dataset of createCVIndexed / createCVFullyIndexed / createCVIID /
createCVSameSizeBalanced carries the element shapes of the original (model `regroup`; the C++ as found
violates this — finding F11) -/
theorem shape_kept (set : LabeledData ι κ) (k : Nat) (assign : List (Nat × Nat)) (bs : Nat) (f : CVFolds ι κ)
    (h : regroup set k assign bs = .ok f) :
    f.dataset.inputs.shape = set.inputs.shape ∧ f.dataset.labels.shape = set.labels.shape := by
  simp only [regroup, bind_ok, require_ok, ofOpt_ok, CVFolds.ofStarts, pure_ok] at h
  obtain ⟨_, _, ⟨_, _, _⟩, _, _, _, _, _, rfl⟩ := h
  exact ⟨rfl, rfl⟩

/-- length of what `pick` (= `subBatch(setView, positions)`) returns -/
theorem pick_length (set : LabeledData ι κ) (pos : List Nat) (els : List (ι × κ)) (h : pick set pos = .ok els) :
    els.length = pos.length := by
  simp only [pick, View.subBatch, bind_ok, ofOpt_ok, View.subset, pure_ok] at h
  obtain ⟨v, ⟨ixs, hix, rfl⟩, hels⟩ := h
  have h1 := mapM_except_length _ _ _ hix
  have h2 := mapM_option_id_length _ _ hels
  simp only [View.elements, List.length_map, List.length_range, View.size] at h2
  omega

theorem filter_snd_zip_length {γ : Type} (els : List γ) (assign : List (Nat × Nat)) (hlen : els.length = assign.length)
    (p : Nat) :
    ((List.zip els (assign.map (·.2))).filter (fun x => x.2 = p)).length = (assign.filter (fun a => a.2 = p)).length := by
  rw [← List.countP_eq_length_filter, ← List.countP_eq_length_filter]
  have h1 : ((List.zip els (assign.map (·.2))).map (·.2)) = assign.map (·.2) := by
    apply List.map_snd_zip; simp [hlen]
  have h2 := List.countP_map (p := fun t : Nat => decide (t = p)) (f := fun x : γ × Nat => x.2)
    (l := List.zip els (assign.map (·.2)))
  have h3 := List.countP_map (p := fun t : Nat => decide (t = p)) (f := fun x : Nat × Nat => x.2) (l := assign)
  rw [h1] at h2
  rw [h3] at h2
  exact h2.symm

theorem splitBySizes_map {γ δ : Type} (g : γ → δ) (sizes : List Nat) : ∀ (l : List γ),
    (splitBySizes l sizes).map (·.map g) = splitBySizes (l.map g) sizes := by
  induction sizes with
  | nil => intro l; rfl
  | cons s ss ih => intro l; simp [splitBySizes, ih, List.map_take, List.map_drop]

/-- the dealing loop on the picked elements leaves exactly the layout of the specification `regroup`: the elements
grouped by fold (`ordered`) cut by the concatenated per-fold batch sizes -/
theorem dealLoop_regroup {γ : Type} (els : List γ) (k : Nat) (assign : List (Nat × Nat)) (bs : Nat)
    (hall : ∀ a ∈ assign, a.2 < k) (hlen : els.length = assign.length) :
    let counts := (List.range k).map fun p => (assign.filter (fun a => a.2 = p)).length
    let tagged := List.zip els (assign.map (·.2))
    dealLoop tagged k (counts.map fun p => (obsAny bs p).length).sum (starts (counts.map fun p => (obsAny bs p).length) 0)
        (counts.flatMap (obsAny bs)) =
      some (splitBySizes ((List.range k).flatMap fun p => (tagged.filter (·.2 = p)).map (·.1)) (counts.flatMap (obsAny bs))) := by
  intro counts tagged
  have hblk : ∀ p, (DealLoop.blk tagged p).length = (assign.filter (fun a => decide (a.2 = p))).length := by
    intro p
    simp only [DealLoop.blk, List.length_map]
    exact filter_snd_zip_length els assign hlen p
  have htag : ∀ x ∈ tagged, x.2 < k := by
    intro x hx
    have := (List.of_mem_zip hx).2
    simp only [List.mem_map] at this
    obtain ⟨a, ha, hax⟩ := this
    rw [← hax]; exact hall a ha
  have h := DealLoop.dealLoop_eq k (fun p => obsAny bs (assign.filter (fun a => decide (a.2 = p))).length)
    (fun p s hs => obsAny_pos bs _ s hs) tagged htag (fun p _ => by rw [obsAny_sum, hblk])
  have e1 : (counts.map fun p => (obsAny bs p).length) =
      (List.range k).map fun p => (obsAny bs (assign.filter (fun a => decide (a.2 = p))).length).length := by
    simp [counts, List.map_map, Function.comp_def]
  have e2 : counts.flatMap (obsAny bs) =
      (List.range k).flatMap fun p => obsAny bs (assign.filter (fun a => decide (a.2 = p))).length := by
    simp [counts, List.flatMap_map]
  rw [e1, e2, h]
  congr 1
  -- cut the concatenation of the per-fold blocks by the concatenated per-fold sizes
  have hb := splitBySizes_blocks (fun blk : List γ => obsAny bs blk.length) (fun blk => obsAny_sum bs blk.length)
    ((List.range k).map (DealLoop.blk tagged))
  have e3 : ((List.range k).map (DealLoop.blk tagged)).flatten =
      (List.range k).flatMap fun p => (tagged.filter (·.2 = p)).map (·.1) := by
    rw [List.flatMap_def]; rfl
  have e4 : (((List.range k).map (DealLoop.blk tagged)).flatMap fun blk => obsAny bs blk.length) =
      (List.range k).flatMap fun p => obsAny bs (assign.filter (fun a => decide (a.2 = p))).length := by
    rw [List.flatMap_map]
    apply flatMap_congr'
    intro p _
    rw [hblk]
  rw [e3, e4] at hb
  rw [hb, List.flatMap_map]
  apply flatMap_congr'
  intro p _
  rw [hblk]

/-- `dealInto` (batch layout from given validation sizes, then the dealing loop) equals `regroup` whenever the
validation sizes are the numbers of elements dealt to the folds -/
theorem dealInto_eq_regroup (set : LabeledData ι κ) (k : Nat) (assign : List (Nat × Nat)) (bs : Nat)
    (hall : ∀ a ∈ assign, a.2 < k) :
    dealInto set k ((List.range k).map fun p => (assign.filter (·.2 = p)).length) assign bs = regroup set k assign bs := by
  have hreq : (assign.all fun a => decide (a.2 < k)) = true := by
    simp only [List.all_eq_true, decide_eq_true_eq]; exact hall
  have hbp := (batchPartitioning_with_empty ((List.range k).map fun p => (assign.filter (fun a => a.2 = p)).length) bs).1
  unfold dealInto regroup
  cases hp : pick set (assign.map (·.1)) with
  | error e => simp [hbp, hreq, require, ofOpt, bind, Except.bind]
  | ok els =>
    have hlen := pick_length set _ els hp
    simp only [List.length_map] at hlen
    have hd := dealLoop_regroup els k assign bs hall hlen
    simp only at hd
    simp only [hbp, hreq, require, ofOpt, bind, Except.bind, if_true, hd]
    simp only [splitBySizes_map, List.map_flatMap, List.map_map, Function.comp_def]

/-- **the loop model equals its specification**: `regroupLoop` (count, `batchPartitioning`, element-dealing loop with
`batchElements` / `validationSetStart` / `batchSizes[batchNumber]`, `CVFolds(set, partitionStart)`) returns exactly what
`regroup` returns — for every dataset, fold count, assignment (valid or not) and maximum batch size (0 included) -/
theorem regroupLoop_eq_regroup (set : LabeledData ι κ) (k : Nat) (assign : List (Nat × Nat)) (bs : Nat) :
    regroupLoop set k assign bs = regroup set k assign bs := by
  by_cases hall : ∀ a ∈ assign, a.2 < k
  · unfold regroupLoop
    have hreq : (assign.all fun a => decide (a.2 < k)) = true := by
      simp only [List.all_eq_true, decide_eq_true_eq]; exact hall
    simp only [hreq, require, if_true]
    exact dealInto_eq_regroup set k assign bs hall
  · have hreq : (assign.all fun a => decide (a.2 < k)) = false := by
      rw [Bool.eq_false_iff]
      intro h
      simp only [List.all_eq_true, decide_eq_true_eq] at h
      exact hall h
    unfold regroupLoop regroup
    simp only [hreq, require]
    rfl

/-- **fold_elements_partition** (model `regroup`, the common tail of createCVIndexed / createCVFullyIndexed /
createCVIID / createCVSameSizeBalanced).  Let `els` be the elements picked at the processing positions and
`tagged` = those elements with the fold each was assigned to.  If the source returns no batch for zero elements
then the call builds a reorganised dataset whose
inputs and labels are partitioned identically, whose (input, label) sequence is `ordered` = fold 0's elements,
then fold 1's, … each in processing order — so every element sits in the fold requested for it, with the label
it was picked with — and `ordered` is a permutation of the picked elements: each exactly once. -/
theorem fold_elements_partition (set : LabeledData ι κ) (k : Nat) (assign : List (Nat × Nat)) (bs : Nat) (f : CVFolds ι κ) (h : regroup set k assign bs = .ok f) :
    ∃ els, pick set (assign.map (·.1)) = .ok els ∧ els.length = assign.length ∧
      let tagged := List.zip els (assign.map (·.2))
      let ordered := (List.range k).flatMap fun p => (tagged.filter (·.2 = p)).map (·.1)
      C03.WF f.dataset ∧ C03.pairs f.dataset = ordered ∧ ordered.Perm els := by
  simp only [regroup, bind_ok, require_ok, ofOpt_ok, List.all_eq_true, decide_eq_true_eq] at h
  obtain ⟨_, hall, ⟨nb, starts', sizes⟩, hbp, els, hpick, hfolds⟩ := h
  have hlen := pick_length set _ els hpick
  simp only [List.length_map] at hlen
  refine ⟨els, hpick, hlen, ?_⟩
  intro tagged ordered
  -- the batch sizes computed for the folds
  obtain ⟨hspec, hsums⟩ := batchPartitioning_with_empty
    ((List.range k).map fun p => (assign.filter (fun a => a.2 = p)).length) bs
  have hbp' : batchPartitioning ((List.range k).map fun p => (assign.filter (fun a => decide (a.2 = p))).length) [] [] bs
      = some (nb, starts', sizes) := hbp
  rw [hspec] at hbp'
  simp only [Option.some.injEq, Prod.mk.injEq] at hbp'
  obtain ⟨_, _, hsizes⟩ := hbp'
  -- total of the batch sizes = number of assigned elements
  have hsum : sizes.sum = assign.length := by
    rw [← hsizes, sum_flatMap]
    have : (((List.range k).map fun p => (assign.filter (fun a => decide (a.2 = p))).length).map
        fun x => (obsAny bs x).sum) = (List.range k).map fun p => (assign.filter (fun a => decide (a.2 = p))).length := by
      rw [List.map_map]
      apply List.map_congr_left
      intro p _
      exact hsums _ (List.mem_map.mpr ⟨p, by assumption, rfl⟩)
    rw [this]
    exact sum_group_lengths (fun a : Nat × Nat => a.2) k assign (fun a ha => hall a ha)
  -- tags of the tagged elements are below k
  have htag : ∀ x ∈ tagged, x.2 < k := by
    intro x hx
    have := (List.of_mem_zip hx).2
    simp only [List.mem_map] at this
    obtain ⟨a, ha, hax⟩ := this
    rw [← hax]; exact hall a ha
  have hperm : ordered.Perm (tagged.map (·.1)) := by
    have := (perm_flatMap_filter (fun x : (ι × κ) × Nat => x.2) k tagged htag).map (·.1)
    simpa [ordered, List.map_flatMap] using this
  have htm : tagged.map (·.1) = els := by
    apply List.map_fst_zip
    simp [hlen]
  have hol : ordered.length = assign.length := by
    rw [hperm.length_eq, htm, hlen]
  simp only [CVFolds.ofStarts, bind_ok, ofOpt_ok, pure_ok] at hfolds
  obtain ⟨_, _, rfl⟩ := hfolds
  have hs1 : sizes.sum = (ordered.map (·.1)).length := by simp [hsum, hol]
  have hs2 : sizes.sum = (ordered.map (·.2)).length := by simp [hsum, hol]
  refine ⟨?_, ?_, htm ▸ hperm⟩
  · show (splitBySizes _ sizes).map List.length = (splitBySizes _ sizes).map List.length
    rw [splitBySizes_lengths _ _ (Nat.le_of_eq hs1), splitBySizes_lengths _ _ (Nat.le_of_eq hs2)]
  · show List.zip (splitBySizes _ sizes).flatten (splitBySizes _ sizes).flatten = ordered
    rw [splitBySizes_flatten _ _ hs1, splitBySizes_flatten _ _ hs2, zip_map_fst_snd]

/-- what `subBatch(setView, positions)` collects: the (input, label) pairs at those positions -/
theorem pick_eq (set : LabeledData ι κ) (hw : C03.WF set) (pos : List Nat) (els : List (ι × κ))
    (h : pick set pos = .ok els) : els.map some = pos.map (fun i => (C03.pairs set)[i]?) := by
  simp only [pick, View.subBatch, bind_ok, ofOpt_ok] at h
  obtain ⟨s, hs, hels⟩ := h
  have h1 := (subset_elements _ _ _ hs).1
  have h2 := mapM_id_some _ _ hels
  rw [view_elements set hw] at h1
  rw [← h2, h1, ← C03.flat_eq_pairs set hw]
  apply List.map_congr_left
  intro i _
  cases hx : set.flat[i]? <;> simp [hx]

/-- **createCVIndexed** (hence createCVIID for whatever the RNG draws): on a well-formed dataset, with the
maximum batch size 0 included, the reorganised dataset is well-formed, its
(input, label) sequence is the original one grouped by requested fold (fold 0's elements first, … each group in
original order) and therefore a permutation of the original pairs — every element exactly once, with its label,
in the fold requested for it -/
theorem createCVIndexed_partition (set : LabeledData ι κ) (hw : C03.WF set) (k : Nat) (indices : List Nat) (bs : Nat) (f : CVFolds ι κ)
    (h : createCVIndexed set k indices bs = .ok f) :
    C03.WF f.dataset ∧
    C03.pairs f.dataset = (List.range k).flatMap (fun p =>
      ((List.zip (C03.pairs set) indices).filter (·.2 = p)).map (·.1)) ∧
    (C03.pairs f.dataset).Perm (C03.pairs set) := by
  simp only [createCVIndexed, bind_ok, require_ok, decide_eq_true_eq] at h
  obtain ⟨_, hn, hr⟩ := h
  rw [regroupLoop_eq_regroup] at hr
  obtain ⟨els, hpick, hlen, hrest⟩ := fold_elements_partition set k _ bs f hr
  have hfst : (List.zip (List.range indices.length) indices).map (·.1) = List.range indices.length := by
    apply List.map_fst_zip; simp
  have hsnd : (List.zip (List.range indices.length) indices).map (·.2) = indices := by
    apply List.map_snd_zip; simp
  have hpl : (C03.pairs set).length = indices.length := by rw [C03.pairs_length set hw, hn]
  have hels : els = C03.pairs set := by
    have := pick_eq set hw _ els hpick
    rw [hfst, ← hpl] at this
    have h3 : (List.range (C03.pairs set).length).map (fun i => (C03.pairs set)[i]?) = (C03.pairs set).map some := by
      apply List.ext_getElem?
      intro j
      by_cases hj : j < (C03.pairs set).length
      · simp [hj]
      · simp [hj]
    rw [h3] at this
    have h4 := congrArg (List.filterMap id) this
    simpa [List.filterMap_map] using h4
  simp only [hsnd, hels] at hrest
  exact ⟨hrest.1, hrest.2.1, hrest.2.1 ▸ hrest.2.2⟩

/-- **createCVSameSize**: for every permutation the shuffle may draw, on a well-formed dataset with non-empty
batches: the call succeeds only into a well-formed dataset that is a permutation of the original (input, label)
pairs, partitioned into exactly the batch sizes `batchPartitioning` computed for the validation sizes
⌊n/k⌋(+1), with the folds' validation batch sets = consecutive ranges (disjoint, covering: `folds_disjoint_cover`) -/
theorem createCVSameSize_partition (set : LabeledData ι κ) (hw : C03.WF set) (hne : allPos set.inputs.partitioning)
    (k : Nat) (perm : List Nat) (bs : Nat) (hk : 0 < k) (f : CVFolds ι κ) (h : createCVSameSize set k perm bs = .ok f) :
    ∃ vs, sameSizes set.numberOfElements k = some vs ∧
      C03.WF f.dataset ∧ (C03.pairs f.dataset).Perm (C03.pairs set) ∧
      f.dataset.partitioning = vs.flatMap (obsAny bs) ∧
      f.validationFolds = foldRanges (vs.map fun p => (obsAny bs p).length) 0 := by
  simp only [createCVSameSize, bind_ok, ofOpt_ok, require_ok] at h
  obtain ⟨vs, hvs, ⟨nb, st, sizes⟩, hbp, set1, hrep, _, hperm, set2, hreo, hfolds⟩ := h
  refine ⟨vs, hvs, ?_⟩
  obtain ⟨hspec, _⟩ := batchPartitioning_with_empty vs bs
  rw [hspec] at hbp
  simp only [Option.some.injEq, Prod.mk.injEq] at hbp
  obtain ⟨hnb, hst, hsizes⟩ := hbp
  obtain ⟨hw1, hp1, hpart1⟩ := C03.repartition_pairs set set1 sizes hrep
  -- the repartitioned set has non-empty batches (checked by `repartition` itself)
  have hne1 : allPos set1.inputs.partitioning := by
    have hr := hrep
    simp only [LabeledData.repartition, bind_ok, pure_ok] at hr
    obtain ⟨i, hi, l, _, rfl⟩ := hr
    have hip := (C03.repartition_flat _ _ _ hi).2.1
    simp only [Data.repartition, bind_ok, require_ok, pure_ok, Bool.and_eq_true] at hi
    obtain ⟨_, _, _, ⟨_, hall⟩, _⟩ := hi
    show allPos i.partitioning
    rw [hip]; exact allPos_of_all sizes hall
  have hpm : perm.Perm (List.range set1.numberOfElements) := List.isPerm_iff.mp hperm
  obtain ⟨⟨hw2, hne2⟩, hp2⟩ := C03.step_preserves set1 set2 (.reorder perm) ⟨hw1, hne1⟩ hpm hreo
  have hpart2 : set2.partitioning = sizes := by
    have hr := hreo
    simp only [LabeledData.reorderElements, bind_ok, pure_ok] at hr
    obtain ⟨i, hi, l, _, rfl⟩ := hr
    have := (C03.reorderElements_flat _ _ _ hne1 hi).2.1
    show i.partitioning = sizes
    rw [this]; exact hpart1
  have hnb2 : set2.numberOfBatches = (vs.map fun p => (obsAny bs p).length).sum := by
    have : set2.numberOfBatches = set2.partitioning.length := by
      simp [LabeledData.numberOfBatches, LabeledData.partitioning, Data.numberOfBatches, Data.partitioning]
    rw [this, hpart2, ← hsizes, List.length_flatMap]
  rw [← hst] at hfolds
  rw [ofStarts_eq_foldRanges set2 _ hnb2] at hfolds
  simp only [Except.ok.injEq] at hfolds
  subst hfolds
  exact ⟨hw2, hp2.trans (hp1 ▸ List.Perm.refl _), hsizes ▸ hpart2, rfl⟩

/-! ## E. elements of the folds -/
variable {ε : Type}

/-- **validation ∪ training = everything** at the element level: for a duplicate-free validation batch set
the elements of the validation part and of the training part (its complement) together are a permutation of
the elements of the reorganised dataset — nothing lost, nothing duplicated -/
theorem validation_training_elements (d v t : Data ε) (idx : List Nat) (hnd : idx.Nodup)
    (hv : d.indexedSubset idx = .ok v) (ht : d.indexedSubset (Data.complement idx d.numberOfBatches) = .ok t) :
    (v.flat ++ t.flat).Perm d.flat := subset_complement_elements d v t idx hnd hv ht

/-- **validation parts partition the data** at the element level: the validation parts of folds built from
the starts of `batchPartitioning`, concatenated in fold order, are exactly the element sequence of the
reorganised dataset — each element in exactly one validation part -/
theorem validation_parts_concat (d : Data ε) (counts : List Nat) (hnb : d.numberOfBatches = counts.sum)
    (vs : List (Data ε)) (hvs : (foldRanges counts 0).mapM d.indexedSubset = .ok vs) :
    vs.flatMap Data.flat = d.flat := by
  have hcover := (folds_disjoint_cover counts).1
  have key : ∀ (folds : List (List Nat)) (vs : List (Data ε)), folds.mapM d.indexedSubset = .ok vs →
      vs.flatMap Data.flat = folds.flatten.flatMap (fun i => d.batches.getD i []) := by
    intro folds
    induction folds with
    | nil => intro vs h; simp [List.mapM_nil, pure, Except.pure] at h; subst h; simp
    | cons f folds ih =>
      intro vs h
      simp only [List.mapM_cons, bind_ok, pure_ok] at h
      obtain ⟨v, hv, vs', hvs', rfl⟩ := h
      simp only [List.flatMap_cons, List.flatten_cons, List.flatMap_append, ih vs' hvs',
        (indexedSubset_flat d v f hv).1]
  rw [key _ _ hvs, hcover, ← hnb, Data.numberOfBatches, flatMap_range_getD]
  rfl

/-! ## F. every fold's validation part holds exactly the elements requested for it -/

theorem foldRanges_eq_segRanges (cs : List Nat) : ∀ acc, foldRanges cs acc = segRanges cs acc := by
  induction cs with
  | nil => intro acc; rfl
  | cons c cs ih => intro acc; simp [foldRanges, segRanges, ih]

/-- reading the batches of fold p out of a dataset that was cut from the concatenation of per-fold blocks -/
theorem fold_batches_read {γ : Type} (bs : Nat) (blocks : List (List γ)) (p : Nat) (r : List Nat)
    (hr : (foldRanges (blocks.map fun blk => (obsAny bs blk.length).length) 0)[p]? = some r) :
    r.flatMap (fun i => (splitBySizes blocks.flatten (blocks.flatMap fun blk => obsAny bs blk.length)).getD i []) =
      blocks.getD p [] := by
  rw [splitBySizes_blocks (fun blk => obsAny bs blk.length) (fun blk => obsAny_sum bs blk.length)]
  have hseg : (blocks.flatMap fun blk => splitBySizes blk (obsAny bs blk.length)) =
      (blocks.map fun blk => splitBySizes blk (obsAny bs blk.length)).flatten := by
    rw [List.flatMap_def]
  rw [hseg]
  have hcounts : (blocks.map fun blk => (obsAny bs blk.length).length) =
      ((blocks.map fun blk => splitBySizes blk (obsAny bs blk.length)).map List.length) := by
    rw [List.map_map]
    apply List.map_congr_left
    intro blk _
    simp [splitBySizes_length]
  rw [hcounts, foldRanges_eq_segRanges] at hr
  have := segRanges_read (blocks.map fun blk => splitBySizes blk (obsAny bs blk.length)) [] p r (by simpa using hr)
  simp only [List.nil_append] at this
  rw [List.flatMap_def, this]
  by_cases hp : p < blocks.length
  · simp only [List.getD_eq_getElem?_getD, List.getElem?_map, List.getElem?_eq_getElem hp, Option.map_some,
      Option.getD_some]
    exact splitBySizes_flatten _ _ (obsAny_sum bs _)
  · simp [List.getD_eq_getElem?_getD, List.getElem?_eq_none (Nat.le_of_not_lt hp)]

/-- **indexed_puts_in_requested_fold** (model `regroup`, i.e. createCVIndexed / createCVFullyIndexed /
createCVIID / createCVSameSizeBalanced): whenever `folds.validation(p)` can be formed, its (input, label)
sequence is exactly the elements that were assigned to fold `p`, in processing order, each with the label it was
picked with — no element of another fold, none missing -/
theorem indexed_puts_in_requested_fold (set : LabeledData ι κ) (k : Nat) (assign : List (Nat × Nat)) (bs : Nat) (f : CVFolds ι κ) (h : regroup set k assign bs = .ok f)
    (p : Nat) (hp : p < k) (v : LabeledData ι κ) (hv : f.validation p = .ok v) :
    ∃ els, pick set (assign.map (·.1)) = .ok els ∧
      C03.pairs v = ((List.zip els (assign.map (·.2))).filter (·.2 = p)).map (·.1) := by
  simp only [regroup, bind_ok, require_ok, ofOpt_ok, List.all_eq_true, decide_eq_true_eq] at h
  obtain ⟨_, hall, ⟨nb, starts', sizes⟩, hbp, els, hpick, hfolds⟩ := h
  have hlen := pick_length set _ els hpick
  simp only [List.length_map] at hlen
  refine ⟨els, hpick, ?_⟩
  obtain ⟨hspec, _⟩ := batchPartitioning_with_empty
    ((List.range k).map fun p => (assign.filter (fun a => a.2 = p)).length) bs
  have hbp' : batchPartitioning ((List.range k).map fun p => (assign.filter (fun a => decide (a.2 = p))).length) [] [] bs
      = some (nb, starts', sizes) := hbp
  rw [hspec] at hbp'
  simp only [Option.some.injEq, Prod.mk.injEq] at hbp'
  obtain ⟨_, hst, hsizes⟩ := hbp'
  -- the per-fold blocks
  let blk : Nat → List (ι × κ) := fun q => ((List.zip els (assign.map (·.2))).filter (·.2 = q)).map (·.1)
  have hblen : ∀ q, (blk q).length = (assign.filter (fun a => decide (a.2 = q))).length := by
    intro q; simp only [blk, List.length_map]; exact filter_snd_zip_length els assign hlen q
  have hsz : ∀ {β : Type} (π : ι × κ → β),
      (((List.range k).map fun q => (blk q).map π).flatMap fun b => obsAny bs b.length) = sizes := by
    intro β π
    rw [← hsizes, List.flatMap_def, List.flatMap_def, List.map_map, List.map_map]
    congr 1
    apply List.map_congr_left
    intro q _
    simp [hblen q]
  have hcnt : ∀ {β : Type} (π : ι × κ → β),
      (((List.range k).map fun q => (blk q).map π).map fun b => (obsAny bs b.length).length) =
      ((List.range k).map fun q => (assign.filter (fun a => decide (a.2 = q))).length).map fun n => (obsAny bs n).length := by
    intro β π
    rw [List.map_map, List.map_map]
    apply List.map_congr_left
    intro q _
    simp [hblen q]
  have hflat : ∀ {β : Type} (π : ι × κ → β),
      ((List.range k).map fun q => (blk q).map π).flatten =
      (((List.range k).flatMap fun q => blk q).map π) := by
    intro β π
    rw [List.map_flatMap, List.flatMap_def]
  -- the folds
  simp only [CVFolds.ofStarts, bind_ok, ofOpt_ok, pure_ok] at hfolds
  obtain ⟨folds, hfs, rfl⟩ := hfolds
  rw [← hst] at hfs
  have hnb : (splitBySizes (((List.range k).flatMap fun q => blk q).map (·.1)) sizes).length =
      (((List.range k).map fun q => (assign.filter (fun a => decide (a.2 = q))).length).map
        fun n => (obsAny bs n).length).sum := by
    rw [splitBySizes_length, ← hsizes, List.length_flatMap]
  have hfr := foldsFromStarts_starts
    (((List.range k).map fun q => (assign.filter (fun a => decide (a.2 = q))).length).map fun n => (obsAny bs n).length) 0
  simp only [Nat.zero_add] at hfr
  have hfs' : CVFolds.foldsFromStarts _ _ = some folds := hfs
  simp only [LabeledData.numberOfBatches, Data.numberOfBatches] at hfs'
  rw [hnb, hfr] at hfs'
  simp only [Option.some.injEq] at hfs'
  subst hfs'
  -- the validation part
  simp only [CVFolds.validation, CVFolds.validationFoldIndices, bind_ok, ofOpt_ok, LabeledData.indexedSubset,
    LabeledData.mk'] at hv
  obtain ⟨r, hr, i, hi, l, hl, hmk⟩ := hv
  split at hmk
  · simp only [Except.ok.injEq] at hmk; subst hmk
    have hif := (indexedSubset_flat _ _ _ hi).1
    have hlf := (indexedSubset_flat _ _ _ hl).1
    have hr1 := hr
    rw [← hcnt (·.1)] at hr1
    have hr2 := hr
    rw [← hcnt (·.2)] at hr2
    have hI := fold_batches_read bs ((List.range k).map fun q => (blk q).map (·.1)) p r hr1
    have hL := fold_batches_read bs ((List.range k).map fun q => (blk q).map (·.2)) p r hr2
    rw [hsz, hflat] at hI hL
    simp only [C03.pairs]
    rw [hif, hlf]
    show List.zip (r.flatMap fun j => (splitBySizes _ sizes).getD j []) (r.flatMap fun j => (splitBySizes _ sizes).getD j []) = _
    rw [hI, hL]
    simp only [List.getD_eq_getElem?_getD, List.getElem?_map, List.getElem?_range hp, Option.map_some, Option.getD_some]
    exact zip_map_fst_snd _
  · simp at hmk

/-! ## G. every fold-construction function -/

/-- picking at a permutation of all positions yields a permutation of the (input, label) pairs -/
theorem pick_perm (set : LabeledData ι κ) (hw : C03.WF set) (pos : List Nat) (els : List (ι × κ))
    (hperm : pos.Perm (List.range set.numberOfElements)) (h : pick set pos = .ok els) :
    els.Perm (C03.pairs set) := by
  have he := pick_eq set hw pos els h
  have hpl := C03.pairs_length set hw
  have h2 : (pos.map (fun i => (C03.pairs set)[i]?)).Perm
      ((List.range set.numberOfElements).map (fun i => (C03.pairs set)[i]?)) := hperm.map _
  have h3 : (List.range set.numberOfElements).map (fun i => (C03.pairs set)[i]?) = (C03.pairs set).map some := by
    rw [← hpl]
    apply List.ext_getElem?
    intro j
    by_cases hj : j < (C03.pairs set).length
    · simp [hj]
    · simp [hj]
  rw [← he, h3] at h2
  have := h2.filterMap id
  simpa [List.filterMap_map] using this

/-- **createCVIID**: whatever `random::discrete` draws (any vector of fold numbers below k), the result is that of
`createCVIndexed` with the drawn vector — a permutation of the original pairs grouped by drawn fold -/
theorem createCVIID_partition (set : LabeledData ι κ) (hw : C03.WF set) (k : Nat) (drawn : List Nat) (bs : Nat) (f : CVFolds ι κ)
    (h : createCVIID set k drawn bs = .ok f) :
    C03.WF f.dataset ∧ (C03.pairs f.dataset).Perm (C03.pairs set) ∧
    C03.pairs f.dataset = (List.range k).flatMap (fun p =>
      ((List.zip (C03.pairs set) drawn).filter (·.2 = p)).map (·.1)) := by
  simp only [createCVIID, bind_ok, require_ok] at h
  obtain ⟨_, _, h⟩ := h
  obtain ⟨h1, h2, h3⟩ := createCVIndexed_partition set hw k drawn bs f h
  exact ⟨h1, h3, h2⟩

/-- **createCVFullyIndexed** with an order vector that is a permutation of the positions: the reorganised
dataset is well-formed and a permutation of the original pairs (grouped by the requested folds, in the
requested processing order: `fold_elements_partition`) -/
theorem createCVFullyIndexed_partition (set : LabeledData ι κ) (hw : C03.WF set) (k : Nat) (order part : List Nat)
    (bs : Nat)
    (hperm : order.Perm (List.range set.numberOfElements)) (f : CVFolds ι κ)
    (h : createCVFullyIndexed set k order part bs = .ok f) :
    C03.WF f.dataset ∧ (C03.pairs f.dataset).Perm (C03.pairs set) := by
  simp only [createCVFullyIndexed, bind_ok, require_ok, Bool.and_eq_true, decide_eq_true_eq] at h
  obtain ⟨_, ⟨ho, hp⟩, hr⟩ := h
  rw [regroupLoop_eq_regroup] at hr
  obtain ⟨els, hpick, _, hrest⟩ := fold_elements_partition set k _ bs f hr
  have hfst : (List.zip order part).map (·.1) = order := by
    apply List.map_fst_zip; omega
  rw [hfst] at hpick
  have hpp := pick_perm set hw order els hperm hpick
  exact ⟨hrest.1, hrest.2.1 ▸ (hrest.2.2.trans hpp)⟩

theorem filter_zip_snd_length {γ : Type} (els : List γ) (tags : List Nat) (hlen : els.length = tags.length) (p : Nat) :
    ((List.zip els tags).filter (fun x => x.2 = p)).length = (tags.filter (fun t => t = p)).length := by
  rw [← List.countP_eq_length_filter, ← List.countP_eq_length_filter]
  have h1 : ((List.zip els tags).map (·.2)) = tags := by
    apply List.map_snd_zip; omega
  have h2 := List.countP_map (p := fun t : Nat => decide (t = p)) (f := fun x : γ × Nat => x.2) (l := List.zip els tags)
  rw [h1] at h2
  exact h2.symm

/-- round-robin dealing of n elements: the number of elements fold p receives (what `createCVIndexed` would count)
is the validation size ⌊n/k⌋(+1) from which `detail::createCVSameSizeBalanced` computes the batch layout beforehand -/
theorem dealt_counts_eq_sameSizes (seq : List Nat) (k : Nat) (hk : 0 < k) :
    sameSizes seq.length k = some ((List.range k).map fun p =>
      ((List.zip seq ((List.range seq.length).map (· % k))).filter (fun a => a.2 = p)).length) := by
  rw [(dealing_fills_folds_exactly seq.length k 0 hk hk).2]
  congr 1
  apply List.map_congr_left
  intro p hp
  rw [filter_zip_snd_length seq _ (by simp) p]
  rw [← (dealing_fills_folds_exactly seq.length k p hk (List.mem_range.mp hp)).1]
  rw [← List.countP_eq_length_filter, ← List.countP_eq_length_filter, List.countP_map]
  rfl

/-- **detail::createCVSameSizeBalanced** (membership vector, any label type — the regression-label path): whenever the
call returns, the fold count is positive, the dealing order `seq` is the concatenation of permutations of the member
lists and covers `numberOfElements` positions, the result is exactly `regroup` of "dealing position j ↦ fold j mod k"
(so every theorem about `regroup` applies: grouping, requested fold, shape), and the recreation indices are
(seq, j mod k) -/
theorem balancedMembers_eq_regroup (set : LabeledData ι κ) (k : Nat) (members : List (List Nat)) (seq : List Nat)
    (bs : Nat) (f : CVFolds ι κ) (first second : List Nat)
    (h : createCVSameSizeBalancedMembers set k members seq bs = .ok (f, first, second)) :
    0 < k ∧ validMembersSeq members seq = true ∧ seq.length = set.numberOfElements ∧
    regroup set k (List.zip seq ((List.range seq.length).map (· % k))) bs = .ok f ∧
    first = seq ∧ second = (List.range seq.length).map (· % k) := by
  simp only [createCVSameSizeBalancedMembers, bind_ok, require_ok, ofOpt_ok, pure_ok, Prod.mk.injEq,
    decide_eq_true_eq] at h
  obtain ⟨_, hvalid, vs, hvs, _, hlen, f', hr, rfl, rfl, rfl⟩ := h
  have hk : 0 < k := by
    rcases Nat.eq_zero_or_pos k with h0 | h0
    · subst h0; simp [sameSizes, cdiv] at hvs
    · exact h0
  have hcounts := dealt_counts_eq_sameSizes seq k hk
  rw [← hlen] at hvs
  rw [hvs] at hcounts
  cases hcounts
  have hall : ∀ a ∈ List.zip seq ((List.range seq.length).map (· % k)), a.2 < k := by
    intro a ha
    have := (List.of_mem_zip ha).2
    simp only [List.mem_map] at this
    obtain ⟨j, _, hj⟩ := this
    rw [← hj]; exact Nat.mod_lt _ hk
  rw [dealInto_eq_regroup set k _ bs hall] at hr
  exact ⟨hk, hvalid, hlen, hr, rfl, rfl⟩

/-- **createCVSameSizeBalanced**: for every admissible dealing order (every class-wise shuffle), the reorganised
dataset is well-formed and a permutation of the original pairs; dealing position j goes to fold j mod k
(so fold sizes and per-class counts are balanced: `dealing_fills_folds_exactly`, `dealing_class_balance`) -/
theorem createCVSameSizeBalanced_partition {ι : Type} (set : LabeledData ι Nat) (hw : C03.WF set) (k : Nat) (seq : List Nat)
    (bs : Nat) (f : CVFolds ι Nat) (first second : List Nat)
    (h : createCVSameSizeBalanced set k seq bs = .ok (f, first, second)) :
    C03.WF f.dataset ∧ (C03.pairs f.dataset).Perm (C03.pairs set) ∧
    first = seq ∧ second = (List.range seq.length).map (· % k) := by
  simp only [createCVSameSizeBalanced, bind_ok, require_ok, ofOpt_ok] at h
  obtain ⟨_, _, labs, hlabs, _, hvalid, hm⟩ := h
  obtain ⟨_, _, _, hr, rfl, rfl⟩ := balancedMembers_eq_regroup set k _ seq bs f first second hm
  obtain ⟨els, hpick, _, hrest⟩ := fold_elements_partition set k _ bs f hr
  have hfst : (List.zip first ((List.range first.length).map (· % k))).map (·.1) = first := by
    apply List.map_fst_zip; simp
  rw [hfst] at hpick
  -- the dealing order is a permutation of all positions
  have hlabs' := mapM_id_some _ _ hlabs
  rw [view_elements set hw] at hlabs'
  have hlen : labs.length = set.numberOfElements := by
    have := congrArg List.length hlabs'
    simp only [List.length_map] at this
    rw [← this, C03.flat_eq_pairs set hw, C03.pairs_length set hw]
  simp only [validSeq, Bool.and_eq_true, isPermOf, List.length_map] at hvalid
  have hperm : first.Perm (List.range set.numberOfElements) := by
    rw [← hlen]; exact List.isPerm_iff.mp hvalid.1
  have hpp := pick_perm set hw first els hperm hpick
  exact ⟨hrest.1, hrest.2.1 ▸ (hrest.2.2.trans hpp), rfl, rfl⟩

/-- **createCVBatch**: for every shuffle of the batch indices the dataset is untouched and the folds' validation
batch sets, concatenated, are the drawn permutation — pairwise disjoint and covering all batches -/
theorem createCVBatch_partition (set : LabeledData ι κ) (k : Nat) (perm : List Nat) (f : CVFolds ι κ)
    (h : createCVBatch set k perm = .ok f) :
    f.dataset = set ∧ f.validationFolds.flatten = perm ∧ perm.Perm (List.range set.numberOfBatches) ∧
    f.validationFolds.flatten.Nodup := by
  simp only [createCVBatch, bind_ok, require_ok, ofOpt_ok, pure_ok, isPermOf, CVFolds.ofSets, batchFoldsLoop_eq] at h
  obtain ⟨_, hperm, q, hq, r, hr, rfl⟩ := h
  have hp : perm.Perm (List.range set.numberOfBatches) := List.isPerm_iff.mp hperm
  simp only [cdiv] at hq
  split at hq
  · simp at hq
  · rename_i hk
    simp only [Option.some.injEq] at hq
    subst hq
    simp only [csub] at hr
    split at hr
    · rename_i hle
      simp only [Option.some.injEq] at hr
      subst hr
      have hsum : ((List.range k).map fun i => set.numberOfBatches / k +
          (if i < set.numberOfBatches - set.numberOfBatches / k * k then 1 else 0)).sum = perm.length := by
        have hmod : set.numberOfBatches - set.numberOfBatches / k * k = set.numberOfBatches % k := by
          have := Nat.div_add_mod set.numberOfBatches k; rw [Nat.mul_comm] at this; omega
        rw [hmod]
        have e : ((List.range k).map fun i => set.numberOfBatches / k + (if i < set.numberOfBatches % k then 1 else 0)) =
            ((List.range k).map fun j => if j < set.numberOfBatches % k then set.numberOfBatches / k + 1 else set.numberOfBatches / k) := by
          apply List.map_congr_left; intro i _; split <;> rfl
        rw [e, C03.sum_range_ite, Nat.min_eq_left (Nat.le_of_lt (Nat.mod_lt _ (Nat.pos_of_ne_zero hk)))]
        have := Nat.div_add_mod set.numberOfBatches k
        have hl := hp.length_eq
        simp only [List.length_range] at hl
        rw [hl, Nat.mul_comm]; omega
      refine ⟨rfl, splitBySizes_flatten _ _ hsum, hp, ?_⟩
      rw [splitBySizes_flatten _ _ hsum]
      exact (List.Perm.nodup_iff hp).mpr List.nodup_range
    · simp at hr

/-! ## non-vacuity -/
example : batchPartitioning [3, 5] [] [] 2 = some (5, [0, 2], [2, 1, 2, 2, 1]) := by decide
example : foldRanges [2, 3] 0 = [[0, 1], [2, 3, 4]] := by decide
example : sameSizes 7 3 = some [3, 2, 2] := by decide
example : Data.complement [1, 3] 5 = [0, 2, 4] := by decide
example : ∃ f, regroup (⟨⟨[[10, 11], [12]], [1]⟩, ⟨[[0, 1], [0]], []⟩⟩ : LabeledData Nat Nat) 2
    [(0, 1), (1, 0), (2, 1)] 2 = .ok f ∧ f.dataset.inputs.batches = [[11], [10, 12]] ∧ f.validationFolds = [[0], [1]] :=
  ⟨_, rfl, rfl, rfl⟩

end SharkVerif.C12
