/-
C12, continued — end to end from the input dataset to the element lists of `folds.validation(p)` / `folds.training(p)`,
for every fold-construction function, composed from: the regenerated batch arithmetic (total: `CVAny`), the
element-dealing loop (= `regroup`: `C12.regroupLoop_eq_regroup`), `CVFolds(set, foldStart)`, `detail::complement`
computed by sort + set_difference (`CVAny.complementSD_eq`) and `indexedSubset` (`CVEnd.folds_validation_training`).
-/
import SharkVerif.Props.C12
import SharkVerif.Lemmas.CVEnd
import SharkVerif.Lemmas.CVMembers
namespace SharkVerif.C12
open SharkVerif.CheckedNat SharkVerif.Gen.BatchArith SharkVerif.BatchArith SharkVerif.Dataset SharkVerif.CV SharkVerif.CVAny
open SharkVerif.CVEnd

variable {ι κ : Type}

theorem foldRanges_nodup (cs : List Nat) : ∀ acc, ∀ r ∈ foldRanges cs acc, r.Nodup := by
  induction cs with
  | nil => intro acc r hr; simp [foldRanges] at hr
  | cons c cs ih =>
    intro acc r hr
    simp only [foldRanges, List.mem_cons] at hr
    rcases hr with rfl | hr
    · exact foldRange_nodup c acc
    · exact ih _ r hr

theorem foldRanges_length (cs : List Nat) : ∀ acc, (foldRanges cs acc).length = cs.length := by
  induction cs with
  | nil => intro acc; rfl
  | cons c cs ih => intro acc; simp [foldRanges, ih]

/-- the folds of every `regroup`-based construction (createCVIndexed / FullyIndexed / IID / SameSizeBalanced): exactly
the requested number of folds — folds that receive no element included, as folds without batch —, each a
duplicate-free ascending range of batch numbers -/
theorem regroup_validationFolds (set : LabeledData ι κ) (k : Nat) (assign : List (Nat × Nat)) (bs : Nat) (f : CVFolds ι κ)
    (h : regroup set k assign bs = .ok f) :
    f.validationFolds = foldRanges (((List.range k).map fun q => (assign.filter (fun a => decide (a.2 = q))).length).map
      fun n => (obsAny bs n).length) 0 ∧ f.size = k ∧ (∀ v ∈ f.validationFolds, v.Nodup) ∧
    f.dataset.numberOfBatches = ((((List.range k).map fun q => (assign.filter (fun a => decide (a.2 = q))).length).map
      fun n => (obsAny bs n).length)).sum := by
  simp only [regroup, bind_ok, require_ok, ofOpt_ok, List.all_eq_true, decide_eq_true_eq] at h
  obtain ⟨_, hall, ⟨nb, starts', sizes⟩, hbp, els, hpick, hfolds⟩ := h
  obtain ⟨hspec, _⟩ := batchPartitioning_with_empty
    ((List.range k).map fun p => (assign.filter (fun a => a.2 = p)).length) bs
  have hbp' : batchPartitioning ((List.range k).map fun p => (assign.filter (fun a => decide (a.2 = p))).length) [] [] bs
      = some (nb, starts', sizes) := hbp
  rw [hspec] at hbp'
  simp only [Option.some.injEq, Prod.mk.injEq] at hbp'
  obtain ⟨_, hst, hsizes⟩ := hbp'
  simp only [CVFolds.ofStarts, bind_ok, ofOpt_ok, pure_ok] at hfolds
  obtain ⟨folds, hfs, rfl⟩ := hfolds
  rw [← hst] at hfs
  have hfr := foldsFromStarts_starts
    (((List.range k).map fun q => (assign.filter (fun a => decide (a.2 = q))).length).map fun n => (obsAny bs n).length) 0
  simp only [Nat.zero_add] at hfr
  have hfs' : CVFolds.foldsFromStarts _ _ = some folds := hfs
  simp only [LabeledData.numberOfBatches, Data.numberOfBatches, splitBySizes_length] at hfs'
  rw [← hsizes, List.length_flatMap, hfr] at hfs'
  simp only [Option.some.injEq] at hfs'
  subst hfs'
  refine ⟨rfl, ?_, fun v hv => foldRanges_nodup _ 0 v hv, ?_⟩
  · simp [CVFolds.size, foldRanges_length]
  · simp only [LabeledData.numberOfBatches, Data.numberOfBatches, splitBySizes_length]
    rw [← hsizes, List.length_flatMap]

/-- **end to end for the regroup-based constructions** (createCVIndexed, createCVFullyIndexed, createCVIID,
createCVSameSizeBalanced with class or any other labels): for every fold p < k — folds that received no element
included — `validation(p)` is exactly the elements assigned to p in processing order, each with the label it was
picked with; `training(p)` together with `validation(p)` is a permutation of the reorganised dataset (training =
complement of validation, nothing lost, nothing twice); both keep the element shapes of the *input* dataset -/
theorem regroup_end_to_end (set : LabeledData ι κ) (k : Nat) (assign : List (Nat × Nat)) (bs : Nat) (f : CVFolds ι κ)
    (h : regroup set k assign bs = .ok f) (p : Nat) (hp : p < k) (vd td : LabeledData ι κ)
    (hv : f.validation p = .ok vd) (ht : f.training p = .ok td) :
    ∃ els, pick set (assign.map (·.1)) = .ok els ∧
      C03.pairs vd = ((List.zip els (assign.map (·.2))).filter (·.2 = p)).map (·.1) ∧
      (C03.pairs vd ++ C03.pairs td).Perm (C03.pairs f.dataset) ∧ (C03.pairs f.dataset).Perm els ∧
      vd.inputs.shape = set.inputs.shape ∧ td.inputs.shape = set.inputs.shape ∧
      vd.labels.shape = set.labels.shape ∧ td.labels.shape = set.labels.shape := by
  obtain ⟨els, hpick, hpairs⟩ := indexed_puts_in_requested_fold set k assign bs f h p hp vd hv
  obtain ⟨els', hpick', _, hwf, hds, hperm⟩ := fold_elements_partition set k assign bs f h
  rw [hpick] at hpick'
  cases hpick'
  obtain ⟨_, _, hnd, _⟩ := regroup_validationFolds set k assign bs f h
  obtain ⟨v, hvi, _, _, _, _, s1, s2, s3, s4, hpm⟩ := folds_validation_training f hwf p vd td hv ht
  have hsh := shape_kept set k assign bs f h
  refine ⟨els, hpick, hpairs, hpm (hnd v (List.mem_of_getElem? hvi)), hds ▸ hperm, ?_, ?_, ?_, ?_⟩
  · rw [s1, hsh.1]
  · rw [s2, hsh.1]
  · rw [s3, hsh.2]
  · rw [s4, hsh.2]

/-- **createCVIndexed end to end** (hence createCVIID for whatever `random::discrete` draws): on a well-formed dataset,
for every fold count, index vector, maximum batch size (0 = unlimited) and fold p < k: `validation(p)` = the original
(input, label) pairs whose index is p, in original order; `validation(p)` and `training(p)` together are a permutation
of the original pairs -/
theorem createCVIndexed_end_to_end (set : LabeledData ι κ) (hw : C03.WF set) (k : Nat) (indices : List Nat) (bs : Nat)
    (f : CVFolds ι κ) (h : createCVIndexed set k indices bs = .ok f) (p : Nat) (hp : p < k) (vd td : LabeledData ι κ)
    (hv : f.validation p = .ok vd) (ht : f.training p = .ok td) :
    C03.pairs vd = ((List.zip (C03.pairs set) indices).filter (·.2 = p)).map (·.1) ∧
    (C03.pairs vd ++ C03.pairs td).Perm (C03.pairs set) ∧
    vd.inputs.shape = set.inputs.shape ∧ td.inputs.shape = set.inputs.shape := by
  have hpart := createCVIndexed_partition set hw k indices bs f h
  simp only [createCVIndexed, bind_ok, require_ok, decide_eq_true_eq] at h
  obtain ⟨_, hn, hr⟩ := h
  rw [regroupLoop_eq_regroup] at hr
  obtain ⟨els, hpick, hpairs, hpm, _, s1, s2, _, _⟩ := regroup_end_to_end set k _ bs f hr p hp vd td hv ht
  have hfst : (List.zip (List.range indices.length) indices).map (·.1) = List.range indices.length := by
    apply List.map_fst_zip; simp
  have hsnd : (List.zip (List.range indices.length) indices).map (·.2) = indices := by
    apply List.map_snd_zip; simp
  have hpl : (C03.pairs set).length = indices.length := by rw [C03.pairs_length set hw, hn]
  have hels : els = C03.pairs set := by
    have := pick_eq set hw _ els hpick
    rw [hfst, ← hpl] at this
    have h3 : (List.range (C03.pairs set).length).map (fun i => (C03.pairs set)[i]?) = (C03.pairs set).map some := by
      apply List.ext_getElem?
      intro j
      by_cases hj : j < (C03.pairs set).length
      · simp [hj]
      · simp [hj]
    rw [h3] at this
    have h4 := congrArg (List.filterMap id) this
    simpa [List.filterMap_map] using h4
  rw [hsnd, hels] at hpairs
  exact ⟨hpairs, hpm.trans hpart.2.2, s1, s2⟩

/-- **createCVBatch end to end**: for every shuffle of the batch numbers and every fold i, `validation(i)` holds the
batches dealt to fold i (in the dealt, unsorted order), `training(i)` all other batches in dataset order, and together
they are a permutation of the unchanged dataset -/
theorem createCVBatch_end_to_end (set : LabeledData ι κ) (hw : C03.WF set) (k : Nat) (perm : List Nat) (f : CVFolds ι κ)
    (h : createCVBatch set k perm = .ok f) (i : Nat) (vd td : LabeledData ι κ)
    (hv : f.validation i = .ok vd) (ht : f.training i = .ok td) :
    f.dataset = set ∧ ∃ v, f.validationFolds[i]? = some v ∧ v.Nodup ∧
      C03.pairs vd = v.flatMap (batchPairs set) ∧
      C03.pairs td = ((List.range set.numberOfBatches).filter (fun b => !v.contains b)).flatMap (batchPairs set) ∧
      (C03.pairs vd ++ C03.pairs td).Perm (C03.pairs set) := by
  obtain ⟨hds, _, _, hnd⟩ := createCVBatch_partition set k perm f h
  have hwf : C03.WF f.dataset := hds ▸ hw
  obtain ⟨v, hvi, h1, h2, _, _, _, _, _, _, hpm⟩ := folds_validation_training f hwf i vd td hv ht
  have hvn : v.Nodup := by
    exact (List.sublist_flatten_of_mem (List.mem_of_getElem? hvi)).nodup hnd
  rw [hds] at h1 h2 hpm
  exact ⟨hds, v, hvi, hvn, h1, h2, hpm hvn⟩

/-- **createCVSameSize end to end**: for every permutation the shuffle may draw and every fold p,
`validation(p)` ++ `training(p)` is a permutation of the original (input, label) pairs, and the validation index sets
are the consecutive batch ranges of the layout computed from the sizes ⌊n/k⌋(+1) -/
theorem createCVSameSize_end_to_end (set : LabeledData ι κ) (hw : C03.WF set) (hne : allPos set.inputs.partitioning)
    (k : Nat) (perm : List Nat) (bs : Nat) (hk : 0 < k) (f : CVFolds ι κ) (h : createCVSameSize set k perm bs = .ok f)
    (p : Nat) (vd td : LabeledData ι κ) (hv : f.validation p = .ok vd) (ht : f.training p = .ok td) :
    (C03.pairs vd ++ C03.pairs td).Perm (C03.pairs set) ∧ f.size = k ∧
    vd.inputs.shape = f.dataset.inputs.shape ∧ td.inputs.shape = f.dataset.inputs.shape := by
  obtain ⟨vs, hvs, hwf, hperm, _, hfolds⟩ := createCVSameSize_partition set hw hne k perm bs hk f h
  obtain ⟨v, hvi, _, _, _, _, s1, s2, _, _, hpm⟩ := folds_validation_training f hwf p vd td hv ht
  have hvn : v.Nodup := by
    have hm := List.mem_of_getElem? hvi
    rw [hfolds] at hm
    exact foldRanges_nodup _ 0 v hm
  obtain ⟨l, hl, hlen, _, _⟩ := samesize_balanced set.numberOfElements k hk
  rw [hvs] at hl
  cases hl
  refine ⟨(hpm hvn).trans hperm, ?_, s1, s2⟩
  simp [CVFolds.size, hfolds, foldRanges_length, hlen]

/-- **createCVSameSizeBalanced end to end**: for every admissible dealing order (every class-wise shuffle), fold count k,
maximum batch size (0 = unlimited) and any two folds p, q < k:
* the numbers of members of any class c in `validation(p)` and `validation(q)` differ by at most one — also for classes
  smaller than the fold count and for absent classes;
* `validation(p)` holds exactly ⌊n/k⌋ (+1 if p < n mod k) elements, so any two fold sizes differ by at most one. -/
theorem createCVSameSizeBalanced_end_to_end {ι : Type} (set : LabeledData ι Nat) (hw : C03.WF set) (k : Nat) (seq : List Nat)
    (bs : Nat) (f : CVFolds ι Nat) (first second : List Nat)
    (h : createCVSameSizeBalanced set k seq bs = .ok (f, first, second))
    (p q : Nat) (hp : p < k) (hq : q < k) (vp vq : LabeledData ι Nat)
    (hvp : f.validation p = .ok vp) (hvq : f.validation q = .ok vq) (c : Nat) :
    ((C03.pairs vp).filter (fun e => e.2 = c)).length ≤ ((C03.pairs vq).filter (fun e => e.2 = c)).length + 1 ∧
    (C03.pairs vp).length = set.numberOfElements / k + (if p < set.numberOfElements % k then 1 else 0) := by
  simp only [createCVSameSizeBalanced, bind_ok, require_ok, ofOpt_ok] at h
  obtain ⟨_, _, labs, hlabs, _, hvalid, hm⟩ := h
  obtain ⟨hk, _, hlen, hr, rfl, rfl⟩ := balancedMembers_eq_regroup set k _ seq bs f first second hm
  obtain ⟨els, hpick, hpp⟩ := indexed_puts_in_requested_fold set k _ bs f hr p hp vp hvp
  obtain ⟨els', hpick', hpq⟩ := indexed_puts_in_requested_fold set k _ bs f hr q hq vq hvq
  rw [hpick] at hpick'
  cases hpick'
  have hfst : (List.zip first ((List.range first.length).map (· % k))).map (·.1) = first := by
    apply List.map_fst_zip; simp
  have hsnd : (List.zip first ((List.range first.length).map (· % k))).map (·.2) = (List.range first.length).map (· % k) := by
    apply List.map_snd_zip; simp
  have hel := pick_length set _ els hpick
  rw [hfst] at hpick hel
  have hfolds : (List.range first.length).map (· % k) = (List.range els.length).map (fun j => (0 + j) % k) := by
    rw [hel]; simp
  rw [hsnd, hfolds] at hpp hpq
  -- the labels along the dealing order
  have hlabs' := mapM_id_some _ _ hlabs
  rw [view_elements set hw, C03.flat_eq_pairs set hw] at hlabs'
  have hlabs2 : labs = C03.pairs set := by
    have := congrArg (List.filterMap id) hlabs'
    simpa [List.filterMap_map] using this.symm
  have hls : els.map (·.2) = first.map (fun i => (labs.map (·.2))[i]?.getD 0) := by
    have he := pick_eq set hw first els hpick
    have := congrArg (List.map (fun o : Option (ι × Nat) => (o.map (·.2)).getD 0)) he
    simp only [List.map_map, Function.comp_def, Option.map_some, Option.getD_some] at this
    rw [this, hlabs2]
    apply List.map_congr_left
    intro i _
    simp [List.getElem?_map]
  refine ⟨?_, ?_⟩
  · rw [hpp, hpq, class_count_in_fold, class_count_in_fold, hls]
    exact balanced_class_balance (labs.map (·.2)) first hvalid k hk c p q hp hq
  · rw [hpp, List.length_map, count_in_fold, hel, hlen]
    have := (dealing_fills_folds_exactly set.numberOfElements k p hk hp).1
    simpa using this

/-- **createCVSameSize, the validation parts exactly**: for every permutation the shuffle may draw, `validation(p)` is
the p-th piece of the shuffled element sequence cut into the sizes ⌊n/k⌋(+1) — so the validation parts, in fold order,
concatenate to the shuffled dataset (pairwise disjoint, covering), fold p holds exactly ⌊n/k⌋ (+1 if p < n mod k)
elements, and any two fold sizes differ by at most one -/
theorem createCVSameSize_validation_exact (set : LabeledData ι κ) (hw : C03.WF set) (hne : allPos set.inputs.partitioning)
    (k : Nat) (perm : List Nat) (bs : Nat) (hk : 0 < k) (f : CVFolds ι κ) (h : createCVSameSize set k perm bs = .ok f)
    (p : Nat) (hp : p < k) (vd : LabeledData ι κ) (hv : f.validation p = .ok vd) :
    let vs := (List.range k).map fun i => set.numberOfElements / k + (if i < set.numberOfElements % k then 1 else 0)
    sameSizes set.numberOfElements k = some vs ∧
    C03.pairs vd = (splitBySizes (C03.pairs f.dataset) vs).getD p [] ∧
    (splitBySizes (C03.pairs f.dataset) vs).flatten = C03.pairs f.dataset ∧
    (C03.pairs vd).length = set.numberOfElements / k + (if p < set.numberOfElements % k then 1 else 0) := by
  intro vs
  have hss := (dealing_fills_folds_exactly set.numberOfElements k 0 hk hk).2
  obtain ⟨vs', hvs, hwf, hperm, hpart, hfolds⟩ := createCVSameSize_partition set hw hne k perm bs hk f h
  rw [hss] at hvs
  cases hvs
  obtain ⟨l, hl, _, hsum, _⟩ := samesize_balanced set.numberOfElements k hk
  rw [hss] at hl
  cases hl
  have hn : (C03.pairs f.dataset).length = set.numberOfElements := by
    rw [hperm.length_eq, C03.pairs_length set hw]
  -- the validation part read batch by batch
  simp only [CVFolds.validation, CVFolds.validationFoldIndices, bind_ok, ofOpt_ok] at hv
  obtain ⟨v, hvi, hvs⟩ := hv
  obtain ⟨_, hpv, _, _, _⟩ := subset_pairs _ _ _ hwf hvs
  let blocks := splitBySizes (C03.pairs f.dataset) vs
  have hbf : blocks.flatten = C03.pairs f.dataset := splitBySizes_flatten _ _ (by rw [hsum, hn])
  have hbl : blocks.map List.length = vs := splitBySizes_lengths _ _ (by rw [hsum, hn]; exact Nat.le_refl _)
  have e1 : (blocks.map fun blk => (obsAny bs blk.length).length) = vs.map fun n => (obsAny bs n).length := by
    rw [← hbl, List.map_map]; rfl
  have e2 : (blocks.flatMap fun blk => obsAny bs blk.length) = vs.flatMap (obsAny bs) := by
    rw [← hbl, List.flatMap_map]
  have hr : (foldRanges (blocks.map fun blk => (obsAny bs blk.length).length) 0)[p]? = some v := by
    rw [e1, ← hfolds]; exact hvi
  have hread := fold_batches_read bs blocks p v hr
  rw [e2, hbf] at hread
  have hpv' : C03.pairs vd = v.flatMap fun i => (splitBySizes (C03.pairs f.dataset) (vs.flatMap (obsAny bs))).getD i [] := by
    rw [hpv]
    apply flatMap_congr'
    intro i _
    rw [batchPairs_eq_split _ hwf, ← hpart]
  have hres : C03.pairs vd = blocks.getD p [] := hpv'.trans hread
  refine ⟨hss, hres, hbf, ?_⟩
  rw [hres]
  have hpl : p < blocks.length := by
    have := congrArg List.length hbl
    simp only [List.length_map, vs, List.length_range] at this
    omega
  have := congrArg (fun l : List Nat => l[p]?) hbl
  simp only [List.getElem?_map, List.getElem?_eq_getElem hpl, Option.map_some, vs, List.getElem?_range hp] at this
  simp only [List.getD_eq_getElem?_getD, List.getElem?_eq_getElem hpl, Option.getD_some]
  exact Option.some.inj this

/-! ## CVFolds operations after construction, for every way the object was built -/

/-- **`detail::complement` as the C++ computes it** (copy, `std::sort`, `std::set_difference` against 0..n-1) returns
exactly the numbers below n that are not in the index set, each once, ascending — for every index set: unsorted
(createCVBatch deals shuffled batch numbers), with repetitions, with members ≥ n -/
theorem complement_as_computed (set : List Nat) (n : Nat) :
    complementSD set n = Data.complement set n ∧ (∀ i, i ∈ complementSD set n ↔ (i < n ∧ i ∉ set)) ∧
    (complementSD set n).Pairwise (· < ·) := by
  rw [complementSD_eq]
  refine ⟨rfl, (complement_spec set n).1, ?_⟩
  exact (pairwise_lt_range n).sublist List.filter_sublist

/-- **`trainingFoldIndices(i)`** of any CVFolds object: the batch numbers of the dataset that are not in the i-th
validation index set, ascending, each once -/
theorem trainingFoldIndices_spec (f : CVFolds ι κ) (i : Nat) (t : List Nat) (h : f.trainingFoldIndices i = .ok t) :
    ∃ v, f.validationFolds[i]? = some v ∧ (∀ b, b ∈ t ↔ (b < f.dataset.numberOfBatches ∧ b ∉ v)) ∧
      t.Pairwise (· < ·) := by
  simp only [CVFolds.trainingFoldIndices, CVFolds.validationFoldIndices, bind_ok, ofOpt_ok, pure_ok] at h
  obtain ⟨v, hv, rfl⟩ := h
  exact ⟨v, hv, (complement_as_computed v _).2.1, (complement_as_computed v _).2.2⟩

/-- **`validation(i)` / `training(i)` of any CVFolds object** (built from fold starts, from explicit index sets in any
order, by createCVBatch, copied, asked repeatedly — the object is immutable): see `CVEnd.folds_validation_training` -/
theorem any_folds_validation_training (f : CVFolds ι κ) (hw : C03.WF f.dataset) (i : Nat) (vd td : LabeledData ι κ)
    (hv : f.validation i = .ok vd) (ht : f.training i = .ok td) :
    ∃ v, f.validationFolds[i]? = some v ∧
      C03.pairs vd = v.flatMap (batchPairs f.dataset) ∧
      C03.pairs td = ((List.range f.dataset.numberOfBatches).filter (fun b => !v.contains b)).flatMap (batchPairs f.dataset) ∧
      C03.WF vd ∧ C03.WF td ∧
      vd.inputs.shape = f.dataset.inputs.shape ∧ td.inputs.shape = f.dataset.inputs.shape ∧
      vd.labels.shape = f.dataset.labels.shape ∧ td.labels.shape = f.dataset.labels.shape ∧
      (v.Nodup → (C03.pairs vd ++ C03.pairs td).Perm (C03.pairs f.dataset)) :=
  folds_validation_training f hw i vd td hv ht

/-- **createCVIID end to end**: whatever `random::discrete` draws -/
theorem createCVIID_end_to_end (set : LabeledData ι κ) (hw : C03.WF set) (k : Nat) (drawn : List Nat) (bs : Nat)
    (f : CVFolds ι κ) (h : createCVIID set k drawn bs = .ok f) (p : Nat) (hp : p < k) (vd td : LabeledData ι κ)
    (hv : f.validation p = .ok vd) (ht : f.training p = .ok td) :
    C03.pairs vd = ((List.zip (C03.pairs set) drawn).filter (·.2 = p)).map (·.1) ∧
    (C03.pairs vd ++ C03.pairs td).Perm (C03.pairs set) ∧
    vd.inputs.shape = set.inputs.shape ∧ td.inputs.shape = set.inputs.shape := by
  simp only [createCVIID, bind_ok, require_ok] at h
  obtain ⟨_, _, h⟩ := h
  exact createCVIndexed_end_to_end set hw k drawn bs f h p hp vd td hv ht

/-- **createCVFullyIndexed end to end**: with an order vector that is a permutation of the positions, `validation(p)`
is the elements `set[order[j]]` for the processing steps j with `partition[j] = p`, in processing order, and
`validation(p)` ++ `training(p)` is a permutation of the original pairs -/
theorem createCVFullyIndexed_end_to_end (set : LabeledData ι κ) (hw : C03.WF set) (k : Nat) (order part : List Nat)
    (bs : Nat) (hperm : order.Perm (List.range set.numberOfElements)) (f : CVFolds ι κ)
    (h : createCVFullyIndexed set k order part bs = .ok f) (p : Nat) (hp : p < k) (vd td : LabeledData ι κ)
    (hv : f.validation p = .ok vd) (ht : f.training p = .ok td) :
    ∃ els, els.map some = order.map (fun i => (C03.pairs set)[i]?) ∧
      C03.pairs vd = ((List.zip els part).filter (·.2 = p)).map (·.1) ∧
      (C03.pairs vd ++ C03.pairs td).Perm (C03.pairs set) := by
  simp only [createCVFullyIndexed, bind_ok, require_ok, Bool.and_eq_true, decide_eq_true_eq] at h
  obtain ⟨_, ⟨ho, hpl⟩, hr⟩ := h
  rw [regroupLoop_eq_regroup] at hr
  obtain ⟨els, hpick, hpairs, hpm, hds, _⟩ := regroup_end_to_end set k _ bs f hr p hp vd td hv ht
  have hfst : (List.zip order part).map (·.1) = order := by apply List.map_fst_zip; omega
  have hsnd : (List.zip order part).map (·.2) = part := by apply List.map_snd_zip; omega
  rw [hfst] at hpick
  rw [hsnd] at hpairs
  exact ⟨els, pick_eq set hw order els hpick, hpairs, hpm.trans (hds.trans (pick_perm set hw order els hperm hpick))⟩

/-! ## the constructions and the accessors are defined (no undefined behaviour) on every admissible input -/

/-- **regroup-based constructions are total**: on a well-formed dataset, for every fold count k, every assignment of
existing positions to folds below k — folds that receive nothing included — and every maximum batch size (0 included),
the construction returns k folds and `validation(p)`, `training(p)` are defined for every p < k -/
theorem regroup_total (set : LabeledData ι κ) (hw : C03.WF set) (k : Nat) (assign : List (Nat × Nat)) (bs : Nat)
    (hall : ∀ a ∈ assign, a.2 < k) (hpos : ∀ a ∈ assign, a.1 < set.numberOfElements) :
    ∃ f, regroup set k assign bs = .ok f ∧ f.size = k ∧
      ∀ p, p < k → ∃ vd td, f.validation p = .ok vd ∧ f.training p = .ok td := by
  obtain ⟨els, hpick⟩ := pick_ok set hw (assign.map (·.1)) (by
    intro i hi
    simp only [List.mem_map] at hi
    obtain ⟨a, ha, rfl⟩ := hi
    exact hpos a ha)
  have hreq : (assign.all fun a => decide (a.2 < k)) = true := by
    simp only [List.all_eq_true, decide_eq_true_eq]; exact hall
  have hbp := (batchPartitioning_with_empty ((List.range k).map fun p => (assign.filter (fun a => a.2 = p)).length) bs).1
  have hex : ∃ f, regroup set k assign bs = .ok f := by
    unfold regroup
    simp only [hreq, require, hbp, ofOpt, hpick, bind, Except.bind]
    rw [ofStarts_eq_foldRanges]
    · exact ⟨_, rfl⟩
    · simp only [LabeledData.numberOfBatches, Data.numberOfBatches, splitBySizes_length, List.length_flatMap]
  obtain ⟨f, hf⟩ := hex
  obtain ⟨hfolds, hsize, _, hnb⟩ := regroup_validationFolds set k assign bs f hf
  obtain ⟨_, _, _, hwf, _, _⟩ := fold_elements_partition set k assign bs f hf
  refine ⟨f, hf, hsize, ?_⟩
  intro p hp
  have hpl : p < f.validationFolds.length := by
    have : f.validationFolds.length = k := hsize
    omega
  refine folds_access_ok f hwf p f.validationFolds[p] (List.getElem?_eq_getElem hpl) ?_
  intro b hb
  have hmem : b ∈ f.validationFolds.flatten := List.mem_flatten.mpr ⟨_, List.getElem_mem hpl, hb⟩
  rw [hfolds, (folds_disjoint_cover _).1, List.mem_range] at hmem
  rw [hnb]; exact hmem

/-- **createCVIndexed is total** (and with it createCVIID, whatever is drawn): any index vector with one fold number
below k per element — folds that receive no element, fold counts 1 and n, n smaller than the batch size, maximum batch
size 0 and 1 included -/
theorem createCVIndexed_total (set : LabeledData ι κ) (hw : C03.WF set) (k : Nat) (indices : List Nat) (bs : Nat)
    (hn : indices.length = set.numberOfElements) (hall : ∀ x ∈ indices, x < k) :
    ∃ f, createCVIndexed set k indices bs = .ok f ∧ f.size = k ∧
      ∀ p, p < k → ∃ vd td, f.validation p = .ok vd ∧ f.training p = .ok td := by
  obtain ⟨f, hf, hrest⟩ := regroup_total set hw k (List.zip (List.range indices.length) indices) bs
    (fun a ha => hall _ (List.of_mem_zip ha).2)
    (fun a ha => by have := (List.of_mem_zip ha).1; rw [← hn]; exact List.mem_range.mp this)
  refine ⟨f, ?_, hrest⟩
  rw [hn] at hf
  simp [createCVIndexed, hn, require, regroupLoop_eq_regroup, hf, bind, Except.bind]

/-- **createCVFullyIndexed is total** for order vectors over existing positions and fold numbers below k -/
theorem createCVFullyIndexed_total (set : LabeledData ι κ) (hw : C03.WF set) (k : Nat) (order part : List Nat) (bs : Nat)
    (ho : order.length = set.numberOfElements) (hpl : part.length = set.numberOfElements)
    (hord : ∀ x ∈ order, x < set.numberOfElements) (hall : ∀ x ∈ part, x < k) :
    ∃ f, createCVFullyIndexed set k order part bs = .ok f ∧ f.size = k ∧
      ∀ p, p < k → ∃ vd td, f.validation p = .ok vd ∧ f.training p = .ok td := by
  obtain ⟨f, hf, hrest⟩ := regroup_total set hw k (List.zip order part) bs
    (fun a ha => hall _ (List.of_mem_zip ha).2) (fun a ha => hord _ (List.of_mem_zip ha).1)
  refine ⟨f, ?_, hrest⟩
  simp [createCVFullyIndexed, ho, hpl, require, regroupLoop_eq_regroup, hf, bind, Except.bind]

theorem nonEmpty_of_allPos {ε : Type} (d : Data ε) (h : allPos d.partitioning) : d.nonEmptyBatches = true := by
  simp only [Data.nonEmptyBatches, List.all_eq_true]
  intro b hb
  have := h b.length (by simp only [Data.partitioning, List.mem_map]; exact ⟨b, hb, rfl⟩)
  cases b with
  | nil => simp at this
  | cons x xs => simp

/-- **createCVSameSize is total**: on a well-formed dataset with non-empty batches, for every fold count k ≥ 1 (also
k > n: the surplus folds are empty), every maximum batch size (0 included) and every permutation the shuffle may draw,
the call returns k folds whose `validation(p)` / `training(p)` are defined -/
theorem createCVSameSize_total (set : LabeledData ι κ) (hw : C03.WF set) (hne : allPos set.inputs.partitioning)
    (k : Nat) (hk : 0 < k) (bs : Nat) (perm : List Nat) (hperm : perm.Perm (List.range set.numberOfElements)) :
    ∃ f, createCVSameSize set k perm bs = .ok f ∧ f.size = k ∧
      ∀ p, p < k → ∃ vd td, f.validation p = .ok vd ∧ f.training p = .ok td := by
  have hss := (dealing_fills_folds_exactly set.numberOfElements k 0 hk hk).2
  obtain ⟨l, hl, _, hsum, _⟩ := samesize_balanced set.numberOfElements k hk
  rw [hss] at hl
  cases hl
  generalize hvs : ((List.range k).map fun i => set.numberOfElements / k + (if i < set.numberOfElements % k then 1 else 0)) = vs at hss hsum
  have hbp := (batchPartitioning_with_empty vs bs).1
  have hsz : (vs.flatMap (obsAny bs)).sum = set.numberOfElements := by
    rw [sum_flatMap]
    have : (vs.map fun x => (obsAny bs x).sum) = vs := by
      conv => rhs; rw [← List.map_id vs]
      apply List.map_congr_left
      intro p _
      exact obsAny_sum bs p
    rw [this, hsum]
  have hpos : ∀ s ∈ vs.flatMap (obsAny bs), 0 < s := by
    intro s hs
    obtain ⟨p, _, hp⟩ := List.mem_flatMap.mp hs
    exact obsAny_pos bs p s hp
  -- repartition
  have hneL : allPos set.labels.partitioning := by
    have hw' : set.inputs.partitioning = set.labels.partitioning := hw
    rw [← hw']; exact hne
  have hnL : set.labels.numberOfElements = set.inputs.numberOfElements := by
    have hw' : set.inputs.partitioning = set.labels.partitioning := hw
    simp only [Data.numberOfElements, hw']
  obtain ⟨i1, hi1⟩ := data_repartition_ok set.inputs _ hsz (nonEmpty_of_allPos _ hne) hpos
  obtain ⟨l1, hl1⟩ := data_repartition_ok set.labels _ (hsz.trans hnL.symm) (nonEmpty_of_allPos _ hneL) hpos
  have hrep : set.repartition (vs.flatMap (obsAny bs)) = .ok ⟨i1, l1⟩ := by
    simp only [LabeledData.repartition, hi1, hl1, bind, Except.bind, pure, Except.pure]
  obtain ⟨hi1f, hi1p, _⟩ := C03.repartition_flat _ _ _ hi1
  obtain ⟨hl1f, hl1p, _⟩ := C03.repartition_flat _ _ _ hl1
  have hn1 : i1.numberOfElements = set.numberOfElements := by
    simp only [Data.numberOfElements, hi1p]; exact hsz
  have hn1L : l1.numberOfElements = set.numberOfElements := by
    simp only [Data.numberOfElements, hl1p]; exact hsz
  -- shuffle
  obtain ⟨i2, hi2⟩ := data_reorderElements_ok i1 perm (by rw [hi1p]; exact hpos) (by rw [hn1]; exact hperm)
  obtain ⟨l2, hl2⟩ := data_reorderElements_ok l1 perm (by rw [hl1p]; exact hpos) (by rw [hn1L]; exact hperm)
  have hreo : (⟨i1, l1⟩ : LabeledData ι κ).reorderElements perm = .ok ⟨i2, l2⟩ := by
    simp only [LabeledData.reorderElements, hi2, hl2, bind, Except.bind, pure, Except.pure]
  have hip : isPermOf perm (⟨i1, l1⟩ : LabeledData ι κ).numberOfElements = true := by
    show isPermOf perm i1.numberOfElements = true
    rw [hn1]; exact List.isPerm_iff.mpr hperm
  obtain ⟨_, hi2p, _⟩ := C03.reorderElements_flat _ _ _ (by rw [hi1p]; exact hpos) hi2
  have hnb : (⟨i2, l2⟩ : LabeledData ι κ).numberOfBatches = (vs.map fun p => (obsAny bs p).length).sum := by
    have : (⟨i2, l2⟩ : LabeledData ι κ).numberOfBatches = i2.partitioning.length := by
      simp [LabeledData.numberOfBatches, Data.numberOfBatches, Data.partitioning]
    rw [this, hi2p, hi1p, List.length_flatMap]
  have hf : createCVSameSize set k perm bs = .ok ⟨⟨i2, l2⟩, foldRanges (vs.map fun p => (obsAny bs p).length) 0⟩ := by
    simp only [createCVSameSize, hss, hbp, ofOpt, hrep, hip, require, hreo, bind, Except.bind, if_true]
    exact ofStarts_eq_foldRanges _ _ hnb
  obtain ⟨vs', hvs', hwf, _, _, hfolds⟩ := createCVSameSize_partition set hw hne k perm bs hk _ hf
  have hsize : (foldRanges (vs.map fun p => (obsAny bs p).length) 0).length = k := by
    rw [foldRanges_length, List.length_map, ← hvs]; simp
  refine ⟨_, hf, hsize, ?_⟩
  intro p hp
  have hpl : p < (foldRanges (vs.map fun p => (obsAny bs p).length) 0).length := by omega
  refine folds_access_ok _ hwf p _ (List.getElem?_eq_getElem hpl) ?_
  intro b hb
  have hmem : b ∈ (foldRanges (vs.map fun p => (obsAny bs p).length) 0).flatten :=
    List.mem_flatten.mpr ⟨_, List.getElem_mem hpl, hb⟩
  rw [(folds_disjoint_cover _).1, List.mem_range] at hmem
  show b < (⟨i2, l2⟩ : LabeledData ι κ).numberOfBatches
  rw [hnb]; exact hmem

/-- **createCVBatch is total** for every shuffle of the batch numbers and every fold count k ≥ 1 (more folds than
batches included: the surplus folds own no batch) -/
theorem createCVBatch_total (set : LabeledData ι κ) (hw : C03.WF set) (k : Nat) (hk : 0 < k) (perm : List Nat)
    (hperm : perm.Perm (List.range set.numberOfBatches)) :
    ∃ f, createCVBatch set k perm = .ok f ∧ f.size = k ∧
      ∀ p, p < k → ∃ vd td, f.validation p = .ok vd ∧ f.training p = .ok td := by
  have hip : isPermOf perm set.numberOfBatches = true := List.isPerm_iff.mpr hperm
  have hmul : set.numberOfBatches / k * k ≤ set.numberOfBatches := Nat.div_mul_le_self _ k
  have hf : createCVBatch set k perm = .ok (CVFolds.ofSets set
      (batchFoldsLoop k (set.numberOfBatches / k) (set.numberOfBatches - set.numberOfBatches / k * k) perm)) := by
    simp [createCVBatch, hip, require, cdiv, Nat.ne_of_gt hk, csub, hmul, ofOpt, bind, Except.bind, pure, Except.pure]
  refine ⟨_, hf, ?_, ?_⟩
  · simp [CVFolds.size, CVFolds.ofSets, batchFoldsLoop_eq, splitBySizes_length]
  · intro p hp
    obtain ⟨_, hflat, _, _⟩ := createCVBatch_partition set k perm _ hf
    have hpl : p < (CVFolds.ofSets set (batchFoldsLoop k (set.numberOfBatches / k)
        (set.numberOfBatches - set.numberOfBatches / k * k) perm)).validationFolds.length := by
      simp [CVFolds.ofSets, batchFoldsLoop_eq, splitBySizes_length]; exact hp
    refine folds_access_ok _ hw p _ (List.getElem?_eq_getElem hpl) ?_
    intro b hb
    have hmem : b ∈ perm := by
      rw [← hflat]; exact List.mem_flatten.mpr ⟨_, List.getElem_mem hpl, hb⟩
    exact List.mem_range.mp (hperm.mem_iff.mp hmem)

/-! ## the dealing order of createCVSameSizeBalanced, nested cross-validation -/

/-- **every outcome of the class-wise shuffles is an admissible dealing order**: `createCVSameSizeBalanced` builds
`members[c]` = the positions with label c (`classMembers`), shuffles every `members[c]` and deals class after class
(`validMembersSeq`).  With `numberOfClasses` = largest label + 1, every such order lists every position exactly once
and is sorted by class (`validSeq`) — the hypothesis of `balanced_class_balance` / `createCVSameSizeBalanced_end_to_end`
is therefore not an assumption about the RNG but a consequence of the loop structure -/
theorem balanced_dealing_order_class_sorted (labels : List Nat) (seq : List Nat)
    (h : validMembersSeq (classMembers labels (labels.foldl max 0 + 1)) seq = true) : validSeq labels seq = true :=
  CVMembers.members_seq_valid labels _ (fun l hl => by
    have := (foldl_max_ge labels 0).1 l hl
    omega) seq h

/-- **nested cross-validation** (folds of a training part, `dataset_subsets` tutorial): let `td = folds.training(i)` of
any CVFolds object over a well-formed dataset whose i-th index set has no repetition, and build inner folds of `td`
with createCVIndexed (any fold count, index vector, batch size).  Then inner `validation(p')` is exactly the elements
of the outer training part with inner index p', and outer validation, inner validation and inner training together
are a permutation of the outer dataset: every element exactly once with its label. -/
theorem nested_createCVIndexed (f : CVFolds ι κ) (hw : C03.WF f.dataset) (i : Nat) (vd td : LabeledData ι κ)
    (hv : f.validation i = .ok vd) (ht : f.training i = .ok td)
    (hnd : ∀ v, f.validationFolds[i]? = some v → v.Nodup)
    (k' : Nat) (indices : List Nat) (bs : Nat) (g : CVFolds ι κ) (h : createCVIndexed td k' indices bs = .ok g)
    (p' : Nat) (hp' : p' < k') (vd' td' : LabeledData ι κ) (hv' : g.validation p' = .ok vd') (ht' : g.training p' = .ok td') :
    C03.pairs vd' = ((List.zip (C03.pairs td) indices).filter (·.2 = p')).map (·.1) ∧
    (C03.pairs vd ++ (C03.pairs vd' ++ C03.pairs td')).Perm (C03.pairs f.dataset) ∧
    vd'.inputs.shape = f.dataset.inputs.shape ∧ td'.inputs.shape = f.dataset.inputs.shape := by
  obtain ⟨v, hvi, _, _, _, hwt, _, s2, _, _, hpm⟩ := folds_validation_training f hw i vd td hv ht
  obtain ⟨h1, h2, s3, s4⟩ := createCVIndexed_end_to_end td hwt k' indices bs g h p' hp' vd' td' hv' ht'
  refine ⟨h1, ?_, by rw [s3, s2], by rw [s4, s2]⟩
  exact ((List.Perm.refl _).append h2).trans (hpm (hnd v hvi))

theorem mapM_id_map_some {γ : Type} : ∀ (l : List γ), (l.map some).mapM id = some l := by
  intro l
  induction l with
  | nil => rfl
  | cons a l ih => simp [List.mapM_cons, ih]

/-- **detail::createCVSameSizeBalanced (membership vector) is total**: for every dealing order that covers the n
positions (concatenation of permutations of the member lists), fold count k ≥ 1 and maximum batch size -/
theorem createCVSameSizeBalancedMembers_total (set : LabeledData ι κ) (hw : C03.WF set) (k : Nat) (hk : 0 < k)
    (members : List (List Nat)) (seq : List Nat) (bs : Nat) (hv : validMembersSeq members seq = true)
    (hperm : seq.Perm (List.range set.numberOfElements)) :
    ∃ f, createCVSameSizeBalancedMembers set k members seq bs = .ok (f, seq, (List.range seq.length).map (· % k)) ∧
      f.size = k ∧ ∀ p, p < k → ∃ vd td, f.validation p = .ok vd ∧ f.training p = .ok td := by
  have hlen : seq.length = set.numberOfElements := by simpa using hperm.length_eq
  have hall : ∀ a ∈ List.zip seq ((List.range seq.length).map (· % k)), a.2 < k := by
    intro a ha
    have := (List.of_mem_zip ha).2
    simp only [List.mem_map] at this
    obtain ⟨j, _, hj⟩ := this
    rw [← hj]; exact Nat.mod_lt _ hk
  obtain ⟨f, hf, hrest⟩ := regroup_total set hw k (List.zip seq ((List.range seq.length).map (· % k))) bs hall
    (fun a ha => List.mem_range.mp (hperm.mem_iff.mp (List.of_mem_zip ha).1))
  have hcounts := dealt_counts_eq_sameSizes seq k hk
  rw [hlen] at hcounts
  refine ⟨f, ?_, hrest⟩
  simp only [createCVSameSizeBalancedMembers, hv, require, hcounts, ofOpt, hlen, decide_true, if_true, bind, Except.bind,
    pure, Except.pure]
  rw [← hlen, dealInto_eq_regroup set k _ bs hall, hf]

/-- **createCVSameSizeBalanced is total**: well-formed dataset with non-empty batches, any class labels (absent
classes, classes smaller than the fold count, a single class), fold count k ≥ 1, any maximum batch size, every outcome
of the class-wise shuffles -/
theorem createCVSameSizeBalanced_total {ι : Type} (set : LabeledData ι Nat) (hw : C03.WF set)
    (hne : set.labels.nonEmptyBatches = true) (k : Nat) (hk : 0 < k) (seq : List Nat) (bs : Nat)
    (hv : validMembersSeq (classMembers set.labels.flat (set.labels.flat.foldl max 0 + 1)) seq = true) :
    ∃ f, createCVSameSizeBalanced set k seq bs = .ok (f, seq, (List.range seq.length).map (· % k)) ∧
      f.size = k ∧ ∀ p, p < k → ∃ vd td, f.validation p = .ok vd ∧ f.training p = .ok td := by
  have hvalid := balanced_dealing_order_class_sorted set.labels.flat seq hv
  have hlabs : (View.ofDataset set).elements.mapM id = some (C03.pairs set) := by
    rw [view_elements set hw, C03.flat_eq_pairs set hw]; exact mapM_id_map_some _
  have hsnd : (C03.pairs set).map (·.2) = set.labels.flat := by
    simp only [C03.pairs]
    apply List.map_snd_zip
    exact Nat.le_of_eq (C03.WF_flat_length set hw).symm
  have hperm : seq.Perm (List.range set.numberOfElements) := by
    simp only [validSeq, Bool.and_eq_true, isPermOf] at hvalid
    have := List.isPerm_iff.mp hvalid.1
    rwa [← hsnd, List.length_map, C03.pairs_length set hw] at this
  obtain ⟨f, hf, hrest⟩ := createCVSameSizeBalancedMembers_total set hw k hk _ seq bs hv hperm
  refine ⟨f, ?_, hrest⟩
  simp only [createCVSameSizeBalanced, numberOfClasses, hne, require, hlabs, ofOpt, hsnd, hvalid, if_true, bind,
    Except.bind, pure, Except.pure]
  exact hf

/-! ## shapes of createCVSameSize, batch counts of createCVBatch, recreation indices of createCVSameSizeBalanced -/

/-- **createCVSameSize keeps the element shapes** (repartition and shuffle do) -/
theorem createCVSameSize_shape_kept (set : LabeledData ι κ) (k : Nat) (perm : List Nat) (bs : Nat) (f : CVFolds ι κ)
    (h : createCVSameSize set k perm bs = .ok f) :
    f.dataset.inputs.shape = set.inputs.shape ∧ f.dataset.labels.shape = set.labels.shape := by
  simp only [createCVSameSize, bind_ok, ofOpt_ok, require_ok] at h
  obtain ⟨vs, _, ⟨nb, st, sizes⟩, _, set1, hrep, _, _, set2, hreo, hfolds⟩ := h
  simp only [CVFolds.ofStarts, bind_ok, ofOpt_ok, pure_ok] at hfolds
  obtain ⟨_, _, rfl⟩ := hfolds
  simp only [LabeledData.repartition, bind_ok, pure_ok] at hrep
  obtain ⟨i1, hi1, l1, hl1, rfl⟩ := hrep
  simp only [LabeledData.reorderElements, bind_ok, pure_ok] at hreo
  obtain ⟨i2, hi2, l2, hl2, rfl⟩ := hreo
  simp only [Data.repartition, bind_ok, require_ok, pure_ok] at hi1 hl1
  obtain ⟨_, _, _, _, rfl⟩ := hi1
  obtain ⟨_, _, _, _, rfl⟩ := hl1
  simp only [Data.reorderElements, bind_ok, require_ok, pure_ok] at hi2 hl2
  obtain ⟨_, _, _, _, rfl⟩ := hi2
  obtain ⟨_, _, _, _, rfl⟩ := hl2
  exact ⟨rfl, rfl⟩

/-- **createCVBatch: the folds own ⌊nb/k⌋ (+1 for the first nb mod k folds) batches each**, so any two folds differ by
at most one batch -/
theorem createCVBatch_fold_batch_counts (set : LabeledData ι κ) (k : Nat) (perm : List Nat) (f : CVFolds ι κ)
    (h : createCVBatch set k perm = .ok f) :
    f.validationFolds.map List.length =
      (List.range k).map fun i => set.numberOfBatches / k + (if i < set.numberOfBatches % k then 1 else 0) := by
  simp only [createCVBatch, bind_ok, require_ok, ofOpt_ok, pure_ok, isPermOf, CVFolds.ofSets, batchFoldsLoop_eq] at h
  obtain ⟨_, hperm, q, hq, r, hr, rfl⟩ := h
  have hp : perm.Perm (List.range set.numberOfBatches) := List.isPerm_iff.mp hperm
  simp only [cdiv] at hq
  split at hq
  · simp at hq
  · rename_i hk
    simp only [Option.some.injEq] at hq
    subst hq
    simp only [csub] at hr
    split at hr
    · simp only [Option.some.injEq] at hr
      subst hr
      have hmod : set.numberOfBatches - set.numberOfBatches / k * k = set.numberOfBatches % k := by
        have := Nat.div_add_mod set.numberOfBatches k; rw [Nat.mul_comm] at this; omega
      rw [hmod]
      apply splitBySizes_lengths
      obtain ⟨l, hl, _, hsum, _⟩ := samesize_balanced set.numberOfBatches k (Nat.pos_of_ne_zero hk)
      rw [(dealing_fills_folds_exactly set.numberOfBatches k 0 (Nat.pos_of_ne_zero hk) (Nat.pos_of_ne_zero hk)).2] at hl
      cases hl
      rw [hsum]
      have := hp.length_eq
      simp only [List.length_range] at this
      omega
    · simp at hr

/-- **createCVSameSizeBalanced: the folds and the recreation indices** — for every admissible dealing order,
`validation(p)` is exactly the elements at the positions `first[j]` with `second[j] = p` (so createCVFullyIndexed with
(first, second) recreates the folds), `validation(p)` ++ `training(p)` is a permutation of the original pairs, and the
element shapes are kept -/
theorem createCVSameSizeBalanced_folds {ι : Type} (set : LabeledData ι Nat) (hw : C03.WF set) (k : Nat) (seq : List Nat)
    (bs : Nat) (f : CVFolds ι Nat) (first second : List Nat)
    (h : createCVSameSizeBalanced set k seq bs = .ok (f, first, second))
    (p : Nat) (hp : p < k) (vd td : LabeledData ι Nat) (hv : f.validation p = .ok vd) (ht : f.training p = .ok td) :
    ∃ els, els.map some = first.map (fun i => (C03.pairs set)[i]?) ∧
      C03.pairs vd = ((List.zip els second).filter (·.2 = p)).map (·.1) ∧
      (C03.pairs vd ++ C03.pairs td).Perm (C03.pairs set) ∧
      vd.inputs.shape = set.inputs.shape ∧ td.inputs.shape = set.inputs.shape := by
  obtain ⟨_, hperm', _, _⟩ := createCVSameSizeBalanced_partition set hw k seq bs f first second h
  simp only [createCVSameSizeBalanced, bind_ok, require_ok, ofOpt_ok] at h
  obtain ⟨_, _, labs, hlabs, _, hvalid, hm⟩ := h
  obtain ⟨_, _, _, hr, rfl, rfl⟩ := balancedMembers_eq_regroup set k _ seq bs f first second hm
  obtain ⟨els, hpick, hpairs, hpm, hds, s1, s2, _, _⟩ := regroup_end_to_end set k _ bs f hr p hp vd td hv ht
  have hfst : (List.zip first ((List.range first.length).map (· % k))).map (·.1) = first := by
    apply List.map_fst_zip; simp
  have hsnd : (List.zip first ((List.range first.length).map (· % k))).map (·.2) = (List.range first.length).map (· % k) := by
    apply List.map_snd_zip; simp
  rw [hfst] at hpick
  rw [hsnd] at hpairs
  exact ⟨els, pick_eq set hw first els hpick, hpairs, hpm.trans hperm', s1, s2⟩

/-- **class balance of detail::createCVSameSizeBalanced with a membership vector** (any label type — the regression-label
path): for every outcome of the shuffles, the members of class c are dealt at the window of dealing positions
[a, a+m) (a = members of earlier classes, m = `members[c].length`; the piece of the dealing order there is a permutation
of `members[c]`), dealing position j goes to fold j mod k, hence any two folds p, q < k receive numbers of members of c
that differ by at most one -/
theorem balancedMembers_class_balance (members : List (List Nat)) (seq : List Nat)
    (h : validMembersSeq members seq = true) (c : Nat) (mc : List Nat) (hc : members[c]? = some mc)
    (k p q : Nat) (hk : 0 < k) (hp : p < k) (hq : q < k) :
    let a := ((members.take c).map List.length).sum
    ((seq.drop a).take mc.length).Perm mc ∧
    ((List.range mc.length).filter fun j => (a + j) % k = p).length ≤
      ((List.range mc.length).filter fun j => (a + j) % k = q).length + 1 :=
  ⟨CVMembers.members_window members seq h c mc hc, dealing_class_balance k _ mc.length p q hk hp hq⟩

/-! ## gathering (`subBatch`) at batch completion = gathering first -/

theorem mapM_pick_spec (set : LabeledData ι κ) (hw : C03.WF set) : ∀ (chunks : List (List Nat)) (R : List (List (ι × κ))),
    chunks.mapM (pick set) = .ok R →
    R.map (·.map some) = chunks.map (·.map (fun i => (C03.pairs set)[i]?)) := by
  intro chunks
  induction chunks with
  | nil => intro R h; simp [List.mapM_nil, pure, Except.pure] at h; subst h; rfl
  | cons c cs ih =>
    intro R h
    simp only [List.mapM_cons, bind_ok, pure_ok] at h
    obtain ⟨b, hb, bs, hbs, rfl⟩ := h
    simp [pick_eq set hw c b hb, ih bs hbs]

theorem map_some_injective {γ : Type} (a b : List γ) (h : a.map some = b.map some) : a = b := by
  have := congrArg (List.filterMap id) h
  simpa [List.filterMap_map] using this

/-- **gathering batch by batch = cutting the gathered sequence**: the C++ calls `subBatch(setView, batchElements[fold])`
when a batch is complete, the model gathers all processing positions first and runs the dealing loop on the gathered
elements.  On a well-formed dataset and existing positions both give the same batches: gathering the pieces of any cut
of the position sequence yields the pieces of the gathered sequence. -/
theorem pick_chunks (set : LabeledData ι κ) (hw : C03.WF set) (pos : List Nat) (sizes : List Nat)
    (hpos : ∀ i ∈ pos, i < set.numberOfElements) (hsum : sizes.sum = pos.length) :
    ∃ els, pick set pos = .ok els ∧ (splitBySizes pos sizes).mapM (pick set) = .ok (splitBySizes els sizes) := by
  obtain ⟨els, hels⟩ := pick_ok set hw pos hpos
  refine ⟨els, hels, ?_⟩
  have he := pick_eq set hw pos els hels
  -- every piece can be gathered
  obtain ⟨R, hR⟩ := mapM_R_ok (pick set) (splitBySizes pos sizes) (by
    intro chunk hc
    apply pick_ok set hw chunk
    intro i hi
    apply hpos
    rw [← splitBySizes_flatten sizes pos hsum]
    exact List.mem_flatten.mpr ⟨chunk, hc, hi⟩)
  rw [hR]
  congr 1
  have h1 := mapM_pick_spec set hw _ _ hR
  rw [splitBySizes_map, ← he, ← splitBySizes_map] at h1
  -- `map (map some)` is injective
  have inj : ∀ (X Y : List (List (ι × κ))), X.map (·.map some) = Y.map (·.map some) → X = Y := by
    intro X
    induction X with
    | nil => intro Y h; cases Y with
      | nil => rfl
      | cons y Y => simp at h
    | cons x X ih =>
      intro Y h
      cases Y with
      | nil => simp at h
      | cons y Y =>
        simp only [List.map_cons, List.cons.injEq] at h
        rw [map_some_injective x y h.1, ih Y h.2]
  exact inj _ _ h1

theorem group_map {γ δ : Type} (g : γ → δ) (els : List γ) (tags : List Nat) (p : Nat) :
    ((List.zip (els.map g) tags).filter (fun x => x.2 = p)).map (·.1) =
      (((List.zip els tags).filter (fun x => x.2 = p)).map (·.1)).map g := by
  induction els generalizing tags with
  | nil => simp
  | cons e es ih =>
    cases tags with
    | nil => simp
    | cons t ts =>
      simp only [List.map_cons, List.zip_cons_cons, List.filter_cons]
      by_cases h : t = p <;> simp [h, ih]

/-- **dealing positions and gathering every completed batch = the model's dealing of gathered elements**: on a
well-formed dataset, for existing positions and fold numbers below k, run the dealing loop on the *positions* (as the
C++ does: `batchElements` holds positions) and gather each batch of `newSet` with `subBatch` — the batches are exactly
those the model computes by gathering first (`dealLoop_regroup`), i.e. `regroup`'s -/
theorem deal_positions_then_gather (set : LabeledData ι κ) (hw : C03.WF set) (k : Nat) (assign : List (Nat × Nat)) (bs : Nat)
    (hall : ∀ a ∈ assign, a.2 < k) (hpos : ∀ a ∈ assign, a.1 < set.numberOfElements) :
    let counts := (List.range k).map fun p => (assign.filter (fun a => a.2 = p)).length
    ∃ els posBatches, pick set (assign.map (·.1)) = .ok els ∧
      dealLoop assign k (counts.map fun p => (obsAny bs p).length).sum (starts (counts.map fun p => (obsAny bs p).length) 0)
        (counts.flatMap (obsAny bs)) = some posBatches ∧
      posBatches.mapM (pick set) = .ok (splitBySizes
        ((List.range k).flatMap fun p => ((List.zip els (assign.map (·.2))).filter (·.2 = p)).map (·.1))
        (counts.flatMap (obsAny bs))) := by
  intro counts
  obtain ⟨els, hels⟩ := pick_ok set hw (assign.map (·.1)) (by
    intro i hi
    simp only [List.mem_map] at hi
    obtain ⟨a, ha, rfl⟩ := hi
    exact hpos a ha)
  have he := pick_eq set hw _ els hels
  -- the loop on the positions
  have hd := dealLoop_regroup (assign.map (·.1)) k assign bs hall (by simp)
  simp only at hd
  have hz : List.zip (assign.map (·.1)) (assign.map (·.2)) = assign := zip_map_fst_snd assign
  rw [hz] at hd
  let orderedPos := (List.range k).flatMap fun p => (assign.filter (fun x => x.2 = p)).map (·.1)
  have hlen : (counts.flatMap (obsAny bs)).sum = orderedPos.length := by
    have h1 : (counts.flatMap (obsAny bs)).sum = assign.length := by
      rw [sum_flatMap]
      have : (counts.map fun x => (obsAny bs x).sum) = counts := by
        conv => rhs; rw [← List.map_id counts]
        apply List.map_congr_left
        intro p _
        exact obsAny_sum bs p
      rw [this]
      exact sum_group_lengths (fun a : Nat × Nat => a.2) k assign hall
    have h2 : orderedPos.length = assign.length := by
      have := (perm_flatMap_filter (fun a : Nat × Nat => a.2) k assign hall).map (·.1)
      have hl := this.length_eq
      simpa [orderedPos, List.map_flatMap] using hl
    omega
  obtain ⟨els', hels', hchunks⟩ := pick_chunks set hw orderedPos (counts.flatMap (obsAny bs)) (by
    intro i hi
    simp only [orderedPos, List.mem_flatMap, List.mem_map, List.mem_filter] at hi
    obtain ⟨_, _, a, ⟨ha, _⟩, rfl⟩ := hi
    exact hpos a ha) hlen
  refine ⟨els, _, hels, hd, ?_⟩
  rw [hchunks]
  congr 2
  -- gathering the grouped positions = grouping the gathered elements
  apply map_some_injective
  rw [pick_eq set hw orderedPos els' hels']
  simp only [orderedPos, List.map_flatMap]
  apply flatMap_congr'
  intro p _
  rw [← group_map, he, group_map]
  congr 1
  rw [hz]

/-! ## non-vacuity -/
example : complementSD [3, 1, 3] 5 = [0, 2, 4] := by rw [complementSD_eq]; decide
/-- witness that the sort in `detail::complement` is needed: the single merge pass over the unsorted index set
(seeded change C12-complement-single-merge-pass-unsorted) keeps batch 0 in the training part of the fold {2, 0} -/
def mergePass : List Nat → List Nat → List Nat
  | [], _ => []
  | i :: is, [] => i :: mergePass is []
  | i :: is, p :: ps => if p = i then mergePass is ps else i :: mergePass is (p :: ps)
example : mergePass (List.range 3) [2, 0] = [0, 1] ∧ Data.complement [2, 0] 3 = [1] := by decide
example : dealLoop [(10, 1), (11, 0), (12, 1), (13, 1)] 2 3 [0, 1] [1, 2, 1] = some [[11], [10, 12], [13]] := by decide
example : batchFoldsLoop 2 1 1 [2, 0, 1] = [[2, 0], [1]] := by decide
example : validMembersSeq [[0, 3], [], [1, 2]] [3, 0, 2, 1] = true ∧ validSeq [0, 2, 2, 0] [3, 0, 2, 1] = true := by decide
example : optimalBatchSizes 5 0 = some [5] ∧ optimalBatchSizes 0 3 = some [] := by decide
example : ∃ f vd, createCVIndexed (⟨⟨[[10, 11], [12]], [1]⟩, ⟨[[0, 1], [0]], []⟩⟩ : LabeledData Nat Nat) 3 [2, 0, 2] 0 = .ok f ∧
    f.size = 3 ∧ f.validation 1 = .ok vd ∧ C03.pairs vd = [] ∧ C03.pairs f.dataset = [(11, 1), (10, 0), (12, 0)] :=
  ⟨_, _, rfl, rfl, rfl, rfl, rfl⟩

end SharkVerif.C12
