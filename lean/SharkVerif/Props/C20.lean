/-
C20 — Parallel routines are race-free and schedule-independent.

Theorems about the abstract shared-memory machine of `Model/Par.lean`
(all schedules = all interleavings of the threads' instruction streams, any
number of threads, any program length) and about the thread-range arithmetic
*generated from the C++ source* (`Gen/ParRegions.lean`, obligations `tile_Site*`).
Which parallel region of Shark falls under which theorem is recorded in the
reviewed table `translate/par_summaries.json`, whose text hashes are re-checked
against the source on every run (see DESIGN.md §6 C20 for what this does and
does not establish).
-/
import SharkVerif.Lemmas.Par
import SharkVerif.Lemmas.ParCrit
import SharkVerif.Gen.ParRegions
namespace SharkVerif.C20
open SharkVerif.Par

variable {V : Type}

/-- **Disjoint writes ⇒ schedule independence.**  If no thread writes a location
that another thread reads or writes (and there are no critical sections), then
*every* complete schedule — any interleaving, any thread count — ends in the
same store, namely the one in which each written location holds the value its
writer computes when running alone, and all other locations are unchanged. -/
theorem drf_schedule_independent (m0 : Store V) (r0 : Nat → Regs V) (progs : Nat → List (Instr V))
    (hd : DRF progs) (s : List Nat) (hf : Finished (run (initCfg m0 r0 progs) s)) :
    IsResult m0 r0 progs (run (initCfg m0 r0 progs) s).mem :=
  result_of_finished (sim_run hd s (sim_init m0 r0 progs)) hf

/-- any two complete schedules agree on the whole store -/
theorem drf_two_schedules_agree (m0 : Store V) (r0 : Nat → Regs V) (progs : Nat → List (Instr V))
    (hd : DRF progs) (s1 s2 : List Nat)
    (h1 : Finished (run (initCfg m0 r0 progs) s1)) (h2 : Finished (run (initCfg m0 r0 progs) s2)) :
    (run (initCfg m0 r0 progs) s1).mem = (run (initCfg m0 r0 progs) s2).mem :=
  isResult_unique (drf_schedule_independent m0 r0 progs hd s1 h1) (drf_schedule_independent m0 r0 progs hd s2 h2)

/-- at *every* point of *every* schedule (not only at the end) each thread has seen
exactly what it sees when running alone: no thread can observe another one -/
theorem drf_threads_isolated (m0 : Store V) (r0 : Nat → Regs V) (progs : Nat → List (Instr V))
    (hd : DRF progs) (s : List Nat) (t : Nat) :
    ∃ k, ((run (initCfg m0 r0 progs) s).ths t).prog = (progs t).drop k ∧
      ((run (initCfg m0 r0 progs) s).ths t).regs = (solo m0 (r0 t) ((progs t).take k)).2 :=
  let ⟨k, h1, h2, _⟩ := (sim_run hd s (sim_init m0 r0 progs)).pos t
  ⟨k, h1, h2⟩

/-- **Work-split independence.**  If the *iterations* of a parallel loop have pairwise
disjoint write sets (w.r.t. each other's reads and writes), then however the runtime
assigns iterations to threads (each iteration to at most one thread, executed in any
order within the thread), the thread programs are data-race free. -/
theorem split_drf (iter : Nat → List (Instr V)) (assign : Nat → List Nat)
    (hdisj : ∀ i j, i ≠ j → ∀ l, l ∈ writes (iter i) → ¬ accessed (iter j) l)
    (hnc : ∀ i, crits (iter i) = [])
    (hassign : ∀ t u, t ≠ u → ∀ i, i ∈ assign t → i ∉ assign u) :
    DRF (fun t => (assign t).flatMap iter) := by
  have hw : ∀ (is : List Nat) l, l ∈ writes (is.flatMap iter) → ∃ i ∈ is, l ∈ writes (iter i) := by
    intro is
    induction is with
    | nil => intro l h; simp [writes] at h
    | cons i is ih =>
      intro l h
      simp only [List.flatMap_cons] at h
      have happ : ∀ (a b : List (Instr V)), writes (a ++ b) = writes a ++ writes b := by
        intro a b; induction a with
        | nil => rfl
        | cons x a iha => cases x <;> simp [writes, iha]
      rw [happ, List.mem_append] at h
      rcases h with h | h
      · exact ⟨i, by simp, h⟩
      · obtain ⟨j, hj, hl⟩ := ih l h; exact ⟨j, by simp [hj], hl⟩
  have hr : ∀ (is : List Nat) l, l ∈ reads (is.flatMap iter) → ∃ i ∈ is, l ∈ reads (iter i) := by
    intro is
    induction is with
    | nil => intro l h; simp [reads] at h
    | cons i is ih =>
      intro l h
      simp only [List.flatMap_cons] at h
      have happ : ∀ (a b : List (Instr V)), reads (a ++ b) = reads a ++ reads b := by
        intro a b; induction a with
        | nil => rfl
        | cons x a iha => cases x <;> simp [reads, iha]
      rw [happ, List.mem_append] at h
      rcases h with h | h
      · exact ⟨i, by simp, h⟩
      · obtain ⟨j, hj, hl⟩ := ih l h; exact ⟨j, by simp [hj], hl⟩
  constructor
  · intro t u htu l hl hacc
    obtain ⟨i, hi, hli⟩ := hw _ l hl
    rcases hacc with h | h
    · obtain ⟨j, hj, hlj⟩ := hr _ l h
      have : i ≠ j := fun e => hassign t u htu i hi (e ▸ hj)
      exact hdisj i j this l hli (Or.inl hlj)
    · obtain ⟨j, hj, hlj⟩ := hw _ l h
      have : i ≠ j := fun e => hassign t u htu i hi (e ▸ hj)
      exact hdisj i j this l hli (Or.inr hlj)
  · intro t
    induction assign t with
    | nil => rfl
    | cons i is ih =>
      have happ : ∀ (a b : List (Instr V)), crits (a ++ b) = crits a ++ crits b := by
        intro a b; induction a with
        | nil => rfl
        | cons x a iha => cases x <;> simp [crits, iha]
      simp only [List.flatMap_cons, happ, hnc i, ih, List.append_nil]

/-- all critical updates of the complete programs on location `l`, thread by thread (the order a
single-threaded run would apply them in) -/
def seqUpd (T : Nat) (m0 : Store V) (r0 : Nat → Regs V) (progs : Nat → List (Instr V)) (l : Loc) : List (V → V) :=
  allUpd T m0 r0 progs (fun t => (progs t).length) l

/-- **Full machine: parallel loop bodies with critical sections.**  Ordinary accesses are data-race
free, critical sections update lock-protected locations that no ordinary access touches, and the
updates applied to a protected location commute pairwise (e.g. `acc += partial`).  Then after *every*
complete schedule, for any number of threads:
* a protected location holds the thread-by-thread (single-threaded order) composition of all updates,
* every other written location holds its writer's solo value, unwritten locations are unchanged. -/
theorem crit_schedule_independent (T : Nat) (m0 : Store V) (r0 : Nat → Regs V) (progs : Nat → List (Instr V))
    (hok : CritOK T progs)
    (hcomm : ∀ l, ∀ f ∈ seqUpd T m0 r0 progs l, ∀ g ∈ seqUpd T m0 r0 progs l, ∀ v, f (g v) = g (f v))
    (s : List Nat) (hf : Finished (run (initCfg m0 r0 progs) s)) :
    (∀ l, (∃ t, l ∈ crits (progs t)) →
        (run (initCfg m0 r0 progs) s).mem l = applyAll (m0 l) (seqUpd T m0 r0 progs l)) ∧
    (∀ t l, l ∈ writes (progs t) →
        (run (initCfg m0 r0 progs) s).mem l = (solo m0 (r0 t) (progs t)).1 l) ∧
    (∀ l, (∀ t, l ∉ writes (progs t)) → (∀ t, l ∉ crits (progs t)) →
        (run (initCfg m0 r0 progs) s).mem l = m0 l) := by
  obtain ⟨k, hpos, hunt, hcrit⟩ := (sim2_run hok s (sim2_init T m0 r0 progs)).ex
  have hk : ∀ t, (progs t).take (k t) = progs t := by
    intro t
    have := hf t
    rw [(hpos t).1] at this
    exact List.take_of_length_le (List.drop_eq_nil_iff.1 this)
  have hall : ∀ l, allUpd T m0 r0 progs k l = seqUpd T m0 r0 progs l := by
    intro l
    unfold seqUpd allUpd
    congr 1
    funext t
    rw [hk t, List.take_of_length_le (Nat.le_refl _)]
  refine ⟨?_, ?_, hunt⟩
  · intro l hl
    obtain ⟨log, hlog, hperm⟩ := hcrit l hl
    rw [hall l] at hperm
    rw [hlog]
    apply applyAll_perm hperm
    intro f hf' g hg v
    exact hcomm l f (hperm.mem_iff.1 hf') g (hperm.mem_iff.1 hg) v
  · intro t l hl
    rw [(hpos t).2.2 l (Or.inr hl), hk t]

/-- hence any two complete schedules of such a program end in the same store -/
theorem crit_two_schedules_agree (T : Nat) (m0 : Store V) (r0 : Nat → Regs V) (progs : Nat → List (Instr V))
    (hok : CritOK T progs)
    (hcomm : ∀ l, ∀ f ∈ seqUpd T m0 r0 progs l, ∀ g ∈ seqUpd T m0 r0 progs l, ∀ v, f (g v) = g (f v))
    (s1 s2 : List Nat)
    (h1 : Finished (run (initCfg m0 r0 progs) s1)) (h2 : Finished (run (initCfg m0 r0 progs) s2)) :
    (run (initCfg m0 r0 progs) s1).mem = (run (initCfg m0 r0 progs) s2).mem := by
  obtain ⟨a1, b1, c1⟩ := crit_schedule_independent T m0 r0 progs hok hcomm s1 h1
  obtain ⟨a2, b2, c2⟩ := crit_schedule_independent T m0 r0 progs hok hcomm s2 h2
  funext l
  by_cases hc : ∃ t, l ∈ crits (progs t)
  · rw [a1 l hc, a2 l hc]
  · by_cases hw : ∃ t, l ∈ writes (progs t)
    · obtain ⟨t, ht⟩ := hw
      rw [b1 t l ht, b2 t l ht]
    · have h1' : ∀ t, l ∉ writes (progs t) := fun t ht => hw ⟨t, ht⟩
      have h2' : ∀ t, l ∉ crits (progs t) := fun t ht => hc ⟨t, ht⟩
      rw [c1 l h1' h2', c2 l h1' h2']

/-- **Critical-section reduction.**  Thread-local partial results merged under one
lock, `acc := acc ⊕ pₜ`, give the same accumulator for every order in which the
threads enter the critical section, for any commutative and associative `⊕`
(exact arithmetic; for `double` this is "up to floating-point reassociation"). -/
theorem critical_reduction_order_independent (op : V → V → V)
    (hcomm : ∀ a b, op a b = op b a) (hassoc : ∀ a b c, op (op a b) c = op a (op b c))
    (init : V) (partials order : List V) (hp : order.Perm partials) :
    applyAll init (order.map fun p => fun acc => op acc p) =
    applyAll init (partials.map fun p => fun acc => op acc p) := by
  apply applyAll_perm (hp.map _)
  intro f hf g hg v
  obtain ⟨p, _, rfl⟩ := List.mem_map.1 hf
  obtain ⟨q, _, rfl⟩ := List.mem_map.1 hg
  show op (op v q) p = op (op v p) q
  rw [hassoc, hassoc, hcomm q p]

/-- … and the merged value is the fold of all partial results, i.e. the single-threaded sum -/
theorem critical_reduction_is_fold (op : V → V → V) (init : V) (partials : List V) :
    applyAll init (partials.map fun p => fun acc => op acc p) = partials.foldl op init := by
  simp only [applyAll, List.foldl_map]

/-- **Thread ranges of `ErrorFunction::eval` / `evalDerivative` and
`NegativeLogLikelihood` tile the batches** (definitions generated from the C++):
every batch index lies in exactly one thread's range. -/
theorem ranges_cover_exactly_once (B T : Nat) (hT : 1 ≤ T) (b : Nat) (hb : b < B) :
    ∃ t, t < T ∧ Gen.ParRegions.Site1.start B T t ≤ b ∧ b < Gen.ParRegions.Site1.stop B T t ∧
      ∀ u, Gen.ParRegions.Site1.start B T u ≤ b → b < Gen.ParRegions.Site1.stop B T u → u = t := by
  obtain ⟨h0, hlast, hnext, hle⟩ := Gen.ParRegions.tile_Site1 B T hT
  -- start is monotone
  have hmono : ∀ u v, u ≤ v → Gen.ParRegions.Site1.start B T u ≤ Gen.ParRegions.Site1.start B T v := by
    intro u v huv
    induction v with
    | zero => have : u = 0 := by omega
              subst this; exact Nat.le_refl _
    | succ v ih =>
      rcases Nat.lt_or_ge u (v+1) with h | h
      · have := ih (by omega)
        have h2 := hle v
        rw [hnext v] at h2
        omega
      · have : u = v + 1 := by omega
        subst this; exact Nat.le_refl _
  -- find the last t with start t ≤ b, by induction on T
  have hex : ∀ n, n ≤ T → Gen.ParRegions.Site1.start B T n ≤ b ∨
      ∃ t, t < n ∧ Gen.ParRegions.Site1.start B T t ≤ b ∧ b < Gen.ParRegions.Site1.stop B T t := by
    intro n
    induction n with
    | zero => intro _; left; rw [h0]; omega
    | succ n ih =>
      intro hn
      rcases ih (by omega) with h | ⟨t, ht, h1, h2⟩
      · by_cases hb2 : Gen.ParRegions.Site1.start B T (n+1) ≤ b
        · left; exact hb2
        · right; exact ⟨n, by omega, h, by rw [hnext n]; omega⟩
      · right; exact ⟨t, by omega, h1, h2⟩
  have hT' : Gen.ParRegions.Site1.start B T T = B := by
    have := hnext (T-1)
    rw [show T - 1 + 1 = T by omega] at this
    rw [← this, hlast]
  rcases hex T (Nat.le_refl _) with h | ⟨t, ht, h1, h2⟩
  · rw [hT'] at h; omega
  · refine ⟨t, ht, h1, h2, ?_⟩
    intro u hu1 hu2
    rcases Nat.lt_trichotomy u t with h | h | h
    · have := hmono (u+1) t (by omega)
      rw [hnext u] at hu2; omega
    · exact h
    · have := hmono (t+1) u (by omega)
      rw [hnext t] at h2; omega

/-! ### non-vacuity -/

/-- two threads, disjoint writes: thread 0 copies loc 0 to loc 10, thread 1 copies loc 1 to loc 11 -/
def demoProgs : Nat → List (Instr Nat)
  | 0 => [.load 0 0, .store 10 (fun r => r 0 + 1)]
  | 1 => [.load 0 1, .store 11 (fun r => r 0 * 2)]
  | _ => []

example : DRF demoProgs := by
  constructor
  · intro t u htu l hl hacc
    match t, u with
    | 0, 0 => exact htu rfl
    | 1, 1 => exact htu rfl
    | 0, 1 => simp [demoProgs, writes, accessed, reads] at hl hacc; subst hl; simp at hacc
    | 1, 0 => simp [demoProgs, writes, accessed, reads] at hl hacc; subst hl; simp at hacc
    | 0, n+2 => simp [demoProgs, accessed, reads, writes] at hacc
    | 1, n+2 => simp [demoProgs, accessed, reads, writes] at hacc
    | n+2, _ => simp [demoProgs, writes] at hl
  · intro t
    match t with
    | 0 => rfl
    | 1 => rfl
    | n+2 => rfl

/-- two different interleavings of `demoProgs` finish and agree (instance of the theorem, computed) -/
example : (run (initCfg (fun l => l + 5) (fun _ _ => 0) demoProgs) [0, 1, 0, 1]).mem 10 = 6 ∧
          (run (initCfg (fun l => l + 5) (fun _ _ => 0) demoProgs) [1, 1, 0, 0]).mem 11 = 12 := by decide

/-- a racy pair of programs really is schedule dependent in this machine (so `DRF` is not vacuous) -/
def racyProgs : Nat → List (Instr Nat)
  | 0 => [.load 0 0, .store 0 (fun r => r 0 + 1)]
  | 1 => [.load 0 0, .store 0 (fun r => r 0 + 1)]
  | _ => []

theorem racy_is_schedule_dependent :
    (run (initCfg (fun _ => 0) (fun _ _ => 0) racyProgs) [0, 0, 1, 1]).mem 0 = 2 ∧
    (run (initCfg (fun _ => 0) (fun _ _ => 0) racyProgs) [0, 1, 0, 1]).mem 0 = 1 := by decide

/-- two threads, each loads its own input and adds it to the shared accumulator (location 9) under the lock -/
def sumProgs : Nat → List (Instr Nat)
  | 0 => [.load 0 0, .crit 9 (fun r acc => acc + r 0)]
  | 1 => [.load 0 1, .crit 9 (fun r acc => acc + r 0)]
  | _ => []

/-- both interleavings of `sumProgs` (and hence all, by the theorem) give 100 + 5 + 6 -/
example : (run (initCfg (fun l => if l = 9 then 100 else l + 5) (fun _ _ => 0) sumProgs) [0, 1, 1, 0]).mem 9 = 111 ∧
          (run (initCfg (fun l => if l = 9 then 100 else l + 5) (fun _ _ => 0) sumProgs) [1, 1, 0, 0]).mem 9 = 111 := by decide

example : Gen.ParRegions.Site1.start 10 4 1 = 3 ∧ Gen.ParRegions.Site1.stop 10 4 3 = 10 := by decide

end SharkVerif.C20
