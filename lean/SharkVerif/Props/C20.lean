/-
C20 — Parallel routines are race-free and schedule-independent.

Theorems about the abstract shared-memory machine of `Model/Par.lean`
(all schedules = all interleavings of the threads' instruction streams, any
number of threads, any program length) and about the thread-range arithmetic
*generated from the C++ source* (`Gen/ParRegions.lean`, obligations `tile_Site*`).
Which parallel region of Shark falls under which theorem is recorded in the
reviewed table `translate/par_summaries.json`, whose text hashes are re-checked
against the source on every run (see DESIGN.md §6 C20 for what this does and
does not establish).
-/
import SharkVerif.Lemmas.Par
import SharkVerif.Lemmas.ParCrit
import SharkVerif.Lemmas.ParWide
import SharkVerif.Lemmas.ParSummaryMachine
import SharkVerif.Lemmas.ParLock
import SharkVerif.Lemmas.ParCow
import SharkVerif.Lemmas.ParLockReduce
import SharkVerif.Gen.ParRegions
import SharkVerif.Model.ParRoutines
namespace SharkVerif.C20
open SharkVerif.Par

variable {V : Type}

/-- **Disjoint writes ⇒ schedule independence.**  If no thread writes a location
that another thread reads or writes (and there are no critical sections), then
*every* complete schedule — any interleaving, any thread count — ends in the
same store, namely the one in which each written location holds the value its
writer computes when running alone, and all other locations are unchanged. -/
theorem drf_schedule_independent (m0 : Store V) (r0 : Nat → Regs V) (progs : Nat → List (Instr V))
    (hd : DRF progs) (s : List Nat) (hf : Finished (run (initCfg m0 r0 progs) s)) :
    IsResult m0 r0 progs (run (initCfg m0 r0 progs) s).mem :=
  result_of_finished (sim_run hd s (sim_init m0 r0 progs)) hf

/-- any two complete schedules agree on the whole store -/
theorem drf_two_schedules_agree (m0 : Store V) (r0 : Nat → Regs V) (progs : Nat → List (Instr V))
    (hd : DRF progs) (s1 s2 : List Nat)
    (h1 : Finished (run (initCfg m0 r0 progs) s1)) (h2 : Finished (run (initCfg m0 r0 progs) s2)) :
    (run (initCfg m0 r0 progs) s1).mem = (run (initCfg m0 r0 progs) s2).mem :=
  isResult_unique (drf_schedule_independent m0 r0 progs hd s1 h1) (drf_schedule_independent m0 r0 progs hd s2 h2)

/-- at *every* point of *every* schedule (not only at the end) each thread has seen
exactly what it sees when running alone: no thread can observe another one -/
theorem drf_threads_isolated (m0 : Store V) (r0 : Nat → Regs V) (progs : Nat → List (Instr V))
    (hd : DRF progs) (s : List Nat) (t : Nat) :
    ∃ k, ((run (initCfg m0 r0 progs) s).ths t).prog = (progs t).drop k ∧
      ((run (initCfg m0 r0 progs) s).ths t).regs = (solo m0 (r0 t) ((progs t).take k)).2 :=
  let ⟨k, h1, h2, _⟩ := (sim_run hd s (sim_init m0 r0 progs)).pos t
  ⟨k, h1, h2⟩

/-- **Work-split independence.**  If the *iterations* of a parallel loop have pairwise
disjoint write sets (w.r.t. each other's reads and writes), then however the runtime
assigns iterations to threads (each iteration to at most one thread, executed in any
order within the thread), the thread programs are data-race free. -/
theorem split_drf (iter : Nat → List (Instr V)) (assign : Nat → List Nat)
    (hdisj : ∀ i j, i ≠ j → ∀ l, l ∈ writes (iter i) → ¬ accessed (iter j) l)
    (hnc : ∀ i, crits (iter i) = [])
    (hassign : ∀ t u, t ≠ u → ∀ i, i ∈ assign t → i ∉ assign u) :
    DRF (fun t => (assign t).flatMap iter) := by
  have hw : ∀ (is : List Nat) l, l ∈ writes (is.flatMap iter) → ∃ i ∈ is, l ∈ writes (iter i) := by
    intro is
    induction is with
    | nil => intro l h; simp [writes] at h
    | cons i is ih =>
      intro l h
      simp only [List.flatMap_cons] at h
      have happ : ∀ (a b : List (Instr V)), writes (a ++ b) = writes a ++ writes b := by
        intro a b; induction a with
        | nil => rfl
        | cons x a iha => cases x <;> simp [writes, iha]
      rw [happ, List.mem_append] at h
      rcases h with h | h
      · exact ⟨i, by simp, h⟩
      · obtain ⟨j, hj, hl⟩ := ih l h; exact ⟨j, by simp [hj], hl⟩
  have hr : ∀ (is : List Nat) l, l ∈ reads (is.flatMap iter) → ∃ i ∈ is, l ∈ reads (iter i) := by
    intro is
    induction is with
    | nil => intro l h; simp [reads] at h
    | cons i is ih =>
      intro l h
      simp only [List.flatMap_cons] at h
      have happ : ∀ (a b : List (Instr V)), reads (a ++ b) = reads a ++ reads b := by
        intro a b; induction a with
        | nil => rfl
        | cons x a iha => cases x <;> simp [reads, iha]
      rw [happ, List.mem_append] at h
      rcases h with h | h
      · exact ⟨i, by simp, h⟩
      · obtain ⟨j, hj, hl⟩ := ih l h; exact ⟨j, by simp [hj], hl⟩
  constructor
  · intro t u htu l hl hacc
    obtain ⟨i, hi, hli⟩ := hw _ l hl
    rcases hacc with h | h
    · obtain ⟨j, hj, hlj⟩ := hr _ l h
      have : i ≠ j := fun e => hassign t u htu i hi (e ▸ hj)
      exact hdisj i j this l hli (Or.inl hlj)
    · obtain ⟨j, hj, hlj⟩ := hw _ l h
      have : i ≠ j := fun e => hassign t u htu i hi (e ▸ hj)
      exact hdisj i j this l hli (Or.inr hlj)
  · intro t
    induction assign t with
    | nil => rfl
    | cons i is ih =>
      have happ : ∀ (a b : List (Instr V)), crits (a ++ b) = crits a ++ crits b := by
        intro a b; induction a with
        | nil => rfl
        | cons x a iha => cases x <;> simp [crits, iha]
      simp only [List.flatMap_cons, happ, hnc i, ih, List.append_nil]

/-- all critical updates of the complete programs on location `l`, thread by thread (the order a
single-threaded run would apply them in) -/
def seqUpd (T : Nat) (m0 : Store V) (r0 : Nat → Regs V) (progs : Nat → List (Instr V)) (l : Loc) : List (V → V) :=
  allUpd T m0 r0 progs (fun t => (progs t).length) l

/-- **Full machine: parallel loop bodies with critical sections.**  Ordinary accesses are data-race
free, critical sections update lock-protected locations that no ordinary access touches, and the
updates applied to a protected location commute pairwise (e.g. `acc += partial`).  Then after *every*
complete schedule, for any number of threads:
* a protected location holds the thread-by-thread (single-threaded order) composition of all updates,
* every other written location holds its writer's solo value, unwritten locations are unchanged. -/
theorem crit_schedule_independent (T : Nat) (m0 : Store V) (r0 : Nat → Regs V) (progs : Nat → List (Instr V))
    (hok : CritOK T progs)
    (hcomm : ∀ l, ∀ f ∈ seqUpd T m0 r0 progs l, ∀ g ∈ seqUpd T m0 r0 progs l, ∀ v, f (g v) = g (f v))
    (s : List Nat) (hf : Finished (run (initCfg m0 r0 progs) s)) :
    (∀ l, (∃ t, l ∈ crits (progs t)) →
        (run (initCfg m0 r0 progs) s).mem l = applyAll (m0 l) (seqUpd T m0 r0 progs l)) ∧
    (∀ t l, l ∈ writes (progs t) →
        (run (initCfg m0 r0 progs) s).mem l = (solo m0 (r0 t) (progs t)).1 l) ∧
    (∀ l, (∀ t, l ∉ writes (progs t)) → (∀ t, l ∉ crits (progs t)) →
        (run (initCfg m0 r0 progs) s).mem l = m0 l) := by
  obtain ⟨k, hpos, hunt, hcrit⟩ := (sim2_run hok s (sim2_init T m0 r0 progs)).ex
  have hk : ∀ t, (progs t).take (k t) = progs t := by
    intro t
    have := hf t
    rw [(hpos t).1] at this
    exact List.take_of_length_le (List.drop_eq_nil_iff.1 this)
  have hall : ∀ l, allUpd T m0 r0 progs k l = seqUpd T m0 r0 progs l := by
    intro l
    unfold seqUpd allUpd
    congr 1
    funext t
    rw [hk t, List.take_of_length_le (Nat.le_refl _)]
  refine ⟨?_, ?_, hunt⟩
  · intro l hl
    obtain ⟨log, hlog, hperm⟩ := hcrit l hl
    rw [hall l] at hperm
    rw [hlog]
    apply applyAll_perm hperm
    intro f hf' g hg v
    exact hcomm l f (hperm.mem_iff.1 hf') g (hperm.mem_iff.1 hg) v
  · intro t l hl
    rw [(hpos t).2.2 l (Or.inr hl), hk t]

/-- hence any two complete schedules of such a program end in the same store -/
theorem crit_two_schedules_agree (T : Nat) (m0 : Store V) (r0 : Nat → Regs V) (progs : Nat → List (Instr V))
    (hok : CritOK T progs)
    (hcomm : ∀ l, ∀ f ∈ seqUpd T m0 r0 progs l, ∀ g ∈ seqUpd T m0 r0 progs l, ∀ v, f (g v) = g (f v))
    (s1 s2 : List Nat)
    (h1 : Finished (run (initCfg m0 r0 progs) s1)) (h2 : Finished (run (initCfg m0 r0 progs) s2)) :
    (run (initCfg m0 r0 progs) s1).mem = (run (initCfg m0 r0 progs) s2).mem := by
  obtain ⟨a1, b1, c1⟩ := crit_schedule_independent T m0 r0 progs hok hcomm s1 h1
  obtain ⟨a2, b2, c2⟩ := crit_schedule_independent T m0 r0 progs hok hcomm s2 h2
  funext l
  by_cases hc : ∃ t, l ∈ crits (progs t)
  · rw [a1 l hc, a2 l hc]
  · by_cases hw : ∃ t, l ∈ writes (progs t)
    · obtain ⟨t, ht⟩ := hw
      rw [b1 t l ht, b2 t l ht]
    · have h1' : ∀ t, l ∉ writes (progs t) := fun t ht => hw ⟨t, ht⟩
      have h2' : ∀ t, l ∉ crits (progs t) := fun t ht => hc ⟨t, ht⟩
      rw [c1 l h1' h2', c2 l h1' h2']

/-- **Critical-section reduction.**  Thread-local partial results merged under one
lock, `acc := acc ⊕ pₜ`, give the same accumulator for every order in which the
threads enter the critical section, for any commutative and associative `⊕`
(exact arithmetic; for `double` this is "up to floating-point reassociation"). -/
theorem critical_reduction_order_independent (op : V → V → V)
    (hcomm : ∀ a b, op a b = op b a) (hassoc : ∀ a b c, op (op a b) c = op a (op b c))
    (init : V) (partials order : List V) (hp : order.Perm partials) :
    applyAll init (order.map fun p => fun acc => op acc p) =
    applyAll init (partials.map fun p => fun acc => op acc p) := by
  apply applyAll_perm (hp.map _)
  intro f hf g hg v
  obtain ⟨p, _, rfl⟩ := List.mem_map.1 hf
  obtain ⟨q, _, rfl⟩ := List.mem_map.1 hg
  show op (op v q) p = op (op v p) q
  rw [hassoc, hassoc, hcomm q p]

/-- … and the merged value is the fold of all partial results, i.e. the single-threaded sum -/
theorem critical_reduction_is_fold (op : V → V → V) (init : V) (partials : List V) :
    applyAll init (partials.map fun p => fun acc => op acc p) = partials.foldl op init := by
  simp only [applyAll, List.foldl_map]

/-- **Thread ranges of `ErrorFunction::eval` / `evalDerivative` and
`NegativeLogLikelihood` tile the batches** (definitions generated from the C++):
every batch index lies in exactly one thread's range. -/
theorem ranges_cover_exactly_once (B T : Nat) (hT : 1 ≤ T) (b : Nat) (hb : b < B) :
    ∃ t, t < T ∧ Gen.ParRegions.Site1.start B T t ≤ b ∧ b < Gen.ParRegions.Site1.stop B T t ∧
      ∀ u, Gen.ParRegions.Site1.start B T u ≤ b → b < Gen.ParRegions.Site1.stop B T u → u = t := by
  obtain ⟨h0, hlast, hnext, hle⟩ := Gen.ParRegions.tile_Site1 B T hT
  -- start is monotone
  have hmono : ∀ u v, u ≤ v → Gen.ParRegions.Site1.start B T u ≤ Gen.ParRegions.Site1.start B T v := by
    intro u v huv
    induction v with
    | zero => have : u = 0 := by omega
              subst this; exact Nat.le_refl _
    | succ v ih =>
      rcases Nat.lt_or_ge u (v+1) with h | h
      · have := ih (by omega)
        have h2 := hle v
        rw [hnext v] at h2
        omega
      · have : u = v + 1 := by omega
        subst this; exact Nat.le_refl _
  -- find the last t with start t ≤ b, by induction on T
  have hex : ∀ n, n ≤ T → Gen.ParRegions.Site1.start B T n ≤ b ∨
      ∃ t, t < n ∧ Gen.ParRegions.Site1.start B T t ≤ b ∧ b < Gen.ParRegions.Site1.stop B T t := by
    intro n
    induction n with
    | zero => intro _; left; rw [h0]; omega
    | succ n ih =>
      intro hn
      rcases ih (by omega) with h | ⟨t, ht, h1, h2⟩
      · by_cases hb2 : Gen.ParRegions.Site1.start B T (n+1) ≤ b
        · left; exact hb2
        · right; exact ⟨n, by omega, h, by rw [hnext n]; omega⟩
      · right; exact ⟨t, by omega, h1, h2⟩
  have hT' : Gen.ParRegions.Site1.start B T T = B := by
    have := hnext (T-1)
    rw [show T - 1 + 1 = T by omega] at this
    rw [← this, hlast]
  rcases hex T (Nat.le_refl _) with h | ⟨t, ht, h1, h2⟩
  · rw [hT'] at h; omega
  · refine ⟨t, ht, h1, h2, ?_⟩
    intro u hu1 hu2
    rcases Nat.lt_trichotomy u t with h | h | h
    · have := hmono (u+1) t (by omega)
      rw [hnext u] at hu2; omega
    · exact h
    · have := hmono (t+1) u (by omega)
      rw [hnext t] at h2; omega


/-! ## Widened statements (round 2) -/

/-- **Critical sections that only commute up to an equivalence** (e.g. `result.emplace_back`, `model.addModel` +
`complements.push_back`: the collected list depends on the order of entry, its content as a multiset does not).
`R` is any equivalence respected by all updates and up to which they commute.  After every complete schedule, for any
number of threads, a protected location is `R`-related to the thread-by-thread (single-threaded order) result; all
other locations are as in `crit_schedule_independent`.  A critical section is one atomic update of one record-valued
location (several variables updated in the same section are one record, so their alignment is part of the value). -/
theorem crit_schedule_independent_upto (R : V → V → Prop) (hrefl : ∀ v, R v v) (htrans : ∀ a b c, R a b → R b c → R a c)
    (T : Nat) (m0 : Store V) (r0 : Nat → Regs V) (progs : Nat → List (Instr V))
    (hok : CritOK T progs)
    (hcong : ∀ l, ∀ f ∈ seqUpd T m0 r0 progs l, ∀ v w, R v w → R (f v) (f w))
    (hcomm : ∀ l, ∀ f ∈ seqUpd T m0 r0 progs l, ∀ g ∈ seqUpd T m0 r0 progs l, ∀ v, R (f (g v)) (g (f v)))
    (s : List Nat) (hf : Finished (run (initCfg m0 r0 progs) s)) :
    (∀ l, (∃ t, l ∈ crits (progs t)) →
        R ((run (initCfg m0 r0 progs) s).mem l) (applyAll (m0 l) (seqUpd T m0 r0 progs l))) ∧
    (∀ t l, l ∈ writes (progs t) →
        (run (initCfg m0 r0 progs) s).mem l = (solo m0 (r0 t) (progs t)).1 l) := by
  obtain ⟨k, hpos, _, hcrit⟩ := (sim2_run hok s (sim2_init T m0 r0 progs)).ex
  have hk : ∀ t, (progs t).take (k t) = progs t := by
    intro t
    have := hf t
    rw [(hpos t).1] at this
    exact List.take_of_length_le (List.drop_eq_nil_iff.1 this)
  have hall : ∀ l, allUpd T m0 r0 progs k l = seqUpd T m0 r0 progs l := by
    intro l
    unfold seqUpd allUpd
    congr 1
    funext t
    rw [hk t, List.take_of_length_le (Nat.le_refl _)]
  refine ⟨?_, ?_⟩
  · intro l hl
    obtain ⟨log, hlog, hperm⟩ := hcrit l hl
    rw [hall l] at hperm
    rw [hlog]
    exact applyAll_perm_rel R hrefl htrans hperm
      (fun f hf' => hcong l f (hperm.mem_iff.1 hf'))
      (fun f hf' g hg => hcomm l f (hperm.mem_iff.1 hf') g (hperm.mem_iff.1 hg)) _ _ (hrefl _)
  · intro t l hl
    rw [(hpos t).2.2 l (Or.inr hl), hk t]

/-- **Collecting critical sections**: the list collected by `acc.push_back(xₜ)` under the lock is, for every order of
entry, a permutation of the single-threaded list (`RFTrainer`: the forest as a list of (tree, out-of-bag set) pairs;
`HypervolumeContributionMD::smallest(points,k)`: the list of (contribution, index) pairs). -/
theorem collect_order_perm {X : Type} (items order : List X) (hp : order.Perm items) (init : List X) :
    (applyAll init (order.map fun x => fun acc => acc ++ [x])).Perm (applyAll init (items.map fun x => fun acc => acc ++ [x])) := by
  have h : ∀ (l : List X) (init : List X), applyAll init (l.map fun x => fun acc => acc ++ [x]) = init ++ l := by
    intro l
    induction l with
    | nil => intro init; simp [applyAll]
    | cons x l ih => intro init; simp only [List.map_cons, applyAll, List.foldl_cons] at *; rw [ih]; simp
  rw [h, h]
  exact hp.append_left init

/-- **Reduction over a commutative monoid, for every work split.**  `val i` is the contribution of iteration `i`
(batch `i`), `assign` is *any* split of the `n` iterations among any number of threads (each thread runs its list in
order, starting from the identity `e`: static chunks, a dynamic schedule, one iteration per thread …), `order` is the
order in which the threads enter the critical section.  The merged value is the single-threaded fold. -/
theorem reduction_any_split (op : V → V → V) (e : V)
    (hcomm : ∀ a b, op a b = op b a) (hassoc : ∀ a b c, op (op a b) c = op a (op b c)) (hid : ∀ a, op a e = a)
    (val : Nat → V) (n : Nat) (assign order : List (List Nat))
    (hsplit : assign.flatten.Perm (List.range n)) (horder : order.Perm assign) (init : V) :
    (order.map fun is => is.foldl (fun x i => op x (val i)) e).foldl op init =
      (List.range n).foldl (fun x i => op x (val i)) init := by
  rw [foldl_partials op e hassoc hid]
  exact foldl_perm_comm op hcomm hassoc val (horder.flatten.trans hsplit) init

/-- the thread ranges of `ErrorFunction` (leftover rule, generated from the C++) are such a split … -/
theorem errorfunction_ranges_split (B T : Nat) (hT : 1 ≤ T) :
    ((List.range T).map fun t => List.range' (Gen.ParRegions.Site1.start B T t)
        (Gen.ParRegions.Site1.stop B T t - Gen.ParRegions.Site1.start B T t)).flatten = List.range B := by
  obtain ⟨h0, hlast, hnext, hle⟩ := Gen.ParRegions.tile_Site1 B T hT
  have hT' : Gen.ParRegions.Site1.start B T T = B := by
    have := hnext (T-1)
    rw [show T - 1 + 1 = T by omega] at this
    rw [← this, hlast]
  have := flatMap_ranges (fun t => Gen.ParRegions.Site1.start B T t) (fun t => by rw [← hnext t]; exact hle t) T
  simp only [hnext] at *
  rw [List.flatMap_def] at this
  rw [this, h0, hT', List.range_eq_range']
  simp

/-- … hence **`ErrorFunction::eval`/`evalDerivative` as modelled** (thread `t` folds its batch range from the identity,
results merged under the lock in any order) returns the single-threaded fold over all batches, for every number of
batches `B`, every thread count `T ≥ 1`, every order of entry, over any commutative monoid. -/
theorem errorfunction_reduction (op : V → V → V) (e : V)
    (hcomm : ∀ a b, op a b = op b a) (hassoc : ∀ a b c, op (op a b) c = op a (op b c)) (hid : ∀ a, op a e = a)
    (val : Nat → V) (B T : Nat) (hT : 1 ≤ T) (order : List (List Nat))
    (horder : order.Perm ((List.range T).map fun t => List.range' (Gen.ParRegions.Site1.start B T t)
        (Gen.ParRegions.Site1.stop B T t - Gen.ParRegions.Site1.start B T t))) (init : V) :
    (order.map fun is => is.foldl (fun x i => op x (val i)) e).foldl op init =
      (List.range B).foldl (fun x i => op x (val i)) init :=
  reduction_any_split op e hcomm hassoc hid val B _ order (by rw [errorfunction_ranges_split B T hT]) horder init

/-- **Per-thread k-heaps merged = global k smallest** (`SimpleNearestNeighbors::getNeighbors`): `parts` is what each
thread has seen (any number of threads, any assignment of batches to threads, any order), each thread keeps a bounded
heap of its `k` smallest keys, the heaps are merged and the `k` smallest taken. -/
theorem knn_heaps_merge {α : Type} [LinearOrder α] (k : Nat) (parts : List (List α)) (all : List α)
    (hsplit : parts.flatten.Perm all) :
    (((parts.map (heapOf k)).flatten).insertionSort (· ≤ ·)).take k = (all.insertionSort (· ≤ ·)).take k := by
  rw [merge_heaps, sort_perm_eq hsplit]

/-- **Shared batches, reference counts as atomic fetch-add.**  `l` is the reference count of a batch shared by dataset
copies/subsets: every critical (atomic) update of `l` is a translation `v ↦ v + d` (`+1` on copy, `-1` on release), and
along every thread's program the running total of its own updates never drops below zero (a handle is acquired before
it is released).  Then at *every* point of *every* schedule the count is at least its initial value (the batch owned by
the source dataset is never freed under a reader), … -/
theorem refcount_never_below_initial (T : Nat) (m0 : Store Int) (r0 : Nat → Regs Int) (progs : Nat → List (Instr Int))
    (hok : CritOK T progs) (l : Loc) (hl : ∃ t, l ∈ crits (progs t))
    (htr : ∀ t k, ∀ u ∈ critUpd m0 (r0 t) ((progs t).take k) l, ∀ v, u v = v + u 0)
    (hpre : ∀ t k, 0 ≤ deltaSum (critUpd m0 (r0 t) ((progs t).take k) l))
    (s : List Nat) : m0 l ≤ (run (initCfg m0 r0 progs) s).mem l := by
  obtain ⟨k, _, _, hcrit⟩ := (sim2_run hok s (sim2_init T m0 r0 progs)).ex
  obtain ⟨log, hlog, hperm⟩ := hcrit l hl
  have htr' : ∀ u ∈ log, ∀ v, u v = v + u 0 := by
    intro u hu
    have := hperm.mem_iff.1 hu
    unfold allUpd at this
    obtain ⟨t, _, ht⟩ := List.mem_flatMap.1 this
    exact htr t (k t) u ht
  rw [hlog, applyAll_translations log htr', deltaSum_perm hperm]
  have : 0 ≤ deltaSum (allUpd T m0 r0 progs k l) := deltaSum_flatMap_nonneg _ _ (fun t _ => hpre t (k t))
  omega

/-- … and once all threads have finished and released everything they acquired, the count is back at its initial value,
whatever the interleaving. -/
theorem refcount_balanced_at_end (T : Nat) (m0 : Store Int) (r0 : Nat → Regs Int) (progs : Nat → List (Instr Int))
    (hok : CritOK T progs) (l : Loc) (hl : ∃ t, l ∈ crits (progs t))
    (htr : ∀ t k, ∀ u ∈ critUpd m0 (r0 t) ((progs t).take k) l, ∀ v, u v = v + u 0)
    (hbal : ∀ t, deltaSum (critUpd m0 (r0 t) (progs t) l) = 0)
    (s : List Nat) (hf : Finished (run (initCfg m0 r0 progs) s)) : (run (initCfg m0 r0 progs) s).mem l = m0 l := by
  obtain ⟨k, hpos, _, hcrit⟩ := (sim2_run hok s (sim2_init T m0 r0 progs)).ex
  obtain ⟨log, hlog, hperm⟩ := hcrit l hl
  have hk : ∀ t, (progs t).take (k t) = progs t := by
    intro t
    have := hf t
    rw [(hpos t).1] at this
    exact List.take_of_length_le (List.drop_eq_nil_iff.1 this)
  have htr' : ∀ u ∈ log, ∀ v, u v = v + u 0 := by
    intro u hu
    have := hperm.mem_iff.1 hu
    unfold allUpd at this
    obtain ⟨t, _, ht⟩ := List.mem_flatMap.1 this
    exact htr t (k t) u ht
  rw [hlog, applyAll_translations log htr', deltaSum_perm hperm]
  have : deltaSum (allUpd T m0 r0 progs k l) = 0 :=
    deltaSum_flatMap_zero _ _ (fun t _ => by rw [hk t]; exact hbal t)
  omega

/-- **Copy-on-write contents**: a location that no thread writes outside a critical section and that is not lock
protected (the elements of a shared batch: copies and subsets only read them, `makeIndependent` writes to fresh
storage) holds its initial value at every point of every schedule — every copy sees the right contents. -/
theorem shared_contents_unchanged (T : Nat) (m0 : Store V) (r0 : Nat → Regs V) (progs : Nat → List (Instr V))
    (hok : CritOK T progs) (l : Loc) (hw : ∀ t, l ∉ writes (progs t)) (hc : ∀ t, l ∉ crits (progs t))
    (s : List Nat) : (run (initCfg m0 r0 progs) s).mem l = m0 l := by
  obtain ⟨_, _, hunt, _⟩ := (sim2_run hok s (sim2_init T m0 r0 progs)).ex
  exact hunt l hw hc

/-- **Random-forest training.**  Tree `t` is `build (seeds t)` — a function of the seed drawn for *tree* `t` before the
parallel loop (per-tree generators, as in the source), not of the thread that builds it.  Whatever the assignment of
trees to threads and the order of entry into the critical section (`order`), the forest is a permutation of the
single-threaded forest, with each tree still paired with its own out-of-bag set, and every vote that combines the
trees' answers in a commutative monoid is the same. -/
theorem rf_forest_schedule_independent {Tree X : Type} (build : Nat → Tree × X) (seeds : Nat → Nat) (n : Nat)
    (order : List Nat) (horder : order.Perm (List.range n))
    (op : V → V → V) (hcomm : ∀ a b, op a b = op b a) (hassoc : ∀ a b c, op (op a b) c = op a (op b c))
    (answer : Tree × X → V) (init : V) :
    (order.map fun t => build (seeds t)).Perm ((List.range n).map fun t => build (seeds t)) ∧
    ((order.map fun t => build (seeds t)).map answer).foldl op init =
      (((List.range n).map fun t => build (seeds t)).map answer).foldl op init := by
  refine ⟨horder.map _, ?_⟩
  have h := foldl_perm_comm op hcomm hassoc (fun t => answer (build (seeds t))) horder init
  simpa [List.foldl_map] using h



/-! ### generated access summaries, composed with the machine -/

/-- **End to end for a generated summary.**  Let `s` be the access summary extracted from a parallel region and
`RaceFree s` its generated obligation (`Gen/ParSummaries.lean`: `r<k>_race_free`).  Compile the region to the abstract
machine with *any* values computed by the iterations, *any* number of iterations and *any* assignment of iterations to
`T` threads.  If the critical updates commute (reductions), then after every complete schedule every lock-protected
variable holds the single-threaded composition of all updates, every other written slot holds the value its iteration
computes when running alone, and nothing else changes. -/
theorem region_schedule_independent (s : Summary) (hrf : RaceFree s) (T : Nat) (assign : Nat → List Nat)
    (hassign : ∀ t u, t ≠ u → ∀ i, i ∈ assign t → i ∉ assign u) (hfin : ∀ t, T ≤ t → assign t = [])
    (val : Nat → Nat → Regs V → V) (upd : Nat → Nat → Regs V → V → V)
    (m0 : Store V) (r0 : Nat → Regs V)
    (hcomm : ∀ l, ∀ f ∈ seqUpd T m0 r0 (regionProgs s val upd assign) l,
      ∀ g ∈ seqUpd T m0 r0 (regionProgs s val upd assign) l, ∀ v, f (g v) = g (f v))
    (sched : List Nat) (hf : Finished (run (initCfg m0 r0 (regionProgs s val upd assign)) sched)) :
    (∀ l, (∃ t, l ∈ crits (regionProgs s val upd assign t)) →
        (run (initCfg m0 r0 (regionProgs s val upd assign)) sched).mem l =
          applyAll (m0 l) (seqUpd T m0 r0 (regionProgs s val upd assign) l)) ∧
    (∀ t l, l ∈ writes (regionProgs s val upd assign t) →
        (run (initCfg m0 r0 (regionProgs s val upd assign)) sched).mem l =
          (solo m0 (r0 t) (regionProgs s val upd assign t)).1 l) ∧
    (∀ l, (∀ t, l ∉ writes (regionProgs s val upd assign t)) → (∀ t, l ∉ crits (regionProgs s val upd assign t)) →
        (run (initCfg m0 r0 (regionProgs s val upd assign)) sched).mem l = m0 l) :=
  crit_schedule_independent T m0 r0 _ (raceFree_programs_critOK s hrf T assign hassign hfin val upd) hcomm sched hf

/-- the same for collecting regions (critical updates commute only up to an equivalence `R`) -/
theorem region_schedule_independent_upto (s : Summary) (hrf : RaceFree s)
    (R : V → V → Prop) (hrefl : ∀ v, R v v) (htrans : ∀ a b c, R a b → R b c → R a c)
    (T : Nat) (assign : Nat → List Nat)
    (hassign : ∀ t u, t ≠ u → ∀ i, i ∈ assign t → i ∉ assign u) (hfin : ∀ t, T ≤ t → assign t = [])
    (val : Nat → Nat → Regs V → V) (upd : Nat → Nat → Regs V → V → V)
    (m0 : Store V) (r0 : Nat → Regs V)
    (hcong : ∀ l, ∀ f ∈ seqUpd T m0 r0 (regionProgs s val upd assign) l, ∀ v w, R v w → R (f v) (f w))
    (hcomm : ∀ l, ∀ f ∈ seqUpd T m0 r0 (regionProgs s val upd assign) l,
      ∀ g ∈ seqUpd T m0 r0 (regionProgs s val upd assign) l, ∀ v, R (f (g v)) (g (f v)))
    (sched : List Nat) (hf : Finished (run (initCfg m0 r0 (regionProgs s val upd assign)) sched)) :
    (∀ l, (∃ t, l ∈ crits (regionProgs s val upd assign t)) →
        R ((run (initCfg m0 r0 (regionProgs s val upd assign)) sched).mem l)
          (applyAll (m0 l) (seqUpd T m0 r0 (regionProgs s val upd assign) l))) ∧
    (∀ t l, l ∈ writes (regionProgs s val upd assign t) →
        (run (initCfg m0 r0 (regionProgs s val upd assign)) sched).mem l =
          (solo m0 (r0 t) (regionProgs s val upd assign t)).1 l) :=
  crit_schedule_independent_upto R hrefl htrans T m0 r0 _
    (raceFree_programs_critOK s hrf T assign hassign hfin val upd) hcong hcomm sched hf

/-- a two-variable summary (`result[i]` indexed by the loop variable, `error` updated under the lock) and its check -/
def demoSummary : Summary := { id := "demo", hash := "", vars := [("result", .iterIndexed), ("error", .critical)] }
example : RaceFree demoSummary := summary_race_free demoSummary (by decide)
/-- … and with a shared scratch variable the obligation is false, not merely unproved -/
example : ¬ RaceFree { id := "demo", hash := "", vars := [("result", .iterIndexed), ("scratch", .shared)] } :=
  shared_write_not_race_free _ 1 (by decide)


/-! ### explicit locks, nested critical sections -/

/-- **Lock discipline ⇒ no unsynchronised conflicting access, for all interleavings.**  Machine with explicit
`acquire`/`release` (`Model/ParLock.lean`): critical sections are ordinary instruction sequences, interleaved
instruction by instruction with the other threads, possibly nested (several locks).  If in every thread program each
access to a location protected by lock `k` lies lexically inside a section of `k` (and sections are well nested: no
re-acquisition, release only of held locks), and unprotected locations written by one thread are touched by no other,
then in the configuration reached by *any* schedule prefix no thread is about to write a location another thread is
about to read or write. -/
theorem lock_discipline_no_race (prot : Loc → Option Nat) (progs : Nat → List (LInstr V))
    (hd : ∀ t, Disciplined prot (progs t))
    (hord : ∀ t u, t ≠ u → ∀ l, prot l = none → everWrites (progs t) l → ¬ everTouches (progs u) l)
    (m0 : Store V) (r0 : Nat → Regs V) (sched : List Nat) (t u : Nat) (htu : t ≠ u) (l : Loc) :
    nextWrites (lrun (linit m0 r0 progs) sched) t l → ¬ nextTouches (lrun (linit m0 r0 progs) sched) u l :=
  fun hw ht => no_race_of_inv prot progs hd hord (linv_run prot progs hd sched (linv_init m0 r0 progs)) t u htu l hw ht

/-- … and a lock is held by at most one thread at any point of any schedule (mutual exclusion of each named section) -/
theorem lock_mutual_exclusion (prot : Loc → Option Nat) (progs : Nat → List (LInstr V))
    (hd : ∀ t, Disciplined prot (progs t)) (m0 : Store V) (r0 : Nat → Regs V) (sched : List Nat) (k t u : Nat)
    (h1 : (lrun (linit m0 r0 progs) sched).owner k = some t) (h2 : (lrun (linit m0 r0 progs) sched).owner k = some u) : t = u := by
  rw [h1] at h2; exact Option.some.inj h2


/-- **The reduction pattern with a non-atomic critical section.**  On the machine with an explicit lock, `T` threads
(or iterations) each execute `acquire; tmp := acc; acc := tmp ⊕ xₜ; release` — four separate steps, interleaved
arbitrarily with the steps of all other threads, `acquire` blocking while the lock is held.  After every complete
schedule the accumulator holds the single-threaded fold of all partial results, for any commutative-associative `⊕`.
(This is what justifies treating `SHARK_CRITICAL_REGION{ acc += partial; }` as one atomic update in the theorems above;
without the lock the same four-step code loses updates, see the example below.) -/
theorem lock_reduction_schedule_independent (op : V → V → V)
    (hcomm : ∀ a b, op a b = op b a) (hassoc : ∀ a b c, op (op a b) c = op a (op b c))
    (l : Loc) (T : Nat) (x : Nat → V) (m0 : Store V) (r0 : Nat → Regs V) (sched : List Nat)
    (hf : ∀ t, (lrun (linit m0 r0 (reduceProgs op l T x)) sched).prog t = []) :
    (lrun (linit m0 r0 (reduceProgs op l T x)) sched).mem l = ((List.range T).map x).foldl op (m0 l) := by
  obtain ⟨ph, log, hprog, hle, hmem, hnd, hlog, _, _⟩ := (rinv_run op l T x m0 sched (rinv_init op l T x m0 r0)).ex
  have hdone : ∀ t, t < T → 3 ≤ ph t := by
    intro t ht
    have h1 := hf t
    rw [hprog t] at h1
    have hlen : (reduceProgs op l T x t).length = 4 := by simp [reduceProgs, ht, rmwSection]
    have := List.drop_eq_nil_iff.1 h1
    omega
  have hperm : log.Perm (List.range T) := by
    apply (List.perm_ext_iff_of_nodup hnd List.nodup_range).2
    intro t
    rw [hlog t, List.mem_range]
    exact ⟨fun h => h.1, fun h => ⟨h, hdone t h⟩⟩
  rw [hmem, List.foldl_map, List.foldl_map]
  exact foldl_perm_comm op hcomm hassoc x hperm (m0 l)

example : (lrun (linit (fun _ => 100) (fun _ _ => 0) (reduceProgs (· + ·) 9 2 (fun t => t + 5)))
            [0, 1, 0, 1, 0, 1, 0, 1, 1, 1, 1]).mem 9 = 111 := by decide

/-- two threads, nested sections (lock 0 outside, lock 1 inside), accumulators 9 (under lock 0) and 8 (under lock 1) -/
def nestedProgs : Nat → List (LInstr Nat)
  | 0 => [.acquire 0, .load 0 9, .acquire 1, .load 1 8, .store 8 (fun r => r 1 + 1), .release 1, .store 9 (fun r => r 0 + 10), .release 0]
  | 1 => [.acquire 0, .load 0 9, .store 9 (fun r => r 0 + 20), .release 0]
  | _ => []

/-- the example programs obey the discipline (location 9 under lock 0, location 8 under lock 1) -/
example : ∀ t, Disciplined (fun l => if l = 9 then some 0 else if l = 8 then some 1 else none) (nestedProgs t) := by
  intro t
  apply disciplined_of_check
  match t with
  | 0 => decide
  | 1 => decide
  | _ + 2 => rfl

/-- thread 1 is blocked while thread 0 is inside its section: both orders of entry give 9 ↦ 30, 8 ↦ 1 -/
example : (lrun (linit (fun _ => 0) (fun _ _ => 0) nestedProgs) [0, 0, 1, 1, 0, 0, 0, 1, 0, 0, 0, 1, 1, 1, 1]).mem 9 = 30 ∧
          (lrun (linit (fun _ => 0) (fun _ _ => 0) nestedProgs) [1, 0, 1, 1, 0, 1, 0, 0, 0, 0, 0, 0, 0, 0]).mem 9 = 30 ∧
          (lrun (linit (fun _ => 0) (fun _ _ => 0) nestedProgs) [1, 0, 1, 1, 0, 1, 0, 0, 0, 0, 0, 0, 0, 0]).mem 8 = 1 := by decide

/-- without the lock the same read-modify-write loses an update under a suitable interleaving -/
example : (lrun (linit (fun _ => 0) (fun _ _ => 0)
    (fun t => if t < 2 then [LInstr.load 0 9, LInstr.store 9 (fun r => r 0 + 1)] else [])) [0, 1, 0, 1]).mem 9 = 1 := by decide


/-! ### shared copies and batch subsets used concurrently (copy-on-write model of `Data<T>`) -/

/-- **Concurrent shared copies / subsets are safe and see the right contents.**  Every thread runs an arbitrary list of
operations on shared batches: `inc l d` = atomic fetch-add on the reference count `l` (copy/subset: `+1` per batch,
destruction: `-1`), `read r l` = read batch contents, `own l v` = write storage that only this thread uses
(`makeIndependent`).  Reference counts are touched by fetch-add only, and every handle is acquired before it is
released (`hpre`).  Then, for every number of threads and **at every point of every interleaving**:
* each reference count is at least its initial value (a batch still owned by the source is never freed under a reader),
* every location that is not a reference count and not thread-owned storage — the contents of every shared batch —
  holds its initial value, so every copy and subset reads the right contents,
* when all threads are done and every thread released what it acquired, all counts are back at their initial value. -/
theorem shared_copies_safe (T : Nat) (ops : Nat → List ROp) (hfin : ∀ t, T ≤ t → ops t = [])
    (hrc : ∀ t u l d, ROp.inc l d ∈ ops t → (∀ r, ROp.read r l ∉ ops u) ∧ (∀ v, ROp.own l v ∉ ops u))
    (hown : ∀ t u, t ≠ u → ∀ l v, ROp.own l v ∈ ops t → (∀ r, ROp.read r l ∉ ops u) ∧ (∀ w, ROp.own l w ∉ ops u))
    (hpre : ∀ t k l, 0 ≤ netDelta l ((ops t).take k))
    (m0 : Store Int) (r0 : Nat → Regs Int) (sched : List Nat) :
    (∀ l, (∃ t d, ROp.inc l d ∈ ops t) → m0 l ≤ (run (initCfg m0 r0 (fun t => compileOps (ops t))) sched).mem l) ∧
    (∀ l, (∀ t v, ROp.own l v ∉ ops t) → (∀ t d, ROp.inc l d ∉ ops t) →
        (run (initCfg m0 r0 (fun t => compileOps (ops t))) sched).mem l = m0 l) ∧
    (Finished (run (initCfg m0 r0 (fun t => compileOps (ops t))) sched) → (∀ t l, netDelta l (ops t) = 0) →
        ∀ l, (∃ t d, ROp.inc l d ∈ ops t) → (run (initCfg m0 r0 (fun t => compileOps (ops t))) sched).mem l = m0 l) := by
  have hok : CritOK T (fun t => compileOps (ops t)) := by
    refine ⟨?_, ?_, ?_⟩
    · intro t u htu l hl hacc
      obtain ⟨v, hv⟩ := (mem_writes_compile l _).1 hl
      rcases hacc with h | h
      · obtain ⟨r, hr⟩ := (mem_reads_compile l _).1 h
        exact (hown t u htu l v hv).1 r hr
      · obtain ⟨w, hw⟩ := (mem_writes_compile l _).1 h
        exact (hown t u htu l v hv).2 w hw
    · intro t u l hl hacc
      obtain ⟨d, hd⟩ := (mem_crits_compile l _).1 hl
      rcases hacc with h | h
      · obtain ⟨r, hr⟩ := (mem_reads_compile l _).1 h
        exact (hrc t u l d hd).1 r hr
      · obtain ⟨w, hw⟩ := (mem_writes_compile l _).1 h
        exact (hrc t u l d hd).2 w hw
    · intro t ht; simp [hfin t ht, compileOps]
  refine ⟨?_, ?_, ?_⟩
  · intro l ⟨t, d, hd⟩
    apply refcount_never_below_initial T m0 r0 _ hok l ⟨t, (mem_crits_compile l _).2 ⟨d, hd⟩⟩
    · intro u k; rw [compileOps_take]; exact (critUpd_compile l _ m0 (r0 u)).1
    · intro u k; rw [compileOps_take, (critUpd_compile l _ m0 (r0 u)).2]; exact hpre u k l
  · intro l hw hc
    apply shared_contents_unchanged T m0 r0 _ hok l
    · intro t h; obtain ⟨v, hv⟩ := (mem_writes_compile l _).1 h; exact hw t v hv
    · intro t h; obtain ⟨d, hd⟩ := (mem_crits_compile l _).1 h; exact hc t d hd
  · intro hf hbal l ⟨t, d, hd⟩
    apply refcount_balanced_at_end T m0 r0 _ hok l ⟨t, (mem_crits_compile l _).2 ⟨d, hd⟩⟩ _ _ sched hf
    · intro u k; rw [compileOps_take]; exact (critUpd_compile l _ m0 (r0 u)).1
    · intro u; rw [(critUpd_compile l _ m0 (r0 u)).2]; exact hbal u l

/-- two threads: copy a two-batch dataset (counts 10, 11; contents 20, 21), read it, thread 1 also makes its copy
independent (fresh storage 31), both release -/
def cowOps : Nat → List ROp
  | 0 => [.inc 10 1, .inc 11 1, .read 0 20, .read 1 21, .inc 10 (-1), .inc 11 (-1)]
  | 1 => [.inc 11 1, .read 0 21, .own 31 7, .inc 11 (-1)]
  | _ => []

example : (run (initCfg (fun l => if l = 10 ∨ l = 11 then 1 else 5) (fun _ _ => 0) (fun t => compileOps (cowOps t)))
            [0, 1, 0, 1, 0]).mem 11 = 3 ∧
          (run (initCfg (fun l => if l = 10 ∨ l = 11 then 1 else 5) (fun _ _ => 0) (fun t => compileOps (cowOps t)))
            [0, 1, 0, 1, 0, 1, 1, 0, 0, 0]).mem 11 = 1 := by decide

/-! ### the executable models run by `drv_c20` equal the single-threaded specification -/

theorem chunks_flatten {α : Type} (f c : Nat) : ∀ l : List α, (ParModel.chunks f c l).flatten = l := by
  induction f with
  | zero => intro l; cases l <;> simp [ParModel.chunks]
  | succ f ih =>
    intro l
    cases l with
    | nil => simp [ParModel.chunks]
    | cons a l => simp [ParModel.chunks, ih, List.take_append_drop]

theorem model_ins_eq (x : Nat) (l : List Nat) : ParModel.ins x l = l.orderedInsert (· ≤ ·) x := by
  induction l with
  | nil => rfl
  | cons b l ih => simp only [ParModel.ins, List.orderedInsert, ih]

theorem model_sort_eq (l : List Nat) : ParModel.sort l = l.insertionSort (· ≤ ·) := by
  induction l with
  | nil => rfl
  | cons a l ih =>
    have : ParModel.sort (a :: l) = ParModel.ins a (ParModel.sort l) := rfl
    rw [this, ih, model_ins_eq]; rfl

theorem model_heap_eq (k : Nat) (l : List Nat) : ParModel.heap k l = heapOf k l := by
  have : ParModel.push k = hpush k := by
    funext h x; simp [ParModel.push, hpush, model_ins_eq]
  unfold ParModel.heap heapOf; rw [this]

/-- **the modelled neighbour search** (batches cut into one contiguous chunk per thread, one bounded heap per thread,
heaps merged) returns the `k` smallest distances of the whole data set, sorted — for every thread count, every `k`,
every batching -/
theorem knn_model_spec (T k : Nat) (batches : List (List Nat)) :
    ParModel.knn T k batches = (ParModel.sort batches.flatten).take k := by
  unfold ParModel.knn
  rw [model_sort_eq, model_sort_eq]
  have hh : (ParModel.threadShares T batches).map (ParModel.heap k) = (ParModel.threadShares T batches).map (heapOf k) := by
    apply List.map_congr_left; intro l _; exact model_heap_eq k l
  rw [hh]
  apply knn_heaps_merge
  have hfl : ∀ L : List (List (List Nat)), (L.map List.flatten).flatten = L.flatten.flatten := by
    intro L; induction L with
    | nil => rfl
    | cons a L ih => simp [ih]
  unfold ParModel.threadShares
  simp only []
  rw [hfl, chunks_flatten]

/-- **the modelled work split of `ErrorFunction::eval`** (`numThreads = min(T,B)`, ranges from the generated
arithmetic) lists consecutive ranges that cover `[0,B)` exactly: concatenated they are `0,1,…,B-1` -/
theorem ranges_model_cover (B T : Nat) (hB : 1 ≤ B) (hT : 1 ≤ T) :
    ((ParModel.ranges B T).map fun r => List.range' r.1 (r.2 - r.1)).flatten = List.range B := by
  have h := errorfunction_ranges_split B (min T B) (by omega)
  unfold ParModel.ranges
  simp only [List.map_map]
  exact h

example : ParModel.knn 3 2 [[4, 1], [9, 3], [2, 0]] = [0, 1] := by decide
example : ParModel.ranges 10 4 = [(0, 3), (3, 6), (6, 8), (8, 10)] := by decide

/-! ### non-vacuity of the widened statements -/

/-- a consumer that is *not* a function of the multiset — e.g. feeding the trees in list order to one sequential random
generator, or an unstable selection among equal keys — does see the order: the collected lists differ -/
example : applyAll ([] : List Nat) ([1, 2].map fun x => fun acc => acc ++ [x]) ≠
          applyAll ([] : List Nat) ([2, 1].map fun x => fun acc => acc ++ [x]) := by decide

example : (([[0, 1], [2]] : List (List Nat)).map fun is => is.foldl (fun x i => x + (i + 1)) 0).foldl (· + ·) 5 =
          (List.range 3).foldl (fun x i => x + (i + 1)) 5 := by decide

/-- 3 threads, `k = 2`: heaps [1,4], [2,3], [0] merge to the global two smallest -/
example : ((([[4, 1, 9], [3, 2], [0]] : List (List Nat)).map (heapOf 2)).flatten.insertionSort (· ≤ ·)).take 2 = [0, 1] := by decide

/-- two readers of one shared batch: count (location 7) +1, read the contents (location 3), count -1 -/
def rcProgs : Nat → List (Instr Int)
  | 0 => [.crit 7 (fun _ v => v + 1), .load 0 3, .crit 7 (fun _ v => v + -1)]
  | 1 => [.crit 7 (fun _ v => v + 1), .load 0 3, .crit 7 (fun _ v => v + -1)]
  | _ => []

example : (run (initCfg (fun l => if l = 7 then 1 else 42) (fun _ _ => 0) rcProgs) [0, 1, 1, 0]).mem 7 = 3 ∧
          (run (initCfg (fun l => if l = 7 then 1 else 42) (fun _ _ => 0) rcProgs) [0, 1, 1, 0, 0, 1]).mem 7 = 1 ∧
          ((run (initCfg (fun l => if l = 7 then 1 else 42) (fun _ _ => 0) rcProgs) [0, 1, 1, 0, 0, 1]).ths 1).regs 0 = 42 := by decide

example : Gen.ParRegions.Site1.start 7 3 1 = 3 ∧ Gen.ParRegions.Site1.stop 7 3 2 = 7 := by decide

/-! ### non-vacuity -/

/-- two threads, disjoint writes: thread 0 copies loc 0 to loc 10, thread 1 copies loc 1 to loc 11 -/
def demoProgs : Nat → List (Instr Nat)
  | 0 => [.load 0 0, .store 10 (fun r => r 0 + 1)]
  | 1 => [.load 0 1, .store 11 (fun r => r 0 * 2)]
  | _ => []

example : DRF demoProgs := by
  constructor
  · intro t u htu l hl hacc
    match t, u with
    | 0, 0 => exact htu rfl
    | 1, 1 => exact htu rfl
    | 0, 1 => simp [demoProgs, writes, accessed, reads] at hl hacc; subst hl; simp at hacc
    | 1, 0 => simp [demoProgs, writes, accessed, reads] at hl hacc; subst hl; simp at hacc
    | 0, n+2 => simp [demoProgs, accessed, reads, writes] at hacc
    | 1, n+2 => simp [demoProgs, accessed, reads, writes] at hacc
    | n+2, _ => simp [demoProgs, writes] at hl
  · intro t
    match t with
    | 0 => rfl
    | 1 => rfl
    | n+2 => rfl

/-- two different interleavings of `demoProgs` finish and agree (instance of the theorem, computed) -/
example : (run (initCfg (fun l => l + 5) (fun _ _ => 0) demoProgs) [0, 1, 0, 1]).mem 10 = 6 ∧
          (run (initCfg (fun l => l + 5) (fun _ _ => 0) demoProgs) [1, 1, 0, 0]).mem 11 = 12 := by decide

/-- a racy pair of programs really is schedule dependent in this machine (so `DRF` is not vacuous) -/
def racyProgs : Nat → List (Instr Nat)
  | 0 => [.load 0 0, .store 0 (fun r => r 0 + 1)]
  | 1 => [.load 0 0, .store 0 (fun r => r 0 + 1)]
  | _ => []

theorem racy_is_schedule_dependent :
    (run (initCfg (fun _ => 0) (fun _ _ => 0) racyProgs) [0, 0, 1, 1]).mem 0 = 2 ∧
    (run (initCfg (fun _ => 0) (fun _ _ => 0) racyProgs) [0, 1, 0, 1]).mem 0 = 1 := by decide

/-- two threads, each loads its own input and adds it to the shared accumulator (location 9) under the lock -/
def sumProgs : Nat → List (Instr Nat)
  | 0 => [.load 0 0, .crit 9 (fun r acc => acc + r 0)]
  | 1 => [.load 0 1, .crit 9 (fun r acc => acc + r 0)]
  | _ => []

/-- both interleavings of `sumProgs` (and hence all, by the theorem) give 100 + 5 + 6 -/
example : (run (initCfg (fun l => if l = 9 then 100 else l + 5) (fun _ _ => 0) sumProgs) [0, 1, 1, 0]).mem 9 = 111 ∧
          (run (initCfg (fun l => if l = 9 then 100 else l + 5) (fun _ _ => 0) sumProgs) [1, 1, 0, 0]).mem 9 = 111 := by decide

example : Gen.ParRegions.Site1.start 10 4 1 = 3 ∧ Gen.ParRegions.Site1.stop 10 4 3 = 10 := by decide

end SharkVerif.C20
