/-
C16 — Multi-class and linear SVM solvers are configuration-invariant and consistent.

Property theorems.  Sections:
  1. the coefficient tables (`Gen/McTables.lean`, regenerated from CSvmTrainer.h on every
     run): `M_is_gram_of_nu` for ALL class counts c ≥ 2 and every formulation family, table
     well-formedness and capacity (memory safety of the unchecked `QpSparseArray::add`);
  (further sections are added below as the models grow)

Models: `Model/McSparse.lean`, `Model/McSmo.lean`; helper lemmas: `Lemmas/McTables.lean`.
Tie to the C++: translator T2 + correspondence K-C16 (checks/c16.py).
-/
import SharkVerif.Lemmas.McTables
namespace SharkVerif.C16
open SharkVerif.Mc SharkVerif.Gen.McTables SharkVerif.McTables

/-! ## 1. Coefficient tables -/

/-- the four table constructors of `CSvmTrainer` -/
inductive Family where
  | WWCS | ATMATS | ADMLLW | MMR
  deriving DecidableEq, Repr

namespace Family
/-- number of dual variables per example (`M.width()`) -/
def P : Family → Nat → Nat
  | WWCS, c => c - 1 | ATMATS, c => c | ADMLLW, c => c - 1 | MMR, _ => 1
def nu : Family → Nat → Sparse Rat
  | WWCS, c => WWCS_nu c | ATMATS, c => ATMATS_nu c | ADMLLW, c => ADMLLW_nu c | MMR, c => MMR_nu c
def M : Family → Nat → Sparse Rat
  | WWCS, c => WWCS_M c | ATMATS, c => ATMATS_M c | ADMLLW, c => ADMLLW_M c | MMR, c => MMR_M c
/-- is the Gram matrix taken after projection onto the sum-to-zero subspace? -/
def centred : Family → Bool
  | WWCS => false | _ => true
end Family

/-- **M is the Gram matrix of nu**, for every class count `c ≥ 2`, every family, all labels
`y, y' < c` and all dual-variable indices `p, p' < P`:
`M(c·(y·P+p)+y', p') = ⟨ν(y,p), ν(y',p')⟩`, minus `(Σν(y,p))(Σν(y',p'))/c` for the
sum-to-zero families — the quadratic form the decomposition solvers work on *is* the
formulation's dual.  Stated on the definitions generated from the C++ source. -/
theorem M_is_gram_of_nu (f : Family) (c : Nat) (hc : 2 ≤ c) (y p y' p' : Nat)
    (hy : y < c) (hp : p < f.P c) (hy' : y' < c) (hp' : p' < f.P c) :
    mAt (f.M c) c (f.P c) y p y' p' =
      if f.centred then gramCentered (f.nu c) c (f.P c) y p y' p' else gram (f.nu c) c (f.P c) y p y' p' := by
  cases f with
  | WWCS => exact WWCS_M_is_gram c hc y p y' p' hy hp hy' hp'
  | ATMATS => exact ATMATS_M_is_gram c hc y p y' p' hy hp hy' hp'
  | ADMLLW => exact ADMLLW_M_is_gram c hc y p y' p' hy hp hy' hp'
  | MMR =>
    have h0 : p = 0 := by simp [Family.P] at hp; exact hp
    have h0' : p' = 0 := by simp [Family.P] at hp'; exact hp'
    subst h0; subst h0'
    exact MMR_M_is_gram c hc y y' hy hy'

/-- for WW/CS the coefficient vectors sum to zero, so centring changes nothing: the uniform
statement `M = centred Gram matrix` holds for all four families -/
theorem M_is_centred_gram_all (f : Family) (c : Nat) (hc : 2 ≤ c) (y p y' p' : Nat)
    (hy : y < c) (hp : p < f.P c) (hy' : y' < c) (hp' : p' < f.P c) :
    mAt (f.M c) c (f.P c) y p y' p' = gramCentered (f.nu c) c (f.P c) y p y' p' := by
  cases f with
  | WWCS =>
    rw [M_is_gram_of_nu .WWCS c hc y p y' p' hy hp hy' hp']
    simp only [Family.centred, Family.nu, Family.P, gramCentered]
    rw [WWCS_nu_sum_zero c hc y p hy hp]; simp
  | ATMATS => exact M_is_gram_of_nu .ATMATS c hc y p y' p' hy hp hy' hp'
  | ADMLLW => exact M_is_gram_of_nu .ADMLLW c hc y p y' p' hy hp hy' hp'
  | MMR => exact M_is_gram_of_nu .MMR c hc y p y' p' hy hp hy' hp'

/-- non-vacuity: the hypotheses are satisfiable and the statement is not `0 = 0`
(WW with three classes: `M((0,0),(0,0)) = 1/2`) -/
example : mAt (Family.WWCS.M 3) 3 (Family.WWCS.P 3) 0 0 0 0 = 1 / 2 := by
  rw [M_is_gram_of_nu .WWCS 3 (by omega) 0 0 0 0 (by omega) (by simp [Family.P]) (by omega) (by simp [Family.P])]
  simp only [Family.centred, Family.nu, Family.P, gram, Bool.false_eq_true, ↓reduceIte]
  rw [Finset.sum_range_succ, Finset.sum_range_succ, Finset.sum_range_one]
  simp only [WWCS_nu_at 3 (by omega) 0 0 _ (by omega) (by omega), WWCS_nu_row_get, up]
  norm_num

/-- every row of every generated `M` has pairwise distinct column indices below the width
(so `operator()`, the sparse loops of `gradientUpdate` and the dense row agree) -/
theorem M_rows_wellformed (f : Family) (c : Nat) (hc : 2 ≤ c) (r : Nat) :
    RowWF ((f.M c).row r) (f.P c) := by
  cases f with
  | WWCS => exact WWCS_M_row_wf c hc r
  | ATMATS => exact ATMATS_M_row_wf c hc r
  | ADMLLW => exact ADMLLW_M_row_wf c hc r
  | MMR => exact MMR_M_row_wf c hc r

/-- the loops write exactly `height` rows and never more entries than `resize` reserved
(`QpSparseArray::add` does not check its capacity when NDEBUG is defined) -/
theorem tables_fit (f : Family) (c : Nat) (hc : 2 ≤ c) :
    (f.nu c).rows.length = (f.nu c).height ∧ (f.M c).rows.length = (f.M c).height ∧
    (f.nu c).used ≤ (f.nu c).space ∧ (f.M c).used ≤ (f.M c).space := by
  have h1 := tables_rows_length c hc
  have h2 := tables_space_suffices c hc
  cases f <;> simp only [Family.nu, Family.M] <;> tauto

end SharkVerif.C16
