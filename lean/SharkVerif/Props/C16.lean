/-
C16 — Multi-class and linear SVM solvers are configuration-invariant and consistent.

Property theorems.  Sections:
  1. the coefficient tables (`Gen/McTables.lean`, regenerated from CSvmTrainer.h on every
     run): `M_is_gram_of_nu` for ALL class counts c ≥ 2 and every formulation family, table
     well-formedness and capacity (memory safety of the unchecked `QpSparseArray::add`);
  2. the decomposition state of `QpMcBoxDecomp` (`Model/McSmo.lean`): `mc_tables_inv`,
     `mc_box_inv`, `mc_grad_inv` hold initially, are preserved by EVERY operation (updateSMO,
     deactivateVariable, deactivateExample, shrink, unshrink, addDeltaLinear) and hence hold after
     every valid finite history of operations — also for the problem built from the generated tables;
  3. decision logic of the trainers (generated from CSvmTrainer.h): `two_class_dispatch`,
     `ova_is_binary_per_class`;
  4. the dedicated linear solver (`Model/McLinear.lean`, QpBoxLinear): `linear_w_inv`,
     `linear_box_inv` along every schedule, `linear_step_gain_nonneg_partial`;
  5. configuration invariance in exact arithmetic: `mc_kkt_eps_near_optimal`,
     `two_stopped_configurations_close`, `stopped_state_near_optimal`, `mc_objective_recomputed`,
     `perm_examples_equivariant`, `generated_Q_psd`.

Models: `Model/McSparse.lean`, `Model/McSmo.lean`; helper lemmas: `Lemmas/McTables.lean`.
Tie to the C++: translator T2 + correspondence K-C16 (checks/c16.py).
-/
import SharkVerif.Lemmas.McTables
import SharkVerif.Lemmas.McSmoAll
import SharkVerif.Lemmas.McLinear
import SharkVerif.Lemmas.McOptimality
import SharkVerif.Lemmas.McPerm
import SharkVerif.Lemmas.McPsd
import SharkVerif.Lemmas.McObjective
import SharkVerif.Lemmas.McSolve
import SharkVerif.Lemmas.McSimplex
import SharkVerif.Lemmas.McLinearMc
import SharkVerif.Lemmas.McBias
import SharkVerif.Lemmas.McSolveStuck
import SharkVerif.Lemmas.McDecision
import SharkVerif.Lemmas.McSimplexRenum
import SharkVerif.Lemmas.McSimplexGap
import SharkVerif.Lemmas.McLinearMcSum
import SharkVerif.Lemmas.McLinearEpoch
import SharkVerif.Lemmas.McRprop
namespace SharkVerif.C16
open SharkVerif.Mc SharkVerif.Gen.McTables SharkVerif.McTables

/-! ## 1. Coefficient tables -/

/-- the four table constructors of `CSvmTrainer` -/
inductive Family where
  | WWCS | ATMATS | ADMLLW | MMR
  deriving DecidableEq, Repr

namespace Family
/-- number of dual variables per example (`M.width()`) -/
def P : Family → Nat → Nat
  | WWCS, c => c - 1 | ATMATS, c => c | ADMLLW, c => c - 1 | MMR, _ => 1
def nu : Family → Nat → Sparse Rat
  | WWCS, c => WWCS_nu c | ATMATS, c => ATMATS_nu c | ADMLLW, c => ADMLLW_nu c | MMR, c => MMR_nu c
def M : Family → Nat → Sparse Rat
  | WWCS, c => WWCS_M c | ATMATS, c => ATMATS_M c | ADMLLW, c => ADMLLW_M c | MMR, c => MMR_M c
/-- is the Gram matrix taken after projection onto the sum-to-zero subspace? -/
def centred : Family → Bool
  | WWCS => false | _ => true
end Family

/-- **M is the Gram matrix of nu**, for every class count `c ≥ 2`, every family, all labels
`y, y' < c` and all dual-variable indices `p, p' < P`:
`M(c·(y·P+p)+y', p') = ⟨ν(y,p), ν(y',p')⟩`, minus `(Σν(y,p))(Σν(y',p'))/c` for the
sum-to-zero families — the quadratic form the decomposition solvers work on *is* the
formulation's dual.  Stated on the definitions generated from the C++ source. -/
theorem M_is_gram_of_nu (f : Family) (c : Nat) (hc : 2 ≤ c) (y p y' p' : Nat)
    (hy : y < c) (hp : p < f.P c) (hy' : y' < c) (hp' : p' < f.P c) :
    mAt (f.M c) c (f.P c) y p y' p' =
      if f.centred then gramCentered (f.nu c) c (f.P c) y p y' p' else gram (f.nu c) c (f.P c) y p y' p' := by
  cases f with
  | WWCS => exact WWCS_M_is_gram c hc y p y' p' hy hp hy' hp'
  | ATMATS => exact ATMATS_M_is_gram c hc y p y' p' hy hp hy' hp'
  | ADMLLW => exact ADMLLW_M_is_gram c hc y p y' p' hy hp hy' hp'
  | MMR =>
    have h0 : p = 0 := by simp [Family.P] at hp; exact hp
    have h0' : p' = 0 := by simp [Family.P] at hp'; exact hp'
    subst h0; subst h0'
    exact MMR_M_is_gram c hc y y' hy hy'

/-- for WW/CS the coefficient vectors sum to zero, so centring changes nothing: the uniform
statement `M = centred Gram matrix` holds for all four families -/
theorem M_is_centred_gram_all (f : Family) (c : Nat) (hc : 2 ≤ c) (y p y' p' : Nat)
    (hy : y < c) (hp : p < f.P c) (hy' : y' < c) (hp' : p' < f.P c) :
    mAt (f.M c) c (f.P c) y p y' p' = gramCentered (f.nu c) c (f.P c) y p y' p' := by
  cases f with
  | WWCS =>
    rw [M_is_gram_of_nu .WWCS c hc y p y' p' hy hp hy' hp']
    simp only [Family.centred, Family.nu, Family.P, gramCentered]
    rw [WWCS_nu_sum_zero c hc y p hy hp]; simp
  | ATMATS => exact M_is_gram_of_nu .ATMATS c hc y p y' p' hy hp hy' hp'
  | ADMLLW => exact M_is_gram_of_nu .ADMLLW c hc y p y' p' hy hp hy' hp'
  | MMR => exact M_is_gram_of_nu .MMR c hc y p y' p' hy hp hy' hp'

/-- non-vacuity: the hypotheses are satisfiable and the statement is not `0 = 0`
(WW with three classes: `M((0,0),(0,0)) = 1/2`) -/
example : mAt (Family.WWCS.M 3) 3 (Family.WWCS.P 3) 0 0 0 0 = 1 / 2 := by
  rw [M_is_gram_of_nu .WWCS 3 (by omega) 0 0 0 0 (by omega) (by simp [Family.P]) (by omega) (by simp [Family.P])]
  simp only [Family.centred, Family.nu, Family.P, gram, Bool.false_eq_true, ↓reduceIte]
  rw [Finset.sum_range_succ, Finset.sum_range_succ, Finset.sum_range_one]
  simp only [WWCS_nu_at 3 (by omega) 0 0 _ (by omega) (by omega), WWCS_nu_row_get, up]
  norm_num

/-- every row of every generated `M` has pairwise distinct column indices below the width
(so `operator()`, the sparse loops of `gradientUpdate` and the dense row agree) -/
theorem M_rows_wellformed (f : Family) (c : Nat) (hc : 2 ≤ c) (r : Nat) :
    RowWF ((f.M c).row r) (f.P c) := by
  cases f with
  | WWCS => exact WWCS_M_row_wf c hc r
  | ATMATS => exact ATMATS_M_row_wf c hc r
  | ADMLLW => exact ADMLLW_M_row_wf c hc r
  | MMR => exact MMR_M_row_wf c hc r

/-- the loops write exactly `height` rows and never more entries than `resize` reserved
(`QpSparseArray::add` does not check its capacity when NDEBUG is defined) -/
theorem tables_fit (f : Family) (c : Nat) (hc : 2 ≤ c) :
    (f.nu c).rows.length = (f.nu c).height ∧ (f.M c).rows.length = (f.M c).height ∧
    (f.nu c).used ≤ (f.nu c).space ∧ (f.M c).used ≤ (f.M c).space := by
  have h1 := tables_rows_length c hc
  have h2 := tables_space_suffices c hc
  cases f <;> simp only [Family.nu, Family.M] <;> tauto


/-! ## 2. The decomposition state of `QpMcBoxDecomp` -/

/-- `Q = M ⊗ K` is symmetric for every generated table: `M((y,p),(y',p')) = M((y',p'),(y,p))`
(a corollary of `M_is_gram_of_nu`: Gram matrices are symmetric) -/
theorem generated_M_symmetric (f : Family) (c : Nat) (hc : 2 ≤ c) (y p y' p' : Nat)
    (hy : y < c) (hy' : y' < c) (hp : p < f.P c) (hp' : p' < f.P c) :
    ((f.M c).row (c * (f.P c * y + p) + y')).get p' = ((f.M c).row (c * (f.P c * y' + p') + y)).get p := by
  have h1 := M_is_centred_gram_all f c hc y p y' p' hy hp hy' hp'
  have h2 := M_is_centred_gram_all f c hc y' p' y p hy' hp' hy hp
  unfold mAt Sparse.get at h1 h2
  rw [Nat.mul_comm (f.P c) y, Nat.mul_comm (f.P c) y', h1, h2]
  unfold gramCentered gram
  congr 1
  · exact Finset.sum_congr rfl fun k _ => mul_comm _ _
  · ring

/-- the problem `QpMcBoxDecomp(kernel, M, labels, linear, C)` for a generated table -/
def problem (f : Family) (c n : Nat) (C : Rat) (K : Nat → Nat → Rat) (labels : Nat → Nat)
    (linMat : Nat → Nat → Rat) : McBox Rat :=
  McBox.init c (f.P c) n C (fun r => (f.M c).row r) K labels linMat

/-- all invariants hold for the freshly constructed problem, for every formulation family, every
class count `c ≥ 2`, every number of examples, every symmetric matrix `K`, all labels `< c` -/
theorem invariants_initially (f : Family) (c n : Nat) (hc : 2 ≤ c) (C : Rat) (hC : 0 ≤ C)
    (K : Nat → Nat → Rat) (hK : ∀ i j, K i j = K j i) (labels : Nat → Nat) (hl : ∀ i < n, labels i < c)
    (linMat : Nat → Nat → Rat) : FullInv (problem f c n C K labels linMat) := by
  have hP : 0 < f.P c := by cases f <;> simp [Family.P] <;> omega
  exact fullInv_init c (f.P c) n C hC _ K labels linMat hP
    (fun r => M_rows_wellformed f c hc r)
    (fun y p y' p' hy hy' hp hp' => generated_M_symmetric f c hc y p y' p' hy hy' hp hp')
    hK hl

/-- **mc_tables_inv**: after every valid finite history of operations on the problem built from a
generated table, the example/variable tables are mutually inverse permutations with a consistent
active/inactive split. -/
theorem mc_tables_inv (f : Family) (c n : Nat) (hc : 2 ≤ c) (C : Rat) (hC : 0 ≤ C)
    (K : Nat → Nat → Rat) (hK : ∀ i j, K i j = K j i) (labels : Nat → Nat) (hl : ∀ i < n, labels i < c)
    (linMat : Nat → Nat → Rat) (ops : List Op) (hv : ValidRun (problem f c n C K labels linMat) ops) :
    TablesInv ((problem f c n C K labels linMat).run ops) :=
  (fullInv_run ops _ (invariants_initially f c n hc C hC K hK labels hl linMat) hv).tables

/-- **mc_box_inv**: `0 ≤ α ≤ C` after every valid history. -/
theorem mc_box_inv (f : Family) (c n : Nat) (hc : 2 ≤ c) (C : Rat) (hC : 0 ≤ C)
    (K : Nat → Nat → Rat) (hK : ∀ i j, K i j = K j i) (labels : Nat → Nat) (hl : ∀ i < n, labels i < c)
    (linMat : Nat → Nat → Rat) (ops : List Op) (hv : ValidRun (problem f c n C K labels linMat) ops) :
    BoxInv ((problem f c n C K labels linMat).run ops) :=
  (fullInv_run ops _ (invariants_initially f c n hc C hC K hK labels hl linMat) hv).box

/-- **mc_grad_inv**: after every valid history the stored gradient of every active variable is
`lin − Q·α` with `Q = M ⊗ K` (sum over all variables, shrunk or not). -/
theorem mc_grad_inv (f : Family) (c n : Nat) (hc : 2 ≤ c) (C : Rat) (hC : 0 ≤ C)
    (K : Nat → Nat → Rat) (hK : ∀ i j, K i j = K j i) (labels : Nat → Nat) (hl : ∀ i < n, labels i < c)
    (linMat : Nat → Nat → Rat) (ops : List Op) (hv : ValidRun (problem f c n C K labels linMat) ops) :
    GradInv ((problem f c n C K labels linMat).run ops) :=
  (fullInv_run ops _ (invariants_initially f c n hc C hC K hK labels hl linMat) hv).grad

/-- in particular after `unshrink` (all variables active) the whole gradient is exact -/
theorem grad_exact_after_unshrink (s : McBox Rat) (h : FullInv s) :
    ∀ v < s.P * s.n, s.unshrink.grad v = s.unshrink.lin v - ∑ w ∈ Finset.range (s.P * s.n), s.unshrink.Q v w * s.unshrink.alpha w := by
  have h' := fullInv_apply s h .unshrink trivial
  have hg := h'.grad
  intro v hv
  have hav : (s.apply .unshrink).activeVar = s.P * s.n := by
    simp only [McBox.apply, McBox.unshrink]
    split
    · rename_i he; simpa [McBox.numVars] using he
    · rfl
  have hs := sameStatic_apply s .unshrink
  have := hg v (by rw [hav]; exact hv)
  simpa [McBox.apply, hs.2.1, hs.2.2.1] using this

/-- the invariants are stated for arbitrary tables too (any well-formed symmetric `M`): every
valid op preserves all of them (`fullInv_apply`), over all histories (`fullInv_run`). -/
theorem invariants_all_histories (s : McBox Rat) (h : FullInv s) (ops : List Op) (hv : ValidRun s ops) :
    FullInv (s.run ops) := fullInv_run ops s h hv

/-- non-vacuity: a valid two-step history on a two-example WW problem (an SMO step on variable 0,
then a shrink) -/
example : ValidRun (problem .WWCS 2 2 1 (fun i j => if i = j then 1 else 0) (fun i => i) (fun _ _ => 1))
    [.smo 0 0, .shrink 1] := by
  refine ⟨?_, trivial, trivial⟩
  simp [Op.valid, problem, McBox.init, Family.P]

/-- `label(i)` as it must behave (and as the model defines it): the label of dataset example `i`,
whatever the internal order.  What the UNPATCHED C++ returns is `(ex i).y`, the label of the example
currently at position `i`; by `label_eq` of `mc_tables_inv` that is `labels (ex i).index`, which
differs from `labels i` as soon as a `deactivateExample` has moved example `i` (finding F-C16-1). -/
theorem label_at_position (s : McBox Rat) (h : TablesInv s) (i : Nat) (hi : i < s.n) :
    (s.ex i).y = s.labels (s.ex i).index := h.label_eq i hi

/-! ## 3. Decision logic of the trainers (generated from CSvmTrainer.h) -/

/-- **two_class_dispatch**: on two-class data EVERY formulation is trained by the binary path -/
theorem two_class_dispatch (t : McSvm) : dispatch 2 t = TrainPath.binary := by
  cases t <;> rfl

/-- and so is every formulation of the dedicated linear trainer -/
theorem two_class_dispatch_linear (t : McSvm) : linearDispatch 2 t = "QpBoxLinear" := by
  cases t <;> rfl

/-- **ova_is_binary_per_class** (decision logic): one-versus-all never reaches the multi-class
decomposition solvers: for every class count it is the binary path (2 classes) or `trainOVA`, which
trains one binary machine per class (that column `c` of the result IS the binary machine of class `c`
against the rest is checked on the real code by the harness oracle, bit for bit) -/
theorem ova_is_binary_per_class (classes : Nat) :
    dispatch classes .OVA = (if classes = 2 then TrainPath.binary else TrainPath.ova) := by
  unfold dispatch; split <;> simp

/-- every other formulation with more than two classes solves the dual given by one of the four
generated table families — the tables `M_is_gram_of_nu` is about -/
theorem mc_dispatch_uses_generated_tables (classes : Nat) (h : classes ≠ 2) (t : McSvm) (ht : t ≠ .OVA) :
    ∃ fam stz sx, dispatch classes t = .mc fam stz sx ∧ fam ∈ ["WWCS", "ATMATS", "ADMLLW", "MMR"] := by
  cases t <;> simp [dispatch, h] at ht ⊢

/-! ## 4. The dedicated linear solver (QpBoxLinear coordinate step) -/

/-- **linear_w_inv** and **linear_box_inv**: for every data set, every bound ≥ 0, every schedule
(any order, any repetitions — the random, preference-driven scheduling of the C++ is irrelevant),
after the sweep `w = Σ_i α_i y_i x_i` and `0 ≤ α ≤ bound`, starting from the fresh solver -/
theorem linear_w_inv (D : LinData Rat) (hb : 0 ≤ D.bound) (sched : List Nat) (hs : ∀ i ∈ sched, i < D.n) :
    WInv D (linSweep D linInit sched) :=
  (lin_inv_sweep D hb sched hs _ (wInv_init D) (linBoxInv_init D hb)).1

theorem linear_box_inv (D : LinData Rat) (hb : 0 ≤ D.bound) (sched : List Nat) (hs : ∀ i ∈ sched, i < D.n) :
    LinBoxInv D (linSweep D linInit sched) :=
  (lin_inv_sweep D hb sched hs _ (wInv_init D) (linBoxInv_init D hb)).2

/-- **linear_step_gain_nonneg** — PARTIAL: proved under `0 < |x_i|² + reg`.  The full statement
(no hypothesis on `q`) is not a theorem of the exact-arithmetic model: for `x_i = 0`, `reg = 0`
the C++ computes `g/0 = ±inf` and clips, whereas `Rat` division by zero is `0`; the real code accepts
zero input vectors, so that case is covered by the correspondence only. -/
theorem linear_step_gain_nonneg_partial (D : LinData Rat) (s : LinState Rat) (i : Nat)
    (hq : 0 < D.xsq i + D.reg) (ha : 0 ≤ s.alpha i) (hab : s.alpha i ≤ D.bound) :
    0 ≤ (linStep D s i).2 := linStep_gain_nonneg D s i hq ha hab

/-- non-vacuity of the hypotheses of `linear_step_gain_nonneg_partial` -/
example : ∃ (D : LinData Rat) (s : LinState Rat), 0 < D.xsq 0 + D.reg ∧ 0 ≤ s.alpha 0 ∧ s.alpha 0 ≤ D.bound :=
  ⟨{ n := 1, d := 1, x := fun _ _ => 1, ysign := fun _ => 1, xsq := fun _ => 1, bound := 1, reg := 0, offset := 0 },
   linInit, by norm_num, by simp only [linInit]; norm_num, by simp only [linInit]; norm_num⟩


/-! ## 5. Configuration invariance (shrinking on/off, cache size, precomputed matrix, example order) -/

/-- **kkt_eps_near_optimal**: for a concave quadratic dual (`Q` symmetric positive semidefinite) over the box
`[0,C]^N`, every feasible point that satisfies the KKT conditions up to `eps` — which is what the solver's stopping
rule `checkKKT() ≤ eps` asserts of its final point — has an objective within `eps·N·C` of EVERY feasible point, in
particular of the optimum.  No assumption on how the point was reached: shrinking, cache size, working-set
sequence and the order of the examples do not enter. -/
theorem mc_kkt_eps_near_optimal (N : Nat) (lin : Nat → Rat) (Q : Nat → Nat → Rat) (C eps : Rat)
    (hC : 0 ≤ C) (heps : 0 ≤ eps) (hsym : ∀ v < N, ∀ w < N, Q v w = Q w v) (hpsd : PSD N Q)
    (a b : Nat → Rat) (ha : Feasible N C a) (hb : Feasible N C b)
    (hk : KKTeps N C eps a (dualGrad N lin Q a)) :
    dualObj N lin Q b - dualObj N lin Q a ≤ eps * N * C :=
  kkt_eps_near_optimal N lin Q C eps hC heps hsym hpsd a b ha hb hk

/-- hence any two configurations that both stop with accuracy `eps` on the same dual reach objectives within
`eps·N·C` of each other (`N = n·P` variables) — the bound the trainer-level comparison uses as its tolerance -/
theorem two_stopped_configurations_close (N : Nat) (lin : Nat → Rat) (Q : Nat → Nat → Rat) (C eps : Rat)
    (hC : 0 ≤ C) (heps : 0 ≤ eps) (hsym : ∀ v < N, ∀ w < N, Q v w = Q w v) (hpsd : PSD N Q)
    (a b : Nat → Rat) (ha : Feasible N C a) (hb : Feasible N C b)
    (hka : KKTeps N C eps a (dualGrad N lin Q a)) (hkb : KKTeps N C eps b (dualGrad N lin Q b)) :
    |dualObj N lin Q b - dualObj N lin Q a| ≤ eps * N * C :=
  two_kkt_points_close N lin Q C eps hC heps hsym hpsd a b ha hb hka hkb

/-- the link to the decomposition model: in a state reached by ANY valid history that ends with all variables
active (after `unshrink`, as in `QpSolver::solve` before its final KKT test), the STORED gradient is the true
gradient (`mc_grad_inv`), so an eps-KKT stored gradient certifies near-optimality of the stored `alpha` -/
theorem stopped_state_near_optimal (s : McBox Rat) (h : FullInv s) (hall : s.activeVar = s.P * s.n)
    (eps : Rat) (heps : 0 ≤ eps)
    (hsym : ∀ v < s.P * s.n, ∀ w < s.P * s.n, s.Q v w = s.Q w v) (hpsd : PSD (s.P * s.n) s.Q)
    (hk : KKTeps (s.P * s.n) s.C eps s.alpha s.grad)
    (b : Nat → Rat) (hbf : Feasible (s.P * s.n) s.C b) :
    dualObj (s.P * s.n) s.lin s.Q b - dualObj (s.P * s.n) s.lin s.Q s.alpha ≤ eps * (s.P * s.n : Nat) * s.C :=
  state_near_optimal s hall h.grad h.box h.C_nonneg eps heps hsym hpsd hk b hbf

/-- **perm_examples_equivariant**: presenting the examples in another order `σ` (labels, kernel matrix and linear
part permuted accordingly) yields the SAME dual problem up to the induced renumbering `(i,p) ↦ (σ i, p)` of the
variables: `Q'(v,w) = Q(σ̂ v, σ̂ w)` and `lin'(v) = lin(σ̂ v)`, for every formulation family and class count.
Together with `mc_kkt_eps_near_optimal` this is the "any reordering of the training examples" clause in exact
arithmetic (for a bijective `σ` the two objectives are the same function up to renaming). -/
theorem perm_examples_equivariant (f : Family) (c n : Nat) (hc : 2 ≤ c) (C : Rat) (K : Nat → Nat → Rat)
    (labels : Nat → Nat) (linMat : Nat → Nat → Rat) (σ : Nat → Nat) (v w : Nat) :
    (problem f c n C (fun i j => K (σ i) (σ j)) (fun i => labels (σ i)) (fun i p => linMat (σ i) p)).Q v w
      = (problem f c n C K labels linMat).Q (liftPerm (f.P c) σ v) (liftPerm (f.P c) σ w) ∧
    (problem f c n C (fun i j => K (σ i) (σ j)) (fun i => labels (σ i)) (fun i p => linMat (σ i) p)).lin v
      = (problem f c n C K labels linMat).lin (liftPerm (f.P c) σ v) := by
  have hP : 0 < f.P c := by cases f <;> simp [Family.P] <;> omega
  exact perm_examples_equivariant_Q c (f.P c) n hP C _ K labels linMat σ v w

/-- **mc_objective_recomputed**: what `functionValue()` returns, `½·⟨gradient + linear, alpha⟩`, IS the dual objective
`lin·α − ½ αᵀQα` in every state with all variables active that satisfies `mc_grad_inv` (e.g. the state in which
`QpSolver::solve` fills in `QpSolutionProperties::value`) -/
theorem mc_objective_recomputed (s : McBox Rat) (h : FullInv s) (hall : s.activeVar = s.P * s.n) :
    (1/2) * ∑ v ∈ Finset.range (s.P * s.n), (s.grad v + s.lin v) * s.alpha v
      = dualObj (s.P * s.n) s.lin s.Q s.alpha := by
  rw [← functionValue_eq_dualObj]
  congr 1
  apply Finset.sum_congr rfl
  intro v hv
  have hg := (gradInv_iff_dualGrad s).1 h.grad v (by rw [hall]; exact Finset.mem_range.1 hv)
  rw [hg]

/-- Gram matrices are positive semidefinite (the hypothesis `PSD` above is satisfiable by every kernel matrix of
explicit features; for `Q = M ⊗ K` see `generated_Q_psd` below) -/
theorem gram_is_psd (N T : Nat) (F : Nat → Nat → Rat) : PSD N (fun v w => ∑ t ∈ Finset.range T, F v t * F w t) :=
  psd_of_gram N T F

/-- **Kronecker step, formalised**: for every formulation family and class count, if the kernel matrix is a Gram
matrix of explicit feature vectors (`K i j = Σ_t φ i t · φ j t`, e.g. the linear and polynomial kernels on the
training points), then `Q = M ⊗ K` of the constructed problem is positive semidefinite — `M` being the (centred)
Gram matrix of `ν` by `M_is_gram_of_nu`.  This discharges the `PSD` hypothesis of `stopped_state_near_optimal` /
`mc_kkt_eps_near_optimal` for the freshly built problem (and `Q` only gets renumbered by the operations). -/
theorem generated_Q_psd (f : Family) (c n : Nat) (hc : 2 ≤ c) (C : Rat) (T : Nat) (φ : Nat → Nat → Rat)
    (labels : Nat → Nat) (hl : ∀ i < n, labels i < c) (linMat : Nat → Nat → Rat) :
    PSD (f.P c * n) (problem f c n C (fun i j => ∑ t ∈ Finset.range T, φ i t * φ j t) labels linMat).Q := by
  have hP : 0 < f.P c := by cases f <;> simp [Family.P] <;> omega
  refine (psd_of_centred_gram_kron (f.P c * n) c T (by omega)
      (fun v k => nuAt (f.nu c) (f.P c) (labels (v / f.P c)) (v % f.P c) k)
      (fun v t => φ (v / f.P c) t)).congr ?_
  intro v hv w hw
  have hvn : v / f.P c < n := Nat.div_lt_of_lt_mul hv
  have hwn : w / f.P c < n := Nat.div_lt_of_lt_mul hw
  have h := M_is_centred_gram_all f c hc (labels (v / f.P c)) (v % f.P c) (labels (w / f.P c)) (w % f.P c)
    (hl _ hvn) (Nat.mod_lt _ hP) (hl _ hwn) (Nat.mod_lt _ hP)
  unfold mAt Sparse.get gramCentered gram nuSum at h
  simp only [problem, McBox.Q, McBox.init, McBox.Mget]
  rw [Nat.mul_comm (f.P c) (labels (v / f.P c)), h]

/-- non-vacuity of the hypotheses of `mc_kkt_eps_near_optimal`: one variable, `Q = 1`, `lin = 1`, `C = 2`:
`a = 1` is exactly optimal (gradient 0) -/
example : ∃ (a : Nat → Rat), Feasible 1 2 a ∧ KKTeps 1 2 0 a (dualGrad 1 (fun _ => 1) (fun _ _ => 1) a) ∧
    PSD 1 (fun _ _ => (1 : Rat)) := by
  refine ⟨fun _ => 1, ?_, ?_, ?_⟩
  · intro v _; norm_num
  · intro v _; simp [dualGrad]
  · intro x; simp; nlinarith [sq_nonneg (x 0)]

/-! ## 6. Whole runs of the decomposition loop `QpSolver::solve` (Model/McSolve.lean) -/

/-- the linear / polynomial-type kernel matrices of the theorems below: Gram matrices of explicit features -/
def gramK (T : Nat) (φ : Nat → Nat → Rat) (i j : Nat) : Rat := ∑ t ∈ Finset.range T, φ i t * φ j t

theorem gramK_symm (T : Nat) (φ : Nat → Nat → Rat) (i j : Nat) : gramK T φ i j = gramK T φ j i :=
  Finset.sum_congr rfl fun _ _ => mul_comm _ _

/-- **every state `QpSolver::solve` reaches** on the problem of any formulation family, any class count `c ≥ 2`, any
data, any accuracy, any iteration limit, with shrinking on or off, satisfies `mc_tables_inv`, `mc_box_inv` and
`mc_grad_inv` (the working-set selection, the step, the periodic shrinking with its unshrink-at-10·eps rule and the
stopping rule are all part of the modelled loop) -/
theorem solve_run_invariants (f : Family) (c n : Nat) (hc : 2 ≤ c) (C : Rat) (hC : 0 ≤ C)
    (K : Nat → Nat → Rat) (hK : ∀ i j, K i j = K j i) (labels : Nat → Nat) (hl : ∀ i < n, labels i < c)
    (linMat : Nat → Nat → Rat) (shrinking : Bool) (eps : Rat) (maxIter : Nat) :
    FullInv (solve { problem f c n C K labels linMat with useShrinking := shrinking } eps maxIter).s :=
  fullInv_solve _ (fullInv_setShrinking _ (invariants_initially f c n hc C hC K hK labels hl linMat) shrinking) eps maxIter

/-- and from ANY state satisfying the invariants (warm start, bias loop re-entering the solver, adversarial history) -/
theorem solve_run_invariants_from (s : McBox Rat) (h : FullInv s) (eps : Rat) (maxIter : Nat) :
    FullInv (solve s eps maxIter).s := fullInv_solve s h eps maxIter

/-- **stop ⇒ KKT(eps)**: if the loop reports `QpAccuracyReached`, all variables are active and the stored gradient,
which by `mc_grad_inv` is the true gradient `lin − Qα`, is eps-KKT -/
theorem solve_stop_is_kkt (s : McBox Rat) (h : FullInv s) (eps : Rat) (maxIter : Nat)
    (hstop : (solve s eps maxIter).stop = .accuracy) :
    (solve s eps maxIter).s.activeVar = (solve s eps maxIter).s.P * (solve s eps maxIter).s.n ∧
    KKTeps ((solve s eps maxIter).s.P * (solve s eps maxIter).s.n) (solve s eps maxIter).s.C eps
      (solve s eps maxIter).s.alpha (solve s eps maxIter).s.grad := solve_stop_kkt s h eps maxIter hstop

/-- **stop ⇒ KKT(eps) ⇒ objective gap, end to end, for the generated problems** (`Q = M ⊗ K`, `M` generated from
CSvmTrainer.h, `K` a Gram matrix): whatever the configuration, if `QpSolver::solve` reports `QpAccuracyReached` then
the dual variables it leaves — read in the ORIGINAL numbering of the problem through the renumbering `τ` built up by
the shrinking operations — are feasible and within `eps·(P·n)·C` of every feasible point of the formulation's dual. -/
theorem solve_generated_near_optimal (f : Family) (c n : Nat) (hc : 2 ≤ c) (C : Rat) (hC : 0 ≤ C)
    (T : Nat) (φ : Nat → Nat → Rat) (labels : Nat → Nat) (hl : ∀ i < n, labels i < c)
    (linMat : Nat → Nat → Rat) (shrinking : Bool) (eps : Rat) (maxIter : Nat)
    (hstop : (solve { problem f c n C (gramK T φ) labels linMat with useShrinking := shrinking } eps maxIter).stop = .accuracy) :
    ∃ τ : Nat → Nat, (∀ v < f.P c * n, τ v < f.P c * n) ∧
      Feasible (f.P c * n) C
        (fun v => (solve { problem f c n C (gramK T φ) labels linMat with useShrinking := shrinking } eps maxIter).s.alpha (τ v)) ∧
      ∀ b, Feasible (f.P c * n) C b →
        dualObj (f.P c * n) (problem f c n C (gramK T φ) labels linMat).lin (problem f c n C (gramK T φ) labels linMat).Q b
          - dualObj (f.P c * n) (problem f c n C (gramK T φ) labels linMat).lin (problem f c n C (gramK T φ) labels linMat).Q
              (fun v => (solve { problem f c n C (gramK T φ) labels linMat with useShrinking := shrinking } eps maxIter).s.alpha (τ v))
          ≤ eps * (f.P c * n : Nat) * C :=
  solve_stop_near_optimal { problem f c n C (gramK T φ) labels linMat with useShrinking := shrinking }
    (fullInv_setShrinking _ (invariants_initially f c n hc C hC _ (gramK_symm T φ) labels hl linMat) shrinking)
    (generated_Q_psd f c n hc C T φ labels hl linMat) eps maxIter hstop

/-- **configuration invariance of the decomposition solver, end to end**: shrinking on/off and the iteration limits
do not matter — any two runs on the same generated problem that report `QpAccuracyReached` have dual objectives
(of the one original dual) within `eps·(P·n)·C`.  The kernel cache does not enter: the model reads `K` as a function
(that a cache of any admissible size returns exactly these entries is property C09); a reordering of the examples
is the renaming `perm_examples_equivariant`. -/
theorem solve_generated_configuration_invariant (f : Family) (c n : Nat) (hc : 2 ≤ c) (C : Rat) (hC : 0 ≤ C)
    (T : Nat) (φ : Nat → Nat → Rat) (labels : Nat → Nat) (hl : ∀ i < n, labels i < c)
    (linMat : Nat → Nat → Rat) (eps : Rat) (sh1 sh2 : Bool) (m1 m2 : Nat)
    (h1 : (solve { problem f c n C (gramK T φ) labels linMat with useShrinking := sh1 } eps m1).stop = .accuracy)
    (h2 : (solve { problem f c n C (gramK T φ) labels linMat with useShrinking := sh2 } eps m2).stop = .accuracy) :
    ∃ τ1 τ2 : Nat → Nat,
      |dualObj (f.P c * n) (problem f c n C (gramK T φ) labels linMat).lin (problem f c n C (gramK T φ) labels linMat).Q
          (fun v => (solve { problem f c n C (gramK T φ) labels linMat with useShrinking := sh1 } eps m1).s.alpha (τ1 v))
        - dualObj (f.P c * n) (problem f c n C (gramK T φ) labels linMat).lin (problem f c n C (gramK T φ) labels linMat).Q
          (fun v => (solve { problem f c n C (gramK T φ) labels linMat with useShrinking := sh2 } eps m2).s.alpha (τ2 v))|
        ≤ eps * (f.P c * n : Nat) * C :=
  solve_configuration_invariant (problem f c n C (gramK T φ) labels linMat)
    (invariants_initially f c n hc C hC _ (gramK_symm T φ) labels hl linMat)
    (generated_Q_psd f c n hc C T φ labels hl linMat) eps sh1 sh2 m1 m2 h1 h2

/-- **the loop never leaves the preconditions of the operations it calls**: for a positive accuracy `updateSMO(i,j)`
is always called with `i, j < m_activeVar` (the SIZE_CHECK that NDEBUG compiles out) — from any state, for any
iteration limit, shrinking on or off.  (`selectWorkingSet` names active variables whenever it reports a positive
violation, and the `shrink` between the two selections of a pass never deactivates a violating variable.) -/
theorem solve_never_stuck_box (s : McBox Rat) (eps : Rat) (heps : 0 < eps) (maxIter : Nat) :
    (solve s eps maxIter).stop ≠ .stuck := solve_never_stuck s eps heps maxIter

/-- non-vacuity of the hypothesis `stop = accuracy`: MMR table, one example, `K = 1`, `C = 1`, accuracy 2: the first
pass sees the violation `1 < 2`, unshrinks, re-checks and stops -/
example : (solve (problem .MMR 2 1 1 (fun _ _ => 1) (fun _ => 0) (fun _ _ => 1)) 2 1).stop = .accuracy := by
  simp [solve, solveLoop, solveBody, McBox.selectWorkingSetFrom, McBox.selectFirst, problem, McBox.init,
    McBox.unshrink, McBox.checkKKT, McBox.maxViolation, McBox.numVars, Family.P, List.range_succ, cmax]
  norm_num
  simp

/-! ## 7. The simplex-constrained decomposition `QpMcSimplexDecomp` (CS, ATM, ADM, MMR; Model/McSimplex.lean) -/

/-- the problem `QpMcSimplexDecomp(kernel, M, labels, linear, C)` for a generated table -/
def simplexProblem (f : Family) (c n : Nat) (C : Rat) (K : Nat → Nat → Rat) (labels : Nat → Nat)
    (linMat : Nat → Nat → Rat) : McSx Rat :=
  McSx.init c (f.P c) n C (fun r => (f.M c).row r) K labels linMat

theorem simplex_invariants_initially (f : Family) (c n : Nat) (hc : 2 ≤ c) (C : Rat) (hC : 0 ≤ C)
    (K : Nat → Nat → Rat) (hK : ∀ i j, K i j = K j i) (labels : Nat → Nat) (hl : ∀ i < n, labels i < c)
    (linMat : Nat → Nat → Rat) : SxInv (simplexProblem f c n C K labels linMat) := by
  have hP : 0 < f.P c := by cases f <;> simp [Family.P] <;> omega
  exact sxInv_init c (f.P c) n C hC _ K labels linMat hP
    (fun r => M_rows_wellformed f c hc r)
    (fun y p y' p' hy hy' hp hp' => generated_M_symmetric f c hc y p y' p' hy hy' hp hp')
    hK hl

/-- **mc_simplex_inv** (with the tables and gradient invariants) for EVERY state that
`QpSolver<QpMcSimplexDecomp>::solve` reaches: `α ≥ 0`, `0 ≤ varsum_i ≤ C`, `Σ_p α_{i,p} ≤ C + 1e-14` — the
constraint of the formulation up to the slack the code's own snapping of `varsum` to `0`/`C` allows (the real code
does exceed `C` by an ulp: observed `2.0000000000000004` for `C = 2`), the example/variable tables stay mutually
inverse and the stored gradient of the active variables is `lin − Qα`; every family, `c ≥ 2`, any data, any
accuracy / iteration limit, shrinking on or off. -/
theorem simplex_run_invariants (f : Family) (c n : Nat) (hc : 2 ≤ c) (C : Rat) (hC : 0 ≤ C)
    (K : Nat → Nat → Rat) (hK : ∀ i j, K i j = K j i) (labels : Nat → Nat) (hl : ∀ i < n, labels i < c)
    (linMat : Nat → Nat → Rat) (eps : Rat) (maxIter : Nat) :
    SxInv (solveX (simplexProblem f c n C K labels linMat) eps maxIter).s :=
  sxInv_solveX _ (simplex_invariants_initially f c n hc C hC K hK labels hl linMat) eps maxIter

/-- the sum constraint in the form the formulation states it -/
theorem simplex_sum_constraint (s : McSx Rat) (h : SxInv s) (e : Nat) (he : e < s.b.n) :
    (∀ p < s.b.P, 0 ≤ s.b.alpha ((s.b.ex e).var p)) ∧
    ∑ p ∈ Finset.range s.b.P, s.b.alpha ((s.b.ex e).var p) ≤ s.b.C + (1.e-14 : Rat) :=
  ⟨fun p hp => h.simplex.nonneg _ (h.tables.var_lt e he p hp), h.simplex.sum_le e he⟩

/-- every operation a client can perform preserves the invariants (`updateSMO` in its three cases — one variable,
two variables of one example via the triangle sub-solver, two variables of different examples via the box
sub-solver with the bounds `C − varsum + α` —, `deactivateVariable` with the automatic `deactivateExample`,
`shrink`, `unshrink`, `addDeltaLinear`) -/
theorem simplex_ops_preserve (s : McSx Rat) (h : SxInv s) :
    (∀ v w, v < s.b.activeVar → w < s.b.activeVar → SxInv (s.updateSMO v w)) ∧
    (∀ v, v < s.b.activeVar → SxInv (s.deactivateVariable v)) ∧
    (∀ eps, SxInv (s.shrink eps).1) ∧ SxInv s.unshrink ∧ (∀ d, SxInv (s.addDeltaLinear d)) :=
  ⟨fun v w hv hw => sxInv_updateSMO s h v w hv hw, fun v hv => sxInv_deactivateVariable s h v hv,
    fun eps => sxInv_shrink s h eps, sxInv_unshrink s h, fun d => sxInv_addDeltaLinear s h d⟩

/-- **stop ⇒ KKT(eps)** for the simplex problem -/
theorem simplex_stop_is_kkt (s : McSx Rat) (h : SxInv s) (eps : Rat) (maxIter : Nat)
    (hstop : (solveX s eps maxIter).stop = .accuracy) :
    (solveX s eps maxIter).s.b.activeVar = (solveX s eps maxIter).s.b.P * (solveX s eps maxIter).s.b.n ∧
    KKTsx (solveX s eps maxIter).s eps := solveX_stop_kkt s h eps maxIter hstop

/-- **stop ⇒ KKT(eps) ⇒ objective gap for the simplex-constrained dual, end to end for the generated problems**
(CS, ATM, ADM, MMR; `Q = M ⊗ K` with a Gram kernel matrix): if `QpSolver<QpMcSimplexDecomp>::solve` reports
`QpAccuracyReached`, then for every `b ≥ 0` with `Σ_p b(i,p) ≤ C` (in the numbering of the final state, a renumbering
of the original dual by `simplex_run_renumbers`)
`D(b) − D(α) ≤ n·(eps·(2C + 1e-14) + 1e-14·C·G)`, `G ≥ 0` any bound of the final gradient components.  The second
term is the price of the code's snapping of `varsum` to `C` (an example counts as "at the bound" while its true sum may
be `C(1 − 1e-14)`); the multiplier of an example's sum constraint is the smallest gradient of its positive variables. -/
theorem simplex_generated_near_optimal (f : Family) (c n : Nat) (hc : 2 ≤ c) (C : Rat) (hC : 0 < C)
    (T : Nat) (φ : Nat → Nat → Rat) (labels : Nat → Nat) (hl : ∀ i < n, labels i < c)
    (linMat : Nat → Nat → Rat) (eps : Rat) (maxIter : Nat)
    (hstop : (solveX (simplexProblem f c n C (gramK T φ) labels linMat) eps maxIter).stop = .accuracy)
    (G : Rat) (hG0 : 0 ≤ G)
    (hG : ∀ v < (solveX (simplexProblem f c n C (gramK T φ) labels linMat) eps maxIter).s.b.P *
        (solveX (simplexProblem f c n C (gramK T φ) labels linMat) eps maxIter).s.b.n,
      (solveX (simplexProblem f c n C (gramK T φ) labels linMat) eps maxIter).s.b.grad v ≤ G)
    (b : Nat → Rat) (hb : FeasibleSx (solveX (simplexProblem f c n C (gramK T φ) labels linMat) eps maxIter).s b) :
    dualObj ((solveX (simplexProblem f c n C (gramK T φ) labels linMat) eps maxIter).s.b.P *
          (solveX (simplexProblem f c n C (gramK T φ) labels linMat) eps maxIter).s.b.n)
        (solveX (simplexProblem f c n C (gramK T φ) labels linMat) eps maxIter).s.b.lin
        (solveX (simplexProblem f c n C (gramK T φ) labels linMat) eps maxIter).s.b.Q b
      - dualObj ((solveX (simplexProblem f c n C (gramK T φ) labels linMat) eps maxIter).s.b.P *
          (solveX (simplexProblem f c n C (gramK T φ) labels linMat) eps maxIter).s.b.n)
        (solveX (simplexProblem f c n C (gramK T φ) labels linMat) eps maxIter).s.b.lin
        (solveX (simplexProblem f c n C (gramK T φ) labels linMat) eps maxIter).s.b.Q
        (solveX (simplexProblem f c n C (gramK T φ) labels linMat) eps maxIter).s.b.alpha
      ≤ (solveX (simplexProblem f c n C (gramK T φ) labels linMat) eps maxIter).s.b.n *
          (eps * (2 * (solveX (simplexProblem f c n C (gramK T φ) labels linMat) eps maxIter).s.b.C + (1.e-14 : Rat))
            + (1.e-14 : Rat) * (solveX (simplexProblem f c n C (gramK T φ) labels linMat) eps maxIter).s.b.C * G) :=
  solveX_stop_near_optimal _ (simplex_invariants_initially f c n hc C (le_of_lt hC) _ (gramK_symm T φ) labels hl linMat)
    (generated_Q_psd f c n hc C T φ labels hl linMat) hC eps maxIter hstop G hG0 hG b hb

/-- the abstract statement: any state with the invariants, all variables active and `checkKKT`-style KKT(eps) -/
theorem simplex_kkt_eps_near_optimal (s : McSx Rat) (h : SxInv s) (hall : s.b.activeVar = s.b.P * s.b.n)
    (hpsd : PSD (s.b.P * s.b.n) s.b.Q) (hC : 0 < s.b.C) (eps : Rat) (heps : 0 ≤ eps) (hk : KKTsx s eps)
    (G : Rat) (hG0 : 0 ≤ G) (hG : ∀ v < s.b.P * s.b.n, s.b.grad v ≤ G) (b : Nat → Rat) (hb : FeasibleSx s b) :
    dualObj (s.b.P * s.b.n) s.b.lin s.b.Q b - dualObj (s.b.P * s.b.n) s.b.lin s.b.Q s.b.alpha
      ≤ s.b.n * (eps * (2 * s.b.C + (1.e-14 : Rat)) + (1.e-14 : Rat) * s.b.C * G) :=
  simplex_kkt_gap s h hall hpsd hC eps heps hk G hG0 hG b hb

/-- non-vacuity of `FeasibleSx` / `KKTsx`: the fresh MMR problem with one example (`α = 0`, gradient `1`) is 2-KKT and
`b = 0` is feasible -/
example : FeasibleSx (simplexProblem .MMR 2 1 1 (fun _ _ => 1) (fun _ => 0) (fun _ _ => 1)) (fun _ => 0) :=
  ⟨fun _ _ => le_refl _, fun e _ => by simp [simplexProblem, McSx.init, McBox.init, Family.P]⟩

/-- non-vacuity: the invariant is satisfiable with a non-trivial state (fresh CS problem, 3 classes, 2 examples) -/
example : SxInv (simplexProblem .WWCS 3 2 1 (fun i j => if i = j then 1 else 0) (fun i => i) (fun _ _ => 1)) :=
  simplex_invariants_initially .WWCS 3 2 (by omega) 1 (by norm_num) _ (by intro i j; by_cases h : i = j <;> simp [h, eq_comm])
    _ (by intro i hi; omega) _

/-! ## 8. The dedicated multi-class linear solvers `QpMcLinear*` (Model/McLinearMc.lean) -/

/-- **mc_linear_w_inv / mc_linear_feasible / mc_linear_gain_nonneg** for the box-type formulations (WW, LLW, ATS,
MMR, reinforced): along EVERY schedule of per-example steps from the zero start — whatever the ACF preferences, the
random shuffling or shrinking of the epoch loop produce — the weight vectors are the formulation's linear map of the
dual variables (`w_c = Σ_i coef(F, y_i, α_i)_c · x_i`), `0 ≤ α ≤ C`, and the gain `solveSub` returns for the next
step is non-negative. -/
theorem mc_linear_invariants (F : McForm) (hF : F.simplex = false) (D : MlData Rat) (hC : 0 ≤ D.C)
    (sched : List Nat) (hs : ∀ i ∈ sched, i < D.n) :
    MlWInv F D (mlSweep F D mlInit sched) ∧ MlBoxInv D (mlSweep F D mlInit sched) ∧
    ∀ i < D.n, 0 ≤ (mlStep F D (mlSweep F D mlInit sched) i).2.1 :=
  ⟨mc_linear_w_inv F hF D hC sched hs, mc_linear_feasible F hF D hC sched hs,
    fun i hi => mc_linear_gain_nonneg F hF D hC sched hs i hi⟩

/-- non-vacuity: the five formulations covered -/
example : ∀ F ∈ [McForm.WW, .LLW, .ATS, .MMR, .RS], F.simplex = false := by
  intro F hF; simp at hF; rcases hF with rfl | rfl | rfl | rfl | rfl <;> rfl

/-! ## 9. The bias loop `BiasSolver::solve` as far as it is logic (Model/McBias.lean) -/

/-- **whatever the Rprop rule decides**: after ANY sequence of inner solves (`QpSolver::solve`, any accuracy and
iteration limit) and bias steps (`performBiasUpdate(step, nu)`, any step) on the problem of any family and class
count, all invariants of the decomposition state hold and the linear part of the dual — read through the
example/variable tables, which shrinking has renumbered — is the trainer's `linear(i,p)` shifted by the ACCUMULATED
bias `b = Σ steps`:  `lin(i,p) = linear(i,p) − Σ_{entries of nu.row(y_i·P+p)} value · b(index)`.  So every inner
solve works on the fixed-bias dual of exactly the bias vector the solver reports (`bias += step`). -/
theorem bias_loop_consistent (f : Family) (c n : Nat) (hc : 2 ≤ c) (C : Rat) (hC : 0 ≤ C)
    (K : Nat → Nat → Rat) (hK : ∀ i j, K i j = K j i) (labels : Nat → Nat) (hl : ∀ i < n, labels i < c)
    (linMat : Nat → Nat → Rat) (ops : List BiasOp) :
    FullInv (biasRun (fun r => (f.nu c).row r) (problem f c n C K labels linMat) ops) ∧
    LinInv (biasRun (fun r => (f.nu c).row r) (problem f c n C K labels linMat) ops)
      (fun i p => linMat i p + biasDelta (fun r => (f.nu c).row r) (f.P c) labels (biasSum ops) i p) :=
  bias_history _ ops _ linMat (invariants_initially f c n hc C hC K hK labels hl linMat)
    (linInv_init c (f.P c) n C _ K labels linMat)

/-- the bias step enters linearly: `deltaLinear` of a sum of steps is the sum of the `deltaLinear`s -/
theorem bias_delta_additive (nu : Nat → Row Rat) (P : Nat) (labels : Nat → Nat) (a b : Nat → Rat) (i p : Nat) :
    biasDelta nu P labels (fun c => a c + b c) i p = biasDelta nu P labels a i p + biasDelta nu P labels b i p :=
  biasDelta_add nu P labels a b i p

/-- non-vacuity: a history with two solves around a bias step -/
example : biasSum [.solve 1 10, .update (fun c => if c = 0 then 1 else -1), .solve 1 10] 0 = 1 := by
  simp [biasSum]

/-- the same for `BiasSolverSimplex` (CS, ATM, ADM, MMR with offset): any sequence of runs of
`QpSolver<QpMcSimplexDecomp>::solve` and bias steps keeps tables, gradient and simplex invariants, and the linear part
is the trainer's one shifted by the accumulated bias -/
theorem bias_loop_consistent_simplex (f : Family) (c n : Nat) (hc : 2 ≤ c) (C : Rat) (hC : 0 ≤ C)
    (K : Nat → Nat → Rat) (hK : ∀ i j, K i j = K j i) (labels : Nat → Nat) (hl : ∀ i < n, labels i < c)
    (linMat : Nat → Nat → Rat) (ops : List BiasOp) :
    SxInv (biasRunX (fun r => (f.nu c).row r) (simplexProblem f c n C K labels linMat) ops) ∧
    LinInv (biasRunX (fun r => (f.nu c).row r) (simplexProblem f c n C K labels linMat) ops).b
      (fun i p => linMat i p + biasDelta (fun r => (f.nu c).row r) (f.P c) labels (biasSum ops) i p) :=
  bias_history_simplex _ ops _ linMat (simplex_invariants_initially f c n hc C hC K hK labels hl linMat)
    (linInv_init c (f.P c) n C _ K labels linMat)

/-- every run of the simplex solve loop only renumbers the dual problem (`Q`, `lin` up to a bijection of the
variables), as for the box problem -/
theorem simplex_run_renumbers (s : McSx Rat) (h : SxInv s) (eps : Rat) (maxIter : Nat) :
    Renumbered s.b (solveX s eps maxIter).s.b := renum_solveX s h eps maxIter

/-! ## 10. The decision-function map `Σ_p ν·α` and what the solver accuracy says about the decision function -/

/-- centred coefficient of class `k` contributed by the dual variable `(y, p)`: `ν(y,p,k) − (Σ_k' ν(y,p,k'))/c` -/
def nuC (f : Family) (c y p k : Nat) : Rat := nuAt (f.nu c) (f.P c) y p k - nuSum (f.nu c) c (f.P c) y p / c

/-- the coefficient the trainer writes into the decision function for example `i` and class `k`
(`CSvmTrainer::train`: `alpha(i,k) = Σ_p nu(P·y_i+p, k)·alpha(i,p)`), centred over the classes -/
def decCoef (f : Family) (c : Nat) (labels : Nat → Nat) (d : Nat → Rat) (i k : Nat) : Rat :=
  ∑ p ∈ Finset.range (f.P c), nuC f c (labels i) p k * d (f.P c * i + p)

/-- **the dual quadratic form is the squared norm of the (centred) decision function**: for every formulation
family, class count `c ≥ 2`, data and every vector `δ` of dual variables,
`δᵀ (M ⊗ K) δ = Σ_k Σ_{i,j} D(i,k)·K(i,j)·D(j,k)` with `D = decCoef δ`.  (For WW/CS the coefficient vectors sum to
zero, so centring changes nothing.) -/
theorem decision_map_quadratic (f : Family) (c n : Nat) (hc : 2 ≤ c) (C : Rat) (K : Nat → Nat → Rat)
    (labels : Nat → Nat) (hl : ∀ i < n, labels i < c) (linMat : Nat → Nat → Rat) (d : Nat → Rat) :
    ∑ v ∈ Finset.range (f.P c * n), ∑ w ∈ Finset.range (f.P c * n), d v * (problem f c n C K labels linMat).Q v w * d w
      = ∑ k ∈ Finset.range c, ∑ i ∈ Finset.range n, ∑ j ∈ Finset.range n,
          decCoef f c labels d i k * K i j * decCoef f c labels d j k := by
  have hP : 0 < f.P c := by cases f <;> simp [Family.P] <;> omega
  have hQ : ∀ v ∈ Finset.range (f.P c * n), ∀ w ∈ Finset.range (f.P c * n),
      d v * (problem f c n C K labels linMat).Q v w * d w
        = d v * ((∑ k ∈ Finset.range c, nuC f c (labels (v / f.P c)) (v % f.P c) k * nuC f c (labels (w / f.P c)) (w % f.P c) k)
            * K (v / f.P c) (w / f.P c)) * d w := by
    intro v hv w hw
    have hvn : v / f.P c < n := Nat.div_lt_of_lt_mul (Finset.mem_range.mp hv)
    have hwn : w / f.P c < n := Nat.div_lt_of_lt_mul (Finset.mem_range.mp hw)
    have h := M_is_centred_gram_all f c hc (labels (v / f.P c)) (v % f.P c) (labels (w / f.P c)) (w % f.P c)
      (hl _ hvn) (Nat.mod_lt _ hP) (hl _ hwn) (Nat.mod_lt _ hP)
    have hce := centred_gram_eq c (by omega)
      (fun (x : Nat) k => nuAt (f.nu c) (f.P c) (labels (x / f.P c)) (x % f.P c) k) v w
    unfold mAt Sparse.get gramCentered gram at h
    have hq : (problem f c n C K labels linMat).Q v w
        = (∑ k ∈ Finset.range c, nuC f c (labels (v / f.P c)) (v % f.P c) k * nuC f c (labels (w / f.P c)) (w % f.P c) k)
            * K (v / f.P c) (w / f.P c) := by
      simp only [problem, McBox.Q, McBox.init, McBox.Mget]
      rw [Nat.mul_comm (f.P c) (labels (v / f.P c)), h]
      unfold nuC nuSum
      rw [← hce]
    rw [hq]
  rw [Finset.sum_congr rfl fun v hv => Finset.sum_congr rfl fun w hw => hQ v hv w hw]
  rw [kron_quadratic (f.P c) n c hP (fun v k => nuC f c (labels (v / f.P c)) (v % f.P c) k) K d]
  have hdiv : ∀ i p, p < f.P c → (f.P c * i + p) / f.P c = i ∧ (f.P c * i + p) % f.P c = p := by
    intro i p hp
    constructor
    · rw [Nat.add_comm, Nat.add_mul_div_left _ _ hP, Nat.div_eq_of_lt hp, Nat.zero_add]
    · rw [Nat.mul_add_mod, Nat.mod_eq_of_lt hp]
  have hD : ∀ i k, ∑ p ∈ Finset.range (f.P c),
        nuC f c (labels ((f.P c * i + p) / f.P c)) ((f.P c * i + p) % f.P c) k * d (f.P c * i + p)
      = decCoef f c labels d i k := by
    intro i k
    unfold decCoef
    refine Finset.sum_congr rfl fun p hp => ?_
    rw [(hdiv i p (Finset.mem_range.mp hp)).1, (hdiv i p (Finset.mem_range.mp hp)).2]
  simp only [hD]

/-- **two configurations that both stop with accuracy `eps` have close decision functions**: for any two feasible
eps-KKT points `a`, `b` of the dual of a generated problem, the difference `D = decCoef (b − a)` of the decision
coefficients satisfies `Σ_k Σ_{i,j} D(i,k) K(i,j) D(j,k) ≤ 2·eps·(P·n)·C` — the squared RKHS norm of the difference of
the (centred) decision functions; by Cauchy–Schwarz `|Δf_k(x)| ≤ sqrt(2·eps·P·n·C·k(x,x))`, half of the tolerance
`2·sqrt(2·eps·n·P·C)·sqrt(k(x,x))` the trainer-level comparison applies. -/
theorem stopped_configurations_close_decision (f : Family) (c n : Nat) (hc : 2 ≤ c) (C : Rat) (hC : 0 ≤ C)
    (K : Nat → Nat → Rat) (hK : ∀ i j, K i j = K j i) (labels : Nat → Nat) (hl : ∀ i < n, labels i < c)
    (linMat : Nat → Nat → Rat) (eps : Rat) (heps : 0 ≤ eps) (a b : Nat → Rat)
    (ha : Feasible (f.P c * n) C a) (hb : Feasible (f.P c * n) C b)
    (hka : KKTeps (f.P c * n) C eps a (dualGrad (f.P c * n) (problem f c n C K labels linMat).lin (problem f c n C K labels linMat).Q a))
    (hkb : KKTeps (f.P c * n) C eps b (dualGrad (f.P c * n) (problem f c n C K labels linMat).lin (problem f c n C K labels linMat).Q b)) :
    ∑ k ∈ Finset.range c, ∑ i ∈ Finset.range n, ∑ j ∈ Finset.range n,
        decCoef f c labels (fun v => b v - a v) i k * K i j * decCoef f c labels (fun v => b v - a v) j k
      ≤ 2 * (eps * (f.P c * n : Nat) * C) := by
  rw [← decision_map_quadratic f c n hc C K labels hl linMat (fun v => b v - a v)]
  have hinv := invariants_initially f c n hc C hC K hK labels hl linMat
  exact two_kkt_points_close_quadratic (f.P c * n) _ _ C eps heps
    (fun v hv w hw => Q_symm _ hinv v w hv hw) a b ha hb hka hkb

/-- non-vacuity of the hypotheses: the zero vector is feasible and 1-KKT for the fresh MMR problem with one example
(gradient `= lin = 1`) -/
example : Feasible 1 1 (fun _ => (0 : Rat)) ∧
    KKTeps 1 1 1 (fun _ => (0 : Rat)) (dualGrad 1 (problem .MMR 2 1 1 (fun _ _ => 1) (fun _ => 0) (fun _ _ => 1)).lin
      (problem .MMR 2 1 1 (fun _ _ => 1) (fun _ => 0) (fun _ _ => 1)).Q (fun _ => 0)) := by
  refine ⟨fun v _ => by norm_num, fun v hv => ?_⟩
  have : v = 0 := by omega
  subst this
  simp [dualGrad, problem, McBox.init]

/-! ## 11. The sum-constrained linear solvers `QpMcLinear{CS,ATM,ADM}` and the epoch loop of `QpMcLinear::solve` -/

/-- **mc_linear_invariants for CS, ATM, ADM — PARTIAL** (hypothesis `SweepGuard`): along every schedule of per-example
steps from the zero start, for every class `c < classes`: `w_c = Σ_i coef(F, y_i, α_i)_c · x_i`, `α(i,c) ≥ 0`, the extra
column holds the row sum, the row sum is `≤ C`, and `α(i, y_i) = 0` for the formulations that skip the true class.
No statement about the returned gain (it is not the objective change for these classes, and not part of the property).
`SweepGuard` only excludes the sentinel case of the working-set selection: `mlUpDown` starts `kkt_down` at `1e100`, so a
positive variable whose gradient is `≥ 1e100` is never recorded; then `idx_down` keeps its default `0`, may coincide
with `idx_up`, and the two assignments of the pair step no longer cancel — the invariant really fails in the exact model
there.  `pairGuard_of_bounded`: gradients `< 1e100` (i.e. `|1 ± ⟨w_c,x_i⟩| < 1e100`) imply the guard. -/
theorem mc_linear_sum_invariants_partial (F : McForm) (hF : F.simplex = true) (D : MlData Rat)
    (hy : ∀ i, D.y i < D.classes) (hC : 0 ≤ D.C) (heps : 0 < D.eps)
    (sched : List Nat) (hs : ∀ i ∈ sched, i < D.n) (hg : SweepGuard F D mlInit sched) :
    (∀ c, c < D.classes → ∀ k, (mlSweep F D mlInit sched).w c k
      = ∑ i ∈ Finset.range D.n, mlStepVec F D.classes (D.y i) ((mlSweep F D mlInit sched).alpha i) c * D.x i k) ∧
    ∀ i, (∀ c, c < D.classes → 0 ≤ (mlSweep F D mlInit sched).alpha i c) ∧
      (mlSweep F D mlInit sched).alpha i D.classes = ∑ c ∈ Finset.range D.classes, (mlSweep F D mlInit sched).alpha i c ∧
      (mlSweep F D mlInit sched).alpha i D.classes ≤ D.C ∧
      (F.skipY = true → (mlSweep F D mlInit sched).alpha i (D.y i) = 0) :=
  ⟨mc_linear_w_inv_sum_partial F hF D hy hC heps sched hs hg,
    fun i => mc_linear_feasible_sum_partial F hF D hy hC heps sched hs hg i⟩

/-- non-vacuity of `SweepGuard`: it holds along every schedule for a coarse accuracy (no step is taken) -/
example (F : McForm) (hF : F.simplex = true) (D : MlData Rat) (hC : 0 < D.C) (heps : 10 < D.eps) (sched : List Nat) :
    SweepGuard F D mlInit sched := sweepGuard_coarse F hF D hC heps sched mlInit zeroState_init

/-- **uniform_sweep_visits_all**: with all preferences 1 and `prefsum = ell` (the first epoch, and the epoch after the
`canstop` reset) the ACF schedule arithmetic of `QpMcLinear::solve` writes exactly `0,1,…,ell−1`, whatever the random
draws (`0 ≤ u`); hence after the shuffle (any permutation) every example is visited exactly once. -/
theorem epoch_uniform_sweep_visits_all (expF : Rat → Rat) (ell : Nat) (pref u : Nat → Rat) (hu : ∀ i, 0 ≤ u i)
    (h1 : ∀ i, i < ell → pref i = 1) (old sh : List Nat) (hold : old.length = ell)
    (hperm : sh.Perm (acfBuffer old (acfBuild (ratOps expF) ell pref u (ell : Rat)))) :
    (acfBuild (ratOps expF) ell pref u (ell : Rat)).written = List.range ell ∧ ∀ i, i < ell → sh.count i = 1 :=
  ⟨(uniform_sweep_visits_all expF ell pref u hu h1).1, uniform_sweep_count expF ell pref u hu h1 old sh hold hperm⟩

/-- **the schedule loop never writes past its buffer** (`schedule[pos] = i; pos++` has no bound check; the C++ asserts
`pos == ell` in debug mode only): `pos ≤ ell` for ARBITRARY preferences, normalisation constant and admissible draws,
and `pos = ell` when the preferences are positive and `prefsum` is their sum (which holds at every epoch start in exact
arithmetic: `epEpoch_prefsum`, `epStopRule_prefsum`; `acf_short_of_psum_drift` shows that a drifted `prefsum` — as in
floating point — can leave `pos = ell − 1`, i.e. a stale but valid last entry, with probability ~2⁻⁵³ per epoch). -/
theorem epoch_schedule_fits (expF : Rat → Rat) (ell : Nat) (pref u : Nat → Rat) (hu : ∀ i, 0 ≤ u i) (psum0 : Rat) (k : Nat) :
    (acfPrefix (ratOps expF) ell pref u psum0 k).pos ≤ ell ∧
    (∀ x ∈ (acfBuild (ratOps expF) ell pref u psum0).written, x < ell) ∧
    ((∀ i, i < ell → 0 < pref i) → (acfBuild (ratOps expF) ell pref u (∑ j ∈ Finset.range ell, pref j)).pos = ell) :=
  ⟨(acf_pos_le expF ell pref u hu psum0 k).1, acf_written_lt expF ell pref u hu psum0,
    fun hp => (acf_length_eq expF ell pref u hu hp).1⟩

/-- **linear_stop_weak**: what `QpAccuracyReached` of the linear multi-class solvers means — the last epoch was run with
`canstop = true`, all preferences 1 (a full sweep: its schedule is a permutation of all examples) and every example had a
KKT violation `< eps` AT THE TIME OF ITS VISIT; nothing follows about the violations at the end of the epoch (the
harness reports the final violation as `#finalkkt`: ≥ eps in about 0.4 % of the accuracy stops). -/
theorem epoch_linear_stop_weak (F : McForm) (D : MlData Rat) (expF : Rat → Rat) (maxIter : Nat)
    (trace : List ((Nat → Rat) × List Nat)) (s : EpState Rat) (hs : CanstopInv D s)
    (hstop : (epSolve F D (ratOps expF) maxIter trace s).stop = some .accuracy) :
    (epSolve F D (ratOps expF) maxIter trace s).lastStart.canstop = true ∧
    (∀ i, (epSolve F D (ratOps expF) maxIter trace s).lastStart.inner.pref i = 1) ∧
    (epSolve F D (ratOps expF) maxIter trace s).final.inner.maxViol < D.eps :=
  let h := linear_stop_weak F D expF maxIter trace s hs hstop
  ⟨h.1, h.2.1, h.2.2.2.2.1⟩

/-! ## 12. The Rprop rule of `BiasSolver::solve` as a state machine (Model/McBias.lean: `biasSolve`) -/

/-- **every run of the modelled `BiasSolver::solve`** on the problem of any family / class count — the Rprop rule with its
step-size adaptation, the optional sum-to-zero projection, the inner solves with `unshrink`, both loops with any fuel —
ends in a state that satisfies all invariants, whose linear part is `linear(i,p) − ν·bias` for the bias the machine
reports (started at 0); the step sizes stay positive and, with `sumToZero`, the bias stays in the sum-to-zero subspace
(`rprop_step_sizes_positive`, `rprop_bias_sum_zero`). -/
theorem rprop_bias_solver_consistent (f : Family) (c n : Nat) (hc : 2 ≤ c) (C : Rat) (hC : 0 ≤ C)
    (K : Nat → Nat → Rat) (hK : ∀ i j, K i j = K j i) (labels : Nat → Nat) (hl : ∀ i < n, labels i < c)
    (linMat : Nat → Nat → Rat) (classes : Nat) (stz : Bool) (eps : Rat) (maxIter outerFuel innerFuel : Nat) :
    FullInv (biasSolve id id (problem f c n C K labels linMat) (fun r => (f.nu c).row r) classes stz (fun _ => 0)
      eps maxIter outerFuel innerFuel).s ∧
    LinInv (biasSolve id id (problem f c n C K labels linMat) (fun r => (f.nu c).row r) classes stz (fun _ => 0)
      eps maxIter outerFuel innerFuel).s
      (fun i p => linMat i p + biasDelta (fun r => (f.nu c).row r) (f.P c) labels
        (fun k => (biasSolve id id (problem f c n C K labels linMat) (fun r => (f.nu c).row r) classes stz (fun _ => 0)
          eps maxIter outerFuel innerFuel).r.bias k - 0) i p) := by
  have h0 : BiasInv (fun r => (f.nu c).row r) (f.P c) labels linMat (fun _ => 0) (problem f c n C K labels linMat)
      { bias := fun _ => 0, stepsize := fun _ => (0.01 : Rat), prev := fun _ => (0.0 : Rat), step := fun _ => (0.0 : Rat) } := by
    refine ⟨invariants_initially f c n hc C hC K hK labels hl linMat, rfl, rfl, ?_⟩
    intro v hv
    have : (fun k : Nat => ((0 : Rat) - 0)) = fun _ => 0 := by funext k; ring
    show (problem f c n C K labels linMat).lin v = linMat _ _ + biasDelta _ (f.P c) labels (fun k => (0 : Rat) - 0) _ _
    rw [this, biasDelta_zero, add_zero]
    exact linInv_init c (f.P c) n C _ K labels linMat v hv
  have h := biasSolve_consistent (fun r => (f.nu c).row r) classes stz eps maxIter innerFuel (f.P c) labels linMat
    (fun _ => 0) outerFuel _ _ 0 h0
  exact ⟨h.1, h.2.2.2⟩

theorem rprop_step_sizes_positive (s : McBox Rat) (nu : Nat → Row Rat) (classes : Nat) (stz : Bool) (r : RpropSt Rat)
    (h : ∀ c, 0 < r.stepsize c) : ∀ c, 0 < (rpropPass s nu classes stz r).2.stepsize c :=
  rpropPass_stepsize_pos s nu classes stz r h

theorem rprop_bias_sum_zero (s : McBox Rat) (nu : Nat → Row Rat) (classes : Nat) (hc : 0 < classes) (r : RpropSt Rat) :
    ∑ c ∈ Finset.range classes, (rpropPass s nu classes true r).2.bias c = ∑ c ∈ Finset.range classes, r.bias c :=
  rpropPass_bias_sum s nu classes hc r

end SharkVerif.C16
