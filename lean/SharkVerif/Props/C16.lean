/-
C16 — Multi-class and linear SVM solvers are configuration-invariant and consistent.

Property theorems.  Sections:
  1. the coefficient tables (`Gen/McTables.lean`, regenerated from CSvmTrainer.h on every
     run): `M_is_gram_of_nu` for ALL class counts c ≥ 2 and every formulation family, table
     well-formedness and capacity (memory safety of the unchecked `QpSparseArray::add`);
  2. the decomposition state of `QpMcBoxDecomp` (`Model/McSmo.lean`): `mc_tables_inv`,
     `mc_box_inv`, `mc_grad_inv` hold initially, are preserved by EVERY operation (updateSMO,
     deactivateVariable, deactivateExample, shrink, unshrink, addDeltaLinear) and hence hold after
     every valid finite history of operations — also for the problem built from the generated tables;
  3. decision logic of the trainers (generated from CSvmTrainer.h): `two_class_dispatch`,
     `ova_is_binary_per_class`;
  4. the dedicated linear solver (`Model/McLinear.lean`, QpBoxLinear): `linear_w_inv`,
     `linear_box_inv` along every schedule, `linear_step_gain_nonneg_partial`;
  5. configuration invariance in exact arithmetic: `mc_kkt_eps_near_optimal`,
     `two_stopped_configurations_close`, `stopped_state_near_optimal`, `mc_objective_recomputed`,
     `perm_examples_equivariant`, `generated_Q_psd`.

Models: `Model/McSparse.lean`, `Model/McSmo.lean`; helper lemmas: `Lemmas/McTables.lean`.
Tie to the C++: translator T2 + correspondence K-C16 (checks/c16.py).
-/
import SharkVerif.Lemmas.McTables
import SharkVerif.Lemmas.McSmoAll
import SharkVerif.Lemmas.McLinear
import SharkVerif.Lemmas.McOptimality
import SharkVerif.Lemmas.McPerm
import SharkVerif.Lemmas.McPsd
import SharkVerif.Lemmas.McObjective
namespace SharkVerif.C16
open SharkVerif.Mc SharkVerif.Gen.McTables SharkVerif.McTables

/-! ## 1. Coefficient tables -/

/-- the four table constructors of `CSvmTrainer` -/
inductive Family where
  | WWCS | ATMATS | ADMLLW | MMR
  deriving DecidableEq, Repr

namespace Family
/-- number of dual variables per example (`M.width()`) -/
def P : Family → Nat → Nat
  | WWCS, c => c - 1 | ATMATS, c => c | ADMLLW, c => c - 1 | MMR, _ => 1
def nu : Family → Nat → Sparse Rat
  | WWCS, c => WWCS_nu c | ATMATS, c => ATMATS_nu c | ADMLLW, c => ADMLLW_nu c | MMR, c => MMR_nu c
def M : Family → Nat → Sparse Rat
  | WWCS, c => WWCS_M c | ATMATS, c => ATMATS_M c | ADMLLW, c => ADMLLW_M c | MMR, c => MMR_M c
/-- is the Gram matrix taken after projection onto the sum-to-zero subspace? -/
def centred : Family → Bool
  | WWCS => false | _ => true
end Family

/-- **M is the Gram matrix of nu**, for every class count `c ≥ 2`, every family, all labels
`y, y' < c` and all dual-variable indices `p, p' < P`:
`M(c·(y·P+p)+y', p') = ⟨ν(y,p), ν(y',p')⟩`, minus `(Σν(y,p))(Σν(y',p'))/c` for the
sum-to-zero families — the quadratic form the decomposition solvers work on *is* the
formulation's dual.  Stated on the definitions generated from the C++ source. -/
theorem M_is_gram_of_nu (f : Family) (c : Nat) (hc : 2 ≤ c) (y p y' p' : Nat)
    (hy : y < c) (hp : p < f.P c) (hy' : y' < c) (hp' : p' < f.P c) :
    mAt (f.M c) c (f.P c) y p y' p' =
      if f.centred then gramCentered (f.nu c) c (f.P c) y p y' p' else gram (f.nu c) c (f.P c) y p y' p' := by
  cases f with
  | WWCS => exact WWCS_M_is_gram c hc y p y' p' hy hp hy' hp'
  | ATMATS => exact ATMATS_M_is_gram c hc y p y' p' hy hp hy' hp'
  | ADMLLW => exact ADMLLW_M_is_gram c hc y p y' p' hy hp hy' hp'
  | MMR =>
    have h0 : p = 0 := by simp [Family.P] at hp; exact hp
    have h0' : p' = 0 := by simp [Family.P] at hp'; exact hp'
    subst h0; subst h0'
    exact MMR_M_is_gram c hc y y' hy hy'

/-- for WW/CS the coefficient vectors sum to zero, so centring changes nothing: the uniform
statement `M = centred Gram matrix` holds for all four families -/
theorem M_is_centred_gram_all (f : Family) (c : Nat) (hc : 2 ≤ c) (y p y' p' : Nat)
    (hy : y < c) (hp : p < f.P c) (hy' : y' < c) (hp' : p' < f.P c) :
    mAt (f.M c) c (f.P c) y p y' p' = gramCentered (f.nu c) c (f.P c) y p y' p' := by
  cases f with
  | WWCS =>
    rw [M_is_gram_of_nu .WWCS c hc y p y' p' hy hp hy' hp']
    simp only [Family.centred, Family.nu, Family.P, gramCentered]
    rw [WWCS_nu_sum_zero c hc y p hy hp]; simp
  | ATMATS => exact M_is_gram_of_nu .ATMATS c hc y p y' p' hy hp hy' hp'
  | ADMLLW => exact M_is_gram_of_nu .ADMLLW c hc y p y' p' hy hp hy' hp'
  | MMR => exact M_is_gram_of_nu .MMR c hc y p y' p' hy hp hy' hp'

/-- non-vacuity: the hypotheses are satisfiable and the statement is not `0 = 0`
(WW with three classes: `M((0,0),(0,0)) = 1/2`) -/
example : mAt (Family.WWCS.M 3) 3 (Family.WWCS.P 3) 0 0 0 0 = 1 / 2 := by
  rw [M_is_gram_of_nu .WWCS 3 (by omega) 0 0 0 0 (by omega) (by simp [Family.P]) (by omega) (by simp [Family.P])]
  simp only [Family.centred, Family.nu, Family.P, gram, Bool.false_eq_true, ↓reduceIte]
  rw [Finset.sum_range_succ, Finset.sum_range_succ, Finset.sum_range_one]
  simp only [WWCS_nu_at 3 (by omega) 0 0 _ (by omega) (by omega), WWCS_nu_row_get, up]
  norm_num

/-- every row of every generated `M` has pairwise distinct column indices below the width
(so `operator()`, the sparse loops of `gradientUpdate` and the dense row agree) -/
theorem M_rows_wellformed (f : Family) (c : Nat) (hc : 2 ≤ c) (r : Nat) :
    RowWF ((f.M c).row r) (f.P c) := by
  cases f with
  | WWCS => exact WWCS_M_row_wf c hc r
  | ATMATS => exact ATMATS_M_row_wf c hc r
  | ADMLLW => exact ADMLLW_M_row_wf c hc r
  | MMR => exact MMR_M_row_wf c hc r

/-- the loops write exactly `height` rows and never more entries than `resize` reserved
(`QpSparseArray::add` does not check its capacity when NDEBUG is defined) -/
theorem tables_fit (f : Family) (c : Nat) (hc : 2 ≤ c) :
    (f.nu c).rows.length = (f.nu c).height ∧ (f.M c).rows.length = (f.M c).height ∧
    (f.nu c).used ≤ (f.nu c).space ∧ (f.M c).used ≤ (f.M c).space := by
  have h1 := tables_rows_length c hc
  have h2 := tables_space_suffices c hc
  cases f <;> simp only [Family.nu, Family.M] <;> tauto


/-! ## 2. The decomposition state of `QpMcBoxDecomp` -/

/-- `Q = M ⊗ K` is symmetric for every generated table: `M((y,p),(y',p')) = M((y',p'),(y,p))`
(a corollary of `M_is_gram_of_nu`: Gram matrices are symmetric) -/
theorem generated_M_symmetric (f : Family) (c : Nat) (hc : 2 ≤ c) (y p y' p' : Nat)
    (hy : y < c) (hy' : y' < c) (hp : p < f.P c) (hp' : p' < f.P c) :
    ((f.M c).row (c * (f.P c * y + p) + y')).get p' = ((f.M c).row (c * (f.P c * y' + p') + y)).get p := by
  have h1 := M_is_centred_gram_all f c hc y p y' p' hy hp hy' hp'
  have h2 := M_is_centred_gram_all f c hc y' p' y p hy' hp' hy hp
  unfold mAt Sparse.get at h1 h2
  rw [Nat.mul_comm (f.P c) y, Nat.mul_comm (f.P c) y', h1, h2]
  unfold gramCentered gram
  congr 1
  · exact Finset.sum_congr rfl fun k _ => mul_comm _ _
  · ring

/-- the problem `QpMcBoxDecomp(kernel, M, labels, linear, C)` for a generated table -/
def problem (f : Family) (c n : Nat) (C : Rat) (K : Nat → Nat → Rat) (labels : Nat → Nat)
    (linMat : Nat → Nat → Rat) : McBox Rat :=
  McBox.init c (f.P c) n C (fun r => (f.M c).row r) K labels linMat

/-- all invariants hold for the freshly constructed problem, for every formulation family, every
class count `c ≥ 2`, every number of examples, every symmetric matrix `K`, all labels `< c` -/
theorem invariants_initially (f : Family) (c n : Nat) (hc : 2 ≤ c) (C : Rat) (hC : 0 ≤ C)
    (K : Nat → Nat → Rat) (hK : ∀ i j, K i j = K j i) (labels : Nat → Nat) (hl : ∀ i < n, labels i < c)
    (linMat : Nat → Nat → Rat) : FullInv (problem f c n C K labels linMat) := by
  have hP : 0 < f.P c := by cases f <;> simp [Family.P] <;> omega
  exact fullInv_init c (f.P c) n C hC _ K labels linMat hP
    (fun r => M_rows_wellformed f c hc r)
    (fun y p y' p' hy hy' hp hp' => generated_M_symmetric f c hc y p y' p' hy hy' hp hp')
    hK hl

/-- **mc_tables_inv**: after every valid finite history of operations on the problem built from a
generated table, the example/variable tables are mutually inverse permutations with a consistent
active/inactive split. -/
theorem mc_tables_inv (f : Family) (c n : Nat) (hc : 2 ≤ c) (C : Rat) (hC : 0 ≤ C)
    (K : Nat → Nat → Rat) (hK : ∀ i j, K i j = K j i) (labels : Nat → Nat) (hl : ∀ i < n, labels i < c)
    (linMat : Nat → Nat → Rat) (ops : List Op) (hv : ValidRun (problem f c n C K labels linMat) ops) :
    TablesInv ((problem f c n C K labels linMat).run ops) :=
  (fullInv_run ops _ (invariants_initially f c n hc C hC K hK labels hl linMat) hv).tables

/-- **mc_box_inv**: `0 ≤ α ≤ C` after every valid history. -/
theorem mc_box_inv (f : Family) (c n : Nat) (hc : 2 ≤ c) (C : Rat) (hC : 0 ≤ C)
    (K : Nat → Nat → Rat) (hK : ∀ i j, K i j = K j i) (labels : Nat → Nat) (hl : ∀ i < n, labels i < c)
    (linMat : Nat → Nat → Rat) (ops : List Op) (hv : ValidRun (problem f c n C K labels linMat) ops) :
    BoxInv ((problem f c n C K labels linMat).run ops) :=
  (fullInv_run ops _ (invariants_initially f c n hc C hC K hK labels hl linMat) hv).box

/-- **mc_grad_inv**: after every valid history the stored gradient of every active variable is
`lin − Q·α` with `Q = M ⊗ K` (sum over all variables, shrunk or not). -/
theorem mc_grad_inv (f : Family) (c n : Nat) (hc : 2 ≤ c) (C : Rat) (hC : 0 ≤ C)
    (K : Nat → Nat → Rat) (hK : ∀ i j, K i j = K j i) (labels : Nat → Nat) (hl : ∀ i < n, labels i < c)
    (linMat : Nat → Nat → Rat) (ops : List Op) (hv : ValidRun (problem f c n C K labels linMat) ops) :
    GradInv ((problem f c n C K labels linMat).run ops) :=
  (fullInv_run ops _ (invariants_initially f c n hc C hC K hK labels hl linMat) hv).grad

/-- in particular after `unshrink` (all variables active) the whole gradient is exact -/
theorem grad_exact_after_unshrink (s : McBox Rat) (h : FullInv s) :
    ∀ v < s.P * s.n, s.unshrink.grad v = s.unshrink.lin v - ∑ w ∈ Finset.range (s.P * s.n), s.unshrink.Q v w * s.unshrink.alpha w := by
  have h' := fullInv_apply s h .unshrink trivial
  have hg := h'.grad
  intro v hv
  have hav : (s.apply .unshrink).activeVar = s.P * s.n := by
    simp only [McBox.apply, McBox.unshrink]
    split
    · rename_i he; simpa [McBox.numVars] using he
    · rfl
  have hs := sameStatic_apply s .unshrink
  have := hg v (by rw [hav]; exact hv)
  simpa [McBox.apply, hs.2.1, hs.2.2.1] using this

/-- the invariants are stated for arbitrary tables too (any well-formed symmetric `M`): every
valid op preserves all of them (`fullInv_apply`), over all histories (`fullInv_run`). -/
theorem invariants_all_histories (s : McBox Rat) (h : FullInv s) (ops : List Op) (hv : ValidRun s ops) :
    FullInv (s.run ops) := fullInv_run ops s h hv

/-- non-vacuity: a valid two-step history on a two-example WW problem (an SMO step on variable 0,
then a shrink) -/
example : ValidRun (problem .WWCS 2 2 1 (fun i j => if i = j then 1 else 0) (fun i => i) (fun _ _ => 1))
    [.smo 0 0, .shrink 1] := by
  refine ⟨?_, trivial, trivial⟩
  simp [Op.valid, problem, McBox.init, Family.P]

/-- `label(i)` as it must behave (and as the model defines it): the label of dataset example `i`,
whatever the internal order.  What the UNPATCHED C++ returns is `(ex i).y`, the label of the example
currently at position `i`; by `label_eq` of `mc_tables_inv` that is `labels (ex i).index`, which
differs from `labels i` as soon as a `deactivateExample` has moved example `i` (finding F-C16-1). -/
theorem label_at_position (s : McBox Rat) (h : TablesInv s) (i : Nat) (hi : i < s.n) :
    (s.ex i).y = s.labels (s.ex i).index := h.label_eq i hi

/-! ## 3. Decision logic of the trainers (generated from CSvmTrainer.h) -/

/-- **two_class_dispatch**: on two-class data EVERY formulation is trained by the binary path -/
theorem two_class_dispatch (t : McSvm) : dispatch 2 t = TrainPath.binary := by
  cases t <;> rfl

/-- and so is every formulation of the dedicated linear trainer -/
theorem two_class_dispatch_linear (t : McSvm) : linearDispatch 2 t = "QpBoxLinear" := by
  cases t <;> rfl

/-- **ova_is_binary_per_class** (decision logic): one-versus-all never reaches the multi-class
decomposition solvers: for every class count it is the binary path (2 classes) or `trainOVA`, which
trains one binary machine per class (that column `c` of the result IS the binary machine of class `c`
against the rest is checked on the real code by the harness oracle, bit for bit) -/
theorem ova_is_binary_per_class (classes : Nat) :
    dispatch classes .OVA = (if classes = 2 then TrainPath.binary else TrainPath.ova) := by
  unfold dispatch; split <;> simp

/-- every other formulation with more than two classes solves the dual given by one of the four
generated table families — the tables `M_is_gram_of_nu` is about -/
theorem mc_dispatch_uses_generated_tables (classes : Nat) (h : classes ≠ 2) (t : McSvm) (ht : t ≠ .OVA) :
    ∃ fam stz sx, dispatch classes t = .mc fam stz sx ∧ fam ∈ ["WWCS", "ATMATS", "ADMLLW", "MMR"] := by
  cases t <;> simp [dispatch, h] at ht ⊢

/-! ## 4. The dedicated linear solver (QpBoxLinear coordinate step) -/

/-- **linear_w_inv** and **linear_box_inv**: for every data set, every bound ≥ 0, every schedule
(any order, any repetitions — the random, preference-driven scheduling of the C++ is irrelevant),
after the sweep `w = Σ_i α_i y_i x_i` and `0 ≤ α ≤ bound`, starting from the fresh solver -/
theorem linear_w_inv (D : LinData Rat) (hb : 0 ≤ D.bound) (sched : List Nat) (hs : ∀ i ∈ sched, i < D.n) :
    WInv D (linSweep D linInit sched) :=
  (lin_inv_sweep D hb sched hs _ (wInv_init D) (linBoxInv_init D hb)).1

theorem linear_box_inv (D : LinData Rat) (hb : 0 ≤ D.bound) (sched : List Nat) (hs : ∀ i ∈ sched, i < D.n) :
    LinBoxInv D (linSweep D linInit sched) :=
  (lin_inv_sweep D hb sched hs _ (wInv_init D) (linBoxInv_init D hb)).2

/-- **linear_step_gain_nonneg** — PARTIAL: proved under `0 < |x_i|² + reg`.  The full statement
(no hypothesis on `q`) is not a theorem of the exact-arithmetic model: for `x_i = 0`, `reg = 0`
the C++ computes `g/0 = ±inf` and clips, whereas `Rat` division by zero is `0`; the real code accepts
zero input vectors, so that case is covered by the correspondence only. -/
theorem linear_step_gain_nonneg_partial (D : LinData Rat) (s : LinState Rat) (i : Nat)
    (hq : 0 < D.xsq i + D.reg) (ha : 0 ≤ s.alpha i) (hab : s.alpha i ≤ D.bound) :
    0 ≤ (linStep D s i).2 := linStep_gain_nonneg D s i hq ha hab

/-- non-vacuity of the hypotheses of `linear_step_gain_nonneg_partial` -/
example : ∃ (D : LinData Rat) (s : LinState Rat), 0 < D.xsq 0 + D.reg ∧ 0 ≤ s.alpha 0 ∧ s.alpha 0 ≤ D.bound :=
  ⟨{ n := 1, d := 1, x := fun _ _ => 1, ysign := fun _ => 1, xsq := fun _ => 1, bound := 1, reg := 0, offset := 0 },
   linInit, by norm_num, by simp only [linInit]; norm_num, by simp only [linInit]; norm_num⟩


/-! ## 5. Configuration invariance (shrinking on/off, cache size, precomputed matrix, example order) -/

/-- **kkt_eps_near_optimal**: for a concave quadratic dual (`Q` symmetric positive semidefinite) over the box
`[0,C]^N`, every feasible point that satisfies the KKT conditions up to `eps` — which is what the solver's stopping
rule `checkKKT() ≤ eps` asserts of its final point — has an objective within `eps·N·C` of EVERY feasible point, in
particular of the optimum.  No assumption on how the point was reached: shrinking, cache size, working-set
sequence and the order of the examples do not enter. -/
theorem mc_kkt_eps_near_optimal (N : Nat) (lin : Nat → Rat) (Q : Nat → Nat → Rat) (C eps : Rat)
    (hC : 0 ≤ C) (heps : 0 ≤ eps) (hsym : ∀ v < N, ∀ w < N, Q v w = Q w v) (hpsd : PSD N Q)
    (a b : Nat → Rat) (ha : Feasible N C a) (hb : Feasible N C b)
    (hk : KKTeps N C eps a (dualGrad N lin Q a)) :
    dualObj N lin Q b - dualObj N lin Q a ≤ eps * N * C :=
  kkt_eps_near_optimal N lin Q C eps hC heps hsym hpsd a b ha hb hk

/-- hence any two configurations that both stop with accuracy `eps` on the same dual reach objectives within
`eps·N·C` of each other (`N = n·P` variables) — the bound the trainer-level comparison uses as its tolerance -/
theorem two_stopped_configurations_close (N : Nat) (lin : Nat → Rat) (Q : Nat → Nat → Rat) (C eps : Rat)
    (hC : 0 ≤ C) (heps : 0 ≤ eps) (hsym : ∀ v < N, ∀ w < N, Q v w = Q w v) (hpsd : PSD N Q)
    (a b : Nat → Rat) (ha : Feasible N C a) (hb : Feasible N C b)
    (hka : KKTeps N C eps a (dualGrad N lin Q a)) (hkb : KKTeps N C eps b (dualGrad N lin Q b)) :
    |dualObj N lin Q b - dualObj N lin Q a| ≤ eps * N * C :=
  two_kkt_points_close N lin Q C eps hC heps hsym hpsd a b ha hb hka hkb

/-- the link to the decomposition model: in a state reached by ANY valid history that ends with all variables
active (after `unshrink`, as in `QpSolver::solve` before its final KKT test), the STORED gradient is the true
gradient (`mc_grad_inv`), so an eps-KKT stored gradient certifies near-optimality of the stored `alpha` -/
theorem stopped_state_near_optimal (s : McBox Rat) (h : FullInv s) (hall : s.activeVar = s.P * s.n)
    (eps : Rat) (heps : 0 ≤ eps)
    (hsym : ∀ v < s.P * s.n, ∀ w < s.P * s.n, s.Q v w = s.Q w v) (hpsd : PSD (s.P * s.n) s.Q)
    (hk : KKTeps (s.P * s.n) s.C eps s.alpha s.grad)
    (b : Nat → Rat) (hbf : Feasible (s.P * s.n) s.C b) :
    dualObj (s.P * s.n) s.lin s.Q b - dualObj (s.P * s.n) s.lin s.Q s.alpha ≤ eps * (s.P * s.n : Nat) * s.C :=
  state_near_optimal s hall h.grad h.box h.C_nonneg eps heps hsym hpsd hk b hbf

/-- **perm_examples_equivariant**: presenting the examples in another order `σ` (labels, kernel matrix and linear
part permuted accordingly) yields the SAME dual problem up to the induced renumbering `(i,p) ↦ (σ i, p)` of the
variables: `Q'(v,w) = Q(σ̂ v, σ̂ w)` and `lin'(v) = lin(σ̂ v)`, for every formulation family and class count.
Together with `mc_kkt_eps_near_optimal` this is the "any reordering of the training examples" clause in exact
arithmetic (for a bijective `σ` the two objectives are the same function up to renaming). -/
theorem perm_examples_equivariant (f : Family) (c n : Nat) (hc : 2 ≤ c) (C : Rat) (K : Nat → Nat → Rat)
    (labels : Nat → Nat) (linMat : Nat → Nat → Rat) (σ : Nat → Nat) (v w : Nat) :
    (problem f c n C (fun i j => K (σ i) (σ j)) (fun i => labels (σ i)) (fun i p => linMat (σ i) p)).Q v w
      = (problem f c n C K labels linMat).Q (liftPerm (f.P c) σ v) (liftPerm (f.P c) σ w) ∧
    (problem f c n C (fun i j => K (σ i) (σ j)) (fun i => labels (σ i)) (fun i p => linMat (σ i) p)).lin v
      = (problem f c n C K labels linMat).lin (liftPerm (f.P c) σ v) := by
  have hP : 0 < f.P c := by cases f <;> simp [Family.P] <;> omega
  exact perm_examples_equivariant_Q c (f.P c) n hP C _ K labels linMat σ v w

/-- **mc_objective_recomputed**: what `functionValue()` returns, `½·⟨gradient + linear, alpha⟩`, IS the dual objective
`lin·α − ½ αᵀQα` in every state with all variables active that satisfies `mc_grad_inv` (e.g. the state in which
`QpSolver::solve` fills in `QpSolutionProperties::value`) -/
theorem mc_objective_recomputed (s : McBox Rat) (h : FullInv s) (hall : s.activeVar = s.P * s.n) :
    (1/2) * ∑ v ∈ Finset.range (s.P * s.n), (s.grad v + s.lin v) * s.alpha v
      = dualObj (s.P * s.n) s.lin s.Q s.alpha := by
  rw [← functionValue_eq_dualObj]
  congr 1
  apply Finset.sum_congr rfl
  intro v hv
  have hg := (gradInv_iff_dualGrad s).1 h.grad v (by rw [hall]; exact Finset.mem_range.1 hv)
  rw [hg]

/-- Gram matrices are positive semidefinite (the hypothesis `PSD` above is satisfiable by every kernel matrix of
explicit features; for `Q = M ⊗ K` see `generated_Q_psd` below) -/
theorem gram_is_psd (N T : Nat) (F : Nat → Nat → Rat) : PSD N (fun v w => ∑ t ∈ Finset.range T, F v t * F w t) :=
  psd_of_gram N T F

/-- **Kronecker step, formalised**: for every formulation family and class count, if the kernel matrix is a Gram
matrix of explicit feature vectors (`K i j = Σ_t φ i t · φ j t`, e.g. the linear and polynomial kernels on the
training points), then `Q = M ⊗ K` of the constructed problem is positive semidefinite — `M` being the (centred)
Gram matrix of `ν` by `M_is_gram_of_nu`.  This discharges the `PSD` hypothesis of `stopped_state_near_optimal` /
`mc_kkt_eps_near_optimal` for the freshly built problem (and `Q` only gets renumbered by the operations). -/
theorem generated_Q_psd (f : Family) (c n : Nat) (hc : 2 ≤ c) (C : Rat) (T : Nat) (φ : Nat → Nat → Rat)
    (labels : Nat → Nat) (hl : ∀ i < n, labels i < c) (linMat : Nat → Nat → Rat) :
    PSD (f.P c * n) (problem f c n C (fun i j => ∑ t ∈ Finset.range T, φ i t * φ j t) labels linMat).Q := by
  have hP : 0 < f.P c := by cases f <;> simp [Family.P] <;> omega
  refine (psd_of_centred_gram_kron (f.P c * n) c T (by omega)
      (fun v k => nuAt (f.nu c) (f.P c) (labels (v / f.P c)) (v % f.P c) k)
      (fun v t => φ (v / f.P c) t)).congr ?_
  intro v hv w hw
  have hvn : v / f.P c < n := Nat.div_lt_of_lt_mul hv
  have hwn : w / f.P c < n := Nat.div_lt_of_lt_mul hw
  have h := M_is_centred_gram_all f c hc (labels (v / f.P c)) (v % f.P c) (labels (w / f.P c)) (w % f.P c)
    (hl _ hvn) (Nat.mod_lt _ hP) (hl _ hwn) (Nat.mod_lt _ hP)
  unfold mAt Sparse.get gramCentered gram nuSum at h
  simp only [problem, McBox.Q, McBox.init, McBox.Mget]
  rw [Nat.mul_comm (f.P c) (labels (v / f.P c)), h]

/-- non-vacuity of the hypotheses of `mc_kkt_eps_near_optimal`: one variable, `Q = 1`, `lin = 1`, `C = 2`:
`a = 1` is exactly optimal (gradient 0) -/
example : ∃ (a : Nat → Rat), Feasible 1 2 a ∧ KKTeps 1 2 0 a (dualGrad 1 (fun _ => 1) (fun _ _ => 1) a) ∧
    PSD 1 (fun _ _ => (1 : Rat)) := by
  refine ⟨fun _ => 1, ?_, ?_, ?_⟩
  · intro v _; norm_num
  · intro v _; simp [dualGrad]
  · intro x; simp; nlinarith [sq_nonneg (x 0)]

end SharkVerif.C16
