/-
`#audit_module M` prints, for every theorem declared in module `M`, the axioms
its proof depends on (transitively), one `AUDIT <name> [<axioms>]` line each.
The orchestrator (vlib/core.py) runs it over the property modules on every check
and rejects anything outside {propext, Classical.choice, Quot.sound}
(so `sorryAx`, `Lean.ofReduceBool` (native_decide), `bv_decide` axioms or any
user axiom fail the audit).
-/
import Lean
open Lean Elab Command

elab "#audit_module " m:ident : command => do
  let env ← getEnv
  let some idx := env.getModuleIdx? m.getId
    | throwError "module {m.getId} not imported"
  let names := env.header.moduleData[idx.toNat]!.constNames
  for n in names do
    if let some (.thmInfo _) := env.find? n then
      if n.isInternalDetail then continue
      -- auto-generated structure/inductive lemmas are not obligations of ours
      let last := match n with | .str _ s => s | _ => ""
      if last == "inj" || last == "injEq" || last == "sizeOf_spec" || last.startsWith "eq_"
          || last == "congr_simp" || last == "noConfusion" then continue
      let axs ← collectAxioms n
      let axs := axs.qsort (fun a b => a.toString < b.toString)
      logInfo m!"AUDIT {n} {axs.toList}"
