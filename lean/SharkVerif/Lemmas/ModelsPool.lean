/-
C04 (further models): max pooling (`Pool`, model of `PoolingLayer` with `Pooling::Maximum`),
for all image / patch sizes.

* over `Rat`: batch = single evaluation; the output entry is the maximum over its patch
  (an upper bound that is attained); `argmaxPix` is a patch pixel attaining it;
* over `ℝ`: the weighted input derivative `gradXRow` is the partial derivative of the
  coefficient-weighted sum of all outputs (no tie in the one patch containing the pixel).
-/
import Mathlib.Algebra.Order.Field.Rat
import Mathlib.Analysis.Calculus.Deriv.Add
import Mathlib.Analysis.Calculus.Deriv.Mul
import Mathlib.Algebra.BigOperators.Group.List.Basic
import Mathlib.Tactic.Ring
import Mathlib.Tactic.Linarith
import Mathlib.Tactic.NormNum
import SharkVerif.Model.Models2
import SharkVerif.Lemmas.Models
import SharkVerif.Lemmas.ModelsDeriv
import SharkVerif.Lemmas.LossDeriv
namespace SharkVerif.Models
open Scalar SharkVerif.Loss

/-! ## running maximum / running arg-max over a list of indices (any linear order) -/
section Generic
variable {β : Type} [LinearOrder β]

/-- `m` is the maximum of `v` over the (non-empty) index list `L` -/
def IsMaxOf (v : ℕ → β) (L : List ℕ) (m : β) : Prop := (∀ q ∈ L, v q ≤ m) ∧ ∃ q ∈ L, m = v q

theorem IsMaxOf.unique {v : ℕ → β} {L : List ℕ} {m m' : β} (h : IsMaxOf v L m) (h' : IsMaxOf v L m') :
    m = m' := by
  obtain ⟨q, hq, e⟩ := h.2
  obtain ⟨q', hq', e'⟩ := h'.2
  apply le_antisymm
  · rw [e]; exact h'.1 q hq
  · rw [e']; exact h.1 q' hq'

/-- `m = a; for q in L: m = max(m, v q)` -/
theorem foldMax_spec (v : ℕ → β) : ∀ (L : List ℕ) (a : β),
    a ≤ L.foldl (fun m q => max m (v q)) a ∧ (∀ q ∈ L, v q ≤ L.foldl (fun m q => max m (v q)) a) ∧
    (L.foldl (fun m q => max m (v q)) a = a ∨ ∃ q ∈ L, L.foldl (fun m q => max m (v q)) a = v q)
  | [], a => by simp
  | q :: L, a => by
    obtain ⟨h1, h2, h3⟩ := foldMax_spec v L (max a (v q))
    simp only [List.foldl_cons]
    refine ⟨le_trans (le_max_left _ _) h1, ?_, ?_⟩
    · intro q' hq'
      rcases List.mem_cons.1 hq' with h | h
      · rw [h]; exact le_trans (le_max_right _ _) h1
      · exact h2 q' h
    · rcases h3 with h | ⟨q', hq', h⟩
      · rcases max_choice a (v q) with hm | hm
        · left; rw [h, hm]
        · right; exact ⟨q, by simp, by rw [h, hm]⟩
      · right; exact ⟨q', by simp [hq'], h⟩

/-- started at an element of the list, the running maximum is the maximum over the list -/
theorem foldMax_isMaxOf (v : ℕ → β) (L : List ℕ) (s : ℕ) (hs : s ∈ L) :
    IsMaxOf v L (L.foldl (fun m q => max m (v q)) (v s)) := by
  obtain ⟨_, h2, h3⟩ := foldMax_spec v L (v s)
  refine ⟨h2, ?_⟩
  rcases h3 with h | h
  · exact ⟨s, hs, h⟩
  · exact h

/-- `best = b; for q in L: if v best < v q then best = q`: the result is `b` or a list element, and
its value is the running maximum -/
theorem foldArg_spec (v : ℕ → β) (step : ℕ → ℕ → ℕ) (hlt : ∀ b q, v b < v q → step b q = q)
    (hge : ∀ b q, ¬ v b < v q → step b q = b) : ∀ (L : List ℕ) (b : ℕ),
    (L.foldl step b = b ∨ L.foldl step b ∈ L) ∧
      v (L.foldl step b) = L.foldl (fun m q => max m (v q)) (v b)
  | [], b => by simp
  | q :: L, b => by
    simp only [List.foldl_cons]
    obtain ⟨h1, h2⟩ := foldArg_spec v step hlt hge L (step b q)
    have hv : v (step b q) = max (v b) (v q) := by
      by_cases h : v b < v q
      · rw [hlt b q h, max_eq_right (le_of_lt h)]
      · rw [hge b q h, max_eq_left (not_lt.1 h)]
    refine ⟨?_, by rw [h2, hv]⟩
    rcases h1 with h | h
    · by_cases hc : v b < v q
      · right; rw [h, hlt b q hc]; simp
      · left; rw [h, hge b q hc]
    · right; simp [h]

/-- the running arg-max is the *first* maximum: `b :: L` splits at an occurrence of the result with
strictly smaller values before and no larger values after -/
theorem foldArg_first (v : ℕ → β) (step : ℕ → ℕ → ℕ) (hlt : ∀ b q, v b < v q → step b q = q)
    (hge : ∀ b q, ¬ v b < v q → step b q = b) : ∀ (L : List ℕ) (b : ℕ),
    ∃ l1 l2, b :: L = l1 ++ L.foldl step b :: l2 ∧ (∀ q ∈ l1, v q < v (L.foldl step b)) ∧
      (∀ q ∈ l2, v q ≤ v (L.foldl step b))
  | [], b => ⟨[], [], by simp⟩
  | q :: L, b => by
    simp only [List.foldl_cons]
    obtain ⟨l1, l2, hsplit, hb, ha⟩ := foldArg_first v step hlt hge L (step b q)
    have hle : v (step b q) ≤ v (L.foldl step (step b q)) := by
      rw [(foldArg_spec v step hlt hge L (step b q)).2]
      exact (foldMax_spec v L _).1
    by_cases hc : v b < v q
    · have hstep : step b q = q := hlt b q hc
      rw [hstep] at hsplit hle hb ha ⊢
      refine ⟨b :: l1, l2, by rw [List.cons_append, ← hsplit], ?_, ha⟩
      intro q' hq'
      rcases List.mem_cons.1 hq' with h | h
      · rw [h]; exact lt_of_lt_of_le hc hle
      · exact hb q' h
    · have hstep : step b q = b := hge b q hc
      rw [hstep] at hsplit hle hb ha ⊢
      cases l1 with
      | nil =>
        simp only [List.nil_append, List.cons.injEq] at hsplit
        refine ⟨[], q :: L, by rw [List.nil_append, ← hsplit.1], by simp, ?_⟩
        intro q' hq'
        rcases List.mem_cons.1 hq' with h | h
        · rw [h]; exact le_trans (not_lt.1 hc) hle
        · exact ha q' (hsplit.2 ▸ h)
      | cons b' l1' =>
        simp only [List.cons_append, List.cons.injEq] at hsplit
        have hbr : v b < v (L.foldl step b) := hb b (by rw [hsplit.1]; simp)
        refine ⟨b :: q :: l1', l2, ?_, ?_, ha⟩
        · simp only [List.cons_append]
          exact congrArg (fun t => b :: q :: t) hsplit.2
        · intro q' hq'
          rcases List.mem_cons.1 hq' with h | h
          · rw [h]; exact hbr
          · rcases List.mem_cons.1 h with h | h
            · rw [h]; exact lt_of_le_of_lt (not_lt.1 hc) hbr
            · exact hb q' (by simp [h])

end Generic

/-! ## index arithmetic of the patch grid -/

theorem pflat_div (d p c : ℕ) (hc : c < d) : (p * d + c) / d = p := by
  have hd : 0 < d := by omega
  rw [Nat.add_comm, Nat.add_mul_div_right _ _ hd, Nat.div_eq_of_lt hc, Nat.zero_add]

theorem pflat_mod (d p c : ℕ) (hc : c < d) : (p * d + c) % d = c := by
  rw [Nat.add_comm, Nat.add_mul_mod_self_right, Nat.mod_eq_of_lt hc]

theorem pflat_eq_iff (d a c q0 : ℕ) (hc : c < d) : a * d + c = q0 ↔ a = q0 / d ∧ c = q0 % d := by
  constructor
  · intro h; subst h; exact ⟨(pflat_div d a c hc).symm, (pflat_mod d a c hc).symm⟩
  · rintro ⟨h1, h2⟩; rw [h1, h2]; exact Nat.div_add_mod' q0 d

theorem pflat_lt {a A r n : ℕ} (ha : a < A) (hr : r < n) : a * n + r < A * n := by
  calc a * n + r < a * n + n := by omega
    _ = (a + 1) * n := by rw [Nat.succ_mul]
    _ ≤ A * n := Nat.mul_le_mul_right n ha

theorem mem_patch (s : Pool) (p q : ℕ) : q ∈ s.patch p ↔
    ∃ di, di < s.ph ∧ ∃ dj, dj < s.pw ∧
      ((p / s.outW) * s.ph + di) * s.w + ((p % s.outW) * s.pw + dj) = q := by
  unfold Pool.patch
  simp only [List.mem_flatMap, List.mem_map, List.mem_range]

/-- the start pixel is the first pixel of the patch -/
theorem start_mem_patch (s : Pool) (p : ℕ) (hph : 0 < s.ph) (hpw : 0 < s.pw) : s.start p ∈ s.patch p :=
  (mem_patch s p _).2 ⟨0, hph, 0, hpw, by simp [Pool.start]⟩

theorem patch_head (s : Pool) (p : ℕ) (hph : 0 < s.ph) (hpw : 0 < s.pw) :
    (s.patch p).head? = some (s.start p) := by
  unfold Pool.patch Pool.start
  obtain ⟨a, ha⟩ : ∃ a, s.ph = a + 1 := ⟨s.ph - 1, by omega⟩
  obtain ⟨b, hb⟩ : ∃ b, s.pw = b + 1 := ⟨s.pw - 1, by omega⟩
  rw [ha, hb]
  simp only [List.range_succ_eq_map, List.flatMap_cons, List.map_cons]
  simp

/-- patches of different output pixels are disjoint: a pixel of the patch of `p` determines `p`,
and lies in the covered part of the image -/
theorem patch_mem_unique (s : Pool) (p : ℕ) (hp : p < s.outH * s.outW) (pix : ℕ) (h : pix ∈ s.patch p) :
    pix / s.w < s.outH * s.ph ∧ pix % s.w < s.outW * s.pw ∧
      p = (pix / s.w / s.ph) * s.outW + (pix % s.w) / s.pw := by
  obtain ⟨di, hdi, dj, hdj, e⟩ := (mem_patch s p pix).1 h
  have hoW : 0 < s.outW := by
    rcases Nat.eq_zero_or_pos s.outW with h0 | h0
    · rw [h0] at hp; simp at hp
    · exact h0
  have ha : p / s.outW < s.outH := by rw [Nat.div_lt_iff_lt_mul hoW]; exact hp
  have hb : p % s.outW < s.outW := Nat.mod_lt _ hoW
  have hcol : (p % s.outW) * s.pw + dj < s.outW * s.pw := pflat_lt hb hdj
  have hw : s.outW * s.pw ≤ s.w := Nat.div_mul_le_self s.w s.pw
  have hcolw : (p % s.outW) * s.pw + dj < s.w := lt_of_lt_of_le hcol hw
  have hi : pix / s.w = (p / s.outW) * s.ph + di := by rw [← e]; exact pflat_div s.w _ _ hcolw
  have hj : pix % s.w = (p % s.outW) * s.pw + dj := by rw [← e]; exact pflat_mod s.w _ _ hcolw
  refine ⟨by rw [hi]; exact pflat_lt ha hdi, by rw [hj]; exact hcol, ?_⟩
  rw [hi, hj, pflat_div s.ph _ di hdi, pflat_div s.pw _ dj hdj]
  exact (Nat.div_add_mod' p s.outW).symm

/-- a pixel of the covered part of the image lies in the patch of a valid output pixel -/
theorem patch_index_mem (s : Pool) (hph : 0 < s.ph) (hpw : 0 < s.pw) (pix : ℕ)
    (hi : pix / s.w < s.outH * s.ph) (hj : pix % s.w < s.outW * s.pw) :
    (pix / s.w / s.ph) * s.outW + (pix % s.w) / s.pw < s.outH * s.outW ∧
      pix ∈ s.patch ((pix / s.w / s.ph) * s.outW + (pix % s.w) / s.pw) := by
  have ha : pix / s.w / s.ph < s.outH := by rw [Nat.div_lt_iff_lt_mul hph]; exact hi
  have hb : pix % s.w / s.pw < s.outW := by rw [Nat.div_lt_iff_lt_mul hpw]; exact hj
  refine ⟨pflat_lt ha hb, ?_⟩
  rw [mem_patch]
  refine ⟨pix / s.w % s.ph, Nat.mod_lt _ hph, pix % s.w % s.pw, Nat.mod_lt _ hpw, ?_⟩
  rw [pflat_div s.outW _ _ hb, pflat_mod s.outW _ _ hb, Nat.div_add_mod', Nat.div_add_mod', Nat.div_add_mod']

/-! ## over `Rat` -/

theorem smax_eq_max_rat (a b : Rat) : smax a b = max a b := by
  unfold smax
  split
  · rename_i h; rw [max_eq_right (le_of_lt h)]
  · rename_i h; rw [max_eq_left (not_lt.1 h)]

theorem pool_batch_eq_single (s : Pool) (X : Nat → Nat → Rat) (i o : Nat) :
    s.evalB X i o = s.evalRow (X i) o := rfl

/-- rows of a batch are independent -/
theorem pool_row_independent (s : Pool) (X Y : Nat → Nat → Rat) (i o : Nat)
    (h : ∀ j, X i j = Y i j) : s.evalB X i o = s.evalB Y i o := by
  rw [pool_batch_eq_single, pool_batch_eq_single]
  have : X i = Y i := funext h
  rw [this]

theorem pool_evalRow_eq_rat (s : Pool) (x : Nat → Rat) (p c : Nat) (hc : c < s.d) :
    s.evalRow x (p * s.d + c) =
      (s.patch p).foldl (fun m q => max m (x (q * s.d + c))) (x (s.start p * s.d + c)) := by
  unfold Pool.evalRow
  simp only [pflat_div s.d p c hc, pflat_mod s.d p c hc, smax_eq_max_rat]

/-- the output entry bounds every entry of its patch (same channel) … -/
theorem pool_evalRow_ge (s : Pool) (x : Nat → Rat) (p c q : Nat) (hc : c < s.d) (hq : q ∈ s.patch p) :
    x (q * s.d + c) ≤ s.evalRow x (p * s.d + c) := by
  rw [pool_evalRow_eq_rat s x p c hc]
  exact (foldMax_spec (fun q => x (q * s.d + c)) (s.patch p) _).2.1 q hq

/-- … and is one of them -/
theorem pool_evalRow_attained (s : Pool) (x : Nat → Rat) (p c : Nat) (hc : c < s.d)
    (hph : 0 < s.ph) (hpw : 0 < s.pw) :
    ∃ q ∈ s.patch p, s.evalRow x (p * s.d + c) = x (q * s.d + c) := by
  rw [pool_evalRow_eq_rat s x p c hc]
  exact (foldMax_isMaxOf (fun q => x (q * s.d + c)) (s.patch p) (s.start p) (start_mem_patch s p hph hpw)).2

/-- the arg-max pixel recorded for the derivative is a pixel of the patch and attains the output -/
theorem pool_argmaxPix_spec (s : Pool) (x : Nat → Rat) (p c : Nat) (hc : c < s.d)
    (hph : 0 < s.ph) (hpw : 0 < s.pw) :
    s.argmaxPix x p c ∈ s.patch p ∧ x (s.argmaxPix x p c * s.d + c) = s.evalRow x (p * s.d + c) := by
  rw [pool_evalRow_eq_rat s x p c hc]
  obtain ⟨h1, h2⟩ := foldArg_spec (fun q => x (q * s.d + c))
    (fun best q => if x (best * s.d + c) < x (q * s.d + c) then q else best)
    (fun b q h => if_pos h) (fun b q h => if_neg h) (s.patch p) (s.start p)
  refine ⟨?_, h2⟩
  rcases h1 with h | h
  · unfold Pool.argmaxPix; rw [h]; exact start_mem_patch s p hph hpw
  · exact h

/-- `argmaxPix` is the *first* maximal pixel in the scan order of the patch: strictly smaller values
before it, no larger values after it -/
theorem pool_argmaxPix_first (s : Pool) (x : Nat → Rat) (p c : Nat) (hph : 0 < s.ph) (hpw : 0 < s.pw) :
    ∃ l1 l2, s.patch p = l1 ++ s.argmaxPix x p c :: l2 ∧
      (∀ q ∈ l1, x (q * s.d + c) < x (s.argmaxPix x p c * s.d + c)) ∧
      (∀ q ∈ l2, x (q * s.d + c) ≤ x (s.argmaxPix x p c * s.d + c)) := by
  obtain ⟨l1, l2, hsplit, hb, ha⟩ := foldArg_first (fun q => x (q * s.d + c))
    (fun best q => if x (best * s.d + c) < x (q * s.d + c) then q else best)
    (fun b q h => if_pos h) (fun b q h => if_neg h) (s.patch p) (s.start p)
  have hhead := patch_head s p hph hpw
  obtain ⟨tl, htl⟩ : ∃ tl, s.patch p = s.start p :: tl := by
    cases hpt : s.patch p with
    | nil => rw [hpt] at hhead; simp at hhead
    | cons a tl => rw [hpt] at hhead; simp at hhead; exact ⟨tl, by rw [hhead]⟩
  unfold Pool.argmaxPix
  cases l1 with
  | nil =>
    simp only [List.nil_append, List.cons.injEq] at hsplit
    refine ⟨[], tl, by rw [List.nil_append, ← hsplit.1]; exact htl, by simp, ?_⟩
    intro q hq
    have hq2 : q ∈ s.patch p := by rw [htl]; simp [hq]
    exact ha q (hsplit.2 ▸ hq2)
  | cons b' l1' =>
    simp only [List.cons_append, List.cons.injEq] at hsplit
    refine ⟨l1', l2, hsplit.2, ?_, ha⟩
    intro q hq
    exact hb q (by simp [hq])

/-- sample: 4×4 image, one channel, 2×2 patches, entry value = (flat index − 5)² -/
private def xEx : Nat → Rat := fun q => ((q : Rat) - 5) * ((q : Rat) - 5)

example : xEx (4 * 1 + 0) ≤ (⟨4, 4, 1, 2, 2⟩ : Pool).evalRow xEx (0 * 1 + 0) :=
  pool_evalRow_ge ⟨4, 4, 1, 2, 2⟩ xEx 0 0 4 (by decide) (by decide)
example : ∃ q ∈ (⟨4, 4, 1, 2, 2⟩ : Pool).patch 3, (⟨4, 4, 1, 2, 2⟩ : Pool).evalRow xEx (3 * 1 + 0) = xEx (q * 1 + 0) :=
  pool_evalRow_attained ⟨4, 4, 1, 2, 2⟩ xEx 3 0 (by decide) (by decide) (by decide)
example : (⟨4, 4, 1, 2, 2⟩ : Pool).argmaxPix xEx 3 0 ∈ (⟨4, 4, 1, 2, 2⟩ : Pool).patch 3 :=
  (pool_argmaxPix_spec ⟨4, 4, 1, 2, 2⟩ xEx 3 0 (by decide) (by decide) (by decide)).1
example : ∃ l1 l2, (⟨4, 4, 1, 2, 2⟩ : Pool).patch 3 = l1 ++ (⟨4, 4, 1, 2, 2⟩ : Pool).argmaxPix xEx 3 0 :: l2 ∧
    (∀ q ∈ l1, xEx (q * 1 + 0) < xEx ((⟨4, 4, 1, 2, 2⟩ : Pool).argmaxPix xEx 3 0 * 1 + 0)) ∧
    (∀ q ∈ l2, xEx (q * 1 + 0) ≤ xEx ((⟨4, 4, 1, 2, 2⟩ : Pool).argmaxPix xEx 3 0 * 1 + 0)) :=
  pool_argmaxPix_first ⟨4, 4, 1, 2, 2⟩ xEx 3 0 (by decide) (by decide)

/-! ## over `ℝ`: the weighted input derivative -/

theorem smax_eq_max_real (a b : ℝ) : smax a b = max a b := by
  unfold smax
  split
  · rename_i h; rw [max_eq_right (le_of_lt h)]
  · rename_i h; rw [max_eq_left (not_lt.1 h)]

theorem eventually_list_lt (v : ℕ → ℝ) (k : ℕ) (a : ℝ) : ∀ (L : List ℕ),
    (∀ q ∈ L, q ≠ k → v q < a) → ∀ᶠ t in nhds a, ∀ q ∈ L, q ≠ k → v q < t
  | [], _ => Filter.Eventually.of_forall (by simp)
  | q :: L, h => by
    have ih := eventually_list_lt v k a L (fun q' hq' => h q' (by simp [hq']))
    by_cases hq : q = k
    · filter_upwards [ih] with t ht q' hq' hne
      rcases List.mem_cons.1 hq' with h' | h'
      · exact absurd (h'.trans hq) hne
      · exact ht q' h' hne
    · filter_upwards [ih, lt_mem_nhds (h q (by simp) hq)] with t ht htq q' hq' hne
      rcases List.mem_cons.1 hq' with h' | h'
      · rw [h']; exact htq
      · exact ht q' h' hne

/-- the maximum over a list of entries as a function of the entry `k`: derivative 1 if `k` is the
(recorded) arg-max, else 0 — provided the value at `k` is not tied with another listed entry -/
theorem hasDerivAt_foldMax (L : List ℕ) (s : ℕ) (hs : s ∈ L) (v : ℕ → ℝ) (k : ℕ)
    (step : ℕ → ℕ → ℕ) (hlt : ∀ b q, v b < v q → step b q = q) (hge : ∀ b q, ¬ v b < v q → step b q = b)
    (hnotie : k ∈ L → ∀ q ∈ L, q ≠ k → v q ≠ v k) :
    HasDerivAt (fun t => L.foldl (fun m q => max m (if q = k then t else v q)) (if s = k then t else v s))
      (if L.foldl step s = k then 1 else 0) (v k) := by
  have hG : ∀ t : ℝ, IsMaxOf (fun q => if q = k then t else v q) L
      (L.foldl (fun m q => max m (if q = k then t else v q)) (if s = k then t else v s)) :=
    fun t => foldMax_isMaxOf (fun q => if q = k then t else v q) L s hs
  have h0 : IsMaxOf v L (L.foldl (fun m q => max m (v q)) (v s)) := foldMax_isMaxOf v L s hs
  obtain ⟨ha1, ha2⟩ := foldArg_spec v step hlt hge L s
  have hamem : L.foldl step s ∈ L := by
    rcases ha1 with h | h
    · rw [h]; exact hs
    · exact h
  by_cases hk : k ∈ L
  · by_cases hstrict : ∀ q ∈ L, q ≠ k → v q < v k
    · have harg : L.foldl step s = k := by
        by_contra hne
        have h1 := hstrict _ hamem hne
        have h2 := h0.1 k hk
        rw [← ha2] at h2
        exact absurd h1 (not_lt.2 h2)
      rw [if_pos harg]
      have hev : (fun t => L.foldl (fun m q => max m (if q = k then t else v q)) (if s = k then t else v s))
          =ᶠ[nhds (v k)] fun t => t := by
        filter_upwards [eventually_list_lt v k (v k) L hstrict] with t ht
        apply IsMaxOf.unique (hG t)
        refine ⟨?_, k, hk, by simp⟩
        intro q hq
        by_cases h : q = k
        · simp [h]
        · simp only [h, ↓reduceIte]; exact le_of_lt (ht q hq h)
      exact (hasDerivAt_id' (v k)).congr_of_eventuallyEq hev
    · push Not at hstrict
      obtain ⟨q1, hq1, hne1, hle⟩ := hstrict
      have hlt1 : v k < v q1 := lt_of_le_of_ne hle (Ne.symm (hnotie hk q1 hq1 hne1))
      have hge1 := h0.1 q1 hq1
      have harg : L.foldl step s ≠ k := by
        intro h
        rw [← ha2, h] at hge1
        exact absurd hlt1 (not_lt.2 hge1)
      rw [if_neg harg]
      obtain ⟨q', hq', e'⟩ := h0.2
      have hq'k : q' ≠ k := by
        intro h; rw [h] at e'; rw [e'] at hge1; exact absurd hlt1 (not_lt.2 hge1)
      have hev : (fun t => L.foldl (fun m q => max m (if q = k then t else v q)) (if s = k then t else v s))
          =ᶠ[nhds (v k)] fun _ => L.foldl (fun m q => max m (v q)) (v s) := by
        filter_upwards [gt_mem_nhds hlt1] with t ht
        apply IsMaxOf.unique (hG t)
        refine ⟨?_, q', hq', by simp only [hq'k, ↓reduceIte]; exact e'⟩
        intro q hq
        by_cases h : q = k
        · simp only [h, ↓reduceIte]; exact le_trans (le_of_lt ht) hge1
        · simp only [h, ↓reduceIte]; exact h0.1 q hq
      exact (hasDerivAt_const (v k) _).congr_of_eventuallyEq hev
  · have harg : L.foldl step s ≠ k := fun h => hk (h ▸ hamem)
    rw [if_neg harg]
    have hne : ∀ q ∈ L, q ≠ k := fun q hq h => hk (h ▸ hq)
    have hfun : (fun t => L.foldl (fun m q => max m (if q = k then t else v q)) (if s = k then t else v s))
        = fun _ => L.foldl (fun m q => max m (v q)) (v s) := by
      funext t
      apply IsMaxOf.unique (hG t)
      obtain ⟨q', hq', e'⟩ := h0.2
      refine ⟨?_, q', hq', by simp only [hne q' hq', ↓reduceIte]; exact e'⟩
      intro q hq
      simp only [hne q hq, ↓reduceIte]; exact h0.1 q hq
    rw [hfun]
    exact hasDerivAt_const _ _

theorem pool_evalRow_eq_real (s : Pool) (x : ℕ → ℝ) (p c : ℕ) (hc : c < s.d) :
    s.evalRow x (p * s.d + c) =
      (s.patch p).foldl (fun m q => max m (x (q * s.d + c))) (x (s.start p * s.d + c)) := by
  unfold Pool.evalRow
  simp only [pflat_div s.d p c hc, pflat_mod s.d p c hc, smax_eq_max_real]

theorem pool_argmaxPix_mem_real (s : Pool) (x : ℕ → ℝ) (p c : ℕ) (hph : 0 < s.ph) (hpw : 0 < s.pw) :
    s.argmaxPix x p c ∈ s.patch p := by
  obtain ⟨h1, _⟩ := foldArg_spec (fun q => x (q * s.d + c))
    (fun best q => if x (best * s.d + c) < x (q * s.d + c) then q else best)
    (fun b q h => if_pos h) (fun b q h => if_neg h) (s.patch p) (s.start p)
  rcases h1 with h | h
  · unfold Pool.argmaxPix; rw [h]; exact start_mem_patch s p hph hpw
  · exact h

/-- **weighted input derivative of max pooling**: `gradXRow x C q0` is the partial derivative of the
coefficient-weighted sum of all outputs w.r.t. the input entry `q0` (pixel `q0 / d`, channel
`q0 % d`), for every image and patch size; the only hypothesis on the data is that in the one
patch containing the pixel (if any) no other pixel has the same value in that channel. -/
theorem pool_input_derivative_correct (s : Pool) (x C : ℕ → ℝ) (q0 : ℕ)
    (hd : 0 < s.d) (hph : 0 < s.ph) (hpw : 0 < s.pw)
    (hnotie : ∀ p, p < s.outH * s.outW → q0 / s.d ∈ s.patch p →
      ∀ q ∈ s.patch p, q ≠ q0 / s.d → x (q * s.d + q0 % s.d) ≠ x q0) :
    HasDerivAt (fun t => ∑ p ∈ Finset.range (s.outH * s.outW), ∑ c ∈ Finset.range s.d,
        C (p * s.d + c) * s.evalRow (fun q => if q = q0 then t else x q) (p * s.d + c))
      (s.gradXRow x C q0) (x q0) := by
  have hc0lt : q0 % s.d < s.d := Nat.mod_lt _ hd
  have hq0 : q0 / s.d * s.d + q0 % s.d = q0 := Nat.div_add_mod' q0 s.d
  -- one term
  have hterm : ∀ p ∈ Finset.range (s.outH * s.outW), ∀ c ∈ Finset.range s.d,
      HasDerivAt (fun t => C (p * s.d + c) * s.evalRow (fun q => if q = q0 then t else x q) (p * s.d + c))
        (if c = q0 % s.d then C (p * s.d + q0 % s.d) * (if s.argmaxPix x p (q0 % s.d) = q0 / s.d then 1 else 0)
          else 0) (x q0) := by
    intro p hp c hc
    have hp' : p < s.outH * s.outW := Finset.mem_range.1 hp
    have hc' : c < s.d := Finset.mem_range.1 hc
    by_cases hcc : c = q0 % s.d
    · rw [if_pos hcc]
      subst hcc
      apply HasDerivAt.const_mul
      have hiff : ∀ q, (q * s.d + q0 % s.d = q0) ↔ q = q0 / s.d := by
        intro q
        rw [pflat_eq_iff s.d q (q0 % s.d) q0 hc0lt]
        simp
      have hfun : (fun t => s.evalRow (fun q => if q = q0 then t else x q) (p * s.d + q0 % s.d)) = fun t =>
          (s.patch p).foldl (fun m q => max m (if q = q0 / s.d then t else x (q * s.d + q0 % s.d)))
            (if s.start p = q0 / s.d then t else x (s.start p * s.d + q0 % s.d)) := by
        funext t
        rw [pool_evalRow_eq_real s _ p _ hc0lt]
        simp only [hiff]
      rw [hfun]
      have h := hasDerivAt_foldMax (s.patch p) (s.start p) (start_mem_patch s p hph hpw)
        (fun q => x (q * s.d + q0 % s.d)) (q0 / s.d)
        (fun best q => if x (best * s.d + q0 % s.d) < x (q * s.d + q0 % s.d) then q else best)
        (fun b q h => if_pos h) (fun b q h => if_neg h)
        (by
          intro hmem q hq hne
          simp only [hq0]
          exact hnotie p hp' hmem q hq hne)
      simp only [hq0] at h
      exact h
    · rw [if_neg hcc]
      have hne : ∀ q, q * s.d + c ≠ q0 := by
        intro q h
        exact hcc ((pflat_eq_iff s.d q c q0 hc').1 h).2
      have hfun : (fun t => C (p * s.d + c) * s.evalRow (fun q => if q = q0 then t else x q) (p * s.d + c))
          = fun _ => C (p * s.d + c) * s.evalRow x (p * s.d + c) := by
        funext t
        rw [pool_evalRow_eq_real s _ p c hc', pool_evalRow_eq_real s x p c hc']
        simp only [hne, ↓reduceIte]
      rw [hfun]
      exact hasDerivAt_const _ _
  have hsum := HasDerivAt.fun_sum (fun p hp => HasDerivAt.fun_sum (hterm p hp))
  -- the value
  have hval : s.gradXRow x C q0 = ∑ p ∈ Finset.range (s.outH * s.outW), ∑ c ∈ Finset.range s.d,
      (if c = q0 % s.d then C (p * s.d + q0 % s.d) * (if s.argmaxPix x p (q0 % s.d) = q0 / s.d then 1 else 0)
        else 0) := by
    have hinner : ∀ p ∈ Finset.range (s.outH * s.outW), (∑ c ∈ Finset.range s.d,
        (if c = q0 % s.d then C (p * s.d + q0 % s.d) * (if s.argmaxPix x p (q0 % s.d) = q0 / s.d then 1 else 0)
          else 0)) = C (p * s.d + q0 % s.d) * (if s.argmaxPix x p (q0 % s.d) = q0 / s.d then 1 else 0) := by
      intro p _
      rw [Finset.sum_ite_eq' (Finset.range s.d) (q0 % s.d)]
      simp only [Finset.mem_range, hc0lt, ↓reduceIte]
    rw [Finset.sum_congr rfl hinner]
    unfold Pool.gradXRow
    simp only
    by_cases hin : q0 / s.d / s.w < s.outH * s.ph ∧ q0 / s.d % s.w < s.outW * s.pw
    · rw [if_pos hin]
      obtain ⟨hp0, _⟩ := patch_index_mem s hph hpw (q0 / s.d) hin.1 hin.2
      have hcollapse : ∀ p ∈ Finset.range (s.outH * s.outW),
          C (p * s.d + q0 % s.d) * (if s.argmaxPix x p (q0 % s.d) = q0 / s.d then 1 else 0)
          = if p = q0 / s.d / s.w / s.ph * s.outW + q0 / s.d % s.w / s.pw then
              (if s.argmaxPix x (q0 / s.d / s.w / s.ph * s.outW + q0 / s.d % s.w / s.pw) (q0 % s.d) = q0 / s.d
                then C ((q0 / s.d / s.w / s.ph * s.outW + q0 / s.d % s.w / s.pw) * s.d + q0 % s.d) else 0)
            else 0 := by
        intro p hp
        by_cases h : p = q0 / s.d / s.w / s.ph * s.outW + q0 / s.d % s.w / s.pw
        · rw [if_pos h, ← h]
          split <;> simp
        · rw [if_neg h]
          have : s.argmaxPix x p (q0 % s.d) ≠ q0 / s.d := by
            intro ha
            have hm := pool_argmaxPix_mem_real s x p (q0 % s.d) hph hpw
            rw [ha] at hm
            exact h (patch_mem_unique s p (Finset.mem_range.1 hp) _ hm).2.2
          simp [this]
      rw [Finset.sum_congr rfl hcollapse, Finset.sum_ite_eq' (Finset.range (s.outH * s.outW))]
      simp only [Finset.mem_range, hp0, ↓reduceIte]
    · rw [if_neg hin]
      symm
      apply Finset.sum_eq_zero
      intro p hp
      have : s.argmaxPix x p (q0 % s.d) ≠ q0 / s.d := by
        intro ha
        have hm := pool_argmaxPix_mem_real s x p (q0 % s.d) hph hpw
        rw [ha] at hm
        have := patch_mem_unique s p (Finset.mem_range.1 hp) _ hm
        exact hin ⟨this.1, this.2.1⟩
      simp [this]
  rw [hval]
  exact hsum

/-- non-vacuity: 2×3 image (last column not covered), one channel, 2×2 patch, distinct values -/
example : HasDerivAt (fun t => ∑ p ∈ Finset.range ((⟨2, 3, 1, 2, 2⟩ : Pool).outH * (⟨2, 3, 1, 2, 2⟩ : Pool).outW),
      ∑ c ∈ Finset.range (⟨2, 3, 1, 2, 2⟩ : Pool).d, (fun _ => (1 : ℝ)) (p * (⟨2, 3, 1, 2, 2⟩ : Pool).d + c) *
        (⟨2, 3, 1, 2, 2⟩ : Pool).evalRow (fun q => if q = 4 then t else (fun q => (q : ℝ)) q)
          (p * (⟨2, 3, 1, 2, 2⟩ : Pool).d + c))
    ((⟨2, 3, 1, 2, 2⟩ : Pool).gradXRow (fun q => (q : ℝ)) (fun _ => 1) 4) ((fun q : ℕ => (q : ℝ)) 4) := by
  apply pool_input_derivative_correct ⟨2, 3, 1, 2, 2⟩ (fun q => (q : ℝ)) (fun _ => 1) 4
    (by decide) (by decide) (by decide)
  intro p _ _ q _ hq h
  apply hq
  show q = 4 / 1
  have h' : q * 1 + 4 % 1 = 4 := by exact_mod_cast h
  omega

end SharkVerif.Models
