/-
The sum-constrained linear multi-class solvers CS, ATM, ADM (`Model/McLinearMc.lean`,
QpMcLinear.h) at `α := Rat`: w-consistency and feasibility along EVERY schedule from the zero start.

* `mc_linear_w_inv_sum_partial`    : `w c k = Σ_i mlStepVec F K (y i) (alpha i) c * x i k` for `c < K`;
* `mc_linear_feasible_sum_partial` : `0 ≤ alpha i c` (c < K), `alpha i K = Σ_{c<K} alpha i c`,
                                     `alpha i K ≤ C`, hence `alpha i c ≤ C`; `alpha i (y i) = 0` for CS, ADM.

(The gain returned by `solveSub` is not part of the property for these formulations.)

Why `_partial`: the working-set selection `mlUpDown` uses the sentinels `±1e100`.  In exact
arithmetic a two-variable step can be taken although no `down` candidate was recorded (all
candidates with `alpha > 0` have gradient `≥ 1e100`) — then `idx_down` is the default `0`, may
coincide with `idx_up`, and the C++ statements `alpha(idx_up) = ..; alpha(idx_down) = ..;
mu(idx_up) += m; mu(idx_down) -= m` no longer keep `alpha = a + mu`.  The hypothesis `SweepGuard`
excludes exactly this: whenever a two-variable step is taken, a `down` candidate was recorded
(`kkt_down < 1e100`).  `pairGuard_of_bounded` shows that it holds whenever all gradient components
in `solveSub` are `< 1e100`, i.e. the excluded real inputs are those with `|1 ± <w_c,x_i>| ≥ 1e100`.
Further hypotheses: `y i < classes` (hence `0 < classes`), `0 ≤ C`, `0 < minAccuracy`.
Non-vacuity: `sweepGuard_coarse` proves the guard along EVERY schedule for every data set with `0 < C`
and `minAccuracy > 10`; the `example`s instantiate all hypotheses on `exDataCoarse`, schedule `[0, 1, 0]`.
-/
import SharkVerif.Lemmas.McLinearMc

namespace SharkVerif.Mc
open Finset

private theorem s00 : (0.0 : Rat) = 0 := by norm_num
private theorem s05 : (0.5 : Rat) = 1 / 2 := by norm_num
private theorem s20 : (2.0 : Rat) = 2 := by norm_num
private theorem s01 : (0 : Rat) < (0.1 : Rat) := by norm_num
private theorem sBig : (0 : Rat) < (1e100 : Rat) := by norm_num

/-! ### the clipped steps -/

theorem mlSumMu_spec (C a asum grad qq : Rat) (ha : 0 ≤ a) (hs : asum ≤ C) :
    (mlSumMu C a asum grad qq).2.1 = a + (mlSumMu C a asum grad qq).1 ∧
    (mlSumMu C a asum grad qq).2.2 = asum + (mlSumMu C a asum grad qq).1 ∧
    0 ≤ (mlSumMu C a asum grad qq).2.1 ∧ (mlSumMu C a asum grad qq).2.2 ≤ C := by
  unfold mlSumMu
  simp only [s00]
  split_ifs with h1 h2
  · refine ⟨by ring, rfl, le_refl _, by linarith⟩
  · refine ⟨rfl, by ring, by linarith, le_refl _⟩
  · have h1' : 0 < a + grad / qq := not_le.mp h1
    have h2' : asum + grad / qq < C := not_le.mp h2
    exact ⟨rfl, rfl, le_of_lt h1', le_of_lt h2'⟩

theorem mlPairMu_spec (au ad grad den : Rat) (hau : 0 ≤ au) (had : 0 ≤ ad) (hm : 0 ≤ grad / den) :
    (mlPairMu au ad grad den).2.1 = au + (mlPairMu au ad grad den).1 ∧
    (mlPairMu au ad grad den).2.2 = ad - (mlPairMu au ad grad den).1 ∧
    0 ≤ (mlPairMu au ad grad den).2.1 ∧ 0 ≤ (mlPairMu au ad grad den).2.2 := by
  unfold mlPairMu
  simp only [s00]
  split_ifs with h1
  · refine ⟨rfl, by ring, by linarith, le_refl _⟩
  · have h1' : 0 < ad - grad / den := not_le.mp h1
    exact ⟨rfl, rfl, by linarith, le_of_lt h1'⟩

/-! ### the selection folds -/

/-- a legal variable index: inside the row and not the skipped true class -/
def IdxGood (skip : Bool) (K y idx : Nat) : Prop := idx < K ∧ (skip = true → idx ≠ y)

theorem idxGood_of (skip : Bool) (K y c : Nat) (hc : c < K) (h : ¬((skip && c == y) = true)) :
    IdxGood skip K y c := by
  refine ⟨hc, ?_⟩
  intro hs hcy
  apply h
  simp [hs, hcy]

theorem freeSelect_aux (skip : Bool) (K y : Nat) (g a : Nat → Rat) (l : List Nat) (hl : ∀ c ∈ l, c < K) :
    ∀ st : Rat × Nat, (0 < st.1 → IdxGood skip K y st.2) → 0 ≤ st.1 →
      (0 < (l.foldl (fun (st : Rat × Nat) c =>
        if skip && c == y then st else
        let gc := g c
        let ac := a c
        if gc > st.1 then (gc, c)
        else if -gc > st.1 ∧ ac > (0.0 : Rat) then (-gc, c)
        else st) st).1 →
       IdxGood skip K y (l.foldl (fun (st : Rat × Nat) c =>
        if skip && c == y then st else
        let gc := g c
        let ac := a c
        if gc > st.1 then (gc, c)
        else if -gc > st.1 ∧ ac > (0.0 : Rat) then (-gc, c)
        else st) st).2) := by
  induction l with
  | nil => intro st h _; exact h
  | cons c rest ih =>
    intro st h h0
    simp only [List.foldl_cons]
    have hc : c < K := hl c (List.mem_cons_self ..)
    have hrest : ∀ c ∈ rest, c < K := fun j hj => hl j (List.mem_cons_of_mem _ hj)
    split_ifs with h1 h2 h3
    · exact ih hrest st h h0
    · exact ih hrest _ (fun _ => idxGood_of skip K y c hc h1) (by simp only; linarith [h2])
    · exact ih hrest _ (fun _ => idxGood_of skip K y c hc h1) (by simp only; linarith [h3.1])
    · exact ih hrest st h h0

theorem freeSelect_spec (skip : Bool) (K y : Nat) (g a : Nat → Rat)
    (h : 0 < (mlFreeSelect skip K y g a).1) : IdxGood skip K y (mlFreeSelect skip K y g a).2 := by
  unfold mlFreeSelect at h ⊢
  exact freeSelect_aux skip K y g a (List.range K) (fun c hc => List.mem_range.mp hc) _
    (fun h0 => absurd h0 (by simp [s00])) (by simp [s00]) h

/-- what is known about a recorded `up` / `down` candidate -/
def UpGood (skip : Bool) (K y : Nat) (C : Rat) (g a : Nat → Rat) (u : Rat × Nat) : Prop :=
  IdxGood skip K y u.2 ∧ u.1 = g u.2 ∧ a u.2 < C
def DownGood (skip : Bool) (K y : Nat) (g a : Nat → Rat) (d : Rat × Nat) : Prop :=
  IdxGood skip K y d.2 ∧ d.1 = g d.2 ∧ 0 < a d.2

/-- the loop body of `mlUpDown` -/
def udStep (skip : Bool) (y : Nat) (C : Rat) (g a : Nat → Rat) (st : (Rat × Nat) × (Rat × Nat)) (c : Nat) :
    (Rat × Nat) × (Rat × Nat) :=
  if skip && c == y then st else
  let gc := g c
  let ac := a c
  let u := if gc > st.1.1 ∧ ac < C then (gc, c) else st.1
  let dn := if gc < st.2.1 ∧ ac > (0.0 : Rat) then (gc, c) else st.2
  (u, dn)

def UdInv (skip : Bool) (K y : Nat) (C : Rat) (g a : Nat → Rat) (up0 : Rat) (st : (Rat × Nat) × (Rat × Nat)) : Prop :=
  (up0 < st.1.1 → UpGood skip K y C g a st.1) ∧ (st.2.1 < (1e100 : Rat) → DownGood skip K y g a st.2)

theorem udStep_ok (skip : Bool) (K y : Nat) (C : Rat) (g a : Nat → Rat) (up0 : Rat)
    (st : (Rat × Nat) × (Rat × Nat)) (c : Nat) (hc : c < K) (h : UdInv skip K y C g a up0 st) :
    UdInv skip K y C g a up0 (udStep skip y C g a st c) := by
  unfold udStep
  by_cases h1 : (skip && c == y) = true
  · rw [if_pos h1]; exact h
  · rw [if_neg h1]
    have hgood := idxGood_of skip K y c hc h1
    refine ⟨?_, ?_⟩
    · show up0 < (if g c > st.1.1 ∧ a c < C then (g c, c) else st.1).1 →
        UpGood skip K y C g a (if g c > st.1.1 ∧ a c < C then (g c, c) else st.1)
      by_cases h2 : g c > st.1.1 ∧ a c < C
      · rw [if_pos h2]; intro _; exact ⟨hgood, rfl, h2.2⟩
      · rw [if_neg h2]; exact h.1
    · show (if g c < st.2.1 ∧ a c > (0.0 : Rat) then (g c, c) else st.2).1 < (1e100 : Rat) →
        DownGood skip K y g a (if g c < st.2.1 ∧ a c > (0.0 : Rat) then (g c, c) else st.2)
      by_cases h3 : g c < st.2.1 ∧ a c > (0.0 : Rat)
      · rw [if_pos h3]; intro _
        refine ⟨hgood, rfl, ?_⟩
        have := h3.2
        rw [s00] at this
        exact this
      · rw [if_neg h3]; exact h.2

theorem upDown_aux (skip : Bool) (K y : Nat) (C : Rat) (g a : Nat → Rat) (up0 : Rat) (l : List Nat)
    (hl : ∀ c ∈ l, c < K) :
    ∀ st, UdInv skip K y C g a up0 st → UdInv skip K y C g a up0 (l.foldl (udStep skip y C g a) st) := by
  induction l with
  | nil => intro st h; exact h
  | cons c rest ih =>
    intro st h
    simp only [List.foldl_cons]
    exact ih (fun j hj => hl j (List.mem_cons_of_mem _ hj)) _
      (udStep_ok skip K y C g a up0 st c (hl c (List.mem_cons_self ..)) h)

theorem upDown_spec (skip : Bool) (K y : Nat) (C : Rat) (g a : Nat → Rat) (up0 : Rat) :
    (up0 < (mlUpDown skip K C y g a up0).1.1 → UpGood skip K y C g a (mlUpDown skip K C y g a up0).1) ∧
    ((mlUpDown skip K C y g a up0).2.1 < (1e100 : Rat) → DownGood skip K y g a (mlUpDown skip K C y g a up0).2) := by
  have h := upDown_aux skip K y C g a up0 (List.range K) (fun c hc => List.mem_range.mp hc)
    ((up0, 0), ((1e100 : Rat), 0)) ⟨fun h0 => absurd h0 (lt_irrefl _), fun h0 => absurd h0 (lt_irrefl _)⟩
  exact h

/-! ### invariant of the local state of the simplex-type `solveSub` -/

/-- invariant of (`alpha`, `mu`) of `solveSub` relative to the row `a` it started from; column `K`
of the row holds the running sum -/
structure SubOKS (C : Rat) (K y : Nat) (skip : Bool) (a al mu : Nat → Rat) : Prop where
  step : ∀ p, p < K → al p = a p + mu p
  nonneg : ∀ p, p < K → 0 ≤ al p
  sum : al K = ∑ p ∈ range K, al p
  le : al K ≤ C
  skipz : skip = true → al y = 0

theorem single_ok (C : Rat) (K y : Nat) (skip : Bool) (a al mu : Nat → Rat) (hy : y < K)
    (h : SubOKS C K y skip a al mu) (idx : Nat) (hidx : IdxGood skip K y idx) (grad qq : Rat) :
    SubOKS C K y skip a
      (fun c => if c = K then (mlSumMu C (al idx) (al K) grad qq).2.2
        else if c = idx then (mlSumMu C (al idx) (al K) grad qq).2.1 else al c)
      (fun c => if c = idx then mu c + (mlSumMu C (al idx) (al K) grad qq).1 else mu c) := by
  obtain ⟨e1, e2, n1, l2⟩ := mlSumMu_spec C (al idx) (al K) grad qq (h.nonneg idx hidx.1) h.le
  have hiK : idx ≠ K := Nat.ne_of_lt hidx.1
  refine ⟨?_, ?_, ?_, ?_, ?_⟩
  · intro p hp
    have hpK : p ≠ K := Nat.ne_of_lt hp
    simp only [hpK, if_false]
    by_cases hpi : p = idx
    · subst hpi; simp only [if_true]; rw [e1, h.step p hp]; ring
    · simp only [hpi, if_false]; exact h.step p hp
  · intro p hp
    have hpK : p ≠ K := Nat.ne_of_lt hp
    simp only [hpK, if_false]
    by_cases hpi : p = idx
    · subst hpi; simp only [if_true]; exact n1
    · simp only [hpi, if_false]; exact h.nonneg p hp
  · simp only [if_true]
    have hsum : ∑ p ∈ range K, (if p = K then (mlSumMu C (al idx) (al K) grad qq).2.2
          else if p = idx then (mlSumMu C (al idx) (al K) grad qq).2.1 else al p)
        = ∑ p ∈ range K, (al p + if p = idx then (mlSumMu C (al idx) (al K) grad qq).1 else 0) := by
      apply Finset.sum_congr rfl
      intro p hp
      have hpK : p ≠ K := Nat.ne_of_lt (Finset.mem_range.mp hp)
      simp only [hpK, if_false]
      by_cases hpi : p = idx
      · subst hpi; simp only [if_true]; exact e1
      · simp [hpi]
    rw [hsum, Finset.sum_add_distrib, Finset.sum_ite_eq' (range K) idx, e2, h.sum]
    simp [hidx.1]
  · simp only [if_true]; exact l2
  · intro hs
    have hyK : y ≠ K := Nat.ne_of_lt hy
    have hyi : y ≠ idx := fun e => hidx.2 hs e.symm
    simp only [hyK, hyi, if_false]
    exact h.skipz hs

theorem pair_ok (C : Rat) (K y : Nat) (skip : Bool) (a al mu : Nat → Rat) (_hy : y < K)
    (h : SubOKS C K y skip a al mu) (up dn : Nat) (hup : IdxGood skip K y up) (hdn : IdxGood skip K y dn)
    (hne : up ≠ dn) (grad den : Rat) (hm : 0 ≤ grad / den) :
    SubOKS C K y skip a
      (fun c => if c = dn then (mlPairMu (al up) (al dn) grad den).2.2
        else if c = up then (mlPairMu (al up) (al dn) grad den).2.1 else al c)
      (fun c => if c = dn then (if c = up then mu c + (mlPairMu (al up) (al dn) grad den).1 else mu c)
            - (mlPairMu (al up) (al dn) grad den).1
        else (if c = up then mu c + (mlPairMu (al up) (al dn) grad den).1 else mu c)) := by
  obtain ⟨e1, e2, n1, n2⟩ := mlPairMu_spec (al up) (al dn) grad den (h.nonneg up hup.1) (h.nonneg dn hdn.1) hm
  have huK : up ≠ K := Nat.ne_of_lt hup.1
  have hdK : dn ≠ K := Nat.ne_of_lt hdn.1
  have hdu : dn ≠ up := fun e => hne e.symm
  refine ⟨?_, ?_, ?_, ?_, ?_⟩
  · intro p hp
    by_cases hpd : p = dn
    · subst hpd; simp only [if_true, hdu, if_false]; rw [e2, h.step p hp]; ring
    · simp only [hpd, if_false]
      by_cases hpu : p = up
      · subst hpu; simp only [if_true]; rw [e1, h.step p hp]; ring
      · simp only [hpu, if_false]; exact h.step p hp
  · intro p hp
    by_cases hpd : p = dn
    · subst hpd; simp only [if_true]; exact n2
    · simp only [hpd, if_false]
      by_cases hpu : p = up
      · subst hpu; simp only [if_true]; exact n1
      · simp only [hpu, if_false]; exact h.nonneg p hp
  · have hKd : K ≠ dn := fun e => hdK e.symm
    have hKu : K ≠ up := fun e => huK e.symm
    simp only [hKd, hKu, if_false]
    have hsum : ∑ p ∈ range K, (if p = dn then (mlPairMu (al up) (al dn) grad den).2.2
          else if p = up then (mlPairMu (al up) (al dn) grad den).2.1 else al p)
        = ∑ p ∈ range K, ((al p + if p = up then (mlPairMu (al up) (al dn) grad den).1 else 0)
            - if p = dn then (mlPairMu (al up) (al dn) grad den).1 else 0) := by
      apply Finset.sum_congr rfl
      intro p _
      by_cases hpd : p = dn
      · subst hpd; simp only [if_true, hdu, if_false]; rw [e2]; ring
      · simp only [hpd, if_false]
        by_cases hpu : p = up
        · subst hpu; simp only [if_true]; rw [e1]; ring
        · simp [hpu]
    rw [hsum, Finset.sum_sub_distrib, Finset.sum_add_distrib, Finset.sum_ite_eq' (range K) up,
      Finset.sum_ite_eq' (range K) dn, h.sum]
    simp [hup.1, hdn.1]
  · have hKd : K ≠ dn := fun e => hdK e.symm
    have hKu : K ≠ up := fun e => huK e.symm
    simp only [hKd, hKu, if_false]
    exact h.le
  · intro hs
    have hyd : y ≠ dn := fun e => hdn.2 hs e.symm
    have hyu : y ≠ up := fun e => hup.2 hs e.symm
    simp only [hyd, hyu, if_false]
    exact h.skipz hs

/-! ### the guard: a two-variable step is only taken when a `down` candidate was recorded -/

/-- at the local state `s`: if the sum constraint is active, an `up` candidate with positive
gradient exists and the pair violation reaches `eps`, then a `down` candidate was recorded
(its value is not the sentinel `1e100`) -/
def PairGuard (F : McForm) (K : Nat) (C eps : Rat) (y : Nat) (s : MlSub Rat) : Prop :=
  s.alpha K = C →
  0 < (mlUpDown F.skipY K C y s.grad s.alpha (-(1e100 : Rat))).1.1 →
  eps ≤ (mlUpDown F.skipY K C y s.grad s.alpha (-(1e100 : Rat))).1.1
        - (mlUpDown F.skipY K C y s.grad s.alpha (-(1e100 : Rat))).2.1 →
  (mlUpDown F.skipY K C y s.grad s.alpha (-(1e100 : Rat))).2.1 < (1e100 : Rat)

/-- the guard along the SMO loop of `solveSub` -/
def LoopGuard (F : McForm) (K : Nat) (q C eps : Rat) (y : Nat) : Nat → MlSub Rat → Prop
  | 0, _ => True
  | fuel + 1, s =>
    PairGuard F K C eps y s ∧
    match mlSimplexIter F K q C eps y s with
    | none => True
    | some s' => LoopGuard F K q C eps y fuel s'

/-- the curvature used by the two-variable step -/
def pairDen (F : McForm) (K : Nat) (q : Rat) : Rat :=
  match F with
  | .CS => mlQQ F K q
  | _ => (2.0 : Rat) * q

theorem pairDen_nonneg (F : McForm) (K : Nat) (q : Rat) (hq : 0 ≤ q) : 0 ≤ pairDen F K q := by
  cases F
  case CS => exact mlQQ_nonneg .CS K q hq
  all_goals (simp only [pairDen, s20]; linarith)

/-- `mlSimplexIter` with the results of the two selection folds as parameters (same body) -/
def simplexIterG (F : McForm) (K : Nat) (q C eps : Rat) (y : Nat) (s : MlSub Rat)
    (ud : (Rat × Nat) × (Rat × Nat)) (sel : Rat × Nat) : Option (MlSub Rat) :=
  let qq := mlQQ F K q
  if s.alpha K == C then
    let kkt_up := ud.1.1
    let idx_up := ud.1.2
    let kkt_down := ud.2.1
    let idx_down := ud.2.2
    if kkt_up ≤ (0.0 : Rat) then
      if -kkt_down < eps then none else some (mlSimplexIter.single F K q C y s qq idx_down kkt_down)
    else
      let grad := kkt_up - kkt_down
      if grad < eps then none else
      let a_up := s.alpha idx_up
      let a_down := s.alpha idx_down
      let den := match F with | .CS => qq | _ => (2.0 : Rat) * q
      let r := mlPairMu a_up a_down grad den
      let m := r.1
      let alpha' := fun c => if c = idx_down then r.2.2 else if c = idx_up then r.2.1 else s.alpha c
      let mu1 := fun c => if c = idx_up then s.mu c + m else s.mu c
      let mu' := fun c => if c = idx_down then mu1 c - m else mu1 c
      match F with
      | .CS =>
        let dg := (0.5 : Rat) * m * qq
        let g1 := fun c => if c = idx_up then s.grad c - dg else s.grad c
        let g2 := fun c => if c = idx_down then g1 c + dg else g1 c
        some { alpha := alpha', mu := mu', grad := g2, gain := s.gain + m * (grad - (2.0 : Rat) * dg) }
      | .ATM =>
        let dg := m * q
        let dgc := dg / (K : Rat)
        let g2 : Nat → Rat :=
          if idx_up = y then
            let g0 := fun c => s.grad c - dgc
            let g1 := fun c => if c = idx_up then g0 c - (dg - (2.0 : Rat) * dgc) else g0 c
            fun c => if c = idx_down then g1 c + dg else g1 c
          else if idx_down = y then
            let g1 := fun c => if c = idx_up then s.grad c - dg else s.grad c
            fun c => if c = idx_down then g1 c + (dg - (2.0 : Rat) * dgc) else g1 c
          else
            let g1 := fun c => if c = idx_up then s.grad c - dg else s.grad c
            fun c => if c = idx_down then g1 c + dg else g1 c
        some { alpha := alpha', mu := mu', grad := g2, gain := s.gain + m * (grad - (dg - dgc)) }
      | _ =>
        let dg := m * q
        let dgc := dg / (K : Rat)
        let g1 := fun c => if c = idx_up then s.grad c - dg else s.grad c
        let g2 := fun c => if c = idx_down then g1 c + dg else g1 c
        some { alpha := alpha', mu := mu', grad := g2, gain := s.gain + m * (grad - (dg - dgc)) }
  else
    if sel.1 < eps then none else some (mlSimplexIter.single F K q C y s qq sel.2 (s.grad sel.2))

theorem simplexIter_eq (F : McForm) (K : Nat) (q C eps : Rat) (y : Nat) (s : MlSub Rat) :
    mlSimplexIter F K q C eps y s = simplexIterG F K q C eps y s
      (mlUpDown F.skipY K C y s.grad s.alpha (-(1e100 : Rat))) (mlFreeSelect F.skipY K y s.grad s.alpha) := rfl

/-- the pair branch of `simplexIterG`: the new `alpha`, `mu` (whatever the formulation) -/
theorem simplexIterG_pair (F : McForm) (K : Nat) (q C eps : Rat) (y : Nat) (s s' : MlSub Rat)
    (ud : (Rat × Nat) × (Rat × Nat)) (sel : Rat × Nat)
    (h1 : (s.alpha K == C) = true) (h2 : ¬ ud.1.1 ≤ (0.0 : Rat)) (h4 : ¬ ud.1.1 - ud.2.1 < eps)
    (hs : simplexIterG F K q C eps y s ud sel = some s') :
    s'.alpha = (fun c => if c = ud.2.2 then (mlPairMu (s.alpha ud.1.2) (s.alpha ud.2.2) (ud.1.1 - ud.2.1) (pairDen F K q)).2.2
        else if c = ud.1.2 then (mlPairMu (s.alpha ud.1.2) (s.alpha ud.2.2) (ud.1.1 - ud.2.1) (pairDen F K q)).2.1 else s.alpha c) ∧
    s'.mu = (fun c => if c = ud.2.2 then (if c = ud.1.2 then s.mu c + (mlPairMu (s.alpha ud.1.2) (s.alpha ud.2.2) (ud.1.1 - ud.2.1) (pairDen F K q)).1 else s.mu c)
            - (mlPairMu (s.alpha ud.1.2) (s.alpha ud.2.2) (ud.1.1 - ud.2.1) (pairDen F K q)).1
        else (if c = ud.1.2 then s.mu c + (mlPairMu (s.alpha ud.1.2) (s.alpha ud.2.2) (ud.1.1 - ud.2.1) (pairDen F K q)).1 else s.mu c)) := by
  unfold simplexIterG at hs
  simp only [h1, h2, h4, if_true, if_false] at hs
  cases F <;> simp only at hs <;> (have hs' := Option.some.inj hs; subst hs'; exact ⟨rfl, rfl⟩)

/-- one iteration of the simplex-type loop preserves the invariant -/
theorem mlSimplexIter_ok (F : McForm) (K : Nat) (q C eps : Rat) (y : Nat) (hy : y < K)
    (heps : 0 < eps) (hq : 0 ≤ q) (a : Nat → Rat) (s s' : MlSub Rat)
    (h : SubOKS C K y F.skipY a s.alpha s.mu) (hg : PairGuard F K C eps y s)
    (hs : mlSimplexIter F K q C eps y s = some s') :
    SubOKS C K y F.skipY a s'.alpha s'.mu := by
  rw [simplexIter_eq] at hs
  obtain ⟨hU, hD⟩ := upDown_spec F.skipY K y C s.grad s.alpha (-(1e100 : Rat))
  have hF := freeSelect_spec F.skipY K y s.grad s.alpha
  unfold PairGuard at hg
  generalize mlUpDown F.skipY K C y s.grad s.alpha (-(1e100 : Rat)) = ud at hs hU hD hg
  generalize mlFreeSelect F.skipY K y s.grad s.alpha = sel at hs hF
  by_cases h1 : (s.alpha K == C) = true
  · have hK : s.alpha K = C := beq_iff_eq.mp h1
    by_cases h2 : ud.1.1 ≤ (0.0 : Rat)
    · by_cases h3 : -ud.2.1 < eps
      · unfold simplexIterG at hs
        simp only [h1, h2, h3, if_true] at hs
        exact absurd hs (by simp)
      · unfold simplexIterG at hs
        simp only [h1, h2, h3, if_true, if_false] at hs
        have hdn : ud.2.1 < (1e100 : Rat) := by
          have := not_lt.mp h3
          linarith [sBig]
        have hs' := Option.some.inj hs
        subst hs'
        exact single_ok C K y F.skipY a s.alpha s.mu hy h _ (hD hdn).1 _ _
    · have hup0 : (0 : Rat) < ud.1.1 := by
        have := not_le.mp h2
        rw [s00] at this
        exact this
      by_cases h4 : ud.1.1 - ud.2.1 < eps
      · unfold simplexIterG at hs
        simp only [h1, h2, h4, if_true, if_false] at hs
        exact absurd hs (by simp)
      · have hge := not_lt.mp h4
        have hdn := hg hK hup0 hge
        have hUp := hU (by linarith [sBig])
        have hDn := hD hdn
        have hne : ud.1.2 ≠ ud.2.2 := by
          intro e
          have e1 := hUp.2.1
          have e2 := hDn.2.1
          rw [e] at e1
          linarith
        have hm : 0 ≤ (ud.1.1 - ud.2.1) / pairDen F K q :=
          div_nonneg (by linarith) (pairDen_nonneg F K q hq)
        have key := pair_ok C K y F.skipY a s.alpha s.mu hy h _ _ hUp.1 hDn.1 hne _ _ hm
        obtain ⟨ea, em⟩ := simplexIterG_pair F K q C eps y s s' ud sel h1 h2 h4 hs
        rw [ea, em]
        exact key
  · by_cases h5 : sel.1 < eps
    · unfold simplexIterG at hs
      simp only [h1, h5, if_true] at hs
      exact absurd hs (by simp)
    · unfold simplexIterG at hs
      simp only [h1, h5, if_false] at hs
      have hpos : 0 < sel.1 := lt_of_lt_of_le heps (not_lt.mp h5)
      have hs' := Option.some.inj hs
      subst hs'
      exact single_ok C K y F.skipY a s.alpha s.mu hy h _ (hF hpos) _ _

theorem mlSimplexLoop_ok (F : McForm) (K : Nat) (q C eps : Rat) (y : Nat) (hy : y < K)
    (heps : 0 < eps) (hq : 0 ≤ q) (a : Nat → Rat) (fuel : Nat) :
    ∀ s : MlSub Rat, SubOKS C K y F.skipY a s.alpha s.mu → LoopGuard F K q C eps y fuel s →
      SubOKS C K y F.skipY a (mlSimplexLoop F K q C eps y fuel s).alpha
        (mlSimplexLoop F K q C eps y fuel s).mu := by
  induction fuel with
  | zero => intro s h _; exact h
  | succ n ih =>
    intro s h hg
    unfold mlSimplexLoop
    unfold LoopGuard at hg
    cases hit : mlSimplexIter F K q C eps y s with
    | none => simp only; exact h
    | some s' =>
      simp only
      rw [hit] at hg
      exact ih s' (mlSimplexIter_ok F K q C eps y hy heps hq a s s' h hg.1 hit) hg.2

/-- sufficient for the guard: every gradient component of the local state is below the sentinel -/
theorem pairGuard_of_bounded (F : McForm) (K : Nat) (C eps : Rat) (y : Nat) (s : MlSub Rat) (heps : 0 < eps)
    (hb : ∀ c, c < K → s.grad c < (1e100 : Rat)) : PairGuard F K C eps y s := by
  unfold PairGuard
  obtain ⟨hU, _⟩ := upDown_spec F.skipY K y C s.grad s.alpha (-(1e100 : Rat))
  generalize mlUpDown F.skipY K C y s.grad s.alpha (-(1e100 : Rat)) = ud at hU ⊢
  intro _ hpos hge
  by_contra hn
  have hUp := hU (by linarith [sBig])
  have hlt := hb _ hUp.1.1
  rw [← hUp.2.1] at hlt
  linarith [not_lt.mp hn]

/-! ### the step for one example, sweeps -/

/-- `mlStepVec … c` only reads the row at indices `p < K` (for `c < K`, `y < K`) -/
theorem mlStepVec_congr (F : McForm) (K y : Nat) (f g : Nat → Rat) (h : ∀ p, p < K → f p = g p)
    (c : Nat) (hc : c < K) (hy : y < K) : mlStepVec F K y f c = mlStepVec F K y g c := by
  have hs : ∑ p ∈ range K, f p = ∑ p ∈ range K, g p :=
    Finset.sum_congr rfl (fun p hp => h p (Finset.mem_range.mp hp))
  have hcs : ∑ p ∈ range K, (if p = y then (0 : Rat) else f p) = ∑ p ∈ range K, (if p = y then (0 : Rat) else g p) :=
    Finset.sum_congr rfl (fun p hp => by rw [h p (Finset.mem_range.mp hp)])
  have e0 : f 0 = g 0 := h 0 (by omega)
  have ec := h c hc
  have ey := h y hy
  cases F <;> simp only [mlStepVec, mlSum_eq, csSum_eq, hs, hcs, ec, ey, e0]

theorem mlSolveSub_simplex (F : McForm) (hF : F.simplex = true) (K : Nat) (eps q C : Rat) (y : Nat)
    (g a : Nat → Rat) :
    mlSolveSub F K eps q C y g a = mlSimplexLoop F K q C eps y (10 * K)
      { alpha := a, mu := fun _ => (0.0 : Rat), grad := g, gain := (0.0 : Rat) } := by
  cases F <;> simp only [McForm.simplex, Bool.false_eq_true] at hF <;> rfl

/-- the local start state of `solveSub` inside `mlStep` -/
def mlSub0 (F : McForm) (D : MlData Rat) (s : MlState Rat) (i : Nat) : MlSub Rat :=
  { alpha := s.alpha i, mu := fun _ => (0.0 : Rat),
    grad := fun c => mlGradAt F D.classes (fun c => mlWx D s.w i c) (D.y i) c, gain := (0.0 : Rat) }

/-- the guard for the `solveSub` call of the step on example `i` -/
def StepGuard (F : McForm) (D : MlData Rat) (s : MlState Rat) (i : Nat) : Prop :=
  LoopGuard F D.classes (D.xsq i) D.C ((0.1 : Rat) * D.eps) (D.y i) (10 * D.classes) (mlSub0 F D s i)

/-- the guard along a schedule -/
def SweepGuard (F : McForm) (D : MlData Rat) : MlState Rat → List Nat → Prop
  | _, [] => True
  | s, i :: rest => StepGuard F D s i ∧ SweepGuard F D (mlStep F D s i).1 rest

/-- **mc_linear_feasible_sum** (state) -/
def MlSumInv (F : McForm) (D : MlData Rat) (s : MlState Rat) : Prop :=
  ∀ i, (∀ p, p < D.classes → 0 ≤ s.alpha i p) ∧
    s.alpha i D.classes = ∑ p ∈ range D.classes, s.alpha i p ∧
    s.alpha i D.classes ≤ D.C ∧
    (F.skipY = true → s.alpha i (D.y i) = 0)

/-- **mc_linear_w_inv_sum** (state) -/
def MlWInvK (F : McForm) (D : MlData Rat) (s : MlState Rat) : Prop :=
  ∀ c, c < D.classes → ∀ k, s.w c k = ∑ i ∈ range D.n, mlStepVec F D.classes (D.y i) (s.alpha i) c * D.x i k

theorem mlSumInv_init (F : McForm) (D : MlData Rat) (hC : 0 ≤ D.C) : MlSumInv F D (mlInit : MlState Rat) := by
  intro i
  simp only [mlInit, s00, Finset.sum_const_zero]
  exact ⟨fun _ _ => le_refl _, trivial, hC, fun _ => trivial⟩

theorem mlWInvK_init (F : McForm) (D : MlData Rat) : MlWInvK F D (mlInit : MlState Rat) :=
  fun c _ k => mlWInv_init F D c k

theorem mlSub_oks (F : McForm) (hF : F.simplex = true) (D : MlData Rat) (hy : ∀ i, D.y i < D.classes)
    (heps : 0 < D.eps) (s : MlState Rat) (hb : MlSumInv F D s) (i : Nat) (hg : StepGuard F D s i) :
    SubOKS D.C D.classes (D.y i) F.skipY (s.alpha i) (mlSub F D s i).alpha (mlSub F D s i).mu := by
  unfold mlSub
  rw [mlSolveSub_simplex F hF]
  have h0 : SubOKS D.C D.classes (D.y i) F.skipY (s.alpha i) (mlSub0 F D s i).alpha (mlSub0 F D s i).mu := by
    obtain ⟨b1, b2, b3, b4⟩ := hb i
    exact ⟨fun p _ => by simp [mlSub0, s00], b1, b2, b3, b4⟩
  exact mlSimplexLoop_ok F D.classes (D.xsq i) D.C ((0.1 : Rat) * D.eps) (D.y i) (hy i)
    (mul_pos s01 heps) (xsq_nonneg D i) (s.alpha i) (10 * D.classes) (mlSub0 F D s i) h0 hg

theorem mlWInvK_stepped (F : McForm) (D : MlData Rat) (s : MlState Rat) (i : Nat) (hi : i < D.n)
    (hy : D.y i < D.classes)
    (hstep : ∀ p, p < D.classes → (mlSub F D s i).alpha p = s.alpha i p + (mlSub F D s i).mu p)
    (h : MlWInvK F D s) : MlWInvK F D (mlStepped F D s i) := by
  intro c hc k
  unfold mlStepped
  simp only
  rw [h c hc k]
  have hrow : mlStepVec F D.classes (D.y i) (mlSub F D s i).alpha c
      = mlStepVec F D.classes (D.y i) (s.alpha i) c + mlStepVec F D.classes (D.y i) (mlSub F D s i).mu c := by
    rw [mlStepVec_congr F D.classes (D.y i) (mlSub F D s i).alpha
      (fun p => s.alpha i p + (mlSub F D s i).mu p) hstep c hc hy, mlStepVec_add]
  have hsum : ∑ j ∈ range D.n, mlStepVec F D.classes (D.y j) (if j = i then (mlSub F D s i).alpha else s.alpha j) c * D.x j k
      = ∑ j ∈ range D.n, (mlStepVec F D.classes (D.y j) (s.alpha j) c * D.x j k
          + if j = i then mlStepVec F D.classes (D.y j) (mlSub F D s i).mu c * D.x j k else 0) := by
    apply Finset.sum_congr rfl
    intro j _
    by_cases hj : j = i
    · subst hj
      simp only [if_true]
      rw [hrow]; ring
    · simp [hj]
  rw [hsum, Finset.sum_add_distrib, Finset.sum_ite_eq' (range D.n) i]
  simp [hi]

theorem ml_inv_step_sum (F : McForm) (hF : F.simplex = true) (D : MlData Rat)
    (hy : ∀ i, D.y i < D.classes) (heps : 0 < D.eps)
    (s : MlState Rat) (hw : MlWInvK F D s) (hb : MlSumInv F D s) (i : Nat) (hi : i < D.n)
    (hg : StepGuard F D s i) :
    MlWInvK F D (mlStep F D s i).1 ∧ MlSumInv F D (mlStep F D s i).1 := by
  have ok := mlSub_oks F hF D hy heps s hb i hg
  rcases mlStep_cases F D s i with ⟨h1, _⟩ | ⟨h1, _⟩ <;> rw [h1]
  · exact ⟨hw, hb⟩
  · refine ⟨mlWInvK_stepped F D s i hi (hy i) ok.step hw, ?_⟩
    intro j
    unfold mlStepped
    simp only
    by_cases hj : j = i
    · subst hj
      simp only [if_true]
      exact ⟨ok.nonneg, ok.sum, ok.le, ok.skipz⟩
    · simp only [hj, if_false]; exact hb j

theorem ml_inv_sweep_sum (F : McForm) (hF : F.simplex = true) (D : MlData Rat)
    (hy : ∀ i, D.y i < D.classes) (heps : 0 < D.eps)
    (sched : List Nat) (hs : ∀ i ∈ sched, i < D.n) :
    ∀ s : MlState Rat, MlWInvK F D s → MlSumInv F D s → SweepGuard F D s sched →
      MlWInvK F D (mlSweep F D s sched) ∧ MlSumInv F D (mlSweep F D s sched) := by
  induction sched with
  | nil => intro s h1 h2 _; exact ⟨h1, h2⟩
  | cons i rest ih =>
    intro s h1 h2 hg
    simp only [mlSweep, List.foldl_cons]
    unfold SweepGuard at hg
    have st := ml_inv_step_sum F hF D hy heps s h1 h2 i (hs i (List.mem_cons_self ..)) hg.1
    exact ih (fun j hj => hs j (List.mem_cons_of_mem _ hj)) _ st.1 st.2 hg.2

/-! ### the property theorems (zero start, every schedule; CS, ATM, ADM) -/

/-- **mc_linear_w_inv_sum** (partial: `SweepGuard`, see the file header).  After any schedule of steps
from the zero start, `w_c` (`c < classes`) is the formulation's linear map of `alpha` and the data.
Hypotheses: `F ∈ {CS, ATM, ADM}`, `y i < classes`, `0 ≤ C`, `0 < minAccuracy`, schedule indices `< n`,
and `SweepGuard` (no two-variable step is taken with an unrecorded `down` candidate; implied by all
gradient components inside `solveSub` being `< 1e100`, `pairGuard_of_bounded`). -/
theorem mc_linear_w_inv_sum_partial (F : McForm) (hF : F.simplex = true) (D : MlData Rat)
    (hy : ∀ i, D.y i < D.classes) (hC : 0 ≤ D.C) (heps : 0 < D.eps)
    (sched : List Nat) (hs : ∀ i ∈ sched, i < D.n) (hg : SweepGuard F D mlInit sched) :
    ∀ c, c < D.classes → ∀ k, (mlSweep F D mlInit sched).w c k
      = ∑ i ∈ range D.n, mlStepVec F D.classes (D.y i) ((mlSweep F D mlInit sched).alpha i) c * D.x i k :=
  (ml_inv_sweep_sum F hF D hy heps sched hs _ (mlWInvK_init F D) (mlSumInv_init F D hC) hg).1

/-- **mc_linear_feasible_sum** (partial: `SweepGuard`).  After any schedule from the zero start, for
every example `i`: `0 ≤ alpha i c` for `c < classes`, column `classes` holds the row sum, the row sum
is `≤ C`, and `alpha i (y i) = 0` for the formulations that skip the true class (CS, ADM). -/
theorem mc_linear_feasible_sum_partial (F : McForm) (hF : F.simplex = true) (D : MlData Rat)
    (hy : ∀ i, D.y i < D.classes) (hC : 0 ≤ D.C) (heps : 0 < D.eps)
    (sched : List Nat) (hs : ∀ i ∈ sched, i < D.n) (hg : SweepGuard F D mlInit sched) (i : Nat) :
    (∀ c, c < D.classes → 0 ≤ (mlSweep F D mlInit sched).alpha i c) ∧
    (mlSweep F D mlInit sched).alpha i D.classes = ∑ c ∈ range D.classes, (mlSweep F D mlInit sched).alpha i c ∧
    (mlSweep F D mlInit sched).alpha i D.classes ≤ D.C ∧
    (F.skipY = true → (mlSweep F D mlInit sched).alpha i (D.y i) = 0) :=
  (ml_inv_sweep_sum F hF D hy heps sched hs _ (mlWInvK_init F D) (mlSumInv_init F D hC) hg).2 i

/-- consequence: every variable is `≤ C` -/
theorem mc_linear_feasible_sum_le_C_partial (F : McForm) (hF : F.simplex = true) (D : MlData Rat)
    (hy : ∀ i, D.y i < D.classes) (hC : 0 ≤ D.C) (heps : 0 < D.eps)
    (sched : List Nat) (hs : ∀ i ∈ sched, i < D.n) (hg : SweepGuard F D mlInit sched) (i c : Nat)
    (hc : c < D.classes) : (mlSweep F D mlInit sched).alpha i c ≤ D.C := by
  obtain ⟨h1, h2, h3, _⟩ := mc_linear_feasible_sum_partial F hF D hy hC heps sched hs hg i
  have : (mlSweep F D mlInit sched).alpha i c ≤ ∑ p ∈ range D.classes, (mlSweep F D mlInit sched).alpha i p :=
    Finset.single_le_sum (fun p hp => h1 p (Finset.mem_range.mp hp)) (Finset.mem_range.mpr hc)
  linarith

/-! per-formulation names -/
theorem mc_linear_w_inv_CS_partial (D : MlData Rat) (hy : ∀ i, D.y i < D.classes) (hC : 0 ≤ D.C) (heps : 0 < D.eps)
    (sched : List Nat) (hs : ∀ i ∈ sched, i < D.n) (hg : SweepGuard .CS D mlInit sched) :
    ∀ c, c < D.classes → ∀ k, (mlSweep .CS D mlInit sched).w c k
      = ∑ i ∈ range D.n, mlStepVec .CS D.classes (D.y i) ((mlSweep .CS D mlInit sched).alpha i) c * D.x i k :=
  mc_linear_w_inv_sum_partial .CS rfl D hy hC heps sched hs hg
theorem mc_linear_feasible_CS_partial (D : MlData Rat) (hy : ∀ i, D.y i < D.classes) (hC : 0 ≤ D.C) (heps : 0 < D.eps)
    (sched : List Nat) (hs : ∀ i ∈ sched, i < D.n) (hg : SweepGuard .CS D mlInit sched) (i : Nat) :
    (∀ c, c < D.classes → 0 ≤ (mlSweep .CS D mlInit sched).alpha i c) ∧
    (mlSweep .CS D mlInit sched).alpha i D.classes = ∑ c ∈ range D.classes, (mlSweep .CS D mlInit sched).alpha i c ∧
    (mlSweep .CS D mlInit sched).alpha i D.classes ≤ D.C ∧
    (McForm.skipY .CS = true → (mlSweep .CS D mlInit sched).alpha i (D.y i) = 0) :=
  mc_linear_feasible_sum_partial .CS rfl D hy hC heps sched hs hg i
theorem mc_linear_w_inv_ATM_partial (D : MlData Rat) (hy : ∀ i, D.y i < D.classes) (hC : 0 ≤ D.C) (heps : 0 < D.eps)
    (sched : List Nat) (hs : ∀ i ∈ sched, i < D.n) (hg : SweepGuard .ATM D mlInit sched) :
    ∀ c, c < D.classes → ∀ k, (mlSweep .ATM D mlInit sched).w c k
      = ∑ i ∈ range D.n, mlStepVec .ATM D.classes (D.y i) ((mlSweep .ATM D mlInit sched).alpha i) c * D.x i k :=
  mc_linear_w_inv_sum_partial .ATM rfl D hy hC heps sched hs hg
theorem mc_linear_feasible_ATM_partial (D : MlData Rat) (hy : ∀ i, D.y i < D.classes) (hC : 0 ≤ D.C) (heps : 0 < D.eps)
    (sched : List Nat) (hs : ∀ i ∈ sched, i < D.n) (hg : SweepGuard .ATM D mlInit sched) (i : Nat) :
    (∀ c, c < D.classes → 0 ≤ (mlSweep .ATM D mlInit sched).alpha i c) ∧
    (mlSweep .ATM D mlInit sched).alpha i D.classes = ∑ c ∈ range D.classes, (mlSweep .ATM D mlInit sched).alpha i c ∧
    (mlSweep .ATM D mlInit sched).alpha i D.classes ≤ D.C ∧
    (McForm.skipY .ATM = true → (mlSweep .ATM D mlInit sched).alpha i (D.y i) = 0) :=
  mc_linear_feasible_sum_partial .ATM rfl D hy hC heps sched hs hg i
theorem mc_linear_w_inv_ADM_partial (D : MlData Rat) (hy : ∀ i, D.y i < D.classes) (hC : 0 ≤ D.C) (heps : 0 < D.eps)
    (sched : List Nat) (hs : ∀ i ∈ sched, i < D.n) (hg : SweepGuard .ADM D mlInit sched) :
    ∀ c, c < D.classes → ∀ k, (mlSweep .ADM D mlInit sched).w c k
      = ∑ i ∈ range D.n, mlStepVec .ADM D.classes (D.y i) ((mlSweep .ADM D mlInit sched).alpha i) c * D.x i k :=
  mc_linear_w_inv_sum_partial .ADM rfl D hy hC heps sched hs hg
theorem mc_linear_feasible_ADM_partial (D : MlData Rat) (hy : ∀ i, D.y i < D.classes) (hC : 0 ≤ D.C) (heps : 0 < D.eps)
    (sched : List Nat) (hs : ∀ i ∈ sched, i < D.n) (hg : SweepGuard .ADM D mlInit sched) (i : Nat) :
    (∀ c, c < D.classes → 0 ≤ (mlSweep .ADM D mlInit sched).alpha i c) ∧
    (mlSweep .ADM D mlInit sched).alpha i D.classes = ∑ c ∈ range D.classes, (mlSweep .ADM D mlInit sched).alpha i c ∧
    (mlSweep .ADM D mlInit sched).alpha i D.classes ≤ D.C ∧
    (McForm.skipY .ADM = true → (mlSweep .ADM D mlInit sched).alpha i (D.y i) = 0) :=
  mc_linear_feasible_sum_partial .ADM rfl D hy hC heps sched hs hg i

/-- closed forms of the coefficient map for the sum-constrained formulations (the map checked by the
harness oracle `ml-w-inconsistent`) -/
theorem mlStepVec_CS (K y : Nat) (a : Nat → Rat) (c : Nat) :
    mlStepVec .CS K y a c = if c = y then (1 / 2) * ∑ p ∈ range K, (if p = y then 0 else a p) else -(1 / 2) * a c := by
  simp only [mlStepVec, csSum_eq, s00, s05, zero_add]

theorem mlStepVec_ADM (K y : Nat) (a : Nat → Rat) (c : Nat) :
    mlStepVec .ADM K y a c = (∑ p ∈ range K, a p) / K - a c := by
  simp only [mlStepVec, mlSum_eq, s00, zero_add]

theorem mlStepVec_ATM (K y : Nat) (a : Nat → Rat) (c : Nat) :
    mlStepVec .ATM K y a c
      = if c = y then a c + (-2 * a y + ∑ p ∈ range K, a p) / K else (-2 * a y + ∑ p ∈ range K, a p) / K - a c := by
  simp only [mlStepVec, mlSum_eq, s20]

/-! ### non-vacuity -/

theorem freeSelect_le_aux (skip : Bool) (y : Nat) (g a : Nat → Rat) (B : Rat)
    (hg : ∀ c, g c ≤ B ∧ -(g c) ≤ B) (l : List Nat) :
    ∀ st : Rat × Nat, st.1 ≤ B →
      (l.foldl (fun (st : Rat × Nat) c =>
        if skip && c == y then st else
        let gc := g c
        let ac := a c
        if gc > st.1 then (gc, c)
        else if -gc > st.1 ∧ ac > (0.0 : Rat) then (-gc, c)
        else st) st).1 ≤ B := by
  induction l with
  | nil => intro st h; exact h
  | cons c rest ih =>
    intro st h
    simp only [List.foldl_cons]
    split_ifs
    · exact ih st h
    · exact ih _ (hg c).1
    · exact ih _ (hg c).2
    · exact ih st h

theorem freeSelect_le (skip : Bool) (K y : Nat) (g a : Nat → Rat) (B : Rat) (hB : 0 ≤ B)
    (hg : ∀ c, g c ≤ B ∧ -(g c) ≤ B) : (mlFreeSelect skip K y g a).1 ≤ B := by
  unfold mlFreeSelect
  exact freeSelect_le_aux skip y g a B hg (List.range K) _ (by simp only [s00]; exact hB)

theorem simplexIter_none_free (F : McForm) (K : Nat) (q C eps : Rat) (y : Nat) (s : MlSub Rat)
    (h1 : s.alpha K ≠ C) (h5 : (mlFreeSelect F.skipY K y s.grad s.alpha).1 < eps) :
    mlSimplexIter F K q C eps y s = none := by
  rw [simplexIter_eq]
  unfold simplexIterG
  have h1' : ¬ (s.alpha K == C) = true := fun e => h1 (beq_iff_eq.mp e)
  simp only [h1', Bool.false_eq_true, h5, if_true, if_false]

theorem simplexLoop_of_none (F : McForm) (K : Nat) (q C eps : Rat) (y : Nat) (s : MlSub Rat)
    (h : mlSimplexIter F K q C eps y s = none) : ∀ fuel, mlSimplexLoop F K q C eps y fuel s = s
  | 0 => rfl
  | n + 1 => by unfold mlSimplexLoop; rw [h]

theorem loopGuard_of_none (F : McForm) (K : Nat) (q C eps : Rat) (y : Nat) (s : MlSub Rat)
    (hp : PairGuard F K C eps y s) (h : mlSimplexIter F K q C eps y s = none) :
    ∀ fuel, LoopGuard F K q C eps y fuel s
  | 0 => trivial
  | n + 1 => by unfold LoopGuard; rw [h]; exact ⟨hp, trivial⟩

/-- the all-zero state -/
def ZeroState (s : MlState Rat) : Prop := (∀ i p, s.alpha i p = 0) ∧ (∀ c k, s.w c k = 0)

/-- with a coarse accuracy (`minAccuracy > 10`, so that `solveSub` stops at once: the gradient at zero
has components 0 and 1) every step from the zero state satisfies the guard and leaves the state zero -/
theorem zero_step (F : McForm) (hF : F.simplex = true) (D : MlData Rat) (hC : 0 < D.C) (heps : 10 < D.eps)
    (s : MlState Rat) (hz : ZeroState s) (i : Nat) :
    StepGuard F D s i ∧ ZeroState (mlStep F D s i).1 := by
  have hwx : (fun c => mlWx D s.w i c) = fun _ => (0 : Rat) := by
    funext c
    have e : mlWx D s.w i c = mlSum D.d (fun k => s.w c k * D.x i k) (0.0 : Rat) := rfl
    rw [e, mlSum_eq]
    simp [hz.2, s00]
  have hgb : ∀ c, (mlSub0 F D s i).grad c ≤ 1 ∧ -((mlSub0 F D s i).grad c) ≤ 1 := by
    intro c
    show mlGradAt F D.classes (fun c => mlWx D s.w i c) (D.y i) c ≤ 1 ∧
      -(mlGradAt F D.classes (fun c => mlWx D s.w i c) (D.y i) c) ≤ 1
    rw [hwx]
    cases F <;> simp only [McForm.simplex, Bool.false_eq_true] at hF <;>
      simp only [mlGradAt] <;> split_ifs <;> norm_num
  have hK : (mlSub0 F D s i).alpha D.classes ≠ D.C := by
    show s.alpha i D.classes ≠ D.C
    rw [hz.1]; exact ne_of_lt hC
  have hsel : (mlFreeSelect F.skipY D.classes (D.y i) (mlSub0 F D s i).grad (mlSub0 F D s i).alpha).1
      < (0.1 : Rat) * D.eps := by
    have := freeSelect_le F.skipY D.classes (D.y i) (mlSub0 F D s i).grad (mlSub0 F D s i).alpha 1 (by norm_num) hgb
    have h01 : (0.1 : Rat) = 1 / 10 := by norm_num
    rw [h01]; linarith
  have hnone := simplexIter_none_free F D.classes (D.xsq i) D.C ((0.1 : Rat) * D.eps) (D.y i) (mlSub0 F D s i) hK hsel
  have hpg : PairGuard F D.classes D.C ((0.1 : Rat) * D.eps) (D.y i) (mlSub0 F D s i) := by
    intro hKC; exact absurd hKC hK
  refine ⟨loopGuard_of_none F D.classes (D.xsq i) D.C _ (D.y i) _ hpg hnone _, ?_⟩
  have hsub : mlSub F D s i = mlSub0 F D s i := by
    unfold mlSub
    rw [mlSolveSub_simplex F hF]
    exact simplexLoop_of_none F D.classes (D.xsq i) D.C _ (D.y i) _ hnone _
  rcases mlStep_cases F D s i with ⟨h1, _⟩ | ⟨h1, _⟩ <;> rw [h1]
  · exact hz
  · unfold mlStepped
    rw [hsub]
    refine ⟨?_, ?_⟩
    · intro j p
      simp only
      by_cases hj : j = i
      · simp only [hj, if_true]; exact hz.1 i p
      · simp only [hj, if_false]; exact hz.1 j p
    · intro c k
      simp only [mlSub0, s00, mlStepVec_zero, hz.2, zero_mul, add_zero]

/-- **the guard is satisfiable along every schedule**: for any data set with `0 < C` and
`minAccuracy > 10`, `SweepGuard` holds from the zero start along every schedule -/
theorem sweepGuard_coarse (F : McForm) (hF : F.simplex = true) (D : MlData Rat) (hC : 0 < D.C) (heps : 10 < D.eps)
    (sched : List Nat) : ∀ s : MlState Rat, ZeroState s → SweepGuard F D s sched := by
  induction sched with
  | nil => intro s _; trivial
  | cons i rest ih =>
    intro s hz
    unfold SweepGuard
    have st := zero_step F hF D hC heps s hz i
    exact ⟨st.1, ih _ st.2⟩

theorem zeroState_init : ZeroState (mlInit : MlState Rat) :=
  ⟨fun _ _ => by simp [mlInit, s00], fun _ _ => by simp [mlInit, s00]⟩

/-- a data set with coarse accuracy: two examples `x = ±1`, two classes, `C = 1`, `minAccuracy = 100` -/
def exDataCoarse : MlData Rat :=
  { n := 2, d := 1, classes := 2, x := fun i _ => if i = 0 then 1 else -1, y := fun i => if i = 0 then 0 else 1,
    C := 1, eps := 100 }

/-- non-vacuity of `mc_linear_w_inv_sum_partial` / `mc_linear_feasible_sum_partial`: all hypotheses hold
for `exDataCoarse`, every F in {CS, ATM, ADM} and the schedule `[0, 1, 0]` (with a repetition) -/
example (F : McForm) (hF : F.simplex = true) :
    (∀ i, exDataCoarse.y i < exDataCoarse.classes) ∧ (0 : Rat) ≤ exDataCoarse.C ∧ (0 : Rat) < exDataCoarse.eps ∧
    (∀ i ∈ [0, 1, 0], i < exDataCoarse.n) ∧ SweepGuard F exDataCoarse mlInit [0, 1, 0] := by
  refine ⟨?_, by norm_num [exDataCoarse], by norm_num [exDataCoarse], ?_,
    sweepGuard_coarse F hF exDataCoarse (by norm_num [exDataCoarse]) (by norm_num [exDataCoarse]) _ _ zeroState_init⟩
  · intro i; simp only [exDataCoarse]; split_ifs <;> omega
  · intro i hi; simp only [exDataCoarse]; simp at hi; omega

/-- the guard at a local state is implied by bounded gradients; e.g. at any local state whose gradient is
the constant 1 (the gradient at the zero start) -/
example (F : McForm) (K : Nat) (C : Rat) (y : Nat) (al mu : Nat → Rat) :
    PairGuard F K C (1 / 10240) y { alpha := al, mu := mu, grad := fun _ => 1, gain := 0 } :=
  pairGuard_of_bounded F K C _ y _ (by norm_num) (fun _ _ => by norm_num)

end SharkVerif.Mc
