/-
binarySubProblem: the four scanning loops over the first labels of the batches.
-/
import SharkVerif.Model.Dataset
namespace SharkVerif.Dataset
open SharkVerif.CheckedNat

variable {ι : Type}

/-- the scanning loop `for(; start != numBatches && label(start) != c; ++start)` -/
theorem skip_spec (c : Nat) : ∀ (l : List (Option Nat)) (start : Nat), (∀ x ∈ l, x ≠ none) →
    binarySubProblem.skip l start c =
      .ok (l.dropWhile (fun x => x != some c), start + (l.takeWhile (fun x => x != some c)).length) := by
  intro l
  induction l with
  | nil => intro start _; simp [binarySubProblem.skip, pure, Except.pure]
  | cons x l ih =>
    intro start h
    cases x with
    | none => exact absurd rfl (h none (by simp))
    | some v =>
      unfold binarySubProblem.skip
      by_cases hv : v = c
      · subst hv; simp [pure, Except.pure]
      · have hne : (some v != some c) = true := by simp [hv]
        simp only [hv, ne_eq, not_false_eq_true, if_true, List.dropWhile_cons, List.takeWhile_cons, hne]
        rw [ih (start + 1) (fun y hy => h y (by simp [hy]))]
        simp only [List.length_cons]
        congr 2; omega

/-- the collecting loop `for(; start != numBatches && label(start) == c; ++start) indexSet.push_back(start)` -/
theorem take_spec (c : Nat) : ∀ (l : List (Option Nat)) (start : Nat) (acc : List Nat), (∀ x ∈ l, x ≠ none) →
    binarySubProblem.take l start c acc =
      .ok (l.dropWhile (fun x => x == some c), start + (l.takeWhile (fun x => x == some c)).length,
           acc ++ (List.range (l.takeWhile (fun x => x == some c)).length).map (· + start)) := by
  intro l
  induction l with
  | nil => intro start acc _; simp [binarySubProblem.take, pure, Except.pure]
  | cons x l ih =>
    intro start acc h
    cases x with
    | none => exact absurd rfl (h none (by simp))
    | some v =>
      unfold binarySubProblem.take
      by_cases hv : v = c
      · subst hv
        simp only [if_true, List.dropWhile_cons, List.takeWhile_cons, beq_self_eq_true]
        rw [ih (start + 1) (acc ++ [start]) (fun y hy => h y (by simp [hy]))]
        simp only [List.length_cons, List.range_succ_eq_map, List.map_cons, List.map_map, List.append_assoc,
          List.singleton_append, Nat.zero_add]
        have e1 : start + 1 + (List.takeWhile (fun x => x == some v) l).length =
            start + ((List.takeWhile (fun x => x == some v) l).length + 1) := by omega
        have e2 : (fun x => x + (start + 1)) = ((fun x => x + start) ∘ Nat.succ) := by
          funext x; simp only [Function.comp, Nat.succ_eq_add_one]; omega
        rw [e1, e2]
      · have hne : (some v == some c) = false := by simp [hv]
        simp [hv, hne, pure, Except.pure]

theorem no_none_dropWhile (p : Option Nat → Bool) (l : List (Option Nat)) (h : ∀ x ∈ l, x ≠ none) :
    ∀ x ∈ l.dropWhile p, x ≠ none :=
  fun x hx => h x ((List.dropWhile_sublist p).subset hx)

theorem bsp_aux (d : CData ι) (hne : ∀ b ∈ d.labels.batches, b ≠ []) (c0 c1 sm bg : Nat)
    (fl l1 l2 l3 : List (Option Nat)) (s1 k1 s2 k2 : Nat)
    (hsm : sm = min c0 c1) (hbg : bg = max c0 c1) (hfl : fl = d.labels.batches.map (·[0]?))
    (hl1 : l1 = fl.dropWhile (fun x => x != some sm)) (hs1 : s1 = (fl.takeWhile (fun x => x != some sm)).length)
    (hk1 : k1 = (l1.takeWhile (fun x => x == some sm)).length) (hl2 : l2 = l1.dropWhile (fun x => x == some sm))
    (hl3 : l3 = l2.dropWhile (fun x => x != some bg))
    (hs2 : s2 = s1 + k1 + (l2.takeWhile (fun x => x != some bg)).length)
    (hk2 : k2 = (l3.takeWhile (fun x => x == some bg)).length) :
    binarySubProblem d c0 c1 =
      if l1.isEmpty then .error .exception
      else if l3.isEmpty then .error .exception
      else (d.indexedSubset ((List.range k1).map (· + s1) ++ (List.range k2).map (· + s2))) >>= fun sub =>
        sub.transformLabels (fun l => if l = c1 then 1 else 0) [] := by
  have hflnn : ∀ x ∈ fl, x ≠ none := by
    intro x hx
    rw [hfl] at hx
    simp only [List.mem_map] at hx
    obtain ⟨b, hb, rfl⟩ := hx
    cases b with
    | nil => exact absurd rfl (hne [] hb)
    | cons a t => simp
  have h1 : ∀ x ∈ l1, x ≠ none := hl1 ▸ no_none_dropWhile _ fl hflnn
  have h2 : ∀ x ∈ l2, x ≠ none := hl2 ▸ no_none_dropWhile _ l1 h1
  have h3 : ∀ x ∈ l3, x ≠ none := hl3 ▸ no_none_dropWhile _ l2 h2
  have e_skip1 := skip_spec sm fl 0 hflnn
  have e_take1 := take_spec sm l1 s1 [] h1
  have e_skip2 := skip_spec bg l2 (s1 + k1) h2
  have e_take2 := take_spec bg l3 s2 ((List.range k1).map (· + s1)) h3
  rw [← hl1, Nat.zero_add, ← hs1] at e_skip1
  rw [← hl2, ← hk1, List.nil_append] at e_take1
  rw [← hl3, ← hs2] at e_skip2
  rw [← hk2] at e_take2
  unfold binarySubProblem
  simp only [bind, Except.bind, ← hsm, ← hbg, ← hfl, e_skip1]
  by_cases e1 : l1.isEmpty = true
  · simp [e1, throw, throwThe, MonadExceptOf.throw]
  · have e1' : l1.isEmpty = false := by simpa using e1
    simp only [e1', Bool.false_eq_true, if_false, e_take1, e_skip2]
    by_cases e3 : l3.isEmpty = true
    · simp [e3, throw, throwThe, MonadExceptOf.throw]
    · have e3' : l3.isEmpty = false := by simpa using e3
      simp only [e3', Bool.false_eq_true, if_false, e_take2]

end SharkVerif.Dataset
