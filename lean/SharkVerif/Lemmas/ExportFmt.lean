/-
Lemmas about the number printers of `Model/ExportFmt.lean` and the numeric lexers of
`Model/ImportLex.lean` (C19):

* character set of every printed number (`fmtE`, `fmtG`, integer labels / indices);
* parse-of-print, byte level: `int_` / `uint_` read back exactly the integer `natDigits` / `intDigits`
  printed; `double_` reads a `%.<p>e` token back as the decimal the printer chose
  (`real_fmtE`).
Core Lean only.
-/
import SharkVerif.Model.ExportFmt
namespace SharkVerif.Import.Export
open SharkVerif.Import

/-! ### character set -/

/-- the characters a printed number can consist of: digits, sign, `.`, `e`, and the letters of `inf` / `nan` -/
def numChar (c : Char) : Bool :=
  isDigit c || c == '-' || c == '+' || c == '.' || c == 'e' || c == 'i' || c == 'n' || c == 'f' || c == 'a'

/-- every character of `s` is a number character -/
abbrev AllNum (s : List Char) : Prop := ∀ c ∈ s, numChar c = true

theorem digit_fin : ∀ j : Fin 10, isDigit (Char.ofNat (48 + j.val)) = true ∧ (Char.ofNat (48 + j.val)).toNat - 48 = j.val := by
  decide

theorem digitChar_isDigit (k : Nat) : isDigit (digitChar k) = true :=
  (digit_fin ⟨k % 10, Nat.mod_lt _ (by decide)⟩).1

theorem digitChar_val (k : Nat) : (digitChar k).toNat - 48 = k % 10 :=
  (digit_fin ⟨k % 10, Nat.mod_lt _ (by decide)⟩).2

theorem numChar_of_digit {c : Char} (h : isDigit c = true) : numChar c = true := by
  simp [numChar, h]

theorem digitsRev_digits : ∀ (f n : Nat), ∀ c ∈ digitsRev f n, isDigit c = true
  | 0, _, c, h => by simp [digitsRev] at h
  | f+1, n, c, h => by
    simp only [digitsRev, List.mem_cons] at h
    rcases h with rfl | h
    · exact digitChar_isDigit n
    · split at h
      · simp at h
      · exact digitsRev_digits f _ c h

theorem natDigits_digits (n : Nat) : ∀ c ∈ natDigits n, isDigit c = true := by
  intro c h
  unfold natDigits at h
  exact digitsRev_digits _ _ c (List.mem_reverse.mp h)

theorem fixedDigits_digits : ∀ (k n : Nat), ∀ c ∈ fixedDigits k n, isDigit c = true
  | 0, _, c, h => by simp [fixedDigits] at h
  | k+1, n, c, h => by
    simp only [fixedDigits, List.mem_append, List.mem_singleton] at h
    rcases h with h | rfl
    · exact fixedDigits_digits k _ c h
    · exact digitChar_isDigit n

theorem fixedDigits_length : ∀ (k n : Nat), (fixedDigits k n).length = k
  | 0, _ => rfl
  | k+1, n => by simp [fixedDigits, fixedDigits_length k]

theorem AllNum.of_digits {s : List Char} (h : ∀ c ∈ s, isDigit c = true) : AllNum s :=
  fun c hc => numChar_of_digit (h c hc)

theorem AllNum.append {a b : List Char} (ha : AllNum a) (hb : AllNum b) : AllNum (a ++ b) := by
  intro c hc
  rcases List.mem_append.mp hc with h | h
  · exact ha c h
  · exact hb c h

theorem AllNum.cons {c : Char} {t : List Char} (hc : numChar c = true) (ht : AllNum t) : AllNum (c :: t) := by
  intro x hx
  rcases List.mem_cons.mp hx with rfl | h
  · exact hc
  · exact ht x h

theorem AllNum.nil : AllNum [] := fun _ h => by simp at h

theorem AllNum.take {s : List Char} (h : AllNum s) (k : Nat) : AllNum (s.take k) :=
  fun c hc => h c (List.mem_of_mem_take hc)

theorem AllNum.drop {s : List Char} (h : AllNum s) (k : Nat) : AllNum (s.drop k) :=
  fun c hc => h c (List.mem_of_mem_drop hc)

theorem stripZeros_subset (s : List Char) : ∀ c ∈ stripZeros s, c ∈ s := by
  intro c hc
  unfold stripZeros at hc
  have h1 := List.mem_reverse.mp hc
  exact List.mem_reverse.mp ((List.dropWhile_sublist _).subset h1)

theorem AllNum.stripZeros {s : List Char} (h : AllNum s) : AllNum (stripZeros s) :=
  fun c hc => h c (stripZeros_subset s c hc)

theorem AllNum.signOf (neg : Bool) : AllNum (signOf neg) := by
  cases neg
  · exact AllNum.nil
  · exact AllNum.cons (by decide) AllNum.nil

theorem AllNum.zeros (k : Nat) : AllNum (List.replicate k '0') := by
  intro c hc
  have := (List.mem_replicate.mp hc).2
  subst this
  decide

theorem AllNum.expPart (e : Int) : AllNum (expPart e) := by
  unfold Export.expPart
  apply AllNum.append
  · apply AllNum.cons (by decide)
    apply AllNum.cons _ AllNum.nil
    split <;> decide
  · split
    · exact AllNum.cons (by decide) (AllNum.of_digits (natDigits_digits _))
    · exact AllNum.of_digits (natDigits_digits _)

theorem AllNum.natDigits (n : Nat) : AllNum (natDigits n) := AllNum.of_digits (natDigits_digits n)

theorem AllNum.intDigits (i : Int) : AllNum (intDigits i) := by
  unfold Export.intDigits
  split
  · exact AllNum.cons (by decide) (AllNum.natDigits _)
  · exact AllNum.natDigits _

theorem AllNum.inf : AllNum "inf".toList := by decide
theorem AllNum.nan : AllNum "nan".toList := by decide

/-- **character set of `%.<p>e`**: a number printed in scientific format consists of digits, sign, `.`, `e`
and the letters of `inf` / `nan` only -/
theorem fmtE_chars (p : Nat) (v : Val) : AllNum (fmtE p v) := by
  cases v with
  | nan => exact AllNum.nan
  | inf neg => exact AllNum.append (AllNum.signOf neg) AllNum.inf
  | fin neg m e =>
    simp only [fmtE]
    split
    · refine AllNum.append (AllNum.append (AllNum.append (AllNum.signOf neg) (AllNum.cons (by decide) AllNum.nil)) ?_) (AllNum.expPart 0)
      split
      · exact AllNum.nil
      · exact AllNum.cons (by decide) (AllNum.zeros p)
    · have hs : AllNum (fixedDigits (p + 1) (sciDigits p (Val.fin neg m e).ratOf.1 (Val.fin neg m e).ratOf.2).1) :=
        AllNum.of_digits (fixedDigits_digits _ _)
      refine AllNum.append (AllNum.append (AllNum.append (AllNum.signOf neg) (hs.take 1)) ?_) (AllNum.expPart _)
      split
      · exact AllNum.nil
      · exact AllNum.cons (by decide) (hs.drop 1)

/-- **character set of `%.<p>g`** -/
theorem fmtG_chars (p : Nat) (v : Val) : AllNum (fmtG p v) := by
  cases v with
  | nan => exact AllNum.nan
  | inf neg => exact AllNum.append (AllNum.signOf neg) AllNum.inf
  | fin neg m e =>
    simp only [fmtG]
    split
    · exact AllNum.append (AllNum.signOf neg) (AllNum.cons (by decide) AllNum.nil)
    · generalize (if p = 0 then 1 else p) = q
      have hs : AllNum (fixedDigits q (sciDigits (q - 1) (Val.fin neg m e).ratOf.1 (Val.fin neg m e).ratOf.2).1) :=
        AllNum.of_digits (fixedDigits_digits _ _)
      split
      · split
        · refine AllNum.append (AllNum.append (AllNum.signOf neg) (hs.take _)) ?_
          split
          · exact AllNum.nil
          · exact AllNum.cons (by decide) (hs.drop _).stripZeros
        · refine AllNum.append (AllNum.append (AllNum.signOf neg) (AllNum.cons (by decide) (AllNum.cons (by decide) AllNum.nil))) ?_
          exact (AllNum.append (AllNum.zeros _) hs).stripZeros
      · refine AllNum.append (AllNum.append (AllNum.append (AllNum.signOf neg) (hs.take 1)) ?_) (AllNum.expPart _)
        split
        · exact AllNum.nil
        · exact AllNum.cons (by decide) (hs.drop 1).stripZeros

/-- a cell written by `exportCSV` (`setw` padding included): number characters and blanks -/
theorem csvNum_chars (sci : Bool) (w : Nat) (v : Val) : ∀ c ∈ csvNum sci w v, numChar c = true ∨ c = ' ' := by
  intro c hc
  unfold csvNum pad at hc
  rcases List.mem_append.mp hc with h | h
  · exact Or.inr (List.mem_replicate.mp h).2
  · left
    split at h
    · exact fmtE_chars 10 v c h
    · exact fmtG_chars 10 v c h

/-- **the separator hypothesis of the round trip as a checked fact**: a separator that is not a number
character and not the blank never occurs inside a cell `exportCSV` writes (any format, any field width).
Separators that ARE number characters (`-`, `+`, `.`, `e`, digits, `i n f a`) make the written file
ambiguous — `csvNum_separator_witness`. -/
theorem csvNum_no_separator (sci : Bool) (w : Nat) (v : Val) (sep : Char) (hsep : numChar sep = false) (hb : sep ≠ ' ') :
    sep ∉ csvNum sci w v := by
  intro h
  rcases csvNum_chars sci w v sep h with h1 | h1
  · rw [hsep] at h1; exact absurd h1 (by decide)
  · exact hb h1

/-- `-` as separator: the cell `-1.0000000000e+00` contains it twice -/
example : '-' ∈ csvNum true 0 (Val.fin true 1 0) := by decide

/-- the values a LibSVM file carries (`%.6g`) and its labels / indices: number characters only, so the
blanks, the `:` and the line feed of the format never occur inside a token -/
theorem svmNum_chars (v : Val) : AllNum (svmNum v) := fmtG_chars 6 v

/-! ### parse-of-print for integers -/

/-- one step of spirit's decimal accumulation -/
def dval (a : Nat) (c : Char) : Nat := a * 10 + (c.toNat - 48)

/-- what follows a number does not start with a digit (any separator, `:`, blank, line end, end of input) -/
def NoDigitHead (rest : List Char) : Prop := ∀ c t, rest = c :: t → isDigit c = false

theorem digits_stop (rest : List Char) (acc cnt : Nat) (h : NoDigitHead rest) : digits rest acc cnt = (acc, cnt, rest) := by
  cases rest with
  | nil => rfl
  | cons c t => simp [digits, h c t rfl]

theorem digits_app : ∀ (ds rest : List Char) (acc cnt : Nat), (∀ c ∈ ds, isDigit c = true) → NoDigitHead rest →
    digits (ds ++ rest) acc cnt = (ds.foldl dval acc, cnt + ds.length, rest)
  | [], rest, acc, cnt, _, h => by simpa using digits_stop rest acc cnt h
  | c :: t, rest, acc, cnt, hd, h => by
    have hc := hd c (by simp)
    simp only [List.cons_append, digits, hc, if_true, List.foldl_cons, List.length_cons]
    rw [digits_app t rest _ _ (fun x hx => hd x (by simp [hx])) h]
    simp only [dval, Prod.mk.injEq, true_and, and_true]
    omega

theorem foldl_fixedDigits : ∀ (k n acc : Nat), (fixedDigits k n).foldl dval acc = acc * 10 ^ k + n % 10 ^ k
  | 0, n, acc => by simp [fixedDigits, Nat.mod_one]
  | k+1, n, acc => by
    simp only [fixedDigits, List.foldl_append, List.foldl_cons, List.foldl_nil]
    rw [foldl_fixedDigits k (n / 10) acc]
    simp only [dval, digitChar_val]
    have h1 : n % 10 ^ (k + 1) = n % 10 + 10 * (n / 10 % 10 ^ k) := by
      rw [Nat.pow_succ, Nat.mul_comm, Nat.mod_mul]
    rw [h1, Nat.pow_succ, ← Nat.mul_assoc]
    omega

theorem foldr_digitsRev : ∀ (f n : Nat), n < f → (digitsRev f n).foldr (fun c a => dval a c) 0 = n
  | 0, n, h => by omega
  | f+1, n, h => by
    simp only [digitsRev, List.foldr_cons]
    split
    · simp only [List.foldr_nil, dval, digitChar_val]; omega
    · rw [foldr_digitsRev f (n / 10) (by omega)]
      simp only [dval, digitChar_val]; omega

theorem foldl_natDigits (n : Nat) : (natDigits n).foldl dval 0 = n := by
  unfold natDigits
  rw [List.foldl_reverse]
  exact foldr_digitsRev _ _ (by omega)

theorem natDigits_cons (n : Nat) : ∃ c t, natDigits n = c :: t ∧ isDigit c = true := by
  have hne : natDigits n ≠ [] := by
    unfold natDigits
    simp [digitsRev]
  cases h : natDigits n with
  | nil => exact absurd h hne
  | cons c t => exact ⟨c, t, rfl, natDigits_digits n c (by rw [h]; simp)⟩

theorem splitSign_digit (c : Char) (t : List Char) (h : isDigit c = true) : splitSign (c :: t) = (false, c :: t) := by
  unfold splitSign
  split
  · rename_i heq; injection heq with h1 _; subst h1; exact absurd h (by decide)
  · rename_i heq; injection heq with h1 _; subst h1; exact absurd h (by decide)
  · rfl

/-- **`uint_` reads back a printed index exactly** (LibSVM feature indices: `natDigits (i+1)` followed by `:`) -/
theorem uint_natDigits (n : Nat) (rest : List Char) (hn : n < 4294967296) (hr : NoDigitHead rest) :
    uint (natDigits n ++ rest) = some (n, rest) := by
  obtain ⟨c, t, hct, _⟩ := natDigits_cons n
  unfold uint
  rw [digits_app _ _ _ _ (natDigits_digits n) hr, foldl_natDigits]
  have : (natDigits n).length ≠ 0 := by rw [hct]; simp
  simp only [Nat.zero_add]
  rw [if_neg (by omega)]

/-- **`int_` reads back a printed class label exactly** (CSV class labels: `natDigits label`) -/
theorem int_natDigits (n : Nat) (rest : List Char) (hn : n ≤ 2147483647) (hr : NoDigitHead rest) :
    Import.int (natDigits n ++ rest) = some ((n : Int), rest) := by
  obtain ⟨c, t, hct, hc⟩ := natDigits_cons n
  have hsp : splitSign (natDigits n ++ rest) = (false, natDigits n ++ rest) := by
    rw [hct, List.cons_append]; exact splitSign_digit _ _ hc
  unfold Import.int
  simp only [hsp]
  rw [digits_app _ _ _ _ (natDigits_digits n) hr, foldl_natDigits]
  have : (natDigits n).length ≠ 0 := by rw [hct]; simp
  simp only [Nat.zero_add, Bool.false_eq_true, if_false]
  rw [if_neg this, if_neg (by omega)]

/-- `-1` / `+1`-style labels (`intDigits`): `int_` reads back the integer -/
theorem int_intDigits (i : Int) (rest : List Char) (hlo : -2147483648 ≤ i) (hhi : i ≤ 2147483647) (hr : NoDigitHead rest) :
    Import.int (intDigits i ++ rest) = some (i, rest) := by
  unfold intDigits
  split
  · rename_i hneg
    unfold Import.int
    simp only [List.cons_append, splitSign]
    rw [digits_app _ _ _ _ (natDigits_digits _) hr, foldl_natDigits]
    obtain ⟨c, t, hct, _⟩ := natDigits_cons i.natAbs
    have : (natDigits i.natAbs).length ≠ 0 := by rw [hct]; simp
    simp only [Nat.zero_add, if_true]
    rw [if_neg this, if_neg (by omega)]
    have : -(i.natAbs : Int) = i := by omega
    rw [this]
  · rename_i hpos
    have h := int_natDigits i.natAbs rest (by omega) hr
    have : (i.natAbs : Int) = i := by omega
    rw [this] at h
    exact h

/-! ### parse-of-print for `%.<p>e` -/

theorem fixedDigits_split : ∀ (p n : Nat), fixedDigits (p + 1) n = digitChar (n / 10 ^ p) :: fixedDigits p n
  | 0, n => by simp [fixedDigits]
  | p+1, n => by
    rw [fixedDigits, fixedDigits_split p (n / 10), Nat.div_div_eq_div_mul, List.cons_append]
    congr 1
    rw [Nat.pow_succ, Nat.mul_comm]

theorem noDigitHead_cons {c : Char} (t : List Char) (h : isDigit c = false) : NoDigitHead (c :: t) := by
  intro c' t' heq
  injection heq with h1 _
  subst h1; exact h

/-- the exponent part `e±dd` is read back by spirit's exponent parser -/
theorem exponent_expPart (e : Int) (rest : List Char) (he : e.natAbs ≤ 2147483647) (hr : NoDigitHead rest) :
    exponent (expPart e ++ rest) = (e, rest) := by
  have hd : ∀ c ∈ (if e.natAbs < 10 then '0' :: natDigits e.natAbs else natDigits e.natAbs), isDigit c = true := by
    intro c hc
    split at hc
    · rcases List.mem_cons.mp hc with rfl | h
      · decide
      · exact natDigits_digits _ c h
    · exact natDigits_digits _ c hc
  have hv : (if e.natAbs < 10 then '0' :: natDigits e.natAbs else natDigits e.natAbs).foldl dval 0 = e.natAbs := by
    split
    · simp only [List.foldl_cons]; exact foldl_natDigits _
    · exact foldl_natDigits _
  have hl : (if e.natAbs < 10 then '0' :: natDigits e.natAbs else natDigits e.natAbs).length ≠ 0 := by
    obtain ⟨c, t, hct, _⟩ := natDigits_cons e.natAbs
    split
    · simp
    · rw [hct]; simp
  have hint : Import.int ((if e < 0 then '-' else '+') :: ((if e.natAbs < 10 then '0' :: natDigits e.natAbs else natDigits e.natAbs) ++ rest))
      = some (e, rest) := by
    unfold Import.int
    by_cases hneg : e < 0
    · simp only [hneg, if_true, splitSign]
      rw [digits_app _ _ _ _ hd hr, hv]
      simp only [Nat.zero_add]
      rw [if_neg hl, if_neg (by omega)]
      have : -(e.natAbs : Int) = e := by omega
      rw [this]
    · simp only [hneg, if_false, splitSign]
      rw [digits_app _ _ _ _ hd hr, hv]
      simp only [Nat.zero_add, Bool.false_eq_true, if_false]
      rw [if_neg hl, if_neg (by omega)]
      have : (e.natAbs : Int) = e := by omega
      rw [this]
  unfold expPart
  simp only [List.cons_append, List.nil_append, exponent]
  simp only [show (('e' : Char) == 'e' || ('e' : Char) == 'E') = true by decide, if_true]
  rw [hint]

/-- **`double_` on a token in `%.<p>e` layout** (`p ≥ 1`): sign, one digit, `.`, `p` digits, `e±dd`.  The lexer
returns exactly spirit's conversion `scaled` of the decimal the token denotes — first digit and fraction
accumulated as one integer, decimal exponent `e - p` — and stops in front of what follows. -/
theorem real_sci (neg : Bool) (d0 fr p : Nat) (e : Int) (rest : List Char) (_hp : 0 < p)
    (he : e.natAbs ≤ 2147483647) (hr : NoDigitHead rest) :
    real (signOf neg ++ digitChar d0 :: '.' :: (fixedDigits p fr ++ (expPart e ++ rest)))
      = scaled neg (d0 % 10 * 10 ^ p + fr % 10 ^ p) (e - (p : Int)) rest := by
  have hsign : splitSign (signOf neg ++ digitChar d0 :: '.' :: (fixedDigits p fr ++ (expPart e ++ rest)))
      = (neg, digitChar d0 :: '.' :: (fixedDigits p fr ++ (expPart e ++ rest))) := by
    cases neg
    · exact splitSign_digit _ _ (digitChar_isDigit d0)
    · rfl
  have hint : digits (digitChar d0 :: '.' :: (fixedDigits p fr ++ (expPart e ++ rest))) 0 0
      = (d0 % 10, 1, '.' :: (fixedDigits p fr ++ (expPart e ++ rest))) := by
    have := digits_app [digitChar d0] ('.' :: (fixedDigits p fr ++ (expPart e ++ rest))) 0 0
      (by intro c hc; rw [List.mem_singleton.mp hc]; exact digitChar_isDigit d0) (noDigitHead_cons _ (by decide))
    simpa [dval, digitChar_val] using this
  have hfrac : digits (fixedDigits p fr ++ (expPart e ++ rest)) (d0 % 10) 0
      = (d0 % 10 * 10 ^ p + fr % 10 ^ p, p, expPart e ++ rest) := by
    rw [digits_app _ _ _ _ (fixedDigits_digits p fr) (by unfold expPart; exact noDigitHead_cons _ (by decide)),
      foldl_fixedDigits, fixedDigits_length]
    simp
  unfold real
  simp only [hsign, hint]
  rw [if_neg (by decide)]
  simp only [hfrac, exponent_expPart e rest he hr]

/-- `digits` of the first character and of the rest of a fixed-width number -/
theorem split_value (ds p : Nat) : ds / 10 ^ p % 10 * 10 ^ p + ds % 10 ^ p = ds % 10 ^ (p + 1) := by
  rw [Nat.pow_succ, Nat.mod_mul]
  rw [Nat.mul_comm (10 ^ p)]
  omega

/-- **C19, byte-level round trip of one value in scientific format.**  For every finite non-zero value and
every precision `p ≥ 1`: `double_` applied to the bytes `%.<p>e` wrote (followed by anything that does not
start with a digit: separator, blank, line end, end of input) consumes exactly the token and returns
spirit's conversion of the decimal `ds · 10^(e-p)` the printer chose, `(ds, e) = sciDigits p v` — the value
rounded to `p + 1` significant decimal digits.  So what is re-imported is the decimal rounding of the original,
not the original: precision 10 ⇒ 11 significant digits, not bit-exact for general doubles. -/
theorem real_fmtE (p : Nat) (neg : Bool) (m : Nat) (e2 : Int) (rest : List Char) (hp : 0 < p) (hm : m ≠ 0)
    (he : (sciDigits p (Val.fin neg m e2).ratOf.1 (Val.fin neg m e2).ratOf.2).2.natAbs ≤ 2147483647)
    (hr : NoDigitHead rest) :
    real (fmtE p (Val.fin neg m e2) ++ rest)
      = scaled neg ((sciDigits p (Val.fin neg m e2).ratOf.1 (Val.fin neg m e2).ratOf.2).1 % 10 ^ (p + 1))
          ((sciDigits p (Val.fin neg m e2).ratOf.1 (Val.fin neg m e2).ratOf.2).2 - (p : Int)) rest := by
  simp only [fmtE]
  rw [if_neg hm, if_neg (by omega)]
  generalize hsd : sciDigits p (Val.fin neg m e2).ratOf.1 (Val.fin neg m e2).ratOf.2 = sd at he ⊢
  obtain ⟨ds, ex⟩ := sd
  simp only [fixedDigits_split, List.take_succ_cons, List.take_zero, List.drop_succ_cons, List.drop_zero]
  have := real_sci neg (ds / 10 ^ p) ds p ex rest hp he hr
  rw [split_value] at this
  simpa [List.append_assoc] using this

/-! ### the digits and the exponent `sciDigits` returns are bounded -/

theorem digitsRev_length_le : ∀ (f n k : Nat), n < 10 ^ k → 1 ≤ k → (digitsRev f n).length ≤ k
  | 0, _, _, _, _ => by simp [digitsRev]
  | f+1, n, k, h, hk => by
    simp only [digitsRev, List.length_cons]
    split
    · simp; omega
    · rename_i h0
      have hk2 : 2 ≤ k := by
        rcases Nat.lt_or_ge k 2 with h2 | h2
        · have : k = 1 := by omega
          subst this
          simp at h; omega
        · exact h2
      have hlt : n / 10 < 10 ^ (k - 1) := by
        have : 10 ^ k = 10 ^ (k - 1) * 10 := by rw [← Nat.pow_succ]; congr 1; omega
        rw [this] at h
        exact Nat.div_lt_of_lt_mul (by rw [Nat.mul_comm]; exact h)
      have := digitsRev_length_le f (n / 10) (k - 1) hlt (by omega)
      omega

theorem natDigits_length_le (n k : Nat) (h : n < 10 ^ k) (hk : 1 ≤ k) : (natDigits n).length ≤ k := by
  unfold natDigits; rw [List.length_reverse]; exact digitsRev_length_le _ _ _ h hk

theorem lt_pow_digitsRev_length : ∀ (f n : Nat), n < f → n < 10 ^ (digitsRev f n).length
  | 0, n, h => by omega
  | f+1, n, h => by
    simp only [digitsRev, List.length_cons]
    split
    · rename_i h0; simp; omega
    · rename_i h0
      have ih := lt_pow_digitsRev_length f (n / 10) (by omega)
      rw [Nat.pow_succ]
      omega

theorem lt_pow_natDigits_length (n : Nat) : n < 10 ^ (natDigits n).length := by
  unfold natDigits; rw [List.length_reverse]; exact lt_pow_digitsRev_length _ _ (by omega)

theorem natDigits_length_pos (n : Nat) : 1 ≤ (natDigits n).length := by
  obtain ⟨c, t, h, _⟩ := natDigits_cons n
  rw [h]; simp

theorem findShift_ge : ∀ (f n d k : Nat), k ≤ findShift f n d k
  | 0, _, _, _ => by simp [findShift]
  | f+1, n, d, k => by
    simp only [findShift]
    split
    · exact Nat.le_refl _
    · have := findShift_ge f n d (k + 1); omega

theorem findShift_le : ∀ (f n d k : Nat), findShift f n d k ≤ k + f
  | 0, _, _, _ => by simp [findShift]
  | f+1, n, d, k => by
    simp only [findShift]
    split
    · omega
    · have := findShift_le f n d (k + 1); omega

/-- all shifts tried before the result were too small -/
theorem findShift_inv : ∀ (f n d k : Nat), 1 ≤ k → n * 10 ^ (k - 1) < d → n * 10 ^ (findShift f n d k - 1) < d
  | 0, _, _, _, _, h => by simpa [findShift] using h
  | f+1, n, d, k, hk, h => by
    simp only [findShift]
    split
    · exact h
    · rename_i hlt
      exact findShift_inv f n d (k + 1) (by omega) (by simpa using Nat.lt_of_not_ge hlt)

/-- the quotient `sciDigits` rounds has at most `p + 1` digits: the decimal exponent `decExp` is not too small -/
theorem sci_quot_lt (p n d : Nat) (hd : 0 < d) :
    (if (p : Int) - decExp n d ≥ 0 then n * 10 ^ ((p : Int) - decExp n d).toNat else n) /
      (if (p : Int) - decExp n d ≥ 0 then d else d * 10 ^ (-((p : Int) - decExp n d)).toNat) < 10 ^ (p + 1) := by
  unfold decExp
  by_cases hnd : n ≥ d
  · rw [if_pos hnd]
    have hL1 := natDigits_length_pos (n / d)
    have hL := lt_pow_natDigits_length (n / d)
    generalize (natDigits (n / d)).length = L at hL1 hL
    have hn : n < d * 10 ^ L := by
      have h1 : n < d * (n / d + 1) := Nat.lt_mul_div_succ n hd
      have h2 : d * (n / d + 1) ≤ d * 10 ^ L := Nat.mul_le_mul_left d hL
      omega
    by_cases hs : (p : Int) - ((L : Int) - 1) ≥ 0
    · rw [if_pos hs, if_pos hs]
      have ht : ((p : Int) - ((L : Int) - 1)).toNat = p + 1 - L := by omega
      rw [ht]
      apply Nat.div_lt_of_lt_mul
      have hpow : 10 ^ L * 10 ^ (p + 1 - L) = 10 ^ (p + 1) := by rw [← Nat.pow_add]; congr 1; omega
      calc n * 10 ^ (p + 1 - L) < d * 10 ^ L * 10 ^ (p + 1 - L) :=
              Nat.mul_lt_mul_of_pos_right hn (Nat.pow_pos (by decide))
        _ = d * 10 ^ (p + 1) := by rw [Nat.mul_assoc, hpow]
    · rw [if_neg hs, if_neg hs]
      have ht : (-((p : Int) - ((L : Int) - 1))).toNat = L - (p + 1) := by omega
      rw [ht]
      apply Nat.div_lt_of_lt_mul
      have hpow : 10 ^ (L - (p + 1)) * 10 ^ (p + 1) = 10 ^ L := by rw [← Nat.pow_add]; congr 1; omega
      calc n < d * 10 ^ L := hn
        _ = d * 10 ^ (L - (p + 1)) * 10 ^ (p + 1) := by rw [Nat.mul_assoc, hpow]
  · rw [if_neg hnd]
    have hk1 := findShift_ge ((natDigits d).length + 2) n d 1
    have hinv := findShift_inv ((natDigits d).length + 2) n d 1 (Nat.le_refl _) (by simpa using Nat.lt_of_not_ge hnd)
    generalize findShift ((natDigits d).length + 2) n d 1 = k at hk1 hinv
    have hs : (p : Int) - -(k : Int) ≥ 0 := by omega
    rw [if_pos hs, if_pos hs]
    have ht : ((p : Int) - -(k : Int)).toNat = p + k := by omega
    rw [ht]
    apply Nat.div_lt_of_lt_mul
    have hpow : 10 ^ (k - 1) * 10 ^ (p + 1) = 10 ^ (p + k) := by rw [← Nat.pow_add]; congr 1; omega
    calc n * 10 ^ (p + k) = n * 10 ^ (k - 1) * 10 ^ (p + 1) := by rw [Nat.mul_assoc, hpow]
      _ < d * 10 ^ (p + 1) := Nat.mul_lt_mul_of_pos_right hinv (Nat.pow_pos (by decide))

/-- **the digits `sciDigits` returns fit `p + 1` places** -/
theorem sciDigits_lt (p n d : Nat) (hd : 0 < d) : (sciDigits p n d).1 < 10 ^ (p + 1) := by
  have hq := sci_quot_lt p n d hd
  unfold sciDigits
  simp only
  generalize (if (p : Int) - decExp n d ≥ 0 then n * 10 ^ ((p : Int) - decExp n d).toNat else n) = num at hq ⊢
  generalize (if (p : Int) - decExp n d ≥ 0 then d else d * 10 ^ (-((p : Int) - decExp n d)).toNat) = den at hq ⊢
  have key : ∀ (m : Nat) (x y : Int), m ≤ num / den + 1 →
      (if m ≥ 10 ^ (p + 1) then (m / 10, x) else (m, y)).1 < 10 ^ (p + 1) := by
    intro m x y hm
    have hpos : 0 < 10 ^ (p + 1) := Nat.pow_pos (by decide)
    split
    · apply Nat.div_lt_of_lt_mul; omega
    · simp only; omega
  apply key
  split <;> omega

/-- bounds of the decimal exponent in terms of the sizes of numerator and denominator -/
theorem decExp_bounds (n d : Nat) :
    -((natDigits d).length + 3 : Int) ≤ decExp n d ∧ decExp n d < (natDigits n).length := by
  unfold decExp
  split
  · rename_i hnd
    have h1 := natDigits_length_pos (n / d)
    have h2 : (natDigits (n / d)).length ≤ (natDigits n).length :=
      natDigits_length_le _ _ (Nat.lt_of_le_of_lt (Nat.div_le_self n d) (lt_pow_natDigits_length n)) (natDigits_length_pos n)
    omega
  · have h1 := findShift_le ((natDigits d).length + 2) n d 1
    have h2 := natDigits_length_pos n
    omega

theorem sciDigits_exp_bounds (p n d : Nat) :
    -((natDigits d).length + 3 : Int) ≤ (sciDigits p n d).2 ∧ (sciDigits p n d).2 ≤ (natDigits n).length := by
  have h := decExp_bounds n d
  have key : ∀ (c : Prop) [Decidable c] (a b : Nat),
      -((natDigits d).length + 3 : Int) ≤ (if c then (a, decExp n d + 1) else (b, decExp n d)).2 ∧
      (if c then (a, decExp n d + 1) else (b, decExp n d)).2 ≤ (natDigits n).length := by
    intro c _ a b
    split <;> simp only <;> omega
  unfold sciDigits
  simp only
  exact key _ _ _

/-! ### `sciDigits` rounds to nearest -/

/-- nearest-integer rounding as `sciDigits` does it: the result is within half a unit -/
theorem round_half (num den : Nat) (hden : 0 < den) :
    2 * ((num : Int) - ((if 2 * (num % den) > den ∨ (2 * (num % den) = den ∧ num / den % 2 = 1) then num / den + 1 else num / den : Nat) : Int) * den).natAbs ≤ den := by
  have h1 := Nat.div_add_mod num den
  have h2 := Nat.mod_lt num hden
  generalize num / den = q at h1 ⊢
  generalize num % den = r at h1 h2 ⊢
  have hq : (num : Int) = (den : Int) * q + r := by exact_mod_cast h1.symm
  split
  · rename_i hc
    have hr : den ≤ 2 * r := by omega
    have : (num : Int) - ((q + 1 : Nat) : Int) * den = -((den : Int) - r) := by
      rw [hq]; push_cast; rw [Int.add_mul, Int.mul_comm]; omega
    rw [this]; omega
  · rename_i hc
    have hr : 2 * r ≤ den := by omega
    have : (num : Int) - (q : Int) * den = r := by rw [hq, Int.mul_comm]; omega
    rw [this]; omega

/-- **`sciDigits` rounds to nearest**: with `e0 = decExp n d` the scaled value `(n/d) · 10^(p - e0)` (= `num/den`) is
within half a unit of the integer `ds · 10^(ex - e0)` the result denotes, and `ex` is `e0` or (after a carry to the
next power of ten) `e0 + 1`.  In other words `|n/d - ds · 10^(ex-p)| ≤ ½ · 10^(e0-p)`: the printed decimal differs
from the value by at most half a unit in the last printed place. -/
theorem sciDigits_nearest (p n d : Nat) (hd : 0 < d) :
    ((sciDigits p n d).2 = decExp n d ∨ (sciDigits p n d).2 = decExp n d + 1) ∧
    2 * (((if (p : Int) - decExp n d ≥ 0 then n * 10 ^ ((p : Int) - decExp n d).toNat else n : Nat) : Int)
          - ((sciDigits p n d).1 * 10 ^ ((sciDigits p n d).2 - decExp n d).toNat : Nat)
            * ((if (p : Int) - decExp n d ≥ 0 then d else d * 10 ^ (-((p : Int) - decExp n d)).toNat : Nat) : Int)).natAbs
      ≤ (if (p : Int) - decExp n d ≥ 0 then d else d * 10 ^ (-((p : Int) - decExp n d)).toNat) := by
  have hq := sci_quot_lt p n d hd
  have hden : 0 < (if (p : Int) - decExp n d ≥ 0 then d else d * 10 ^ (-((p : Int) - decExp n d)).toNat) := by
    split
    · exact hd
    · exact Nat.mul_pos hd (Nat.pow_pos (by decide))
  unfold sciDigits
  simp only
  generalize (if (p : Int) - decExp n d ≥ 0 then n * 10 ^ ((p : Int) - decExp n d).toNat else n) = num at hq ⊢
  generalize (if (p : Int) - decExp n d ≥ 0 then d else d * 10 ^ (-((p : Int) - decExp n d)).toNat) = den at hq hden ⊢
  have hr := round_half num den hden
  have hmle : (if 2 * (num % den) > den ∨ (2 * (num % den) = den ∧ num / den % 2 = 1) then num / den + 1 else num / den) ≤ num / den + 1 := by
    split <;> omega
  generalize (if 2 * (num % den) > den ∨ (2 * (num % den) = den ∧ num / den % 2 = 1) then num / den + 1 else num / den) = m at hr hmle ⊢
  generalize decExp n d = e0
  by_cases hc : m ≥ 10 ^ (p + 1)
  · rw [if_pos hc]
    have hm : m = 10 ^ (p + 1) := by omega
    simp only
    refine ⟨Or.inr trivial, ?_⟩
    have h1 : (e0 + 1 - e0).toNat = 1 := by omega
    rw [h1]
    have h2 : m / 10 * 10 ^ 1 = m := by
      rw [hm, Nat.pow_succ, Nat.pow_one, Nat.mul_div_cancel _ (by decide)]
    rw [h2]
    exact hr
  · rw [if_neg hc]
    simp only
    refine ⟨Or.inl trivial, ?_⟩
    have h1 : (e0 - e0).toNat = 0 := by omega
    rw [h1, Nat.pow_zero, Nat.mul_one]
    exact hr

/-! ### every binary64 value -/

/-- finite values of binary64 in the model's representation `± m · 2^e` -/
def isDouble : Val → Bool
  | .fin _ m e => decide (m < 2 ^ 53) && decide (-1074 ≤ e) && decide (e ≤ 971)
  | _ => true

set_option exponentiation.threshold 2000 in
theorem ratOf_bounds (neg : Bool) (m : Nat) (e : Int) (h : isDouble (.fin neg m e) = true) :
    (Val.fin neg m e).ratOf.1 < 10 ^ 309 ∧ 0 < (Val.fin neg m e).ratOf.2 ∧ (Val.fin neg m e).ratOf.2 < 10 ^ 324 := by
  simp only [isDouble, Bool.and_eq_true, decide_eq_true_eq] at h
  obtain ⟨⟨hm, hlo⟩, hhi⟩ := h
  by_cases he : e ≥ 0
  · simp only [Val.ratOf, he, if_true]
    refine ⟨?_, by decide, by decide⟩
    have h1 : 2 ^ e.toNat ≤ 2 ^ 971 := Nat.pow_le_pow_right (by decide) (by omega)
    have h2 : m * 2 ^ e.toNat < 2 ^ 53 * 2 ^ 971 :=
      Nat.lt_of_lt_of_le (Nat.mul_lt_mul_of_pos_right hm (Nat.pow_pos (by decide))) (Nat.mul_le_mul_left _ h1)
    exact Nat.lt_trans h2 (by decide)
  · simp only [Val.ratOf, he, if_false]
    have h1 : 2 ^ (-e).toNat ≤ 2 ^ 1074 := Nat.pow_le_pow_right (by decide) (by omega)
    exact ⟨Nat.lt_trans hm (by decide), Nat.pow_pos (by decide), Nat.lt_of_le_of_lt h1 (by decide)⟩

/-- **C19, byte-level round trip of one value in scientific format, every binary64 value.**  For every finite
non-zero double `v = ± m·2^e`, every precision `p ≥ 1` and everything that may follow the token (`rest` not
starting with a digit): `double_` applied to the bytes `%.<p>e` wrote consumes exactly the token and returns
`scaled ± ds (ex - p)`, spirit's conversion of the decimal `ds · 10^(ex-p)` with `(ds, ex) = sciDigits p v` —
`v` rounded (to nearest, ties to even) to `p + 1` significant decimal digits.  This is what "reproduces the data
up to the printed precision" means for `exportCSV` (precision 10 ⇒ 11 significant digits): the re-imported
value is the reading of the decimal rounding, in general not the original double. -/
theorem real_fmtE_double (p : Nat) (neg : Bool) (m : Nat) (e2 : Int) (rest : List Char) (hp : 0 < p) (hm : m ≠ 0)
    (hv : isDouble (.fin neg m e2) = true) (hr : NoDigitHead rest) :
    real (fmtE p (Val.fin neg m e2) ++ rest)
      = scaled neg (sciDigits p (Val.fin neg m e2).ratOf.1 (Val.fin neg m e2).ratOf.2).1
          ((sciDigits p (Val.fin neg m e2).ratOf.1 (Val.fin neg m e2).ratOf.2).2 - (p : Int)) rest := by
  obtain ⟨hn, hd0, hd⟩ := ratOf_bounds neg m e2 hv
  have hb := sciDigits_exp_bounds p (Val.fin neg m e2).ratOf.1 (Val.fin neg m e2).ratOf.2
  have h1 := natDigits_length_le _ 309 hn (by decide)
  have h2 := natDigits_length_le _ 324 hd (by decide)
  have h := real_fmtE p neg m e2 rest hp hm (by omega) hr
  rw [Nat.mod_eq_of_lt (sciDigits_lt p _ _ hd0)] at h
  exact h

/-! ### parse-of-print for `%.<p>g` -/

/-- what follows a number printed without exponent: no digit, no `.`, no `e` / `E` -/
def NumEnd (rest : List Char) : Prop := ∀ c t, rest = c :: t → isDigit c = false ∧ c ≠ '.' ∧ c ≠ 'e' ∧ c ≠ 'E'

theorem NumEnd.noDigit {rest : List Char} (h : NumEnd rest) : NoDigitHead rest := fun c t hc => (h c t hc).1

theorem exponent_none (rest : List Char) (h : NumEnd rest) : exponent rest = (0, rest) := by
  cases rest with
  | nil => rfl
  | cons c t =>
    obtain ⟨_, _, h1, h2⟩ := h c t rfl
    simp [exponent, h1, h2]

theorem real_int (neg : Bool) (c0 : Char) (t0 Y rest : List Char) (k : Int)
    (hid : ∀ c ∈ c0 :: t0, isDigit c = true)
    (hY1 : NoDigitHead Y) (hY2 : ∀ t, Y ≠ '.' :: t) (hY3 : exponent Y = (k, rest)) :
    real (signOf neg ++ c0 :: (t0 ++ Y)) = scaled neg ((c0 :: t0).foldl dval 0) k rest := by
  have hc0 := hid c0 (by simp)
  have hsign : splitSign (signOf neg ++ c0 :: (t0 ++ Y)) = (neg, c0 :: (t0 ++ Y)) := by
    cases neg
    · exact splitSign_digit _ _ hc0
    · rfl
  have hint : digits (c0 :: (t0 ++ Y)) 0 0 = ((c0 :: t0).foldl dval 0, (c0 :: t0).length, Y) := by
    have := digits_app (c0 :: t0) Y 0 0 hid hY1
    simpa using this
  unfold real
  simp only [hsign, hint]
  rw [if_neg (by simp)]
  simp only [hY3]

theorem real_frac (neg : Bool) (c0 : Char) (t0 fp Y rest : List Char) (k : Int)
    (hid : ∀ c ∈ c0 :: t0, isDigit c = true) (hfd : ∀ c ∈ fp, isDigit c = true)
    (hY1 : NoDigitHead Y) (hY3 : exponent Y = (k, rest)) :
    real (signOf neg ++ c0 :: (t0 ++ '.' :: (fp ++ Y)))
      = scaled neg ((c0 :: t0 ++ fp).foldl dval 0) (k - (fp.length : Int)) rest := by
  have hc0 := hid c0 (by simp)
  have hsign : splitSign (signOf neg ++ c0 :: (t0 ++ '.' :: (fp ++ Y))) = (neg, c0 :: (t0 ++ '.' :: (fp ++ Y))) := by
    cases neg
    · exact splitSign_digit _ _ hc0
    · rfl
  have hint : digits (c0 :: (t0 ++ '.' :: (fp ++ Y))) 0 0
      = ((c0 :: t0).foldl dval 0, (c0 :: t0).length, '.' :: (fp ++ Y)) := by
    have := digits_app (c0 :: t0) ('.' :: (fp ++ Y)) 0 0 hid (noDigitHead_cons _ (by decide))
    simpa using this
  have hfrac : digits (fp ++ Y) ((c0 :: t0).foldl dval 0) 0 = ((c0 :: t0 ++ fp).foldl dval 0, fp.length, Y) := by
    rw [digits_app fp Y _ _ hfd hY1, List.foldl_append]; simp
  unfold real
  simp only [hsign, hint]
  rw [if_neg (by simp)]
  simp only [hfrac, hY3]

/-- the core of `double_` on `ip [. fp] Y`: integer digits, optional fraction, then `Y` (an exponent part or the end) -/
theorem real_core (neg dot : Bool) (ip fp Y rest : List Char) (k : Int) (hip : ip ≠ [])
    (hid : ∀ c ∈ ip, isDigit c = true) (hfd : ∀ c ∈ fp, isDigit c = true) (hdot : dot = false → fp = [])
    (hY1 : NoDigitHead Y) (hY2 : ∀ t, Y ≠ '.' :: t) (hY3 : exponent Y = (k, rest)) :
    real (signOf neg ++ (ip ++ ((if dot then '.' :: fp else []) ++ Y)))
      = scaled neg ((ip ++ fp).foldl dval 0) (k - (fp.length : Int)) rest := by
  obtain ⟨c0, t0, rfl⟩ : ∃ c t, ip = c :: t := by
    cases ip with
    | nil => exact absurd rfl hip
    | cons c t => exact ⟨c, t, rfl⟩
  cases dot with
  | false =>
    have hfp := hdot rfl
    subst hfp
    have := real_int neg c0 t0 Y rest k hid hY1 hY2 hY3
    simpa using this
  | true =>
    have := real_frac neg c0 t0 fp Y rest k hid hfd hY1 hY3
    simpa using this

theorem foldl_zeros (z a : Nat) : (List.replicate z '0').foldl dval a = a * 10 ^ z := by
  induction z generalizing a with
  | zero => simp
  | succ z ih =>
    simp only [List.replicate_succ, List.foldl_cons]
    rw [ih]
    have : dval a '0' = a * 10 := by simp [dval]
    rw [this, Nat.pow_succ, Nat.mul_assoc, Nat.mul_comm 10]

theorem stripZeros_spec (s : List Char) : ∃ z, s = stripZeros s ++ List.replicate z '0' := by
  unfold stripZeros
  refine ⟨(s.reverse.takeWhile (· == '0')).length, ?_⟩
  have h := List.takeWhile_append_dropWhile (p := (· == '0')) (l := s.reverse)
  have h2 : s = (s.reverse.dropWhile (· == '0')).reverse ++ (s.reverse.takeWhile (· == '0')).reverse := by
    rw [← List.reverse_append, h, List.reverse_reverse]
  have h3 : (s.reverse.takeWhile (· == '0')).reverse = List.replicate (s.reverse.takeWhile (· == '0')).length '0' := by
    rw [List.eq_replicate_iff]
    refine ⟨by simp, ?_⟩
    intro c hc
    have := List.all_eq_true.mp (List.all_takeWhile (l := s.reverse) (p := (· == '0'))) c (List.mem_reverse.mp hc)
    simpa using this
  rw [← h3]
  exact h2

/-- integer part = the first `j` digits of `s`, fraction = the other digits without trailing zeros -/
theorem real_split (neg : Bool) (s : List Char) (j : Nat)
    (hs : ∀ c ∈ s, isDigit c = true) (hj : 1 ≤ j) (hjs : j ≤ s.length) :
    ∃ mant z : Nat, mant * 10 ^ z = s.foldl dval 0 ∧ z + j ≤ s.length ∧
      ∀ (Y rest : List Char) (k : Int), NoDigitHead Y → (∀ t, Y ≠ '.' :: t) → exponent Y = (k, rest) →
      real (signOf neg ++ s.take j ++ (if (stripZeros (s.drop j)).isEmpty then [] else '.' :: stripZeros (s.drop j)) ++ Y)
        = scaled neg mant (k - ((s.length - j - z : Nat) : Int)) rest := by
  obtain ⟨z, hz⟩ := stripZeros_spec (s.drop j)
  generalize hfp : stripZeros (s.drop j) = fp at hz
  have hfd : ∀ c ∈ fp, isDigit c = true := by
    intro c hc
    rw [← hfp] at hc
    exact hs c (List.mem_of_mem_drop (stripZeros_subset _ c hc))
  have hlen : fp.length + z = s.length - j := by
    have := congrArg List.length hz
    simp at this; omega
  have hsplit : s = s.take j ++ (fp ++ List.replicate z '0') := by rw [← hz, List.take_append_drop]
  refine ⟨(s.take j ++ fp).foldl dval 0, z, ?_, by omega, ?_⟩
  · conv => rhs; rw [hsplit, ← List.append_assoc, List.foldl_append, foldl_zeros]
  · intro Y rest k hY1 hY2 hY3
    have hne : s.take j ≠ [] := by
      intro h
      have h1 : (s.take j).length = min j s.length := List.length_take
      rw [h] at h1
      simp at h1; omega
    have hcore := real_core neg (!fp.isEmpty) (s.take j) fp Y rest k hne
      (fun c hc => hs c (List.mem_of_mem_take hc)) hfd (by intro h; simpa using h) hY1 hY2 hY3
    have hl : ((s.length - j - z : Nat) : Int) = (fp.length : Int) := by omega
    rw [hl, ← hcore]
    cases fp <;> simp [List.append_assoc]

theorem numEnd_not_dot {rest : List Char} (h : NumEnd rest) : ∀ t, rest ≠ '.' :: t := by
  intro t ht
  exact (h '.' t ht).2.1 rfl

/-- **`double_` on a token printed by `%.<p>g`, every binary64 value**: the lexer consumes exactly the token and
returns spirit's conversion of a decimal `mant · 10^k` that EQUALS the printed rounding `ds · 10^(ex-(P-1))`,
`(ds, ex) = sciDigits (P-1) v` (`P` = the precision, 1 for 0): `mant` is `ds` without its `z` trailing zeros
(which `%g` strips) and `k = ex - (P-1) + z`.  All three layouts of `%g` (plain, `0.000ddd`, exponent). -/
theorem real_fmtG (p0 : Nat) (neg : Bool) (m : Nat) (e2 : Int) (hm : m ≠ 0)
    (hv : isDouble (.fin neg m e2) = true) :
    ∃ mant z : Nat,
      mant * 10 ^ z = (sciDigits ((if p0 = 0 then 1 else p0) - 1) (Val.fin neg m e2).ratOf.1 (Val.fin neg m e2).ratOf.2).1 ∧
      ((sciDigits ((if p0 = 0 then 1 else p0) - 1) (Val.fin neg m e2).ratOf.1 (Val.fin neg m e2).ratOf.2).2
          - (((if p0 = 0 then 1 else p0) - 1 : Nat) : Int) + (z : Int)
        ≤ (sciDigits ((if p0 = 0 then 1 else p0) - 1) (Val.fin neg m e2).ratOf.1 (Val.fin neg m e2).ratOf.2).2 ∨
       (sciDigits ((if p0 = 0 then 1 else p0) - 1) (Val.fin neg m e2).ratOf.1 (Val.fin neg m e2).ratOf.2).2
          - (((if p0 = 0 then 1 else p0) - 1 : Nat) : Int) + (z : Int) ≤ 0) ∧
      ∀ rest : List Char, NumEnd rest → real (fmtG p0 (Val.fin neg m e2) ++ rest) = scaled neg mant
        ((sciDigits ((if p0 = 0 then 1 else p0) - 1) (Val.fin neg m e2).ratOf.1 (Val.fin neg m e2).ratOf.2).2
          - (((if p0 = 0 then 1 else p0) - 1 : Nat) : Int) + (z : Int)) rest := by
  obtain ⟨hn, hd0, hd⟩ := ratOf_bounds neg m e2 hv
  have hP : 1 ≤ (if p0 = 0 then 1 else p0) := by split <;> omega
  simp only [fmtG]
  rw [if_neg hm]
  generalize (if p0 = 0 then 1 else p0) = P at hP ⊢
  have hlt := sciDigits_lt (P - 1) (Val.fin neg m e2).ratOf.1 (Val.fin neg m e2).ratOf.2 hd0
  rw [show P - 1 + 1 = P by omega] at hlt
  have hb := sciDigits_exp_bounds (P - 1) (Val.fin neg m e2).ratOf.1 (Val.fin neg m e2).ratOf.2
  have h1 := natDigits_length_le _ 309 hn (by decide)
  have h2 := natDigits_length_le _ 324 hd (by decide)
  generalize sciDigits (P - 1) (Val.fin neg m e2).ratOf.1 (Val.fin neg m e2).ratOf.2 = sd at hlt hb ⊢
  obtain ⟨ds, e⟩ := sd
  simp only at hlt hb ⊢
  have hsd : ∀ c ∈ fixedDigits P ds, isDigit c = true := fixedDigits_digits P ds
  have hslen : (fixedDigits P ds).length = P := fixedDigits_length P ds
  have hsval : (fixedDigits P ds).foldl dval 0 = ds := by
    rw [foldl_fixedDigits, Nat.mod_eq_of_lt hlt]; simp
  by_cases hfix : e ≥ -4 ∧ e < (P : Int)
  · rw [if_pos hfix]
    by_cases he0 : e ≥ 0
    · rw [if_pos he0]
      obtain ⟨mant, z, hmz, hzj, hreal⟩ := real_split neg (fixedDigits P ds) (e.toNat + 1) hsd (by omega)
        (by rw [hslen]; omega)
      rw [hslen] at hzj
      refine ⟨mant, z, by rw [hmz, hsval], Or.inr (by omega), ?_⟩
      intro rest hr
      rw [hreal rest rest 0 hr.noDigit (numEnd_not_dot hr) (exponent_none rest hr), hslen]
      congr 1
      omega
    · rw [if_neg he0]
      obtain ⟨z, hz⟩ := stripZeros_spec (List.replicate ((-e).toNat - 1) '0' ++ fixedDigits P ds)
      generalize hfp : stripZeros (List.replicate ((-e).toNat - 1) '0' ++ fixedDigits P ds) = fp at hz
      have hfd : ∀ c ∈ fp, isDigit c = true := by
        intro c hc
        rw [← hfp] at hc
        rcases List.mem_append.mp (stripZeros_subset _ c hc) with h | h
        · rw [(List.mem_replicate.mp h).2]; decide
        · exact hsd c h
      have hlen : fp.length + z = (-e).toNat - 1 + P := by
        have := congrArg List.length hz
        simp [hslen] at this; omega
      have hval : (['0'] ++ fp).foldl dval 0 * 10 ^ z = ds := by
        have h0 : (['0'] ++ fp).foldl dval 0 = fp.foldl dval 0 := by simp [dval]
        rw [h0, ← foldl_zeros, ← List.foldl_append, ← hz, List.foldl_append, foldl_zeros, Nat.zero_mul, hsval]
      refine ⟨(['0'] ++ fp).foldl dval 0, z, hval, Or.inr (by omega), ?_⟩
      intro rest hr
      have hcore := real_core neg true ['0'] fp rest rest 0 (by simp) (by intro c hc; rw [List.mem_singleton.mp hc]; decide)
        hfd (by intro h; exact absurd h (by decide)) hr.noDigit (numEnd_not_dot hr) (exponent_none rest hr)
      have hshape : signOf neg ++ ['0', '.'] ++ fp ++ rest = signOf neg ++ (['0'] ++ ((if true then '.' :: fp else []) ++ rest)) := by
        simp [List.append_assoc]
      rw [hshape, hcore]
      congr 1
      omega
  · rw [if_neg hfix]
    obtain ⟨mant, z, hmz, hzj, hreal⟩ := real_split neg (fixedDigits P ds) 1 hsd (Nat.le_refl _)
      (by rw [hslen]; exact hP)
    rw [hslen] at hzj
    refine ⟨mant, z, by rw [hmz, hsval], Or.inl (by omega), ?_⟩
    intro rest hr
    have hY3 := exponent_expPart e rest (by omega) hr.noDigit
    rw [List.append_assoc, hreal (expPart e ++ rest) rest e (by unfold expPart; exact noDigitHead_cons _ (by decide))
      (by intro t ht; unfold expPart at ht; simp at ht) hY3, hslen]
    congr 1
    omega

end SharkVerif.Import.Export
