/-
Lemmas for `fastSort_eq_rankSpec` (C13): facts about `rankSpec`, the array
state of the peeling loop, the per-pass lemma and the loop invariant.
-/
import SharkVerif.Lemmas.Pareto
namespace SharkVerif.Pareto

/-! ### `foldl max` -/

theorem foldl_max_ge (l : List Nat) : ∀ (a : Nat), a ≤ l.foldl max a ∧ ∀ x ∈ l, x ≤ l.foldl max a := by
  induction l with
  | nil => intro a; simp
  | cons y l ih =>
    intro a
    simp only [List.foldl_cons, List.mem_cons]
    have h := ih (max a y)
    refine ⟨by omega, ?_⟩
    rintro x (rfl | hx)
    · omega
    · exact h.2 x hx

theorem foldl_max_mem (l : List Nat) : ∀ (a : Nat), l.foldl max a = a ∨ l.foldl max a ∈ l := by
  induction l with
  | nil => intro a; simp
  | cons y l ih =>
    intro a
    simp only [List.foldl_cons, List.mem_cons]
    rcases ih (max a y) with h | h
    · rw [h]; rcases Nat.le_total a y with h' | h'
      · right; left; omega
      · left; omega
    · right; right; exact h

/-! ### the defining equation of `rankSpec` -/

theorem rankSpec_eq (S : List Pt) (p : Pt) :
    rankSpec S p = 1 + ((S.filter fun q => dominates q p).map (rankSpec S)).foldl max 0 := by
  rw [rankSpec, List.attach_map_val (f := rankSpec S)]

theorem rankSpec_pos (S : List Pt) (p : Pt) : 1 ≤ rankSpec S p := by
  rw [rankSpec_eq]; omega

/-- a dominator has a strictly smaller rank -/
theorem rankSpec_lt (S : List Pt) {p q : Pt} (hq : q ∈ S) (hd : dominates q p = true) :
    rankSpec S q < rankSpec S p := by
  rw [rankSpec_eq S p]
  have := (foldl_max_ge ((S.filter fun q => dominates q p).map (rankSpec S)) 0).2 (rankSpec S q)
    (List.mem_map.mpr ⟨q, List.mem_filter.mpr ⟨hq, hd⟩, rfl⟩)
  omega

/-- the rank is 1 or one more than the rank of some dominator in `S` -/
theorem rankSpec_cases (S : List Pt) (p : Pt) :
    rankSpec S p = 1 ∨ ∃ q ∈ S, dominates q p = true ∧ rankSpec S p = rankSpec S q + 1 := by
  rw [rankSpec_eq S p]
  rcases foldl_max_mem ((S.filter fun q => dominates q p).map (rankSpec S)) 0 with h | h
  · left; omega
  · right
    obtain ⟨q, hq, he⟩ := List.mem_map.mp h
    have := List.mem_filter.mp hq
    exact ⟨q, this.1, this.2, by omega⟩

theorem rankSpec_eq_one_iff (S : List Pt) (p : Pt) :
    rankSpec S p = 1 ↔ ∀ q ∈ S, dominates q p = false := by
  constructor
  · intro h q hq
    cases hd : dominates q p with
    | false => rfl
    | true => have := rankSpec_lt S hq hd; have := rankSpec_pos S q; omega
  · intro h
    rcases rankSpec_cases S p with h1 | ⟨q, hq, hd, _⟩
    · exact h1
    · rw [h q hq] at hd; cases hd

/-- the rank is bounded by one plus the number of dominators -/
theorem rankSpec_le_count (S : List Pt) : ∀ (k : Nat) (p : Pt),
    (S.countP fun q => dominates q p) = k → rankSpec S p ≤ 1 + k := by
  intro k
  induction k using Nat.strongRecOn with
  | _ k ih =>
    intro p hk
    rcases rankSpec_cases S p with h1 | ⟨q, hq, hd, he⟩
    · omega
    · have hlt : (S.countP fun x => dominates x q) < S.countP fun x => dominates x p :=
        countP_lt_of_imp S (fun x => dominates x q) (fun x => dominates x p)
          (fun x hx => dominates_trans hx hd) q hq hd (by simp [dominates_irrefl])
      have := ih _ (by omega) q rfl
      omega

theorem rankSpec_le_length (S : List Pt) (p : Pt) : rankSpec S p ≤ 1 + S.length :=
  Nat.le_trans (rankSpec_le_count S _ p rfl) (by have := List.countP_le_length (p := fun q => dominates q p) (l := S); omega)

/-- ranks are contiguous: if no point of `S` has rank `k ≥ 1`, every rank is below `k` -/
theorem rankSpec_contiguous (S : List Pt) (k : Nat) (hk : 1 ≤ k) (hno : ∀ q ∈ S, rankSpec S q ≠ k) :
    ∀ q ∈ S, rankSpec S q < k := by
  suffices H : ∀ v, ∀ q ∈ S, rankSpec S q = v → v < k by intro q hq; exact H _ q hq rfl
  intro v
  induction v using Nat.strongRecOn with
  | _ v ih =>
    intro q hq hv
    rcases Nat.lt_or_ge v k with h | h
    · exact h
    · exfalso
      have hne := hno q hq
      rcases rankSpec_cases S q with h1 | ⟨q', hq', _, he⟩
      · omega
      · have := ih (rankSpec S q') (by omega) q' hq' rfl
        omega


/-! ### array state -/

/-- read with default 0 -/
def gd (a : Array Nat) (x : Nat) : Nat := a.getD x 0

theorem gd_set (a : Array Nat) (j v x : Nat) (hj : j < a.size) :
    gd (a.setIfInBounds j v) x = if x = j then v else gd a x := by
  unfold gd
  rw [Array.getD_eq_getD_getElem?, Array.getD_eq_getD_getElem?, Array.getElem?_setIfInBounds]
  by_cases h : j = x
  · subst h; simp [hj]
  · simp [h]; intro h'; exact absurd h'.symm h

theorem gd_oob (a : Array Nat) (x : Nat) (h : a.size ≤ x) : gd a x = 0 := by
  unfold gd; rw [Array.getD_eq_getD_getElem?]; simp [Array.getElem?_eq_none h]

/-- `x` has been pushed while folding `visit` over `T` from counters `cnt` -/
abbrev pushed (cnt : Nat) (occ : Nat) : Prop := 1 ≤ cnt ∧ cnt ≤ occ

theorem visit_eq (c : Nat) (st : FS) (j : Nat) :
    visit c st j =
      if gd st.cnt j = 1 then
        { cnt := st.cnt.setIfInBounds j (gd st.cnt j - 1), rank := st.rank.setIfInBounds j c,
          next := st.next.push j }
      else { cnt := st.cnt.setIfInBounds j (gd st.cnt j - 1), rank := st.rank, next := st.next } := by
  by_cases h : st.cnt.getD j 0 = 1 <;> simp [visit, gd, h]

theorem visit_sizes (c : Nat) (st : FS) (j : Nat) :
    (visit c st j).cnt.size = st.cnt.size ∧ (visit c st j).rank.size = st.rank.size := by
  rw [visit_eq]; split <;> simp

theorem visit_cnt (c : Nat) (st : FS) (j x : Nat) (hj : j < st.cnt.size) :
    gd (visit c st j).cnt x = if x = j then gd st.cnt j - 1 else gd st.cnt x := by
  rw [visit_eq]; split <;> simp only [gd_set _ _ _ _ hj]

theorem visit_rank (c : Nat) (st : FS) (j x : Nat) (hj : j < st.rank.size) :
    gd (visit c st j).rank x = if x = j ∧ gd st.cnt j = 1 then c else gd st.rank x := by
  rw [visit_eq]
  split
  · rename_i h; simp only [gd_set _ _ _ _ hj, h, and_true]
  · rename_i h; simp only [h, and_false, if_false]

theorem visit_next (c : Nat) (st : FS) (j : Nat) :
    (visit c st j).next.toList = if gd st.cnt j = 1 then st.next.toList ++ [j] else st.next.toList := by
  rw [visit_eq]
  split
  · simp
  · rfl

/-- **one pass of decrements**: folding `visit c` over the target list `T` subtracts from every
counter the number of occurrences in `T`; exactly the targets whose counter reaches 0 (from a
positive value) are appended to `next`, once, and receive rank `c`. -/
theorem foldl_visit (c n : Nat) (T : List Nat) : ∀ (st : FS), st.cnt.size = n → st.rank.size = n →
    (∀ j ∈ T, j < n) → st.next.toList.Nodup → (∀ x ∈ st.next.toList, gd st.cnt x = 0) →
    let st' := T.foldl (visit c) st
    st'.cnt.size = n ∧ st'.rank.size = n ∧
    (∀ x, gd st'.cnt x = gd st.cnt x - T.count x) ∧
    (∀ x, x ∈ st'.next.toList ↔ x ∈ st.next.toList ∨ (1 ≤ gd st.cnt x ∧ gd st.cnt x ≤ T.count x)) ∧
    st'.next.toList.Nodup ∧
    (∀ x, gd st'.rank x = if (1 ≤ gd st.cnt x ∧ gd st.cnt x ≤ T.count x) then c else gd st.rank x) := by
  induction T with
  | nil =>
    intro st hc hr _ hnd _
    have hf : ∀ a : Nat, ¬ (1 ≤ a ∧ a ≤ List.count (α := Nat) 0 []) := by intro a; simp; omega
    refine ⟨hc, hr, fun x => by simp, fun x => ?_, hnd, fun x => ?_⟩
    · have : ¬ (1 ≤ gd st.cnt x ∧ gd st.cnt x ≤ List.count x []) := by simp; omega
      simp only [List.foldl_nil]
      constructor
      · intro h; exact Or.inl h
      · rintro (h | h); exact h; exact absurd h this
    · have : ¬ (1 ≤ gd st.cnt x ∧ gd st.cnt x ≤ List.count x []) := by simp; omega
      simp only [List.foldl_nil]
      rw [if_neg this]
  | cons j T ih =>
    intro st hc hr hT hnd hz
    have hj : j < n := hT j (by simp)
    have hs := visit_sizes c st j
    have hz1 : ∀ x ∈ (visit c st j).next.toList, gd (visit c st j).cnt x = 0 := by
      intro x hx
      rw [visit_cnt c st j x (by omega)]
      rw [visit_next] at hx
      by_cases hxj : x = j
      · subst hxj; simp only [if_true]
        split at hx
        · omega
        · have := hz x hx; omega
      · simp only [hxj, if_false]
        split at hx
        · rcases List.mem_append.mp hx with h | h
          · exact hz x h
          · simp at h; exact absurd h hxj
        · exact hz x hx
    have hnd1 : (visit c st j).next.toList.Nodup := by
      rw [visit_next]
      split
      · rename_i h1
        rw [List.nodup_append]
        refine ⟨hnd, by simp, ?_⟩
        intro a ha b hb
        simp at hb; subst hb
        intro e; subst e
        have := hz a ha; omega
      · exact hnd
    have := ih (visit c st j) (by omega) (by omega) (fun x hx => hT x (by simp [hx])) hnd1 hz1
    simp only [List.foldl_cons]
    obtain ⟨h1, h2, h3, h4, h5, h6⟩ := this
    refine ⟨h1, h2, fun x => ?_, fun x => ?_, h5, fun x => ?_⟩
    · rw [h3 x, visit_cnt c st j x (by omega), List.count_cons]
      by_cases hxj : x = j
      · subst hxj; simp; omega
      · have : (j == x) = false := by simp; exact fun e => hxj e.symm
        simp [hxj, this]
    · rw [h4 x, visit_cnt c st j x (by omega), visit_next, List.count_cons]
      by_cases hxj : x = j
      · subst hxj
        simp only [if_true, beq_self_eq_true]
        by_cases h1 : gd st.cnt x = 1
        · simp [h1]
        · simp only [h1, if_false]
          constructor
          · rintro (h | h)
            · exact Or.inl h
            · right; omega
          · rintro (h | h)
            · exact Or.inl h
            · right; omega
      · have : (j == x) = false := by simp; exact fun e => hxj e.symm
        simp only [hxj, if_false, this, Nat.add_zero]
        split
        · simp [hxj]
        · rfl
    · rw [h6 x, visit_cnt c st j x (by omega), visit_rank c st j x (by omega), List.count_cons]
      by_cases hxj : x = j
      · subst hxj
        simp only [if_true, beq_self_eq_true, true_and]
        by_cases h1 : gd st.cnt x = 1
        · simp [h1]
        · simp only [h1, if_false]
          by_cases h2 : 1 ≤ gd st.cnt x - 1 ∧ gd st.cnt x - 1 ≤ List.count x T
          · rw [if_pos h2, if_pos (by omega)]
          · rw [if_neg h2, if_neg (by omega)]
      · have : (j == x) = false := by simp; exact fun e => hxj e.symm
        simp [hxj, this]


/-! ### dominance on indices -/

/-- `shark::dominance` returns the relation of its definition -/
theorem dominance_iff (p q : Pt) (h : p.length = q.length) :
    (dominance p q = .lhsDominates ↔ dominates p q = true) ∧
    (dominance p q = .rhsDominates ↔ dominates q p = true) ∧
    (dominance p q = .equivalent ↔ p = q) ∧
    (dominance p q = .incomparable ↔ leAll p q = false ∧ leAll q p = false) := by
  have h1 := countLt_eq_zero (p := p) (q := q) h
  have h2 := countLt_eq_zero (p := q) (q := p) h.symm
  unfold dominance dominates
  cases hpq : leAll p q <;> cases hqp : leAll q p <;> simp only [hpq, hqp] at h1 h2
  · have a : countLt q p > 0 := by simp at h1; omega
    have b : countLt p q > 0 := by simp at h2; omega
    simp [a, b]
    intro e; subst e; simp [leAll_refl] at hpq
  · have a : countLt q p > 0 := by simp at h1; omega
    have b : countLt p q = 0 := by simpa using h2
    simp [a, b]
    intro e; subst e; simp [leAll_refl] at hpq
  · have a : countLt q p = 0 := by simpa using h1
    have b : countLt p q > 0 := by simp at h2; omega
    simp [a, b]
    intro e; subst e; simp [leAll_refl] at hqp
  · have a : countLt q p = 0 := by simpa using h1
    have b : countLt p q = 0 := by simpa using h2
    simp [a, b]
    exact leAll_antisymm hpq hqp

/-- all points have dimension `m` (the C++ `SIZE_CHECK`/`SHARK_ASSERT` precondition) -/
def Dims (pts : List Pt) (m : Nat) : Prop := ∀ p ∈ pts, p.length = m

def dom (pts : List Pt) (i j : Nat) : Bool := dominates (pt pts i) (pt pts j)
def rk (pts : List Pt) (j : Nat) : Nat := rankSpec pts (pt pts j)

theorem pt_eq (pts : List Pt) {j : Nat} (h : j < pts.length) : pt pts j = pts[j] := by
  simp [pt, List.getD_eq_getElem?_getD, h]

theorem pt_mem (pts : List Pt) {j : Nat} (h : j < pts.length) : pt pts j ∈ pts := by
  rw [pt_eq pts h]; exact List.getElem_mem h

theorem exists_index {pts : List Pt} {q : Pt} (h : q ∈ pts) : ∃ i, i < pts.length ∧ pt pts i = q := by
  obtain ⟨i, hi, e⟩ := List.mem_iff_getElem.mp h
  exact ⟨i, hi, by rw [pt_eq pts hi, e]⟩

theorem dom_irrefl (pts : List Pt) (i : Nat) : dom pts i i = false := dominates_irrefl _

theorem rk_lt {pts : List Pt} {i j : Nat} (hi : i < pts.length) (h : dom pts i j = true) :
    rk pts i < rk pts j := rankSpec_lt pts (pt_mem pts hi) h

theorem rk_cases (pts : List Pt) (j : Nat) :
    rk pts j = 1 ∨ ∃ i, i < pts.length ∧ dom pts i j = true ∧ rk pts j = rk pts i + 1 := by
  rcases rankSpec_cases pts (pt pts j) with h | ⟨q, hq, hd, he⟩
  · exact Or.inl h
  · obtain ⟨i, hi, e⟩ := exists_index hq
    right; refine ⟨i, hi, ?_, ?_⟩
    · simp [dom, e, hd]
    · simp [rk, e]; exact he

theorem rk_pos (pts : List Pt) (j : Nat) : 1 ≤ rk pts j := rankSpec_pos _ _

theorem mem_domList {pts : List Pt} {m : Nat} (hd : Dims pts m) {e : Nat} (he : e < pts.length) (j : Nat) :
    j ∈ domList pts e ↔ j < pts.length ∧ dom pts e j = true := by
  unfold domList
  rw [List.mem_filter, List.mem_range]
  constructor
  · rintro ⟨hj, h⟩
    simp only [Bool.and_eq_true, bne_iff_ne, beq_iff_eq] at h
    exact ⟨hj, (dominance_iff _ _ (by rw [hd _ (pt_mem pts he), hd _ (pt_mem pts hj)])).1.mp h.2⟩
  · rintro ⟨hj, h⟩
    refine ⟨hj, ?_⟩
    simp only [Bool.and_eq_true, bne_iff_ne, beq_iff_eq]
    refine ⟨?_, (dominance_iff _ _ (by rw [hd _ (pt_mem pts he), hd _ (pt_mem pts hj)])).1.mpr h⟩
    intro e'; subst e'; rw [dom_irrefl] at h; cases h

theorem nodup_domList (pts : List Pt) (e : Nat) : (domList pts e).Nodup :=
  List.Nodup.sublist List.filter_sublist List.nodup_range

theorem domCount_eq {pts : List Pt} {m : Nat} (hd : Dims pts m) {j : Nat} (hj : j < pts.length) :
    domCount pts j = (List.range pts.length).countP fun i => dom pts i j := by
  unfold domCount
  apply List.countP_congr
  intro i hi
  have hi' : i < pts.length := List.mem_range.mp hi
  have := (dominance_iff (pt pts j) (pt pts i) (by rw [hd _ (pt_mem pts hj), hd _ (pt_mem pts hi')])).2.1
  simp only [Bool.and_eq_true, bne_iff_ne, beq_iff_eq]
  constructor
  · intro h; exact this.mp h.2
  · intro h
    refine ⟨?_, this.mpr h⟩
    intro e'; subst e'; rw [dom_irrefl] at h; cases h

/-! ### counting lemmas -/

theorem countP_split {α} (l : List α) (a : α → Bool) (f : α → Nat) (k : Nat) :
    (l.countP fun i => a i && decide (k ≤ f i)) =
      (l.countP fun i => a i && (f i == k)) + l.countP fun i => a i && decide (k + 1 ≤ f i) := by
  induction l with
  | nil => rfl
  | cons x l ih =>
    simp only [List.countP_cons, ih]
    cases a x
    · simp
    · rcases Nat.lt_trichotomy (f x) k with h | h | h
      · have h1 : ¬ k ≤ f x := by omega
        have h2 : ¬ f x = k := by omega
        have h3 : ¬ k + 1 ≤ f x := by omega
        simp [h1, h2, h3]
      · subst h
        have h3 : ¬ f x + 1 ≤ f x := by omega
        simp [h3]; omega
      · have h1 : k ≤ f x := by omega
        have h2 : ¬ f x = k := by omega
        have h3 : k + 1 ≤ f x := by omega
        simp [h1, h2, h3]; omega

/-- occurrences of `x` among the targets of one pass = number of front elements dominating `x` -/
theorem count_flatMap_domList {pts : List Pt} {m : Nat} (hd : Dims pts m) (x : Nat) (hx : x < pts.length) :
    ∀ (front : List Nat), (∀ e ∈ front, e < pts.length) →
      (front.flatMap (domList pts)).count x = front.countP fun e => dom pts e x := by
  intro front
  induction front with
  | nil => intro _; rfl
  | cons e es ih =>
    intro h
    have he : e < pts.length := h e (by simp)
    rw [List.flatMap_cons, List.count_append, ih (fun y hy => h y (by simp [hy])), List.countP_cons,
      (nodup_domList pts e).count]
    have := mem_domList hd he x
    by_cases hm : x ∈ domList pts e
    · have := (this.mp hm).2; simp [hm, this]; omega
    · have hf : dom pts e x = false := by
        cases h' : dom pts e x with
        | false => rfl
        | true => exact absurd (this.mpr ⟨hx, h'⟩) hm
      simp [hm, hf]

/-- a duplicate-free list with a known membership predicate counts like the filtered range -/
theorem countP_of_mem (n : Nat) (front : List Nat) (q : Nat → Bool) (hnd : front.Nodup)
    (hmem : ∀ j, j ∈ front ↔ j < n ∧ q j = true) (p : Nat → Bool) :
    front.countP p = (List.range n).countP fun i => p i && q i := by
  have hperm : front.Perm ((List.range n).filter q) := by
    rw [List.perm_ext_iff_of_nodup hnd (List.Nodup.sublist List.filter_sublist List.nodup_range)]
    intro a; rw [hmem a, List.mem_filter, List.mem_range]
  rw [hperm.countP_eq, List.countP_filter]


/-! ### the loop invariant -/

/-- state at the head of the `while` loop with `frontCounter = c`: `front` lists the indices of
rank `c - 1`, every counter holds the number of dominators of rank `≥ c - 1`, and all ranks
`≤ c - 1` have been written -/
structure Inv (pts : List Pt) (c : Nat) (front : List Nat) (st : FS) : Prop where
  c2 : 2 ≤ c
  nodup : front.Nodup
  mem : ∀ j, j ∈ front ↔ j < pts.length ∧ rk pts j = c - 1
  csize : st.cnt.size = pts.length
  cnt : ∀ j, j < pts.length →
    gd st.cnt j = (List.range pts.length).countP fun i => dom pts i j && decide (c - 1 ≤ rk pts i)
  rsize : st.rank.size = pts.length
  rank : ∀ j, j < pts.length → rk pts j ≤ c - 1 → gd st.rank j = rk pts j

theorem rk_eq_iff (pts : List Pt) (c x : Nat) (hc : 2 ≤ c) :
    rk pts x = c ↔ (∃ i, i < pts.length ∧ dom pts i x = true ∧ rk pts i = c - 1) ∧
      (∀ i, i < pts.length → dom pts i x = true → rk pts i < c) := by
  constructor
  · intro h
    constructor
    · rcases rk_cases pts x with h1 | ⟨i, hi, hd, he⟩
      · omega
      · exact ⟨i, hi, hd, by omega⟩
    · intro i hi hd; have := rk_lt hi hd; omega
  · rintro ⟨⟨i, hi, hd, he⟩, hall⟩
    have h1 := rk_lt hi hd
    rcases rk_cases pts x with h2 | ⟨i', hi', hd', he'⟩
    · omega
    · have := hall i' hi' hd'; omega

theorem round_inv {pts : List Pt} {m : Nat} (hd : Dims pts m) {c : Nat} {front : List Nat} {st : FS}
    (h : Inv pts c front st) :
    Inv pts (c + 1) (round pts c front st).next.toList (round pts c front st) := by
  have hc2 := h.c2
  unfold round
  rw [← List.foldl_flatMap]
  have hfront : ∀ e ∈ front, e < pts.length := fun e he => ((h.mem e).mp he).1
  have hT : ∀ j ∈ front.flatMap (domList pts), j < pts.length := by
    intro j hj
    obtain ⟨e, he, hje⟩ := List.mem_flatMap.mp hj
    exact ((mem_domList hd (hfront e he) j).mp hje).1
  have key := foldl_visit c pts.length (front.flatMap (domList pts)) { st with next := #[] }
    h.csize h.rsize hT (by simp) (by simp)
  obtain ⟨k1, k2, k3, k4, k5, k6⟩ := key
  -- occurrences of x among the targets
  have hocc : ∀ x, x < pts.length → (front.flatMap (domList pts)).count x =
      (List.range pts.length).countP fun i => dom pts i x && (rk pts i == c - 1) := by
    intro x hx
    rw [count_flatMap_domList hd x hx front hfront]
    exact countP_of_mem pts.length front (fun j => rk pts j == c - 1) h.nodup
      (fun j => by rw [h.mem j]; simp) _
  have hsplit : ∀ x, ((List.range pts.length).countP fun i => dom pts i x && decide (c - 1 ≤ rk pts i)) =
      ((List.range pts.length).countP fun i => dom pts i x && (rk pts i == c - 1)) +
      (List.range pts.length).countP fun i => dom pts i x && decide (c ≤ rk pts i) := by
    intro x
    have := countP_split (List.range pts.length) (fun i => dom pts i x) (rk pts) (c - 1)
    rw [show c - 1 + 1 = c by omega] at this
    exact this
  have hpush : ∀ x, x < pts.length →
      ((1 ≤ gd st.cnt x ∧ gd st.cnt x ≤ (front.flatMap (domList pts)).count x) ↔ rk pts x = c) := by
    intro x hx
    rw [h.cnt x hx, hocc x hx, hsplit x, rk_eq_iff pts c x hc2]
    have hE : (0 < (List.range pts.length).countP fun i => dom pts i x && (rk pts i == c - 1)) ↔
        ∃ i, i < pts.length ∧ dom pts i x = true ∧ rk pts i = c - 1 := by
      rw [List.countP_pos_iff]
      constructor
      · rintro ⟨i, hi, hp⟩
        simp only [Bool.and_eq_true, beq_iff_eq] at hp
        exact ⟨i, List.mem_range.mp hi, hp.1, hp.2⟩
      · rintro ⟨i, hi, h1, h2⟩
        exact ⟨i, List.mem_range.mpr hi, by simp [h1, h2]⟩
    have hA : ((List.range pts.length).countP fun i => dom pts i x && decide (c ≤ rk pts i)) = 0 ↔
        ∀ i, i < pts.length → dom pts i x = true → rk pts i < c := by
      rw [List.countP_eq_zero]
      constructor
      · intro hh i hi hdm
        have := hh i (List.mem_range.mpr hi)
        simp only [Bool.and_eq_true, decide_eq_true_eq, not_and, hdm, true_implies] at this
        omega
      · intro hh i hi
        simp only [Bool.and_eq_true, decide_eq_true_eq, not_and]
        intro hdm
        have := hh i (List.mem_range.mp hi) hdm
        omega
    rw [← hE, ← hA]
    omega
  refine ⟨by omega, k5, fun j => ?_, k1, fun j hj => ?_, k2, fun j hj hr => ?_⟩
  · rw [k4 j]
    simp only [List.not_mem_nil, false_or, Nat.add_sub_cancel]
    by_cases hj : j < pts.length
    · rw [hpush j hj]; simp [hj]
    · have : gd st.cnt j = 0 := gd_oob _ _ (by rw [h.csize]; omega)
      constructor
      · intro hh; omega
      · intro hh; exact absurd hh.1 hj
  · rw [k3 j, Nat.add_sub_cancel]
    show gd st.cnt j - _ = _
    rw [h.cnt j hj, hocc j hj, hsplit j]
    omega
  · rw [k6 j]
    by_cases he : rk pts j = c
    · rw [if_pos ((hpush j hj).mpr he)]; exact he.symm
    · rw [if_neg (fun hh => he ((hpush j hj).mp hh))]
      exact h.rank j hj (by omega)

/-! ### initial state -/

theorem foldl_set_one (l : List Nat) : ∀ (r : Array Nat), (∀ i ∈ l, i < r.size) →
    (l.foldl (fun r i => r.setIfInBounds i 1) r).size = r.size ∧
    ∀ j, gd (l.foldl (fun r i => r.setIfInBounds i 1) r) j = if j ∈ l then 1 else gd r j := by
  induction l with
  | nil => intro r _; simp
  | cons a l ih =>
    intro r hl
    have ha : a < r.size := hl a (by simp)
    have := ih (r.setIfInBounds a 1) (fun i hi => by simp; exact hl i (by simp [hi]))
    simp only [List.foldl_cons]
    refine ⟨by rw [this.1]; simp, fun j => ?_⟩
    rw [this.2 j, gd_set _ _ _ _ ha]
    by_cases h1 : j ∈ l
    · simp [h1]
    · by_cases h2 : j = a
      · simp [h2]
      · simp [h1, h2]

theorem init_inv {pts : List Pt} {m : Nat} (hd : Dims pts m) (r0 : Array Nat) (h0 : r0.size = pts.length) :
    Inv pts 2 (initState pts r0).1 (initState pts r0).2 := by
  have hcnt : ∀ j, j < pts.length →
      gd (Array.ofFn (n := pts.length) fun i => domCount pts i.val) j = domCount pts j := by
    intro j hj
    unfold gd
    rw [Array.getD_eq_getD_getElem?, Array.getElem?_eq_getElem (by simp; exact hj)]
    simp
  have hone : ∀ j, j < pts.length → (domCount pts j = 0 ↔ rk pts j = 1) := by
    intro j hj
    rw [domCount_eq hd hj, List.countP_eq_zero]
    unfold rk
    rw [rankSpec_eq_one_iff]
    constructor
    · intro hh q hq
      obtain ⟨i, hi, e⟩ := exists_index hq
      have := hh i (List.mem_range.mpr hi)
      simp only [dom, e, Bool.not_eq_true] at this
      exact this
    · intro hh i hi
      have := hh (pt pts i) (pt_mem pts (List.mem_range.mp hi))
      simp [dom, this]
  have hmem : ∀ j, j ∈ (initState pts r0).1 ↔ j < pts.length ∧ rk pts j = 1 := by
    intro j
    simp only [initState, List.mem_filter, List.mem_range, beq_iff_eq]
    constructor
    · rintro ⟨hj, hz⟩
      have := hcnt j hj; unfold gd at this
      exact ⟨hj, (hone j hj).mp (by omega)⟩
    · rintro ⟨hj, hz⟩
      have := hcnt j hj; unfold gd at this
      exact ⟨hj, by rw [this]; exact (hone j hj).mpr hz⟩
  have hfs := foldl_set_one (initState pts r0).1 r0
    (fun i hi => by rw [h0]; exact ((hmem i).mp hi).1)
  refine ⟨by omega, ?_, hmem, ?_, ?_, ?_, ?_⟩
  · exact List.Nodup.sublist List.filter_sublist List.nodup_range
  · simp [initState]
  · intro j hj
    show gd (Array.ofFn (n := pts.length) fun i => domCount pts i.val) j = _
    rw [hcnt j hj, domCount_eq hd hj]
    apply List.countP_congr
    intro i _
    have := rk_pos pts i
    simp; intro _; omega
  · show (List.foldl _ r0 (initState pts r0).1).size = _
    rw [hfs.1, h0]
  · intro j hj hr
    show gd (List.foldl _ r0 (initState pts r0).1) j = _
    have h1 : rk pts j = 1 := by have := rk_pos pts j; omega
    rw [hfs.2 j, if_pos ((hmem j).mpr ⟨hj, h1⟩), h1]

/-! ### the whole loop -/

theorem inv_done {pts : List Pt} {c : Nat} {st : FS} (h : Inv pts c [] st) :
    ∀ j, j < pts.length → gd st.rank j = rk pts j := by
  intro j hj
  have hno : ∀ q ∈ pts, rankSpec pts q ≠ c - 1 := by
    intro q hq he
    obtain ⟨i, hi, e⟩ := exists_index hq
    have := (h.mem i).mpr ⟨hi, by simp [rk, e, he]⟩
    cases this
  have := rankSpec_contiguous pts (c - 1) (by have := h.c2; omega) hno (pt pts j) (pt_mem pts hj)
  exact h.rank j hj (by unfold rk; omega)

theorem loop_spec {pts : List Pt} {m : Nat} (hd : Dims pts m) : ∀ (fuel c : Nat) (front : List Nat) (st : FS),
    Inv pts c front st → pts.length + 3 ≤ fuel + c →
    (loop pts fuel c front st).1 = [] ∧ (loop pts fuel c front st).2.rank.size = pts.length ∧
    ∀ j, j < pts.length → gd (loop pts fuel c front st).2.rank j = rk pts j := by
  intro fuel
  induction fuel with
  | zero =>
    intro c front st h hf
    have hnil : front = [] := by
      apply List.eq_nil_iff_forall_not_mem.mpr
      intro j hj
      have := (h.mem j).mp hj
      have hb := rankSpec_le_length pts (pt pts j)
      unfold rk at this; omega
    subst hnil
    exact ⟨rfl, h.rsize, inv_done h⟩
  | succ fuel ih =>
    intro c front st h hf
    unfold loop
    by_cases he : front.isEmpty
    · simp only [he, if_true]
      have hnil : front = [] := List.isEmpty_iff.mp he
      subst hnil
      exact ⟨rfl, h.rsize, inv_done h⟩
    · simp only [he]
      exact ih (c + 1) _ _ (round_inv hd h) (by omega)

theorem fastSortState_spec {pts : List Pt} {m : Nat} (hd : Dims pts m) (r0 : Array Nat)
    (h0 : r0.size = pts.length) :
    (fastSortState pts r0).1 = [] ∧ (fastSortState pts r0).2.rank.size = pts.length ∧
    ∀ j, j < pts.length → gd (fastSortState pts r0).2.rank j = rk pts j := by
  unfold fastSortState
  exact loop_spec hd _ _ _ _ (init_inv hd r0 h0) (by omega)

theorem fastSort_eq {pts : List Pt} {m : Nat} (hd : Dims pts m) :
    fastSort pts = pts.map (rankSpec pts) := by
  obtain ⟨_, hs, hr⟩ := fastSortState_spec hd (Array.replicate pts.length 0) (by simp)
  unfold fastSort
  apply List.ext_getElem
  · simp [hs]
  · intro i h1 h2
    have hi : i < pts.length := by simpa using h2
    have := hr i hi
    unfold gd at this
    rw [Array.getD_eq_getD_getElem?, Array.getElem?_eq_getElem (by omega)] at this
    simp only [Option.getD_some] at this
    simp only [Array.getElem_toList, List.getElem_map]
    rw [this, rk, pt_eq pts hi]


/-- in every pass a counter is decremented at most as often as its current value: the `size_t`
counters of the C++ never wrap around (so the truncated subtraction of the model is never used at 0) -/
theorem round_counts_le {pts : List Pt} {m : Nat} (hd : Dims pts m) {c : Nat} {front : List Nat} {st : FS}
    (h : Inv pts c front st) (x : Nat) (hx : x < pts.length) :
    (front.flatMap (domList pts)).count x ≤ gd st.cnt x := by
  have hc2 := h.c2
  have hfront : ∀ e ∈ front, e < pts.length := fun e he => ((h.mem e).mp he).1
  rw [count_flatMap_domList hd x hx front hfront,
    countP_of_mem pts.length front (fun j => rk pts j == c - 1) h.nodup (fun j => by rw [h.mem j]; simp) _,
    h.cnt x hx]
  have := countP_split (List.range pts.length) (fun i => dom pts i x) (rk pts) (c - 1)
  omega

end SharkVerif.Pareto
