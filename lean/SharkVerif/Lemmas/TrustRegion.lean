/-
CG–Steihaug (`trustRegionCG` of TrustRegionNewton.cpp, model `Model/TrustRegion.lean`) in exact arithmetic, for a
symmetric Hessian of any definiteness, any gradient, tolerance, radius and number of iterations: the loop keeps
  residual = g + H·step,   residualᵀdirection = -‖residual‖²,   m(step) = gᵀstep + ½ stepᵀH step ≤ 0,
the number returned as "predicted change" at an interior exit is `m(step)`, hence never positive; a boundary exit from a
state `s'` returns `m(s'.step) - τ‖r‖² + ½τ²·dᵀHd`.  Property C10.
-/
import SharkVerif.Lemmas.LBFGS
import SharkVerif.Model.TrustRegion
namespace SharkVerif.BFGS
open SharkVerif.Opt Matrix

theorem vecFn_sub (n : ℕ) (a b : Vec Rat) (ha : a.length = n) (hb : b.length = n) :
    vecFn n (Vec.sub a b) = vecFn n a - vecFn n b := by
  funext i
  have hi : (i : ℕ) < a.length := by rw [ha]; exact i.2
  have hj : (i : ℕ) < b.length := by rw [hb]; exact i.2
  show (List.zipWith (· - ·) a b).getD (i : ℕ) 0 = a.getD (i : ℕ) 0 - b.getD (i : ℕ) 0
  rw [getD_zipWith_of_lt _ _ _ _ hi hj, getD_of_lt _ _ hi, getD_of_lt _ _ hj]

theorem vecFn_smul (n : ℕ) (c : ℚ) (a : Vec Rat) (ha : a.length = n) :
    vecFn n (Vec.smul c a) = c • vecFn n a := by
  funext i
  have hi : (i : ℕ) < a.length := by rw [ha]; exact i.2
  show (a.map (c * ·)).getD (i : ℕ) 0 = c * a.getD (i : ℕ) 0
  rw [getD_map_of_lt _ _ _ hi, getD_of_lt _ _ hi]

theorem vecFn_zeros (n : ℕ) : vecFn n (Vec.zeros n : Vec Rat) = 0 := by
  funext i
  show (List.replicate n (Scalar.zero : Rat)).getD (i : ℕ) 0 = 0
  simp [List.getD_eq_getElem?_getD, zero_eq]

/-- the quadratic model `m(s) = gᵀs + ½ sᵀHs` -/
noncomputable def modelChange {n : ℕ} (M : Matrix (Fin n) (Fin n) ℚ) (G S : Fin n → ℚ) : ℚ := G ⬝ᵥ S + (1/2) * (S ⬝ᵥ (M *ᵥ S))

/-- invariant of the CG–Steihaug loop -/
def TRInv (n : ℕ) (H : Mat Rat) (g : Vec Rat) (s : TR.CGSt Rat) : Prop :=
  s.step.length = n ∧ s.residual.length = n ∧ s.direction.length = n ∧
  vecFn n s.residual = vecFn n g + matFn n H *ᵥ vecFn n s.step ∧
  vecFn n s.residual ⬝ᵥ vecFn n s.direction = -(vecFn n s.residual ⬝ᵥ vecFn n s.residual) ∧
  s.normRes2 = vecFn n s.residual ⬝ᵥ vecFn n s.residual ∧
  modelChange (matFn n H) (vecFn n g) (vecFn n s.step) ≤ 0

/-- what `errorDifference` returns is the model change, whenever `residual = g + H·step` -/
theorem errorDifference_eq (n : ℕ) (H : Mat Rat) (g step residual : Vec Rat) (hg : g.length = n) (hs : step.length = n)
    (hr : residual.length = n) (hR : vecFn n residual = vecFn n g + matFn n H *ᵥ vecFn n step) :
    TR.errorDifference step residual g = modelChange (matFn n H) (vecFn n g) (vecFn n step) := by
  unfold TR.errorDifference modelChange
  rw [dot_eq n _ _ hr hs, dot_eq n _ _ hg hs, hR, add_dotProduct, dotProduct_comm (matFn n H *ᵥ vecFn n step)]
  show (_ + _ + _) / (2 : ℚ) = _
  ring

/-- the model change along `S + a·D` for a symmetric matrix, given `R = G + M S` -/
theorem modelChange_step {n : ℕ} (M : Matrix (Fin n) (Fin n) ℚ) (hsym : Mᵀ = M) (G S D R : Fin n → ℚ) (a : ℚ)
    (hR : R = G + M *ᵥ S) :
    modelChange M G (S + a • D) = modelChange M G S + a * (R ⬝ᵥ D) + (1/2) * a * a * (D ⬝ᵥ (M *ᵥ D)) := by
  have h1 : S ⬝ᵥ (M *ᵥ D) = D ⬝ᵥ (M *ᵥ S) := by
    rw [dotProduct_mulVec, dotProduct_comm, ← mulVec_transpose, hsym]
  unfold modelChange
  rw [hR]
  simp only [dotProduct_add, add_dotProduct, mulVec_add, mulVec_smul, dotProduct_smul, smul_dotProduct, smul_eq_mul, h1,
    dotProduct_comm (M *ᵥ S) D]
  ring

theorem TRInv_update (n : ℕ) (H : Mat Rat) (hH : Dim n H) (hsym : (matFn n H)ᵀ = matFn n H) (g : Vec Rat)
    (s : TR.CGSt Rat) (h : TRInv n H g s) (hpos : 0 < Vec.dot s.direction (Mat.mulVec H s.direction)) (beta : ℚ) :
    TRInv n H g
      ⟨Vec.axpy s.step (s.normRes2 / Vec.dot s.direction (Mat.mulVec H s.direction)) s.direction,
       Vec.axpy s.residual (s.normRes2 / Vec.dot s.direction (Mat.mulVec H s.direction)) (Mat.mulVec H s.direction),
       Vec.sub (Vec.smul beta s.direction)
         (Vec.axpy s.residual (s.normRes2 / Vec.dot s.direction (Mat.mulVec H s.direction)) (Mat.mulVec H s.direction)),
       Vec.normSqr (Vec.axpy s.residual (s.normRes2 / Vec.dot s.direction (Mat.mulVec H s.direction)) (Mat.mulVec H s.direction))⟩ := by
  obtain ⟨hs, hr, hd, hR, hD, hN, hM⟩ := h
  have hHd : (Mat.mulVec H s.direction).length = n := by rw [mulVec_length, hH.1]
  have eHd : vecFn n (Mat.mulVec H s.direction) = matFn n H *ᵥ vecFn n s.direction := mulVec_eq n H _ hH hd
  have enH : Vec.dot s.direction (Mat.mulVec H s.direction) = vecFn n s.direction ⬝ᵥ (matFn n H *ᵥ vecFn n s.direction) := by
    rw [dot_eq n _ _ hd hHd, eHd]
  set nH := Vec.dot s.direction (Mat.mulVec H s.direction) with hnH
  set a := s.normRes2 / nH with ha
  have hs' : (Vec.axpy s.step a s.direction).length = n := by simp [Vec.axpy, hs, hd]
  have hr' : (Vec.axpy s.residual a (Mat.mulVec H s.direction)).length = n := by simp [Vec.axpy, hr, hHd]
  have eS : vecFn n (Vec.axpy s.step a s.direction) = vecFn n s.step + a • vecFn n s.direction := vecFn_axpy n _ _ _ hs hd
  have eR : vecFn n (Vec.axpy s.residual a (Mat.mulVec H s.direction))
      = vecFn n s.residual + a • (matFn n H *ᵥ vecFn n s.direction) := by rw [vecFn_axpy n _ _ _ hr hHd, eHd]
  have hsm : (Vec.smul beta s.direction).length = n := by simp [Vec.smul, hd]
  have eD : vecFn n (Vec.sub (Vec.smul beta s.direction) (Vec.axpy s.residual a (Mat.mulVec H s.direction)))
      = beta • vecFn n s.direction - (vecFn n s.residual + a • (matFn n H *ᵥ vecFn n s.direction)) := by
    rw [vecFn_sub n _ _ hsm hr', vecFn_smul n _ _ hd, eR]
  have hanH : a * nH = vecFn n s.residual ⬝ᵥ vecFn n s.residual := by
    rw [ha, div_mul_cancel₀ _ (ne_of_gt hpos), hN]
  -- R'ᵀD = 0
  have hRD : (vecFn n s.residual + a • (matFn n H *ᵥ vecFn n s.direction)) ⬝ᵥ vecFn n s.direction = 0 := by
    rw [add_dotProduct, smul_dotProduct, smul_eq_mul, hD, dotProduct_comm (matFn n H *ᵥ vecFn n s.direction), ← enH, hanH]; ring
  refine ⟨hs', hr', by simp [Vec.sub, Vec.smul, hd, hr'], ?_, ?_, ?_, ?_⟩
  · rw [eR, eS, hR, mulVec_add, mulVec_smul, add_assoc]
  · rw [eR, eD, dotProduct_sub, dotProduct_smul, smul_eq_mul, hRD]; ring
  · show Vec.dot _ _ = _
    rw [dot_eq n _ _ hr' hr']
  · rw [eS, modelChange_step _ hsym _ _ _ _ a hR, hD, ← enH]
    have h1 : a * -(vecFn n s.residual ⬝ᵥ vecFn n s.residual) + 1 / 2 * a * a * nH
        = -(1/2) * a * (vecFn n s.residual ⬝ᵥ vecFn n s.residual) := by
      rw [← hanH]; ring
    have h2 : 0 ≤ a * (vecFn n s.residual ⬝ᵥ vecFn n s.residual) := by
      rw [← hanH]; have := mul_self_nonneg a; nlinarith [hpos]
    linarith

/-- the two tests that send `trustRegionCG` to the border of the trust region from state `s` -/
def BorderExit (H : Mat Rat) (delta : Rat) (s : TR.CGSt Rat) : Prop :=
  Vec.dot s.direction (Mat.mulVec H s.direction) ≤ 0 ∨
  (0 < Vec.dot s.direction (Mat.mulVec H s.direction) ∧
    delta * delta ≤ Vec.normSqr (Vec.axpy s.step (s.normRes2 / Vec.dot s.direction (Mat.mulVec H s.direction)) s.direction))

/-- **trn_cg_predicts_decrease.**  For a symmetric `n × n` Hessian (no definiteness assumed), every gradient,
tolerance, radius and iteration budget: `cgLoop` started inside the trust region from a state satisfying the invariant
returns a non-positive predicted change, or it left through a boundary exit from a state that still satisfies the
invariant and is still inside. -/
theorem cgLoop_decrease (sqrt : Rat → Rat) (n : ℕ) (H : Mat Rat) (hH : Dim n H) (hsym : (matFn n H)ᵀ = matFn n H)
    (g : Vec Rat) (hg : g.length = n) (tol delta : Rat) :
    ∀ (k : ℕ) (s : TR.CGSt Rat), TRInv n H g s → Vec.normSqr s.step < delta * delta →
      (TR.cgLoop sqrt H g tol delta k s).1 ≤ 0 ∨
      ∃ s', TRInv n H g s' ∧ Vec.normSqr s'.step < delta * delta ∧ BorderExit H delta s' ∧
        TR.cgLoop sqrt H g tol delta k s = TR.toBorder sqrt g delta s' (Mat.mulVec H s'.direction) := by
  intro k
  induction k with
  | zero => intro s _ _; exact Or.inl (by show (Scalar.zero : Rat) ≤ 0; simp [zero_eq])
  | succ k ih =>
    intro s h hin
    unfold TR.cgLoop
    dsimp only
    by_cases h1 : Vec.dot s.direction (Mat.mulVec H s.direction) ≤ (Scalar.zero : Rat)
    · rw [if_pos h1]
      exact Or.inr ⟨s, h, hin, Or.inl (by simpa [zero_eq] using h1), rfl⟩
    · rw [if_neg h1]
      have hpos : 0 < Vec.dot s.direction (Mat.mulVec H s.direction) := by
        have : ¬ Vec.dot s.direction (Mat.mulVec H s.direction) ≤ 0 := by simpa [zero_eq] using h1
        exact not_le.mp this
      split_ifs with h2 h3
      · exact Or.inr ⟨s, h, hin, Or.inr ⟨hpos, h2⟩, rfl⟩
      · have hu := TRInv_update n H hH hsym g s h hpos 0
        left
        show TR.errorDifference _ _ g ≤ 0
        rw [errorDifference_eq n H g _ _ hg hu.1 hu.2.1 hu.2.2.2.1]
        exact hu.2.2.2.2.2.2
      · exact ih _ (TRInv_update n H hH hsym g s h hpos _) (not_le.mp h2)

theorem trustRegionCG_decrease (sqrt : Rat → Rat) (n : ℕ) (H : Mat Rat) (hH : Dim n H) (hsym : (matFn n H)ᵀ = matFn n H)
    (g : Vec Rat) (hg : g.length = n) (tol delta : Rat) (hdelta : delta ≠ 0) :
    (TR.trustRegionCG sqrt H g tol delta).1 ≤ 0 ∨
    ∃ s', TRInv n H g s' ∧ Vec.normSqr s'.step < delta * delta ∧ BorderExit H delta s' ∧
      TR.trustRegionCG sqrt H g tol delta = TR.toBorder sqrt g delta s' (Mat.mulVec H s'.direction) := by
  unfold TR.trustRegionCG
  dsimp only
  split_ifs
  · exact Or.inl (by show (Scalar.zero : Rat) ≤ 0; simp [zero_eq])
  · have hz : (Vec.zeros g.length : Vec Rat).length = n := by simp [Vec.zeros, hg]
    have ez : vecFn n (Vec.zeros g.length : Vec Rat) = 0 := by rw [hg]; exact vecFn_zeros n
    apply cgLoop_decrease sqrt n H hH hsym g hg tol delta
    · refine ⟨hz, hg, by simp [Vec.neg, hg], ?_, ?_, ?_, ?_⟩
      · rw [ez]; simp
      · rw [neg_vecFn n g hg, dotProduct_neg]
      · show Vec.dot g g = _; rw [dot_eq n _ _ hg hg]
      · unfold modelChange; rw [ez]; simp
    · show Vec.dot (Vec.zeros g.length : Vec Rat) (Vec.zeros g.length) < delta * delta
      rw [dot_eq n _ _ hz hz, ez]
      simp only [dotProduct_zero]
      exact mul_self_pos.mpr hdelta

/-- the number a boundary exit returns: `m(step) + τ·rᵀd + ½τ²·dᵀHd` (with `rᵀd = -‖r‖²`) -/
theorem toBorder_value (sqrt : Rat → Rat) (n : ℕ) (H : Mat Rat) (hH : Dim n H) (hsym : (matFn n H)ᵀ = matFn n H)
    (g : Vec Rat) (hg : g.length = n) (delta : Rat) (s : TR.CGSt Rat) (h : TRInv n H g s) :
    (TR.toBorder sqrt g delta s (Mat.mulVec H s.direction)).1
      = modelChange (matFn n H) (vecFn n g) (vecFn n s.step)
        - TR.borderDistance sqrt s.step s.direction delta * s.normRes2
        + (1/2) * TR.borderDistance sqrt s.step s.direction delta * TR.borderDistance sqrt s.step s.direction delta
            * Vec.dot s.direction (Mat.mulVec H s.direction) := by
  obtain ⟨hs, hr, hd, hR, hD, hN, _⟩ := h
  have hHd : (Mat.mulVec H s.direction).length = n := by rw [mulVec_length, hH.1]
  have eHd : vecFn n (Mat.mulVec H s.direction) = matFn n H *ᵥ vecFn n s.direction := mulVec_eq n H _ hH hd
  set tau := TR.borderDistance sqrt s.step s.direction delta
  have hs' : (Vec.axpy s.step tau s.direction).length = n := by simp [Vec.axpy, hs, hd]
  have hr' : (Vec.axpy s.residual tau (Mat.mulVec H s.direction)).length = n := by simp [Vec.axpy, hr, hHd]
  have eS : vecFn n (Vec.axpy s.step tau s.direction) = vecFn n s.step + tau • vecFn n s.direction := vecFn_axpy n _ _ _ hs hd
  have eR : vecFn n (Vec.axpy s.residual tau (Mat.mulVec H s.direction))
      = vecFn n g + matFn n H *ᵥ vecFn n (Vec.axpy s.step tau s.direction) := by
    rw [vecFn_axpy n _ _ _ hr hHd, eHd, eS, hR, mulVec_add, mulVec_smul, add_assoc]
  show TR.errorDifference _ _ g = _
  rw [errorDifference_eq n H g _ _ hg hs' hr' eR, eS, modelChange_step _ hsym _ _ _ _ tau hR, hD, hN,
    dot_eq n _ _ hd hHd, eHd]
  ring

/-- scalar core of the boundary exits: with `z2 = ‖z‖² < δ²`, `d2 = ‖d‖² > 0`, `w = dᵀz` and an exact square root `r ≥ 0` of
the discriminant, `τ = -w/d2 + r` is positive, and not larger than any `α ≥ 0` whose point `z + α·d` is outside or on the
sphere -/
theorem border_tau_bounds (z2 d2 w delta r : ℚ) (hin : z2 < delta * delta) (hd2 : 0 < d2) (hr0 : 0 ≤ r)
    (hr : r * r = (2 * w / d2 / 2) * (2 * w / d2 / 2) - (z2 - delta * delta) / d2) :
    0 < -(2 * w / d2) / 2 + r ∧
    ∀ α : ℚ, 0 ≤ α → delta * delta ≤ z2 + 2 * α * w + α * α * d2 → -(2 * w / d2) / 2 + r ≤ α := by
  have hv : 2 * w / d2 / 2 = w / d2 := by field_simp
  have hv' : -(2 * w / d2) / 2 = -(w / d2) := by field_simp
  rw [hv] at hr; rw [hv']
  set v := w / d2 with hvdef
  set q := (delta * delta - z2) / d2 with hqdef
  have hq : 0 < q := div_pos (by linarith) hd2
  have hrq : r * r = v * v + q := by rw [hr, hqdef]; ring
  -- r > v and r > -v
  have hrv1 : v < r := by
    by_contra h
    have h' : r ≤ v := not_lt.mp h
    have := mul_nonneg (sub_nonneg.mpr h') (add_nonneg (le_trans hr0 h') hr0)
    nlinarith
  have hrv2 : -v < r := by
    by_contra h
    have h' : r ≤ -v := not_lt.mp h
    have := mul_nonneg (sub_nonneg.mpr h') (add_nonneg (le_trans hr0 h') hr0)
    nlinarith
  refine ⟨by linarith, fun α hα hout => ?_⟩
  have hw : w = v * d2 := by rw [hvdef]; field_simp
  have hqd : q * d2 = delta * delta - z2 := by rw [hqdef]; field_simp
  -- q ≤ 2αv + α²
  have h1 : q ≤ 2 * α * v + α * α := by
    have : q * d2 ≤ (2 * α * v + α * α) * d2 := by rw [hqd]; rw [hw] at hout; nlinarith
    exact le_of_mul_le_mul_right this hd2
  have h2 : r * r ≤ (α + v) * (α + v) := by rw [hrq]; nlinarith
  by_contra hlt
  have hlt' : α + v < r := by linarith [not_le.mp hlt]
  by_cases hs : 0 ≤ α + v
  · have := mul_pos (sub_pos.mpr hlt') (add_pos_of_pos_of_nonneg (lt_of_le_of_lt hs hlt') hs)
    nlinarith
  · have hneg : α + v < 0 := not_le.mp hs
    -- r ≤ -(α+v)
    have h3 : r ≤ -(α + v) := by
      by_contra h
      have h' : -(α + v) < r := not_le.mp h
      have := mul_pos (sub_pos.mpr h') (add_pos_of_nonneg_of_pos hr0 (by linarith : 0 < -(α + v)))
      nlinarith
    linarith

theorem normSqr_axpy' : ∀ (z d : Vec Rat) (t : Rat), d.length = z.length →
    Vec.normSqr (Vec.axpy z t d) = Vec.normSqr z + 2 * t * Vec.dot d z + t * t * Vec.normSqr d := by
  intro z
  induction z with
  | nil =>
    intro d t h
    have : d = [] := List.length_eq_zero_iff.mp h
    subst this; simp [Vec.normSqr, Vec.axpy, Vec.dot, zero_eq]
  | cons x xs ih =>
    intro d t h
    match d, h with
    | y :: ys, h =>
      have := ih ys t (by simpa using h)
      simp only [Vec.normSqr, Vec.axpy, List.zipWith_cons_cons] at this ⊢
      rw [dot_cons, dot_cons, dot_cons, dot_cons, this]; ring

/-- **trn_border_predicts_decrease.**  A boundary exit of `trustRegionCG` from a state that satisfies the loop invariant
and lies inside the trust region returns a non-positive predicted change, provided the direction is not the zero vector
and `sqrt` is exact (and non-negative) at the one discriminant `borderDistance` applies it to: the step length `τ` is
then positive and, in the positive-curvature case, at most the unconstrained CG step length `α`. -/
theorem toBorder_nonpos (sqrt : Rat → Rat) (n : ℕ) (H : Mat Rat) (hH : Dim n H) (hsym : (matFn n H)ᵀ = matFn n H)
    (g : Vec Rat) (hg : g.length = n) (delta : Rat) (s : TR.CGSt Rat) (h : TRInv n H g s)
    (hin : Vec.normSqr s.step < delta * delta) (hex : BorderExit H delta s) (hd2 : 0 < Vec.normSqr s.direction)
    (hsq : let p := 2 * Vec.dot s.direction s.step / Vec.normSqr s.direction
           let q := (Vec.normSqr s.step - delta * delta) / Vec.normSqr s.direction
           sqrt ((p / 2) * (p / 2) - q) * sqrt ((p / 2) * (p / 2) - q) = (p / 2) * (p / 2) - q ∧ 0 ≤ sqrt ((p / 2) * (p / 2) - q)) :
    (TR.toBorder sqrt g delta s (Mat.mulVec H s.direction)).1 ≤ 0 := by
  rw [toBorder_value sqrt n H hH hsym g hg delta s h]
  obtain ⟨hs, hr, hd, hR, hD, hN, hM⟩ := h
  have hNnn : 0 ≤ s.normRes2 := by
    rw [hN]; unfold dotProduct; exact Finset.sum_nonneg (fun i _ => mul_self_nonneg _)
  have hb := border_tau_bounds (Vec.normSqr s.step) (Vec.normSqr s.direction) (Vec.dot s.direction s.step) delta
    (sqrt ((2 * Vec.dot s.direction s.step / Vec.normSqr s.direction / 2) * (2 * Vec.dot s.direction s.step / Vec.normSqr s.direction / 2)
      - (Vec.normSqr s.step - delta * delta) / Vec.normSqr s.direction)) hin hd2 hsq.2 hsq.1
  have htau : TR.borderDistance sqrt s.step s.direction delta
      = -(2 * Vec.dot s.direction s.step / Vec.normSqr s.direction) / 2
        + sqrt ((2 * Vec.dot s.direction s.step / Vec.normSqr s.direction / 2) * (2 * Vec.dot s.direction s.step / Vec.normSqr s.direction / 2)
          - (Vec.normSqr s.step - delta * delta) / Vec.normSqr s.direction) := rfl
  rw [← htau] at hb
  set tau := TR.borderDistance sqrt s.step s.direction delta
  set nH := Vec.dot s.direction (Mat.mulVec H s.direction)
  rcases hex with hneg | ⟨hpos, hout⟩
  · have h1 : 0 ≤ tau * s.normRes2 := mul_nonneg hb.1.le hNnn
    have h2 : 1 / 2 * tau * tau * nH ≤ 0 := by
      have : 0 ≤ 1 / 2 * tau * tau := by have := mul_self_nonneg tau; nlinarith
      exact mul_nonpos_of_nonneg_of_nonpos this hneg
    linarith
  · have hα : 0 ≤ s.normRes2 / nH := div_nonneg hNnn hpos.le
    rw [normSqr_axpy' s.step s.direction _ (by rw [hd, hs])] at hout
    have hle := hb.2 _ hα hout
    have hαn : s.normRes2 / nH * nH = s.normRes2 := div_mul_cancel₀ _ (ne_of_gt hpos)
    have h3 : tau * nH ≤ s.normRes2 := by
      have := mul_le_mul_of_nonneg_right hle hpos.le
      linarith
    have h4 : -(tau * s.normRes2) + 1 / 2 * tau * tau * nH ≤ 0 := by
      have : 1 / 2 * tau * tau * nH = (1 / 2 * tau) * (tau * nH) := by ring
      rw [this]
      have h5 : (1 / 2 * tau) * (tau * nH) ≤ (1 / 2 * tau) * s.normRes2 :=
        mul_le_mul_of_nonneg_left h3 (by linarith [hb.1])
      have h6 : 0 ≤ tau * s.normRes2 := mul_nonneg hb.1.le hNnn
      linarith
    linarith

end SharkVerif.BFGS
