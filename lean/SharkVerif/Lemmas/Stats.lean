/-
Lemmas about the batch statistics (`mean`, `variance`, `covariance`) and the component
normalisers of `Model/Trainers.lean`.
-/
import SharkVerif.Lemmas.Trainers
namespace SharkVerif.Trainers

variable {α β : Type}

theorem lsum_map (l : List α) (T : α → β) (f : β → Rat) : lsum (l.map T) f = lsum l (fun a => f (T a)) := by
  induction l with
  | nil => rfl
  | cons a t ih => simp [ih]

theorem flatten_map_map (bs : List (List α)) (T : α → β) :
    (bs.map fun b => b.map T).flatten = bs.flatten.map T := by
  induction bs with
  | nil => rfl
  | cons b bs ih => simp only [List.map_cons, List.flatten_cons, List.map_append, ih]

theorem count_map_map (bs : List (List α)) (T : α → β) : count (bs.map fun b => b.map T) = count bs := by
  induction bs with
  | nil => rfl
  | cons b bs ih => simp [count, ih]

/-- `mean` and `variance` in terms of the flattened data -/
theorem mean_flat (bs : List (List Vec)) (j : Nat) :
    mean bs j = lsum bs.flatten (fun x => x.at j) / (bs.flatten.length : Rat) := by
  simp only [mean, bsum_eq_flatten, count_eq_flatten]

theorem variance_flat (bs : List (List Vec)) (j : Nat) :
    variance bs j = lsum bs.flatten (fun x => (x.at j - mean bs j) * (x.at j - mean bs j)) / (bs.flatten.length : Rat) := by
  simp only [variance, bsum_eq_flatten, count_eq_flatten]

theorem covariance_flat (bs : List (List Vec)) (i j : Nat) :
    covariance bs i j = lsum bs.flatten (fun x => (x.at i - mean bs i) * (x.at j - mean bs j)) / (bs.flatten.length : Rat) := by
  simp only [covariance, bsum_eq_flatten, count_eq_flatten]

theorem variance_nonneg (bs : List (List Vec)) (j : Nat) : 0 ≤ variance bs j := by
  rw [variance_flat]
  apply div_nonneg
  · exact lsum_nonneg (fun x _ => mul_self_nonneg _)
  · exact Nat.cast_nonneg _

/-- a column has variance 0 iff it is constant (equal to its mean) -/
theorem variance_eq_zero_iff (bs : List (List Vec)) (j : Nat) (hne : bs.flatten ≠ []) :
    variance bs j = 0 ↔ ∀ x ∈ bs.flatten, x.at j = mean bs j := by
  have hN : (bs.flatten.length : Rat) ≠ 0 := by
    have : bs.flatten.length ≠ 0 := fun h => hne (List.eq_nil_of_length_eq_zero h)
    exact_mod_cast this
  rw [variance_flat]
  constructor
  · intro h x hx
    have h0 : lsum bs.flatten (fun x => (x.at j - mean bs j) * (x.at j - mean bs j)) = 0 := by
      rcases div_eq_zero_iff.mp h with h | h
      · exact h
      · exact absurd h hN
    have := lsum_eq_zero_of_nonneg (fun x _ => mul_self_nonneg _) h0 x hx
    have := mul_self_eq_zero.mp this
    linarith
  · intro h
    rw [lsum_congr (g := fun _ => 0) (fun x hx => by rw [h x hx]; ring), lsum_zero, zero_div]

/-- mean of a column-wise affine image of the data -/
theorem mean_affine (bs : List (List Vec)) (T : Vec → Vec) (j : Nat) (a b : Rat) (hne : bs.flatten ≠ [])
    (hT : ∀ x ∈ bs.flatten, (T x).at j = a * x.at j + b) :
    mean (bs.map fun B => B.map T) j = a * mean bs j + b := by
  have hN : (bs.flatten.length : Rat) ≠ 0 := by
    have : bs.flatten.length ≠ 0 := fun h => hne (List.eq_nil_of_length_eq_zero h)
    exact_mod_cast this
  rw [mean_flat, mean_flat, flatten_map_map, lsum_map, List.length_map,
    lsum_congr (fun x hx => hT x hx), lsum_add, lsum_mul_left, lsum_const]
  field_simp

/-- variance of a column-wise affine image of the data -/
theorem variance_affine (bs : List (List Vec)) (T : Vec → Vec) (j : Nat) (a b : Rat) (hne : bs.flatten ≠ [])
    (hT : ∀ x ∈ bs.flatten, (T x).at j = a * x.at j + b) :
    variance (bs.map fun B => B.map T) j = a * a * variance bs j := by
  rw [variance_flat, variance_flat, mean_affine bs T j a b hne hT, flatten_map_map, lsum_map, List.length_map,
    lsum_congr (g := fun x => a * a * ((x.at j - mean bs j) * (x.at j - mean bs j)))
      (fun x hx => by rw [hT x hx]; ring),
    lsum_mul_left]
  ring

theorem at_map_range (d j : Nat) (f : Nat → Rat) (hj : j < d) : Vec.at ((List.range d).map f) j = f j := by
  simp [Vec.at, List.getD, hj]

theorem normalizer_apply_at (m : Normalizer) (d j : Nat) (x : Vec) (hj : j < d) :
    (m.apply d x).at j = m.diag j * x.at j + m.offset j := by
  unfold Normalizer.apply
  rw [at_map_range d j _ hj]; rfl

/-! ### running minimum / maximum -/

theorem foldl_min_le_init (t : List Vec) (f : Vec → Rat) (a : Rat) :
    t.foldl (fun m y => min m (f y)) a ≤ a := by
  induction t generalizing a with
  | nil => exact le_refl _
  | cons y t ih => exact le_trans (ih _) (min_le_left _ _)

theorem foldl_min_le_mem (t : List Vec) (f : Vec → Rat) (a : Rat) :
    ∀ y ∈ t, t.foldl (fun m y => min m (f y)) a ≤ f y := by
  induction t generalizing a with
  | nil => intro y hy; simp at hy
  | cons z t ih =>
    intro y hy
    rcases List.mem_cons.mp hy with rfl | hy
    · exact le_trans (foldl_min_le_init t f _) (min_le_right _ _)
    · exact ih _ y hy

theorem foldl_min_attained (t : List Vec) (f : Vec → Rat) (a : Rat) :
    t.foldl (fun m y => min m (f y)) a = a ∨ ∃ y ∈ t, t.foldl (fun m y => min m (f y)) a = f y := by
  induction t generalizing a with
  | nil => left; rfl
  | cons z t ih =>
    simp only [List.foldl_cons]
    rcases ih (min a (f z)) with h | ⟨y, hy, h⟩
    · rcases min_choice a (f z) with h2 | h2
      · left; rw [h, h2]
      · right; exact ⟨z, by simp, by rw [h, h2]⟩
    · right; exact ⟨y, by simp [hy], h⟩

theorem foldl_max_ge_init (t : List Vec) (f : Vec → Rat) (a : Rat) :
    a ≤ t.foldl (fun m y => max m (f y)) a := by
  induction t generalizing a with
  | nil => exact le_refl _
  | cons y t ih => exact le_trans (le_max_left _ _) (ih _)

theorem foldl_max_ge_mem (t : List Vec) (f : Vec → Rat) (a : Rat) :
    ∀ y ∈ t, f y ≤ t.foldl (fun m y => max m (f y)) a := by
  induction t generalizing a with
  | nil => intro y hy; simp at hy
  | cons z t ih =>
    intro y hy
    rcases List.mem_cons.mp hy with rfl | hy
    · exact le_trans (le_max_right _ _) (foldl_max_ge_init t f _)
    · exact ih _ y hy

theorem foldl_max_attained (t : List Vec) (f : Vec → Rat) (a : Rat) :
    t.foldl (fun m y => max m (f y)) a = a ∨ ∃ y ∈ t, t.foldl (fun m y => max m (f y)) a = f y := by
  induction t generalizing a with
  | nil => left; rfl
  | cons z t ih =>
    simp only [List.foldl_cons]
    rcases ih (max a (f z)) with h | ⟨y, hy, h⟩
    · rcases max_choice a (f z) with h2 | h2
      · left; rw [h, h2]
      · right; exact ⟨z, by simp, by rw [h, h2]⟩
    · right; exact ⟨y, by simp [hy], h⟩

theorem colMin_le (bs : List (List Vec)) (j : Nat) : ∀ x ∈ bs.flatten, colMin bs j ≤ x.at j := by
  unfold colMin
  cases h : bs.flatten with
  | nil => intro x hx; simp at hx
  | cons a t =>
    intro x hx
    rcases List.mem_cons.mp hx with rfl | hx
    · exact foldl_min_le_init t _ _
    · exact foldl_min_le_mem t _ _ x hx

theorem colMin_attained (bs : List (List Vec)) (j : Nat) (hne : bs.flatten ≠ []) :
    ∃ x ∈ bs.flatten, x.at j = colMin bs j := by
  unfold colMin
  cases h : bs.flatten with
  | nil => exact absurd h hne
  | cons a t =>
    rcases foldl_min_attained t (fun y => y.at j) (a.at j) with h2 | ⟨y, hy, h2⟩
    · exact ⟨a, by simp, h2.symm⟩
    · exact ⟨y, by simp [hy], h2.symm⟩

theorem le_colMax (bs : List (List Vec)) (j : Nat) : ∀ x ∈ bs.flatten, x.at j ≤ colMax bs j := by
  unfold colMax
  cases h : bs.flatten with
  | nil => intro x hx; simp at hx
  | cons a t =>
    intro x hx
    rcases List.mem_cons.mp hx with rfl | hx
    · exact foldl_max_ge_init t _ _
    · exact foldl_max_ge_mem t _ _ x hx

theorem colMax_attained (bs : List (List Vec)) (j : Nat) (hne : bs.flatten ≠ []) :
    ∃ x ∈ bs.flatten, x.at j = colMax bs j := by
  unfold colMax
  cases h : bs.flatten with
  | nil => exact absurd h hne
  | cons a t =>
    rcases foldl_max_attained t (fun y => y.at j) (a.at j) with h2 | ⟨y, hy, h2⟩
    · exact ⟨a, by simp, h2.symm⟩
    · exact ⟨y, by simp [hy], h2.symm⟩

end SharkVerif.Trainers
