/-
Helper lemmas for C07: what the single loop of `CSvmTrainer::computeBias` (model `SvmTrainer.computeBias`) computes.
-/
import SharkVerif.Lemmas.SmoKkt
import SharkVerif.Model.SvmTrainer
namespace SharkVerif.Smo
open SharkVerif.Qp SharkVerif.SvmTrainer

/-- loop body of `computeBias`: `(lowerBound, upperBound, sum, freeVars)` -/
def biasStep (s : RS) (acc : Rat × Rat × Rat × Nat) (i : Nat) : Rat × Rat × Rat × Nat :=
  let value := s.g i
  if s.boxMin i == s.boxMax i then acc
  else if s.alpha i == s.boxMin i then
    (if value > acc.1 then (value, acc.2.1, acc.2.2.1, acc.2.2.2) else acc)
  else if s.alpha i == s.boxMax i then
    (if value < acc.2.1 then (acc.1, value, acc.2.2.1, acc.2.2.2) else acc)
  else (acc.1, acc.2.1, acc.2.2.1 + value, acc.2.2.2 + 1)

def biasAcc (s : RS) (m : Nat) : Rat × Rat × Rat × Nat :=
  (List.range m).foldl (biasStep s) (-(1.0e100 : Rat), (1.0e100 : Rat), (0.0 : Rat), 0)

theorem computeBias_eq (s : RS) (cnt : Nat → Rat) :
    computeBias s cnt = if s.n = 0 then (0.0 : Rat) else
      if (biasAcc s s.n).2.2.2 > 0 then (biasAcc s s.n).2.2.1 / cnt (biasAcc s s.n).2.2.2
      else (0.5 : Rat) * ((biasAcc s s.n).1 + (biasAcc s s.n).2.1) := rfl

theorem biasAcc_succ (s : RS) (m : Nat) : biasAcc s (m + 1) = biasStep s (biasAcc s m) m := by
  unfold biasAcc; rw [List.range_succ, List.foldl_append]; rfl

/-- "not counted as free" as `computeBias` tests it: empty box interior, or at a bound -/
def atB (s : RS) (k : Nat) : Prop := s.boxMin k = s.boxMax k ∨ s.alpha k = s.boxMin k ∨ s.alpha k = s.boxMax k

instance (s : RS) (k : Nat) : Decidable (atB s k) := by unfold atB; exact inferInstance

structure BiasInv (s : RS) (m : Nat) (acc : Rat × Rat × Rat × Nat) : Prop where
  sum : acc.2.2.1 = rsum (fun k => if atB s k then 0 else s.g k) m
  cnt : (acc.2.2.2 : Rat) = rsum (fun k => if atB s k then 0 else 1) m
  lbU : ∀ k, k < m → s.boxMin k ≠ s.boxMax k → s.alpha k = s.boxMin k → s.g k ≤ acc.1
  ubL : ∀ k, k < m → s.boxMin k ≠ s.boxMax k → s.alpha k ≠ s.boxMin k → s.alpha k = s.boxMax k → acc.2.1 ≤ s.g k
  lbA : acc.1 = -(1.0e100 : Rat) ∨ ∃ k, k < m ∧ s.boxMin k ≠ s.boxMax k ∧ s.alpha k = s.boxMin k ∧ s.g k = acc.1
  ubA : acc.2.1 = (1.0e100 : Rat) ∨
    ∃ k, k < m ∧ s.boxMin k ≠ s.boxMax k ∧ s.alpha k ≠ s.boxMin k ∧ s.alpha k = s.boxMax k ∧ s.g k = acc.2.1

theorem biasInv_all (s : RS) : ∀ m, BiasInv s m (biasAcc s m) := by
  intro m
  induction m with
  | zero =>
    exact ⟨lit0, by simp [biasAcc], fun k hk => by omega, fun k hk => by omega, Or.inl rfl, Or.inl rfl⟩
  | succ m ih =>
    rw [biasAcc_succ]
    generalize biasAcc s m = acc at ih
    obtain ⟨h1, h2, h3, h4, h5, h6⟩ := ih
    have h5' : acc.1 = -(1.0e100 : Rat) ∨
        ∃ k, k < m + 1 ∧ s.boxMin k ≠ s.boxMax k ∧ s.alpha k = s.boxMin k ∧ s.g k = acc.1 := by
      rcases h5 with h5 | ⟨k, hk, hk'⟩
      · exact Or.inl h5
      · exact Or.inr ⟨k, by omega, hk'⟩
    have h6' : acc.2.1 = (1.0e100 : Rat) ∨
        ∃ k, k < m + 1 ∧ s.boxMin k ≠ s.boxMax k ∧ s.alpha k ≠ s.boxMin k ∧ s.alpha k = s.boxMax k ∧ s.g k = acc.2.1 := by
      rcases h6 with h6 | ⟨k, hk, hk'⟩
      · exact Or.inl h6
      · exact Or.inr ⟨k, by omega, hk'⟩
    by_cases hD : s.boxMin m = s.boxMax m
    · have hB : atB s m := Or.inl hD
      have e : biasStep s acc m = acc := by
        unfold biasStep; dsimp only; rw [if_pos (by rw [beq_iff_eq]; exact hD)]
      rw [e]
      refine ⟨by simp only [rsum_succ, hB, if_true, add_zero]; exact h1,
              by simp only [rsum_succ, hB, if_true, add_zero]; exact h2, ?_, ?_, h5', h6'⟩
      · intro k hk hd hk'
        by_cases hkm : k = m
        · subst hkm; exact absurd hD hd
        · exact h3 k (by omega) hd hk'
      · intro k hk hd hk1 hk2
        by_cases hkm : k = m
        · subst hkm; exact absurd hD hd
        · exact h4 k (by omega) hd hk1 hk2
    have hDb : ¬ ((s.boxMin m == s.boxMax m) = true) := by rw [beq_iff_eq]; exact hD
    by_cases hL : s.alpha m = s.boxMin m
    · have hB : atB s m := Or.inr (Or.inl hL)
      have e : biasStep s acc m = if s.g m > acc.1 then (s.g m, acc.2.1, acc.2.2.1, acc.2.2.2) else acc := by
        unfold biasStep; dsimp only; rw [if_neg hDb, if_pos (by rw [beq_iff_eq]; exact hL)]
      rw [e]
      by_cases hc : s.g m > acc.1
      · rw [if_pos hc]
        refine ⟨by simp only [rsum_succ, hB, if_true, add_zero]; exact h1,
                by simp only [rsum_succ, hB, if_true, add_zero]; exact h2, ?_, ?_, ?_, h6'⟩
        · intro k hk hd hk'
          by_cases hkm : k = m
          · subst hkm; exact le_refl _
          · exact le_trans (h3 k (by omega) hd hk') (le_of_lt hc)
        · intro k hk hd hk1 hk2
          by_cases hkm : k = m
          · subst hkm; exact absurd hL hk1
          · exact h4 k (by omega) hd hk1 hk2
        · exact Or.inr ⟨m, Nat.lt_succ_self m, hD, hL, rfl⟩
      · rw [if_neg hc]
        refine ⟨by simp only [rsum_succ, hB, if_true, add_zero]; exact h1,
                by simp only [rsum_succ, hB, if_true, add_zero]; exact h2, ?_, ?_, h5', h6'⟩
        · intro k hk hd hk'
          by_cases hkm : k = m
          · subst hkm; exact not_lt.mp hc
          · exact h3 k (by omega) hd hk'
        · intro k hk hd hk1 hk2
          by_cases hkm : k = m
          · subst hkm; exact absurd hL hk1
          · exact h4 k (by omega) hd hk1 hk2
    · by_cases hU : s.alpha m = s.boxMax m
      · have hB : atB s m := Or.inr (Or.inr hU)
        have e : biasStep s acc m = if s.g m < acc.2.1 then (acc.1, s.g m, acc.2.2.1, acc.2.2.2) else acc := by
          unfold biasStep; dsimp only
          rw [if_neg hDb, if_neg (by rw [beq_iff_eq]; exact hL), if_pos (by rw [beq_iff_eq]; exact hU)]
        rw [e]
        by_cases hc : s.g m < acc.2.1
        · rw [if_pos hc]
          refine ⟨by simp only [rsum_succ, hB, if_true, add_zero]; exact h1,
                  by simp only [rsum_succ, hB, if_true, add_zero]; exact h2, ?_, ?_, h5', ?_⟩
          · intro k hk hd hk'
            by_cases hkm : k = m
            · subst hkm; exact absurd hk' hL
            · exact h3 k (by omega) hd hk'
          · intro k hk hd hk1 hk2
            by_cases hkm : k = m
            · subst hkm; exact le_refl _
            · exact le_trans (le_of_lt hc) (h4 k (by omega) hd hk1 hk2)
          · exact Or.inr ⟨m, Nat.lt_succ_self m, hD, hL, hU, rfl⟩
        · rw [if_neg hc]
          refine ⟨by simp only [rsum_succ, hB, if_true, add_zero]; exact h1,
                  by simp only [rsum_succ, hB, if_true, add_zero]; exact h2, ?_, ?_, h5', h6'⟩
          · intro k hk hd hk'
            by_cases hkm : k = m
            · subst hkm; exact absurd hk' hL
            · exact h3 k (by omega) hd hk'
          · intro k hk hd hk1 hk2
            by_cases hkm : k = m
            · subst hkm; exact not_lt.mp hc
            · exact h4 k (by omega) hd hk1 hk2
      · have hB : ¬ atB s m := fun h => h.elim hD (fun h => h.elim hL hU)
        have e : biasStep s acc m = (acc.1, acc.2.1, acc.2.2.1 + s.g m, acc.2.2.2 + 1) := by
          unfold biasStep; dsimp only
          rw [if_neg hDb, if_neg (by rw [beq_iff_eq]; exact hL), if_neg (by rw [beq_iff_eq]; exact hU)]
        rw [e]
        refine ⟨by simp only [rsum_succ, hB, if_false]; rw [← h1],
                by simp only [rsum_succ, hB, if_false]; rw [← h2]; push_cast; ring, ?_, ?_, h5', h6'⟩
        · intro k hk hd hk'
          by_cases hkm : k = m
          · subst hkm; exact absurd hk' hL
          · exact h3 k (by omega) hd hk'
        · intro k hk hd hk1 hk2
          by_cases hkm : k = m
          · subst hkm; exact absurd hk2 hU
          · exact h4 k (by omega) hd hk1 hk2

/-- no free variable counted ⇒ every variable is at a bound -/
theorem count_zero_all_bound (s : RS) : ∀ m, rsum (fun k => if atB s k then (0 : Rat) else 1) m = 0 →
    ∀ k, k < m → atB s k := by
  intro m
  induction m with
  | zero => intro _ k hk; omega
  | succ m ih =>
    intro h k hk
    rw [rsum_succ] at h
    have hnn : 0 ≤ rsum (fun k => if atB s k then (0 : Rat) else 1) m :=
      rsum_nonneg (fun k _ => by split <;> norm_num)
    by_cases hB : atB s m
    · rw [if_pos hB, add_zero] at h
      by_cases hkm : k = m
      · subst hkm; exact hB
      · exact ih h k (by omega)
    · rw [if_neg hB] at h; linarith

end SharkVerif.Smo
