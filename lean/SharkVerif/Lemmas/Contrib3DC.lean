/-
`HypervolumeContribution3D`, stage C (partial): the geometry of the two cuts.

The x-y faces of the boxes of a front point tile its exclusive 2-D region.  When a new point `p` enters the
front next to it, the region loses the part covered by `p`:
* left neighbour  (`cutBoxesOnTheLeft`):  the part `x ≥ p.f1` — `cutBoxesOnTheLeft_mem`;
* right neighbour (`cutBoxesOnTheRight`): the part `y ≥ p.f2` — `cutBoxesOnTheRight_mem`;
both under the structural invariant of the box lists (`x`-contiguous chain, upper `y` non-increasing),
which the cuts preserve (`cutBoxesOnTheLeft_sorted`, `cutBoxesOnTheRight_chain`).

Core Lean only.
-/
import SharkVerif.Lemmas.Contrib3DB
namespace SharkVerif.HV
open SharkVerif.Pareto

/-- the 2-D cell `(x, y)` lies in the x-y face of the box -/
def Box.has (b : Box) (x y : Int) : Prop := b.l1 ≤ x ∧ x < b.u1 ∧ b.l2 ≤ y ∧ y < b.u2

/-- the 2-D cell `(x, y)` lies in the x-y face of one of the boxes -/
def inBoxes (bs : List Box) (x y : Int) : Prop := ∃ b ∈ bs, b.has x y

theorem inBoxes_nil (x y : Int) : inBoxes [] x y ↔ False := by simp [inBoxes]

theorem inBoxes_cons (b : Box) (bs : List Box) (x y : Int) :
    inBoxes (b :: bs) x y ↔ b.has x y ∨ inBoxes bs x y := by simp [inBoxes]

theorem inBoxes_reverse (bs : List Box) (x y : Int) : inBoxes bs.reverse x y ↔ inBoxes bs x y := by
  simp [inBoxes]

/-! ### the left cut -/

/-- `cutLeftGo` on a list ordered from the back of the deque (decreasing `x`) keeps exactly the cells
with `x < p.f1` -/
theorem cutLeftGo_mem (p : P3) (x y : Int) : ∀ (bs : List Box) (acc : Int),
    bs.Pairwise (fun b b' => b'.u1 ≤ b.l1) → (∀ b ∈ bs, b.l1 ≤ b.u1) →
    (inBoxes (cutLeftGo p bs acc).1 x y ↔ (inBoxes bs x y ∧ x < p.f1))
  | [], acc, _, _ => by simp [cutLeftGo, inBoxes_nil]
  | b :: rest, acc, hs, hw => by
    have hs' := List.pairwise_cons.mp hs
    have hwb := hw b (by simp)
    have hrest : ∀ b' ∈ rest, b'.has x y → x < b.l1 := by
      intro b' hb' hh
      have := hs'.1 b' hb'
      have := hh.2.1
      omega
    unfold cutLeftGo
    split
    · rename_i h1
      rw [cutLeftGo_mem p x y rest _ hs'.2 (fun b' hb' => hw b' (List.mem_cons_of_mem _ hb')), inBoxes_cons]
      constructor
      · rintro ⟨h, hx⟩; exact ⟨Or.inr h, hx⟩
      · rintro ⟨h | h, hx⟩
        · have := h.1; omega
        · exact ⟨h, hx⟩
    · rename_i h1
      split
      · rename_i h2
        simp only [inBoxes_cons]
        constructor
        · rintro (h | h)
          · exact ⟨Or.inl ⟨h.1, by have := h.2.1; simp only at this; omega, h.2.2.1, h.2.2.2⟩, h.2.1⟩
          · obtain ⟨b', hb', hh⟩ := h
            have := hrest b' hb' hh
            exact ⟨Or.inr ⟨b', hb', hh⟩, by omega⟩
        · rintro ⟨h | h, hx⟩
          · exact Or.inl ⟨h.1, hx, h.2.2.1, h.2.2.2⟩
          · exact Or.inr h
      · rename_i h2
        simp only [inBoxes_cons]
        constructor
        · rintro (h | h)
          · exact ⟨Or.inl h, by have := h.2.1; omega⟩
          · obtain ⟨b', hb', hh⟩ := h
            have := hrest b' hb' hh
            exact ⟨Or.inr ⟨b', hb', hh⟩, by omega⟩
        · rintro ⟨h, _⟩; exact h

/-- **left cut**: the boxes of the left neighbour lose exactly the cells with `x ≥ p.f1` -/
theorem cutBoxesOnTheLeft_mem (l : List Box) (p : P3) (x y : Int)
    (hs : l.Pairwise (fun b b' => b.u1 ≤ b'.l1)) (hw : ∀ b ∈ l, b.l1 ≤ b.u1) :
    inBoxes (cutBoxesOnTheLeft l p).1 x y ↔ (inBoxes l x y ∧ x < p.f1) := by
  unfold cutBoxesOnTheLeft
  simp only [inBoxes_reverse]
  rw [cutLeftGo_mem p x y l.reverse 0 (List.pairwise_reverse.mpr hs) (fun b hb => hw b (List.mem_reverse.mp hb)),
    inBoxes_reverse]

/-! ### the right cut -/

/-- structural invariant of a box list (front to back): the x-ranges form a chain starting at `x0`, all lower
`y` are `y0`, the upper `y` are non-increasing and at most `top` -/
def ChainR (y0 : Int) : Int → Int → List Box → Prop
  | _, _, [] => True
  | x0, top, b :: rest => b.l1 = x0 ∧ b.l2 = y0 ∧ b.l1 ≤ b.u1 ∧ b.u2 ≤ top ∧ ChainR y0 b.u1 b.u2 rest

theorem ChainR.le_top {y0 : Int} : ∀ {bs : List Box} {x0 top : Int}, ChainR y0 x0 top bs →
    ∀ b ∈ bs, b.u2 ≤ top
  | [], _, _, _ => by simp
  | b :: rest, x0, top, h => by
    intro b' hb'
    rcases List.mem_cons.mp hb' with rfl | hb'
    · exact h.2.2.2.1
    · have := ChainR.le_top h.2.2.2.2 b' hb'
      have := h.2.2.2.1
      omega

theorem ChainR.mono {y0 : Int} : ∀ {bs : List Box} {x0 top top' : Int}, ChainR y0 x0 top bs → top ≤ top' →
    ChainR y0 x0 top' bs
  | [], _, _, _, _, _ => trivial
  | b :: rest, x0, top, top', h, ht => ⟨h.1, h.2.1, h.2.2.1, by have := h.2.2.2.1; omega, h.2.2.2.2⟩

/-- the loop of `cutBoxesOnTheRight`, started with `xright = x0`: the removed boxes, cut at `y < p.f2`, make up
the rectangle `[x0, xright') × [y0, p.f2)`; the boxes that are kept lie below `p.f2` and form a chain from
`xright'` -/
theorem cutRightGo_mem (p : P3) (y0 : Int) (hy0 : y0 ≤ p.f2) (x y : Int) : ∀ (bs : List Box) (x0 top acc : Int),
    ChainR y0 x0 top bs →
    x0 ≤ (cutRightGo p bs acc x0).2.2 ∧
    ChainR y0 (cutRightGo p bs acc x0).2.2 p.f2 (cutRightGo p bs acc x0).1 ∧
    ((inBoxes bs x y ∧ y < p.f2) ↔
      ((x0 ≤ x ∧ x < (cutRightGo p bs acc x0).2.2 ∧ y0 ≤ y ∧ y < p.f2) ∨
        inBoxes (cutRightGo p bs acc x0).1 x y))
  | [], x0, top, acc, _ => by
    simp only [cutRightGo, inBoxes_nil, false_and, or_false, false_iff, Int.le_refl, true_and, ChainR]
    omega
  | b :: rest, x0, top, acc, h => by
    obtain ⟨h1, h2, h3, h4, h5⟩ := h
    unfold cutRightGo
    split
    · rename_i hu
      refine ⟨Int.le_refl _, ⟨h1, h2, h3, hu, h5⟩, ?_⟩
      constructor
      · rintro ⟨h, _⟩; exact Or.inr h
      · rintro (h | h)
        · simp only at h; omega
        · refine ⟨h, ?_⟩
          obtain ⟨b', hb', hh⟩ := h
          have : b'.u2 ≤ b.u2 := by
            rcases List.mem_cons.mp hb' with rfl | hb'
            · exact Int.le_refl _
            · exact ChainR.le_top h5 b' hb'
          have := hh.2.2.2
          omega
    · rename_i hu
      obtain ⟨i1, i2, i3⟩ := cutRightGo_mem p y0 hy0 x y rest b.u1 b.u2 (acc + { b with u3 := p.f3 }.volume) h5
      refine ⟨by omega, i2, ?_⟩
      rw [inBoxes_cons]
      constructor
      · rintro ⟨h | h, hy⟩
        · obtain ⟨a1, a2, a3, a4⟩ := h
          exact Or.inl ⟨by omega, by omega, by omega, hy⟩
        · rcases i3.mp ⟨h, hy⟩ with h | h
          · exact Or.inl ⟨by omega, h.2.1, h.2.2.1, h.2.2.2⟩
          · exact Or.inr h
      · rintro (h | h)
        · by_cases hx : x < b.u1
          · exact ⟨Or.inl ⟨by omega, hx, by omega, by omega⟩, h.2.2.2⟩
          · have := i3.mpr (Or.inl ⟨by omega, h.2.1, h.2.2.1, h.2.2.2⟩)
            exact ⟨Or.inr this.1, this.2⟩
        · have := i3.mpr (Or.inr h)
          exact ⟨Or.inr this.1, this.2⟩

/-- **right cut**: the boxes of the right neighbour lose exactly the cells with `y ≥ p.f2` -/
theorem cutBoxesOnTheRight_mem (l : List Box) (p right : P3) (top : Int) (x y : Int)
    (hy0 : right.f2 ≤ p.f2) (hc : ChainR right.f2 right.f1 top l) :
    inBoxes (cutBoxesOnTheRight l p right).1 x y ↔ (inBoxes l x y ∧ y < p.f2) := by
  unfold cutBoxesOnTheRight
  split
  · rename_i he
    have : l = [] := by simpa using he
    subst this
    simp [inBoxes_nil]
  · obtain ⟨i1, _, i3⟩ := cutRightGo_mem p right.f2 hy0 x y l right.f1 top 0 hc
    generalize cutRightGo p l 0 right.f1 = res at *
    obtain ⟨l', acc, xr⟩ := res
    simp only at i1 i3 ⊢
    rw [i3]
    split
    · rw [inBoxes_cons]
      simp only [Box.has]
    · rename_i hx
      have : xr = right.f1 := by simpa using hx
      subst this
      constructor
      · intro h; exact Or.inr h
      · rintro (h | h)
        · omega
        · exact h

/-- the right cut preserves the chain structure (now below `p.f2`) -/
theorem cutBoxesOnTheRight_chain (l : List Box) (p right : P3) (top : Int)
    (hy0 : right.f2 ≤ p.f2) (hc : ChainR right.f2 right.f1 top l) :
    ChainR right.f2 right.f1 p.f2 (cutBoxesOnTheRight l p right).1 := by
  unfold cutBoxesOnTheRight
  split
  · rename_i he
    have : l = [] := by simpa using he
    subst this
    trivial
  · obtain ⟨i1, i2, _⟩ := cutRightGo_mem p right.f2 hy0 0 0 l right.f1 top 0 hc
    generalize cutRightGo p l 0 right.f1 = res at *
    obtain ⟨l', acc, xr⟩ := res
    simp only at i1 i2 ⊢
    split
    · exact ⟨rfl, rfl, i1, Int.le_refl _, i2⟩
    · rename_i hx
      have : xr = right.f1 := by simpa using hx
      subst this
      exact i2

/-! ### the chain invariant implies the order used by the left cut -/

theorem ChainR.ge_x0 {y0 : Int} : ∀ {bs : List Box} {x0 top : Int}, ChainR y0 x0 top bs →
    ∀ b ∈ bs, x0 ≤ b.l1
  | [], _, _, _ => by simp
  | b :: rest, x0, top, h => by
    intro b' hb'
    rcases List.mem_cons.mp hb' with rfl | hb'
    · have := h.1; omega
    · have := ChainR.ge_x0 h.2.2.2.2 b' hb'
      have := h.1; have := h.2.2.1
      omega

theorem ChainR.sorted {y0 : Int} : ∀ {bs : List Box} {x0 top : Int}, ChainR y0 x0 top bs →
    bs.Pairwise (fun b b' => b.u1 ≤ b'.l1) ∧ ∀ b ∈ bs, b.l1 ≤ b.u1
  | [], _, _, _ => by simp
  | b :: rest, x0, top, h => by
    obtain ⟨ih1, ih2⟩ := ChainR.sorted h.2.2.2.2
    refine ⟨List.pairwise_cons.mpr ⟨fun b' hb' => ChainR.ge_x0 h.2.2.2.2 b' hb', ih1⟩, ?_⟩
    intro b' hb'
    rcases List.mem_cons.mp hb' with rfl | hb'
    · exact h.2.2.1
    · exact ih2 b' hb'

/-- **left cut** on a chain -/
theorem cutBoxesOnTheLeft_mem_chain (l : List Box) (p : P3) (y0 x0 top : Int) (x y : Int)
    (hc : ChainR y0 x0 top l) :
    inBoxes (cutBoxesOnTheLeft l p).1 x y ↔ (inBoxes l x y ∧ x < p.f1) :=
  cutBoxesOnTheLeft_mem l p x y (ChainR.sorted hc).1 (ChainR.sorted hc).2

/-- the cells of a chain lie in the rectangle `[x0, ∞) × [y0, top)` -/
theorem ChainR.has_bounds {y0 : Int} {bs : List Box} {x0 top : Int} (hc : ChainR y0 x0 top bs) {x y : Int}
    (h : inBoxes bs x y) : x0 ≤ x ∧ y0 ≤ y ∧ y < top := by
  obtain ⟨b, hb, h1, _, h3, h4⟩ := h
  have := ChainR.ge_x0 hc b hb
  have := ChainR.le_top hc b hb
  have hl2 : b.l2 = y0 := by
    clear h1 h3 h4
    induction bs generalizing x0 top with
    | nil => simp at hb
    | cons a rest ih =>
      rcases List.mem_cons.mp hb with rfl | hb'
      · exact hc.2.1
      · exact ih hc.2.2.2.2 hb' (ChainR.ge_x0 hc.2.2.2.2 b hb') (ChainR.le_top hc.2.2.2.2 b hb')
  omega

/-!
### what is still missing for `SweepCorrect` (and hence for the unconditional `contribs3d_eq_spec`)

The loop invariant of `step3c` after `k` iterations on a list `P` (sorted by `f3`, negative coordinates,
mutually non-dominated), `z = P[k-1].f3`, `Q = (P.take k).map toPt3`:

1. `front = sentinelL :: F ++ [sentinelR]`, the entries of `F` are `{P[j] with idx := j}` for pairwise
   different `j < k`, `f1` non-decreasing and `f2` non-increasing along the whole front (equal `f1` only for
   exact duplicates), and every `P[j]`, `j < k`, is weakly dominated in x-y by an entry of `F`;
2. for every `e ∈ F` with left/right neighbours `l`, `g`:  `ChainR e.f2 e.f1 l.f2 boxes[e.idx]`, the chain ends at
   `g.f1`, and `inBoxes boxes[e.idx] x y ↔` the cell `(x, y)` is covered by `proj2 Q[e.idx]` and by no other
   `proj2 Q[j]` — whence `areaSum boxes[e.idx] = ` the slice term of `contribSpec_slices` at every height in
   `[z, P[k].f3)`;
3. `contrib[e.idx] + potential z boxes[e.idx] =` the partial sum of `contribSpec_slices` below `z`
   (`cutBoxesOnTheLeft_potential`, `cutBoxesOnTheRight_potential` and `potential_add` carry it through a step);
   for `j < k` not on the front `contrib[j]` is the full sum (its slice terms vanish from then on);
4. `boxes[j] = []` and `contrib[j] = 0` for `j ≥ k` (including the sentinel index `n`).

Proved here: the effect of the two cuts on the cells (`cutBoxesOnTheLeft_mem_chain`, `cutBoxesOnTheRight_mem`),
preservation of the chain by the right cut (`cutBoxesOnTheRight_chain`), conservation of the potential.
Not proved: preservation of the chain by the left cut, the cells of the boxes created for the new point
(`newBox`, `leftBox` of the dominated points), the front bookkeeping (item 1), the array bookkeeping of
`step3c`/`closeAll` (distinct indices), and the assembly of 1-4 into `SweepCorrect`.
-/

end SharkVerif.HV
