/-
Lemmas for C14: evaluator, population updates, tournament.
-/
import SharkVerif.Model.MOOStep
import SharkVerif.Lemmas.MOOInd
namespace SharkVerif.MOO
open SharkVerif.Pareto SharkVerif.HV

/-! ### box / evaluator -/

/-- `lower ≤ upper` in every coordinate, equal lengths -/
def boxOK : List Int → List Int → Bool
  | l :: lo, h :: hi => decide (l ≤ h) && boxOK lo hi
  | [], [] => true
  | _, _ => false

theorem clampBox_of_feasible : ∀ (lo hi x : List Int), feasible lo hi x = true → clampBox lo hi x = x
  | [], _, _, _ => by simp [clampBox]
  | _ :: _, [], _, _ => by simp [clampBox]
  | _ :: _, _ :: _, [], _ => by simp [clampBox]
  | l :: lo, h :: hi, x :: xs, hf => by
    simp only [feasible, Bool.and_eq_true, decide_eq_true_eq] at hf
    simp only [clampBox, clampBox_of_feasible lo hi xs hf.2]
    congr 1
    omega

theorem feasible_clampBox : ∀ (lo hi x : List Int), boxOK lo hi = true →
    feasible lo hi (clampBox lo hi x) = true
  | [], [], x, _ => by cases x <;> simp [clampBox, feasible]
  | [], _ :: _, _, h => by simp [boxOK] at h
  | _ :: _, [], _, h => by simp [boxOK] at h
  | l :: lo, h :: hi, [], _ => by simp [clampBox, feasible]
  | l :: lo, h :: hi, x :: xs, hb => by
    simp only [boxOK, Bool.and_eq_true, decide_eq_true_eq] at hb
    simp only [clampBox, feasible, Bool.and_eq_true, decide_eq_true_eq]
    refine ⟨⟨?_, ?_⟩, feasible_clampBox lo hi xs hb.2⟩ <;> omega

theorem normSqDiff_self : ∀ x : List Int, normSqDiff x x = 0
  | [] => rfl
  | a :: as => by simp [normSqDiff, normSqDiff_self as]

theorem penEval_unpen (f : List Int → Pt) (lo hi : List Int) (alpha : Int) (x : List Int) :
    (penEval f lo hi alpha x).unpen = f (clampBox lo hi x) := by
  unfold penEval
  by_cases h : feasible lo hi x = true
  · simp [h, clampBox_of_feasible lo hi x h]
  · simp [h]

theorem penEval_x (f : List Int → Pt) (lo hi : List Int) (alpha : Int) (x : List Int) :
    (penEval f lo hi alpha x).x = x := rfl

theorem penEval_pen (f : List Int → Pt) (lo hi : List Int) (alpha : Int) (x : List Int) :
    (penEval f lo hi alpha x).pen =
      (f (clampBox lo hi x)).map (· + alpha * normSqDiff (clampBox lo hi x) x) := by
  unfold penEval
  by_cases h : feasible lo hi x = true
  · simp [h, clampBox_of_feasible lo hi x h]
  · simp [h]

theorem penEval_pen_feasible (f : List Int → Pt) (lo hi : List Int) (alpha : Int) (x : List Int)
    (h : feasible lo hi x = true) : (penEval f lo hi alpha x).pen = f x := by
  rw [penEval_pen, clampBox_of_feasible lo hi x h, normSqDiff_self]
  simp

/-! ### what an update keeps of an individual -/

/-- search point and fitness values (everything but the bookkeeping fields rank / selected) -/
def core (p : Indiv) : List Int × Pt × Pt := (p.x, p.pen, p.unpen)

theorem applySelect_length (ind : List Pt → Indicator) (pop : List Indiv) (mu : Nat) :
    (applySelect ind pop mu).length = pop.length := by simp [applySelect]

theorem applySelect_getD_core (ind : List Pt → Indicator) (pop : List Indiv) (mu : Nat) (i : Nat) (hi : i < pop.length) :
    core ((applySelect ind pop mu).getD i default) = core (pop.getD i default) := by
  simp [applySelect, List.getD_eq_getElem?_getD, List.getElem?_map, List.getElem?_range hi, core]

theorem applySelect_mem (ind : List Pt → Indicator) (pop : List Indiv) (mu : Nat) :
    ∀ q ∈ applySelect ind pop mu, ∃ p ∈ pop, core q = core p := by
  intro q hq
  simp only [applySelect, List.mem_map, List.mem_range] at hq
  obtain ⟨i, hi, e⟩ := hq
  refine ⟨pop.getD i default, ?_, by rw [← e]; rfl⟩
  rw [List.getD_eq_getElem?_getD, List.getElem?_eq_getElem hi]
  exact List.getElem_mem hi

/-! ### std::partition -/

theorem splitLastSel_none : ∀ {l : List Indiv}, splitLastSel l = none → ∀ b ∈ l, b.sel = false
  | [], _, b, hb => by simp at hb
  | a :: t, h, b, hb => by
    simp only [splitLastSel] at h
    cases ht : splitLastSel t with
    | some r => rw [ht] at h; simp at h
    | none =>
      rw [ht] at h
      by_cases ha : a.sel = true
      · simp [ha] at h
      · rcases List.mem_cons.mp hb with rfl | hb
        · simpa using ha
        · exact splitLastSel_none ht b hb

theorem splitLastSel_spec : ∀ {l : List Indiv} {A B : List Indiv} {z : Indiv}, splitLastSel l = some (A, z, B) →
    l = A ++ z :: B ∧ z.sel = true ∧ ∀ b ∈ B, b.sel = false
  | [], _, _, _, h => by simp [splitLastSel] at h
  | a :: t, A, B, z, h => by
    simp only [splitLastSel] at h
    cases ht : splitLastSel t with
    | some r =>
      obtain ⟨A', z', B'⟩ := r
      rw [ht] at h
      simp only [Option.some.injEq, Prod.mk.injEq] at h
      obtain ⟨hA, hz, hB⟩ := h
      subst hA hz hB
      obtain ⟨h1, h2, h3⟩ := splitLastSel_spec ht
      exact ⟨by rw [h1]; rfl, h2, h3⟩
    | none =>
      rw [ht] at h
      by_cases ha : a.sel = true
      · simp only [ha, if_true, Option.some.injEq, Prod.mk.injEq] at h
        obtain ⟨hA, hz, hB⟩ := h
        subst hA hz hB
        exact ⟨rfl, ha, splitLastSel_none ht⟩
      · simp [ha] at h

theorem stdPartition_perm : ∀ (fuel : Nat) (l : List Indiv), (stdPartition fuel l).Perm l
  | 0, l => by simp [stdPartition]
  | _ + 1, [] => by simp [stdPartition]
  | fuel + 1, a :: t => by
    simp only [stdPartition]
    split
    · exact (stdPartition_perm fuel t).cons a
    · split
      · exact List.Perm.refl _
      · rename_i A z B hsp
        obtain ⟨ht, _, _⟩ := splitLastSel_spec hsp
        rw [ht]
        have h1 : (z :: stdPartition fuel A ++ a :: B).Perm (z :: (A ++ a :: B)) :=
          ((stdPartition_perm fuel A).append_right _).cons z
        refine h1.trans ?_
        have h2 : (z :: (A ++ a :: B)).Perm (a :: z :: (A ++ B)) := by
          refine (List.Perm.cons z List.perm_middle).trans (List.Perm.swap a z _)
        refine h2.trans (List.Perm.cons a ?_)
        exact List.perm_middle.symm

theorem stdPartition_length (fuel : Nat) (l : List Indiv) : (stdPartition fuel l).length = l.length :=
  (stdPartition_perm fuel l).length_eq

/-- with enough fuel the result is a block of selected individuals followed by unselected ones -/
theorem stdPartition_blocks : ∀ (fuel : Nat) (l : List Indiv), l.length ≤ fuel →
    ∃ S U, stdPartition fuel l = S ++ U ∧ (∀ s ∈ S, s.sel = true) ∧ (∀ u ∈ U, u.sel = false)
  | 0, l, h => by
    have : l = [] := List.eq_nil_of_length_eq_zero (by omega)
    subst this; exact ⟨[], [], by simp [stdPartition], by simp, by simp⟩
  | _ + 1, [], _ => ⟨[], [], by simp [stdPartition], by simp, by simp⟩
  | fuel + 1, a :: t, h => by
    simp only [List.length_cons] at h
    simp only [stdPartition]
    split
    · rename_i ha
      obtain ⟨S, U, e, hS, hU⟩ := stdPartition_blocks fuel t (by omega)
      refine ⟨a :: S, U, by rw [e]; rfl, ?_, hU⟩
      intro s hs
      rcases List.mem_cons.mp hs with rfl | hs
      · exact ha
      · exact hS s hs
    · rename_i ha
      have ha' : a.sel = false := by simpa using ha
      split
      · rename_i hnone
        refine ⟨[], a :: t, by simp, by simp, ?_⟩
        intro u hu
        rcases List.mem_cons.mp hu with rfl | hu
        · exact ha'
        · exact splitLastSel_none hnone u hu
      · rename_i A z B hsp
        obtain ⟨ht, hz, hB⟩ := splitLastSel_spec hsp
        have hlenA : A.length ≤ fuel := by
          have := congrArg List.length ht
          simp at this; omega
        obtain ⟨S, U, e, hS, hU⟩ := stdPartition_blocks fuel A hlenA
        refine ⟨z :: S, U ++ a :: B, by rw [e]; simp, ?_, ?_⟩
        · intro s hs
          rcases List.mem_cons.mp hs with rfl | hs
          · exact hz
          · exact hS s hs
        · intro u hu
          rcases List.mem_append.mp hu with hu | hu
          · exact hU u hu
          · rcases List.mem_cons.mp hu with rfl | hu
            · exact ha'
            · exact hB u hu

/-! ### TournamentSelection -/

theorem tournament_fold_spec (ranks : List Nat) : ∀ (ds : List Nat) (d : Nat),
    (ds.foldl (fun res c => if ranks.getD c 0 < ranks.getD res 0 then c else res) d ∈ d :: ds) ∧
    ∀ c ∈ d :: ds, ranks.getD (ds.foldl (fun res c => if ranks.getD c 0 < ranks.getD res 0 then c else res) d) 0 ≤ ranks.getD c 0
  | [], d => by simp
  | e :: ds, d => by
    simp only [List.foldl_cons]
    by_cases h : ranks.getD e 0 < ranks.getD d 0
    · simp only [h, if_true]
      obtain ⟨h1, h2⟩ := tournament_fold_spec ranks ds e
      refine ⟨List.mem_cons_of_mem _ h1, ?_⟩
      intro c hc
      rcases List.mem_cons.mp hc with rfl | hc
      · have := h2 e (by simp); omega
      · exact h2 c hc
    · simp only [h, if_false]
      obtain ⟨h1, h2⟩ := tournament_fold_spec ranks ds d
      refine ⟨?_, ?_⟩
      · rcases List.mem_cons.mp h1 with h1 | h1
        · rw [h1]; simp
        · exact List.mem_cons_of_mem _ (List.mem_cons_of_mem _ h1)
      · intro c hc
        rcases List.mem_cons.mp hc with rfl | hc
        · exact h2 _ (by simp)
        · rcases List.mem_cons.mp hc with rfl | hc
          · have := h2 d (by simp); omega
          · exact h2 c (List.mem_cons_of_mem _ hc)

/-! ### steady-state update -/

theorem replaceFirstUnselected_length (o : Indiv) : ∀ l : List Indiv, (replaceFirstUnselected o l).length = l.length
  | [] => rfl
  | p :: ps => by
    simp only [replaceFirstUnselected]
    split <;> simp [replaceFirstUnselected_length o ps]

theorem replaceFirstUnselected_mem (o : Indiv) : ∀ (l : List Indiv), ∀ q ∈ replaceFirstUnselected o l, q = o ∨ q ∈ l
  | [], q, h => by simp [replaceFirstUnselected] at h
  | p :: ps, q, h => by
    simp only [replaceFirstUnselected] at h
    split at h
    · rcases List.mem_cons.mp h with rfl | h
      · right; simp
      · rcases replaceFirstUnselected_mem o ps q h with h | h
        · left; exact h
        · right; exact List.mem_cons_of_mem _ h
    · rcases List.mem_cons.mp h with rfl | h
      · left; rfl
      · right; exact List.mem_cons_of_mem _ h

theorem steadyUpdate_length (ind : List Pt → Indicator) (parents : List Indiv) (o : Indiv) (mu : Nat) :
    (steadyUpdate ind parents o mu).length = parents.length := by
  unfold steadyUpdate
  simp only
  split
  · rw [replaceFirstUnselected_length, List.length_take, applySelect_length]; simp
  · rw [List.length_take, applySelect_length]; simp

theorem steadyUpdate_mem (ind : List Pt → Indicator) (parents : List Indiv) (o : Indiv) (mu : Nat) :
    ∀ q ∈ steadyUpdate ind parents o mu, ∃ p ∈ parents ++ [o], core q = core p := by
  intro q hq
  unfold steadyUpdate at hq
  simp only at hq
  have hlast : (applySelect ind (parents ++ [o]) mu).getD parents.length default ∈ applySelect ind (parents ++ [o]) mu := by
    have hl : parents.length < (applySelect ind (parents ++ [o]) mu).length := by rw [applySelect_length]; simp
    rw [List.getD_eq_getElem?_getD, List.getElem?_eq_getElem hl]
    exact List.getElem_mem hl
  split at hq
  · rcases replaceFirstUnselected_mem _ _ q hq with h | h
    · rw [h]; exact applySelect_mem ind _ mu _ hlast
    · exact applySelect_mem ind _ mu q ((List.take_sublist _ _).subset h)
  · exact applySelect_mem ind _ mu q ((List.take_sublist _ _).subset hq)

theorem sortRankOne_perm : ∀ (fuel : Nat) (l : List Indiv), (sortRankOne fuel l).Perm l
  | 0, l => by simp [sortRankOne]
  | _ + 1, [] => by simp [sortRankOne]
  | _ + 1, [a] => by simp [sortRankOne]
  | fuel + 1, a :: b :: rest => by
    simp only [sortRankOne]
    have hsplit : (b :: rest).dropLast ++ [(b :: rest).getLast (by simp)] = b :: rest :=
      List.dropLast_concat_getLast (by simp)
    split
    · exact (sortRankOne_perm fuel (b :: rest)).cons a
    · split
      · refine ((sortRankOne_perm fuel _).append_right _).trans ?_
        rw [List.cons_append, hsplit]
      · refine ((sortRankOne_perm fuel _).cons _).trans ?_
        have : ((b :: rest).getLast (by simp) :: ((b :: rest).dropLast ++ [a])).Perm
            (a :: ((b :: rest).dropLast ++ [(b :: rest).getLast (by simp)])) := by
          refine (List.Perm.cons _ (List.perm_append_comm)).trans ?_
          refine (List.Perm.swap _ _ _).trans (List.Perm.cons a ?_)
          exact (List.perm_append_comm (l₁ := (b :: rest).dropLast) (l₂ := [_])).symm
        rw [hsplit] at this
        exact this

/-! ### generational update -/

theorem genUpdate_length (ind : List Pt → Indicator) (parents offspring : List Indiv) (mu : Nat)
    (h : mu ≤ parents.length + offspring.length) : (genUpdate ind parents offspring mu).length = mu := by
  unfold genUpdate
  simp only
  rw [List.length_take, stdPartition_length, applySelect_length]
  simp; omega

theorem genUpdate_mem (ind : List Pt → Indicator) (parents offspring : List Indiv) (mu : Nat) :
    ∀ q ∈ genUpdate ind parents offspring mu, ∃ p ∈ parents ++ offspring, core q = core p := by
  intro q hq
  unfold genUpdate at hq
  simp only at hq
  have := (stdPartition_perm _ _).mem_iff.mp ((List.take_sublist _ _).subset hq)
  exact applySelect_mem ind _ mu q this

/-! ### RVEA -/

theorem rveaUpdate_length (parents offspring : List Indiv) (groups : Nat) (grp : List Nat) (apd : List (Option Int)) (mu : Nat)
    (h : mu ≤ parents.length + offspring.length) : (rveaUpdate parents offspring groups grp apd mu).length = mu := by
  unfold rveaUpdate
  simp only
  rw [List.length_take, stdPartition_length]
  simp; omega

theorem rveaUpdate_mem (parents offspring : List Indiv) (groups : Nat) (grp : List Nat) (apd : List (Option Int)) (mu : Nat) :
    ∀ q ∈ rveaUpdate parents offspring groups grp apd mu, ∃ p ∈ parents ++ offspring, core q = core p := by
  intro q hq
  unfold rveaUpdate at hq
  simp only at hq
  have := (stdPartition_perm _ _).mem_iff.mp ((List.take_sublist _ _).subset hq)
  simp only [List.mem_map, List.mem_range] at this
  obtain ⟨i, hi, e⟩ := this
  refine ⟨(parents ++ offspring).getD i default, ?_, by rw [← e]; rfl⟩
  rw [List.getD_eq_getElem?_getD, List.getElem?_eq_getElem hi]
  exact List.getElem_mem hi

/-! ### MOEA/D -/

theorem moead_fold_inv (t : Nat) (weights : List (List Nat)) (z : Pt) (o : Indiv) :
    ∀ (js : List Nat) (ps : List Indiv),
      let r := js.foldl (fun ps j =>
        if tcheb t o.unpen (weights.getD j []) z ≤ tcheb t (ps.getD j default).unpen (weights.getD j []) z
        then ps.set j o else ps) ps
      r.length = ps.length ∧ ∀ q ∈ r, q = o ∨ q ∈ ps
  | [], ps => ⟨rfl, fun q h => Or.inr h⟩
  | j :: js, ps => by
    simp only [List.foldl_cons]
    split
    · obtain ⟨h1, h2⟩ := moead_fold_inv t weights z o js (ps.set j o)
      refine ⟨by rw [h1]; simp, ?_⟩
      intro q hq
      rcases h2 q hq with h | h
      · left; exact h
      · rcases List.mem_or_eq_of_mem_set h with h | h
        · right; exact h
        · left; exact h
    · exact moead_fold_inv t weights z o js ps

theorem moeadUpdate_length (t : Nat) (weights nbh : List (List Nat)) (s : MoeadState) (o : Indiv) :
    (moeadUpdate t weights nbh s o).parents.length = s.parents.length := by
  unfold moeadUpdate
  exact (moead_fold_inv t weights _ o _ _).1

theorem moeadUpdate_mem (t : Nat) (weights nbh : List (List Nat)) (s : MoeadState) (o : Indiv) :
    ∀ q ∈ (moeadUpdate t weights nbh s o).parents, q = o ∨ q ∈ s.parents := by
  unfold moeadUpdate
  exact (moead_fold_inv t weights _ o _ _).2

/-! ### invariants along runs -/

/-- the reported value is the objective at the closest feasible point -/
def Consistent (f : List Int → Pt) (lo hi : List Int) (p : Indiv) : Prop := p.unpen = f (clampBox lo hi p.x)

/-- the search point lies in the box -/
def InBox (lo hi : List Int) (p : Indiv) : Prop := feasible lo hi p.x = true

theorem consistent_of_core {f lo hi} {p q : Indiv} (h : core q = core p) (hp : Consistent f lo hi p) : Consistent f lo hi q := by
  simp only [core, Prod.mk.injEq] at h
  unfold Consistent at *
  rw [h.1, h.2.2]; exact hp

theorem inBox_of_core {lo hi} {p q : Indiv} (h : core q = core p) (hp : InBox lo hi p) : InBox lo hi q := by
  simp only [core, Prod.mk.injEq] at h
  unfold InBox at *
  rw [h.1]; exact hp

theorem penEval_consistent (f : List Int → Pt) (lo hi : List Int) (alpha : Int) (x : List Int) :
    Consistent f lo hi (penEval f lo hi alpha x) := by
  unfold Consistent; rw [penEval_unpen, penEval_x]

theorem penEval_inBox (f : List Int → Pt) (lo hi : List Int) (alpha : Int) (y : List Int) (hb : boxOK lo hi = true) :
    InBox lo hi (penEval f lo hi alpha (clampBox lo hi y)) := by
  unfold InBox; rw [penEval_x]; exact feasible_clampBox lo hi y hb

theorem runSteps_inv (step : List Indiv → List Nat → List Indiv) (Q : Indiv → Prop)
    (hstep : ∀ pop rnd, (∀ p ∈ pop, Q p) → ∀ q ∈ step pop rnd, Q q) :
    ∀ (rnds : List (List Nat)) (pop : List Indiv), (∀ p ∈ pop, Q p) → ∀ q ∈ runSteps step pop rnds, Q q
  | [], pop, h => by simpa [runSteps] using h
  | r :: rs, pop, h => by
    simp only [runSteps]
    exact runSteps_inv step Q hstep rs _ (hstep pop r h)

theorem runSteps_length (step : List Indiv → List Nat → List Indiv) (mu : Nat)
    (hstep : ∀ pop rnd, pop.length = mu → (step pop rnd).length = mu) :
    ∀ (rnds : List (List Nat)) (pop : List Indiv), pop.length = mu → (runSteps step pop rnds).length = mu
  | [], pop, h => by simpa [runSteps] using h
  | r :: rs, pop, h => by
    simp only [runSteps]
    exact runSteps_length step mu hstep rs _ (hstep pop r h)

end SharkVerif.MOO
