/-
C17: kd-tree construction lemmas and `NearestNeighborModel` lemmas.
-/
import SharkVerif.Model.NN
namespace SharkVerif.NN

/-! ## `splitList` / `buildKD` keep the index list -/

theorem filter_not_perm (p : Nat → Prop) [DecidablePred p] (l : List Nat) :
    (l.filter (fun i => decide (p i)) ++ l.filter (fun i => decide (¬ p i))).Perm l := by
  have := List.filter_append_perm (fun i => decide (p i)) l
  simpa using this

theorem splitList_perm {val : Nat → Rat} {idx : List Nat} {s : Split}
    (h : splitList val idx = some s) : (s.left ++ s.right).Perm idx := by
  unfold splitList at h
  simp only at h
  split at h
  · simp only [Option.some.injEq] at h
    subst h
    exact filter_not_perm (fun i => val i < _) idx
  · split at h
    · cases h
    · simp only [Option.some.injEq] at h
      subst h
      exact filter_not_perm (fun i => val i ≤ _) idx

/-- **indexList_perm** (recursive form): the index list of the built tree is a
permutation of the list it was built from -/
theorem buildKD_perm (P : Nat → Point) (dim bucket : Nat) : ∀ (fuel depth : Nat) (idx : List Nat),
    (buildKD P dim bucket fuel depth idx).idx.Perm idx
  | 0, _, idx => by simp [buildKD, STree.idx]
  | fuel + 1, depth, idx => by
    simp only [buildKD]
    split
    · simp [STree.idx]
    · split
      · simp [STree.idx]
      · split
        · simp [STree.idx]
        · rename_i s hs
          simp only [STree.idx]
          exact (List.Perm.append (buildKD_perm P dim bucket fuel _ s.left)
            (buildKD_perm P dim bucket fuel _ s.right)).trans (splitList_perm hs)

/-! ## `NearestNeighborModel`: the decision depends only on the multiset of neighbours -/

theorem voteCounts_perm (numClasses : Nat) {a b : List (Rat × Nat)} (h : a.Perm b) :
    voteCounts numClasses a = voteCounts numClasses b := by
  unfold voteCounts
  apply List.map_congr_left
  intro c _
  exact (h.filter _).length_eq

theorem foldl_add_perm (w : Rat → Rat) (c : Nat) {a b : List (Rat × Nat)} (h : a.Perm b) (z : Rat) :
    a.foldl (fun acc (x : Rat × Nat) => if x.2 = c then ratArith.add acc (w x.1) else acc) z =
    b.foldl (fun acc (x : Rat × Nat) => if x.2 = c then ratArith.add acc (w x.1) else acc) z := by
  apply h.foldl_eq'
  intro x _ y _ z
  simp only [ratArith]
  by_cases hx : x.2 = c <;> by_cases hy : y.2 = c <;> simp [hx, hy] <;> grind

theorem foldl_sum_perm (w : Rat → Rat) {a b : List (Rat × Nat)} (h : a.Perm b) (z : Rat) :
    a.foldl (fun acc (x : Rat × Nat) => ratArith.add acc (w x.1)) z =
    b.foldl (fun acc (x : Rat × Nat) => ratArith.add acc (w x.1)) z := by
  apply h.foldl_eq'
  intro x _ y _ z
  simp only [ratArith]
  grind

theorem softOutput_perm (numClasses : Nat) (w : Rat → Rat) {a b : List (Rat × Nat)} (h : a.Perm b) :
    softOutput ratArith numClasses w a = softOutput ratArith numClasses w b := by
  unfold softOutput
  simp only
  rw [foldl_sum_perm w h]
  apply List.map_congr_left
  intro c _
  rw [foldl_add_perm w c h]

/-! ## `calculateCuttingDimension` -/

theorem foldl_max_spec (f : Nat → Rat) : ∀ (xs : List Nat) (m : Rat),
    m ≤ xs.foldl (fun m i => if m < f i then f i else m) m ∧
    ∀ i ∈ xs, f i ≤ xs.foldl (fun m i => if m < f i then f i else m) m
  | [], m => ⟨Rat.le_refl, by simp⟩
  | x :: xs, m => by
    simp only [List.foldl_cons]
    obtain ⟨h1, h2⟩ := foldl_max_spec f xs (if m < f x then f x else m)
    refine ⟨?_, ?_⟩
    · split at h1 <;> grind
    · intro i hi
      rcases List.mem_cons.mp hi with rfl | hi
      · split at h1 <;> grind
      · exact h2 i hi

theorem foldl_min_spec (f : Nat → Rat) : ∀ (xs : List Nat) (m : Rat),
    xs.foldl (fun m i => if f i < m then f i else m) m ≤ m ∧
    ∀ i ∈ xs, xs.foldl (fun m i => if f i < m then f i else m) m ≤ f i
  | [], m => ⟨Rat.le_refl, by simp⟩
  | x :: xs, m => by
    simp only [List.foldl_cons]
    obtain ⟨h1, h2⟩ := foldl_min_spec f xs (if f x < m then f x else m)
    refine ⟨?_, ?_⟩
    · split at h1 <;> grind
    · intro i hi
      rcases List.mem_cons.mp hi with rfl | hi
      · split at h1 <;> grind
      · exact h2 i hi

theorem le_maxOver (f : Nat → Rat) (idx : List Nat) (i : Nat) (h : i ∈ idx) : f i ≤ maxOver f idx := by
  cases idx with
  | nil => simp at h
  | cons x xs =>
    simp only [maxOver]
    rcases List.mem_cons.mp h with rfl | h
    · exact (foldl_max_spec f xs _).1
    · exact (foldl_max_spec f xs _).2 i h

theorem minOver_le (f : Nat → Rat) (idx : List Nat) (i : Nat) (h : i ∈ idx) : minOver f idx ≤ f i := by
  cases idx with
  | nil => simp at h
  | cons x xs =>
    simp only [minOver]
    rcases List.mem_cons.mp h with rfl | h
    · exact (foldl_min_spec f xs _).1
    · exact (foldl_min_spec f xs _).2 i h

/-- the fold of `calcCutDim`: the second component dominates its start value and the extent of every visited dimension -/
theorem cutFold_spec (ext : Nat → Rat) : ∀ (ds : List Nat) (acc : Nat × Rat),
    acc.2 ≤ (ds.foldl (fun (acc : Nat × Rat) d => if acc.2 < ext d then (d, ext d) else acc) acc).2 ∧
    (∀ d ∈ ds, ext d ≤ (ds.foldl (fun (acc : Nat × Rat) d => if acc.2 < ext d then (d, ext d) else acc) acc).2) ∧
    ((ds.foldl (fun (acc : Nat × Rat) d => if acc.2 < ext d then (d, ext d) else acc) acc).1 = acc.1 ∨
     (ds.foldl (fun (acc : Nat × Rat) d => if acc.2 < ext d then (d, ext d) else acc) acc).1 ∈ ds)
  | [], acc => ⟨Rat.le_refl, by simp, Or.inl rfl⟩
  | x :: xs, acc => by
    simp only [List.foldl_cons]
    obtain ⟨h1, h2, h3⟩ := cutFold_spec ext xs (if acc.2 < ext x then (x, ext x) else acc)
    refine ⟨?_, ?_, ?_⟩
    · split at h1 <;> grind
    · intro d hd
      rcases List.mem_cons.mp hd with rfl | hd
      · split at h1 <;> grind
      · exact h2 d hd
    · split at h3 <;> grind

end SharkVerif.NN
