/-
C04 (deep): `Conv2DModel` (model `Conv` in `Model/Models2.lean`) — batch evaluation equals
row-wise single evaluation, the parameter vector round trips with the reported count, and the
weighted parameter / input derivatives are the true partial derivatives of the
coefficient-weighted output sum `Σ_i Σ_o C i o · out i o`.  All shapes, all batch sizes.
-/
import Mathlib.Analysis.Calculus.Deriv.Add
import Mathlib.Analysis.Calculus.Deriv.Mul
import Mathlib.Algebra.BigOperators.Intervals
import Mathlib.Tactic.Ring
import Mathlib.Tactic.Linarith
import SharkVerif.Model.Models2
import SharkVerif.Lemmas.Models
import SharkVerif.Lemmas.ModelsDeriv
import SharkVerif.Lemmas.LossDeriv
import SharkVerif.Lemmas.ModelsRBF
namespace SharkVerif.Models
open Scalar SharkVerif.Loss Finset

/-! ## 1. exact arithmetic: batch = single, parameter vector round trip -/

/-- batch evaluation is row-wise single evaluation -/
theorem conv_batch_eq_single (tanh : Rat → Rat) (m : Conv Rat) (X : Nat → Nat → Rat) (i o : Nat) :
    m.evalB tanh X i o = m.evalRow tanh (X i) o := rfl

/-- hence a row's output does not depend on the other rows of the batch -/
theorem conv_row_independent (tanh : Rat → Rat) (m : Conv Rat) (X Y : Nat → Nat → Rat) (i o : Nat)
    (h : ∀ j, X i j = Y i j) : m.evalB tanh X i o = m.evalB tanh Y i o := by
  rw [conv_batch_eq_single, conv_batch_eq_single]
  have : X i = Y i := funext h
  rw [this]

theorem conv_params_length (m : Conv Rat) : m.params.length = m.numberOfParameters := by
  unfold Conv.params Conv.numberOfParameters
  simp

theorem rangeMap_getD_eq_take {β : Type} (p : List β) (d : β) (n : Nat) (hp : n ≤ p.length) :
    ((List.range n).map fun k => p.getD k d) = p.take n := by
  apply List.ext_getElem
  · simp; omega
  · intro i h1 h2
    simp only [List.length_map, List.length_range] at h1
    simp only [List.getElem_map, List.getElem_range, List.getElem_take]
    rw [List.getD_eq_getElem?_getD, List.getElem?_eq_getElem (by omega)]
    rfl

theorem conv_params_setParams (m : Conv Rat) (p : List Rat) (hp : p.length = m.numberOfParameters) :
    (m.setParams p).params = p := by
  unfold Conv.numberOfParameters at hp
  show ((List.range (m.nf * m.fsize)).map fun q => p.getD q 0) ++
      ((List.range m.nf).map fun f => p.getD (m.nf * m.fsize + f) 0) = p
  rw [rangeMap_getD_eq_take p 0 _ (by omega), rangeMap_getD_eq_drop p 0 (m.nf * m.fsize) m.nf hp,
    List.take_append_drop]

theorem rangeMap_append_getD {β : Type} (n : Nat) (g : Nat → β) (l : List β) (d : β) (k : Nat)
    (hk : k < n) : ((List.range n).map g ++ l).getD k d = g k := by
  rw [List.getD_eq_getElem?_getD, List.getElem?_append_left (by simpa using hk)]
  simp [hk]

theorem conv_setParams_params_filt (m : Conv Rat) (q : Nat) (hq : q < m.nf * m.fsize) :
    (m.setParams m.params).filt q = m.filt q := by
  show m.params.getD q 0 = m.filt q
  unfold Conv.params
  exact rangeMap_append_getD _ m.filt _ 0 q hq

theorem conv_setParams_params_off (m : Conv Rat) (f : Nat) (hf : f < m.nf) :
    (m.setParams m.params).off f = m.off f := by
  show m.params.getD (m.nf * m.fsize + f) 0 = m.off f
  unfold Conv.params
  exact append_rangeMap_getD _ m.nf m.off 0 _ f (by simp) hf

/-! ## 2. derivatives over `ℝ` -/

/-- copy of `C04.objective_hasDerivAt`: the weighted output sum as a function of one scalar `t`
through the pre-activations; each pre-activation is either constant in `t` or differentiable at
`t0` away from a kink of the activation -/
theorem objective_hasDerivAt' (a : Act) (B nOut : ℕ) (C : ℕ → ℕ → ℝ) (pre : ℝ → ℕ → ℕ → ℝ)
    (pre' : ℕ → ℕ → ℝ) (t0 : ℝ)
    (hcase : ∀ i, i < B → ∀ k, k < nOut → ((∀ t, pre t i k = pre t0 i k) ∧ pre' i k = 0) ∨
      (HasDerivAt (fun t => pre t i k) (pre' i k) t0 ∧
        ((a = .rectifier ∨ a = .fastSigmoid) → pre t0 i k ≠ 0))) :
    HasDerivAt (fun t => ∑ i ∈ range B, ∑ k ∈ range nOut, C i k * a.eval Real.tanh (pre t i k))
      (∑ i ∈ range B, ∑ k ∈ range nOut, C i k * a.dfac (a.eval Real.tanh (pre t0 i k)) * pre' i k) t0 := by
  apply HasDerivAt.fun_sum
  intro i hi
  apply HasDerivAt.fun_sum
  intro k hk
  rcases hcase i (Finset.mem_range.1 hi) k (Finset.mem_range.1 hk) with ⟨hconst, hz⟩ | ⟨hd, hnk⟩
  · have : (fun t => C i k * a.eval Real.tanh (pre t i k)) = fun _ => C i k * a.eval Real.tanh (pre t0 i k) := by
      funext t; rw [hconst t]
    rw [this, hz, mul_zero]
    exact hasDerivAt_const _ _
  · have hact := act_hasDerivAt a (pre t0 i k) hnk
    have hcomp : HasDerivAt (fun t => a.eval Real.tanh (pre t i k))
        (a.dfac (a.eval Real.tanh (pre t0 i k)) * pre' i k) t0 :=
      HasDerivAt.comp (h₂ := a.eval Real.tanh) t0 hact hd
    have := hcomp.const_mul (C i k)
    have e : C i k * a.dfac (a.eval Real.tanh (pre t0 i k)) * pre' i k
        = C i k * (a.dfac (a.eval Real.tanh (pre t0 i k)) * pre' i k) := by ring
    rw [e]; exact this

/-- no pre-activation of the batch sits on a kink of the activation (rectifier / fast sigmoid at 0) -/
def ConvNoKink (m : Conv ℝ) (B : ℕ) (X : ℕ → ℕ → ℝ) : Prop :=
  ∀ i, i < B → ∀ o, o < m.nOut → (m.act = .rectifier ∨ m.act = .fastSigmoid) → m.pre (X i) o ≠ 0

theorem conv_pre_eq (m : Conv ℝ) (x : ℕ → ℝ) (o : ℕ) :
    m.pre x o = (∑ t ∈ range m.fsize, m.inputAt x (o / m.nf) t * m.filt ((o % m.nf) * m.fsize + t))
      + m.off (o % m.nf) := by
  unfold Conv.pre; rw [sumR_eq_finset]

/-- the gathered input entry is linear in each input coordinate: slope 1 iff the tap reads it -/
theorem conv_inputAt_hasDerivAt (m : Conv ℝ) (x : ℕ → ℝ) (j0 pix tap : ℕ) :
    HasDerivAt (fun t => m.inputAt (fun j => if j = j0 then t else x j) pix tap)
      (if m.tapIndex pix tap = some j0 then 1 else 0) (x j0) := by
  unfold Conv.inputAt
  cases h : m.tapIndex pix tap with
  | none => simp only [reduceCtorEq, ↓reduceIte]; exact hasDerivAt_const _ _
  | some j =>
    by_cases hj : j = j0
    · subst hj; simp only [↓reduceIte]; exact hasDerivAt_id' _
    · have : ¬ (some j = some j0) := fun e => hj (Option.some.inj e)
      simp only [hj, this, ↓reduceIte]; exact hasDerivAt_const _ _

/-- **weighted input derivative**: `gradX` at `(i0,j0)` is the partial derivative of the weighted
output sum w.r.t. the input entry `X[i0][j0]` -/
theorem conv_input_derivative_correct (m : Conv ℝ) (B : ℕ) (X C : ℕ → ℕ → ℝ) (i0 j0 : ℕ)
    (hi0 : i0 < B) (hnk : ConvNoKink m B X) :
    HasDerivAt (fun t => ∑ i ∈ range B, ∑ o ∈ range m.nOut,
        C i o * m.evalB Real.tanh (fun i j => if i = i0 ∧ j = j0 then t else X i j) i o)
      (m.gradX (m.evalB Real.tanh X) C i0 j0) (X i0 j0) := by
  have hat : ∀ i, (fun j => if i = i0 ∧ j = j0 then X i0 j0 else X i j) = X i := by
    intro i; funext j
    split
    · rename_i h; rw [h.1, h.2]
    · rfl
  have hcase : ∀ i, i < B → ∀ o, o < m.nOut →
      ((∀ t, m.pre (fun j => if i = i0 ∧ j = j0 then t else X i j) o
          = m.pre (fun j => if i = i0 ∧ j = j0 then X i0 j0 else X i j) o) ∧
        (if i = i0 then ∑ tap ∈ range m.fsize,
          (if m.tapIndex (o / m.nf) tap = some j0 then 1 else 0) * m.filt ((o % m.nf) * m.fsize + tap) else 0) = 0) ∨
      (HasDerivAt (fun t => m.pre (fun j => if i = i0 ∧ j = j0 then t else X i j) o)
          (if i = i0 then ∑ tap ∈ range m.fsize,
            (if m.tapIndex (o / m.nf) tap = some j0 then 1 else 0) * m.filt ((o % m.nf) * m.fsize + tap) else 0)
          (X i0 j0) ∧
        ((m.act = .rectifier ∨ m.act = .fastSigmoid) →
          m.pre (fun j => if i = i0 ∧ j = j0 then X i0 j0 else X i j) o ≠ 0)) := by
    intro i hi o ho
    by_cases hii : i = i0
    · right
      subst hii
      refine ⟨?_, ?_⟩
      · simp only [true_and, ↓reduceIte]
        have hfun : (fun t => m.pre (fun j => if j = j0 then t else X i j) o) = fun t =>
            (∑ tap ∈ range m.fsize, m.inputAt (fun j => if j = j0 then t else X i j) (o / m.nf) tap
              * m.filt ((o % m.nf) * m.fsize + tap)) + m.off (o % m.nf) := by
          funext t; rw [conv_pre_eq]
        rw [hfun]
        apply HasDerivAt.add_const
        apply HasDerivAt.fun_sum
        intro tap _
        exact (conv_inputAt_hasDerivAt m (X i) j0 (o / m.nf) tap).mul_const _
      · intro ha; rw [hat]; exact hnk i hi o ho ha
    · left
      refine ⟨?_, by simp [hii]⟩
      intro t; simp only [hii, false_and, ↓reduceIte]
  have h := objective_hasDerivAt' m.act B m.nOut C
    (fun t i o => m.pre (fun j => if i = i0 ∧ j = j0 then t else X i j) o)
    (fun i o => if i = i0 then ∑ tap ∈ range m.fsize,
      (if m.tapIndex (o / m.nf) tap = some j0 then 1 else 0) * m.filt ((o % m.nf) * m.fsize + tap) else 0)
    (X i0 j0) hcase
  have hval : (∑ i ∈ range B, ∑ o ∈ range m.nOut,
      C i o * m.act.dfac (m.act.eval Real.tanh (m.pre (fun j => if i = i0 ∧ j = j0 then X i0 j0 else X i j) o)) *
        (if i = i0 then ∑ tap ∈ range m.fsize,
          (if m.tapIndex (o / m.nf) tap = some j0 then 1 else 0) * m.filt ((o % m.nf) * m.fsize + tap) else 0))
      = m.gradX (m.evalB Real.tanh X) C i0 j0 := by
    have hrow : ∀ i ∈ range B, (∑ o ∈ range m.nOut,
        C i o * m.act.dfac (m.act.eval Real.tanh (m.pre (fun j => if i = i0 ∧ j = j0 then X i0 j0 else X i j) o)) *
          (if i = i0 then ∑ tap ∈ range m.fsize,
            (if m.tapIndex (o / m.nf) tap = some j0 then 1 else 0) * m.filt ((o % m.nf) * m.fsize + tap) else 0))
        = if i = i0 then m.gradX (m.evalB Real.tanh X) C i0 j0 else 0 := by
      intro i _
      simp only [hat]
      by_cases hii : i = i0
      · subst hii
        simp only [↓reduceIte]
        unfold Conv.gradX Conv.delta Conv.evalB Conv.evalRow
        rw [sumR_eq_finset]
        apply Finset.sum_congr rfl
        intro o _
        rw [sumR_eq_finset, Finset.mul_sum]
        apply Finset.sum_congr rfl
        intro tap _
        split <;> ring
      · simp [hii]
    rw [Finset.sum_congr rfl hrow, Finset.sum_ite_eq' (range B) i0]
    simp [hi0]
  rw [← hval]
  exact h

/-! ### re-indexing the flat output index `o = pix*nf + f` -/

theorem sum_range_mul_eq (P n : ℕ) (g : ℕ → ℝ) :
    ∑ o ∈ range (P * n), g o = ∑ pix ∈ range P, ∑ f ∈ range n, g (pix * n + f) := by
  induction P with
  | zero => simp
  | succ P ih =>
    rw [Nat.succ_mul, Finset.sum_range_add, ih, Finset.sum_range_succ]

theorem mul_add_mod_lt (pix n f : ℕ) (hf : f < n) : (pix * n + f) % n = f := by
  rw [Nat.mul_comm, Nat.mul_add_mod, Nat.mod_eq_of_lt hf]

theorem mul_add_div_lt (pix n f : ℕ) (hf : f < n) : (pix * n + f) / n = pix := by
  rw [Nat.mul_comm, Nat.mul_add_div (by omega), Nat.div_eq_of_lt hf, Nat.add_zero]

/-- **weighted parameter derivative, offset part**: `gradOff` at `f0` is the partial derivative of
the weighted output sum w.r.t. the offset entry `off[f0]` -/
theorem conv_offset_derivative_correct (m : Conv ℝ) (B : ℕ) (X C : ℕ → ℕ → ℝ) (f0 : ℕ)
    (hf0 : f0 < m.nf) (hnk : ConvNoKink m B X) :
    HasDerivAt (fun t => ∑ i ∈ range B, ∑ o ∈ range m.nOut,
        C i o * ({ m with off := fun f => if f = f0 then t else m.off f } : Conv ℝ).evalB Real.tanh X i o)
      (m.gradOff B (m.evalB Real.tanh X) C f0) (m.off f0) := by
  have hpreT : ∀ t i o, ({ m with off := fun f => if f = f0 then t else m.off f } : Conv ℝ).pre (X i) o =
      (∑ tap ∈ range m.fsize, m.inputAt (X i) (o / m.nf) tap * m.filt ((o % m.nf) * m.fsize + tap))
        + (if o % m.nf = f0 then t else m.off (o % m.nf)) := by
    intro t i o; rw [conv_pre_eq]; rfl
  have hat : ∀ i o, ({ m with off := fun f => if f = f0 then m.off f0 else m.off f } : Conv ℝ).pre (X i) o
      = m.pre (X i) o := by
    intro i o; rw [hpreT, conv_pre_eq]; congr 1
    split
    · rename_i h; rw [h]
    · rfl
  have hcase : ∀ i, i < B → ∀ o, o < m.nOut →
      ((∀ t, ({ m with off := fun f => if f = f0 then t else m.off f } : Conv ℝ).pre (X i) o
          = ({ m with off := fun f => if f = f0 then m.off f0 else m.off f } : Conv ℝ).pre (X i) o) ∧
        (if o % m.nf = f0 then (1:ℝ) else 0) = 0) ∨
      (HasDerivAt (fun t => ({ m with off := fun f => if f = f0 then t else m.off f } : Conv ℝ).pre (X i) o)
          (if o % m.nf = f0 then (1:ℝ) else 0) (m.off f0) ∧
        ((m.act = .rectifier ∨ m.act = .fastSigmoid) →
          ({ m with off := fun f => if f = f0 then m.off f0 else m.off f } : Conv ℝ).pre (X i) o ≠ 0)) := by
    intro i hi o ho
    right
    refine ⟨?_, ?_⟩
    · simp only [hpreT]
      apply HasDerivAt.const_add
      by_cases h : o % m.nf = f0
      · simp only [h, ↓reduceIte]; exact hasDerivAt_id' _
      · simp only [h, ↓reduceIte]; exact hasDerivAt_const _ _
    · intro ha; rw [hat]; exact hnk i hi o ho ha
  have h := objective_hasDerivAt' m.act B m.nOut C
    (fun t i o => ({ m with off := fun f => if f = f0 then t else m.off f } : Conv ℝ).pre (X i) o)
    (fun _ o => if o % m.nf = f0 then 1 else 0) (m.off f0) hcase
  have hval : (∑ i ∈ range B, ∑ o ∈ range m.nOut,
      C i o * m.act.dfac (m.act.eval Real.tanh
        (({ m with off := fun f => if f = f0 then m.off f0 else m.off f } : Conv ℝ).pre (X i) o)) *
        (if o % m.nf = f0 then (1:ℝ) else 0))
      = m.gradOff B (m.evalB Real.tanh X) C f0 := by
    simp only [hat]
    unfold Conv.gradOff Conv.delta Conv.evalB Conv.evalRow Conv.nOut
    rw [sumR_eq_finset]
    apply Finset.sum_congr rfl
    intro i _
    rw [sumR_eq_finset, sum_range_mul_eq]
    apply Finset.sum_congr rfl
    intro pix _
    have hin : ∀ f ∈ range m.nf,
        C i (pix * m.nf + f) * m.act.dfac (m.act.eval Real.tanh (m.pre (X i) (pix * m.nf + f))) *
          (if (pix * m.nf + f) % m.nf = f0 then (1:ℝ) else 0)
        = if f = f0 then C i (pix * m.nf + f0) * m.act.dfac (m.act.eval Real.tanh (m.pre (X i) (pix * m.nf + f0))) else 0 := by
      intro f hf
      rw [mul_add_mod_lt pix m.nf f (Finset.mem_range.1 hf)]
      by_cases hff : f = f0
      · subst hff; simp
      · simp [hff]
    rw [Finset.sum_congr rfl hin, Finset.sum_ite_eq' (range m.nf) f0]
    simp [hf0]
  rw [← hval]
  exact h

/-- for a tap `t < fsize`: filter entry `f*fsize + t` is `q0` iff `f = q0 / fsize` and `t = q0 % fsize` -/
theorem filt_index_eq_iff (fsize f t q0 : ℕ) (ht : t < fsize) :
    f * fsize + t = q0 ↔ f = q0 / fsize ∧ t = q0 % fsize := by
  constructor
  · intro h; subst h
    exact ⟨(mul_add_div_lt f fsize t ht).symm, (mul_add_mod_lt f fsize t ht).symm⟩
  · rintro ⟨h1, h2⟩
    rw [h1, h2, Nat.mul_comm]; exact Nat.div_add_mod q0 fsize

/-- **weighted parameter derivative, filter part**: `gradFilt` at `q0` is the partial derivative of
the weighted output sum w.r.t. the filter entry `filt[q0]` -/
theorem conv_filter_derivative_correct (m : Conv ℝ) (B : ℕ) (X C : ℕ → ℕ → ℝ) (q0 : ℕ)
    (hq0 : q0 < m.nf * m.fsize) (hfs : 0 < m.fsize) (hnk : ConvNoKink m B X) :
    HasDerivAt (fun t => ∑ i ∈ range B, ∑ o ∈ range m.nOut,
        C i o * ({ m with filt := fun q => if q = q0 then t else m.filt q } : Conv ℝ).evalB Real.tanh X i o)
      (m.gradFilt B X (m.evalB Real.tanh X) C q0) (m.filt q0) := by
  have hpreT : ∀ t i o, ({ m with filt := fun q => if q = q0 then t else m.filt q } : Conv ℝ).pre (X i) o =
      (∑ tap ∈ range m.fsize, m.inputAt (X i) (o / m.nf) tap *
          (if (o % m.nf) * m.fsize + tap = q0 then t else m.filt ((o % m.nf) * m.fsize + tap)))
        + m.off (o % m.nf) := by
    intro t i o; rw [conv_pre_eq]; rfl
  have hat : ∀ i o, ({ m with filt := fun q => if q = q0 then m.filt q0 else m.filt q } : Conv ℝ).pre (X i) o
      = m.pre (X i) o := by
    intro i o; rw [hpreT, conv_pre_eq]; congr 1
    apply Finset.sum_congr rfl
    intro tap _
    split
    · rename_i h; rw [h]
    · rfl
  have hcase : ∀ i, i < B → ∀ o, o < m.nOut →
      ((∀ t, ({ m with filt := fun q => if q = q0 then t else m.filt q } : Conv ℝ).pre (X i) o
          = ({ m with filt := fun q => if q = q0 then m.filt q0 else m.filt q } : Conv ℝ).pre (X i) o) ∧
        (∑ tap ∈ range m.fsize, m.inputAt (X i) (o / m.nf) tap *
          (if (o % m.nf) * m.fsize + tap = q0 then (1:ℝ) else 0)) = 0) ∨
      (HasDerivAt (fun t => ({ m with filt := fun q => if q = q0 then t else m.filt q } : Conv ℝ).pre (X i) o)
          (∑ tap ∈ range m.fsize, m.inputAt (X i) (o / m.nf) tap *
            (if (o % m.nf) * m.fsize + tap = q0 then (1:ℝ) else 0)) (m.filt q0) ∧
        ((m.act = .rectifier ∨ m.act = .fastSigmoid) →
          ({ m with filt := fun q => if q = q0 then m.filt q0 else m.filt q } : Conv ℝ).pre (X i) o ≠ 0)) := by
    intro i hi o ho
    right
    refine ⟨?_, ?_⟩
    · simp only [hpreT]
      apply HasDerivAt.add_const
      apply HasDerivAt.fun_sum
      intro tap _
      apply HasDerivAt.const_mul
      by_cases h : (o % m.nf) * m.fsize + tap = q0
      · simp only [h, ↓reduceIte]; exact hasDerivAt_id' _
      · simp only [h, ↓reduceIte]; exact hasDerivAt_const _ _
    · intro ha; rw [hat]; exact hnk i hi o ho ha
  have h := objective_hasDerivAt' m.act B m.nOut C
    (fun t i o => ({ m with filt := fun q => if q = q0 then t else m.filt q } : Conv ℝ).pre (X i) o)
    (fun i o => ∑ tap ∈ range m.fsize, m.inputAt (X i) (o / m.nf) tap *
      (if (o % m.nf) * m.fsize + tap = q0 then (1:ℝ) else 0)) (m.filt q0) hcase
  have hqf : q0 / m.fsize < m.nf := by
    apply Nat.div_lt_of_lt_mul; rw [Nat.mul_comm]; exact hq0
  have hqt : q0 % m.fsize < m.fsize := Nat.mod_lt _ hfs
  have hval : (∑ i ∈ range B, ∑ o ∈ range m.nOut,
      C i o * m.act.dfac (m.act.eval Real.tanh
        (({ m with filt := fun q => if q = q0 then m.filt q0 else m.filt q } : Conv ℝ).pre (X i) o)) *
        (∑ tap ∈ range m.fsize, m.inputAt (X i) (o / m.nf) tap *
          (if (o % m.nf) * m.fsize + tap = q0 then (1:ℝ) else 0)))
      = m.gradFilt B X (m.evalB Real.tanh X) C q0 := by
    simp only [hat]
    unfold Conv.gradFilt Conv.delta Conv.evalB Conv.evalRow Conv.nOut
    rw [sumR_eq_finset]
    apply Finset.sum_congr rfl
    intro i _
    rw [sumR_eq_finset, sum_range_mul_eq]
    apply Finset.sum_congr rfl
    intro pix _
    have hin : ∀ f ∈ range m.nf,
        C i (pix * m.nf + f) * m.act.dfac (m.act.eval Real.tanh (m.pre (X i) (pix * m.nf + f))) *
          (∑ tap ∈ range m.fsize, m.inputAt (X i) ((pix * m.nf + f) / m.nf) tap *
            (if ((pix * m.nf + f) % m.nf) * m.fsize + tap = q0 then (1:ℝ) else 0))
        = if f = q0 / m.fsize then
            C i (pix * m.nf + q0 / m.fsize) *
              m.act.dfac (m.act.eval Real.tanh (m.pre (X i) (pix * m.nf + q0 / m.fsize))) *
              m.inputAt (X i) pix (q0 % m.fsize) else 0 := by
      intro f hf
      rw [mul_add_mod_lt pix m.nf f (Finset.mem_range.1 hf), mul_add_div_lt pix m.nf f (Finset.mem_range.1 hf)]
      have htap : ∀ tap ∈ range m.fsize, m.inputAt (X i) pix tap *
            (if f * m.fsize + tap = q0 then (1:ℝ) else 0)
          = if tap = q0 % m.fsize then (if f = q0 / m.fsize then m.inputAt (X i) pix (q0 % m.fsize) else 0) else 0 := by
        intro tap htap
        have hiff := filt_index_eq_iff m.fsize f tap q0 (Finset.mem_range.1 htap)
        by_cases hc : f * m.fsize + tap = q0
        · obtain ⟨h1, h2⟩ := hiff.1 hc
          simp only [hc, ↓reduceIte, mul_one]
          rw [if_pos h2, if_pos h1, h2]
        · simp only [hc, ↓reduceIte, mul_zero]
          by_cases h2 : tap = q0 % m.fsize
          · by_cases h1 : f = q0 / m.fsize
            · exact absurd (hiff.2 ⟨h1, h2⟩) hc
            · rw [if_pos h2, if_neg h1]
          · rw [if_neg h2]
      rw [Finset.sum_congr rfl htap, Finset.sum_ite_eq' (range m.fsize) (q0 % m.fsize)]
      simp only [Finset.mem_range, hqt, ↓reduceIte]
      by_cases h1 : f = q0 / m.fsize
      · subst h1; simp
      · simp [h1]
    rw [Finset.sum_congr rfl hin, Finset.sum_ite_eq' (range m.nf) (q0 / m.fsize)]
    simp [hqf]
  rw [← hval]
  exact h

/-! ### positions in the parameter / gradient vector -/

theorem conv_gradParams_filt_pos (m : Conv ℝ) (B : ℕ) (X out C : ℕ → ℕ → ℝ) (q0 : ℕ)
    (hq0 : q0 < m.nf * m.fsize) :
    (m.gradParams B X out C).getD q0 0 = m.gradFilt B X out C q0 := by
  unfold Conv.gradParams
  exact rangeMap_append_getD _ _ _ 0 q0 hq0

theorem conv_gradParams_off_pos (m : Conv ℝ) (B : ℕ) (X out C : ℕ → ℕ → ℝ) (f0 : ℕ) (hf0 : f0 < m.nf) :
    (m.gradParams B X out C).getD (m.nf * m.fsize + f0) 0 = m.gradOff B out C f0 := by
  unfold Conv.gradParams
  exact append_rangeMap_getD _ m.nf _ 0 _ f0 (by simp) hf0

theorem conv_params_filt_pos (m : Conv ℝ) (q0 : ℕ) (hq0 : q0 < m.nf * m.fsize) :
    m.params.getD q0 0 = m.filt q0 := by
  unfold Conv.params
  exact rangeMap_append_getD _ _ _ 0 q0 hq0

theorem conv_params_off_pos (m : Conv ℝ) (f0 : ℕ) (hf0 : f0 < m.nf) :
    m.params.getD (m.nf * m.fsize + f0) 0 = m.off f0 := by
  unfold Conv.params
  exact append_rangeMap_getD _ m.nf _ 0 _ f0 (by simp) hf0

theorem conv_gradParams_length (m : Conv ℝ) (B : ℕ) (X out C : ℕ → ℕ → ℝ) :
    (m.gradParams B X out C).length = m.numberOfParameters := by
  unfold Conv.gradParams Conv.numberOfParameters; simp

/-- entry `q0` (filter block) of the gradient vector is the partial derivative of the weighted
output sum w.r.t. entry `q0` of the parameter vector -/
theorem conv_gradParams_filt_correct (m : Conv ℝ) (B : ℕ) (X C : ℕ → ℕ → ℝ) (q0 : ℕ)
    (hq0 : q0 < m.nf * m.fsize) (hfs : 0 < m.fsize) (hnk : ConvNoKink m B X) :
    HasDerivAt (fun t => ∑ i ∈ range B, ∑ o ∈ range m.nOut,
        C i o * ({ m with filt := fun q => if q = q0 then t else m.filt q } : Conv ℝ).evalB Real.tanh X i o)
      ((m.gradParams B X (m.evalB Real.tanh X) C).getD q0 0) (m.params.getD q0 0) := by
  rw [conv_gradParams_filt_pos m B X _ C q0 hq0, conv_params_filt_pos m q0 hq0]
  exact conv_filter_derivative_correct m B X C q0 hq0 hfs hnk

/-- entry `nf*fsize + f0` (offset block) of the gradient vector is the partial derivative of the
weighted output sum w.r.t. that entry of the parameter vector -/
theorem conv_gradParams_off_correct (m : Conv ℝ) (B : ℕ) (X C : ℕ → ℕ → ℝ) (f0 : ℕ)
    (hf0 : f0 < m.nf) (hnk : ConvNoKink m B X) :
    HasDerivAt (fun t => ∑ i ∈ range B, ∑ o ∈ range m.nOut,
        C i o * ({ m with off := fun f => if f = f0 then t else m.off f } : Conv ℝ).evalB Real.tanh X i o)
      ((m.gradParams B X (m.evalB Real.tanh X) C).getD (m.nf * m.fsize + f0) 0)
      (m.params.getD (m.nf * m.fsize + f0) 0) := by
  rw [conv_gradParams_off_pos m B X _ C f0 hf0, conv_params_off_pos m f0 hf0]
  exact conv_offset_derivative_correct m B X C f0 hf0 hnk

/-! ### non-vacuity: a concrete 3×3 single-channel image, two 2×2 filters, linear activation -/

/-- 3×3×1 input, two 2×2 filters, "valid" convolution: 2×2×2 outputs, 8 + 2 parameters -/
noncomputable def exConvR : Conv ℝ :=
  { h := 3, w := 3, c := 1, nf := 2, fh := 2, fw := 2, valid := true,
    filt := fun q => (q : ℝ) + 1, off := fun f => (f : ℝ), act := .linear }

def exConvQ : Conv Rat :=
  { h := 3, w := 3, c := 1, nf := 2, fh := 2, fw := 2, valid := true,
    filt := fun q => (q : Rat) + 1, off := fun f => (f : Rat), act := .linear }

theorem exConvR_noKink (B : ℕ) (X : ℕ → ℕ → ℝ) : ConvNoKink exConvR B X := by
  intro i _ o _ ha
  rcases ha with h | h <;> simp [exConvR] at h

example : exConvQ.params.length = 10 := by rw [conv_params_length]; rfl
example : (exConvQ.setParams [1, 2, 3, 4, 5, 6, 7, 8, 9, 10]).params = [1, 2, 3, 4, 5, 6, 7, 8, 9, 10] :=
  conv_params_setParams exConvQ _ rfl
example : (exConvQ.setParams exConvQ.params).filt 5 = exConvQ.filt 5 :=
  conv_setParams_params_filt exConvQ 5 (by decide)
example : (exConvQ.setParams exConvQ.params).off 1 = exConvQ.off 1 :=
  conv_setParams_params_off exConvQ 1 (by decide)
example (tanh : Rat → Rat) (X : Nat → Nat → Rat) :
    exConvQ.evalB tanh X 1 3 = exConvQ.evalRow tanh (X 1) 3 := conv_batch_eq_single tanh exConvQ X 1 3

example (X C : ℕ → ℕ → ℝ) :
    HasDerivAt (fun t => ∑ i ∈ range 2, ∑ o ∈ range exConvR.nOut,
        C i o * exConvR.evalB Real.tanh (fun i j => if i = 1 ∧ j = 4 then t else X i j) i o)
      (exConvR.gradX (exConvR.evalB Real.tanh X) C 1 4) (X 1 4) :=
  conv_input_derivative_correct exConvR 2 X C 1 4 (by norm_num) (exConvR_noKink 2 X)

example (X C : ℕ → ℕ → ℝ) :
    HasDerivAt (fun t => ∑ i ∈ range 2, ∑ o ∈ range exConvR.nOut,
        C i o * ({ exConvR with off := fun f => if f = 1 then t else exConvR.off f } : Conv ℝ).evalB Real.tanh X i o)
      (exConvR.gradOff 2 (exConvR.evalB Real.tanh X) C 1) (exConvR.off 1) :=
  conv_offset_derivative_correct exConvR 2 X C 1 (by show 1 < 2; norm_num) (exConvR_noKink 2 X)

example (X C : ℕ → ℕ → ℝ) :
    HasDerivAt (fun t => ∑ i ∈ range 2, ∑ o ∈ range exConvR.nOut,
        C i o * ({ exConvR with filt := fun q => if q = 5 then t else exConvR.filt q } : Conv ℝ).evalB Real.tanh X i o)
      (exConvR.gradFilt 2 X (exConvR.evalB Real.tanh X) C 5) (exConvR.filt 5) :=
  conv_filter_derivative_correct exConvR 2 X C 5 (by show 5 < 2 * (2 * 2 * 1); norm_num)
    (by show 0 < 2 * 2 * 1; norm_num) (exConvR_noKink 2 X)

example (X out C : ℕ → ℕ → ℝ) :
    (exConvR.gradParams 2 X out C).getD 5 0 = exConvR.gradFilt 2 X out C 5 :=
  conv_gradParams_filt_pos exConvR 2 X out C 5 (by show 5 < 2 * (2 * 2 * 1); norm_num)

example (X out C : ℕ → ℕ → ℝ) :
    (exConvR.gradParams 2 X out C).getD (8 + 1) 0 = exConvR.gradOff 2 out C 1 :=
  conv_gradParams_off_pos exConvR 2 X out C 1 (by show 1 < 2; norm_num)

example : exConvR.params.getD 5 0 = exConvR.filt 5 :=
  conv_params_filt_pos exConvR 5 (by show 5 < 2 * (2 * 2 * 1); norm_num)

example : exConvR.params.getD (8 + 1) 0 = exConvR.off 1 :=
  conv_params_off_pos exConvR 1 (by show 1 < 2; norm_num)

/-- the example is not degenerate: output pixel 3 (bottom right) of the 2×2 output reads input
entry 4 (the centre of the 3×3 image) through tap 0 -/
example : exConvQ.tapIndex 3 0 = some 4 := by decide
example : exConvQ.nOut = 8 := by decide

end SharkVerif.Models
