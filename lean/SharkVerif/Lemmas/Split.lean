/-
C17: `BinaryTree::splitList` as modelled by `splitList`: both parts are non-empty, strictly smaller than
the input, strictly separated by the threshold, and the split fails exactly when all values are equal.
-/
import SharkVerif.Lemmas.KD
import SharkVerif.Lemmas.NNRun
namespace SharkVerif.NN

/-! ## Auxiliary facts: attained maximum, `pickMin`, the median -/

theorem foldl_max_mem (f : Nat → Rat) : ∀ (xs : List Nat) (m : Rat),
    xs.foldl (fun m i => if m < f i then f i else m) m = m ∨
    ∃ i ∈ xs, xs.foldl (fun m i => if m < f i then f i else m) m = f i
  | [], m => Or.inl rfl
  | x :: xs, m => by
    simp only [List.foldl_cons]
    rcases foldl_max_mem f xs (if m < f x then f x else m) with h | ⟨i, hi, h⟩
    · by_cases c : m < f x
      · simp only [c, if_true] at h ⊢
        exact Or.inr ⟨x, List.mem_cons_self .., h⟩
      · simp only [c, if_false] at h ⊢
        exact Or.inl h
    · exact Or.inr ⟨i, List.mem_cons_of_mem _ hi, h⟩

/-- the maximum over a non-empty list is attained -/
theorem maxOver_mem (f : Nat → Rat) (l : List Nat) (h : l ≠ []) : ∃ i ∈ l, maxOver f l = f i := by
  cases l with
  | nil => exact absurd rfl h
  | cons x xs =>
    simp only [maxOver]
    rcases foldl_max_mem f xs (f x) with e | ⟨i, hi, e⟩
    · exact ⟨x, List.mem_cons_self .., e⟩
    · exact ⟨i, List.mem_cons_of_mem _ hi, e⟩

theorem foldl_minv_spec : ∀ (xs : List Rat) (m : Rat),
    (xs.foldl (fun m v => if v < m then v else m) m = m ∨
      xs.foldl (fun m v => if v < m then v else m) m ∈ xs) ∧
    xs.foldl (fun m v => if v < m then v else m) m ≤ m ∧
    ∀ v ∈ xs, xs.foldl (fun m v => if v < m then v else m) m ≤ v
  | [], m => ⟨Or.inl rfl, Rat.le_refl, by simp⟩
  | x :: xs, m => by
    simp only [List.foldl_cons]
    obtain ⟨h1, h2, h3⟩ := foldl_minv_spec xs (if x < m then x else m)
    refine ⟨?_, ?_, ?_⟩
    · rcases h1 with h1 | h1
      · by_cases c : x < m
        · simp only [c, if_true] at h1 ⊢
          exact Or.inr (by rw [h1]; exact List.mem_cons_self ..)
        · simp only [c, if_false] at h1 ⊢
          exact Or.inl h1
      · exact Or.inr (List.mem_cons_of_mem _ h1)
    · split at h2 <;> grind
    · intro v hv
      rcases List.mem_cons.mp hv with rfl | hv
      · split at h2 <;> grind
      · exact h3 v hv

theorem pickMin_mem (vs : List Rat) (h : vs ≠ []) : pickMin vs ∈ vs := by
  cases vs with
  | nil => exact absurd rfl h
  | cons x xs =>
    simp only [pickMin]
    rcases (foldl_minv_spec xs x).1 with e | e
    · rw [e]; exact List.mem_cons_self ..
    · exact List.mem_cons_of_mem _ e

theorem pickMin_le (vs : List Rat) (v : Rat) (h : v ∈ vs) : pickMin vs ≤ v := by
  cases vs with
  | nil => simp at h
  | cons x xs =>
    simp only [pickMin]
    rcases List.mem_cons.mp h with rfl | h
    · exact (foldl_minv_spec xs _).2.1
    · exact (foldl_minv_spec xs _).2.2 v h

/-- for at least two values the median index `(n+1)/2` is in range, so the median is one of the values -/
theorem median_mem (val : Nat → Rat) (idx : List Nat) (hn : 2 ≤ idx.length) :
    ∃ m ∈ idx, val m = (sortVals (idx.map val)).getD ((idx.length + 1) / 2) 0 := by
  have hlen : (sortVals (idx.map val)).length = idx.length := by
    rw [(sortVals_perm _).length_eq]; simp
  have hk : (idx.length + 1) / 2 < (sortVals (idx.map val)).length := by omega
  have hmem : (sortVals (idx.map val)).getD ((idx.length + 1) / 2) 0 ∈ sortVals (idx.map val) := by
    rw [List.getD_eq_getElem?_getD, List.getElem?_eq_getElem hk]; exact List.getElem_mem _
  have := (sortVals_perm _).subset hmem
  obtain ⟨m, hm, e⟩ := List.mem_map.mp this
  exact ⟨m, hm, e⟩

theorem filter_map_length (val : Nat → Rat) (p : Rat → Bool) : ∀ (idx : List Nat),
    ((idx.map val).filter p).length = (idx.filter (fun i => p (val i))).length
  | [] => rfl
  | x :: xs => by
    simp only [List.map_cons, List.filter_cons]
    cases p (val x) <;> simp [filter_map_length val p xs]

/-! ## The body of `splitList` for an arbitrary pivot value -/

/-- `splitList` with the median as a parameter -/
def splitWith (val : Nat → Rat) (idx : List Nat) (median : Rat) : Option Split :=
  let vals := idx.map val
  let n := idx.length
  let nLess := (vals.filter (· < median)).length
  let nLeq := (vals.filter (· ≤ median)).length
  if nLess ≠ 0 ∧ n - nLeq ≤ nLess then
    let left := idx.filter (fun i => val i < median)
    let right := idx.filter (fun i => ¬ val i < median)
    some { left := left, right := right, thr := (1/2 : Rat) * (maxOver val left + median) }
  else if nLeq = n then none
  else
    let left := idx.filter (fun i => val i ≤ median)
    let right := idx.filter (fun i => ¬ val i ≤ median)
    some { left := left, right := right, thr := (1/2 : Rat) * (maxOver val left + pickMin (right.map val)) }

theorem splitList_eq_splitWith (val : Nat → Rat) (idx : List Nat) :
    splitList val idx = splitWith val idx ((sortVals (idx.map val)).getD ((idx.length + 1) / 2) 0) := rfl

theorem filter_length_add (p : Nat → Prop) [DecidablePred p] (l : List Nat) :
    (l.filter (fun i => decide (p i))).length + (l.filter (fun i => decide (¬ p i))).length = l.length := by
  have := (filter_not_perm p l).length_eq
  simpa using this

theorem splitWith_spec {val : Nat → Rat} {idx : List Nat} {median : Rat} {s : Split}
    (hm : ∃ m ∈ idx, val m = median) (h : splitWith val idx median = some s) :
    s.left ≠ [] ∧ s.right ≠ [] ∧ (∀ i ∈ s.left, val i < s.thr) ∧ (∀ i ∈ s.right, s.thr < val i) := by
  obtain ⟨m, hmi, hmv⟩ := hm
  unfold splitWith at h
  simp only at h
  rw [filter_map_length val (fun x => decide (x < median)),
    filter_map_length val (fun x => decide (x ≤ median))] at h
  split at h
  · rename_i hc
    simp only [Option.some.injEq] at h
    subst h
    simp only
    have hl : idx.filter (fun i => decide (val i < median)) ≠ [] := by
      intro e; rw [e] at hc; simp at hc
    have hr : m ∈ idx.filter (fun i => decide (¬ val i < median)) := by
      simp only [List.mem_filter, decide_eq_true_eq]
      exact ⟨hmi, by grind⟩
    obtain ⟨a, ha, hmax⟩ := maxOver_mem val _ hl
    have ha' : val a < median := by
      simp only [List.mem_filter, decide_eq_true_eq] at ha; exact ha.2
    refine ⟨hl, List.ne_nil_of_mem hr, ?_, ?_⟩
    · intro i hi
      have := le_maxOver val _ i hi
      grind
    · intro i hi
      simp only [List.mem_filter, decide_eq_true_eq] at hi
      have := hi.2
      grind
  · split at h
    · cases h
    · rename_i hc hne
      simp only [Option.some.injEq] at h
      subst h
      simp only
      have hl : m ∈ idx.filter (fun i => decide (val i ≤ median)) := by
        simp only [List.mem_filter, decide_eq_true_eq]
        exact ⟨hmi, by grind⟩
      have hr : idx.filter (fun i => decide (¬ val i ≤ median)) ≠ [] := by
        intro e
        have := filter_length_add (fun i => val i ≤ median) idx
        rw [e] at this
        simp at this
        exact hne (by simpa using this)
      obtain ⟨a, ha, hmax⟩ := maxOver_mem val _ (List.ne_nil_of_mem hl)
      have ha' : val a ≤ median := by
        simp only [List.mem_filter, decide_eq_true_eq] at ha; exact ha.2
      have hrm : (idx.filter (fun i => decide (¬ val i ≤ median))).map val ≠ [] := by
        simpa using hr
      have hp := pickMin_mem _ hrm
      obtain ⟨b, hb, hbv⟩ := List.mem_map.mp hp
      have hb' : ¬ val b ≤ median := by
        simp only [List.mem_filter, decide_eq_true_eq] at hb; exact hb.2
      refine ⟨List.ne_nil_of_mem hl, hr, ?_, ?_⟩
      · intro i hi
        have := le_maxOver val _ i hi
        grind
      · intro i hi
        have := pickMin_le _ (val i) (List.mem_map.mpr ⟨i, hi, rfl⟩)
        grind

theorem splitWith_none_iff {val : Nat → Rat} {idx : List Nat} {median : Rat}
    (hm : ∃ m ∈ idx, val m = median) :
    splitWith val idx median = none ↔ ∀ i ∈ idx, ∀ j ∈ idx, val i = val j := by
  obtain ⟨m, hmi, hmv⟩ := hm
  have hadd1 := filter_length_add (fun i => val i < median) idx
  have hadd2 := filter_length_add (fun i => val i ≤ median) idx
  unfold splitWith
  simp only
  rw [filter_map_length val (fun x => decide (x < median)),
    filter_map_length val (fun x => decide (x ≤ median))]
  constructor
  · intro h
    split at h
    · cases h
    · rename_i hc
      split at h
      · rename_i hq
        -- all values are `≤ median` and none is `< median`
        have hless : (idx.filter (fun i => decide (val i < median))).length = 0 := by omega
        have hall : ∀ i ∈ idx, val i = median := by
          intro i hi
          have h1 : ¬ val i < median := by
            intro c
            have : i ∈ idx.filter (fun i => decide (val i < median)) := by
              simp only [List.mem_filter, decide_eq_true_eq]; exact ⟨hi, c⟩
            have := List.length_pos_of_mem this
            omega
          have h2 : val i ≤ median := by
            apply Classical.byContradiction
            intro c
            have : i ∈ idx.filter (fun i => decide (¬ val i ≤ median)) := by
              simp only [List.mem_filter, decide_eq_true_eq]; exact ⟨hi, c⟩
            have := List.length_pos_of_mem this
            omega
          grind
        intro i hi j hj
        rw [hall i hi, hall j hj]
      · cases h
  · intro h
    have hall : ∀ i ∈ idx, val i = median := fun i hi => (h i hi m hmi).trans hmv
    have hless : idx.filter (fun i => decide (val i < median)) = [] := by
      apply List.filter_eq_nil_iff.mpr
      intro i hi
      have := hall i hi
      simp only [decide_eq_true_eq]
      grind
    have hgt : idx.filter (fun i => decide (¬ val i ≤ median)) = [] := by
      apply List.filter_eq_nil_iff.mpr
      intro i hi
      have := hall i hi
      simp only [decide_eq_true_eq]
      grind
    rw [hless] at hadd1 ⊢
    rw [hgt] at hadd2
    simp only [List.length_nil, Nat.add_zero] at hadd2
    simp [hadd2]

/-! ## `splitList` -/

/-- the threshold strictly separates the two parts -/
theorem splitList_sep {val : Nat → Rat} {idx : List Nat} {s : Split} (hn : 2 ≤ idx.length)
    (h : splitList val idx = some s) :
    (∀ i ∈ s.left, val i < s.thr) ∧ (∀ i ∈ s.right, s.thr < val i) := by
  rw [splitList_eq_splitWith] at h
  exact (splitWith_spec (median_mem val idx hn) h).2.2

theorem splitList_nonempty {val : Nat → Rat} {idx : List Nat} {s : Split} (hn : 2 ≤ idx.length)
    (h : splitList val idx = some s) : s.left ≠ [] ∧ s.right ≠ [] := by
  rw [splitList_eq_splitWith] at h
  have := splitWith_spec (median_mem val idx hn) h
  exact ⟨this.1, this.2.1⟩

theorem splitList_length_lt {val : Nat → Rat} {idx : List Nat} {s : Split} (hn : 2 ≤ idx.length)
    (h : splitList val idx = some s) :
    s.left.length < idx.length ∧ s.right.length < idx.length := by
  obtain ⟨h1, h2⟩ := splitList_nonempty hn h
  have hp := (splitList_perm h).length_eq
  rw [List.length_append] at hp
  have := List.length_pos_iff.mpr h1
  have := List.length_pos_iff.mpr h2
  omega

theorem splitList_mem {val : Nat → Rat} {idx : List Nat} {s : Split}
    (h : splitList val idx = some s) : (∀ i ∈ s.left, i ∈ idx) ∧ (∀ i ∈ s.right, i ∈ idx) := by
  have hp := splitList_perm h
  exact ⟨fun i hi => hp.subset (List.mem_append_left _ hi),
    fun i hi => hp.subset (List.mem_append_right _ hi)⟩

/-- "partitioning failed, all values are equal" -/
theorem splitList_none_iff {val : Nat → Rat} {idx : List Nat} (hn : 2 ≤ idx.length) :
    splitList val idx = none ↔ ∀ i ∈ idx, ∀ j ∈ idx, val i = val j := by
  rw [splitList_eq_splitWith]
  exact splitWith_none_iff (median_mem val idx hn)

end SharkVerif.NN
