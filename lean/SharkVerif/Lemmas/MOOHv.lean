/-
Lemmas for C14: which individual a steady-state selection (mu + 1 → mu) discards.
-/
import SharkVerif.Lemmas.MOOElit
namespace SharkVerif.MOO
open SharkVerif.Pareto SharkVerif.HV

theorem range_map_getD' {α} (l : List α) (d : α) : (List.range l.length).map (fun i => l.getD i d) = l := by
  apply List.ext_getElem
  · simp
  · intro i h1 h2
    simp [List.getD_eq_getElem?_getD, List.getElem?_eq_getElem h2]

theorem countP_eq_length_all (ranks : List Nat) (r : Nat) (h : countLe ranks r = ranks.length) :
    ∀ j, j < ranks.length → rankAt ranks j ≤ r := by
  intro j hj
  unfold countLe at h
  have h2 : ((List.range ranks.length).countP fun i => decide (rankAt ranks i ≤ r)) = (List.range ranks.length).length := by
    simpa using h
  have := List.countP_eq_length.mp h2 j (List.mem_range.mpr hj)
  simpa using this

/-- the individual discarded by `IndicatorBasedSelection` from `mu + 1` individuals either has
rank `≥ 2`, or the whole population is one front and it is the first entry returned by the
indicator for that front -/
theorem select_unselected_cases (ind : Indicator) (hind : IndOK ind) (ranks : List Nat) (mu : Nat)
    (hmu : 1 ≤ mu) (hn : ranks.length = mu + 1) (hpos : ∀ i, i < ranks.length → 1 ≤ rankAt ranks i)
    (i : Nat) (hi : i < ranks.length) (h : (select ind ranks mu).getD i true = false) :
    2 ≤ rankAt ranks i ∨
    ((∀ j, j < ranks.length → rankAt ranks j = 1) ∧
      i ∈ (ind (List.range ranks.length) [] 1).map fun lc => (List.range ranks.length).getD lc ranks.length) := by
  by_cases h2 : 2 ≤ rankAt ranks i
  · exact Or.inl h2
  right
  have hri : rankAt ranks i = 1 := by have := hpos i hi; omega
  unfold select at h
  have hn0 : ¬ ranks.length = 0 := by omega
  simp only [hn0, if_false] at h
  have spec := dropFronts_spec ranks mu hmu hpos (ranks.foldl max 0) ranks.length
    (countLe_max ranks).symm (by omega)
  generalize dropFronts ranks mu (List.foldl max 0 ranks) ranks.length = rp at spec h
  obtain ⟨r, p⟩ := rp
  simp only at spec h
  obtain ⟨hp, hm, hlt, hr1⟩ := spec
  simp only [List.getD_eq_getElem?_getD, List.getElem?_map, List.getElem?_range hi, Option.map_some,
    Option.getD_some, Bool.or_eq_false_iff, decide_eq_false_iff_not, Bool.and_eq_false_iff,
    Bool.not_eq_false', beq_eq_false_iff_ne] at h
  obtain ⟨hnlt, hD⟩ := h
  have hr : r = 1 := by omega
  subst hr
  have hmem := hD.resolve_left (by simp [hri])
  have hple : p ≤ ranks.length := by
    rw [hp]; unfold countLe
    have := List.countP_le_length (p := fun i => decide (rankAt ranks i ≤ 1)) (l := List.range ranks.length)
    simpa using this
  -- K = 0 is impossible
  have hK : p - mu ≤ (frontOf ranks 1).length := by omega
  by_cases hpm : p = mu
  · obtain ⟨hlen, _, _⟩ := hind (frontOf ranks 1)
      ((List.range ranks.length).filter fun i => decide (1 ≤ rankAt ranks i) && decide (rankAt ranks i < 1)) (p - mu) hK
    rw [hpm] at hlen hmem
    simp only [Nat.sub_self] at hlen hmem
    rw [List.length_eq_zero_iff.mp hlen] at hmem
    simp at hmem
  have hpn : p = ranks.length := by omega
  have hall : ∀ j, j < ranks.length → rankAt ranks j = 1 := by
    intro j hj
    have := countP_eq_length_all ranks 1 (by rw [← hp, hpn]) j hj
    have := hpos j hj
    omega
  have hfront : frontOf ranks 1 = List.range ranks.length := by
    unfold frontOf
    apply List.filter_eq_self.mpr
    intro j hj
    simp [hall j (List.mem_range.mp hj)]
  have harch : ((List.range ranks.length).filter fun i => decide (1 ≤ rankAt ranks i) && decide (rankAt ranks i < 1)) = [] := by
    apply List.filter_eq_nil_iff.mpr
    intro j _
    simp
    omega
  rw [hfront, harch, hpn, hn] at hmem
  refine ⟨hall, ?_⟩
  have : mu + 1 - mu = 1 := by omega
  rw [this] at hmem
  rw [hn]
  simpa using hmem

/-- contract of a hypervolume `leastContributor` w.r.t. the reference point `r`: on every
non-empty front (mutually non-dominated points, strictly below `r`) it returns a position whose
hypervolume contribution (C13 specification `contribSpec`) is minimal -/
def LeastContribOn (r : Pt) (lc : LeastFn) : Prop :=
  ∀ pts : List Pt, pts ≠ [] → (∀ p ∈ pts, p.length = r.length) → (∀ p ∈ pts, ltAll p r = true) →
    (∀ p ∈ pts, ∀ q ∈ pts, dominates p q = false) →
    ∀ j, j < pts.length → contribSpec pts r (lc pts []) ≤ contribSpec pts r j

theorem replaceFirstUnselected_cases (o : Indiv) : ∀ l : List Indiv,
    replaceFirstUnselected o l = l ∨
    ∃ A p B, l = A ++ p :: B ∧ p.sel = false ∧ replaceFirstUnselected o l = A ++ o :: B
  | [] => Or.inl rfl
  | q :: qs => by
    simp only [replaceFirstUnselected]
    by_cases hq : q.sel = true
    · simp only [hq, if_true]
      rcases replaceFirstUnselected_cases o qs with h | ⟨A, p, B, h1, h2, h3⟩
      · left; rw [h]
      · right; exact ⟨q :: A, p, B, by rw [h1]; rfl, h2, by rw [h3]; rfl⟩
    · right
      refine ⟨[], q, qs, rfl, by simpa using hq, by simp [hq]⟩

theorem applySelect_map_pen (ind : List Pt → Indicator) (pop : List Indiv) (mu : Nat) :
    (applySelect ind pop mu).map (·.pen) = pop.map (·.pen) := by
  apply List.ext_getElem
  · simp [applySelect]
  · intro i h1 h2
    have hi : i < pop.length := by simpa using h2
    simp [applySelect, List.getD_eq_getElem?_getD, List.getElem?_eq_getElem hi]


theorem rankAt_fastSort {pts : List Pt} {m : Nat} (hd : ∀ p ∈ pts, p.length = m) (j : Nat) (hj : j < pts.length) :
    rankAt (fastSort pts) j = rankSpec pts pts[j] := by
  rw [fastSort_eq hd]
  unfold rankAt
  rw [List.getD_eq_getElem?_getD, List.getElem?_map, List.getElem?_eq_getElem hj]
  rfl

theorem mkIndicator_single_front (lc : LeastFn) (hlc : LcOK lc) (pts : List Pt) (hne : pts ≠ []) :
    ((mkIndicator lc pts) (List.range pts.length) [] 1).map (fun k => (List.range pts.length).getD k pts.length) =
      [lc pts []] := by
  have hX : (List.range pts.length).map (pt pts) = pts := range_map_getD' pts []
  have hlt := hlc pts [] hne
  unfold mkIndicator
  simp only [List.map_nil, iterLeast, hX, List.length_range, List.map_cons]
  simp [List.getD_eq_getElem?_getD, List.getElem?_range hlt]

/-- the specification-level least contributor: first position of minimal `contribSpec` -/
def specLeast (r : Pt) : LeastFn := fun pts _ =>
  match firstMinPair ((List.range pts.length).map fun i => (contribSpec pts r i, i)) with
  | some b => b.2
  | none => 0

theorem firstMinPair_le : ∀ {l : List (Int × Nat)} {b}, firstMinPair l = some b → ∀ c ∈ l, b.1 ≤ c.1
  | [], _, h, _, _ => by simp [firstMinPair] at h
  | c :: cs, b, h, x, hx => by
    simp only [firstMinPair] at h
    cases hm : firstMinPair cs with
    | none =>
      rw [hm] at h
      simp only [Option.some.injEq] at h
      subst h
      cases cs with
      | nil => simp at hx; rw [hx]; exact Int.le_refl _
      | cons d ds =>
        simp only [firstMinPair] at hm
        cases hd : firstMinPair ds <;> rw [hd] at hm <;> simp at hm
        split at hm <;> simp at hm
    | some b' =>
      rw [hm] at h
      have ih := firstMinPair_le hm
      by_cases hlt : b'.1 < c.1
      · simp only [hlt, if_true, Option.some.injEq] at h
        subst h
        rcases List.mem_cons.mp hx with rfl | hx
        · omega
        · exact ih x hx
      · simp only [hlt, if_false, Option.some.injEq] at h
        subst h
        rcases List.mem_cons.mp hx with rfl | hx
        · exact Int.le_refl _
        · have := ih x hx; omega

theorem specLeast_ok (r : Pt) : LcOK (specLeast r) ∧ LeastContribOn r (specLeast r) := by
  constructor
  · intro pts archive hne
    have hpos : 0 < pts.length := List.length_pos_iff.mpr hne
    unfold specLeast
    split
    · rename_i b hb
      obtain ⟨i, hi, e⟩ := List.mem_map.mp (firstMinPair_mem hb)
      rw [← e]; exact List.mem_range.mp hi
    · exact hpos
  · intro pts hne _ _ _ j hj
    unfold specLeast
    split
    · rename_i b hb
      obtain ⟨i, hi, e⟩ := List.mem_map.mp (firstMinPair_mem hb)
      have hle := firstMinPair_le hb (contribSpec pts r j, j) (List.mem_map.mpr ⟨j, List.mem_range.mpr hj, rfl⟩)
      rw [← e] at hle ⊢
      exact hle
    · rename_i hnone
      cases hp : pts with
      | nil => exact absurd hp hne
      | cons a as =>
        rw [hp] at hnone
        simp [List.range_succ_eq_map, firstMinPair] at hnone
        cases hq : firstMinPair (List.map ((fun i => (contribSpec (a :: as) r i, i)) ∘ Nat.succ) (List.range as.length)) <;>
          rw [hq] at hnone <;> simp at hnone
        split at hnone <;> simp at hnone

theorem lastMin_le : ∀ {l : List (Int × Nat)} {b}, lastMin l = some b → ∀ c ∈ l, b.1 ≤ c.1
  | [], _, h, _, _ => by simp [lastMin] at h
  | c :: cs, b, h, x, hx => by
    simp only [lastMin] at h
    cases hm : lastMin cs with
    | none =>
      rw [hm] at h
      simp only [Option.some.injEq] at h
      subst h
      cases cs with
      | nil => simp at hx; rw [hx]; exact Int.le_refl _
      | cons d ds =>
        simp only [lastMin] at hm
        cases hd : lastMin ds <;> rw [hd] at hm <;> simp at hm
        split at hm <;> simp at hm
    | some b' =>
      rw [hm] at h
      have ih := lastMin_le hm
      by_cases hlt : c.1 < b'.1
      · simp only [hlt, if_true, Option.some.injEq] at h
        subst h
        rcases List.mem_cons.mp hx with rfl | hx
        · exact Int.le_refl _
        · have := ih x hx; omega
      · simp only [hlt, if_false, Option.some.injEq] at h
        subst h
        rcases List.mem_cons.mp hx with rfl | hx
        · omega
        · exact ih x hx

theorem leAll_of_ltAll : ∀ {p r : Pt}, ltAll p r = true → leAll p r = true
  | [], [], _ => rfl
  | [], _ :: _, h => by simp [ltAll] at h
  | _ :: _, [], h => by simp [ltAll] at h
  | a :: as, b :: bs, h => by
    simp only [ltAll, Bool.and_eq_true, decide_eq_true_eq] at h
    simp only [leAll, Bool.and_eq_true, decide_eq_true_eq]
    exact ⟨by omega, leAll_of_ltAll h.2⟩

end SharkVerif.MOO
