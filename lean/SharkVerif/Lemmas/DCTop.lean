/-
Lemmas for the divide-and-conquer non-dominated sort (`Model/DCSort.lean`): the part of the
correctness proof that does not depend on the recursion `ndHelperA` / `ndHelperB`.

* `lexLt` is a strict total order on vectors of one dimension; `sortLex`, `uniq`, `lowerBound`
  do what `std::sort`, `std::unique`, `std::lower_bound` do on such vectors;
* the rank of a point depends only on the *set* of points (`rankSpec_congr_mem`), so the rank of a
  duplicate is the rank of its representative among the distinct points;
* the assembly theorems `dcSort_eq_rankSpec_of_fronts` / `nds_eq_rankSpec_of_fronts`: if the front
  numbers computed by `dcFronts` on every strictly sorted list of distinct points are the ranks, then
  `dcSort` and `nds` return the ranks of the input list;
* `fronts_eq_rankSpec_of_equation`: the rank equation on indices has exactly one solution.

Core Lean only.
-/
import SharkVerif.Model.DCSort
import SharkVerif.Lemmas.FastSort
namespace SharkVerif.DC
open SharkVerif.Pareto

/-! ### `Point::operator<` is a strict total order on vectors of one dimension -/

theorem lexLt_irrefl : ∀ a : Pt, lexLt a a = false
  | [] => rfl
  | a :: as => by simp [lexLt, lexLt_irrefl as]

theorem lexLt_cons (a b : Int) (as bs : Pt) :
    lexLt (a :: as) (b :: bs) = true ↔ a < b ∨ (a = b ∧ lexLt as bs = true) := by
  simp only [lexLt]
  by_cases h1 : a < b
  · simp [h1]
  · by_cases h2 : b < a
    · simp [h1, h2]; omega
    · have : a = b := by omega
      simp [this]

theorem lexLt_trans : ∀ {a b c : Pt}, lexLt a b = true → lexLt b c = true → lexLt a c = true
  | [], _, _, h, _ => by simp [lexLt] at h
  | _ :: _, [], _, h, _ => by simp [lexLt] at h
  | _ :: _, _ :: _, [], _, h => by simp [lexLt] at h
  | a :: as, b :: bs, c :: cs, h1, h2 => by
    rw [lexLt_cons] at h1 h2 ⊢
    rcases h1 with h1 | ⟨e1, h1⟩
    · rcases h2 with h2 | ⟨e2, _⟩
      · left; omega
      · left; omega
    · rcases h2 with h2 | ⟨e2, h2⟩
      · left; omega
      · right; exact ⟨by omega, lexLt_trans h1 h2⟩

theorem lexLt_asymm {a b : Pt} (h : lexLt a b = true) : lexLt b a = false := by
  cases h' : lexLt b a with
  | false => rfl
  | true => have := lexLt_trans h h'; rw [lexLt_irrefl] at this; cases this

theorem lexLt_trichotomy : ∀ {a b : Pt}, a.length = b.length →
    lexLt a b = true ∨ a = b ∨ lexLt b a = true
  | [], [], _ => Or.inr (Or.inl rfl)
  | [], _ :: _, h => by simp at h
  | _ :: _, [], h => by simp at h
  | a :: as, b :: bs, h => by
    rw [lexLt_cons, lexLt_cons]
    rcases lexLt_trichotomy (a := as) (b := bs) (by simpa using h) with h' | h' | h'
    · rcases Int.lt_trichotomy a b with h1 | h1 | h1
      · exact Or.inl (Or.inl h1)
      · exact Or.inl (Or.inr ⟨h1, h'⟩)
      · exact Or.inr (Or.inr (Or.inl h1))
    · rcases Int.lt_trichotomy a b with h1 | h1 | h1
      · exact Or.inl (Or.inl h1)
      · exact Or.inr (Or.inl (by rw [h1, h']))
      · exact Or.inr (Or.inr (Or.inl h1))
    · rcases Int.lt_trichotomy a b with h1 | h1 | h1
      · exact Or.inl (Or.inl h1)
      · exact Or.inr (Or.inr (Or.inr ⟨h1.symm, h'⟩))
      · exact Or.inr (Or.inr (Or.inl h1))

/-- `lexLt` is a strict total order on the vectors of dimension `m` -/
theorem lexLt_strict_total_order (m : Nat) :
    (∀ a : Pt, lexLt a a = false) ∧
    (∀ a b c : Pt, lexLt a b = true → lexLt b c = true → lexLt a c = true) ∧
    (∀ a b : Pt, a.length = m → b.length = m → lexLt a b = true ∨ a = b ∨ lexLt b a = true) :=
  ⟨lexLt_irrefl, fun _ _ _ => lexLt_trans, fun _ _ ha hb => lexLt_trichotomy (by rw [ha, hb])⟩

/-- the lexicographic order extends weak dominance … -/
theorem lexLt_of_leAll_ne : ∀ {a b : Pt}, leAll a b = true → a ≠ b → lexLt a b = true
  | [], [], _, h => absurd rfl h
  | [], _ :: _, h, _ => by simp [leAll] at h
  | _ :: _, [], h, _ => by simp [leAll] at h
  | a :: as, b :: bs, h, hne => by
    simp only [leAll, Bool.and_eq_true, decide_eq_true_eq] at h
    rw [lexLt_cons]
    by_cases hab : a = b
    · right
      refine ⟨hab, lexLt_of_leAll_ne h.2 ?_⟩
      intro e; exact hne (by rw [hab, e])
    · left; omega

/-- … and hence strict dominance: a dominating point comes first in lexicographic order -/
theorem lexLt_of_dominates {a b : Pt} (h : dominates a b = true) : lexLt a b = true := by
  simp only [dominates, Bool.and_eq_true, Bool.not_eq_true'] at h
  apply lexLt_of_leAll_ne h.1
  intro e; subst e; rw [leAll_refl] at h; cases h.2

/-! ### `std::sort` -/

/-- a total preorder on all vectors that coincides with "not `lexLt b a`" on the vectors of dimension `m` -/
def leTot (m : Nat) (a b : Pt) : Bool :=
  if a.length = m ∧ b.length = m then !lexLt b a else decide (a.length ≤ b.length)

theorem leTot_length {m : Nat} {a b : Pt} (h : leTot m a b = true) : a.length ≤ b.length := by
  unfold leTot at h
  split at h
  · rename_i h'; omega
  · simpa using h

theorem leTot_trans (m : Nat) (a b c : Pt) (h1 : leTot m a b = true) (h2 : leTot m b c = true) :
    leTot m a c = true := by
  have l1 := leTot_length h1
  have l2 := leTot_length h2
  by_cases hac : a.length = m ∧ c.length = m
  · have hb : b.length = m := by omega
    simp only [leTot, hac, hb, and_self, if_true, Bool.not_eq_true'] at h1 h2 ⊢
    rcases lexLt_trichotomy (a := a) (b := b) (by omega) with h | h | h
    · rcases lexLt_trichotomy (a := b) (b := c) (by omega) with h' | h' | h'
      · exact lexLt_asymm (lexLt_trans h h')
      · subst h'; exact lexLt_asymm h
      · rw [h2] at h'; cases h'
    · subst h; exact h2
    · rw [h1] at h; cases h
  · simp only [leTot, hac, if_false, decide_eq_true_eq]; omega

theorem leTot_total (m : Nat) (a b : Pt) : (leTot m a b || leTot m b a) = true := by
  by_cases h : a.length = m ∧ b.length = m
  · have h' : b.length = m ∧ a.length = m := ⟨h.2, h.1⟩
    simp only [leTot, h, and_self, if_true]
    cases hab : lexLt a b with
    | false => simp
    | true => simp [lexLt_asymm hab]
  · have h' : ¬ (b.length = m ∧ a.length = m) := fun e => h ⟨e.2, e.1⟩
    simp only [leTot, h, h', if_false, Bool.or_eq_true, decide_eq_true_eq]; omega

theorem sortLex_eq_leTot {S : List Pt} {m : Nat} (hd : ∀ p ∈ S, p.length = m) :
    sortLex S = S.mergeSort (leTot m) := by
  have := List.map_mergeSort (r := fun a b => !lexLt b a) (s := leTot m) (f := id) (l := S)
    (fun a ha b hb => by simp [leTot, hd a ha, hd b hb])
  simpa [sortLex] using this

theorem sortLex_perm (S : List Pt) : (sortLex S).Perm S := List.mergeSort_perm _ _

theorem mem_sortLex {S : List Pt} {p : Pt} : p ∈ sortLex S ↔ p ∈ S := (sortLex_perm S).mem_iff

/-- `std::sort` returns a permutation of its input in non-decreasing lexicographic order -/
theorem sortLex_sorted {S : List Pt} {m : Nat} (hd : ∀ p ∈ S, p.length = m) :
    (sortLex S).Pairwise fun a b => (!lexLt b a) = true := by
  have hp := List.pairwise_mergeSort (le := leTot m) (leTot_trans m) (leTot_total m) S
  rw [← sortLex_eq_leTot hd] at hp
  refine hp.imp_of_mem ?_
  intro a b ha hb h
  have h' : leTot m a b = true := h
  simpa [leTot, hd a (mem_sortLex.mp ha), hd b (mem_sortLex.mp hb)] using h'

/-! ### `std::unique` -/

theorem mem_uniq : ∀ (L : List Pt) (x : Pt), x ∈ uniq L ↔ x ∈ L
  | [], x => by simp [uniq]
  | [p], x => by simp [uniq]
  | p :: q :: rest, x => by
    have ih := mem_uniq (q :: rest) x
    simp only [uniq]
    split
    · rename_i h
      have : p = q := by simpa using h
      subst this
      rw [ih]; simp
    · rw [List.mem_cons, ih]; simp

/-- `std::unique` on a sorted range keeps exactly one copy of every vector: the result is strictly
increasing -/
theorem uniq_sorted {m : Nat} : ∀ (L : List Pt), (∀ p ∈ L, p.length = m) →
    L.Pairwise (fun a b => (!lexLt b a) = true) → (uniq L).Pairwise fun a b => lexLt a b = true
  | [], _, _ => by simp [uniq]
  | [p], _, _ => by simp [uniq]
  | p :: q :: rest, hd, hs => by
    have hs' : (q :: rest).Pairwise (fun a b => (!lexLt b a) = true) := (List.pairwise_cons.mp hs).2
    have ih := uniq_sorted (q :: rest) (fun x hx => hd x (List.mem_cons_of_mem _ hx)) hs'
    simp only [uniq]
    split
    · exact ih
    · rename_i hne
      have hne' : p ≠ q := by simpa using hne
      have hp : p.length = m := hd p (by simp)
      have hq : q.length = m := hd q (by simp)
      have hpq : lexLt p q = true := by
        have := (List.pairwise_cons.mp hs).1 q (by simp)
        rcases lexLt_trichotomy (a := p) (b := q) (by omega) with h | h | h
        · exact h
        · exact absurd h hne'
        · simp [h] at this
      refine List.pairwise_cons.mpr ⟨?_, ih⟩
      intro x hx
      have hx' : x ∈ q :: rest := (mem_uniq _ _).mp hx
      rcases List.mem_cons.mp hx' with rfl | hxr
      · exact hpq
      · have hqx := (List.pairwise_cons.mp hs').1 x hxr
        have hxl : x.length = m := hd x (List.mem_cons_of_mem _ hx')
        rcases lexLt_trichotomy (a := q) (b := x) (by omega) with h | h | h
        · exact lexLt_trans hpq h
        · subst h; exact hpq
        · simp [h] at hqx

theorem pairwise_lexLt_nodup {U : List Pt} (h : U.Pairwise fun a b => lexLt a b = true) : U.Nodup := by
  refine h.imp ?_
  intro a b hab e
  subst e; rw [lexLt_irrefl] at hab; cases hab

/-- the list of distinct points: same members as the input, same dimension, strictly increasing -/
theorem uniq_sortLex_spec {S : List Pt} {m : Nat} (hd : ∀ p ∈ S, p.length = m) :
    (∀ x, x ∈ uniq (sortLex S) ↔ x ∈ S) ∧ (∀ p ∈ uniq (sortLex S), p.length = m) ∧
    (uniq (sortLex S)).Pairwise (fun a b => lexLt a b = true) ∧ (uniq (sortLex S)).Nodup := by
  have hmem : ∀ x, x ∈ uniq (sortLex S) ↔ x ∈ S := fun x => by rw [mem_uniq, mem_sortLex]
  have hs := uniq_sorted (m := m) (sortLex S) (fun p hp => hd p (mem_sortLex.mp hp)) (sortLex_sorted hd)
  exact ⟨hmem, fun p hp => hd p ((hmem p).mp hp), hs, pairwise_lexLt_nodup hs⟩

/-! ### `std::lower_bound` -/

/-- in a strictly increasing list `lower_bound` finds the position of every member -/
theorem lowerBound_spec : ∀ {U : List Pt} {p : Pt}, U.Pairwise (fun a b => lexLt a b = true) → p ∈ U →
    lowerBound U p < U.length ∧ U.getD (lowerBound U p) [] = p
  | [], _, _, h => by cases h
  | u :: us, p, hs, hp => by
    unfold lowerBound
    rw [List.findIdx_cons]
    by_cases e : p = u
    · subst e; simp [lexLt_irrefl]
    · have hp' : p ∈ us := by
        rcases List.mem_cons.mp hp with h | h
        · exact absurd h e
        · exact h
      have hlt : lexLt u p = true := (List.pairwise_cons.mp hs).1 p hp'
      have ih := lowerBound_spec (List.pairwise_cons.mp hs).2 hp'
      unfold lowerBound at ih
      simp only [hlt, Bool.not_true, cond_false, List.length_cons]
      refine ⟨by omega, ?_⟩
      rw [List.getD_cons_succ]; exact ih.2

/-! ### the rank depends only on the set of points -/

theorem foldl_max_eq_of_same_members {l₁ l₂ : List Nat} (h : ∀ x, x ∈ l₁ ↔ x ∈ l₂) :
    l₁.foldl max 0 = l₂.foldl max 0 := by
  have g1 := foldl_max_ge l₁ 0
  have g2 := foldl_max_ge l₂ 0
  rcases foldl_max_mem l₁ 0 with h1 | h1 <;> rcases foldl_max_mem l₂ 0 with h2 | h2
  · omega
  · have := g1.2 _ ((h _).mpr h2); omega
  · have := g2.2 _ ((h _).mp h1); omega
  · have := g1.2 _ ((h _).mpr h2)
    have := g2.2 _ ((h _).mp h1)
    omega

/-- **rank of duplicates**: two lists with the same members (in any order, with any multiplicities)
assign the same rank to every vector -/
theorem rankSpec_congr_mem {S T : List Pt} (h : ∀ q, q ∈ S ↔ q ∈ T) (p : Pt) :
    rankSpec S p = rankSpec T p := by
  suffices H : ∀ k, ∀ p, (S.countP fun q => dominates q p) = k → rankSpec S p = rankSpec T p from
    H _ p rfl
  intro k
  induction k using Nat.strongRecOn with
  | _ k ih =>
    intro p hk
    rw [rankSpec_eq S p, rankSpec_eq T p]
    congr 1
    apply foldl_max_eq_of_same_members
    intro x
    have hrec : ∀ q ∈ S, dominates q p = true → rankSpec S q = rankSpec T q := by
      intro q hq hd
      have hlt : (S.countP fun x => dominates x q) < S.countP fun x => dominates x p :=
        countP_lt_of_imp S (fun x => dominates x q) (fun x => dominates x p)
          (fun x hx => dominates_trans hx hd) q hq hd (by simp [dominates_irrefl])
      exact ih _ (by omega) q rfl
    simp only [List.mem_map, List.mem_filter]
    constructor
    · rintro ⟨q, ⟨hq, hd⟩, e⟩
      exact ⟨q, ⟨(h q).mp hq, hd⟩, by rw [← hrec q hq hd]; exact e⟩
    · rintro ⟨q, ⟨hq, hd⟩, e⟩
      have hq' := (h q).mpr hq
      exact ⟨q, ⟨hq', hd⟩, by rw [hrec q hq' hd]; exact e⟩

/-! ### assembly -/

/-- **assembly theorem** (`BaseDCNonDominatedSort::operator()`): if `ndHelperA` computes the ranks
on every strictly increasing list of distinct points of dimension `m` (hypothesis `H`, the result of
the recursion proof), then the sort assigns to every input point — duplicates included — its rank
within the input list. -/
theorem dcSort_eq_rankSpec_of_fronts (pts : List Pt) (m : Nat) (hd : ∀ p ∈ pts, p.length = m)
    (H : ∀ U : List Pt, (∀ p ∈ U, p.length = m) → U.Pairwise (fun a b => lexLt a b = true) →
         ∀ i, i < U.length → fr (dcFronts U m) i = rankSpec U (U.getD i [])) :
    dcSort pts = pts.map (rankSpec pts) := by
  cases pts with
  | nil => rfl
  | cons p0 rest =>
    obtain ⟨hmem, hdim, hs, _⟩ := uniq_sortLex_spec hd
    have hm : p0.length = m := hd p0 (by simp)
    simp only [dcSort, hm]
    apply List.map_congr_left
    intro p hp
    have hpU : p ∈ uniq (sortLex (p0 :: rest)) := (hmem p).mpr hp
    obtain ⟨hlt, hget⟩ := lowerBound_spec hs hpU
    rw [H _ hdim hs _ hlt, hget]
    exact rankSpec_congr_mem hmem p

/-- **assembly theorem** (`nonDominatedSort`): whichever algorithm the switch `useDC` selects, the
result is the list of ranks -/
theorem nds_eq_rankSpec_of_fronts (pts : List Pt) (m : Nat) (hd : ∀ p ∈ pts, p.length = m)
    (H : ∀ U : List Pt, (∀ p ∈ U, p.length = m) → U.Pairwise (fun a b => lexLt a b = true) →
         ∀ i, i < U.length → fr (dcFronts U m) i = rankSpec U (U.getD i [])) :
    nds pts = pts.map (rankSpec pts) := by
  cases pts with
  | nil => rfl
  | cons p0 rest =>
    simp only [nds]
    split
    · exact dcSort_eq_rankSpec_of_fronts _ m hd H
    · exact fastSort_eq hd

/-! ### uniqueness of the solution of the rank equation on indices -/

/-- if the front numbers `frt'` satisfy the rank equation on the indices of `U`
("`frt' i` = max(1, 1 + highest `frt' j` among the `j` with `U[j]` dominating `U[i]`)"), they are the
ranks.  (No hypothesis on `U` is needed: not even distinctness.) -/
theorem fronts_eq_rankSpec_of_equation (U : List Pt) (frt' : Frt)
    (heq : ∀ i, i < U.length → fr frt' i = max 1 (1 +
      (((List.range U.length).filter fun j => dominates (U.getD j []) (U.getD i [])).map (fr frt')).foldl max 0)) :
    ∀ i, i < U.length → fr frt' i = rankSpec U (U.getD i []) := by
  suffices H : ∀ k, ∀ i, i < U.length → (U.countP fun q => dominates q (U.getD i [])) = k →
      fr frt' i = rankSpec U (U.getD i []) from fun i hi => H _ i hi rfl
  intro k
  induction k using Nat.strongRecOn with
  | _ k ih =>
    intro i hi hk
    have hrec : ∀ j, j < U.length → dominates (U.getD j []) (U.getD i []) = true →
        fr frt' j = rankSpec U (U.getD j []) := by
      intro j hj hd
      have hlt : (U.countP fun x => dominates x (U.getD j [])) < U.countP fun x => dominates x (U.getD i []) :=
        countP_lt_of_imp U (fun x => dominates x (U.getD j [])) (fun x => dominates x (U.getD i []))
          (fun x hx => dominates_trans hx hd) (U.getD j []) (pt_mem U hj) hd (by simp [dominates_irrefl])
      exact ih _ (by omega) j hj rfl
    rw [heq i hi, rankSpec_eq U (U.getD i [])]
    have : ∀ a : Nat, max 1 (1 + a) = 1 + a := fun a => by omega
    rw [this]
    congr 1
    apply foldl_max_eq_of_same_members
    intro x
    simp only [List.mem_map, List.mem_filter, List.mem_range]
    constructor
    · rintro ⟨j, ⟨hj, hd⟩, e⟩
      exact ⟨U.getD j [], ⟨pt_mem U hj, hd⟩, by rw [← hrec j hj hd]; exact e⟩
    · rintro ⟨q, ⟨hq, hd⟩, e⟩
      obtain ⟨j, hj, ej⟩ := exists_index hq
      have ej' : U.getD j [] = q := ej
      exact ⟨j, ⟨hj, by rw [ej']; exact hd⟩, by rw [hrec j hj (by rw [ej']; exact hd), ej']; exact e⟩

/-- the form in which the recursion proof delivers hypothesis `H` of the assembly theorems -/
theorem fronts_hypothesis_of_equation (m : Nat)
    (heq : ∀ U : List Pt, (∀ p ∈ U, p.length = m) → U.Pairwise (fun a b => lexLt a b = true) →
      ∀ i, i < U.length → fr (dcFronts U m) i = max 1 (1 +
        (((List.range U.length).filter fun j => dominates (U.getD j []) (U.getD i [])).map
          (fr (dcFronts U m))).foldl max 0)) :
    ∀ U : List Pt, (∀ p ∈ U, p.length = m) → U.Pairwise (fun a b => lexLt a b = true) →
      ∀ i, i < U.length → fr (dcFronts U m) i = rankSpec U (U.getD i []) :=
  fun U hd hs => fronts_eq_rankSpec_of_equation U (dcFronts U m) (heq U hd hs)

end SharkVerif.DC
