/-
C02, blocked Cholesky (`potrfRec` in `Model/LinSolveBlocked.lean`, the recursion
`potrf_recursive` of `kernels/default/potrf.hpp`): for EVERY block size (of `potrf` and of the
`trsm` it calls) the recursion returns the return value of the unblocked left-looking loop
(`potrfInfo false`), and when that is `0` it leaves exactly the factor of the unblocked loop
(`chol`, `potrfLower`) in the lower triangle and nothing else changed.

Route: `PotrfSpec r n s sz M R`: `R` = (matrix, return value) is what the unblocked kernel does on
the diagonal block `[s, s+sz)` of `M`.  Strong induction on the size; the step
(`potrfSpec_compose`) is the block form of the left-looking recurrence:
* the first `sp` columns of the factor of a matrix depend on the leading block only (`chol_prefix`),
* `trsm<upper,right>(trans(Aul), All)` computes the rows below the front block
  (blocked `trsm` = unblocked `trsm`, `trsmBlocked_eq_trsm_right`, then `fwd_unique`),
* the factor of the Schur complement `Alr - All Allᵀ` is the trailing block of the factor
  (`chol_schur`), with the same pivots, hence the same first rejected pivot (`infoP_add`).
-/
import SharkVerif.Lemmas.LinSolveBlocked
import SharkVerif.Lemmas.LinSolveChol

namespace SharkVerif.LinSolve

/-! ### first rejected pivot -/

/-- `0`, or `j+1` for the first index `< n` satisfying `p` -/
def infoP (n : Nat) (p : Nat → Bool) : Nat :=
  match firstIdx n p with
  | some j => j + 1
  | none => 0

theorem potrfInfo_eq_infoP (r : Rat → Rat) (n : Nat) (A : Mat) :
    potrfInfo false r n A = infoP n (fun j => decide (cholPivot r n A j ≤ 0)) := by
  rfl

theorem find?_congr' {l : List Nat} {p q : Nat → Bool} (h : ∀ x, x ∈ l → p x = q x) :
    l.find? p = l.find? q := by
  induction l with
  | nil => rfl
  | cons a t ih =>
    simp only [List.find?_cons]
    rw [h a (by simp), ih (fun x hx => h x (by simp [hx]))]

theorem infoP_congr {n : Nat} {p q : Nat → Bool} (h : ∀ j, j < n → p j = q j) :
    infoP n p = infoP n q := by
  unfold infoP firstIdx
  rw [find?_congr' (fun x hx => h x (List.mem_range.mp hx))]

theorem firstIdx_add (a b : Nat) (p : Nat → Bool) :
    firstIdx (a + b) p
      = (firstIdx a p).or ((firstIdx b (fun j => p (a + j))).map (fun j => a + j)) := by
  unfold firstIdx
  rw [List.range_add, List.find?_append, List.find?_map]
  rfl

theorem infoP_add (a b : Nat) (p : Nat → Bool) :
    infoP (a + b) p =
      if infoP a p ≠ 0 then infoP a p
      else if infoP b (fun j => p (a + j)) ≠ 0 then infoP b (fun j => p (a + j)) + a else 0 := by
  unfold infoP
  rw [firstIdx_add]
  cases firstIdx a p <;> cases firstIdx b (fun j => p (a + j)) <;> simp
  omega

/-! ### the left-looking recurrence, block-wise -/

/-- **Factor of a Schur complement.**  If `A'` is, on its lower triangle, the trailing block of `A`
from index `s` on minus the contribution of the first `s` columns of the factor of `A`, then the
factor of `A'` is the trailing block of the factor of `A`, with the same values `s(i,j)`
(in particular the same pivots).  `s = 0`: the factor depends on the lower triangle of the leading
block only. -/
theorem chol_schur (r : Rat → Rat) (n : Nat) (A : Mat) (s n' : Nat) (hn : s + n' ≤ n) (A' : Mat)
    (hA : ∀ a c, a < n' → c ≤ a →
      A' a c = A (s + a) (s + c) - sum s (fun k => chol r n A (s + a) k * chol r n A (s + c) k)) :
    ∀ c, c < n' →
      (∀ a, a < n' → chol r n' A' a c = chol r n A (s + a) (s + c)) ∧
      (∀ a, a < n' → c ≤ a → cholS r n' A' a c = cholS r n A (s + a) (s + c)) := by
  intro c
  induction c using Nat.strong_induction_on with
  | _ c ih =>
    intro hc
    have hS : ∀ a, a < n' → c ≤ a → cholS r n' A' a c = cholS r n A (s + a) (s + c) := by
      intro a ha hca
      unfold cholS
      rw [hA a c ha hca, sum_split s c]
      have h1 : sum c (fun k => chol r n' A' a k * chol r n' A' c k)
          = sum c (fun k => chol r n A (s + a) (s + k) * chol r n A (s + c) (s + k)) :=
        sum_congr fun k hk => by
          rw [(ih k hk (by omega)).1 a ha, (ih k hk (by omega)).1 c hc]
      rw [h1]; ring
    refine ⟨?_, hS⟩
    intro a ha
    rw [chol_entry r n' A' ha hc, chol_entry r n A (by omega : s + a < n) (by omega : s + c < n)]
    by_cases h1 : a < c
    · rw [if_pos h1, if_pos (by omega : s + a < s + c)]
    · rw [if_neg h1, if_neg (by omega : ¬ s + a < s + c)]
      by_cases h2 : a = c
      · subst h2
        rw [if_pos rfl, if_pos rfl, hS a ha (Nat.le_refl _)]
      · rw [if_neg h2, if_neg (by omega : ¬ s + a = s + c), hS a ha (by omega),
          hS c hc (Nat.le_refl _)]

/-- the leading `n' × n'` block of the factor is the factor of the leading block, for any matrix
that agrees on the lower triangle of that block -/
theorem chol_prefix (r : Rat → Rat) {n n' : Nat} (hn : n' ≤ n) (A A' : Mat)
    (hA : ∀ a c, a < n' → c ≤ a → A' a c = A a c) :
    (∀ a c, a < n' → c < n' → chol r n' A' a c = chol r n A a c) ∧
    (∀ j, j < n' → cholPivot r n' A' j = cholPivot r n A j) := by
  have H := chol_schur r n A 0 n' (by omega) A' (by
    intro a c ha hca
    rw [hA a c ha hca]
    simp [sum])
  constructor
  · intro a c ha hc
    have := (H c hc).1 a ha
    simpa using this
  · intro j hj
    have := (H j hj).2 j hj (Nat.le_refl _)
    simpa [cholPivot_eq] using this

/-- the entry below the diagonal in column `c`: row `c` of the factor times row `a` gives `A a c` -/
theorem chol_below (r : Rat → Rat) (n : Nat) (A : Mat) {a c : Nat} (hca : c < a) (ha : a < n)
    (hne : chol r n A c c ≠ 0) :
    sum c (fun k => chol r n A c k * chol r n A a k) + chol r n A c c * chol r n A a c = A a c := by
  have hc : c < n := by omega
  have hcc : chol r n A c c = r (cholS r n A c c) := by
    rw [chol_entry r n A hc hc, if_neg (by omega), if_pos rfl]
  have hac : chol r n A a c = cholS r n A a c / chol r n A c c := by
    rw [hcc, chol_entry r n A ha hc, if_neg (by omega), if_neg (by omega)]
  have hsum : sum c (fun k => chol r n A c k * chol r n A a k)
      = sum c (fun k => chol r n A a k * chol r n A c k) :=
    sum_congr fun k _ => by ring
  rw [hac, hsum]
  unfold cholS
  field_simp
  ring

/-! ### the specification of a call on a diagonal block -/

/-- the root is non-zero on the positive pivots that occur -/
def RootNZ (r : Rat → Rat) (n : Nat) (A : Mat) : Prop :=
  ∀ j, j < n → 0 < cholPivot r n A j → r (cholPivot r n A j) ≠ 0

/-- the trailing part of the materialised matrix from index `s` on -/
def subM (M : Arr2) (s : Nat) : Mat := fun a c => mget M (s + a) (s + c)

/-- `R` is what the unblocked kernel does on the diagonal block `[s, s+sz)` of `M`: its return
value, and — when that is `0` — its factor in the lower triangle of the block, everything else
untouched -/
def PotrfSpec (r : Rat → Rat) (n s sz : Nat) (M : Arr2) (R : Arr2 × Nat) : Prop :=
  R.2 = potrfInfo false r sz (subM M s) ∧
  (R.2 = 0 → ∀ i j, i < n → j < n →
    mget R.1 i j =
      if s ≤ j ∧ j ≤ i ∧ i < s + sz then chol r sz (subM M s) (i - s) (j - s) else mget M i j)

theorem potrfBlockStep_spec (r : Rat → Rat) (n s e : Nat) (M : Arr2) (hse : s ≤ e) :
    PotrfSpec r n s (e - s) M (potrfBlockStep r n s e M) := by
  constructor
  · rfl
  · intro h0 i j hi hj
    have h0' : infoOf false (e - s) (fun a c => mget M (s + a) (s + c))
        (cholCols r (e - s) (fun a c => mget M (s + a) (s + c))) = 0 := h0
    unfold potrfBlockStep
    simp only [h0']
    rw [mget_matOf, if_pos ⟨hi, hj⟩]
    have hes : s + (e - s) = e := by omega
    rw [hes]
    by_cases hc : s ≤ j ∧ j ≤ i ∧ i < e
    · rw [if_pos ⟨hc.1, hc.2.1, hc.2.2, Or.inl trivial⟩, if_pos hc]
      rfl
    · rw [if_neg (fun h => hc ⟨h.1, h.2.1, h.2.2.1⟩), if_neg hc]

/-- the step of the recursion: front block, `trsm`, `syrk`, back block -/
theorem potrfSpec_compose (tb : Nat) (r : Rat → Rat) (n s sp bk : Nat) (hsp : 0 < sp)
    (he : s + sp + bk ≤ n) (M : Arr2) (hr : RootNZ r (sp + bk) (subM M s)) (R1 R2 : Arr2 × Nat)
    (H1 : PotrfSpec r n s sp M R1)
    (H2 : R1.2 = 0 →
      RootNZ r bk (subM (potrfSyrkStep n s (s + sp) (s + sp + bk)
        (potrfTrsmStep tb n s (s + sp) (s + sp + bk) R1.1)) (s + sp)) →
      PotrfSpec r n (s + sp) bk
        (potrfSyrkStep n s (s + sp) (s + sp + bk) (potrfTrsmStep tb n s (s + sp) (s + sp + bk) R1.1))
        R2) :
    PotrfSpec r n s (sp + bk) M
      (if R1.2 ≠ 0 then R1 else (R2.1, if R2.2 ≠ 0 then R2.2 + sp else 0)) := by
  -- notation
  have hC : ∀ a c, subM M s a c = mget M (s + a) (s + c) := fun _ _ => rfl
  obtain ⟨hpre, hprepiv⟩ := chol_prefix r (Nat.le_add_right sp bk) (subM M s) (subM M s)
    (fun _ _ _ _ => rfl)
  -- return value of the whole block, split at `sp`
  have hinfo := potrfInfo_eq_infoP r (sp + bk) (subM M s)
  rw [infoP_add] at hinfo
  have hfront : infoP sp (fun j => decide (cholPivot r (sp + bk) (subM M s) j ≤ 0)) = R1.2 := by
    rw [H1.1, potrfInfo_eq_infoP]
    exact infoP_congr fun j hj => by rw [hprepiv j hj]
  rw [hfront] at hinfo
  by_cases h0 : R1.2 = 0
  swap
  · -- the front block is rejected
    rw [if_pos h0] at hinfo
    rw [if_pos h0]
    exact ⟨hinfo.symm, fun h => absurd h h0⟩
  · rw [if_neg (by omega)] at hinfo
    rw [if_neg (by omega)]
    -- the front block is factorised: positive pivots, non-zero diagonal
    have hpiv : ∀ j, j < sp → 0 < cholPivot r (sp + bk) (subM M s) j := by
      intro j hj
      have h1 : potrfInfo false r sp (subM M s) = 0 := by rw [← H1.1]; exact h0
      have h2 := infoOf_zero h1 j hj
      simp only [Bool.false_eq_true, if_false, not_le] at h2
      rw [← hprepiv j hj]
      exact h2
    have hdiag : ∀ c, c < sp → chol r (sp + bk) (subM M s) c c ≠ 0 := by
      intro c hc
      rw [chol_entry r (sp + bk) (subM M s) (by omega : c < sp + bk) (by omega : c < sp + bk),
        if_neg (by omega), if_pos rfl]
      exact hr c (by omega) (hpiv c hc)
    -- M1: after the front block
    have hM1 : ∀ i j, i < n → j < n → mget R1.1 i j =
        if s ≤ j ∧ j ≤ i ∧ i < s + sp then chol r (sp + bk) (subM M s) (i - s) (j - s)
        else mget M i j := by
      intro i j hi hj
      rw [H1.2 h0 i j hi hj]
      by_cases hc : s ≤ j ∧ j ≤ i ∧ i < s + sp
      · rw [if_pos hc, if_pos hc, hpre (i - s) (j - s) (by omega) (by omega)]
      · rw [if_neg hc, if_neg hc]
    -- M2: after the trsm
    have hM2 : ∀ i j, i < n → j < n →
        mget (potrfTrsmStep tb n s (s + sp) (s + sp + bk) R1.1) i j =
          if s + sp ≤ i ∧ i < s + sp + bk ∧ s ≤ j ∧ j < s + sp then
            chol r (sp + bk) (subM M s) (i - s) (j - s)
          else mget R1.1 i j := by
      intro i j hi hj
      unfold potrfTrsmStep
      rw [mget_matOf, if_pos ⟨hi, hj⟩]
      by_cases hc : s + sp ≤ i ∧ i < s + sp + bk ∧ s ≤ j ∧ j < s + sp
      · rw [if_pos hc, if_pos hc]
        have e1 : s + sp - s = sp := by omega
        have e2 : s + sp + bk - (s + sp) = bk := by omega
        rw [e1, e2]
        -- the blocked trsm is the unblocked one
        have hreg : triSingular ⟨true, false⟩ sp (fun a c => mget R1.1 (s + c) (s + a)) = false := by
          rw [← regular_iff_not_singular]
          intro _ c hc'
          show mget R1.1 (s + c) (s + c) ≠ 0
          rw [hM1 (s + c) (s + c) (by omega) (by omega), if_pos (by omega)]
          have : s + c - s = c := by omega
          rw [this]
          exact hdiag c hc'
        have hk : i - (s + sp) < bk := by omega
        have hjs : j - s < sp := by omega
        have hbl := trsmBlocked_eq_trsm_right tb ⟨true, false⟩ sp bk
          (fun a c => mget R1.1 (s + c) (s + a)) (fun a c => mget R1.1 (s + sp + a) (s + c)) hreg
          (i - (s + sp)) (j - s) hk hjs
        have hbl' : mget (trsmBlockedArr tb ⟨true, false⟩ false sp bk
            (fun a c => mget R1.1 (s + c) (s + a)) (fun a c => mget R1.1 (s + sp + a) (s + c)))
            (j - s) (i - (s + sp))
            = trsm ⟨true, false⟩ false sp bk
              (fun a c => mget R1.1 (s + c) (s + a)) (fun a c => mget R1.1 (s + sp + a) (s + c))
              (i - (s + sp)) (j - s) := hbl
        rw [hbl', trsm_right_entry _ _ _ _ _ hk, vget_trsvLeftArr _ _ _ _ hjs]
        show fwd false sp _ _ (j - s) = _
        symm
        apply fwd_unique false sp _ _ (fun c => chol r (sp + bk) (subM M s) (i - s) c) _ _ (j - s) hjs
        · intro c hc'
          show mget R1.1 (s + c) (s + c) ≠ 0
          rw [hM1 (s + c) (s + c) (by omega) (by omega), if_pos (by omega)]
          have : s + c - s = c := by omega
          rw [this]
          exact hdiag c hc'
        · intro c hc'
          show sum c (fun k => mget R1.1 (s + c) (s + k) * chol r (sp + bk) (subM M s) (i - s) k)
              + mget R1.1 (s + c) (s + c) * chol r (sp + bk) (subM M s) (i - s) c
              = mget R1.1 (s + sp + (i - (s + sp))) (s + c)
          have hrow : ∀ k, k ≤ c →
              mget R1.1 (s + c) (s + k) = chol r (sp + bk) (subM M s) c k := by
            intro k hk'
            rw [hM1 (s + c) (s + k) (by omega) (by omega), if_pos (by omega)]
            have a1 : s + c - s = c := by omega
            have a2 : s + k - s = k := by omega
            rw [a1, a2]
          have hsum : sum c (fun k => mget R1.1 (s + c) (s + k) * chol r (sp + bk) (subM M s) (i - s) k)
              = sum c (fun k => chol r (sp + bk) (subM M s) c k * chol r (sp + bk) (subM M s) (i - s) k) :=
            sum_congr fun k hk' => by rw [hrow k (by omega)]
          have hi' : s + sp + (i - (s + sp)) = i := by omega
          rw [hsum, hrow c (Nat.le_refl _), hi', hM1 i (s + c) hi (by omega), if_neg (by omega)]
          have hb := chol_below r (sp + bk) (subM M s) (a := i - s) (c := c) (by omega) (by omega)
            (hdiag c hc')
          rw [hb, hC]
          have : s + (i - s) = i := by omega
          rw [this]
      · rw [if_neg hc, if_neg hc]
    -- M3: after the syrk
    have hM3 : ∀ i j, i < n → j < n →
        mget (potrfSyrkStep n s (s + sp) (s + sp + bk)
          (potrfTrsmStep tb n s (s + sp) (s + sp + bk) R1.1)) i j =
          if s + sp ≤ j ∧ j ≤ i ∧ i < s + sp + bk then
            mget M i j - sum sp (fun k => chol r (sp + bk) (subM M s) (i - s) k
              * chol r (sp + bk) (subM M s) (j - s) k)
          else mget (potrfTrsmStep tb n s (s + sp) (s + sp + bk) R1.1) i j := by
      intro i j hi hj
      unfold potrfSyrkStep
      rw [mget_matOf, if_pos ⟨hi, hj⟩]
      by_cases hc : s + sp ≤ j ∧ j ≤ i ∧ i < s + sp + bk
      · rw [if_pos hc, if_pos hc]
        have e1 : s + sp - s = sp := by omega
        rw [e1, hM2 i j hi hj, if_neg (by omega), hM1 i j hi hj, if_neg (by omega)]
        congr 1
        apply sum_congr
        intro k hk
        rw [hM2 i (s + k) hi (by omega), if_pos (by omega),
          hM2 j (s + k) hj (by omega), if_pos (by omega)]
        have : s + k - s = k := by omega
        rw [this]
      · rw [if_neg hc, if_neg hc]
    -- the back block is the Schur complement
    have hschur := chol_schur r (sp + bk) (subM M s) sp bk (Nat.le_refl _)
      (subM (potrfSyrkStep n s (s + sp) (s + sp + bk)
        (potrfTrsmStep tb n s (s + sp) (s + sp + bk) R1.1)) (s + sp))
      (by
        intro a c ha hca
        show mget _ (s + sp + a) (s + sp + c) = _
        rw [hM3 (s + sp + a) (s + sp + c) (by omega) (by omega), if_pos (by omega), hC]
        have a1 : s + sp + a - s = sp + a := by omega
        have a2 : s + sp + c - s = sp + c := by omega
        have a3 : s + (sp + a) = s + sp + a := by omega
        have a4 : s + (sp + c) = s + sp + c := by omega
        rw [a1, a2, a3, a4])
    have hbackpiv : ∀ j, j < bk →
        cholPivot r bk (subM (potrfSyrkStep n s (s + sp) (s + sp + bk)
          (potrfTrsmStep tb n s (s + sp) (s + sp + bk) R1.1)) (s + sp)) j
        = cholPivot r (sp + bk) (subM M s) (sp + j) := by
      intro j hj
      rw [cholPivot_eq, cholPivot_eq]
      exact (hschur j hj).2 j hj (Nat.le_refl _)
    have hrback : RootNZ r bk (subM (potrfSyrkStep n s (s + sp) (s + sp + bk)
        (potrfTrsmStep tb n s (s + sp) (s + sp + bk) R1.1)) (s + sp)) := by
      intro j hj hpos
      rw [hbackpiv j hj] at hpos ⊢
      exact hr (sp + j) (by omega) hpos
    obtain ⟨hB1, hB2⟩ := H2 h0 hrback
    have hback : infoP bk (fun j => decide (cholPivot r (sp + bk) (subM M s) (sp + j) ≤ 0)) = R2.2 := by
      rw [hB1, potrfInfo_eq_infoP]
      exact infoP_congr fun j hj => by rw [hbackpiv j hj]
    rw [hback] at hinfo
    constructor
    · exact hinfo.symm
    · intro hz i j hi hj
      have hz2 : R2.2 = 0 := by
        by_cases h : R2.2 = 0
        · exact h
        · simp only [ne_eq, h, not_false_eq_true, if_true] at hz; omega
      show mget R2.1 i j = _
      rw [hB2 hz2 i j hi hj]
      by_cases c1 : s + sp ≤ j ∧ j ≤ i ∧ i < s + sp + bk
      · -- back block
        rw [if_pos c1, if_pos (by omega), (hschur (j - (s + sp)) (by omega)).1 (i - (s + sp)) (by omega)]
        have a1 : sp + (i - (s + sp)) = i - s := by omega
        have a2 : sp + (j - (s + sp)) = j - s := by omega
        rw [a1, a2]
      · rw [if_neg c1, hM3 i j hi hj, if_neg c1, hM2 i j hi hj]
        by_cases c2 : s + sp ≤ i ∧ i < s + sp + bk ∧ s ≤ j ∧ j < s + sp
        · -- rows below the front block
          rw [if_pos c2, if_pos (by omega)]
        · rw [if_neg c2, hM1 i j hi hj]
          by_cases c3 : s ≤ j ∧ j ≤ i ∧ i < s + sp
          · rw [if_pos c3, if_pos (by omega)]
          · rw [if_neg c3, if_neg (by omega)]

/-! ### the recursion -/

theorem potrfRec_base {bs : Nat} (tb : Nat) (r : Rat → Rat) (n : Nat) {s e : Nat}
    (hsz : e - s ≤ bs ∨ bs = 0) (M : Arr2) :
    potrfRec bs tb r n s e M = potrfBlockStep r n s e M := by
  rw [potrfRec.eq_1 bs tb r n s e M, dif_pos hsz]

theorem potrfRec_step {bs : Nat} (tb : Nat) (r : Rat → Rat) (n : Nat) {s e : Nat}
    (hbs : 1 ≤ bs) (hsz : bs < e - s) (M : Arr2) :
    potrfRec bs tb r n s e M =
      if (potrfRec bs tb r n s (s + trsmSplit bs (e - s)) M).2 ≠ 0 then
        potrfRec bs tb r n s (s + trsmSplit bs (e - s)) M
      else
        ((potrfRec bs tb r n (s + trsmSplit bs (e - s)) e
            (potrfSyrkStep n s (s + trsmSplit bs (e - s)) e
              (potrfTrsmStep tb n s (s + trsmSplit bs (e - s)) e
                (potrfRec bs tb r n s (s + trsmSplit bs (e - s)) M).1))).1,
          if (potrfRec bs tb r n (s + trsmSplit bs (e - s)) e
            (potrfSyrkStep n s (s + trsmSplit bs (e - s)) e
              (potrfTrsmStep tb n s (s + trsmSplit bs (e - s)) e
                (potrfRec bs tb r n s (s + trsmSplit bs (e - s)) M).1))).2 ≠ 0 then
            (potrfRec bs tb r n (s + trsmSplit bs (e - s)) e
              (potrfSyrkStep n s (s + trsmSplit bs (e - s)) e
                (potrfTrsmStep tb n s (s + trsmSplit bs (e - s)) e
                  (potrfRec bs tb r n s (s + trsmSplit bs (e - s)) M).1))).2 + trsmSplit bs (e - s)
          else 0) := by
  rw [potrfRec.eq_1 bs tb r n s e M, dif_neg (by omega)]

/-- **the recursion does what the unblocked kernel does**, on every diagonal block, for every
block size -/
theorem potrfRec_spec (bs tb : Nat) (r : Rat → Rat) (n : Nat) :
    ∀ d s e (M : Arr2), e - s = d → s ≤ e → e ≤ n → RootNZ r d (subM M s) →
      PotrfSpec r n s d M (potrfRec bs tb r n s e M) := by
  intro d
  induction d using Nat.strong_induction_on with
  | _ d ih =>
    intro s e M hd hse he hr
    by_cases hc : e - s ≤ bs ∨ bs = 0
    · rw [potrfRec_base tb r n hc, ← hd]
      exact potrfBlockStep_spec r n s e M hse
    · have hbs : 1 ≤ bs := by omega
      have hsz : bs < e - s := by omega
      obtain ⟨sp0, sp1⟩ := split_lt hbs hsz
      rw [potrfRec_step tb r n hbs hsz]
      generalize trsmSplit bs (e - s) = sp at sp0 sp1 ⊢
      obtain ⟨bk, rfl⟩ : ∃ bk, e = s + sp + bk := ⟨e - s - sp, by omega⟩
      have hd' : d = sp + bk := by omega
      subst hd'
      have hrfront : RootNZ r sp (subM M s) := by
        obtain ⟨_, hp⟩ := chol_prefix r (Nat.le_add_right sp bk) (subM M s) (subM M s)
          (fun _ _ _ _ => rfl)
        intro j hj hpos
        rw [hp j hj] at hpos ⊢
        exact hr j (by omega) hpos
      exact potrfSpec_compose tb r n s sp bk sp0 he M hr _ _
        (ih sp (by omega) s (s + sp) M (by omega) (by omega) (by omega) hrfront)
        (fun _ hrb => ih bk (by omega) (s + sp) (s + sp + bk) _ (by omega) (by omega) he hrb)

/-! ### the whole call -/

/-- **Blocking does not change the Cholesky factorisation.**  For every block size `bs` of
`potrf_recursive` and `tb` of the `trsm` it calls (both 32 in the C++), every size and every input
whose root parameter does not vanish on the positive pivots: the return value is that of the
unblocked loop, and if it is `0` the matrix left in place is the one the unblocked loop leaves
(factor on and below the diagonal, input above). -/
theorem potrfBlocked_eq (bs tb : Nat) (r : Rat → Rat) (n : Nat) (A : Mat) (hr : RootNZ r n A) :
    potrfBlockedInfo bs tb r n A = potrfInfo false r n A ∧
    (potrfInfo false r n A = 0 → ∀ i j, i < n → j < n →
      potrfBlockedLower bs tb r n A i j = potrfLower r n A i j) := by
  -- the materialised input agrees with `A` on the block
  obtain ⟨hch, hpiv⟩ := chol_prefix r (Nat.le_refl n) A (subM (matOf n n A) 0) (by
    intro a c ha hca
    show mget (matOf n n A) (0 + a) (0 + c) = A a c
    rw [mget_matOf, Nat.zero_add, Nat.zero_add, if_pos ⟨ha, by omega⟩])
  have hr' : RootNZ r n (subM (matOf n n A) 0) := by
    intro j hj hpos
    rw [hpiv j hj] at hpos ⊢
    exact hr j hj hpos
  obtain ⟨h1, h2⟩ := potrfRec_spec bs tb r n n 0 n (matOf n n A) rfl (Nat.zero_le _) (Nat.le_refl _) hr'
  have hinfo : potrfInfo false r n (subM (matOf n n A) 0) = potrfInfo false r n A := by
    rw [potrfInfo_eq_infoP, potrfInfo_eq_infoP]
    exact infoP_congr fun j hj => by rw [hpiv j hj]
  constructor
  · show (potrfRec bs tb r n 0 n (matOf n n A)).2 = _
    rw [h1, hinfo]
  · intro h0 i j hi hj
    show mget (potrfRec bs tb r n 0 n (matOf n n A)).1 i j = _
    rw [h2 (by rw [h1, hinfo, h0]) i j hi hj]
    have hL : potrfLower r n A i j = if j ≤ i then chol r n A i j else A i j := by
      unfold potrfLower potrfOut
      rw [mget_matOf, if_pos ⟨hi, hj⟩]
      rfl
    rw [hL]
    by_cases hc : j ≤ i
    · rw [if_pos (by omega : 0 ≤ j ∧ j ≤ i ∧ i < 0 + n), if_pos hc, Nat.sub_zero, Nat.sub_zero,
        hch i j hi hj]
    · rw [if_neg (by omega : ¬ (0 ≤ j ∧ j ≤ i ∧ i < 0 + n)), if_neg hc, mget_matOf,
        if_pos ⟨hi, hj⟩]

/-- the factor itself: lower triangle of the blocked result = `chol` -/
theorem potrfBlocked_chol (bs tb : Nat) (r : Rat → Rat) (n : Nat) (A : Mat) (hr : RootNZ r n A)
    (h0 : potrfInfo false r n A = 0) :
    ∀ i j, i < n → j ≤ i → potrfBlockedLower bs tb r n A i j = chol r n A i j := by
  intro i j hi hji
  have hj : j < n := by omega
  rw [(potrfBlocked_eq bs tb r n A hr).2 h0 i j hi hj]
  unfold potrfLower potrfOut
  rw [mget_matOf, if_pos ⟨hi, hj⟩, if_pos hji]
  rfl

/-! ### non-vacuity: a 2 × 2 system with block size 1 (garbage `9` in the unused triangle) -/

def exR : Rat → Rat := fun s => if s = 4 then 2 else 0
def exC : Mat := fun i j => if i = 0 ∧ j = 0 then 4 else if i = 1 ∧ j = 0 then 2 else if i = 1 ∧ j = 1 then 5 else 9

theorem exC_pivots : cholPivot exR 2 exC 0 = 4 ∧ cholPivot exR 2 exC 1 = 4 := by
  constructor
  · norm_num [cholPivot, pivotOf, sum, exC]
  · norm_num [cholPivot, pivotOf, sum, exC, exR, cholCols, tab, cholCol, mget, vget, vecOf]

theorem exC_rootNZ : RootNZ exR 2 exC := by
  intro j hj _
  have : j = 0 ∨ j = 1 := by omega
  rcases this with rfl | rfl
  · rw [exC_pivots.1]; norm_num [exR]
  · rw [exC_pivots.2]; norm_num [exR]

theorem exC_info : potrfInfo false exR 2 exC = 0 := by
  rw [potrfInfo_eq_infoP]
  have : infoP 2 (fun j => decide (cholPivot exR 2 exC j ≤ 0)) = infoP 2 (fun _ => false) :=
    infoP_congr fun j hj => by
      have : j = 0 ∨ j = 1 := by omega
      rcases this with rfl | rfl
      · rw [exC_pivots.1]; norm_num
      · rw [exC_pivots.2]; norm_num
  rw [this]; rfl

/-- the hypotheses of `potrfBlocked_eq` are satisfiable and its conclusion says something -/
example : potrfBlockedInfo 1 1 exR 2 exC = 0 := by
  rw [(potrfBlocked_eq 1 1 exR 2 exC exC_rootNZ).1]; exact exC_info

/-- with block size 1 a 2 × 2 matrix really goes through the recursion:
block kernel on `[0,1)`, `trsm`, `syrk`, block kernel on `[1,2)` -/
example (M : Arr2) : potrfRec 1 1 exR 2 0 2 M =
    if (potrfBlockStep exR 2 0 1 M).2 ≠ 0 then potrfBlockStep exR 2 0 1 M
    else ((potrfBlockStep exR 2 1 2 (potrfSyrkStep 2 0 1 2 (potrfTrsmStep 1 2 0 1 2 (potrfBlockStep exR 2 0 1 M).1))).1,
      if (potrfBlockStep exR 2 1 2 (potrfSyrkStep 2 0 1 2 (potrfTrsmStep 1 2 0 1 2 (potrfBlockStep exR 2 0 1 M).1))).2 ≠ 0 then
        (potrfBlockStep exR 2 1 2 (potrfSyrkStep 2 0 1 2 (potrfTrsmStep 1 2 0 1 2 (potrfBlockStep exR 2 0 1 M).1))).2 + 1 else 0) := by
  have e1 : trsmSplit 1 (2 - 0) = 1 := by decide
  rw [potrfRec_step 1 exR 2 (by decide) (by decide), e1,
    potrfRec_base 1 exR 2 (s := 0) (e := 0 + 1) (by decide),
    potrfRec_base 1 exR 2 (s := 0 + 1) (e := 2) (by decide)]

end SharkVerif.LinSolve
