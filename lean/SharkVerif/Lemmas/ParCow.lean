/-
C20: shared copies / batch subsets of one dataset used concurrently (copy-on-write model of `Data<T>`):
a copy or subset is a list of handles to immutable batches; creating one increments the batches' reference counts
(atomic fetch-add), using it reads the batch contents, dropping it decrements the counts; `makeIndependent` reads the
shared contents and writes fresh storage owned by the thread.  Operations as a small AST compiled to the machine.
-/
import SharkVerif.Lemmas.ParWide
namespace SharkVerif.Par

/-- operations of a thread on shared batches -/
inductive ROp where
  | inc  (l : Loc) (d : Int)      -- atomic fetch-add on reference count `l`
  | read (r : Nat) (l : Loc)      -- read (part of) a batch's contents
  | own  (l : Loc) (v : Int)      -- write thread-owned fresh storage (makeIndependent)

def ROp.compile : ROp → Instr Int
  | .inc l d => .crit l (fun _ v => v + d)
  | .read r l => .load r l
  | .own l v => .store l (fun _ => v)

def compileOps (ops : List ROp) : List (Instr Int) := ops.map ROp.compile

/-- net change a list of operations makes to count `l` -/
def netDelta (l : Loc) : List ROp → Int
  | [] => 0
  | .inc l' d :: rest => (if l' = l then d else 0) + netDelta l rest
  | _ :: rest => netDelta l rest

theorem critUpd_compile (l : Loc) (ops : List ROp) : ∀ (m : Store Int) (rs : Regs Int),
    (∀ u ∈ critUpd m rs (compileOps ops) l, ∀ v, u v = v + u 0) ∧
    deltaSum (critUpd m rs (compileOps ops) l) = netDelta l ops := by
  induction ops with
  | nil => intro m rs; simp [compileOps, critUpd, deltaSum, netDelta]
  | cons o ops ih =>
    intro m rs
    cases o with
    | inc l' d =>
      simp only [compileOps, List.map_cons, ROp.compile, critUpd]
      obtain ⟨h1, h2⟩ := ih (setLoc m l' (m l' + d)) rs
      by_cases e : l' = l
      · simp only [e, ↓reduceIte, List.singleton_append]
        refine ⟨?_, ?_⟩
        · intro u hu v
          rcases List.mem_cons.1 hu with rfl | hu
          · simp
          · exact h1 u (by simpa [compileOps, e] using hu) v
        · have : deltaSum ((fun v => v + d) :: critUpd (setLoc m l (m l + d)) rs (List.map ROp.compile ops) l) =
              d + deltaSum (critUpd (setLoc m l (m l + d)) rs (List.map ROp.compile ops) l) := by
            simp [deltaSum]
          rw [this]
          subst e
          simp only [compileOps] at h2
          rw [h2]; simp [netDelta]
      · simp only [e, ↓reduceIte, List.nil_append]
        refine ⟨fun u hu v => h1 u (by simpa [compileOps] using hu) v, ?_⟩
        simp only [compileOps] at h2
        rw [h2]; simp [netDelta, e]
    | read r l' =>
      simp only [compileOps, List.map_cons, ROp.compile, critUpd]
      obtain ⟨h1, h2⟩ := ih m (setReg rs r (m l'))
      exact ⟨fun u hu v => h1 u (by simpa [compileOps] using hu) v, by simpa [compileOps, netDelta] using h2⟩
    | own l' v =>
      simp only [compileOps, List.map_cons, ROp.compile, critUpd]
      obtain ⟨h1, h2⟩ := ih (setLoc m l' v) rs
      exact ⟨fun u hu w => h1 u (by simpa [compileOps] using hu) w, by simpa [compileOps, netDelta] using h2⟩

theorem compileOps_take (ops : List ROp) (k : Nat) : (compileOps ops).take k = compileOps (ops.take k) := by
  simp [compileOps, List.map_take]

theorem mem_crits_compile (l : Loc) (ops : List ROp) : l ∈ crits (compileOps ops) ↔ ∃ d, ROp.inc l d ∈ ops := by
  induction ops with
  | nil => simp [compileOps, crits]
  | cons o ops ih =>
    cases o with
    | inc l' d =>
      have e : crits (compileOps (ROp.inc l' d :: ops)) = l' :: crits (compileOps ops) := rfl
      rw [e, List.mem_cons, ih]
      constructor
      · rintro (rfl | ⟨d', h⟩)
        · exact ⟨d, List.mem_cons_self⟩
        · exact ⟨d', List.mem_cons_of_mem _ h⟩
      · rintro ⟨d', h⟩
        rcases List.mem_cons.1 h with h | h
        · left; injection h with h1 _
        · right; exact ⟨d', h⟩
    | read r l' => simp only [compileOps, List.map_cons, ROp.compile, crits, List.mem_cons] at *; rw [ih]; simp
    | own l' v => simp only [compileOps, List.map_cons, ROp.compile, crits, List.mem_cons] at *; rw [ih]; simp

theorem mem_reads_compile (l : Loc) (ops : List ROp) : l ∈ reads (compileOps ops) ↔ ∃ r, ROp.read r l ∈ ops := by
  induction ops with
  | nil => simp [compileOps, reads]
  | cons o ops ih =>
    cases o with
    | inc l' d => simp only [compileOps, List.map_cons, ROp.compile, reads, List.mem_cons] at *; rw [ih]; simp
    | read r l' =>
      have e : reads (compileOps (ROp.read r l' :: ops)) = l' :: reads (compileOps ops) := rfl
      rw [e, List.mem_cons, ih]
      constructor
      · rintro (rfl | ⟨r', h⟩)
        · exact ⟨r, List.mem_cons_self⟩
        · exact ⟨r', List.mem_cons_of_mem _ h⟩
      · rintro ⟨r', h⟩
        rcases List.mem_cons.1 h with h | h
        · left; injection h with _ h2
        · right; exact ⟨r', h⟩
    | own l' v => simp only [compileOps, List.map_cons, ROp.compile, reads, List.mem_cons] at *; rw [ih]; simp

theorem mem_writes_compile (l : Loc) (ops : List ROp) : l ∈ writes (compileOps ops) ↔ ∃ v, ROp.own l v ∈ ops := by
  induction ops with
  | nil => simp [compileOps, writes]
  | cons o ops ih =>
    cases o with
    | inc l' d => simp only [compileOps, List.map_cons, ROp.compile, writes, List.mem_cons] at *; rw [ih]; simp
    | read r l' => simp only [compileOps, List.map_cons, ROp.compile, writes, List.mem_cons] at *; rw [ih]; simp
    | own l' v =>
      have e : writes (compileOps (ROp.own l' v :: ops)) = l' :: writes (compileOps ops) := rfl
      rw [e, List.mem_cons, ih]
      constructor
      · rintro (rfl | ⟨v', h⟩)
        · exact ⟨v, List.mem_cons_self⟩
        · exact ⟨v', List.mem_cons_of_mem _ h⟩
      · rintro ⟨v', h⟩
        rcases List.mem_cons.1 h with h | h
        · left; injection h with h1 _
        · right; exact ⟨v', h⟩

end SharkVerif.Par
