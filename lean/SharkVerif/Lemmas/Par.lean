/-
C20 helper lemmas: data-race-free programs are schedule independent (invariant
proof over all interleavings), commuting critical updates are order independent.
-/
import SharkVerif.Model.Par
namespace SharkVerif.Par
variable {V : Type}

theorem solo_append (m : Store V) (rs : Regs V) (a b : List (Instr V)) :
    solo m rs (a ++ b) = solo (solo m rs a).1 (solo m rs a).2 b := by
  induction a generalizing m rs with
  | nil => rfl
  | cons i a ih => simp only [List.cons_append, solo]; exact ih _ _

/-- locations a program touches outside critical sections -/
def accessed (p : List (Instr V)) (l : Loc) : Prop := l ∈ reads p ∨ l ∈ writes p

theorem mem_reads_of_getElem {p : List (Instr V)} {k : Nat} {r : Nat} {l : Loc}
    (h : p[k]? = some (.load r l)) : l ∈ reads p := by
  induction p generalizing k with
  | nil => simp at h
  | cons i p ih =>
    cases k with
    | zero => simp at h; subst h; simp [reads]
    | succ k =>
      simp at h
      have := ih h
      cases i <;> simp [reads, this]

theorem mem_writes_of_getElem {p : List (Instr V)} {k : Nat} {f : Regs V → V} {l : Loc}
    (h : p[k]? = some (.store l f)) : l ∈ writes p := by
  induction p generalizing k with
  | nil => simp at h
  | cons i p ih =>
    cases k with
    | zero => simp at h; subst h; simp [writes]
    | succ k =>
      simp at h
      have := ih h
      cases i <;> simp [writes, this]

theorem mem_crits_of_getElem {p : List (Instr V)} {k : Nat} {f : Regs V → V → V} {l : Loc}
    (h : p[k]? = some (.crit l f)) : l ∈ crits p := by
  induction p generalizing k with
  | nil => simp at h
  | cons i p ih =>
    cases k with
    | zero => simp at h; subst h; simp [crits]
    | succ k =>
      simp at h
      have := ih h
      cases i <;> simp [crits, this]

/-- static data-race freedom: what one thread writes, no other thread reads or writes;
no critical sections (they are treated separately) -/
structure DRF (progs : Nat → List (Instr V)) : Prop where
  disj : ∀ t u, t ≠ u → ∀ l, l ∈ writes (progs t) → ¬ accessed (progs u) l
  nocrit : ∀ t, crits (progs t) = []

/-- initial configuration -/
def initCfg (m0 : Store V) (r0 : Nat → Regs V) (progs : Nat → List (Instr V)) : Cfg V :=
  { mem := m0, ths := fun t => { prog := progs t, regs := r0 t } }

/-- the invariant: every thread is at some position `k t` of its program, its registers and
the part of the store it touches are exactly those of its solo run of `k t` steps, and
locations nobody writes still hold their initial value -/
structure Sim (m0 : Store V) (r0 : Nat → Regs V) (progs : Nat → List (Instr V)) (c : Cfg V) : Prop where
  pos : ∀ t, ∃ k, (c.ths t).prog = (progs t).drop k ∧
        (c.ths t).regs = (solo m0 (r0 t) ((progs t).take k)).2 ∧
        ∀ l, accessed (progs t) l → c.mem l = (solo m0 (r0 t) ((progs t).take k)).1 l
  untouched : ∀ l, (∀ t, l ∉ writes (progs t)) → c.mem l = m0 l

theorem sim_init (m0 : Store V) (r0 : Nat → Regs V) (progs : Nat → List (Instr V)) :
    Sim m0 r0 progs (initCfg m0 r0 progs) := by
  constructor
  · intro t; exact ⟨0, by simp [initCfg], by simp [initCfg, solo], by intro l _; simp [initCfg, solo]⟩
  · intro l _; rfl

theorem take_succ_of_drop {α} {p : List α} {k : Nat} {i : α} {rest : List α}
    (h : p.drop k = i :: rest) : p.take (k+1) = p.take k ++ [i] ∧ p.drop (k+1) = rest ∧ p[k]? = some i := by
  have hk : k < p.length := by
    rcases Nat.lt_or_ge k p.length with h1 | h1
    · exact h1
    · rw [List.drop_eq_nil_of_le h1] at h; cases h
  have hi : p[k] = i := by
    have := List.getElem_drop (xs := p) (i := k) (j := 0) (h := by simp; omega)
    simp only [h, List.getElem_cons_zero, Nat.add_zero] at this
    exact this.symm
  refine ⟨?_, ?_, ?_⟩
  · rw [List.take_add_one, List.getElem?_eq_getElem hk, hi]; rfl
  · have : p.drop (k+1) = (p.drop k).drop 1 := by rw [List.drop_drop]
    rw [this, h]; rfl
  · rw [List.getElem?_eq_getElem hk, hi]

theorem sim_step {m0 : Store V} {r0 : Nat → Regs V} {progs : Nat → List (Instr V)} (hd : DRF progs)
    {c : Cfg V} (h : Sim m0 r0 progs c) (t : Nat) : Sim m0 r0 progs (step c t) := by
  unfold step
  split
  · exact h
  · rename_i i rest hprog
    obtain ⟨k, hk1, hk2, hk3⟩ := h.pos t
    rw [hk1] at hprog
    obtain ⟨htake, hdrop, hget⟩ := take_succ_of_drop hprog
    -- solo run of k+1 steps = solo run of k steps followed by `i`
    have hsolo : solo m0 (r0 t) ((progs t).take (k+1)) =
        exec (solo m0 (r0 t) ((progs t).take k)).1 (solo m0 (r0 t) ((progs t).take k)).2 i := by
      rw [htake, solo_append]; simp [solo]
    cases i with
    | load r l =>
      have hl : l ∈ reads (progs t) := mem_reads_of_getElem hget
      have hval := hk3 l (Or.inl hl)
      constructor
      · intro u
        by_cases e : u = t
        · subst e
          refine ⟨k+1, ?_, ?_, ?_⟩
          · simp [hdrop]
          · simp [hsolo, exec, hk2, hval]
          · intro l' hl'; simp [hsolo, exec]; exact hk3 l' hl'
        · obtain ⟨ku, h1, h2, h3⟩ := h.pos u
          exact ⟨ku, by simp [e, h1], by simp [e, h2], by intro l' hl'; simp [exec]; exact h3 l' hl'⟩
      · intro l' hl'; simp [exec]; exact h.untouched l' hl'
    | store l f =>
      have hl : l ∈ writes (progs t) := mem_writes_of_getElem hget
      constructor
      · intro u
        by_cases e : u = t
        · subst e
          refine ⟨k+1, ?_, ?_, ?_⟩
          · simp [hdrop]
          · simp [hsolo, exec, hk2]
          · intro l' hl'
            simp only [hsolo, exec, setLoc]
            by_cases e2 : l' = l
            · simp [e2, hk2]
            · simp [e2]; exact hk3 l' hl'
        · obtain ⟨ku, h1, h2, h3⟩ := h.pos u
          refine ⟨ku, by simp [e, h1], by simp [e, h2], ?_⟩
          intro l' hl'
          have : l' ≠ l := by
            intro e2; subst e2
            exact hd.disj t u (Ne.symm e) l' hl hl'
          simp [exec, setLoc, this]; exact h3 l' hl'
      · intro l' hl'
        have : l' ≠ l := by intro e2; subst e2; exact hl' t hl
        simp [exec, setLoc, this]; exact h.untouched l' hl'
    | crit l f =>
      have : l ∈ crits (progs t) := mem_crits_of_getElem hget
      rw [hd.nocrit t] at this; simp at this

theorem sim_run {m0 : Store V} {r0 : Nat → Regs V} {progs : Nat → List (Instr V)} (hd : DRF progs)
    (sched : List Nat) : ∀ {c : Cfg V}, Sim m0 r0 progs c → Sim m0 r0 progs (run c sched) := by
  induction sched with
  | nil => intro c h; exact h
  | cons t s ih => intro c h; exact ih (sim_step hd h t)

/-- the result of the parallel loop as defined by the solo runs: a location written by
thread `t` gets `t`'s solo value, every other location keeps its initial value -/
def IsResult (m0 : Store V) (r0 : Nat → Regs V) (progs : Nat → List (Instr V)) (m : Store V) : Prop :=
  (∀ t l, l ∈ writes (progs t) → m l = (solo m0 (r0 t) (progs t)).1 l) ∧
  (∀ l, (∀ t, l ∉ writes (progs t)) → m l = m0 l)

/-- a schedule is complete for a configuration when every thread has finished -/
def Finished (c : Cfg V) : Prop := ∀ t, (c.ths t).prog = []

theorem result_of_finished {m0 : Store V} {r0 : Nat → Regs V} {progs : Nat → List (Instr V)}
    {c : Cfg V} (h : Sim m0 r0 progs c) (hf : Finished c) : IsResult m0 r0 progs c.mem := by
  constructor
  · intro t l hl
    obtain ⟨k, h1, _, h3⟩ := h.pos t
    have hk : (progs t).length ≤ k := by
      have := hf t; rw [h1] at this
      exact List.drop_eq_nil_iff.1 this
    rw [h3 l (Or.inr hl), List.take_of_length_le hk]
  · exact h.untouched

theorem isResult_unique {m0 : Store V} {r0 : Nat → Regs V} {progs : Nat → List (Instr V)}
    {m m' : Store V} (h : IsResult m0 r0 progs m) (h' : IsResult m0 r0 progs m') : m = m' := by
  funext l
  by_cases hw : ∃ t, l ∈ writes (progs t)
  · obtain ⟨t, ht⟩ := hw
    rw [h.1 t l ht, h'.1 t l ht]
  · have : ∀ t, l ∉ writes (progs t) := fun t ht => hw ⟨t, ht⟩
    rw [h.2 l this, h'.2 l this]

/-! ### commuting atomic updates (critical-section reductions) -/

/-- applying a list of update functions in order -/
def applyAll (v : V) (us : List (V → V)) : V := us.foldl (fun a u => u a) v

theorem applyAll_perm {us vs : List (V → V)} (hp : us.Perm vs)
    (hc : ∀ f ∈ us, ∀ g ∈ us, ∀ v, f (g v) = g (f v)) (v : V) : applyAll v us = applyAll v vs := by
  induction hp generalizing v with
  | nil => rfl
  | cons x _ ih =>
    simp only [applyAll, List.foldl_cons]
    exact ih (fun f hf g hg => hc f (List.mem_cons_of_mem _ hf) g (List.mem_cons_of_mem _ hg)) _
  | swap x y l =>
    simp only [applyAll, List.foldl_cons]
    rw [hc x (by simp) y (by simp)]
  | trans h1 h2 ih1 ih2 =>
    rw [ih1 hc, ih2 (fun f hf g hg => hc f (h1.mem_iff.2 hf) g (h1.mem_iff.2 hg))]

end SharkVerif.Par
