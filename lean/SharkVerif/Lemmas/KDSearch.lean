/-
C17: the trace tree `kdTrace pq q dist t b` of a query on a kd-tree satisfies the hypotheses of the
search theorems (`Fresh`, `LeavesNonempty`, `LbAdm`, `LeafUniform`), for the leaf queue of the C++ as it
is (`pq = false`) and for the point queue (`pq = true`).

NOTE on `kdTrace_lbAdm`: `STree.InBoxes` (every point lies in the cell of its LEAF) does not imply that a
point lies in the cell of every inner node above it: `Box.left/right` OVERWRITE the bound in the cut
dimension (as `KDTree::lower/upper` do), they do not intersect, so a child's cell is inside the parent's
cell only if the threshold lies inside the parent's cell.  `LbAdm` needs the bound of every node's own
cell, so the hypothesis used here is `STree.NodeBoxes` (every point below a node lies in the node's
cell), which `buildKD`/`kdTree` establish and `SameCells`/`adoptKD` keep; the counterexample to the
version with `InBoxes` is `inBoxes_not_lbAdm` below.
-/
import SharkVerif.Lemmas.KDBuild
import SharkVerif.Lemmas.NN
namespace SharkVerif.NN

/-! ## Queue entries of a leaf -/

theorem kd_qpts_leafEntries (pq : Bool) (dist : Nat → Rat) (rank : Nat) (ix : List Nat) :
    qpts (leafEntries pq dist rank ix) = ix := by
  cases pq with
  | false => simp [leafEntries, qpts]
  | true =>
    simp only [leafEntries, if_true, qpts]
    induction ix with
    | nil => rfl
    | cons i is ih => simp only [List.map_cons, List.flatMap_cons, ih]; rfl

theorem kdTrace_pts (pq : Bool) (q : Point) (dist : Nat → Rat) : ∀ (t : STree) (b : Box),
    (kdTrace pq q dist t b).pts = t.idx
  | .leaf rank ix, b => by simp only [kdTrace, TTree.pts, STree.idx, kd_qpts_leafEntries]
  | .node _ cd thr l r, b => by
    simp only [kdTrace, TTree.pts, STree.idx, kdTrace_pts pq q dist l, kdTrace_pts pq q dist r]

theorem kdTrace_fresh (pq : Bool) (q : Point) (dist : Nat → Rat) : ∀ (t : STree) (b : Box),
    Fresh (kdTrace pq q dist t b)
  | .leaf rank ix, b => by simp only [kdTrace, Fresh]
  | .node _ cd thr l r, b => by
    simp only [kdTrace, Fresh]
    exact ⟨trivial, kdTrace_fresh pq q dist l _, kdTrace_fresh pq q dist r _⟩

theorem kd_leafEntries_nonempty (pq : Bool) (dist : Nat → Rat) (rank : Nat) {ix : List Nat} (h : ix ≠ []) :
    leafEntries pq dist rank ix ≠ [] ∧ ∀ e ∈ leafEntries pq dist rank ix, e.pts ≠ [] := by
  cases pq with
  | false =>
    simp only [leafEntries, Bool.false_eq_true, if_false]
    refine ⟨by simp, ?_⟩
    intro e he
    simp only [List.mem_singleton] at he
    subst he
    exact h
  | true =>
    simp only [leafEntries, if_true]
    refine ⟨by simpa using h, ?_⟩
    intro e he
    obtain ⟨i, _, rfl⟩ := List.mem_map.mp he
    simp

theorem kdTrace_leavesNonempty (pq : Bool) (q : Point) (dist : Nat → Rat) : ∀ (t : STree) (b : Box),
    t.LeavesNE → LeavesNonempty (kdTrace pq q dist t b)
  | .leaf rank ix, b, h => by
    simp only [STree.LeavesNE] at h
    simp only [kdTrace, LeavesNonempty]
    exact kd_leafEntries_nonempty pq dist rank h
  | .node _ cd thr l r, b, h => by
    simp only [STree.LeavesNE] at h
    simp only [kdTrace, LeavesNonempty]
    exact ⟨kdTrace_leavesNonempty pq q dist l _ h.1, kdTrace_leavesNonempty pq q dist r _ h.2⟩

/-! ## Every point lies in the cell of every node above it -/

/-- every point stored below a node lies in the node's OWN cell (`STree.InBoxes` says this for the
leaves only) -/
def STree.NodeBoxes (P : Nat → Point) : Box → STree → Prop
  | b, .leaf _ ix => ∀ i ∈ ix, InBox P b i
  | b, .node _ cd thr l r => (∀ i ∈ l.idx ++ r.idx, InBox P b i) ∧
      STree.NodeBoxes P (b.left cd thr) l ∧ STree.NodeBoxes P (b.right cd thr) r

theorem STree.NodeBoxes.idx {P : Nat → Point} : ∀ {t : STree} {b : Box}, t.NodeBoxes P b →
    ∀ i ∈ t.idx, InBox P b i
  | .leaf _ ix, b, h => by simpa only [STree.NodeBoxes, STree.idx] using h
  | .node _ cd thr l r, b, h => by
    simp only [STree.NodeBoxes] at h
    simpa only [STree.idx] using h.1

theorem STree.NodeBoxes.inBoxes {P : Nat → Point} : ∀ {t : STree} {b : Box}, t.NodeBoxes P b →
    t.InBoxes P b
  | .leaf _ ix, b, h => by simpa only [STree.NodeBoxes, STree.InBoxes] using h
  | .node _ cd thr l r, b, h => by
    simp only [STree.NodeBoxes] at h
    simp only [STree.InBoxes]
    exact ⟨h.2.1.inBoxes, h.2.2.inBoxes⟩

/-- a child's cell is inside the parent's cell when the threshold respects the parent's upper bound -/
theorem inBox_of_left {P : Nat → Point} {b : Box} {i cd : Nat} {thr : Rat}
    (hthr : ∀ u, b.hi cd = some u → thr ≤ u) (h : InBox P (b.left cd thr) i) : InBox P b i := by
  intro d
  refine ⟨(h d).1, ?_⟩
  intro u hu
  by_cases e : d = cd
  · subst e
    have := (h d).2 thr (by simp [Box.left])
    exact Rat.le_trans this (hthr u hu)
  · exact (h d).2 u (by simpa [Box.left, e] using hu)

theorem inBox_of_right {P : Nat → Point} {b : Box} {i cd : Nat} {thr : Rat}
    (hthr : ∀ l, b.lo cd = some l → l ≤ thr) (h : InBox P (b.right cd thr) i) : InBox P b i := by
  intro d
  refine ⟨?_, (h d).2⟩
  intro l hl
  by_cases e : d = cd
  · subst e
    have := (h d).1 thr (by simp [Box.right])
    exact Rat.le_trans (hthr l hl) this
  · exact (h d).1 l (by simpa [Box.right, e] using hl)

/-- the thresholds of all cuts lie inside the cells they cut -/
def STree.CutsIn : Box → STree → Prop
  | _, .leaf _ _ => True
  | b, .node _ cd thr l r => (∀ u, b.hi cd = some u → thr ≤ u) ∧ (∀ l, b.lo cd = some l → l ≤ thr) ∧
      STree.CutsIn (b.left cd thr) l ∧ STree.CutsIn (b.right cd thr) r

/-- `inBoxes_mono`: with cuts inside the cells, a point in the cell of its leaf lies in the cell of every
node above (without `CutsIn` this is false, see `inBoxes_not_lbAdm`) -/
theorem inBoxes_mono {P : Nat → Point} : ∀ {t : STree} {b : Box}, t.CutsIn b → t.InBoxes P b →
    ∀ i ∈ t.idx, InBox P b i
  | .leaf _ ix, b, _, h => by simpa only [STree.InBoxes, STree.idx] using h
  | .node _ cd thr l r, b, hc, h => by
    simp only [STree.CutsIn] at hc
    simp only [STree.InBoxes] at h
    intro i hi
    simp only [STree.idx] at hi
    rcases List.mem_append.mp hi with hi | hi
    · exact inBox_of_left hc.1 (inBoxes_mono hc.2.2.1 h.1 i hi)
    · exact inBox_of_right hc.2.1 (inBoxes_mono hc.2.2.2 h.2 i hi)

theorem inBoxes_nodeBoxes {P : Nat → Point} : ∀ {t : STree} {b : Box}, t.CutsIn b → t.InBoxes P b →
    t.NodeBoxes P b
  | .leaf _ ix, b, _, h => by simpa only [STree.InBoxes, STree.NodeBoxes] using h
  | .node n cd thr l r, b, hc, h => by
    have hm := inBoxes_mono (t := .node n cd thr l r) hc h
    simp only [STree.CutsIn] at hc
    simp only [STree.InBoxes] at h
    simp only [STree.NodeBoxes]
    exact ⟨by simpa only [STree.idx] using hm, inBoxes_nodeBoxes hc.2.2.1 h.1,
      inBoxes_nodeBoxes hc.2.2.2 h.2⟩

/-- the construction keeps every point in the cell of every node above it -/
theorem buildKD_nodeBoxes {P : Nat → Point} {dim bucket : Nat} (hb : 1 ≤ bucket) (hdim : 0 < dim) :
    ∀ (fuel depth : Nat) (idx : List Nat) (b : Box), (∀ i ∈ idx, InBox P b i) →
      (buildKD P dim bucket fuel depth idx).NodeBoxes P b
  | 0, _, idx, b, h => by
    simp only [buildKD, STree.NodeBoxes]; exact h
  | fuel + 1, depth, idx, b, h => by
    rcases buildKD_cases P dim bucket fuel depth idx with ⟨e, _⟩ | ⟨s, c1, _, c3, e⟩
    · rw [e]; simp only [STree.NodeBoxes]; exact h
    · rw [e]
      simp only [STree.NodeBoxes]
      have hn : 2 ≤ idx.length := by omega
      obtain ⟨m1, m2⟩ := splitList_mem c3
      obtain ⟨s1, s2⟩ := splitList_sep hn c3
      refine ⟨?_, buildKD_nodeBoxes hb hdim fuel _ s.left _ ?_, buildKD_nodeBoxes hb hdim fuel _ s.right _ ?_⟩
      · intro i hi
        rcases List.mem_append.mp hi with hi | hi
        · exact h i (m1 i ((buildKD_perm P dim bucket fuel _ s.left).subset hi))
        · exact h i (m2 i ((buildKD_perm P dim bucket fuel _ s.right).subset hi))
      · intro i hi
        exact inBox_left (h i (m1 i hi)) (Rat.le_of_lt (s1 i hi))
      · intro i hi
        exact inBox_right (h i (m2 i hi)) (Rat.le_of_lt (s2 i hi))

theorem kdTree_nodeBoxes {P : Nat → Point} {dim n maxDepth maxBucket : Nat} (hdim : 0 < dim) :
    (kdTree P dim n maxDepth maxBucket).NodeBoxes P Box.top :=
  buildKD_nodeBoxes (normBucket_pos _) hdim _ _ _ _ (fun i _ => inBox_top P i)

theorem SameCells.nodeBoxes {P : Nat → Point} : ∀ {a b : STree} {bx : Box}, SameCells a b →
    a.NodeBoxes P bx → b.NodeBoxes P bx
  | .leaf _ ix, .leaf _ ix', bx, h, hi => by
    simp only [SameCells] at h
    simp only [STree.NodeBoxes] at hi ⊢
    intro i hm
    exact hi i (h.symm.subset hm)
  | .node _ cd thr l r, .node _ cd' thr' l' r', bx, h, hi => by
    simp only [SameCells] at h
    obtain ⟨e1, e2, h1, h2⟩ := h
    subst e1; subst e2
    simp only [STree.NodeBoxes] at hi ⊢
    refine ⟨?_, h1.nodeBoxes hi.2.1, h2.nodeBoxes hi.2.2⟩
    intro i hm
    apply hi.1 i
    rcases List.mem_append.mp hm with hm | hm
    · exact List.mem_append_left _ (h1.idx_perm.symm.subset hm)
    · exact List.mem_append_right _ (h2.idx_perm.symm.subset hm)
  | .leaf .., .node .., _, h, _ => by simp [SameCells] at h
  | .node .., .leaf .., _, h, _ => by simp [SameCells] at h

/-! ## Admissible lower bounds -/

/-- the cell bounds of the trace tree are admissible: the bound stored at a node does not exceed the
squared distance of any point below the node -/
theorem kdTrace_lbAdm {P : Nat → Point} (pq : Bool) (q : Point) (dist : Nat → Rat)
    (hd : ∀ i, dist i = dist2 (P i) q) : ∀ (t : STree) (b : Box), t.NodeBoxes P b →
    (∀ i ∈ t.idx, (P i).length = q.length) → LbAdm dist (kdTrace pq q dist t b)
  | .leaf rank ix, b, h, hl => by
    simp only [STree.NodeBoxes] at h
    simp only [STree.idx] at hl
    simp only [kdTrace, LbAdm, kd_qpts_leafEntries]
    intro p hp
    rw [hd p]
    exact kdBound_le_dist2 (h p hp) (hl p hp)
  | .node _ cd thr l r, b, h, hl => by
    simp only [STree.NodeBoxes] at h
    simp only [STree.idx] at hl
    simp only [kdTrace, LbAdm, kdTrace_pts]
    refine ⟨?_, kdTrace_lbAdm pq q dist hd l _ h.2.1 (fun i hi => hl i (List.mem_append_left _ hi)),
      kdTrace_lbAdm pq q dist hd r _ h.2.2 (fun i hi => hl i (List.mem_append_right _ hi))⟩
    intro p hp
    rw [hd p]
    exact kdBound_le_dist2 (h.1 p hp) (hl p hp)

/-- the same from `InBoxes`, for trees whose cuts lie inside the cells they cut -/
theorem kdTrace_lbAdm_of_inBoxes {P : Nat → Point} (pq : Bool) (q : Point) (dist : Nat → Rat)
    (t : STree) (b : Box) (hc : t.CutsIn b) (h : t.InBoxes P b)
    (hl : ∀ i ∈ t.idx, (P i).length = q.length) (hd : ∀ i, dist i = dist2 (P i) q) :
    LbAdm dist (kdTrace pq q dist t b) :=
  kdTrace_lbAdm pq q dist hd t b (inBoxes_nodeBoxes hc h) hl

/-- `InBoxes` alone (even from the unbounded root cell) does not give admissible bounds: a cut at 0
followed, on its left, by a cut at 5 with the point 3 on the left of both.  The inner node's cell is
`x ≤ 0`; its bound for the query 10 is 100, the point is at squared distance 49. -/
theorem inBoxes_not_lbAdm :
    ∃ (P : Nat → Point) (q : Point) (t : STree),
      t.InBoxes P Box.top ∧ (∀ i ∈ t.idx, (P i).length = q.length) ∧
      ∀ pq, ¬ LbAdm (fun i => dist2 (P i) q) (kdTrace pq q (fun i => dist2 (P i) q) t Box.top) := by
  refine ⟨fun _ => [3], [10], .node 0 0 0 (.node 0 0 5 (.leaf 0 [0]) (.leaf 0 [])) (.leaf 0 []), ?_, ?_, ?_⟩
  · simp only [STree.InBoxes]
    refine ⟨⟨?_, by simp⟩, by simp⟩
    intro i hi d
    constructor
    · intro l hl; simp [Box.left, Box.top] at hl
    · intro u hu
      simp only [Box.left, Box.top] at hu
      split at hu
      · rename_i e; subst e
        cases hu
        simp only [coord, List.getD_cons_zero]
        decide +kernel
      · cases hu
  · intro i _; rfl
  · intro pq h
    simp only [kdTrace, LbAdm, TTree.pts, kd_qpts_leafEntries] at h
    have := h.2.1.1 0 (by simp)
    revert this
    simp only [kdBound, kdBoundFrom, Box.left, Box.top, boxTerm, dist2]
    decide +kernel

/-! ## Uniform leaves -/

/-- point queue: every entry is one point with its own distance -/
theorem kdTrace_leafUniform_pq (q : Point) (dist : Nat → Rat) : ∀ (t : STree) (b : Box),
    LeafUniform dist (kdTrace true q dist t b)
  | .leaf rank ix, b => by
    simp only [kdTrace, LeafUniform, leafEntries, if_true]
    intro e he p hp
    obtain ⟨i, _, rfl⟩ := List.mem_map.mp he
    simp only [List.mem_singleton] at hp
    subst hp
    rfl
  | .node _ cd thr l r, b => by
    simp only [kdTrace, LeafUniform]
    exact ⟨kdTrace_leafUniform_pq q dist l _, kdTrace_leafUniform_pq q dist r _⟩

/-- leaf queue: the entry of a leaf carries the distance of the leaf's first point; when all points of a
leaf coincide this is the distance of every point of the leaf -/
theorem kdTrace_leafUniform_lq {P : Nat → Point} {dim : Nat} (q : Point) (dist : Nat → Rat)
    (hd : ∀ i, dist i = dist2 (P i) q) : ∀ (t : STree) (b : Box), t.LeafSame P dim → t.LeavesNE →
    (∀ i ∈ t.idx, (P i).length = dim) → LeafUniform dist (kdTrace false q dist t b)
  | .leaf rank ix, b, hs, hne, hl => by
    simp only [STree.LeafSame] at hs
    simp only [STree.LeavesNE] at hne
    simp only [STree.idx] at hl
    simp only [kdTrace, LeafUniform, leafEntries, Bool.false_eq_true, if_false, List.mem_singleton]
    intro e he p hp
    subst he
    simp only at hp ⊢
    match ix, hne, hs, hl, hp with
    | i :: is, _, hs, hl, hp =>
      simp only [leafD]
      rw [hd p, hd i, leafSame_dist2 (hl p hp) (hl i (List.mem_cons_self ..))
        (hs p hp i (List.mem_cons_self ..))]
  | .node _ cd thr l r, b, hs, hne, hl => by
    simp only [STree.LeafSame] at hs
    simp only [STree.LeavesNE] at hne
    simp only [STree.idx] at hl
    simp only [kdTrace, LeafUniform]
    exact ⟨kdTrace_leafUniform_lq q dist hd l _ hs.1 hne.1 (fun i hi => hl i (List.mem_append_left _ hi)),
      kdTrace_leafUniform_lq q dist hd r _ hs.2 hne.2 (fun i hi => hl i (List.mem_append_right _ hi))⟩

end SharkVerif.NN
