/-
C06: gradients returned by the loss models are true derivatives — over `Real`.
The models are instantiated at a `Scalar ℝ` instance defined here.
-/
import Mathlib.Analysis.SpecialFunctions.Log.Deriv
import Mathlib.Analysis.SpecialFunctions.ExpDeriv
import Mathlib.Analysis.SpecialFunctions.Sqrt
import Mathlib.Algebra.BigOperators.Group.List.Basic
import Mathlib.Tactic.Ring
import Mathlib.Tactic.Linarith
import Mathlib.Tactic.FieldSimp
import SharkVerif.Model.Loss
namespace SharkVerif.Loss
open Scalar

@[reducible] noncomputable instance instScalarReal : Scalar ℝ where
  ofNat n := (n : ℝ)
  dyadic m e := (m : ℝ) / ((2 ^ e : ℕ) : ℝ)
  decLt := Classical.decRel _
  decLe := Classical.decRel _

theorem sumL_eq_sum_real (l : List ℝ) : sumL l = l.sum := by
  unfold sumL
  have : ∀ (acc : ℝ), l.foldl (· + ·) acc = acc + l.sum := by
    induction l with
    | nil => intro acc; simp
    | cons x xs ih => intro acc; simp [List.foldl_cons, ih]; ring
  simpa using this 0

@[simp] theorem ofNat_real (n : ℕ) : (Scalar.ofNat n : ℝ) = (n : ℝ) := rfl
theorem half_real : (half : ℝ) = 1 / 2 := by simp [half, Scalar.dyadic]
theorem two_real : (two : ℝ) = 2 := by simp [two, Scalar.ofNat]

theorem smax_zero_real (a : ℝ) : smax 0 a = max 0 a := by
  unfold smax
  split
  · rename_i h; rw [max_eq_right (le_of_lt h)]
  · rename_i h; rw [max_eq_left (not_lt.1 h)]

theorem sabs_real (a : ℝ) : sabs a = |a| := by
  unfold sabs
  split
  · rename_i h; rw [abs_of_neg h]
  · rename_i h; rw [abs_of_nonneg (not_lt.1 h)]

/-- **separable sums**: if the `j`-th term has derivative `d` w.r.t. the `j`-th prediction, so has
the whole sum `Σ_i g l_i p_i` w.r.t. that coordinate (all other coordinates fixed) -/
theorem hasDerivAt_zipWith_sum_set (g : ℝ → ℝ → ℝ) :
    ∀ (j : ℕ) (l p : List ℝ) (hl : j < l.length) (hp : j < p.length) (d : ℝ),
      HasDerivAt (fun t => g l[j] t) d p[j] →
      HasDerivAt (fun t => (List.zipWith g l (p.set j t)).sum) d p[j]
  | 0, a :: l, b :: p, _, _, d, h => by
    simp only [List.set_cons_zero, List.zipWith_cons_cons, List.sum_cons, List.getElem_cons_zero] at *
    exact h.add_const _
  | j+1, a :: l, b :: p, hl, hp, d, h => by
    simp only [List.set_cons_succ, List.zipWith_cons_cons, List.sum_cons, List.getElem_cons_succ] at *
    exact (hasDerivAt_zipWith_sum_set g j l p (by simpa using hl) (by simpa using hp) d h).const_add _

/-! ### SquaredLoss -/
theorem squaredEval_single (l q : List ℝ) :
    squaredEval [l] [q] = (1 / 2) * (List.zipWith (fun a b => (a - b) ^ 2) l q).sum := by
  unfold squaredEval zipSub
  simp only [List.zipWith_cons_cons, List.zipWith_nil_right, List.flatten_cons, List.flatten_nil, List.append_nil]
  rw [sumL_eq_sum_real, half_real, List.map_zipWith]
  congr 2
  simp [sqr, pow_two]

/-! ### HingeLoss (binary) -/
theorem hingeRowBinary_real (c : ℕ) (t : ℝ) :
    hingeRowBinary c [t] = max 0 (1 - (2 * (c : ℝ) - 1) * t) := by
  unfold hingeRowBinary
  simp only [List.getD_cons_zero]
  rw [smax_zero_real, two_real]
  rfl

/-! ### CrossEntropy -/
theorem hasDerivAt_log_one_add_exp_neg (y p : ℝ) :
    HasDerivAt (fun t => Real.log (1 + Real.exp (-y * t))) (-y * (1 - 1 / (1 + Real.exp (-y * p)))) p := by
  have hpos : 0 < 1 + Real.exp (-y * p) := by positivity
  have h1 : HasDerivAt (fun t => -y * t) (-y) p := by
    simpa using (hasDerivAt_id p).const_mul (-y)
  have h2 : HasDerivAt (fun t => Real.exp (-y * t)) (Real.exp (-y * p) * (-y)) p := h1.exp
  have h3 : HasDerivAt (fun t => 1 + Real.exp (-y * t)) (Real.exp (-y * p) * (-y)) p := h2.const_add 1
  have h4 := h3.log (ne_of_gt hpos)
  convert h4 using 1
  field_simp
  ring

/-- log-sum-exp is invariant under the `max` shift the C++ uses for numerical stability -/
theorem log_sum_exp_shift (p : List ℝ) (m : ℝ) (hne : p ≠ []) :
    Real.log ((p.map fun x => Real.exp (x - m)).sum) + m = Real.log ((p.map Real.exp).sum) := by
  have hfac : (p.map fun x => Real.exp (x - m)).sum = Real.exp (-m) * (p.map Real.exp).sum := by
    induction p with
    | nil => simp
    | cons a p ih =>
      by_cases hp : p = []
      · subst hp; simp [sub_eq_add_neg, Real.exp_add, mul_comm]
      · simp only [List.map_cons, List.sum_cons, ih hp]
        rw [sub_eq_add_neg, Real.exp_add]; ring
  have hpos : 0 < (p.map Real.exp).sum := by
    cases p with
    | nil => exact absurd rfl hne
    | cons a p =>
      simp only [List.map_cons, List.sum_cons]
      have : 0 ≤ (p.map Real.exp).sum := List.sum_nonneg (by
        intro x hx; obtain ⟨y, _, rfl⟩ := List.mem_map.1 hx; exact le_of_lt (Real.exp_pos y))
      have := Real.exp_pos a
      linarith
  rw [hfac, Real.log_mul (ne_of_gt (Real.exp_pos _)) (ne_of_gt hpos), Real.log_exp]
  ring

theorem sum_exp_shift (p : List ℝ) (m : ℝ) :
    (p.map fun x => Real.exp (x - m)).sum = Real.exp (-m) * (p.map Real.exp).sum := by
  induction p with
  | nil => simp
  | cons a p ih =>
    simp only [List.map_cons, List.sum_cons, ih]
    rw [sub_eq_add_neg, Real.exp_add]; ring

theorem sum_exp_pos (p : List ℝ) (hne : p ≠ []) : 0 < (p.map Real.exp).sum := by
  cases p with
  | nil => exact absurd rfl hne
  | cons a p =>
    simp only [List.map_cons, List.sum_cons]
    have : 0 ≤ (p.map Real.exp).sum := List.sum_nonneg (by
      intro x hx; obtain ⟨y, _, rfl⟩ := List.mem_map.1 hx; exact le_of_lt (Real.exp_pos y))
    have := Real.exp_pos a
    linarith

theorem zipWith_snd_eq_map (f : ℝ → ℝ) : ∀ (l q : List ℝ), q.length = l.length →
    List.zipWith (fun _ b => f b) l q = q.map f
  | [], [], _ => rfl
  | a :: l, b :: q, h => by
    simp only [List.zipWith_cons_cons, List.map_cons]
    rw [zipWith_snd_eq_map f l q (by simpa using h)]
  | [], _ :: _, h => by simp at h
  | _ :: _, [], h => by simp at h

/-- derivative of `t ↦ Σ_i exp(p_i)` with the `j`-th coordinate replaced by `t` -/
theorem hasDerivAt_sum_exp_set (p : List ℝ) (j : ℕ) (hj : j < p.length) :
    HasDerivAt (fun t => ((p.set j t).map Real.exp).sum) (Real.exp p[j]) p[j] := by
  have := hasDerivAt_zipWith_sum_set (fun _ b => Real.exp b) j p p hj hj _ (Real.hasDerivAt_exp p[j])
  refine this.congr_of_eventuallyEq (Filter.Eventually.of_forall fun t => ?_)
  simp only
  rw [zipWith_snd_eq_map Real.exp p (p.set j t) (by simp)]

theorem hasDerivAt_getD_set (p : List ℝ) (j c : ℕ) (hj : j < p.length) :
    HasDerivAt (fun t => (p.set j t).getD c 0) (if j = c then 1 else 0) p[j] := by
  by_cases h : j = c
  · subst h
    simp only [↓reduceIte]
    have : (fun t => (p.set j t).getD j 0) = fun t => t := by
      funext t; simp [List.getD_eq_getElem?_getD, hj]
    rw [this]; exact hasDerivAt_id _
  · simp only [h, ↓reduceIte]
    have : (fun t => (p.set j t).getD c 0) = fun _ => p.getD c 0 := by
      funext t; simp [List.getD_eq_getElem?_getD, List.getElem?_set_ne h]
    rw [this]; exact hasDerivAt_const _ _

end SharkVerif.Loss
