/-
C20: from a generated access summary to programs of the abstract machine.  A region described by a summary `s`,
with arbitrary computed values, compiles — for every number of iterations and every assignment of iterations to
threads — to thread programs that satisfy `CritOK`, hence fall under `crit_schedule_independent(_upto)`.
-/
import SharkVerif.Lemmas.ParSummary
import SharkVerif.Lemmas.ParCrit
namespace SharkVerif.Par
variable {V : Type}

theorem writes_append (a b : List (Instr V)) : writes (a ++ b) = writes a ++ writes b := by
  induction a with
  | nil => rfl
  | cons x a ih => cases x <;> simp [writes, ih]
theorem reads_append (a b : List (Instr V)) : reads (a ++ b) = reads a ++ reads b := by
  induction a with
  | nil => rfl
  | cons x a ih => cases x <;> simp [reads, ih]
theorem crits_append (a b : List (Instr V)) : crits (a ++ b) = crits a ++ crits b := by
  induction a with
  | nil => rfl
  | cons x a ih => cases x <;> simp [crits, ih]

theorem mem_writes_flatMap {α : Type} (f : α → List (Instr V)) (l : Loc) : ∀ xs : List α,
    l ∈ writes (xs.flatMap f) ↔ ∃ x ∈ xs, l ∈ writes (f x) := by
  intro xs; induction xs with
  | nil => simp [writes]
  | cons x xs ih => simp [List.flatMap_cons, writes_append, ih]
theorem mem_reads_flatMap {α : Type} (f : α → List (Instr V)) (l : Loc) : ∀ xs : List α,
    l ∈ reads (xs.flatMap f) ↔ ∃ x ∈ xs, l ∈ reads (f x) := by
  intro xs; induction xs with
  | nil => simp [reads]
  | cons x xs ih => simp [List.flatMap_cons, reads_append, ih]
theorem mem_crits_flatMap {α : Type} (f : α → List (Instr V)) (l : Loc) : ∀ xs : List α,
    l ∈ crits (xs.flatMap f) ↔ ∃ x ∈ xs, l ∈ crits (f x) := by
  intro xs; induction xs with
  | nil => simp [crits]
  | cons x xs ih => simp [List.flatMap_cons, crits_append, ih]

/-- the instructions iteration `i`, executed by thread `t`, performs on variable number `j` of class `c`: read the
slots it reads into register `j`, write the slots it writes (any value `val j i` computed from the registers), update
the lock-protected slots (any update `upd j i`) -/
def varInstrs (val : Nat → Nat → Regs V → V) (upd : Nat → Nat → Regs V → V → V) (t i j : Nat) (c : WClass) : List (Instr V) :=
  (rslots t c).map (fun x => Instr.load j (vloc j x)) ++
  ((wslots t i c).map (fun x => Instr.store (vloc j x) (val j i)) ++
   (cslots c).map (fun x => Instr.crit (vloc j x) (upd j i)))

theorem writes_map_load (j : Nat) (xs : List Nat) : writes (xs.map fun x => (Instr.load j (vloc j x) : Instr V)) = [] := by
  induction xs with | nil => rfl | cons x xs ih => simp [writes, ih]
theorem writes_map_crit (j : Nat) (f : Regs V → V → V) (xs : List Nat) : writes (xs.map fun x => Instr.crit (vloc j x) f) = [] := by
  induction xs with | nil => rfl | cons x xs ih => simp [writes, ih]
theorem writes_map_store (j : Nat) (f : Regs V → V) (xs : List Nat) : writes (xs.map fun x => Instr.store (vloc j x) f) = xs.map (vloc j) := by
  induction xs with | nil => rfl | cons x xs ih => simp [writes, ih]
theorem reads_map_load (j : Nat) (xs : List Nat) : reads (xs.map fun x => (Instr.load j (vloc j x) : Instr V)) = xs.map (vloc j) := by
  induction xs with | nil => rfl | cons x xs ih => simp [reads, ih]
theorem reads_map_crit (j : Nat) (f : Regs V → V → V) (xs : List Nat) : reads (xs.map fun x => Instr.crit (vloc j x) f) = [] := by
  induction xs with | nil => rfl | cons x xs ih => simp [reads, ih]
theorem reads_map_store (j : Nat) (f : Regs V → V) (xs : List Nat) : reads (xs.map fun x => Instr.store (vloc j x) f) = [] := by
  induction xs with | nil => rfl | cons x xs ih => simp [reads, ih]
theorem crits_map_load (j : Nat) (xs : List Nat) : crits (xs.map fun x => (Instr.load j (vloc j x) : Instr V)) = [] := by
  induction xs with | nil => rfl | cons x xs ih => simp [crits, ih]
theorem crits_map_crit (j : Nat) (f : Regs V → V → V) (xs : List Nat) : crits (xs.map fun x => Instr.crit (vloc j x) f) = xs.map (vloc j) := by
  induction xs with | nil => rfl | cons x xs ih => simp [crits, ih]
theorem crits_map_store (j : Nat) (f : Regs V → V) (xs : List Nat) : crits (xs.map fun x => Instr.store (vloc j x) f) = [] := by
  induction xs with | nil => rfl | cons x xs ih => simp [crits, ih]

theorem writes_varInstrs (val : Nat → Nat → Regs V → V) (upd : Nat → Nat → Regs V → V → V) (t i j : Nat) (c : WClass) :
    writes (varInstrs val upd t i j c) = (wslots t i c).map (vloc j) := by
  simp [varInstrs, writes_append, writes_map_load, writes_map_crit, writes_map_store]
theorem reads_varInstrs (val : Nat → Nat → Regs V → V) (upd : Nat → Nat → Regs V → V → V) (t i j : Nat) (c : WClass) :
    reads (varInstrs val upd t i j c) = (rslots t c).map (vloc j) := by
  simp [varInstrs, reads_append, reads_map_load, reads_map_crit, reads_map_store]
theorem crits_varInstrs (val : Nat → Nat → Regs V → V) (upd : Nat → Nat → Regs V → V → V) (t i j : Nat) (c : WClass) :
    crits (varInstrs val upd t i j c) = (cslots c).map (vloc j) := by
  simp [varInstrs, crits_append, crits_map_load, crits_map_crit, crits_map_store]

/-- one iteration of the region body -/
def iterProg (s : Summary) (val : Nat → Nat → Regs V → V) (upd : Nat → Nat → Regs V → V → V) (t i : Nat) : List (Instr V) :=
  (List.range s.vars.length).flatMap fun j => varInstrs val upd t i j (s.cls j)

/-- the program of thread `t`: its iterations, in the order `assign t` -/
def regionProgs (s : Summary) (val : Nat → Nat → Regs V → V) (upd : Nat → Nat → Regs V → V → V)
    (assign : Nat → List Nat) : Nat → List (Instr V) :=
  fun t => (assign t).flatMap (iterProg s val upd t)

theorem writesAt_of_mem (s : Summary) (val : Nat → Nat → Regs V → V) (upd : Nat → Nat → Regs V → V → V) (assign : Nat → List Nat)
    (t : Nat) (l : Loc) (h : l ∈ writes (regionProgs s val upd assign t)) : ∃ i ∈ assign t, WritesAt s t i l := by
  obtain ⟨i, hi, h⟩ := (mem_writes_flatMap _ l _).1 h
  obtain ⟨j, _, h⟩ := (mem_writes_flatMap _ l _).1 h
  rw [writes_varInstrs] at h
  obtain ⟨x, hx, rfl⟩ := List.mem_map.1 h
  exact ⟨i, hi, j, x, hx, rfl⟩

theorem readsAt_of_mem (s : Summary) (val : Nat → Nat → Regs V → V) (upd : Nat → Nat → Regs V → V → V) (assign : Nat → List Nat)
    (t : Nat) (l : Loc) (h : l ∈ reads (regionProgs s val upd assign t)) : ReadsAt s t l := by
  obtain ⟨i, _, h⟩ := (mem_reads_flatMap _ l _).1 h
  obtain ⟨j, _, h⟩ := (mem_reads_flatMap _ l _).1 h
  rw [reads_varInstrs] at h
  obtain ⟨x, hx, rfl⟩ := List.mem_map.1 h
  exact ⟨j, x, hx, rfl⟩

theorem critAt_of_mem (s : Summary) (val : Nat → Nat → Regs V → V) (upd : Nat → Nat → Regs V → V → V) (assign : Nat → List Nat)
    (t : Nat) (l : Loc) (h : l ∈ crits (regionProgs s val upd assign t)) : CritAt s l := by
  obtain ⟨i, _, h⟩ := (mem_crits_flatMap _ l _).1 h
  obtain ⟨j, _, h⟩ := (mem_crits_flatMap _ l _).1 h
  rw [crits_varInstrs] at h
  obtain ⟨x, hx, rfl⟩ := List.mem_map.1 h
  exact ⟨j, x, hx, rfl⟩

/-- **a race-free summary compiles to `CritOK` programs**, for every thread count `T`, every number of iterations,
every assignment of iterations to threads (an iteration runs on one thread), every computed value and update -/
theorem raceFree_programs_critOK (s : Summary) (hrf : RaceFree s) (T : Nat) (assign : Nat → List Nat)
    (hassign : ∀ t u, t ≠ u → ∀ i, i ∈ assign t → i ∉ assign u) (hfin : ∀ t, T ≤ t → assign t = [])
    (val : Nat → Nat → Regs V → V) (upd : Nat → Nat → Regs V → V → V) :
    CritOK T (regionProgs s val upd assign) := by
  obtain ⟨h1, h2⟩ := hrf
  refine ⟨?_, ?_, ?_⟩
  · intro t u htu l hl hacc
    obtain ⟨i, hi, hw⟩ := writesAt_of_mem s val upd assign t l hl
    rcases hacc with hr | hw'
    · exact (h1 t u i (i + 1) l htu (by omega) hw).2 (readsAt_of_mem s val upd assign u l hr)
    · obtain ⟨i', hi', hw''⟩ := writesAt_of_mem s val upd assign u l hw'
      have hne : i ≠ i' := fun e => hassign t u htu i hi (e ▸ hi')
      exact (h1 t u i i' l htu hne hw).1 hw''
  · intro t u l hl hacc
    have hc := critAt_of_mem s val upd assign t l hl
    rcases hacc with hr | hw
    · exact (h2 u 0 l hc).2 (readsAt_of_mem s val upd assign u l hr)
    · obtain ⟨i', _, hw'⟩ := writesAt_of_mem s val upd assign u l hw
      exact (h2 u i' l hc).1 hw'
  · intro t ht
    simp [regionProgs, hfin t ht]

/-- the generated obligation composed with the machine: summary `ok` ⇒ `CritOK` programs -/
theorem summary_programs_critOK (s : Summary) (hok : s.ok = true) (T : Nat) (assign : Nat → List Nat)
    (hassign : ∀ t u, t ≠ u → ∀ i, i ∈ assign t → i ∉ assign u) (hfin : ∀ t, T ≤ t → assign t = [])
    (val : Nat → Nat → Regs V → V) (upd : Nat → Nat → Regs V → V → V) :
    CritOK T (regionProgs s val upd assign) :=
  raceFree_programs_critOK s (summary_race_free s hok) T assign hassign hfin val upd

end SharkVerif.Par
