/-
Positive semi-definiteness of kernel functions (C05), over ℝ with Mathlib's
`Matrix.PosSemidef`: a kernel `κ : P → P → ℝ` is PSD iff for every finite family of
points its Gram matrix is positive semidefinite.  Closure lemmas (sum, non-negative
scaling, Schur/Hadamard product, powers, feature maps, rank-one kernels) and the
linear kernel.
-/
import Mathlib.Analysis.Matrix.Order
import SharkVerif.Lemmas.Kernels

set_option linter.unusedSectionVars false

namespace SharkVerif.Kernels
open Matrix

/-- `κ` is a positive semi-definite kernel: every finite Gram matrix is `Matrix.PosSemidef`
(Hermitian = symmetric, and `∑ᵢ ∑ⱼ cᵢ cⱼ κ(xᵢ,xⱼ) ≥ 0` for all coefficient vectors). -/
def IsPSD {P : Type} (κ : P → P → ℝ) : Prop :=
  ∀ (n : ℕ) (x : Fin n → P), (Matrix.of fun i j => κ (x i) (x j)).PosSemidef

namespace IsPSD
variable {P Q : Type}

theorem congr {κ κ' : P → P → ℝ} (h : IsPSD κ) (e : ∀ x z, κ' x z = κ x z) : IsPSD κ' := by
  have : κ' = κ := by funext x z; exact e x z
  rw [this]; exact h

theorem zero : IsPSD (fun _ _ : P => (0 : ℝ)) := fun n x => by
  have : (Matrix.of fun (_ _ : Fin n) => (0 : ℝ)) = 0 := by ext i j; rfl
  rw [this]; exact PosSemidef.zero

theorem add {κ₁ κ₂ : P → P → ℝ} (h₁ : IsPSD κ₁) (h₂ : IsPSD κ₂) : IsPSD (fun x z => κ₁ x z + κ₂ x z) :=
  fun n x => by
    have : (Matrix.of fun i j => κ₁ (x i) (x j) + κ₂ (x i) (x j)) =
        (Matrix.of fun i j => κ₁ (x i) (x j)) + (Matrix.of fun i j => κ₂ (x i) (x j)) := by
      ext i j; rfl
    rw [this]; exact (h₁ n x).add (h₂ n x)

theorem smul {κ : P → P → ℝ} (h : IsPSD κ) {a : ℝ} (ha : 0 ≤ a) : IsPSD (fun x z => a * κ x z) :=
  fun n x => by
    have : (Matrix.of fun i j => a * κ (x i) (x j)) = a • (Matrix.of fun i j => κ (x i) (x j)) := by
      ext i j; rfl
    rw [this]; exact (h n x).smul ha

/-- Schur product theorem for kernels -/
theorem mul {κ₁ κ₂ : P → P → ℝ} (h₁ : IsPSD κ₁) (h₂ : IsPSD κ₂) : IsPSD (fun x z => κ₁ x z * κ₂ x z) :=
  fun n x => by
    have : (Matrix.of fun i j => κ₁ (x i) (x j) * κ₂ (x i) (x j)) =
        Matrix.hadamard (Matrix.of fun i j => κ₁ (x i) (x j)) (Matrix.of fun i j => κ₂ (x i) (x j)) := by
      ext i j; rfl
    rw [this]; exact (h₁ n x).hadamard (h₂ n x)

/-- rank-one kernels `f(x)·f(z)` -/
theorem rankOne (f : P → ℝ) : IsPSD (fun x z => f x * f z) := fun n x => by
  have : (Matrix.of fun i j => f (x i) * f (x j)) = vecMulVec (fun i => f (x i)) (star fun i => f (x i)) := by
    ext i j; simp [vecMulVec_apply]
  rw [this]; exact posSemidef_vecMulVec_self_star _

theorem const {c : ℝ} (hc : 0 ≤ c) : IsPSD (fun _ _ : P => c) :=
  ((rankOne (fun _ : P => (1 : ℝ))).smul hc).congr fun _ _ => by ring

/-- composition with a feature map (sub-range kernels, model kernels) -/
theorem comap {κ : P → P → ℝ} (h : IsPSD κ) (s : Q → P) : IsPSD (fun x z => κ (s x) (s z)) :=
  fun n x => h n (fun i => s (x i))

theorem pow {κ : P → P → ℝ} (h : IsPSD κ) : ∀ n : ℕ, IsPSD (fun x z => κ x z ^ n)
  | 0 => (const (P := P) zero_le_one).congr fun _ _ => by simp
  | n + 1 => ((pow h n).mul h).congr fun _ _ => by rw [pow_succ]

/-- normalisation `κ(x,z) / (s(x) s(z))` keeps PSD-ness (Hadamard product with a rank-one kernel) -/
theorem normalize {κ : P → P → ℝ} (h : IsPSD κ) (s : P → ℝ) :
    IsPSD (fun x z => κ x z / s x / s z) :=
  (h.mul (rankOne fun x => (s x)⁻¹)).congr fun x z => by
    simp only [div_eq_mul_inv]; ring

theorem symm {κ : P → P → ℝ} (h : IsPSD κ) (x z : P) : κ x z = κ z x := by
  have := (h 2 ![x, z]).isHermitian
  have e := congrFun (congrFun this 0) 1
  simpa [Matrix.conjTranspose_apply] using e.symm

/-- quadratic-form reading of `IsPSD` -/
theorem quadForm_nonneg {κ : P → P → ℝ} (h : IsPSD κ) (n : ℕ) (x : Fin n → P) (c : Fin n → ℝ) :
    0 ≤ ∑ i, ∑ j, c i * c j * κ (x i) (x j) := by
  have := (h n x).dotProduct_mulVec_nonneg c
  simp only [dotProduct, mulVec, star_trivial, Matrix.of_apply, Finset.mul_sum] at this
  refine le_of_le_of_eq this ?_
  refine Finset.sum_congr rfl fun i _ => Finset.sum_congr rfl fun j _ => ?_
  ring

end IsPSD

/-! ### the linear kernel -/

theorem dot_head_tail (x z : Point ℝ) : dot x z = x.headD 0 * z.headD 0 + dot x.tail z.tail := by
  cases x with
  | nil => simp [dot_nil_left]
  | cons a x =>
    cases z with
    | nil => simp [dot_nil_right]
    | cons b z => simp

/-- Gram matrices of the linear kernel are PSD (`X Xᵀ`; here by peeling one coordinate at a time:
`⟨x,z⟩ = x₀z₀ + ⟨tail x, tail z⟩`, rank-one plus induction) — no assumption on the lengths. -/
theorem dot_psd_aux : ∀ (m : ℕ) (n : ℕ) (x : Fin n → Point ℝ), (∀ i, (x i).length ≤ m) →
    (Matrix.of fun i j => dot (x i) (x j)).PosSemidef
  | 0, n, x, hx => by
      have : (Matrix.of fun i j => dot (x i) (x j)) = 0 := by
        ext i j
        have : x i = [] := List.eq_nil_of_length_eq_zero (Nat.le_zero.mp (hx i))
        simp [this, dot_nil_left]
      rw [this]; exact PosSemidef.zero
  | m + 1, n, x, hx => by
      have ih := dot_psd_aux m n (fun i => (x i).tail) (fun i => by
        have := hx i; simp only [List.length_tail]; omega)
      have h1 := IsPSD.rankOne (fun p : Point ℝ => p.headD 0) n x
      have : (Matrix.of fun i j => dot (x i) (x j)) =
          (Matrix.of fun i j => (x i).headD 0 * (x j).headD 0) + (Matrix.of fun i j => dot (x i).tail (x j).tail) := by
        ext i j; exact dot_head_tail (x i) (x j)
      rw [this]; exact h1.add ih

theorem dot_psd : IsPSD (dot : Point ℝ → Point ℝ → ℝ) := fun n x =>
  dot_psd_aux ((Finset.univ.sup fun i => (x i).length)) n x fun i =>
    Finset.le_sup (f := fun i => (x i).length) (Finset.mem_univ i)

/-! ### folds used by WeightedSumKernel and ProductKernel -/

theorem wfold_psd {P : Type} : ∀ (ws : List ℝ) (fs : List (P → P → ℝ)) (g : P → P → ℝ),
    (∀ w ∈ ws, 0 ≤ w) → (∀ f ∈ fs, IsPSD f) → IsPSD g →
    IsPSD (fun x z => wfold ws (fs.map fun f => f x z) (g x z))
  | [], fs, g, _, _, hg => by cases fs <;> simpa [wfold] using hg
  | _ :: _, [], g, _, _, hg => by simpa [wfold] using hg
  | w :: ws, f :: fs, g, hw, hf, hg => by
      simp only [List.map_cons, wfold]
      exact wfold_psd ws fs (fun x z => g x z + w * f x z)
        (fun w' h => hw w' (List.mem_cons_of_mem _ h)) (fun f' h => hf f' (List.mem_cons_of_mem _ h))
        (hg.add ((hf f (List.mem_cons_self)).smul (hw w (List.mem_cons_self))))

theorem pfold_psd {P : Type} : ∀ (fs : List (P → P → ℝ)) (g : P → P → ℝ),
    (∀ f ∈ fs, IsPSD f) → IsPSD g → IsPSD (fun x z => pfold (fs.map fun f => f x z) (g x z))
  | [], g, _, hg => by simpa [pfold] using hg
  | f :: fs, g, hf, hg => by
      simp only [List.map_cons, pfold]
      exact pfold_psd fs (fun x z => g x z * f x z) (fun f' h => hf f' (List.mem_cons_of_mem _ h))
        (hg.mul (hf f (List.mem_cons_self)))

end SharkVerif.Kernels
