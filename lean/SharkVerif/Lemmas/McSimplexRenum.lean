/-
The simplex decomposition loop only renumbers the dual problem, and keeps the linear part consistent with the
original-index matrix (`Renumbered`, `LinInv` of `Lemmas/McSolve.lean` / `Lemmas/McBias.lean` for
`QpMcSimplexDecomp`); the bias-loop theorem for `BiasSolverSimplex`.
-/
import SharkVerif.Lemmas.McSimplex
import SharkVerif.Lemmas.McBias
namespace SharkVerif.Mc
open Finset Grad

/-- fields of the embedded record that `updateSMO` does not touch -/
theorem sx_updateSMO_fields (s : McSx Rat) (v w : Nat) :
    SameStatic s.b (s.updateSMO v w).b ∧ (s.updateSMO v w).b.ex = s.b.ex ∧ (s.updateSMO v w).b.vars = s.b.vars ∧
      (s.updateSMO v w).b.lin = s.b.lin := by
  unfold McSx.updateSMO
  dsimp only
  split_ifs <;> simp only [updateVarsum_b] <;> exact ⟨⟨rfl, rfl, rfl, rfl, rfl, rfl, rfl⟩, rfl, rfl, rfl⟩

/-- any property of the state that the elementary operations preserve holds along every run of the solve loop -/
theorem solveX_preserves (X : McSx Rat → Prop)
    (hXd : ∀ t v, SxInv t → v < t.b.activeVar → X t → X (t.deactivateVariable v))
    (hXf : ∀ t, SxInv t → X t → X { t.unshrink with b := { t.unshrink.b with unshrinked := true } })
    (hXu : ∀ t, SxInv t → X t → X t.unshrink)
    (hXs : ∀ t v w, SxInv t → v < t.b.activeVar → w < t.b.activeVar → X t → X (t.updateSMO v w))
    (s : McSx Rat) (h : SxInv s) (hx : X s) (eps : Rat) (maxIter : Nat) : X (solveX s eps maxIter).s := by
  have tail : ∀ (st : SolveStX Rat) (i j : Nat), SxInv st.s → X st.s → X (solveTailX eps st i j).s := by
    intro st i j h1 hx1
    unfold solveTailX
    dsimp only
    by_cases hv : i < st.s.b.activeVar ∧ j < st.s.b.activeVar
    · rw [if_pos hv]
      have h2 := sxInv_updateSMO st.s h1 i j hv.1 hv.2
      have hx2 := hXs st.s i j h1 hv.1 hv.2 hx1
      by_cases h0 : st.shrinkCounter = 0
      · rw [if_pos h0]; exact (sxInv_shrink_gen X hXd hXf _ h2 hx2 eps).2
      · rw [if_neg h0]; exact hx2
    · rw [if_neg hv]; exact hx1
  have body : ∀ (st : SolveStX Rat), SxInv st.s → X st.s → X (solveBodyX eps st).s := by
    intro st h1 hx1
    unfold solveBodyX
    dsimp only
    have hu := sxInv_unshrink st.s h1
    have hxu := hXu st.s h1 hx1
    split_ifs
    · exact hxu
    · obtain ⟨hs, hxs⟩ := sxInv_shrink_gen X hXd hXf _ hu hxu eps
      exact tail { st with s := (st.s.unshrink.shrink eps).1 } _ _ hs hxs
    · exact tail st _ _ h1 hx1
  suffices H : ∀ (fuel : Nat) (st : SolveStX Rat), SxInv st.s → X st.s → X (solveLoopX eps fuel st).s from
    H maxIter { s := s, iter := 0, shrinkCounter := 0, stop := .running } h hx
  intro fuel
  induction fuel with
  | zero => intro st h1 hx1; exact hXu st.s h1 hx1
  | succ fuel ih =>
    intro st h1 hx1
    have hb := solveBodyX_spec eps st h1
    unfold solveLoopX
    dsimp only
    split_ifs
    · exact ih _ hb.1 (body st h1 hx1)
    · exact body st h1 hx1

/-! ### the linear part -/

theorem linInv_sx_deactivateVariable (L : Nat → Nat → Rat) (t : McSx Rat) (v : Nat) (h : SxInv t)
    (hv : v < t.b.activeVar) (hl : LinInv t.b L) : LinInv (t.deactivateVariable v).b L := by
  have ht1 := tablesInv_deactivateVariable t.b h.tables v hv
  have hl1 := linInv_deactVar t.b h.tables L hl v hv
  have hev : (t.b.vars v).i < t.b.activeEx := active_var_active_ex t.b h.tables v hv
  unfold McSx.deactivateVariable
  dsimp only
  split_ifs
  · exact linInv_deactEx _ ht1 L hl1 _ hev
  · exact hl1

/-- **every run of `QpSolver<QpMcSimplexDecomp>::solve` keeps the linear part consistent** with the matrix by original
example index -/
theorem linInv_solveX (s : McSx Rat) (h : SxInv s) (L : Nat → Nat → Rat) (hl : LinInv s.b L) (eps : Rat)
    (maxIter : Nat) : LinInv (solveX s eps maxIter).s.b L :=
  solveX_preserves (fun t => LinInv t.b L)
    (fun t v ht hv hx => linInv_sx_deactivateVariable L t v ht hv hx)
    (fun t _ hx => fun v hv => linInv_unshrink t.b L hx v hv)
    (fun t _ hx => linInv_unshrink t.b L hx)
    (fun t v w _ _ _ hx => by
      obtain ⟨hs, he, hv, hl'⟩ := sx_updateSMO_fields t v w
      intro x hx'
      rw [hs.2.1, hs.2.2.1] at hx'
      rw [hl', he, hv]
      exact hx x hx')
    s h hl eps maxIter

/-! ### renumbering -/

theorem renum_sx_deactivateVariable (s0 : McBox Rat) (t : McSx Rat) (v : Nat) (h : SxInv t)
    (hv : v < t.b.activeVar) (hr : Renumbered s0 t.b) : Renumbered s0 (t.deactivateVariable v).b := by
  have ht1 := tablesInv_deactivateVariable t.b h.tables v hv
  have hr1 := hr.trans (renum_deactivateVariable t.b h.tables v hv)
  have hev : (t.b.vars v).i < t.b.activeEx := active_var_active_ex t.b h.tables v hv
  unfold McSx.deactivateVariable
  dsimp only
  split_ifs
  · exact hr1.trans (renum_deactivateExample _ ht1 _ hev)
  · exact hr1

/-- **every run of `QpSolver<QpMcSimplexDecomp>::solve` only renumbers the dual problem** (`Q`, `lin`) -/
theorem renum_solveX (s : McSx Rat) (h : SxInv s) (eps : Rat) (maxIter : Nat) :
    Renumbered s.b (solveX s eps maxIter).s.b :=
  solveX_preserves (fun t => Renumbered s.b t.b)
    (fun t v ht hv hx => renum_sx_deactivateVariable s.b t v ht hv hx)
    (fun t _ hx => (hx.trans (renum_unshrink t.b)).trans (Renumbered.of_eq rfl rfl rfl (fun _ _ _ _ => rfl) rfl))
    (fun t _ hx => hx.trans (renum_unshrink t.b))
    (fun t v w _ _ _ hx => by
      obtain ⟨hs, he, hv, hl'⟩ := sx_updateSMO_fields t v w
      refine hx.trans (Renumbered.of_eq hs.2.1 hs.2.2.1 hs.2.2.2.1 (fun a _ b _ => ?_) hl')
      unfold McBox.Q McBox.Mget
      rw [he, hv, hs.1, hs.2.1, hs.2.2.2.2.1, hs.2.2.2.2.2.1])
    s h (Renumbered.refl _) eps maxIter

/-! ### the bias loop of `BiasSolverSimplex` -/

def biasApplyX (nu : Nat → Row Rat) (s : McSx Rat) : BiasOp → McSx Rat
  | .solve eps maxIter => (solveX s eps maxIter).s
  | .update step => s.performBiasUpdate nu step

def biasRunX (nu : Nat → Row Rat) (s : McSx Rat) (ops : List BiasOp) : McSx Rat := ops.foldl (biasApplyX nu) s

theorem sameStatic_solveX (s : McSx Rat) (h : SxInv s) (eps : Rat) (maxIter : Nat) :
    (solveX s eps maxIter).s.b.P = s.b.P ∧ (solveX s eps maxIter).s.b.labels = s.b.labels :=
  solveX_preserves (fun t => t.b.P = s.b.P ∧ t.b.labels = s.b.labels)
    (fun t v _ _ hx => by
      have hs := sameStatic_sx_deactivateVariable t v
      exact ⟨hs.2.1.trans hx.1, hs.2.2.2.2.2.2.trans hx.2⟩)
    (fun t _ hx => by
      have hs := sameStatic_unshrink t.b
      exact ⟨hs.2.1.trans hx.1, hs.2.2.2.2.2.2.trans hx.2⟩)
    (fun t _ hx => by
      have hs := sameStatic_unshrink t.b
      exact ⟨hs.2.1.trans hx.1, hs.2.2.2.2.2.2.trans hx.2⟩)
    (fun t v w _ _ _ hx => by
      have hs := (sx_updateSMO_fields t v w).1
      exact ⟨hs.2.1.trans hx.1, hs.2.2.2.2.2.2.trans hx.2⟩)
    s h ⟨rfl, rfl⟩ eps maxIter

theorem bias_history_simplex (nu : Nat → Row Rat) (ops : List BiasOp) :
    ∀ (s : McSx Rat) (L : Nat → Nat → Rat), SxInv s → LinInv s.b L →
      SxInv (biasRunX nu s ops) ∧
      LinInv (biasRunX nu s ops).b (fun i p => L i p + biasDelta nu s.b.P s.b.labels (biasSum ops) i p) := by
  induction ops with
  | nil =>
    intro s L hf hl
    refine ⟨hf, ?_⟩
    intro v hv
    show s.b.lin v = L _ _ + biasDelta nu s.b.P s.b.labels (fun _ => 0) _ _
    rw [biasDelta_zero, add_zero]
    exact hl v hv
  | cons op ops ih =>
    intro s L hf hl
    cases op with
    | solve eps maxIter =>
      have hs := sameStatic_solveX s hf eps maxIter
      have := ih (solveX s eps maxIter).s L (sxInv_solveX s hf eps maxIter) (linInv_solveX s hf L hl eps maxIter)
      rw [hs.1, hs.2] at this
      exact this
    | update step =>
      have hf' : SxInv (s.performBiasUpdate nu step) := sxInv_addDeltaLinear s hf _
      have hl' : LinInv (s.performBiasUpdate nu step).b (fun i p => L i p + biasDelta nu s.b.P s.b.labels step i p) :=
        linInv_addDelta s.b L hl (biasDelta nu s.b.P s.b.labels step)
      have := ih (s.performBiasUpdate nu step) _ hf' hl'
      refine ⟨this.1, ?_⟩
      intro v hv
      have h2 := this.2 v hv
      show (biasRunX nu (s.performBiasUpdate nu step) ops).b.lin v = _
      rw [h2]
      show L _ _ + biasDelta nu s.b.P s.b.labels step _ _ + biasDelta nu s.b.P s.b.labels (biasSum ops) _ _
        = L _ _ + biasDelta nu s.b.P s.b.labels (fun c => step c + biasSum ops c) _ _
      rw [biasDelta_add, ← add_assoc]
      rfl

end SharkVerif.Mc
