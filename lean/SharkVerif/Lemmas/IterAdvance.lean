/-
`DataElementIterator::advance(n)` from an arbitrary canonical position, for any signed n.
-/
import SharkVerif.Lemmas.Dataset
namespace SharkVerif.Dataset
open SharkVerif.CheckedNat

/-- position decomposition of `locate` -/
theorem locate_decomp (sizes : List Nat) : ∀ p, p ≤ sizes.sum →
    (locate sizes p).1 ≤ sizes.length ∧ p = (sizes.take (locate sizes p).1).sum + (locate sizes p).2 := by
  induction sizes with
  | nil => intro p hp; simp at hp; simp [locate, hp]
  | cons s rest ih =>
    intro p hp
    simp only [List.sum_cons] at hp
    simp only [locate]
    split
    · simp
    · rename_i h
      have := ih (p - s) (by omega)
      simp only [List.length_cons, List.take_succ_cons, List.sum_cons]
      omega

/-- L3: `locate` after a prefix of whole batches -/
theorem locate_prefix_add (sizes : List Nat) : ∀ b, b ≤ sizes.length → ∀ r,
    locate sizes ((sizes.take b).sum + r) = (b + (locate (sizes.drop b) r).1, (locate (sizes.drop b) r).2) := by
  induction sizes with
  | nil => intro b hb r; simp at hb; subst hb; simp
  | cons s rest ih =>
    intro b hb r
    cases b with
    | zero => simp
    | succ b =>
      simp only [List.length_cons, Nat.add_le_add_iff_right] at hb
      have hsum : (List.take (b + 1) (s :: rest)).sum = s + (List.take b rest).sum := by simp
      rw [hsum, List.drop_succ_cons]
      have hn : ¬ (s + (List.take b rest).sum + r < s) := by
        rw [Nat.add_assoc]; exact Nat.not_lt.mpr (Nat.le_add_right _ _)
      have e : s + (List.take b rest).sum + r - s = (List.take b rest).sum + r := by
        rw [Nat.add_assoc, Nat.add_sub_cancel_left]
      rw [locate, if_neg hn, e, ih b hb r]
      clear e hn hsum
      simp only [Prod.mk.injEq]
      and_intros <;> first | trivial | omega

theorem locate_append_left (l : List Nat) (s x : Nat) (hx : x < l.sum) : locate (l ++ [s]) x = locate l x := by
  induction l generalizing x with
  | nil => simp at hx
  | cons a l ih =>
    simp only [List.sum_cons] at hx
    simp only [List.cons_append, locate]
    split
    · rfl
    · rw [ih (x - a) (by omega)]

theorem locate_append_right (l : List Nat) (s y : Nat) (hy : y < s) :
    locate (l ++ [s]) (l.sum + y) = (l.length, y) := by
  induction l with
  | nil => simp [locate, hy]
  | cons a l ih =>
    simp only [List.cons_append, List.sum_cons, locate, List.length_cons]
    have e : a + l.sum + y - a = l.sum + y := by omega
    split
    · omega
    · rw [e, ih]

/-- L5: positions inside a prefix are located inside the prefix -/
theorem locate_take (sizes : List Nat) : ∀ b x, x < (sizes.take b).sum → locate sizes x = locate (sizes.take b) x := by
  induction sizes with
  | nil => intro b x hx; simp at hx
  | cons s rest ih =>
    intro b x hx
    cases b with
    | zero => simp at hx
    | succ b =>
      simp only [List.take_succ_cons, List.sum_cons] at hx
      simp only [List.take_succ_cons, locate]
      split
      · rfl
      · rw [ih b (x - s) (by omega)]

/-- L4: the backward loop of `advance` lands on the canonical position counted from the end of the prefix -/
theorem bwd_locate (r : List Nat) (h : allPos r) : ∀ npos, npos < r.sum →
    Iter.bwd r (r.length - 1) npos = some (locate r.reverse (r.sum - 1 - npos)) := by
  induction r with
  | nil => intro npos hn; simp at hn
  | cons s r ih =>
    intro npos hn
    have hs : 0 < s := h s (by simp)
    have hr : allPos r := fun x hx => h x (by simp [hx])
    simp only [List.sum_cons] at hn
    simp only [List.reverse_cons, List.length_cons, Nat.add_sub_cancel, List.sum_cons]
    unfold Iter.bwd
    by_cases hc : npos ≠ 0 ∧ npos ≥ s
    · rw [if_pos hc, ih hr (npos - s) (by omega)]
      have hx : s + r.sum - 1 - npos < r.reverse.sum := by simp [List.sum_reverse]; omega
      rw [locate_append_left _ _ _ hx]
      congr 2; omega
    · rw [if_neg hc]
      have hlt : npos < s := by omega
      have e : s + r.sum - 1 - npos = r.reverse.sum + (s - 1 - npos) := by simp [List.sum_reverse]; omega
      rw [e, locate_append_right _ _ _ (by omega)]
      have : 1 + npos ≤ s := by omega
      simp [csub, this, List.length_reverse]
      omega

theorem sum_take_add_drop (l : List Nat) (b : Nat) : (l.take b).sum + (l.drop b).sum = l.sum := by
  rw [← List.sum_append, List.take_append_drop]

/-- **advance(n)**: from the canonical position of `p`, for every signed `n` with `0 ≤ p + n ≤ total`, the
iterator lands on the canonical position of `p + n` -/
theorem advance_canon (sizes : List Nat) (h : allPos sizes) (p : Nat) (hp : p ≤ sizes.sum) (n : Int)
    (h0 : 0 ≤ (p : Int) + n) (h1 : (p : Int) + n ≤ sizes.sum) :
    Iter.advance sizes (canon sizes p) n = some (canon sizes ((p : Int) + n).toNat) := by
  obtain ⟨hb, hdec⟩ := locate_decomp sizes p hp
  have hsplit := sum_take_add_drop sizes (locate sizes p).1
  unfold Iter.advance
  simp only [canon]
  have hneg : ¬ ((p : Int) + n < 0) := by omega
  simp only [hneg, if_false]
  generalize hq : ((p : Int) + n).toNat = q
  have hqv : (q : Int) = (p : Int) + n := by omega
  by_cases hz : n + ((locate sizes p).2 : Int) = 0
  · -- lands on the start of the current batch
    simp only [hz, if_true]
    have hqq : q = (sizes.take (locate sizes p).1).sum + 0 := by omega
    have := locate_prefix_add sizes _ hb 0
    rw [← hqq] at this
    have hz0 : locate (sizes.drop (locate sizes p).1) 0 = (0, 0) :=
      locate_zero _ (fun x hx => h x (List.mem_of_mem_drop hx))
    rw [hz0] at this
    simp [this]
  · simp only [hz, if_false]
    by_cases hlt : n + ((locate sizes p).2 : Int) < 0
    · -- backward
      simp only [hlt, if_true]
      have hb1 : 1 ≤ (locate sizes p).1 := by
        rcases Nat.eq_zero_or_pos (locate sizes p).1 with h0' | h0'
        · rw [h0'] at hdec; simp at hdec; omega
        · exact h0'
      simp only [csub, hb1, if_true, Option.bind_eq_bind, Option.bind_some]
      have hlen : (sizes.take ((locate sizes p).1 - 1 + 1)).length = (locate sizes p).1 := by
        rw [List.length_take]; omega
      have e1 : (locate sizes p).1 - 1 + 1 = (locate sizes p).1 := by omega
      rw [e1] at hlen ⊢
      obtain ⟨P, hP⟩ : ∃ P, P = sizes.take (locate sizes p).1 := ⟨_, rfl⟩
      rw [← hP] at hdec hsplit hlen ⊢
      have hPpos : allPos P.reverse := fun x hx => h x (List.mem_of_mem_take (hP ▸ List.mem_reverse.mp hx))
      have hnpos : (-(n + ((locate sizes p).2 : Int))).toNat - 1 < P.reverse.sum := by
        simp only [List.sum_reverse]; omega
      have hbw := bwd_locate P.reverse hPpos _ hnpos
      simp only [List.length_reverse, List.reverse_reverse, List.sum_reverse] at hbw
      rw [hlen] at hbw
      rw [hbw]
      have hx : P.sum - 1 - ((-(n + ((locate sizes p).2 : Int))).toNat - 1) = q := by omega
      rw [hx]
      have hqlt : q < (sizes.take (locate sizes p).1).sum := by rw [← hP]; omega
      rw [hP, ← locate_take sizes _ q hqlt]
      simp
    · -- forward
      simp only [hlt, if_false]
      have hr : (n + ((locate sizes p).2 : Int)).toNat ≤ (sizes.drop (locate sizes p).1).sum := by omega
      have hf := fwd_locate (sizes.drop (locate sizes p).1) (fun x hx => h x (List.mem_of_mem_drop hx))
        (locate sizes p).1 _ hr
      rw [hf]
      have hqq : q = (sizes.take (locate sizes p).1).sum + (n + ((locate sizes p).2 : Int)).toNat := by omega
      have := locate_prefix_add sizes _ hb (n + ((locate sizes p).2 : Int)).toNat
      rw [← hqq] at this
      simp [this]

end SharkVerif.Dataset
