/-
stop ⇒ KKT(eps) ⇒ objective gap for the SIMPLEX-constrained dual (`QpMcSimplexDecomp`: CS, ATM, ADM, MMR).

Feasible set: `b ≥ 0`, `Σ_p b(i,p) ≤ C` for every example.  For a state that satisfies the invariants (`SxInv`), has
all variables active and is eps-KKT in the sense of `checkKKT` (`KKTsx`), every feasible `b` satisfies

    D(b) − D(α) ≤ n · ( eps·(2C + 1e-14) + 1e-14·C·G ),      G ≥ every stored gradient component, G ≥ 0.

The multipliers of the sum constraints appear as `m` = the smallest gradient among the positive variables of an
example at the bound; the term `1e-14·C·G` is the price of the code's own snapping of `varsum` to `C` (an example is
treated as "at the bound" while its true sum may be `C·(1 − 1e-14)`): it vanishes with the snapping slack and is
~1e-14 relative in practice.  No assumption on how the state was reached.
-/
import SharkVerif.Lemmas.McSimplexRenum
import SharkVerif.Lemmas.McDecision
namespace SharkVerif.Mc
open Finset Grad

/-! ### per-example bounds (pure algebra on `range P`) -/

/-- example strictly inside its simplex: no variable can grow, no positive one shrink, with rate `eps` or more -/
theorem ex_gap_inside (P : Nat) (g a b : Nat → Rat) (eps C : Rat)
    (ha : ∀ p < P, 0 ≤ a p) (hb : ∀ p < P, 0 ≤ b p) (hB : ∑ p ∈ range P, b p ≤ C) (heps : 0 ≤ eps)
    (h1 : ∀ p < P, g p < eps) (h2 : ∀ p < P, 0 < a p → -(g p) < eps) :
    ∑ p ∈ range P, g p * (b p - a p) ≤ eps * (C + ∑ p ∈ range P, a p) := by
  have hterm : ∀ p ∈ range P, g p * (b p - a p) ≤ eps * b p + eps * a p := by
    intro p hp
    have hp' := mem_range.mp hp
    have t1 : g p * b p ≤ eps * b p := mul_le_mul_of_nonneg_right (le_of_lt (h1 p hp')) (hb p hp')
    have t2 : -(g p) * a p ≤ eps * a p := by
      rcases eq_or_lt_of_le (ha p hp') with h0 | h0
      · rw [← h0]; simp
      · exact mul_le_mul_of_nonneg_right (le_of_lt (h2 p hp' h0)) (le_of_lt h0)
    nlinarith
  have := sum_le_sum hterm
  rw [sum_add_distrib, ← mul_sum, ← mul_sum] at this
  have hB' : eps * ∑ p ∈ range P, b p ≤ eps * C := mul_le_mul_of_nonneg_left hB heps
  linarith

/-- example at the bound of its simplex: `m` = smallest gradient of a positive variable plays the multiplier -/
theorem ex_gap_bound (P : Nat) (g a b : Nat → Rat) (eps C G u d : Rat)
    (ha : ∀ p < P, 0 ≤ a p) (hb : ∀ p < P, 0 ≤ b p) (hB : ∑ p ∈ range P, b p ≤ C)
    (hq : ∃ q < P, 0 < a q)
    (h3 : ∀ p < P, ∀ q < P, 0 < a q → g p - g q < eps) (h2 : ∀ p < P, 0 < a p → -(g p) < eps)
    (hG : ∀ p < P, g p ≤ G) (hG0 : 0 ≤ G) (hu : 0 ≤ u) (hd : 0 ≤ d) (heps : 0 ≤ eps)
    (hA1 : C - ∑ p ∈ range P, a p ≤ u) (hA2 : ∑ p ∈ range P, a p - C ≤ d) :
    ∑ p ∈ range P, g p * (b p - a p) ≤ eps * C + G * u + eps * d := by
  obtain ⟨q0, hq0, haq0⟩ := hq
  have hne : ((range P).filter fun q => 0 < a q).Nonempty := ⟨q0, mem_filter.mpr ⟨mem_range.mpr hq0, haq0⟩⟩
  obtain ⟨q, hqm, hmin⟩ := exists_min_image _ g hne
  obtain ⟨hqP, haq⟩ := mem_filter.mp hqm
  have hqP' := mem_range.mp hqP
  set m := g q with hm
  have hmeps : 0 < m + eps := by have := h2 q hqP' haq; linarith
  have hterm : ∀ p ∈ range P, g p * (b p - a p) ≤ (m + eps) * b p - m * a p := by
    intro p hp
    have hp' := mem_range.mp hp
    have t1 : g p * b p ≤ (m + eps) * b p :=
      mul_le_mul_of_nonneg_right (by have := h3 p hp' q hqP' haq; linarith) (hb p hp')
    have t2 : m * a p ≤ g p * a p := by
      rcases eq_or_lt_of_le (ha p hp') with h0 | h0
      · rw [← h0]; simp
      · exact mul_le_mul_of_nonneg_right (hmin p (mem_filter.mpr ⟨hp, h0⟩)) (le_of_lt h0)
    nlinarith
  have hs := sum_le_sum hterm
  rw [sum_sub_distrib, ← mul_sum, ← mul_sum] at hs
  have hB' : (m + eps) * ∑ p ∈ range P, b p ≤ (m + eps) * C := mul_le_mul_of_nonneg_left hB (le_of_lt hmeps)
  have hmG : m ≤ G := hG q hqP'
  -- m * (C - A) ≤ G * u + eps * d
  have key : m * (C - ∑ p ∈ range P, a p) ≤ G * u + eps * d := by
    rcases le_or_gt 0 m with hm0 | hm0
    · have : m * (C - ∑ p ∈ range P, a p) ≤ m * u := mul_le_mul_of_nonneg_left hA1 hm0
      have : m * u ≤ G * u := mul_le_mul_of_nonneg_right hmG hu
      nlinarith [mul_nonneg heps hd]
    · rcases le_or_gt 0 (C - ∑ p ∈ range P, a p) with hc | hc
      · nlinarith [mul_nonneg hG0 hu, mul_nonneg heps hd]
      · have h1 : m * (C - ∑ p ∈ range P, a p) = (-m) * (∑ p ∈ range P, a p - C) := by ring
        have h2' : (-m) * (∑ p ∈ range P, a p - C) ≤ eps * (∑ p ∈ range P, a p - C) :=
          mul_le_mul_of_nonneg_right (by linarith) (by linarith)
        have h3' : eps * (∑ p ∈ range P, a p - C) ≤ eps * d := mul_le_mul_of_nonneg_left hA2 heps
        nlinarith [mul_nonneg hG0 hu]
  nlinarith

/-! ### sums over all variables, grouped by example through the tables -/

theorem sum_by_examples (b : McBox Rat) (ht : TablesInv b) (hP : 0 < b.P) (F : Nat → Rat) :
    ∑ v ∈ range (b.P * b.n), F v = ∑ e ∈ range b.n, ∑ p ∈ range b.P, F ((b.ex e).var p) := by
  have hσ : ∀ v < b.P * b.n, (b.ex (v / b.P)).var (v % b.P) < b.P * b.n := fun v hv =>
    ht.var_lt _ (Nat.div_lt_of_lt_mul hv) _ (Nat.mod_lt _ hP)
  have hτσ : ∀ v < b.P * b.n,
      b.P * (b.vars ((b.ex (v / b.P)).var (v % b.P))).i + (b.vars ((b.ex (v / b.P)).var (v % b.P))).p = v := by
    intro v hv
    rw [ht.var_i _ (Nat.div_lt_of_lt_mul hv) _ (Nat.mod_lt _ hP), ht.var_p _ (Nat.div_lt_of_lt_mul hv) _ (Nat.mod_lt _ hP)]
    exact Nat.div_add_mod v b.P
  rw [← sum_renum (b.P * b.n) (fun v => (b.ex (v / b.P)).var (v % b.P))
    (fun w => b.P * (b.vars w).i + (b.vars w).p) hσ hτσ F, sum_range_blocks]
  refine sum_congr rfl fun e _ => sum_congr rfl fun p hp => ?_
  have hp' := mem_range.mp hp
  have h1 : (b.P * e + p) / b.P = e := by
    rw [Nat.add_comm, Nat.add_mul_div_left _ _ hP, Nat.div_eq_of_lt hp', Nat.zero_add]
  have h2 : (b.P * e + p) % b.P = p := by rw [Nat.mul_add_mod, Nat.mod_eq_of_lt hp']
  rw [h1, h2]

/-- feasible for the simplex-constrained dual, in the numbering of the state `s` -/
def FeasibleSx (s : McSx Rat) (b : Nat → Rat) : Prop :=
  (∀ v < s.b.P * s.b.n, 0 ≤ b v) ∧ ∀ e < s.b.n, ∑ p ∈ range s.b.P, b ((s.b.ex e).var p) ≤ s.b.C

theorem Q_symm_sx (s : McSx Rat) (h : SxInv s) (v w : Nat) (hv : v < s.b.P * s.b.n) (hw : w < s.b.P * s.b.n) :
    s.b.Q v w = s.b.Q w v := by
  have := Q_symm_entry s.b h.tables h.qsym h.labelsOK w v hw hv
  rw [← this]; rfl

/-- **KKT(eps) ⇒ objective gap for the simplex-constrained dual** -/
theorem simplex_kkt_gap (s : McSx Rat) (h : SxInv s) (hall : s.b.activeVar = s.b.P * s.b.n)
    (hpsd : PSD (s.b.P * s.b.n) s.b.Q) (hC : 0 < s.b.C) (eps : Rat) (heps : 0 ≤ eps) (hk : KKTsx s eps)
    (G : Rat) (hG0 : 0 ≤ G) (hG : ∀ v < s.b.P * s.b.n, s.b.grad v ≤ G)
    (b : Nat → Rat) (hb : FeasibleSx s b) :
    dualObj (s.b.P * s.b.n) s.b.lin s.b.Q b - dualObj (s.b.P * s.b.n) s.b.lin s.b.Q s.b.alpha
      ≤ s.b.n * (eps * (2 * s.b.C + (1.e-14 : Rat)) + (1.e-14 : Rat) * s.b.C * G) := by
  have ht := h.tables
  have hP := h.P_pos
  have hd14 : (0 : Rat) ≤ (1.e-14 : Rat) := by norm_num
  -- concavity
  rw [dualObj_diff _ _ _ (fun v hv w hw => Q_symm_sx s h v w hv hw) s.b.alpha b]
  have hq := hpsd (fun v => b v - s.b.alpha v)
  have hgrad : ∑ v ∈ range (s.b.P * s.b.n), dualGrad (s.b.P * s.b.n) s.b.lin s.b.Q s.b.alpha v * (b v - s.b.alpha v)
      = ∑ v ∈ range (s.b.P * s.b.n), s.b.grad v * (b v - s.b.alpha v) := by
    refine sum_congr rfl fun v hv => ?_
    rw [← (gradInv_iff_dualGrad s.b).mp h.grad v (by rw [hall]; exact mem_range.mp hv)]
  rw [hgrad, sum_by_examples s.b ht hP (fun v => s.b.grad v * (b v - s.b.alpha v))]
  -- every example is fully active
  have hact : ∀ e < s.b.n, (s.b.ex e).active = s.b.P := by
    intro e he
    refine le_antisymm (ht.active_le e he) ?_
    by_contra hlt
    have hlt' : (s.b.ex e).active < s.b.P := Nat.lt_of_not_le hlt
    have := (ht.active_iff e he _ hlt').mpr (by rw [hall]; exact ht.avar_lt e he _ hlt')
    exact Nat.lt_irrefl _ this
  -- KKT facts in terms of `var`
  have hvar : ∀ e < s.b.n, ∀ p < s.b.P, ∃ b' < (s.b.ex e).active, (s.b.ex e).avar b' = (s.b.ex e).var p := by
    intro e he p hp
    have hv := ht.var_lt e he p hp
    refine ⟨(s.b.vars ((s.b.ex e).var p)).index, ?_, ?_⟩
    · rw [hact e he]; exact ht.v_index_lt _ hv
    · have := ht.v_avar _ hv
      rw [ht.var_i e he p hp] at this
      exact this
  have hex : ∀ e ∈ range s.b.n, ∑ p ∈ range s.b.P,
      s.b.grad ((s.b.ex e).var p) * (b ((s.b.ex e).var p) - s.b.alpha ((s.b.ex e).var p))
        ≤ eps * (2 * s.b.C + (1.e-14 : Rat)) + (1.e-14 : Rat) * s.b.C * G := by
    intro e he
    have he' := mem_range.mp he
    obtain ⟨g1, g2, g3, g4⟩ := h.simplex.good e he'
    have hkk : ∀ p < s.b.P,
        (0 < s.b.alpha ((s.b.ex e).var p) → -(s.b.grad ((s.b.ex e).var p)) < eps) ∧
        (s.vsum e < s.b.C → s.b.grad ((s.b.ex e).var p) < eps) ∧
        (s.vsum e = s.b.C → ∀ q < s.b.P, 0 < s.b.alpha ((s.b.ex e).var q) →
          s.b.grad ((s.b.ex e).var p) - s.b.grad ((s.b.ex e).var q) < eps) := by
      intro p hp
      obtain ⟨b', hb', hbe⟩ := hvar e he' p hp
      have := hk e he' b' hb'
      rw [hbe] at this
      refine ⟨this.1, this.2.1, fun hv q hq haq => ?_⟩
      obtain ⟨b'', hb'', hbe'⟩ := hvar e he' q hq
      have := this.2.2 hv b'' hb'' (by rw [hbe']; exact haq)
      rw [hbe'] at this
      exact this
    have ha : ∀ p < s.b.P, 0 ≤ s.b.alpha ((s.b.ex e).var p) := fun p hp =>
      h.simplex.nonneg _ (ht.var_lt e he' p hp)
    have hbn : ∀ p < s.b.P, 0 ≤ b ((s.b.ex e).var p) := fun p hp => hb.1 _ (ht.var_lt e he' p hp)
    have hB := hb.2 e he'
    have hA : ∑ p ∈ range s.b.P, s.b.alpha ((s.b.ex e).var p) = s.asum e := rfl
    rcases lt_or_eq_of_le g2 with hlt | heq
    · have := ex_gap_inside s.b.P (fun p => s.b.grad ((s.b.ex e).var p)) (fun p => s.b.alpha ((s.b.ex e).var p))
        (fun p => b ((s.b.ex e).var p)) eps s.b.C ha hbn hB heps
        (fun p hp => (hkk p hp).2.1 hlt) (fun p hp => (hkk p hp).1)
      rw [hA] at this
      have hsum := h.simplex.sum_le e he'
      have : eps * (s.b.C + s.asum e) ≤ eps * (2 * s.b.C + (1.e-14 : Rat)) :=
        mul_le_mul_of_nonneg_left (by linarith) heps
      have hGn : 0 ≤ (1.e-14 : Rat) * s.b.C * G := mul_nonneg (mul_nonneg hd14 (le_of_lt hC)) hG0
      linarith
    · -- at the bound: some variable is positive because the true sum is at least C(1 − 1e-14) > 0
      have hApos : 0 < s.asum e := by
        have : (1.e-14 : Rat) * s.b.C < s.b.C := by
          have : (1.e-14 : Rat) < 1 := by norm_num
          nlinarith
        linarith
      have hq : ∃ q < s.b.P, 0 < s.b.alpha ((s.b.ex e).var q) := by
        by_contra hno
        have hz : ∀ p ∈ range s.b.P, s.b.alpha ((s.b.ex e).var p) = 0 := by
          intro p hp
          have hp' := mem_range.mp hp
          exact le_antisymm (not_lt.mp fun hpos => hno ⟨p, hp', hpos⟩) (ha p hp')
        have : s.asum e = 0 := sum_eq_zero hz
        linarith
      have := ex_gap_bound s.b.P (fun p => s.b.grad ((s.b.ex e).var p)) (fun p => s.b.alpha ((s.b.ex e).var p))
        (fun p => b ((s.b.ex e).var p)) eps s.b.C G ((1.e-14 : Rat) * s.b.C) (1.e-14 : Rat) ha hbn hB hq
        (fun p hp q hq' haq => (hkk p hp).2.2 heq q hq' haq) (fun p hp => (hkk p hp).1)
        (fun p hp => hG _ (ht.var_lt e he' p hp)) hG0 (mul_nonneg hd14 (le_of_lt hC)) hd14 heps
        (by rw [hA]; linarith) (by rw [hA]; linarith)
      have e1 : eps * s.b.C + G * ((1.e-14 : Rat) * s.b.C) + eps * (1.e-14 : Rat)
          ≤ eps * (2 * s.b.C + (1.e-14 : Rat)) + (1.e-14 : Rat) * s.b.C * G := by
        have : 0 ≤ eps * s.b.C := mul_nonneg heps (le_of_lt hC)
        nlinarith
      linarith
  have hsum := sum_le_sum hex
  rw [sum_const, card_range, nsmul_eq_mul] at hsum
  linarith

/-- **stop ⇒ KKT(eps) ⇒ objective gap, for every run of `QpSolver<QpMcSimplexDecomp>::solve`** (in the numbering of the
final state, which is a renumbering of the start state's dual by `renum_solveX`; `PSD` is inherited from the start
state): if the loop reports `QpAccuracyReached`, its dual variables are within
`n·(eps·(2C + 1e-14) + 1e-14·C·G)` of every feasible point, `G` any bound of the final gradient components. -/
theorem solveX_stop_near_optimal (s0 : McSx Rat) (h : SxInv s0) (hpsd : PSD (s0.b.P * s0.b.n) s0.b.Q)
    (hC : 0 < s0.b.C) (eps : Rat) (maxIter : Nat) (hstop : (solveX s0 eps maxIter).stop = .accuracy)
    (G : Rat) (hG0 : 0 ≤ G)
    (hG : ∀ v < (solveX s0 eps maxIter).s.b.P * (solveX s0 eps maxIter).s.b.n, (solveX s0 eps maxIter).s.b.grad v ≤ G)
    (b : Nat → Rat) (hb : FeasibleSx (solveX s0 eps maxIter).s b) :
    dualObj ((solveX s0 eps maxIter).s.b.P * (solveX s0 eps maxIter).s.b.n) (solveX s0 eps maxIter).s.b.lin
        (solveX s0 eps maxIter).s.b.Q b
      - dualObj ((solveX s0 eps maxIter).s.b.P * (solveX s0 eps maxIter).s.b.n) (solveX s0 eps maxIter).s.b.lin
        (solveX s0 eps maxIter).s.b.Q (solveX s0 eps maxIter).s.b.alpha
      ≤ (solveX s0 eps maxIter).s.b.n *
          (eps * (2 * (solveX s0 eps maxIter).s.b.C + (1.e-14 : Rat)) + (1.e-14 : Rat) * (solveX s0 eps maxIter).s.b.C * G) := by
  have hf := sxInv_solveX s0 h eps maxIter
  obtain ⟨hall, hk⟩ := solveX_stop_kkt s0 h eps maxIter hstop
  obtain ⟨h1, h2, h3⟩ := (solveLoopX_spec eps maxIter _ h).2 hstop
  obtain ⟨σ, τ, r⟩ := renum_solveX s0 h eps maxIter
  have hN : (solveX s0 eps maxIter).s.b.P * (solveX s0 eps maxIter).s.b.n = s0.b.P * s0.b.n := by rw [r.P_eq, r.n_eq]
  have heps : 0 ≤ eps := le_of_lt (lt_of_le_of_lt (checkKKTX_spec _).1 h3)
  exact simplex_kkt_gap _ hf hall (hN ▸ r.psd hpsd) (by rw [r.C_eq]; exact hC) eps heps hk G hG0 hG b hb

end SharkVerif.Mc
