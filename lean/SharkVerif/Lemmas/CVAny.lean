/-
C12 helper lemmas that hold without side conditions:
 * the generated `optimalBatchSizes` / `batchPartitioning` are total: every element count (0 included), every
   maximum batch size (0 = unlimited included) — closed form `obsAny`;
 * `complementSD` (sort + std::set_difference, as the C++ computes `detail::complement`) equals the
   specification `Data.complement` for every index set (unsorted, with repetitions);
 * the fold loop of `createCVBatch` cuts the shuffled batch numbers into the sizes ⌊nb/k⌋(+1).
-/
import SharkVerif.Lemmas.BatchArith
import SharkVerif.Lemmas.BatchPartitioning
import SharkVerif.Lemmas.Subset
import SharkVerif.Model.CV
import SharkVerif.Props.C03
namespace SharkVerif.CVAny
open SharkVerif.CheckedNat SharkVerif.Gen.BatchArith SharkVerif.BatchArith SharkVerif.Dataset SharkVerif.CV

/-! ## batch arithmetic, unconditionally -/

/-- the maximum batch size the C++ works with: 0 means "unlimited" = the element count -/
def effMax (m p : Nat) : Nat := if m = 0 then p else m

/-- closed form of `optimalBatchSizes p m` for all p, m -/
def obsAny (m p : Nat) : List Nat := if p = 0 then [] else obsSpec p (effMax m p)

theorem effMax_pos {m p : Nat} (hp : 0 < p) : 0 < effMax m p := by
  unfold effMax; split <;> omega

theorem optimalBatchSizes_zero_elements (m : Nat) : optimalBatchSizes 0 m = some [] := by
  simp [optimalBatchSizes]

theorem optimalBatchSizes_unlimited {p : Nat} (hp : p ≠ 0) : optimalBatchSizes p 0 = optimalBatchSizes p p := by
  unfold optimalBatchSizes
  simp [hp]

/-- **the generated `optimalBatchSizes` is total** and equals the closed form -/
theorem optimalBatchSizes_any (p m : Nat) : optimalBatchSizes p m = some (obsAny m p) := by
  unfold obsAny
  by_cases hp : p = 0
  · subst hp; simp [optimalBatchSizes_zero_elements]
  · simp only [hp, if_false]
    have hp' : 0 < p := Nat.pos_of_ne_zero hp
    unfold effMax
    by_cases hm : m = 0
    · subst hm
      simp only [if_true]
      rw [optimalBatchSizes_unlimited hp]
      exact C03.optimalBatchSizes_defined hp' hp'
    · simp only [hm, if_false]
      exact C03.optimalBatchSizes_defined hp' (Nat.pos_of_ne_zero hm)

theorem obsAny_sum (m p : Nat) : (obsAny m p).sum = p := by
  unfold obsAny
  by_cases hp : p = 0
  · simp [hp]
  · simp only [hp, if_false]
    have hp' : 0 < p := Nat.pos_of_ne_zero hp
    obtain ⟨l, hl, hs⟩ := C03.optimalBatchSizes_sum hp' (effMax_pos (m := m) hp')
    rw [C03.optimalBatchSizes_defined hp' (effMax_pos hp')] at hl
    cases hl; exact hs

/-- every batch is non-empty, none exceeds the effective maximum, any two of one fold differ by at most one -/
theorem obsAny_bounds (m p : Nat) :
    (∀ s ∈ obsAny m p, 1 ≤ s ∧ s ≤ effMax m p) ∧ (∀ s ∈ obsAny m p, ∀ t ∈ obsAny m p, s ≤ t + 1) := by
  unfold obsAny
  by_cases hp : p = 0
  · simp [hp]
  · simp only [hp, if_false]
    have hp' : 0 < p := Nat.pos_of_ne_zero hp
    obtain ⟨l, hl, h1, h2⟩ := C03.optimalBatchSizes_le_max_balanced hp' (effMax_pos (m := m) hp')
    rw [C03.optimalBatchSizes_defined hp' (effMax_pos hp')] at hl
    cases hl; exact ⟨h1, h2⟩

theorem obsAny_pos (m p : Nat) : ∀ s ∈ obsAny m p, 0 < s := fun s hs => ((obsAny_bounds m p).1 s hs).1

/-- number of batches of a fold: 0 for an empty fold, 1 for an unlimited batch size, else ⌈p/m⌉ -/
theorem obsAny_length (m p : Nat) :
    (obsAny m p).length = if p = 0 then 0 else if m = 0 then 1 else (p + m - 1) / m := by
  unfold obsAny
  by_cases hp : p = 0
  · simp [hp]
  · simp only [hp, if_false]
    have hp' : 0 < p := Nat.pos_of_ne_zero hp
    obtain ⟨l, hl, hlen⟩ := C03.optimalBatchSizes_count hp' (effMax_pos (m := m) hp')
    rw [C03.optimalBatchSizes_defined hp' (effMax_pos hp')] at hl
    cases hl
    rw [hlen]
    unfold effMax
    by_cases hm : m = 0
    · simp only [hm, if_true]
      apply Nat.div_eq_of_lt_le <;> omega
    · simp [hm]

/-- **the generated `batchPartitioning` is total**: for all partition sizes (zeros included) and every maximum batch
size (0 included) it returns the total number of batches, the fold starts = prefix sums of the per-partition batch
counts and the concatenated per-partition batch sizes -/
theorem batchPartitioning_total (ps : List Nat) (m : Nat) :
    batchPartitioning ps [] [] m =
      some ((ps.map fun p => (obsAny m p).length).sum, starts (ps.map fun p => (obsAny m p).length) 0,
            ps.flatMap (obsAny m)) := by
  have := batchPartitioning_eq ps [] [] m (obsAny m) (fun p _ => optimalBatchSizes_any p m)
  simpa using this

/-! ## `detail::complement` -/

theorem setDifference_nil_right (as : List Nat) : setDifference as [] = as := by
  cases as <;> simp [setDifference]

/-- `std::set_difference` of a strictly ascending range and an ascending range (repetitions allowed) keeps exactly
the elements of the first that do not occur in the second -/
theorem setDifference_spec : ∀ (as bs : List Nat), as.Pairwise (· < ·) → bs.Pairwise (· ≤ ·) →
    setDifference as bs = as.filter (fun a => !bs.contains a) := by
  intro as
  induction as with
  | nil => intro bs _ _; simp [setDifference]
  | cons a as' iha =>
    intro bs
    induction bs with
    | nil =>
      intro _ _
      simp only [setDifference, List.contains_nil, Bool.not_false]
      exact (List.filter_eq_self.mpr (fun _ _ => rfl)).symm
    | cons b bs' ihb =>
      intro ha hb
      have ha' := List.pairwise_cons.mp ha
      have hb' := List.pairwise_cons.mp hb
      rw [setDifference]
      by_cases h1 : a < b
      · -- a is smaller than everything in the second range
        simp only [h1, if_true]
        have hnot : (b :: bs').contains a = false := by
          simp only [List.contains_eq_mem, List.mem_cons, decide_eq_false_iff_not, not_or]
          refine ⟨by omega, fun hm => ?_⟩
          have := hb'.1 a hm
          omega
        rw [List.filter_cons, hnot]
        simp only [Bool.not_false, if_true]
        congr 1
        exact iha (b :: bs') ha'.2 hb
      · simp only [h1, if_false]
        by_cases h2 : b < a
        · -- b is smaller than everything in the first range: dropping it changes nothing
          simp only [h2, if_true]
          rw [ihb ha hb'.2]
          apply List.filter_congr
          intro x hx
          have hxb : x ≠ b := by
            rcases List.mem_cons.mp hx with rfl | hx'
            · omega
            · have := ha'.1 x hx'; omega
          simp [List.contains_eq_mem, List.mem_cons, hxb]
        · -- a = b: a is dropped, both ranges advance
          simp only [h2, if_false]
          have hab : a = b := by omega
          subst hab
          have hin : (a :: bs').contains a = true := by simp
          rw [List.filter_cons, hin]
          simp only [Bool.not_true]
          rw [iha bs' ha'.2 hb'.2]
          apply List.filter_congr
          intro x hx
          have hxa : x ≠ a := by have := ha'.1 x hx; omega
          simp [List.contains_eq_mem, List.mem_cons, hxa]

theorem pairwise_lt_range (n : Nat) : (List.range n).Pairwise (· < ·) := by
  rw [List.pairwise_iff_getElem]
  intro i j hi hj hij
  simpa using hij

/-- **`detail::complement` as the C++ computes it equals its specification** for every index set: unsorted sets
(createCVBatch deals shuffled batch numbers), sets with repetitions, sets with members ≥ n -/
theorem complementSD_eq (set : List Nat) (n : Nat) : complementSD set n = Data.complement set n := by
  unfold complementSD Data.complement
  have hs : (set.mergeSort fun a b => decide (a ≤ b)).Pairwise (· ≤ ·) := by
    have := List.pairwise_mergeSort (le := fun a b : Nat => decide (a ≤ b))
      (by intro a b c hab hbc; simp at *; omega) (by intro a b; simp; omega) set
    simpa using this
  rw [setDifference_spec _ _ (pairwise_lt_range n) hs]
  apply List.filter_congr
  intro x _
  have hp : (set.mergeSort fun a b => decide (a ≤ b)).Perm set := List.mergeSort_perm _ _
  have : x ∈ (set.mergeSort fun a b => decide (a ≤ b)) ↔ x ∈ set := hp.mem_iff
  simp only [List.contains_eq_mem]
  congr 1
  exact decide_eq_decide.mpr this

/-! ## the fold loop of `createCVBatch` -/

/-- the loop hands out ⌊nb/k⌋+1 batch numbers to the first `remainder` folds and ⌊nb/k⌋ to the others -/
theorem batchFoldsLoop_eq (ps : Nat) : ∀ (i rem : Nat) (pos : List Nat),
    batchFoldsLoop i ps rem pos =
      splitBySizes pos ((List.range i).map fun j => ps + (if j < rem then 1 else 0)) := by
  intro i
  induction i with
  | zero => intro rem pos; simp [batchFoldsLoop, splitBySizes]
  | succ i ih =>
    intro rem pos
    rw [batchFoldsLoop, List.range_succ_eq_map, List.map_cons, splitBySizes, ih (rem - 1)]
    have hsz : (if rem > 0 then ps + 1 else ps) = ps + (if 0 < rem then 1 else 0) := by split <;> simp
    rw [hsz]
    congr 2
    rw [List.map_map]
    apply List.map_congr_left
    intro j _
    simp only [Function.comp]
    by_cases h : j + 1 < rem
    · have : j < rem - 1 := by omega
      simp [h, this]
    · have : ¬ j < rem - 1 := by omega
      simp [h, this]

end SharkVerif.CVAny
