/-
C20: access summaries of parallel regions as *generated* terms (translate/par_regions.py extracts, per region, the
variables written in the body and classifies them) and the generic theorem that discharges the per-region obligation.
-/
import SharkVerif.Lemmas.Par
import Mathlib.Data.Nat.Pairing
namespace SharkVerif.Par

/-- how a variable written inside a parallel region is addressed -/
inductive WClass where
  | local          -- declared inside the region body: one instance per iteration
  | iterIndexed    -- shared container, element selected by the loop variable
  | threadIndexed  -- shared container, element selected by the thread id (read-modify-write by its owner)
  | critical       -- updated inside SHARK_CRITICAL_REGION only
  | readOnly       -- shared, only read (incl. calls reviewed as not writing shared state)
  | shared         -- shared and written without protection
  deriving DecidableEq, Repr

structure Summary where
  id : String
  hash : String
  vars : List (String × WClass)

/-- class of variable number `j` (variables beyond the list are read-only inputs) -/
def Summary.cls (s : Summary) (j : Nat) : WClass := (s.vars[j]?.map (·.2)).getD .readOnly

/-- the decidable check evaluated on every generated summary -/
def Summary.ok (s : Summary) : Bool := s.vars.all fun v => v.2 != WClass.shared

/-- slot `x` of variable number `j` as a location of the abstract machine -/
def vloc (j x : Nat) : Loc := Nat.pair j x

/-- slots of a variable written / read outside critical sections, and updated inside them, by iteration `i` on thread `t` -/
def wslots (t i : Nat) : WClass → List Nat
  | .local => [i + 1] | .iterIndexed => [i + 1] | .threadIndexed => [t + 1] | .shared => [0] | _ => []
def rslots (t : Nat) : WClass → List Nat
  | .threadIndexed => [t + 1] | .readOnly => [0] | _ => []
def cslots : WClass → List Nat
  | .critical => [0] | _ => []

def WritesAt (s : Summary) (t i : Nat) (l : Loc) : Prop := ∃ j x, x ∈ wslots t i (s.cls j) ∧ l = vloc j x
def ReadsAt (s : Summary) (t : Nat) (l : Loc) : Prop := ∃ j x, x ∈ rslots t (s.cls j) ∧ l = vloc j x
def CritAt (s : Summary) (l : Loc) : Prop := ∃ j x, x ∈ cslots (s.cls j) ∧ l = vloc j x

/-- the premises of `split_drf` / `CritOK` for the region described by `s`: what an iteration writes outside the
critical section is touched by no iteration running on another thread, and lock-protected locations are never touched
outside the critical section -/
def RaceFree (s : Summary) : Prop :=
  (∀ t u i i' l, t ≠ u → i ≠ i' → WritesAt s t i l → ¬ WritesAt s u i' l ∧ ¬ ReadsAt s u l) ∧
  (∀ t i l, CritAt s l → ¬ WritesAt s t i l ∧ ¬ ReadsAt s t l)

theorem cls_ne_shared_of_ok (s : Summary) (hok : s.ok = true) (j : Nat) : s.cls j ≠ .shared := by
  unfold Summary.cls
  cases h : s.vars[j]? with
  | none => simp
  | some v =>
    have hm : v ∈ s.vars := List.mem_of_getElem? h
    have := List.all_eq_true.1 hok v hm
    simpa using this

/-- **generic discharge of a generated summary**: no shared-and-unprotected write ⇒ the region is race free for every
number of iterations, every thread count and every assignment of iterations to threads -/
theorem summary_race_free (s : Summary) (hok : s.ok = true) : RaceFree s := by
  have hns := cls_ne_shared_of_ok s hok
  refine ⟨?_, ?_⟩
  · intro t u i i' l htu hii ⟨j, x, hx, hl⟩
    refine ⟨?_, ?_⟩
    · rintro ⟨j', x', hx', hl'⟩
      rw [hl] at hl'
      obtain ⟨rfl, rfl⟩ := Nat.pair_eq_pair.1 hl'
      have := hns j
      cases hc : s.cls j <;> simp [hc, wslots] at hx hx' this <;> omega
    · rintro ⟨j', x', hx', hl'⟩
      rw [hl] at hl'
      obtain ⟨rfl, rfl⟩ := Nat.pair_eq_pair.1 hl'
      have := hns j
      cases hc : s.cls j <;> simp [hc, wslots, rslots] at hx hx' this <;> omega
  · intro t i l ⟨j, x, hx, hl⟩
    refine ⟨?_, ?_⟩
    · rintro ⟨j', x', hx', hl'⟩
      rw [hl] at hl'
      obtain ⟨rfl, rfl⟩ := Nat.pair_eq_pair.1 hl'
      cases hc : s.cls j <;> simp [hc, wslots, cslots] at hx hx'
    · rintro ⟨j', x', hx', hl'⟩
      rw [hl] at hl'
      obtain ⟨rfl, rfl⟩ := Nat.pair_eq_pair.1 hl'
      cases hc : s.cls j <;> simp [hc, rslots, cslots] at hx hx'

/-- sharpness: a summary containing a shared unprotected write is *not* race free (two iterations on two threads write
the same location), so a generated obligation fails for a reason, not by accident of `decide` -/
theorem shared_write_not_race_free (s : Summary) (j : Nat) (h : s.cls j = .shared) : ¬ RaceFree s := by
  intro ⟨h1, _⟩
  have hw : ∀ t i, WritesAt s t i (vloc j 0) := fun t i => ⟨j, 0, by simp [h, wslots], rfl⟩
  exact (h1 0 1 0 1 (vloc j 0) (by decide) (by decide) (hw 0 0)).1 (hw 1 1)

/-- inventory entry of a `mutable` member / `const_cast` in a component that can be plugged into a parallel region -/
structure MutableMember where
  file : String
  decl : String
  reviewed : Bool

end SharkVerif.Par
