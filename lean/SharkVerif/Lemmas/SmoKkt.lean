/-
Helper lemmas for C07/C08: what the max/min folds of the solver (`getMaxKKTViolations`, `checkKKT`) compute,
existence of a bias for a pairwise-KKT point, and the concavity bound behind `kkt_eps_near_optimal`.
Over `Rat`, all sizes.
-/
import SharkVerif.Lemmas.SmoObjective
namespace SharkVerif.Smo
open SharkVerif.Qp

/-! ### finite maxima -/

theorem exists_max (P : Nat → Prop) (g : Nat → Rat) : ∀ n, (∃ i, i < n ∧ P i) →
    ∃ i, i < n ∧ P i ∧ ∀ k, k < n → P k → g k ≤ g i := by
  intro n
  induction n with
  | zero => rintro ⟨i, hi, _⟩; omega
  | succ n ih =>
    rintro ⟨i0, hi0, hP0⟩
    by_cases hex : ∃ i, i < n ∧ P i
    · obtain ⟨i, hi, hPi, hmax⟩ := ih hex
      by_cases hn : P n ∧ g i < g n
      · refine ⟨n, Nat.lt_succ_self n, hn.1, ?_⟩
        intro k hk hPk
        by_cases hkn : k = n
        · subst hkn; exact le_refl _
        · exact le_trans (hmax k (by omega) hPk) (le_of_lt hn.2)
      · refine ⟨i, Nat.lt_succ_of_lt hi, hPi, ?_⟩
        intro k hk hPk
        by_cases hkn : k = n
        · subst hkn
          by_contra hc
          exact hn ⟨hPk, not_le.mp hc⟩
        · exact hmax k (by omega) hPk
    · have : i0 = n := by
        by_contra hne
        exact hex ⟨i0, by omega, hP0⟩
      subst this
      refine ⟨i0, hi0, hP0, ?_⟩
      intro k hk hPk
      by_cases hkn : k = i0
      · subst hkn; exact le_refl _
      · exact absurd ⟨k, by omega, hPk⟩ hex

theorem exists_min (P : Nat → Prop) (g : Nat → Rat) (n : Nat) (h : ∃ i, i < n ∧ P i) :
    ∃ i, i < n ∧ P i ∧ ∀ k, k < n → P k → g i ≤ g k := by
  obtain ⟨i, hi, hP, hm⟩ := exists_max P (fun k => - g k) n h
  exact ⟨i, hi, hP, fun k hk hPk => by have := hm k hk hPk; linarith⟩

/-- a point that satisfies the pairwise KKT conditions up to `ε` admits a bias in the KKT interval -/
theorem exists_bias (n : Nat) (g : Nat → Rat) (upFree loFree : Nat → Prop) (ε : Rat) (hε : 0 ≤ ε)
    (hpair : ∀ i j, i < n → j < n → upFree i → loFree j → g i - g j ≤ ε) :
    ∃ b : Rat, (∀ i, i < n → upFree i → g i - b ≤ ε) ∧ (∀ j, j < n → loFree j → b - g j ≤ ε) := by
  by_cases hu : ∃ i, i < n ∧ upFree i
  · obtain ⟨i, hi, hPi, hmax⟩ := exists_max upFree g n hu
    refine ⟨g i - ε, ?_, ?_⟩
    · intro k hk hPk; have := hmax k hk hPk; linarith
    · intro j hj hPj; have := hpair i j hi hj hPi hPj; linarith
  · by_cases hl : ∃ j, j < n ∧ loFree j
    · obtain ⟨j, hj, hPj, hmin⟩ := exists_min loFree g n hl
      refine ⟨g j, ?_, ?_⟩
      · intro i hi hPi; exact absurd ⟨i, hi, hPi⟩ hu
      · intro k hk hPk; have := hmin k hk hPk; linarith
    · exact ⟨0, fun i hi hPi => absurd ⟨i, hi, hPi⟩ hu, fun j hj hPj => absurd ⟨j, hj, hPj⟩ hl⟩

/-! ### concavity: a KKT(ε) point is ε·Σ(U−L)-optimal -/

/-- positive semi-definiteness of the quadratic form on `n` variables -/
def PSD (n : Nat) (Q : Nat → Nat → Rat) : Prop := ∀ v : Nat → Rat, 0 ≤ bil n Q v v

/-- core estimate: for symmetric PSD `Q`, feasible `α`, `β` and a bias `b` with `b·(Σβ − Σα) = 0` (either `b = 0`:
box problem, or `Σβ = Σα`: equality constraint), if `α` satisfies the KKT conditions up to `ε` relative to `b`
then `D(β) − D(α) ≤ ε·Σ(U−L)`. -/
theorem near_optimal_core {n : Nat} {Q : Nat → Nat → Rat} (hsym : ∀ a b, Q a b = Q b a) (hpsd : PSD n Q)
    (lin L U α β : Nat → Rat) (ε b : Rat) (hε : 0 ≤ ε)
    (hα : ∀ k, k < n → L k ≤ α k ∧ α k ≤ U k) (hβ : ∀ k, k < n → L k ≤ β k ∧ β k ≤ U k)
    (hb : b * (rsum β n - rsum α n) = 0)
    (hup : ∀ k, k < n → α k < U k → (lin k - rsum (fun c => Q k c * α c) n) - b ≤ ε)
    (hlo : ∀ k, k < n → L k < α k → b - (lin k - rsum (fun c => Q k c * α c) n) ≤ ε) :
    dual n Q lin β - dual n Q lin α ≤ ε * rsum (fun k => U k - L k) n := by
  rw [dual_diff hsym]
  have hq := hpsd (fun a => β a - α a)
  have hsplit : rsum (fun a => (lin a - rsum (fun c => Q a c * α c) n) * (β a - α a)) n
      = rsum (fun a => ((lin a - rsum (fun c => Q a c * α c) n) - b) * (β a - α a)) n := by
    have : (fun a => (lin a - rsum (fun c => Q a c * α c) n) * (β a - α a))
        = fun a => ((lin a - rsum (fun c => Q a c * α c) n) - b) * (β a - α a) + b * (β a - α a) := by
      funext a; ring
    rw [this, rsum_add, rsum_mul_left, rsum_sub, hb, add_zero]
  have hterm : rsum (fun a => ((lin a - rsum (fun c => Q a c * α c) n) - b) * (β a - α a)) n
      ≤ rsum (fun k => ε * (U k - L k)) n := by
    apply rsum_le
    intro k hk
    obtain ⟨ha1, ha2⟩ := hα k hk
    obtain ⟨hb1, hb2⟩ := hβ k hk
    generalize hG : lin k - rsum (fun c => Q k c * α c) n = G
    have hup' := hup k hk
    have hlo' := hlo k hk
    rw [hG] at hup' hlo'
    rcases lt_trichotomy (β k) (α k) with hlt | heq | hgt
    · have h1 := hlo' (by linarith)
      have h2 : (G - b) * (β k - α k) = (b - G) * (α k - β k) := by ring
      rw [h2]
      calc (b - G) * (α k - β k) ≤ ε * (α k - β k) := mul_le_mul_of_nonneg_right h1 (by linarith)
        _ ≤ ε * (U k - L k) := mul_le_mul_of_nonneg_left (by linarith) hε
    · rw [heq, sub_self, mul_zero]; exact mul_nonneg hε (by linarith)
    · have h1 := hup' (by linarith)
      calc (G - b) * (β k - α k) ≤ ε * (β k - α k) := mul_le_mul_of_nonneg_right h1 (by linarith)
        _ ≤ ε * (U k - L k) := mul_le_mul_of_nonneg_left (by linarith) hε
  rw [rsum_mul_left] at hterm
  rw [hsplit]
  linarith

/-! ### the max/min folds of the solver -/

/-- `getMaxKKTViolations` over the first `m` variables: upper bound of the gradients of all variables not at their
upper bound, lower bound of those not at their lower bound -/
theorem maxKKT_spec (s : RS) : ∀ m,
    (∀ a, a < m → s.up a = false → s.g a ≤ (s.maxKKT m).1) ∧ (∀ a, a < m → s.lo a = false → (s.maxKKT m).2 ≤ s.g a) := by
  intro m
  induction m with
  | zero => exact ⟨fun a ha => by omega, fun a ha => by omega⟩
  | succ m ih =>
    have hstep : s.maxKKT (m + 1) =
        ((if !s.up m then smax (s.maxKKT m).1 (s.g m) else (s.maxKKT m).1),
         (if !s.lo m then smin (s.maxKKT m).2 (s.g m) else (s.maxKKT m).2)) := by
      unfold State.maxKKT
      rw [List.range_succ, List.foldl_append]
      rfl
    rw [hstep]
    obtain ⟨ih1, ih2⟩ := ih
    constructor
    · intro a ha hup
      dsimp only
      by_cases ham : a = m
      · subst ham; simp only [hup, Bool.not_false, if_true]; unfold smax; split
        · exact le_refl _
        · rename_i h; exact not_lt.mp h
      · have := ih1 a (by omega) hup
        split
        · unfold smax; split
          · rename_i h; linarith
          · exact this
        · exact this
    · intro a ha hlo
      dsimp only
      by_cases ham : a = m
      · subst ham; simp only [hlo, Bool.not_false, if_true]; unfold smin; split
        · exact le_refl _
        · rename_i h; exact not_lt.mp h
      · have := ih2 a (by omega) hlo
        split
        · unfold smin; split
          · rename_i h; linarith
          · exact this
        · exact this

/-- `checkKKT` of the equality-constrained problem is `maxKKT` over the active variables -/
theorem checkKKT_svm (s : RS) (he : s.eqc = true) :
    s.checkKKT = (s.maxKKT s.active).1 - (s.maxKKT s.active).2 := by
  unfold State.checkKKT; rw [if_pos he]; rfl

/-- the box-problem `checkKKT` bounds every single KKT violation -/
theorem checkKKT_box_spec (s : RS) (he : s.eqc = false) :
    ∀ i, i < s.n → ¬(s.lo i = true ∧ s.up i = true) →
      (s.up i = false → s.g i ≤ s.checkKKT) ∧ (s.lo i = false → - s.g i ≤ s.checkKKT) := by
  have key : ∀ m, let v := (List.range m).foldl (fun (mx : Rat) i =>
        if s.lo i && s.up i then mx else
        let mx := if !s.up i then smax mx (s.g i) else mx
        if !s.lo i then smax mx (-(s.g i)) else mx) (0.0 : Rat)
      ∀ i, i < m → ¬(s.lo i = true ∧ s.up i = true) →
        (s.up i = false → s.g i ≤ v) ∧ (s.lo i = false → - s.g i ≤ v) := by
    intro m
    induction m with
    | zero => intro v i hi; omega
    | succ m ih =>
      intro v i hi hnb
      have hv : v = (fun (mx : Rat) i =>
          if s.lo i && s.up i then mx else
          let mx := if !s.up i then smax mx (s.g i) else mx
          if !s.lo i then smax mx (-(s.g i)) else mx)
          ((List.range m).foldl (fun (mx : Rat) i =>
            if s.lo i && s.up i then mx else
            let mx := if !s.up i then smax mx (s.g i) else mx
            if !s.lo i then smax mx (-(s.g i)) else mx) (0.0 : Rat)) m := by
        show (List.range (m + 1)).foldl _ _ = _
        rw [List.range_succ, List.foldl_append]; rfl
      generalize hw : (List.range m).foldl (fun (mx : Rat) i =>
            if s.lo i && s.up i then mx else
            let mx := if !s.up i then smax mx (s.g i) else mx
            if !s.lo i then smax mx (-(s.g i)) else mx) (0.0 : Rat) = w at hv ih
      have ih' := ih
      dsimp only at ih'
      -- monotone: v ≥ w
      have hmono : w ≤ v := by
        rw [hv]; dsimp only; unfold smax; split_ifs <;> linarith
      by_cases him : i = m
      · subst him
        have hnb' : (s.lo i && s.up i) = false := by
          cases h1 : s.lo i <;> cases h2 : s.up i <;> simp_all
        constructor
        · intro hup
          rw [hv]; dsimp only; rw [hnb']; simp only [hup, Bool.not_false, if_true, Bool.false_eq_true, if_false]
          unfold smax; split_ifs <;> linarith
        · intro hlo
          rw [hv]; dsimp only; rw [hnb']; simp only [hlo, Bool.not_false, if_true, Bool.false_eq_true, if_false]
          unfold smax; split_ifs <;> linarith
      · have := ih' i (by omega) hnb
        exact ⟨fun h => le_trans (this.1 h) hmono, fun h => le_trans (this.2 h) hmono⟩
  intro i hi hnb
  have := key s.n i hi hnb
  unfold State.checkKKT; rw [if_neg (by rw [he]; simp)]
  exact this

end SharkVerif.Smo
