/-
C17: from one `next()` step to whole runs; sorted prefixes.
-/
import SharkVerif.Lemmas.NNStep
namespace SharkVerif.NN

/-! ## Sorting facts (insertion sort `sortVals` of the model) -/

theorem insertVal_perm (x : Rat) : ∀ l : List Rat, (insertVal x l).Perm (x :: l)
  | [] => List.Perm.refl _
  | y :: ys => by
    simp only [insertVal]
    by_cases c : x < y
    · simp [c]
    · simp only [c, if_false]
      exact (List.Perm.cons y (insertVal_perm x ys)).trans (List.Perm.swap x y ys)

theorem sortVals_perm : ∀ l : List Rat, (sortVals l).Perm l
  | [] => List.Perm.refl _
  | x :: xs => (insertVal_perm x (sortVals xs)).trans (List.Perm.cons x (sortVals_perm xs))

theorem insertVal_sorted (x : Rat) : ∀ l : List Rat, l.Pairwise (· ≤ ·) → (insertVal x l).Pairwise (· ≤ ·)
  | [], _ => by simp [insertVal]
  | y :: ys, h => by
    simp only [insertVal]
    have hy := List.pairwise_cons.mp h
    by_cases c : x < y
    · simp only [c, if_true]
      refine List.pairwise_cons.mpr ⟨?_, h⟩
      intro z hz
      rcases List.mem_cons.mp hz with rfl | hz
      · grind
      · have := hy.1 z hz; grind
    · simp only [c, if_false]
      refine List.pairwise_cons.mpr ⟨?_, insertVal_sorted x ys hy.2⟩
      intro z hz
      have hz' := (insertVal_perm x ys).subset hz
      rcases List.mem_cons.mp hz' with rfl | hz'
      · grind
      · exact hy.1 z hz'

theorem sortVals_sorted : ∀ l : List Rat, (sortVals l).Pairwise (· ≤ ·)
  | [] => List.Pairwise.nil
  | x :: xs => insertVal_sorted x _ (sortVals_sorted xs)

theorem sorted_perm_unique : ∀ (l1 l2 : List Rat), l1.Perm l2 → l1.Pairwise (· ≤ ·) →
    l2.Pairwise (· ≤ ·) → l1 = l2
  | [], l2, h, _, _ => by simpa using h.symm.eq_nil
  | a :: t1, [], h, _, _ => by simpa using h.eq_nil
  | a :: t1, b :: t2, h, h1, h2 => by
    have p1 := List.pairwise_cons.mp h1
    have p2 := List.pairwise_cons.mp h2
    have hab : a = b := by
      have hb : b ∈ a :: t1 := h.symm.subset (List.mem_cons_self ..)
      have ha : a ∈ b :: t2 := h.subset (List.mem_cons_self ..)
      have l1 : a ≤ b := by
        rcases List.mem_cons.mp hb with rfl | hb
        · exact Rat.le_refl
        · exact p1.1 b hb
      have l2 : b ≤ a := by
        rcases List.mem_cons.mp ha with rfl | ha
        · exact Rat.le_refl
        · exact p2.1 a ha
      exact Rat.le_antisymm l1 l2
    subst hab
    rw [sorted_perm_unique t1 t2 (List.Perm.cons_inv h) p1.2 p2.2]

/-- a sorted list that is below the rest of a multiset is the prefix of the sorted multiset -/
theorem sorted_prefix (A B L : List Rat) (hp : (A ++ B).Perm L) (hA : A.Pairwise (· ≤ ·))
    (hAB : ∀ a ∈ A, ∀ b ∈ B, a ≤ b) : A = (sortVals L).take A.length := by
  have h1 : (A ++ sortVals B).Pairwise (· ≤ ·) := by
    refine List.pairwise_append.mpr ⟨hA, sortVals_sorted B, ?_⟩
    intro a ha b hb
    exact hAB a ha b ((sortVals_perm B).subset hb)
  have h2 : (A ++ sortVals B).Perm (sortVals L) :=
    ((List.Perm.append_left A (sortVals_perm B)).trans hp).trans (sortVals_perm L).symm
  have := sorted_perm_unique _ _ h2 h1 (sortVals_sorted L)
  rw [← this]; simp

/-! ## Runs -/

/-- `k` further calls of `next()` from a good state -/
theorem run_good {dist : Nat → Rat} {all : List Nat} : ∀ (k : Nat) (s : QState) (ret : List Nat),
    Good dist all s ret → ret.length + k ≤ all.length →
    ret.Pairwise (fun a b => dist a ≤ dist b) →
    ∃ (is : List Nat) (s' : QState), run k s = is.map (fun i => some (dist i, i)) ∧ is.length = k ∧
      Good dist all s' (ret ++ is) ∧ (ret ++ is).Pairwise (fun a b => dist a ≤ dist b)
  | 0, s, ret, hG, _, hp => ⟨[], s, by simp [run], rfl, by simpa using hG, by simpa using hp⟩
  | k + 1, s, ret, hG, hk, hp => by
    obtain ⟨s1, i, h1, h2, h3, h4⟩ := next_step hG (by omega)
    have hp1 : (ret ++ [i]).Pairwise (fun a b => dist a ≤ dist b) := by
      refine List.pairwise_append.mpr ⟨hp, by simp, ?_⟩
      intro a ha b hb
      simp at hb; subst hb
      exact hG.sorted a ha b h2
    obtain ⟨is, s', e1, e2, e3, e4⟩ := run_good k s1 (ret ++ [i]) h4 (by simp; omega) hp1
    refine ⟨i :: is, s', ?_, by simp [e2], by simpa using e3, by simpa using e4⟩
    simp [run, h1, e1]

/-- the constructor establishes the invariant -/
theorem init_good {dist : Nat → Rat} {t : TTree} (hf : Fresh t) (ha : LbAdm dist t)
    (hu : LeafUniform dist t) (hn : LeavesNonempty t) : Good dist t.pts (init t) [] := by
  obtain ⟨h1, h2⟩ := initDescend_spec dist t hf
  have hinv := fresh_inv t hf
  generalize hr : initDescend t = r at h1 h2
  obtain ⟨t', q, e, p⟩ := r
  have hq : QTrue dist q := h1.qtrue hu hn (by intro lf hlf; simp at hlf)
  have hperm : (qpts q ++ t'.unq).Perm t.pts := by
    have := h1.perm
    simpa [qpts, fresh_unq t hf] using this
  have hi : init t = (⟨t', q, 0, headOfPath p, t'.radius, 0⟩ : QState) := by
    simp [init, hr]
  rw [hi]
  have hcur : (curPts (⟨t', q, 0, headOfPath p, t'.radius, 0⟩ : QState)).Perm (qpts q) := by
    simp only [curPts]
    cases hx : extractMin q with
    | none => simp [extractMin_none.mp hx, qpts]
    | some pr => obtain ⟨f, rest⟩ := pr; simpa using extractMin_qpts hx
  refine { inv := (h1.inv hinv).1, lbadm := h1.lbadm ha, unif := h1.unif hu, nonempty := h1.nonempty hn,
           qtrue := hq, radius := radius_le dist _ (h1.lbadm ha) (h1.inv hinv).1, perm := ?_,
           sorted := by simp, cur := by simp, head := ?_, nb := by simp, ni := by simp, size := ?_ }
  · simp only [List.nil_append, remaining]
    exact (List.Perm.append_right _ hcur).trans hperm
  · intro hh
    apply h2
    show p = []
    have hh' : headOfPath p = none := hh
    unfold headOfPath at hh'
    cases hrev : p.reverse with
    | nil => simpa using hrev
    | cons b up => simp [hrev] at hh'
  · show t'.size = t.pts.length
    simp [TTree.size, h1.pts]

/-! ## The radius invariant alone (no `LeafUniform`) -/

structure RInv (dist : Nat → Rat) (s : QState) : Prop where
  inv : Inv s.tree
  lbadm : LbAdm dist s.tree
  radius : ∀ p ∈ s.tree.unq, s.radius ≤ dist p
  head : s.head = none → s.tree.unq = []

theorem fresh_fields (s : QState) (q : List Leaf) :
    (fresh s q).1.tree = (refill s q).1 ∧ (fresh s q).1.radius = (refill s q).2.2.2 ∧
    (fresh s q).1.head = (refill s q).2.2.1 := by
  simp only [fresh]
  cases hf : front (refill s q).2.1 <;> simp [getNextPoint]

theorem rinv_fresh {dist : Nat → Rat} {s : QState} (h : RInv dist s) (q : List Leaf) :
    RInv dist (fresh s q).1 := by
  have R := refill_spec (q0 := q) h.inv h.lbadm h.radius h.head
  obtain ⟨e1, e2, e3⟩ := fresh_fields s q
  refine ⟨?_, ?_, ?_, ?_⟩
  · rw [e1]; exact (R.spec.inv h.inv).1
  · rw [e1]; exact R.spec.lbadm h.lbadm
  · rw [e1, e2]; exact R.radius
  · rw [e1, e3]; exact R.head

theorem rinv_next {dist : Nat → Rat} {s : QState} (h : RInv dist s) : RInv dist (next s).1 := by
  unfold next
  split
  · exact h
  · split
    · split
      · exact rinv_fresh h _
      · split
        · exact ⟨h.inv, h.lbadm, h.radius, h.head⟩
        · exact rinv_fresh h _
    · exact rinv_fresh h _

theorem rinv_init {dist : Nat → Rat} {t : TTree} (hf : Fresh t) (ha : LbAdm dist t) :
    RInv dist (init t) := by
  obtain ⟨h1, h2⟩ := initDescend_spec dist t hf
  have hinv := fresh_inv t hf
  generalize hr : initDescend t = r at h1 h2
  obtain ⟨t', q, e, p⟩ := r
  have hi : init t = (⟨t', q, 0, headOfPath p, t'.radius, 0⟩ : QState) := by
    simp [init, hr]
  rw [hi]
  refine ⟨(h1.inv hinv).1, h1.lbadm ha, radius_le dist _ (h1.lbadm ha) (h1.inv hinv).1, ?_⟩
  intro hh
  apply h2
  show p = []
  have hh' : headOfPath p = none := hh
  unfold headOfPath at hh'
  cases hrev : p.reverse with
  | nil => simpa using hrev
  | cons b up => simp [hrev] at hh'

/-- state after `k` calls of `next()` -/
def stateAfter : Nat → QState → QState
  | 0, s => s
  | k + 1, s => stateAfter k (next s).1

theorem rinv_after {dist : Nat → Rat} : ∀ (k : Nat) (s : QState), RInv dist s → RInv dist (stateAfter k s)
  | 0, _, h => h
  | k + 1, s, h => rinv_after k _ (rinv_next h)

end SharkVerif.NN
