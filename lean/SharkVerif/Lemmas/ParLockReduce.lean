/-
C20: the reduction pattern `SHARK_CRITICAL_REGION{ acc += partial; }` on the machine with an explicit lock, where
the critical section is a *non-atomic* read-modify-write (`acquire; load; store; release`) interleaved instruction by
instruction with all other threads.  Invariant proof over all schedules: the accumulator ends as the fold of all
partial results in the order in which the threads got the lock.
-/
import SharkVerif.Lemmas.ParLock
import SharkVerif.Lemmas.ParWide
namespace SharkVerif.Par
variable {V : Type}

/-- `acc op= x` under lock 0 (register 0 is the scratch register of the read-modify-write) -/
def rmwSection (op : V → V → V) (l : Loc) (x : V) : List (LInstr V) :=
  [.acquire 0, .load 0 l, .store l (fun r => op (r 0) x), .release 0]

/-- `T` threads (or iterations), thread `t` merges its partial result `x t` -/
def reduceProgs (op : V → V → V) (l : Loc) (T : Nat) (x : Nat → V) : Nat → List (LInstr V) :=
  fun t => if t < T then rmwSection op l (x t) else []

structure RInv (op : V → V → V) (l : Loc) (T : Nat) (x : Nat → V) (m0 : Store V) (c : LCfg V) : Prop where
  ex : ∃ (ph : Nat → Nat) (log : List Nat),
    (∀ t, c.prog t = (reduceProgs op l T x t).drop (ph t)) ∧
    (∀ t, ph t ≤ 4) ∧
    c.mem l = (log.map x).foldl op (m0 l) ∧ log.Nodup ∧
    (∀ t, t ∈ log ↔ (t < T ∧ 3 ≤ ph t)) ∧
    (∀ t, c.owner 0 = some t ↔ (t < T ∧ 1 ≤ ph t ∧ ph t ≤ 3)) ∧
    (∀ t, t < T → ph t = 2 → c.regs t 0 = c.mem l)

theorem rinv_init (op : V → V → V) (l : Loc) (T : Nat) (x : Nat → V) (m0 : Store V) (r0 : Nat → Regs V) :
    RInv op l T x m0 (linit m0 r0 (reduceProgs op l T x)) :=
  ⟨fun _ => 0, [], fun _ => by simp [linit], fun _ => Nat.zero_le _, by simp [linit], List.nodup_nil,
   fun t => by simp, fun t => by simp [linit], fun t _ h => by simp at h⟩

theorem drop_phase (op : V → V → V) (l : Loc) (T : Nat) (x : Nat → V) (t p : Nat) (i : LInstr V) (rest : List (LInstr V))
    (h : (reduceProgs op l T x t).drop p = i :: rest) :
    t < T ∧ p < 4 ∧ rest = (reduceProgs op l T x t).drop (p + 1) := by
  unfold reduceProgs at *
  by_cases ht : t < T
  · simp only [ht, ↓reduceIte] at *
    refine ⟨trivial, ?_, ?_⟩
    · rcases Nat.lt_or_ge p 4 with h1 | h1
      · exact h1
      · rw [List.drop_eq_nil_of_le (by simp [rmwSection]; omega)] at h; cases h
    · have : (rmwSection op l (x t)).drop (p+1) = ((rmwSection op l (x t)).drop p).drop 1 := by rw [List.drop_drop]
      rw [this, h]; rfl
  · simp [ht] at h

theorem rinv_step (op : V → V → V) (l : Loc) (T : Nat) (x : Nat → V) (m0 : Store V)
    {c : LCfg V} (h : RInv op l T x m0 c) (t : Nat) : RInv op l T x m0 (lstep c t) := by
  obtain ⟨ph, log, hprog, hle, hmem, hnd, hlog, hown, hreg⟩ := h.ex
  -- what the next instruction is, by phase
  have hphase : ∀ (i : LInstr V) (rest : List (LInstr V)), c.prog t = i :: rest →
      t < T ∧ ph t < 4 ∧ rest = (reduceProgs op l T x t).drop (ph t + 1) ∧
      i = (match ph t with
           | 0 => LInstr.acquire 0 | 1 => LInstr.load 0 l
           | 2 => LInstr.store l (fun r => op (r 0) (x t)) | _ => LInstr.release 0) := by
    intro i rest hp
    rw [hprog t] at hp
    obtain ⟨h1, h2, h3⟩ := drop_phase op l T x t (ph t) i rest hp
    refine ⟨h1, h2, h3, ?_⟩
    unfold reduceProgs at hp
    simp only [h1, ↓reduceIte, rmwSection] at hp
    have : ph t = 0 ∨ ph t = 1 ∨ ph t = 2 ∨ ph t = 3 := by omega
    rcases this with e | e | e | e <;> rw [e] at hp ⊢ <;> simp at hp <;> exact hp.1.symm
  have hadv : ∀ u, (updAt ph t (ph t + 1)) u = if u = t then ph t + 1 else ph u := fun u => rfl
  unfold lstep
  split
  · exact h
  · -- load
    rename_i r l' rest hp
    obtain ⟨htT, hlt, hrest, hi⟩ := hphase _ _ hp
    have hp1 : ph t = 1 := by
      have : ph t = 0 ∨ ph t = 1 ∨ ph t = 2 ∨ ph t = 3 := by omega
      rcases this with e | e | e | e <;> rw [e] at hi <;> simp at hi <;> exact e
    rw [hp1] at hi; simp at hi; obtain ⟨rfl, rfl⟩ := hi
    refine ⟨updAt ph t (ph t + 1), log, ?_, ?_, hmem, hnd, ?_, ?_, ?_⟩
    · intro u; by_cases e : u = t
      · subst e; simp [updAt, hrest]
      · simp [updAt, e, hprog u]
    · intro u; rw [hadv]; split <;> [omega; exact hle u]
    · intro u; rw [hadv, hlog u]; by_cases e : u = t
      · subst e; simp; omega
      · simp [e]
    · intro u; show c.owner 0 = some u ↔ _; rw [hadv, hown u]; by_cases e : u = t
      · subst e; simp; omega
      · simp [e]
    · intro u hu; rw [hadv]; by_cases e : u = t
      · subst e; intro _; simp [updAt, setReg]
      · simp only [e, ↓reduceIte, updAt]; exact hreg u hu
  · -- store
    rename_i l' f rest hp
    obtain ⟨htT, hlt, hrest, hi⟩ := hphase _ _ hp
    have hp2 : ph t = 2 := by
      have : ph t = 0 ∨ ph t = 1 ∨ ph t = 2 ∨ ph t = 3 := by omega
      rcases this with e | e | e | e <;> rw [e] at hi <;> simp at hi <;> exact e
    rw [hp2] at hi; simp at hi; obtain ⟨rfl, rfl⟩ := hi
    have hown_t : c.owner 0 = some t := (hown t).2 ⟨htT, by omega, by omega⟩
    have hnot : t ∉ log := fun hm => by have := (hlog t).1 hm; omega
    refine ⟨updAt ph t (ph t + 1), log ++ [t], ?_, ?_, ?_, ?_, ?_, ?_, ?_⟩
    · intro u; by_cases e : u = t
      · subst e; simp [updAt, hrest]
      · simp [updAt, e, hprog u]
    · intro u; rw [hadv]; split <;> [omega; exact hle u]
    · simp only [setLoc, ↓reduceIte, List.map_append, List.foldl_append, List.map_cons, List.map_nil, List.foldl_cons, List.foldl_nil]
      rw [hreg t htT hp2, hmem]
    · exact List.nodup_append.2 ⟨hnd, by simp, by intro a ha b hb; simp at hb; subst hb; intro e; exact hnot (e ▸ ha)⟩
    · intro u; rw [hadv, List.mem_append, hlog u]; by_cases e : u = t
      · subst e; simp; omega
      · simp [e]
    · intro u; show c.owner 0 = some u ↔ _; rw [hadv, hown u]; by_cases e : u = t
      · subst e; simp; omega
      · simp [e]
    · intro u hu; rw [hadv]; by_cases e : u = t
      · subst e; intro h2; simp at h2; omega
      · simp only [e, ↓reduceIte]
        intro hu2
        have : c.owner 0 = some u := (hown u).2 ⟨hu, by omega, by omega⟩
        rw [hown_t] at this
        exact absurd (Option.some.inj this).symm e
  · -- acquire
    rename_i k rest hp
    obtain ⟨htT, hlt, hrest, hi⟩ := hphase _ _ hp
    have hp0 : ph t = 0 := by
      have : ph t = 0 ∨ ph t = 1 ∨ ph t = 2 ∨ ph t = 3 := by omega
      rcases this with e | e | e | e <;> rw [e] at hi <;> simp at hi <;> exact e
    rw [hp0] at hi; simp at hi; subst hi
    split
    · rename_i hnone
      refine ⟨updAt ph t (ph t + 1), log, ?_, ?_, hmem, hnd, ?_, ?_, ?_⟩
      · intro u; by_cases e : u = t
        · subst e; simp [updAt, hrest]
        · simp [updAt, e, hprog u]
      · intro u; rw [hadv]; split <;> [omega; exact hle u]
      · intro u; rw [hadv, hlog u]; by_cases e : u = t
        · subst e; simp; omega
        · simp [e]
      · intro u; show updAt c.owner 0 (some t) 0 = some u ↔ _
        rw [hadv]; simp only [updAt, ↓reduceIte]
        by_cases e : u = t
        · subst e; simp; omega
        · simp only [e, ↓reduceIte]
          constructor
          · intro h'; exact absurd (Option.some.inj h').symm e
          · intro h'; have := (hown u).2 h'; rw [hnone] at this; cases this
      · intro u hu; rw [hadv]; by_cases e : u = t
        · subst e; simp; omega
        · simp only [e, ↓reduceIte]; exact hreg u hu
    · exact h
  · -- release
    rename_i k rest hp
    obtain ⟨htT, hlt, hrest, hi⟩ := hphase _ _ hp
    have hp3 : ph t = 3 := by
      have : ph t = 0 ∨ ph t = 1 ∨ ph t = 2 ∨ ph t = 3 := by omega
      rcases this with e | e | e | e <;> rw [e] at hi <;> simp at hi <;> exact e
    rw [hp3] at hi; simp at hi; subst hi
    have hown_t : c.owner 0 = some t := (hown t).2 ⟨htT, by omega, by omega⟩
    simp only [hown_t, ↓reduceIte]
    refine ⟨updAt ph t (ph t + 1), log, ?_, ?_, hmem, hnd, ?_, ?_, ?_⟩
    · intro u; by_cases e : u = t
      · subst e; simp [updAt, hrest]
      · simp [updAt, e, hprog u]
    · intro u; rw [hadv]; split <;> [omega; exact hle u]
    · intro u; rw [hadv, hlog u]; by_cases e : u = t
      · subst e; simp; omega
      · simp [e]
    · intro u; show updAt c.owner 0 none 0 = some u ↔ _
      rw [hadv]; simp only [updAt, ↓reduceIte]
      by_cases e : u = t
      · subst e; simp; omega
      · simp only [e, ↓reduceIte]
        constructor
        · intro h'; cases h'
        · intro h'; have := (hown u).2 h'; rw [hown_t] at this; exact absurd (Option.some.inj this).symm e
    · intro u hu; rw [hadv]; by_cases e : u = t
      · subst e; simp; omega
      · simp only [e, ↓reduceIte]; exact hreg u hu

theorem rinv_run (op : V → V → V) (l : Loc) (T : Nat) (x : Nat → V) (m0 : Store V)
    (sched : List Nat) : ∀ {c : LCfg V}, RInv op l T x m0 c → RInv op l T x m0 (lrun c sched) := by
  induction sched with
  | nil => intro c h; exact h
  | cons t s ih => intro c h; exact ih (rinv_step op l T x m0 h t)

end SharkVerif.Par
