/-
Correctness of the model of `HypervolumeSubsetSelection2D` (Model/Subset2D.lean):
L1 (`upperEnvelope_eq_max`, in Lemmas/Subset2DEnv.lean), L2 (`dp_value_eq_best_chain`), L3 (`chainArea_eq_hvSpec`),
L4 (`hypSSP_optimal`), L5 (`select_optimal…`).
-/
import SharkVerif.Lemmas.Subset2DEnv
namespace SharkVerif.SSP
open SharkVerif.Pareto SharkVerif.HV

/-! ### notation -/

/-- the point of the (shifted) front as an objective vector -/
def P2.pt (p : P2) : Pt := [p.f1, p.f2]

def fx (F : List P2) (i : Nat) : Int := (F.getD i ⟨0, 0, 0⟩).f1
def fy (F : List P2) (i : Nat) : Int := (F.getD i ⟨0, 0, 0⟩).f2
def ptOf (F : List P2) (i : Nat) : Pt := (F.getD i ⟨0, 0, 0⟩).pt

/-- a front: `f1` strictly increasing, `f2` strictly decreasing, all coordinates `≤ 0` (reference point `(0,0)`) -/
structure IsFront (F : List P2) : Prop where
  mono : F.Pairwise fun p q => p.f1 < q.f1 ∧ q.f2 < p.f2
  nonpos : ∀ p ∈ F, p.f1 ≤ 0 ∧ p.f2 ≤ 0

theorem IsFront.lt {F : List P2} (hF : IsFront F) {i j : Nat} (hij : i < j) (hj : j < F.length) :
    fx F i < fx F j ∧ fy F j < fy F i := by
  have := List.pairwise_iff_getElem.mp hF.mono i j (by omega) hj hij
  simpa [fx, fy, List.getD_eq_getElem?_getD, List.getElem?_eq_getElem hj,
    List.getElem?_eq_getElem (by omega : i < F.length)] using this

theorem IsFront.le {F : List P2} (hF : IsFront F) {i j : Nat} (hij : i ≤ j) (hj : j < F.length) :
    fx F i ≤ fx F j ∧ fy F j ≤ fy F i := by
  rcases Nat.eq_or_lt_of_le hij with rfl | h
  · exact ⟨Int.le_refl _, Int.le_refl _⟩
  · have := hF.lt h hj; omega

theorem IsFront.np {F : List P2} (hF : IsFront F) {i : Nat} (hi : i < F.length) : fx F i ≤ 0 ∧ fy F i ≤ 0 := by
  have := hF.nonpos F[i] (List.getElem_mem hi)
  simpa [fx, fy, List.getD_eq_getElem?_getD, List.getElem?_eq_getElem hi] using this

/-! ### L3: chain area = hypervolume -/

/-- area dominated by the chain `c` (indices into the front, LARGEST FIRST; repetitions allowed) to the left of
the vertical line `x = X`:  `Σ_t (−f2_{i_t})·(f1_{i_{t+1}} − f1_{i_t})` with `f1_{i_{c+1}} := X` -/
def areaL (F : List P2) : List Nat → Int → Int
  | [], _ => 0
  | m :: rest, X => (- fy F m) * (X - fx F m) + areaL F rest (fx F m)

/-- dominated area (reference `(0,0)`) of the chain given by the increasing index list `c` -/
def chainArea (F : List P2) (c : List Nat) : Int := areaL F c.reverse 0

/-- the same sum on a list of points in increasing order -/
def areaF : List Pt → Int → Int
  | [], _ => 0
  | [p], X => (- py p) * (X - px p)
  | p :: q :: rest, X => (- py p) * (px q - px p) + areaF (q :: rest) X

theorem areaF_snoc : ∀ (L : List Pt) (p : Pt) (X : Int),
    areaF (L ++ [p]) X = areaF L (px p) + (- py p) * (X - px p)
  | [], p, X => by simp [areaF]
  | [q], p, X => by simp [areaF]
  | q :: q' :: rest, p, X => by
    have ih := areaF_snoc (q' :: rest) p X
    simp only [List.cons_append] at ih ⊢
    rw [areaF, ih, areaF]
    ring

theorem areaL_eq_areaF (F : List P2) : ∀ (c : List Nat) (X : Int),
    areaL F c X = areaF (c.reverse.map (ptOf F)) X
  | [], X => by simp [areaL, areaF]
  | m :: rest, X => by
    rw [areaL, areaL_eq_areaF F rest, List.reverse_cons, List.map_append, List.map_singleton, areaF_snoc]
    simp [ptOf, P2.pt, px, py, fx, fy]
    ring

theorem areaF_eq_sweep : ∀ (rest : List Pt) (p : Pt), (p :: rest).Pairwise (fun a b => py b ≤ py a) →
    areaF (p :: rest) 0 = (0 - px p) * (0 - py p) + sweep2d 0 (py p) rest
  | [], p, _ => by simp [areaF, sweep2d]; ring
  | q :: rest, p, h => by
    have h' := List.pairwise_cons.mp h
    have hqp : py q ≤ py p := h'.1 q (by simp)
    rw [areaF, areaF_eq_sweep rest q h'.2, sweep2d]
    split
    · ring
    · have e : py q = py p := by omega
      rw [e]; ring

theorem areaF_eq_hv2dSorted (L : List Pt) (h : L.Pairwise (fun a b => py b ≤ py a)) :
    areaF L 0 = hv2dSorted L [0, 0] := by
  match L, h with
  | [], _ => simp [areaF, hv2dSorted]
  | p :: rest, h =>
    rw [areaF_eq_sweep rest p h]
    simp [hv2dSorted, px, py]

/-- a chain: indices into the front, largest first (repetitions allowed) -/
def IsRChain (F : List P2) (c : List Nat) : Prop := c.Pairwise (fun a b => b ≤ a) ∧ ∀ m ∈ c, m < F.length

theorem areaL_eq_hvSpec {F : List P2} (hF : IsFront F) {c : List Nat} (hc : IsRChain F c) :
    areaL F c 0 = (hvSpec (c.map (ptOf F)) [0, 0] : Int) := by
  have hrev : (c.reverse).Pairwise (fun a b => a ≤ b) := List.pairwise_reverse.mpr hc.1
  have hmem : ∀ m ∈ c.reverse, m < F.length := fun m hm => hc.2 m (List.mem_reverse.mp hm)
  have hpw : ∀ (R : Pt → Pt → Prop), (∀ i j, i ≤ j → j < F.length → R (ptOf F i) (ptOf F j)) →
      (c.reverse.map (ptOf F)).Pairwise R := by
    intro R hR
    rw [List.pairwise_map]
    refine List.Pairwise.imp_of_mem ?_ hrev
    intro a b _ hb hab
    exact hR a b hab (hmem b hb)
  rw [areaL_eq_areaF, areaF_eq_hv2dSorted _ (hpw _ fun i j hij hj => (hF.le hij hj).2),
    hv2dSorted_eq_spec (hpw _ fun i j hij hj => (hF.le hij hj).1) (by simp [ptOf, P2.pt]) rfl,
    hvSpec_perm ((List.reverse_perm c).map _)]
  intro p hp
  obtain ⟨m, hm, rfl⟩ := List.mem_map.mp hp
  have := hF.np (hmem m hm)
  simp only [ptOf, P2.pt, leAll, Bool.and_true, Bool.and_eq_true, decide_eq_true_eq]
  exact this

/-- **L3** the area of an increasing chain of the front is the hypervolume of its points w.r.t. `(0,0)` -/
theorem chainArea_eq_hvSpec {F : List P2} (hF : IsFront F) {c : List Nat} (hinc : c.Pairwise (· < ·))
    (hlt : ∀ m ∈ c, m < F.length) : chainArea F c = (hvSpec (c.map (ptOf F)) [0, 0] : Int) := by
  unfold chainArea
  rw [areaL_eq_hvSpec hF ⟨List.pairwise_reverse.mpr (hinc.imp (by intro a b h; omega)),
    fun m hm => hlt m (List.mem_reverse.mp hm)⟩, hvSpec_perm ((List.reverse_perm c).map _)]

/-- non-vacuity of L3 -/
example : IsFront [⟨-5, -1, 0⟩, ⟨-3, -2, 1⟩, ⟨-1, -4, 2⟩] ∧ chainArea [⟨-5, -1, 0⟩, ⟨-3, -2, 1⟩, ⟨-1, -4, 2⟩] [0, 2] = 8 := by
  refine ⟨⟨by decide, by decide⟩, by decide⟩

end SharkVerif.SSP
