/-
Correctness of the model of `HypervolumeSubsetSelection2D` (Model/Subset2D.lean):
L1 (`upperEnvelope_eq_max`, in Lemmas/Subset2DEnv.lean), L2 (`dp_value_eq_best_chain`), L3 (`chainArea_eq_hvSpec`),
L4 (`hypSSP_optimal`), L5 (`select_optimal…`).
-/
import SharkVerif.Lemmas.Subset2DEnv
namespace SharkVerif.SSP
open SharkVerif.Pareto SharkVerif.HV

/-! ### notation -/

/-- the point of the (shifted) front as an objective vector -/
def P2.pt (p : P2) : Pt := [p.f1, p.f2]

def fx (F : List P2) (i : Nat) : Int := (F.getD i ⟨0, 0, 0⟩).f1
def fy (F : List P2) (i : Nat) : Int := (F.getD i ⟨0, 0, 0⟩).f2
def ptOf (F : List P2) (i : Nat) : Pt := (F.getD i ⟨0, 0, 0⟩).pt

/-- a front: `f1` strictly increasing, `f2` strictly decreasing, all coordinates `≤ 0` (reference point `(0,0)`) -/
structure IsFront (F : List P2) : Prop where
  mono : F.Pairwise fun p q => p.f1 < q.f1 ∧ q.f2 < p.f2
  nonpos : ∀ p ∈ F, p.f1 ≤ 0 ∧ p.f2 ≤ 0

theorem IsFront.lt {F : List P2} (hF : IsFront F) {i j : Nat} (hij : i < j) (hj : j < F.length) :
    fx F i < fx F j ∧ fy F j < fy F i := by
  have := List.pairwise_iff_getElem.mp hF.mono i j (by omega) hj hij
  simpa [fx, fy, List.getD_eq_getElem?_getD, List.getElem?_eq_getElem hj,
    List.getElem?_eq_getElem (by omega : i < F.length)] using this

theorem IsFront.le {F : List P2} (hF : IsFront F) {i j : Nat} (hij : i ≤ j) (hj : j < F.length) :
    fx F i ≤ fx F j ∧ fy F j ≤ fy F i := by
  rcases Nat.eq_or_lt_of_le hij with rfl | h
  · exact ⟨Int.le_refl _, Int.le_refl _⟩
  · have := hF.lt h hj; omega

theorem IsFront.np {F : List P2} (hF : IsFront F) {i : Nat} (hi : i < F.length) : fx F i ≤ 0 ∧ fy F i ≤ 0 := by
  have := hF.nonpos F[i] (List.getElem_mem hi)
  simpa [fx, fy, List.getD_eq_getElem?_getD, List.getElem?_eq_getElem hi] using this

/-! ### L3: chain area = hypervolume -/

/-- area dominated by the chain `c` (indices into the front, LARGEST FIRST; repetitions allowed) to the left of
the vertical line `x = X`:  `Σ_t (−f2_{i_t})·(f1_{i_{t+1}} − f1_{i_t})` with `f1_{i_{c+1}} := X` -/
def areaL (F : List P2) : List Nat → Int → Int
  | [], _ => 0
  | m :: rest, X => (- fy F m) * (X - fx F m) + areaL F rest (fx F m)

/-- dominated area (reference `(0,0)`) of the chain given by the increasing index list `c` -/
def chainArea (F : List P2) (c : List Nat) : Int := areaL F c.reverse 0

/-- the same sum on a list of points in increasing order -/
def areaF : List Pt → Int → Int
  | [], _ => 0
  | [p], X => (- py p) * (X - px p)
  | p :: q :: rest, X => (- py p) * (px q - px p) + areaF (q :: rest) X

theorem areaF_snoc : ∀ (L : List Pt) (p : Pt) (X : Int),
    areaF (L ++ [p]) X = areaF L (px p) + (- py p) * (X - px p)
  | [], p, X => by simp [areaF]
  | [q], p, X => by simp [areaF]
  | q :: q' :: rest, p, X => by
    have ih := areaF_snoc (q' :: rest) p X
    simp only [List.cons_append] at ih ⊢
    rw [areaF, ih, areaF]
    ring

theorem areaL_eq_areaF (F : List P2) : ∀ (c : List Nat) (X : Int),
    areaL F c X = areaF (c.reverse.map (ptOf F)) X
  | [], X => by simp [areaL, areaF]
  | m :: rest, X => by
    rw [areaL, areaL_eq_areaF F rest, List.reverse_cons, List.map_append, List.map_singleton, areaF_snoc]
    simp [ptOf, P2.pt, px, py, fx, fy]
    ring

theorem areaF_eq_sweep : ∀ (rest : List Pt) (p : Pt), (p :: rest).Pairwise (fun a b => py b ≤ py a) →
    areaF (p :: rest) 0 = (0 - px p) * (0 - py p) + sweep2d 0 (py p) rest
  | [], p, _ => by simp [areaF, sweep2d]; ring
  | q :: rest, p, h => by
    have h' := List.pairwise_cons.mp h
    have hqp : py q ≤ py p := h'.1 q (by simp)
    rw [areaF, areaF_eq_sweep rest q h'.2, sweep2d]
    split
    · ring
    · have e : py q = py p := by omega
      rw [e]; ring

theorem areaF_eq_hv2dSorted (L : List Pt) (h : L.Pairwise (fun a b => py b ≤ py a)) :
    areaF L 0 = hv2dSorted L [0, 0] := by
  match L, h with
  | [], _ => simp [areaF, hv2dSorted]
  | p :: rest, h =>
    rw [areaF_eq_sweep rest p h]
    simp [hv2dSorted, px, py]

/-- a chain: indices into the front, largest first (repetitions allowed) -/
def IsRChain (F : List P2) (c : List Nat) : Prop := c.Pairwise (fun a b => b ≤ a) ∧ ∀ m ∈ c, m < F.length

theorem areaL_eq_hvSpec {F : List P2} (hF : IsFront F) {c : List Nat} (hc : IsRChain F c) :
    areaL F c 0 = (hvSpec (c.map (ptOf F)) [0, 0] : Int) := by
  have hrev : (c.reverse).Pairwise (fun a b => a ≤ b) := List.pairwise_reverse.mpr hc.1
  have hmem : ∀ m ∈ c.reverse, m < F.length := fun m hm => hc.2 m (List.mem_reverse.mp hm)
  have hpw : ∀ (R : Pt → Pt → Prop), (∀ i j, i ≤ j → j < F.length → R (ptOf F i) (ptOf F j)) →
      (c.reverse.map (ptOf F)).Pairwise R := by
    intro R hR
    rw [List.pairwise_map]
    refine List.Pairwise.imp_of_mem ?_ hrev
    intro a b _ hb hab
    exact hR a b hab (hmem b hb)
  rw [areaL_eq_areaF, areaF_eq_hv2dSorted _ (hpw _ fun i j hij hj => (hF.le hij hj).2),
    hv2dSorted_eq_spec (hpw _ fun i j hij hj => (hF.le hij hj).1) (by simp [ptOf, P2.pt]) rfl,
    hvSpec_perm ((List.reverse_perm c).map _)]
  intro p hp
  obtain ⟨m, hm, rfl⟩ := List.mem_map.mp hp
  have := hF.np (hmem m hm)
  simp only [ptOf, P2.pt, leAll, Bool.and_true, Bool.and_eq_true, decide_eq_true_eq]
  exact this

/-- **L3** the area of an increasing chain of the front is the hypervolume of its points w.r.t. `(0,0)` -/
theorem chainArea_eq_hvSpec {F : List P2} (hF : IsFront F) {c : List Nat} (hinc : c.Pairwise (· < ·))
    (hlt : ∀ m ∈ c, m < F.length) : chainArea F c = (hvSpec (c.map (ptOf F)) [0, 0] : Int) := by
  unfold chainArea
  rw [areaL_eq_hvSpec hF ⟨List.pairwise_reverse.mpr (hinc.imp (by intro a b h; omega)),
    fun m hm => hlt m (List.mem_reverse.mp hm)⟩, hvSpec_perm ((List.reverse_perm c).map _)]

/-- non-vacuity of L3 -/
example : IsFront [⟨-5, -1, 0⟩, ⟨-3, -2, 1⟩, ⟨-1, -4, 2⟩] ∧ chainArea [⟨-5, -1, 0⟩, ⟨-3, -2, 1⟩, ⟨-1, -4, 2⟩] [0, 2] = 8 := by
  refine ⟨⟨by decide, by decide⟩, by decide⟩
/-! ### one round of the dynamic programme -/

/-- the value of the linear function of point `m` (built from the table `h`) at `x = f1_i` -/
def fval (F : List P2) (h : List Int) (m i : Nat) : Int := fy F m * (fx F m - fx F i) + h.getD m 0

/-- what one call of `upperEnvelope` has to deliver -/
structure RoundSpec (F : List P2) (h : List Int) (res : List (Int × Nat)) : Prop where
  len : res.length = F.length
  ub : ∀ i m, m ≤ i → i < F.length → fval F h m i ≤ (res.getD i (0, 0)).1
  ach : ∀ i, i < F.length → (res.getD i (0, 0)).2 ≤ i ∧ fval F h (res.getD i (0, 0)).2 i = (res.getD i (0, 0)).1

theorem envInput_eq (F : List P2) (h : List Int) (hlen : h.length = F.length) :
    ((F.zip h).zipIdx.map fun ((p, hi), i) => (({ a := -p.f2, b := p.f1 * p.f2 + hi, idx := i } : LF), p.f1))
      = (List.range F.length).map fun i =>
          (({ a := - fy F i, b := fx F i * fy F i + h.getD i 0, idx := i } : LF), fx F i) := by
  apply List.ext_getElem
  · simp [hlen]
  · intro i h1 h2
    have hi : i < F.length := by simpa using h2
    simp [fx, fy, List.getD_eq_getElem?_getD, List.getElem?_eq_getElem hi,
      List.getElem?_eq_getElem (by omega : i < h.length)]

theorem upperEnvelope_roundSpec {F : List P2} (hF : IsFront F) {h : List Int} (hlen : h.length = F.length) :
    RoundSpec F h (upperEnvelope F h) := by
  unfold upperEnvelope
  simp only
  rw [envInput_eq F h hlen]
  generalize hfs : ((List.range F.length).map fun i =>
    (({ a := - fy F i, b := fx F i * fy F i + h.getD i 0, idx := i } : LF), fx F i)) = fs
  have hget : ∀ i, i < F.length →
      fs[i]? = some (({ a := - fy F i, b := fx F i * fy F i + h.getD i 0, idx := i } : LF), fx F i) := by
    intro i hi; subst hfs; simp [hi]
  have hget' : ∀ (m : Nat) (e : LF × Int), fs[m]? = some e → m < F.length := by
    intro m e he
    have := (List.getElem?_eq_some_iff.mp he).1
    subst hfs; simpa using this
  have hsorted : fs.Pairwise (fun u v => u.2 ≤ v.2 ∧ u.1.a < v.1.a) := by
    subst hfs
    rw [List.pairwise_map]
    refine List.Pairwise.imp_of_mem ?_ List.pairwise_lt_range
    intro a b _ hb hab
    have := hF.lt hab (List.mem_range.mp hb)
    simp only
    omega
  have hok := envGo_ok_nil fs hsorted
  obtain ⟨hl, hi⟩ := EnvOK.index fs [] _ hok
  have hfl : fs.length = F.length := by subst hfs; simp
  have hout : ∀ i, i < F.length → (envGo [] fs)[i]? = some ((envGo [] fs).getD i (0, 0)) := by
    intro i hi
    rw [List.getD_eq_getElem?_getD, List.getElem?_eq_getElem (by omega)]; rfl
  have hev : ∀ m i, ({ a := - fy F m, b := fx F m * fy F m + h.getD m 0, idx := m } : LF).eval (fx F i)
      = fval F h m i := by
    intro m i; simp only [LF.eval, fval]; ring
  refine ⟨by omega, ?_, ?_⟩
  · intro i m hmi hi'
    have := (hi i _ _ (hget i hi') (hout i hi')).1 _ (Or.inr ⟨m, _, hmi, hget m (by omega), rfl⟩)
    simpa only [hev] using this
  · intro i hi'
    obtain ⟨g, hg, hgi, hgv⟩ := (hi i _ _ (hget i hi') (hout i hi')).2
    rcases hg with hg | ⟨m, e, hm, he, rfl⟩
    · simp at hg
    · have hm' := hget' m e he
      rw [hget m hm'] at he
      simp only [Option.some.injEq] at he
      subst he
      simp only at hgi hgv
      rw [hev] at hgv
      rw [← hgi]
      exact ⟨hm, hgv⟩

/-! ### L2: the dynamic programme -/

theorem backtrack_length (cur : Nat) : ∀ ch : List (List Nat), (backtrack cur ch).length = ch.length + 1 := by
  intro ch
  induction ch generalizing cur with
  | nil => simp [backtrack]
  | cons c cs ih => simp [backtrack, ih]

/-- invariant after `j` rounds: `h` bounds every chain of at most `j` points from above, and back-tracking through
the `chosen` tables yields a chain of `j + 1` indices realising `h` -/
structure DPInv (F : List P2) (j : Nat) (h : List Int) (ch : List (List Nat)) : Prop where
  hlen : h.length = F.length
  chlen : ch.length = j
  ub : ∀ i, i < F.length → ∀ c : List Nat, c.length ≤ j → c.Pairwise (fun a b => b ≤ a) → (∀ m ∈ c, m ≤ i) →
    areaL F c (fx F i) ≤ h.getD i 0
  bt : ∀ i, i < F.length → ∀ X, areaL F (backtrack i ch) X = (- fy F i) * (X - fx F i) + h.getD i 0
  btc : ∀ i, i < F.length → (backtrack i ch).Pairwise (fun a b => b ≤ a) ∧ ∀ m ∈ backtrack i ch, m ≤ i

theorem dpInv_init (F : List P2) : DPInv F 0 (F.map fun _ => 0) [] := by
  refine ⟨by simp, rfl, ?_, ?_, ?_⟩
  · intro i hi c hc _ _
    have : c = [] := List.length_eq_zero_iff.mp (by omega)
    subst this
    simp [areaL, List.getD_eq_getElem?_getD, hi]
  · intro i hi X
    simp [backtrack, areaL, List.getD_eq_getElem?_getD, hi]
  · intro i hi
    simp [backtrack]

theorem getD_map_fst (res : List (Int × Nat)) (i : Nat) : (res.map (·.1)).getD i 0 = (res.getD i (0, 0)).1 := by
  simp only [List.getD_eq_getElem?_getD, List.getElem?_map]
  cases res[i]? <;> rfl

theorem getD_map_snd (res : List (Int × Nat)) (i : Nat) : (res.map (·.2)).getD i 0 = (res.getD i (0, 0)).2 := by
  simp only [List.getD_eq_getElem?_getD, List.getElem?_map]
  cases res[i]? <;> rfl

theorem dpInv_step {F : List P2} {j : Nat} {h : List Int} {ch : List (List Nat)} (inv : DPInv F j h ch)
    {res : List (Int × Nat)} (rs : RoundSpec F h res) :
    DPInv F (j + 1) (res.map (·.1)) (res.map (·.2) :: ch) := by
  have hnn : ∀ i, i < F.length → 0 ≤ h.getD i 0 := by
    intro i hi
    have := inv.ub i hi [] (by simp) (by simp) (by simp)
    simpa [areaL] using this
  refine ⟨by simp [rs.len], by simp [inv.chlen], ?_, ?_, ?_⟩
  · intro i hi c hc hpw hle
    rw [getD_map_fst]
    match c, hc, hpw, hle with
    | [], _, _, _ =>
      have := rs.ub i i (Nat.le_refl _) hi
      have h0 := hnn i hi
      simp only [fval, Int.sub_self, Int.mul_zero, Int.zero_add] at this
      simp only [areaL]
      omega
    | m :: rest, hc, hpw, hle =>
      have hpw' := List.pairwise_cons.mp hpw
      have hmi : m ≤ i := hle m (by simp)
      have h1 := inv.ub m (by omega) rest (by simpa using hc) hpw'.2 hpw'.1
      have h2 := rs.ub i m hmi hi
      simp only [areaL]
      simp only [fval] at h2
      have e : (- fy F m) * (fx F i - fx F m) = fy F m * (fx F m - fx F i) := by ring
      omega
  · intro i hi X
    have ⟨hci, hcv⟩ := rs.ach i hi
    rw [getD_map_fst, backtrack, getD_map_snd, areaL, inv.bt _ (by omega), ← hcv, fval]
    ring
  · intro i hi
    have ⟨hci, _⟩ := rs.ach i hi
    rw [backtrack, getD_map_snd]
    have ⟨h1, h2⟩ := inv.btc (res.getD i (0, 0)).2 (by omega)
    refine ⟨List.pairwise_cons.mpr ⟨fun m hm => ?_, h1⟩, ?_⟩
    · have := h2 m hm; omega
    · intro m hm
      rcases List.mem_cons.mp hm with rfl | hm
      · exact Nat.le_refl _
      · have := h2 m hm; omega

theorem dpRounds_inv {F : List P2} (hF : IsFront F) : ∀ (j j0 : Nat) (h : List Int) (ch : List (List Nat)),
    DPInv F j0 h ch → DPInv F (j0 + j) (dpRounds F j h ch).1 (dpRounds F j h ch).2
  | 0, _, _, _, inv => by simpa [dpRounds] using inv
  | j + 1, j0, h, ch, inv => by
    rw [dpRounds]
    have := dpRounds_inv hF j (j0 + 1) _ _ (dpInv_step inv (upperEnvelope_roundSpec hF inv.hlen))
    simpa [Nat.add_assoc, Nat.add_comm 1 j] using this
/-! ### the choice of the last point -/

/-- the value of the best chain of at most `j + 1` points ending in `i` (`h` the table after `j` rounds) -/
def dpVal (F : List P2) (h : List Int) (i : Nat) : Int := fx F i * fy F i + h.getD i 0

theorem argmax_fold (val : Nat → Int) : ∀ t : Nat, (∀ i, i < t → 0 ≤ val i) →
    let st := (List.range t).foldl (fun (st : Int × Nat) i => if val i > st.1 then (val i, i) else st) ((-1 : Int), 0)
    (∀ i, i < t → val i ≤ st.1) ∧ ((t = 0 ∧ st = (-1, 0)) ∨ (st.2 < t ∧ st.1 = val st.2))
  | 0, _ => by simp
  | t + 1, hnn => by
    have ih := argmax_fold val t (fun i hi => hnn i (by omega))
    simp only [List.range_succ, List.foldl_append, List.foldl_cons, List.foldl_nil] at ih ⊢
    generalize (List.range t).foldl (fun (st : Int × Nat) i => if val i > st.1 then (val i, i) else st)
      ((-1 : Int), 0) = st at ih ⊢
    obtain ⟨h1, h2⟩ := ih
    have h0 := hnn t (by omega)
    split
    · rename_i hgt
      refine ⟨?_, Or.inr ⟨by simp, rfl⟩⟩
      intro i hi
      rcases Nat.lt_succ_iff_lt_or_eq.mp hi with hi | rfl
      · have := h1 i hi; simp only; omega
      · exact Int.le_refl _
    · rename_i hgt
      rcases h2 with ⟨rfl, rfl⟩ | ⟨h2, h3⟩
      · exact absurd (by simp only; omega) hgt
      · refine ⟨?_, Or.inr ⟨by omega, h3⟩⟩
        intro i hi
        rcases Nat.lt_succ_iff_lt_or_eq.mp hi with hi | rfl
        · exact h1 i hi
        · omega

theorem lastIndex_spec (F : List P2) (h : List Int) (hlen : h.length = F.length) (hn : 1 ≤ F.length)
    (hnn : ∀ i, i < F.length → 0 ≤ dpVal F h i) :
    lastIndex F h < F.length ∧ ∀ i, i < F.length → dpVal F h i ≤ dpVal F h (lastIndex F h) := by
  have hz : (F.zip h).zipIdx = (List.range F.length).map fun i => ((F.getD i ⟨0, 0, 0⟩, h.getD i 0), i) := by
    apply List.ext_getElem
    · simp [hlen]
    · intro i h1 h2
      have hi : i < F.length := by simpa using h2
      simp [List.getD_eq_getElem?_getD, List.getElem?_eq_getElem hi,
        List.getElem?_eq_getElem (by omega : i < h.length)]
  have := argmax_fold (dpVal F h) F.length hnn
  unfold lastIndex
  rw [hz, List.foldl_map]
  simp only at this
  obtain ⟨h1, h2⟩ := this
  rcases h2 with ⟨h2, _⟩ | ⟨h2, h3⟩
  · omega
  · refine ⟨h2, ?_⟩
    intro i hi
    have := h1 i hi
    rw [h3] at this
    exact this

/-! ### L2: value of the dynamic programme -/

theorem dp_final {F : List P2} (hF : IsFront F) {j : Nat} {h : List Int} {ch : List (List Nat)}
    (inv : DPInv F j h ch) (hn : 1 ≤ F.length) :
    lastIndex F h < F.length ∧
    (∀ i, i < F.length → dpVal F h i ≤ dpVal F h (lastIndex F h)) ∧
    (∀ c, IsRChain F c → c.length ≤ j + 1 → areaL F c 0 ≤ dpVal F h (lastIndex F h)) ∧
    IsRChain F (backtrack (lastIndex F h) ch) ∧ (backtrack (lastIndex F h) ch).length = j + 1 ∧
    areaL F (backtrack (lastIndex F h) ch) 0 = dpVal F h (lastIndex F h) := by
  have hnn : ∀ i, i < F.length → 0 ≤ h.getD i 0 := by
    intro i hi
    have := inv.ub i hi [] (by simp) (by simp) (by simp)
    simpa [areaL] using this
  have hvn : ∀ i, i < F.length → 0 ≤ dpVal F h i := by
    intro i hi
    have := hF.np hi
    have h2 := mul_nonneg_of_nonpos_of_nonpos this.1 this.2
    have := hnn i hi
    unfold dpVal; omega
  obtain ⟨hl, hmax⟩ := lastIndex_spec F h inv.hlen hn hvn
  refine ⟨hl, hmax, ?_, ?_, ?_, ?_⟩
  · intro c hc hlen
    match c, hc, hlen with
    | [], _, _ => simpa [areaL] using hvn _ hl
    | m :: rest, hc, hlen =>
      have hpw := List.pairwise_cons.mp hc.1
      have hm : m < F.length := hc.2 m (by simp)
      have h1 := inv.ub m hm rest (by simpa using hlen) hpw.2 hpw.1
      have h2 := hmax m hm
      simp only [areaL]
      unfold dpVal at h2 ⊢
      have e : (- fy F m) * (0 - fx F m) = fx F m * fy F m := by ring
      omega
  · have ⟨h1, h2⟩ := inv.btc _ hl
    exact ⟨h1, fun m hm => by have := h2 m hm; omega⟩
  · rw [backtrack_length, inv.chlen]
  · rw [inv.bt _ hl]; unfold dpVal; ring

/-! ### eraseDups -/

theorem eraseDups_props : ∀ (n : Nat) (l : List Nat), l.length ≤ n → l.eraseDups.Nodup ∧ l.eraseDups.Sublist l
  | _, [], _ => by simp
  | 0, _ :: _, h => by simp at h
  | n + 1, a :: as, h => by
    rw [List.eraseDups_cons]
    have hf : (as.filter fun b => !b == a).length ≤ n :=
      Nat.le_trans (List.length_filter_le _ _) (by simpa using h)
    obtain ⟨h1, h2⟩ := eraseDups_props n _ hf
    refine ⟨List.nodup_cons.mpr ⟨?_, h1⟩, List.Sublist.cons_cons _ (h2.trans List.filter_sublist)⟩
    rw [List.mem_eraseDups, List.mem_filter]
    simp

theorem nodup_eraseDups (l : List Nat) : l.eraseDups.Nodup := (eraseDups_props l.length l (Nat.le_refl _)).1
theorem eraseDups_sublist (l : List Nat) : l.eraseDups.Sublist l := (eraseDups_props l.length l (Nat.le_refl _)).2

/-! ### fillUp -/

theorem fillUp_spec (n k : Nat) (hkn : k ≤ n) (sel : List Nat) (hnd : sel.Nodup) (hlt : ∀ m ∈ sel, m < n)
    (hlen : sel.length ≤ k) :
    (fillUp n k sel).Nodup ∧ (∀ m ∈ fillUp n k sel, m < n) ∧ (fillUp n k sel).length = k ∧
    ∀ m ∈ sel, m ∈ fillUp n k sel := by
  have key : ∀ t, t ≤ n →
      let r := (List.range t).foldl (fun sel i => if sel.length < k && !sel.contains i then sel ++ [i] else sel) sel
      r.Nodup ∧ (∀ m ∈ r, m < n) ∧ r.length ≤ k ∧ (∀ m ∈ sel, m ∈ r) ∧ (r.length = k ∨ ∀ i, i < t → i ∈ r) := by
    intro t
    induction t with
    | zero =>
      intro _
      simp only [List.range_zero, List.foldl_nil]
      exact ⟨hnd, hlt, hlen, fun m hm => hm, Or.inr (fun i hi => absurd hi (by omega))⟩
    | succ t ih =>
      intro ht
      have ih := ih (by omega)
      simp only [List.range_succ, List.foldl_append, List.foldl_cons, List.foldl_nil] at ih ⊢
      generalize (List.range t).foldl
        (fun sel i => if sel.length < k && !sel.contains i then sel ++ [i] else sel) sel = r at ih ⊢
      obtain ⟨i1, i2, i3, i4, i5⟩ := ih
      split
      · rename_i hc
        simp only [Bool.and_eq_true, decide_eq_true_eq, Bool.not_eq_true', List.contains_eq_mem,
          decide_eq_false_iff_not] at hc
        refine ⟨?_, ?_, ?_, ?_, ?_⟩
        · exact List.nodup_append.mpr ⟨i1, by simp, by
            intro a ha b hb; simp at hb; subst hb; intro e; subst e; exact hc.2 ha⟩
        · intro m hm
          rcases List.mem_append.mp hm with hm | hm
          · exact i2 m hm
          · simp at hm; omega
        · simp; omega
        · intro m hm; exact List.mem_append_left _ (i4 m hm)
        · rcases i5 with i5 | i5
          · omega
          · right
            intro i hi
            rcases Nat.lt_succ_iff_lt_or_eq.mp hi with hi | rfl
            · exact List.mem_append_left _ (i5 i hi)
            · simp
      · rename_i hc
        simp only [Bool.and_eq_true, decide_eq_true_eq, Bool.not_eq_true', List.contains_eq_mem,
          decide_eq_false_iff_not, not_and, Decidable.not_not] at hc
        refine ⟨i1, i2, i3, i4, ?_⟩
        rcases i5 with i5 | i5
        · exact Or.inl i5
        · by_cases hl : r.length < k
          · right
            intro i hi
            rcases Nat.lt_succ_iff_lt_or_eq.mp hi with hi | rfl
            · exact i5 i hi
            · exact hc hl
          · left; omega
  obtain ⟨h1, h2, h3, h4, h5⟩ := key n (Nat.le_refl _)
  refine ⟨h1, h2, ?_, h4⟩
  rcases h5 with h5 | h5
  · exact h5
  · have : (List.range n).length ≤ (fillUp n k sel).length :=
      List.Nodup.length_le_of_subset List.nodup_range (fun i hi => h5 i (List.mem_range.mp hi))
    simp at this
    have h3' : (fillUp n k sel).length ≤ k := h3
    omega
/-! ### L2 and L4 -/

theorem hvSpec_congr_mem {S T : List Pt} (hS : ∀ p ∈ S, p.length = 2) (hT : ∀ p ∈ T, p.length = 2)
    (h : ∀ p, p ∈ S ↔ p ∈ T) : hvSpec S [0, 0] = hvSpec T [0, 0] :=
  Nat.le_antisymm (hvSpec_mono_subset (m := 2) rfl hT fun p hp => (h p).mp hp)
    (hvSpec_mono_subset (m := 2) rfl hS fun p hp => (h p).mpr hp)

theorem ptOf_length (F : List P2) (i : Nat) : (ptOf F i).length = 2 := rfl

/-- removing repeated indices from a chain keeps it a chain (now strictly decreasing) with the same area -/
theorem eraseDups_chain {F : List P2} (hF : IsFront F) {c : List Nat} (hc : IsRChain F c) :
    IsRChain F c.eraseDups ∧ c.eraseDups.Pairwise (fun a b => b < a) ∧ areaL F c.eraseDups 0 = areaL F c 0 := by
  have hsub := eraseDups_sublist c
  have hch : IsRChain F c.eraseDups :=
    ⟨hc.1.sublist hsub, fun m hm => hc.2 m (List.mem_eraseDups.mp hm)⟩
  refine ⟨hch, ?_, ?_⟩
  · have := hch.1.and (nodup_eraseDups c)
    exact this.imp (by intro a b h; omega)
  · have e := hvSpec_congr_mem (S := c.eraseDups.map (ptOf F)) (T := c.map (ptOf F))
      (by simp [ptOf_length]) (by simp [ptOf_length])
      (by intro p; simp only [List.mem_map, List.mem_eraseDups])
    rw [areaL_eq_hvSpec hF hch, areaL_eq_hvSpec hF hc, e]

/-- **L2** value of the dynamic programme.  With `(h, chosen) = ` the result of `k − 1` rounds and
`V = max_i (f1_i·f2_i + h[i])` (attained at `lastIndex`): `V` bounds the area of every increasing chain of at most `k`
points of the front, and the back-tracked index set (duplicates removed, in increasing order) is a non-empty
increasing chain of at most `k` points whose area is exactly `V`; hence `V` is the maximum of `chainArea` over the
non-empty increasing chains of length `≤ k`. -/
theorem dp_value_eq_best_chain {F : List P2} (hF : IsFront F) {k : Nat} (hk : 1 ≤ k) (hn : 1 ≤ F.length) :
    let hc := dpRounds F (k - 1) (F.map fun _ => 0) []
    let last := lastIndex F hc.1
    let V := dpVal F hc.1 last
    last < F.length ∧ (∀ i, i < F.length → dpVal F hc.1 i ≤ V) ∧
    (∀ c : List Nat, c.Pairwise (· < ·) → (∀ m ∈ c, m < F.length) → c.length ≤ k → chainArea F c ≤ V) ∧
    (let c := (backtrack last hc.2).eraseDups.reverse
     c ≠ [] ∧ c.Pairwise (· < ·) ∧ (∀ m ∈ c, m < F.length) ∧ c.length ≤ k ∧ chainArea F c = V) := by
  intro hc last V
  have inv := dpRounds_inv hF (k - 1) 0 _ _ (dpInv_init F)
  obtain ⟨h1, h2, h3, h4, h5, h6⟩ := dp_final hF inv hn
  have hk' : 0 + (k - 1) + 1 = k := by omega
  rw [hk'] at h3 h5
  obtain ⟨e1, e2, e3⟩ := eraseDups_chain hF h4
  refine ⟨h1, h2, ?_, ?_, ?_, ?_, ?_, ?_⟩
  · intro c hinc hlt hlen
    exact h3 c.reverse ⟨List.pairwise_reverse.mpr (hinc.imp (by intro a b h; omega)),
      fun m hm => hlt m (List.mem_reverse.mp hm)⟩ (by simpa using hlen)
  · intro hnil
    have hne : backtrack last hc.2 ≠ [] := by
      intro h0; rw [h0] at h5; simp at h5; omega
    obtain ⟨a, ha⟩ := List.exists_mem_of_ne_nil _ hne
    have : a ∈ (backtrack last hc.2).eraseDups.reverse := List.mem_reverse.mpr (List.mem_eraseDups.mpr ha)
    rw [hnil] at this
    simp at this
  · exact List.pairwise_reverse.mpr e2
  · intro m hm; exact e1.2 m (List.mem_reverse.mp hm)
  · rw [List.length_reverse]
    exact Nat.le_trans (eraseDups_sublist _).length_le (Nat.le_of_eq h5)
  · unfold chainArea
    rw [List.reverse_reverse, e3, h6]

/-- non-vacuity of L2/L4: a front with 4 points, `k = 2` -/
example : IsFront [⟨-7, -1, 0⟩, ⟨-5, -2, 1⟩, ⟨-2, -4, 2⟩, ⟨-1, -6, 3⟩] ∧ 1 ≤ 2 ∧ 2 ≤ 4 := by
  refine ⟨⟨by decide, by decide⟩, by decide, by decide⟩

theorem ptOf_eq (F : List P2) (i : Fin F.length) : ptOf F i.val = (F[i]).pt := by
  simp [ptOf, List.getD_eq_getElem?_getD]

/-- **L4** `hypSSP` selects exactly `k` distinct positions of the front, and no sub-list of the front with at most
`k` points has a larger hypervolume (reference point `(0,0)`) than the selected points. -/
theorem hypSSP_optimal {F : List P2} (hF : IsFront F) {k : Nat} (hk : 1 ≤ k) (hkn : k ≤ F.length) :
    (hypSSP F k).Nodup ∧ (hypSSP F k).length = k ∧ (∀ i ∈ hypSSP F k, i < F.length) ∧
    ∀ T : List P2, T.Sublist F → T.length ≤ k →
      hvSpec (T.map P2.pt) [0, 0] ≤ hvSpec ((hypSSP F k).map (ptOf F)) [0, 0] := by
  have hn : 1 ≤ F.length := by omega
  have inv := dpRounds_inv hF (k - 1) 0 _ _ (dpInv_init F)
  obtain ⟨h1, h2, h3, h4, h5, h6⟩ := dp_final hF inv hn
  have hk' : 0 + (k - 1) + 1 = k := by omega
  rw [hk'] at h3 h5
  have hyp : hypSSP F k = fillUp F.length k
      (backtrack (lastIndex F (dpRounds F (k - 1) (F.map fun _ => 0) []).1)
        (dpRounds F (k - 1) (F.map fun _ => 0) []).2).eraseDups := by
    unfold hypSSP; rfl
  generalize (dpRounds F (k - 1) (F.map fun _ => 0) []).1 = h at *
  generalize (dpRounds F (k - 1) (F.map fun _ => 0) []).2 = ch at *
  obtain ⟨f1, f2, f3, f4⟩ := fillUp_spec F.length k hkn (backtrack (lastIndex F h) ch).eraseDups
    (nodup_eraseDups _) (fun m hm => h4.2 m (List.mem_eraseDups.mp hm))
    (Nat.le_trans (eraseDups_sublist _).length_le (Nat.le_of_eq h5))
  rw [hyp]
  refine ⟨f1, f3, f2, ?_⟩
  intro T hT hTk
  obtain ⟨is, rfl, hinc⟩ := List.sublist_eq_map_getElem hT
  have hmap : (is.map fun x => F[x]).map P2.pt = ((is.map Fin.val).reverse.reverse).map (ptOf F) := by
    rw [List.reverse_reverse, List.map_map, List.map_map]
    apply List.map_congr_left
    intro i _
    exact (ptOf_eq F i).symm
  have hchain : IsRChain F (is.map Fin.val).reverse := by
    refine ⟨List.pairwise_reverse.mpr ?_, ?_⟩
    · rw [List.pairwise_map]
      exact hinc.imp (by intro a b h; exact Nat.le_of_lt h)
    · intro m hm
      obtain ⟨i, _, rfl⟩ := List.mem_map.mp (List.mem_reverse.mp hm)
      exact i.isLt
  have hub := h3 _ hchain (by simpa using hTk)
  rw [areaL_eq_hvSpec hF hchain] at hub
  rw [h6.symm, areaL_eq_hvSpec hF h4] at hub
  rw [hmap, hvSpec_perm ((List.reverse_perm _).map _)]
  refine Nat.le_trans (by exact_mod_cast hub) ?_
  apply hvSpec_mono_subset (m := 2) rfl (by simp [ptOf_length])
  intro p hp
  obtain ⟨m, hm, rfl⟩ := List.mem_map.mp hp
  exact List.mem_map.mpr ⟨m, f4 m (List.mem_eraseDups.mpr hm), rfl⟩

end SharkVerif.SSP
