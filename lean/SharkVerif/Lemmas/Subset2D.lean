/-
Correctness of the model of `HypervolumeSubsetSelection2D` (Model/Subset2D.lean):
L1 (`upperEnvelope_eq_max`, in Lemmas/Subset2DEnv.lean), L2 (`dp_value_eq_best_chain`), L3 (`chainArea_eq_hvSpec`),
L4 (`hypSSP_optimal`), L5 (`select_optimal…`).
-/
import SharkVerif.Lemmas.Subset2DEnv
namespace SharkVerif.SSP
open SharkVerif.Pareto SharkVerif.HV

/-! ### notation -/

/-- the point of the (shifted) front as an objective vector -/
def P2.pt (p : P2) : Pt := [p.f1, p.f2]

def fx (F : List P2) (i : Nat) : Int := (F.getD i ⟨0, 0, 0⟩).f1
def fy (F : List P2) (i : Nat) : Int := (F.getD i ⟨0, 0, 0⟩).f2
def ptOf (F : List P2) (i : Nat) : Pt := (F.getD i ⟨0, 0, 0⟩).pt

/-- a front: `f1` strictly increasing, `f2` strictly decreasing, all coordinates `≤ 0` (reference point `(0,0)`) -/
structure IsFront (F : List P2) : Prop where
  mono : F.Pairwise fun p q => p.f1 < q.f1 ∧ q.f2 < p.f2
  nonpos : ∀ p ∈ F, p.f1 ≤ 0 ∧ p.f2 ≤ 0

theorem IsFront.lt {F : List P2} (hF : IsFront F) {i j : Nat} (hij : i < j) (hj : j < F.length) :
    fx F i < fx F j ∧ fy F j < fy F i := by
  have := List.pairwise_iff_getElem.mp hF.mono i j (by omega) hj hij
  simpa [fx, fy, List.getD_eq_getElem?_getD, List.getElem?_eq_getElem hj,
    List.getElem?_eq_getElem (by omega : i < F.length)] using this

theorem IsFront.le {F : List P2} (hF : IsFront F) {i j : Nat} (hij : i ≤ j) (hj : j < F.length) :
    fx F i ≤ fx F j ∧ fy F j ≤ fy F i := by
  rcases Nat.eq_or_lt_of_le hij with rfl | h
  · exact ⟨Int.le_refl _, Int.le_refl _⟩
  · have := hF.lt h hj; omega

theorem IsFront.np {F : List P2} (hF : IsFront F) {i : Nat} (hi : i < F.length) : fx F i ≤ 0 ∧ fy F i ≤ 0 := by
  have := hF.nonpos F[i] (List.getElem_mem hi)
  simpa [fx, fy, List.getD_eq_getElem?_getD, List.getElem?_eq_getElem hi] using this

/-! ### L3: chain area = hypervolume -/

/-- area dominated by the chain `c` (indices into the front, LARGEST FIRST; repetitions allowed) to the left of
the vertical line `x = X`:  `Σ_t (−f2_{i_t})·(f1_{i_{t+1}} − f1_{i_t})` with `f1_{i_{c+1}} := X` -/
def areaL (F : List P2) : List Nat → Int → Int
  | [], _ => 0
  | m :: rest, X => (- fy F m) * (X - fx F m) + areaL F rest (fx F m)

/-- dominated area (reference `(0,0)`) of the chain given by the increasing index list `c` -/
def chainArea (F : List P2) (c : List Nat) : Int := areaL F c.reverse 0

/-- the same sum on a list of points in increasing order -/
def areaF : List Pt → Int → Int
  | [], _ => 0
  | [p], X => (- py p) * (X - px p)
  | p :: q :: rest, X => (- py p) * (px q - px p) + areaF (q :: rest) X

theorem areaF_snoc : ∀ (L : List Pt) (p : Pt) (X : Int),
    areaF (L ++ [p]) X = areaF L (px p) + (- py p) * (X - px p)
  | [], p, X => by simp [areaF]
  | [q], p, X => by simp [areaF]
  | q :: q' :: rest, p, X => by
    have ih := areaF_snoc (q' :: rest) p X
    simp only [List.cons_append] at ih ⊢
    rw [areaF, ih, areaF]
    ring

theorem areaL_eq_areaF (F : List P2) : ∀ (c : List Nat) (X : Int),
    areaL F c X = areaF (c.reverse.map (ptOf F)) X
  | [], X => by simp [areaL, areaF]
  | m :: rest, X => by
    rw [areaL, areaL_eq_areaF F rest, List.reverse_cons, List.map_append, List.map_singleton, areaF_snoc]
    simp [ptOf, P2.pt, px, py, fx, fy]
    ring

theorem areaF_eq_sweep : ∀ (rest : List Pt) (p : Pt), (p :: rest).Pairwise (fun a b => py b ≤ py a) →
    areaF (p :: rest) 0 = (0 - px p) * (0 - py p) + sweep2d 0 (py p) rest
  | [], p, _ => by simp [areaF, sweep2d]; ring
  | q :: rest, p, h => by
    have h' := List.pairwise_cons.mp h
    have hqp : py q ≤ py p := h'.1 q (by simp)
    rw [areaF, areaF_eq_sweep rest q h'.2, sweep2d]
    split
    · ring
    · have e : py q = py p := by omega
      rw [e]; ring

theorem areaF_eq_hv2dSorted (L : List Pt) (h : L.Pairwise (fun a b => py b ≤ py a)) :
    areaF L 0 = hv2dSorted L [0, 0] := by
  match L, h with
  | [], _ => simp [areaF, hv2dSorted]
  | p :: rest, h =>
    rw [areaF_eq_sweep rest p h]
    simp [hv2dSorted, px, py]

/-- a chain: indices into the front, largest first (repetitions allowed) -/
def IsRChain (F : List P2) (c : List Nat) : Prop := c.Pairwise (fun a b => b ≤ a) ∧ ∀ m ∈ c, m < F.length

theorem areaL_eq_hvSpec {F : List P2} (hF : IsFront F) {c : List Nat} (hc : IsRChain F c) :
    areaL F c 0 = (hvSpec (c.map (ptOf F)) [0, 0] : Int) := by
  have hrev : (c.reverse).Pairwise (fun a b => a ≤ b) := List.pairwise_reverse.mpr hc.1
  have hmem : ∀ m ∈ c.reverse, m < F.length := fun m hm => hc.2 m (List.mem_reverse.mp hm)
  have hpw : ∀ (R : Pt → Pt → Prop), (∀ i j, i ≤ j → j < F.length → R (ptOf F i) (ptOf F j)) →
      (c.reverse.map (ptOf F)).Pairwise R := by
    intro R hR
    rw [List.pairwise_map]
    refine List.Pairwise.imp_of_mem ?_ hrev
    intro a b _ hb hab
    exact hR a b hab (hmem b hb)
  rw [areaL_eq_areaF, areaF_eq_hv2dSorted _ (hpw _ fun i j hij hj => (hF.le hij hj).2),
    hv2dSorted_eq_spec (hpw _ fun i j hij hj => (hF.le hij hj).1) (by simp [ptOf, P2.pt]) rfl,
    hvSpec_perm ((List.reverse_perm c).map _)]
  intro p hp
  obtain ⟨m, hm, rfl⟩ := List.mem_map.mp hp
  have := hF.np (hmem m hm)
  simp only [ptOf, P2.pt, leAll, Bool.and_true, Bool.and_eq_true, decide_eq_true_eq]
  exact this

/-- **L3** the area of an increasing chain of the front is the hypervolume of its points w.r.t. `(0,0)` -/
theorem chainArea_eq_hvSpec {F : List P2} (hF : IsFront F) {c : List Nat} (hinc : c.Pairwise (· < ·))
    (hlt : ∀ m ∈ c, m < F.length) : chainArea F c = (hvSpec (c.map (ptOf F)) [0, 0] : Int) := by
  unfold chainArea
  rw [areaL_eq_hvSpec hF ⟨List.pairwise_reverse.mpr (hinc.imp (by intro a b h; omega)),
    fun m hm => hlt m (List.mem_reverse.mp hm)⟩, hvSpec_perm ((List.reverse_perm c).map _)]

/-- non-vacuity of L3 -/
example : IsFront [⟨-5, -1, 0⟩, ⟨-3, -2, 1⟩, ⟨-1, -4, 2⟩] ∧ chainArea [⟨-5, -1, 0⟩, ⟨-3, -2, 1⟩, ⟨-1, -4, 2⟩] [0, 2] = 8 := by
  refine ⟨⟨by decide, by decide⟩, by decide⟩
/-! ### one round of the dynamic programme -/

/-- the value of the linear function of point `m` (built from the table `h`) at `x = f1_i` -/
def fval (F : List P2) (h : List Int) (m i : Nat) : Int := fy F m * (fx F m - fx F i) + h.getD m 0

/-- what one call of `upperEnvelope` has to deliver -/
structure RoundSpec (F : List P2) (h : List Int) (res : List (Int × Nat)) : Prop where
  len : res.length = F.length
  ub : ∀ i m, m ≤ i → i < F.length → fval F h m i ≤ (res.getD i (0, 0)).1
  ach : ∀ i, i < F.length → (res.getD i (0, 0)).2 ≤ i ∧ fval F h (res.getD i (0, 0)).2 i = (res.getD i (0, 0)).1

theorem envInput_eq (F : List P2) (h : List Int) (hlen : h.length = F.length) :
    ((F.zip h).zipIdx.map fun ((p, hi), i) => (({ a := -p.f2, b := p.f1 * p.f2 + hi, idx := i } : LF), p.f1))
      = (List.range F.length).map fun i =>
          (({ a := - fy F i, b := fx F i * fy F i + h.getD i 0, idx := i } : LF), fx F i) := by
  apply List.ext_getElem
  · simp [hlen]
  · intro i h1 h2
    have hi : i < F.length := by simpa using h2
    simp [fx, fy, List.getD_eq_getElem?_getD, List.getElem?_eq_getElem hi,
      List.getElem?_eq_getElem (by omega : i < h.length)]

theorem upperEnvelope_roundSpec {F : List P2} (hF : IsFront F) {h : List Int} (hlen : h.length = F.length) :
    RoundSpec F h (upperEnvelope F h) := by
  unfold upperEnvelope
  simp only
  rw [envInput_eq F h hlen]
  generalize hfs : ((List.range F.length).map fun i =>
    (({ a := - fy F i, b := fx F i * fy F i + h.getD i 0, idx := i } : LF), fx F i)) = fs
  have hget : ∀ i, i < F.length →
      fs[i]? = some (({ a := - fy F i, b := fx F i * fy F i + h.getD i 0, idx := i } : LF), fx F i) := by
    intro i hi; subst hfs; simp [hi]
  have hget' : ∀ (m : Nat) (e : LF × Int), fs[m]? = some e → m < F.length := by
    intro m e he
    have := (List.getElem?_eq_some_iff.mp he).1
    subst hfs; simpa using this
  have hsorted : fs.Pairwise (fun u v => u.2 ≤ v.2 ∧ u.1.a < v.1.a) := by
    subst hfs
    rw [List.pairwise_map]
    refine List.Pairwise.imp_of_mem ?_ List.pairwise_lt_range
    intro a b _ hb hab
    have := hF.lt hab (List.mem_range.mp hb)
    simp only
    omega
  have hok := envGo_ok_nil fs hsorted
  obtain ⟨hl, hi⟩ := EnvOK.index fs [] _ hok
  have hfl : fs.length = F.length := by subst hfs; simp
  have hout : ∀ i, i < F.length → (envGo [] fs)[i]? = some ((envGo [] fs).getD i (0, 0)) := by
    intro i hi
    rw [List.getD_eq_getElem?_getD, List.getElem?_eq_getElem (by omega)]; rfl
  have hev : ∀ m i, ({ a := - fy F m, b := fx F m * fy F m + h.getD m 0, idx := m } : LF).eval (fx F i)
      = fval F h m i := by
    intro m i; simp only [LF.eval, fval]; ring
  refine ⟨by omega, ?_, ?_⟩
  · intro i m hmi hi'
    have := (hi i _ _ (hget i hi') (hout i hi')).1 _ (Or.inr ⟨m, _, hmi, hget m (by omega), rfl⟩)
    simpa only [hev] using this
  · intro i hi'
    obtain ⟨g, hg, hgi, hgv⟩ := (hi i _ _ (hget i hi') (hout i hi')).2
    rcases hg with hg | ⟨m, e, hm, he, rfl⟩
    · simp at hg
    · have hm' := hget' m e he
      rw [hget m hm'] at he
      simp only [Option.some.injEq] at he
      subst he
      simp only at hgi hgv
      rw [hev] at hgv
      rw [← hgi]
      exact ⟨hm, hgv⟩

/-! ### L2: the dynamic programme -/

theorem backtrack_length (cur : Nat) : ∀ ch : List (List Nat), (backtrack cur ch).length = ch.length + 1 := by
  intro ch
  induction ch generalizing cur with
  | nil => simp [backtrack]
  | cons c cs ih => simp [backtrack, ih]

/-- invariant after `j` rounds: `h` bounds every chain of at most `j` points from above, and back-tracking through
the `chosen` tables yields a chain of `j + 1` indices realising `h` -/
structure DPInv (F : List P2) (j : Nat) (h : List Int) (ch : List (List Nat)) : Prop where
  hlen : h.length = F.length
  chlen : ch.length = j
  ub : ∀ i, i < F.length → ∀ c : List Nat, c.length ≤ j → c.Pairwise (fun a b => b ≤ a) → (∀ m ∈ c, m ≤ i) →
    areaL F c (fx F i) ≤ h.getD i 0
  bt : ∀ i, i < F.length → ∀ X, areaL F (backtrack i ch) X = (- fy F i) * (X - fx F i) + h.getD i 0
  btc : ∀ i, i < F.length → (backtrack i ch).Pairwise (fun a b => b ≤ a) ∧ ∀ m ∈ backtrack i ch, m ≤ i

theorem dpInv_init (F : List P2) : DPInv F 0 (F.map fun _ => 0) [] := by
  refine ⟨by simp, rfl, ?_, ?_, ?_⟩
  · intro i hi c hc _ _
    have : c = [] := List.length_eq_zero_iff.mp (by omega)
    subst this
    simp [areaL, List.getD_eq_getElem?_getD, hi]
  · intro i hi X
    simp [backtrack, areaL, List.getD_eq_getElem?_getD, hi]
  · intro i hi
    simp [backtrack]

theorem getD_map_fst (res : List (Int × Nat)) (i : Nat) : (res.map (·.1)).getD i 0 = (res.getD i (0, 0)).1 := by
  simp only [List.getD_eq_getElem?_getD, List.getElem?_map]
  cases res[i]? <;> rfl

theorem getD_map_snd (res : List (Int × Nat)) (i : Nat) : (res.map (·.2)).getD i 0 = (res.getD i (0, 0)).2 := by
  simp only [List.getD_eq_getElem?_getD, List.getElem?_map]
  cases res[i]? <;> rfl

theorem dpInv_step {F : List P2} {j : Nat} {h : List Int} {ch : List (List Nat)} (inv : DPInv F j h ch)
    {res : List (Int × Nat)} (rs : RoundSpec F h res) :
    DPInv F (j + 1) (res.map (·.1)) (res.map (·.2) :: ch) := by
  have hnn : ∀ i, i < F.length → 0 ≤ h.getD i 0 := by
    intro i hi
    have := inv.ub i hi [] (by simp) (by simp) (by simp)
    simpa [areaL] using this
  refine ⟨by simp [rs.len], by simp [inv.chlen], ?_, ?_, ?_⟩
  · intro i hi c hc hpw hle
    rw [getD_map_fst]
    match c, hc, hpw, hle with
    | [], _, _, _ =>
      have := rs.ub i i (Nat.le_refl _) hi
      have h0 := hnn i hi
      simp only [fval, Int.sub_self, Int.mul_zero, Int.zero_add] at this
      simp only [areaL]
      omega
    | m :: rest, hc, hpw, hle =>
      have hpw' := List.pairwise_cons.mp hpw
      have hmi : m ≤ i := hle m (by simp)
      have h1 := inv.ub m (by omega) rest (by simpa using hc) hpw'.2 hpw'.1
      have h2 := rs.ub i m hmi hi
      simp only [areaL]
      simp only [fval] at h2
      have e : (- fy F m) * (fx F i - fx F m) = fy F m * (fx F m - fx F i) := by ring
      omega
  · intro i hi X
    have ⟨hci, hcv⟩ := rs.ach i hi
    rw [getD_map_fst, backtrack, getD_map_snd, areaL, inv.bt _ (by omega), ← hcv, fval]
    ring
  · intro i hi
    have ⟨hci, _⟩ := rs.ach i hi
    rw [backtrack, getD_map_snd]
    have ⟨h1, h2⟩ := inv.btc (res.getD i (0, 0)).2 (by omega)
    refine ⟨List.pairwise_cons.mpr ⟨fun m hm => ?_, h1⟩, ?_⟩
    · have := h2 m hm; omega
    · intro m hm
      rcases List.mem_cons.mp hm with rfl | hm
      · exact Nat.le_refl _
      · have := h2 m hm; omega

theorem dpRounds_inv {F : List P2} (hF : IsFront F) : ∀ (j j0 : Nat) (h : List Int) (ch : List (List Nat)),
    DPInv F j0 h ch → DPInv F (j0 + j) (dpRounds F j h ch).1 (dpRounds F j h ch).2
  | 0, _, _, _, inv => by simpa [dpRounds] using inv
  | j + 1, j0, h, ch, inv => by
    rw [dpRounds]
    have := dpRounds_inv hF j (j0 + 1) _ _ (dpInv_step inv (upperEnvelope_roundSpec hF inv.hlen))
    simpa [Nat.add_assoc, Nat.add_comm 1 j] using this
/-! ### the choice of the last point -/

/-- the value of the best chain of at most `j + 1` points ending in `i` (`h` the table after `j` rounds) -/
def dpVal (F : List P2) (h : List Int) (i : Nat) : Int := fx F i * fy F i + h.getD i 0

theorem argmax_fold (val : Nat → Int) : ∀ t : Nat, (∀ i, i < t → 0 ≤ val i) →
    let st := (List.range t).foldl (fun (st : Int × Nat) i => if val i > st.1 then (val i, i) else st) ((-1 : Int), 0)
    (∀ i, i < t → val i ≤ st.1) ∧ ((t = 0 ∧ st = (-1, 0)) ∨ (st.2 < t ∧ st.1 = val st.2))
  | 0, _ => by simp
  | t + 1, hnn => by
    have ih := argmax_fold val t (fun i hi => hnn i (by omega))
    simp only [List.range_succ, List.foldl_append, List.foldl_cons, List.foldl_nil] at ih ⊢
    generalize (List.range t).foldl (fun (st : Int × Nat) i => if val i > st.1 then (val i, i) else st)
      ((-1 : Int), 0) = st at ih ⊢
    obtain ⟨h1, h2⟩ := ih
    have h0 := hnn t (by omega)
    split
    · rename_i hgt
      refine ⟨?_, Or.inr ⟨by simp, rfl⟩⟩
      intro i hi
      rcases Nat.lt_succ_iff_lt_or_eq.mp hi with hi | rfl
      · have := h1 i hi; simp only; omega
      · exact Int.le_refl _
    · rename_i hgt
      rcases h2 with ⟨rfl, rfl⟩ | ⟨h2, h3⟩
      · exact absurd (by simp only; omega) hgt
      · refine ⟨?_, Or.inr ⟨by omega, h3⟩⟩
        intro i hi
        rcases Nat.lt_succ_iff_lt_or_eq.mp hi with hi | rfl
        · exact h1 i hi
        · omega

theorem lastIndex_spec (F : List P2) (h : List Int) (hlen : h.length = F.length) (hn : 1 ≤ F.length)
    (hnn : ∀ i, i < F.length → 0 ≤ dpVal F h i) :
    lastIndex F h < F.length ∧ ∀ i, i < F.length → dpVal F h i ≤ dpVal F h (lastIndex F h) := by
  have hz : (F.zip h).zipIdx = (List.range F.length).map fun i => ((F.getD i ⟨0, 0, 0⟩, h.getD i 0), i) := by
    apply List.ext_getElem
    · simp [hlen]
    · intro i h1 h2
      have hi : i < F.length := by simpa using h2
      simp [List.getD_eq_getElem?_getD, List.getElem?_eq_getElem hi,
        List.getElem?_eq_getElem (by omega : i < h.length)]
  have := argmax_fold (dpVal F h) F.length hnn
  unfold lastIndex
  rw [hz, List.foldl_map]
  simp only at this
  obtain ⟨h1, h2⟩ := this
  rcases h2 with ⟨h2, _⟩ | ⟨h2, h3⟩
  · omega
  · refine ⟨h2, ?_⟩
    intro i hi
    have := h1 i hi
    rw [h3] at this
    exact this

/-! ### L2: value of the dynamic programme -/

theorem dp_final {F : List P2} (hF : IsFront F) {j : Nat} {h : List Int} {ch : List (List Nat)}
    (inv : DPInv F j h ch) (hn : 1 ≤ F.length) :
    lastIndex F h < F.length ∧
    (∀ i, i < F.length → dpVal F h i ≤ dpVal F h (lastIndex F h)) ∧
    (∀ c, IsRChain F c → c.length ≤ j + 1 → areaL F c 0 ≤ dpVal F h (lastIndex F h)) ∧
    IsRChain F (backtrack (lastIndex F h) ch) ∧ (backtrack (lastIndex F h) ch).length = j + 1 ∧
    areaL F (backtrack (lastIndex F h) ch) 0 = dpVal F h (lastIndex F h) := by
  have hnn : ∀ i, i < F.length → 0 ≤ h.getD i 0 := by
    intro i hi
    have := inv.ub i hi [] (by simp) (by simp) (by simp)
    simpa [areaL] using this
  have hvn : ∀ i, i < F.length → 0 ≤ dpVal F h i := by
    intro i hi
    have := hF.np hi
    have h2 := mul_nonneg_of_nonpos_of_nonpos this.1 this.2
    have := hnn i hi
    unfold dpVal; omega
  obtain ⟨hl, hmax⟩ := lastIndex_spec F h inv.hlen hn hvn
  refine ⟨hl, hmax, ?_, ?_, ?_, ?_⟩
  · intro c hc hlen
    match c, hc, hlen with
    | [], _, _ => simpa [areaL] using hvn _ hl
    | m :: rest, hc, hlen =>
      have hpw := List.pairwise_cons.mp hc.1
      have hm : m < F.length := hc.2 m (by simp)
      have h1 := inv.ub m hm rest (by simpa using hlen) hpw.2 hpw.1
      have h2 := hmax m hm
      simp only [areaL]
      unfold dpVal at h2 ⊢
      have e : (- fy F m) * (0 - fx F m) = fx F m * fy F m := by ring
      omega
  · have ⟨h1, h2⟩ := inv.btc _ hl
    exact ⟨h1, fun m hm => by have := h2 m hm; omega⟩
  · rw [backtrack_length, inv.chlen]
  · rw [inv.bt _ hl]; unfold dpVal; ring

/-! ### eraseDups -/

theorem eraseDups_props : ∀ (n : Nat) (l : List Nat), l.length ≤ n → l.eraseDups.Nodup ∧ l.eraseDups.Sublist l
  | _, [], _ => by simp
  | 0, _ :: _, h => by simp at h
  | n + 1, a :: as, h => by
    rw [List.eraseDups_cons]
    have hf : (as.filter fun b => !b == a).length ≤ n :=
      Nat.le_trans (List.length_filter_le _ _) (by simpa using h)
    obtain ⟨h1, h2⟩ := eraseDups_props n _ hf
    refine ⟨List.nodup_cons.mpr ⟨?_, h1⟩, List.Sublist.cons_cons _ (h2.trans List.filter_sublist)⟩
    rw [List.mem_eraseDups, List.mem_filter]
    simp

theorem nodup_eraseDups (l : List Nat) : l.eraseDups.Nodup := (eraseDups_props l.length l (Nat.le_refl _)).1
theorem eraseDups_sublist (l : List Nat) : l.eraseDups.Sublist l := (eraseDups_props l.length l (Nat.le_refl _)).2

/-! ### fillUp -/

theorem fillUp_spec (n k : Nat) (hkn : k ≤ n) (sel : List Nat) (hnd : sel.Nodup) (hlt : ∀ m ∈ sel, m < n)
    (hlen : sel.length ≤ k) :
    (fillUp n k sel).Nodup ∧ (∀ m ∈ fillUp n k sel, m < n) ∧ (fillUp n k sel).length = k ∧
    ∀ m ∈ sel, m ∈ fillUp n k sel := by
  have key : ∀ t, t ≤ n →
      let r := (List.range t).foldl (fun sel i => if sel.length < k && !sel.contains i then sel ++ [i] else sel) sel
      r.Nodup ∧ (∀ m ∈ r, m < n) ∧ r.length ≤ k ∧ (∀ m ∈ sel, m ∈ r) ∧ (r.length = k ∨ ∀ i, i < t → i ∈ r) := by
    intro t
    induction t with
    | zero =>
      intro _
      simp only [List.range_zero, List.foldl_nil]
      exact ⟨hnd, hlt, hlen, fun m hm => hm, Or.inr (fun i hi => absurd hi (by omega))⟩
    | succ t ih =>
      intro ht
      have ih := ih (by omega)
      simp only [List.range_succ, List.foldl_append, List.foldl_cons, List.foldl_nil] at ih ⊢
      generalize (List.range t).foldl
        (fun sel i => if sel.length < k && !sel.contains i then sel ++ [i] else sel) sel = r at ih ⊢
      obtain ⟨i1, i2, i3, i4, i5⟩ := ih
      split
      · rename_i hc
        simp only [Bool.and_eq_true, decide_eq_true_eq, Bool.not_eq_true', List.contains_eq_mem,
          decide_eq_false_iff_not] at hc
        refine ⟨?_, ?_, ?_, ?_, ?_⟩
        · exact List.nodup_append.mpr ⟨i1, by simp, by
            intro a ha b hb; simp at hb; subst hb; intro e; subst e; exact hc.2 ha⟩
        · intro m hm
          rcases List.mem_append.mp hm with hm | hm
          · exact i2 m hm
          · simp at hm; omega
        · simp; omega
        · intro m hm; exact List.mem_append_left _ (i4 m hm)
        · rcases i5 with i5 | i5
          · omega
          · right
            intro i hi
            rcases Nat.lt_succ_iff_lt_or_eq.mp hi with hi | rfl
            · exact List.mem_append_left _ (i5 i hi)
            · simp
      · rename_i hc
        simp only [Bool.and_eq_true, decide_eq_true_eq, Bool.not_eq_true', List.contains_eq_mem,
          decide_eq_false_iff_not, not_and, Decidable.not_not] at hc
        refine ⟨i1, i2, i3, i4, ?_⟩
        rcases i5 with i5 | i5
        · exact Or.inl i5
        · by_cases hl : r.length < k
          · right
            intro i hi
            rcases Nat.lt_succ_iff_lt_or_eq.mp hi with hi | rfl
            · exact i5 i hi
            · exact hc hl
          · left; omega
  obtain ⟨h1, h2, h3, h4, h5⟩ := key n (Nat.le_refl _)
  refine ⟨h1, h2, ?_, h4⟩
  rcases h5 with h5 | h5
  · exact h5
  · have : (List.range n).length ≤ (fillUp n k sel).length :=
      List.Nodup.length_le_of_subset List.nodup_range (fun i hi => h5 i (List.mem_range.mp hi))
    simp at this
    have h3' : (fillUp n k sel).length ≤ k := h3
    omega
/-! ### L2 and L4 -/

theorem hvSpec_congr_mem {S T : List Pt} (hS : ∀ p ∈ S, p.length = 2) (hT : ∀ p ∈ T, p.length = 2)
    (h : ∀ p, p ∈ S ↔ p ∈ T) : hvSpec S [0, 0] = hvSpec T [0, 0] :=
  Nat.le_antisymm (hvSpec_mono_subset (m := 2) rfl hT fun p hp => (h p).mp hp)
    (hvSpec_mono_subset (m := 2) rfl hS fun p hp => (h p).mpr hp)

theorem ptOf_length (F : List P2) (i : Nat) : (ptOf F i).length = 2 := rfl

/-- removing repeated indices from a chain keeps it a chain (now strictly decreasing) with the same area -/
theorem eraseDups_chain {F : List P2} (hF : IsFront F) {c : List Nat} (hc : IsRChain F c) :
    IsRChain F c.eraseDups ∧ c.eraseDups.Pairwise (fun a b => b < a) ∧ areaL F c.eraseDups 0 = areaL F c 0 := by
  have hsub := eraseDups_sublist c
  have hch : IsRChain F c.eraseDups :=
    ⟨hc.1.sublist hsub, fun m hm => hc.2 m (List.mem_eraseDups.mp hm)⟩
  refine ⟨hch, ?_, ?_⟩
  · have := hch.1.and (nodup_eraseDups c)
    exact this.imp (by intro a b h; omega)
  · have e := hvSpec_congr_mem (S := c.eraseDups.map (ptOf F)) (T := c.map (ptOf F))
      (by simp [ptOf_length]) (by simp [ptOf_length])
      (by intro p; simp only [List.mem_map, List.mem_eraseDups])
    rw [areaL_eq_hvSpec hF hch, areaL_eq_hvSpec hF hc, e]

/-- **L2** value of the dynamic programme.  With `(h, chosen) = ` the result of `k − 1` rounds and
`V = max_i (f1_i·f2_i + h[i])` (attained at `lastIndex`): `V` bounds the area of every increasing chain of at most `k`
points of the front, and the back-tracked index set (duplicates removed, in increasing order) is a non-empty
increasing chain of at most `k` points whose area is exactly `V`; hence `V` is the maximum of `chainArea` over the
non-empty increasing chains of length `≤ k`. -/
theorem dp_value_eq_best_chain {F : List P2} (hF : IsFront F) {k : Nat} (hk : 1 ≤ k) (hn : 1 ≤ F.length) :
    let hc := dpRounds F (k - 1) (F.map fun _ => 0) []
    let last := lastIndex F hc.1
    let V := dpVal F hc.1 last
    last < F.length ∧ (∀ i, i < F.length → dpVal F hc.1 i ≤ V) ∧
    (∀ c : List Nat, c.Pairwise (· < ·) → (∀ m ∈ c, m < F.length) → c.length ≤ k → chainArea F c ≤ V) ∧
    (let c := (backtrack last hc.2).eraseDups.reverse
     c ≠ [] ∧ c.Pairwise (· < ·) ∧ (∀ m ∈ c, m < F.length) ∧ c.length ≤ k ∧ chainArea F c = V) := by
  intro hc last V
  have inv := dpRounds_inv hF (k - 1) 0 _ _ (dpInv_init F)
  obtain ⟨h1, h2, h3, h4, h5, h6⟩ := dp_final hF inv hn
  have hk' : 0 + (k - 1) + 1 = k := by omega
  rw [hk'] at h3 h5
  obtain ⟨e1, e2, e3⟩ := eraseDups_chain hF h4
  refine ⟨h1, h2, ?_, ?_, ?_, ?_, ?_, ?_⟩
  · intro c hinc hlt hlen
    exact h3 c.reverse ⟨List.pairwise_reverse.mpr (hinc.imp (by intro a b h; omega)),
      fun m hm => hlt m (List.mem_reverse.mp hm)⟩ (by simpa using hlen)
  · intro hnil
    have hne : backtrack last hc.2 ≠ [] := by
      intro h0; rw [h0] at h5; simp at h5; omega
    obtain ⟨a, ha⟩ := List.exists_mem_of_ne_nil _ hne
    have : a ∈ (backtrack last hc.2).eraseDups.reverse := List.mem_reverse.mpr (List.mem_eraseDups.mpr ha)
    rw [hnil] at this
    simp at this
  · exact List.pairwise_reverse.mpr e2
  · intro m hm; exact e1.2 m (List.mem_reverse.mp hm)
  · rw [List.length_reverse]
    exact Nat.le_trans (eraseDups_sublist _).length_le (Nat.le_of_eq h5)
  · unfold chainArea
    rw [List.reverse_reverse, e3, h6]

/-- non-vacuity of L2/L4: a front with 4 points, `k = 2` -/
example : IsFront [⟨-7, -1, 0⟩, ⟨-5, -2, 1⟩, ⟨-2, -4, 2⟩, ⟨-1, -6, 3⟩] ∧ 1 ≤ 2 ∧ 2 ≤ 4 := by
  refine ⟨⟨by decide, by decide⟩, by decide, by decide⟩

theorem ptOf_eq (F : List P2) (i : Fin F.length) : ptOf F i.val = (F[i]).pt := by
  simp [ptOf, List.getD_eq_getElem?_getD]

/-- **L4** `hypSSP` selects exactly `k` distinct positions of the front, and no sub-list of the front with at most
`k` points has a larger hypervolume (reference point `(0,0)`) than the selected points. -/
theorem hypSSP_optimal {F : List P2} (hF : IsFront F) {k : Nat} (hk : 1 ≤ k) (hkn : k ≤ F.length) :
    (hypSSP F k).Nodup ∧ (hypSSP F k).length = k ∧ (∀ i ∈ hypSSP F k, i < F.length) ∧
    ∀ T : List P2, T.Sublist F → T.length ≤ k →
      hvSpec (T.map P2.pt) [0, 0] ≤ hvSpec ((hypSSP F k).map (ptOf F)) [0, 0] := by
  have hn : 1 ≤ F.length := by omega
  have inv := dpRounds_inv hF (k - 1) 0 _ _ (dpInv_init F)
  obtain ⟨h1, h2, h3, h4, h5, h6⟩ := dp_final hF inv hn
  have hk' : 0 + (k - 1) + 1 = k := by omega
  rw [hk'] at h3 h5
  have hyp : hypSSP F k = fillUp F.length k
      (backtrack (lastIndex F (dpRounds F (k - 1) (F.map fun _ => 0) []).1)
        (dpRounds F (k - 1) (F.map fun _ => 0) []).2).eraseDups := by
    unfold hypSSP; rfl
  generalize (dpRounds F (k - 1) (F.map fun _ => 0) []).1 = h at *
  generalize (dpRounds F (k - 1) (F.map fun _ => 0) []).2 = ch at *
  obtain ⟨f1, f2, f3, f4⟩ := fillUp_spec F.length k hkn (backtrack (lastIndex F h) ch).eraseDups
    (nodup_eraseDups _) (fun m hm => h4.2 m (List.mem_eraseDups.mp hm))
    (Nat.le_trans (eraseDups_sublist _).length_le (Nat.le_of_eq h5))
  rw [hyp]
  refine ⟨f1, f3, f2, ?_⟩
  intro T hT hTk
  obtain ⟨is, rfl, hinc⟩ := List.sublist_eq_map_getElem hT
  have hmap : (is.map fun x => F[x]).map P2.pt = ((is.map Fin.val).reverse.reverse).map (ptOf F) := by
    rw [List.reverse_reverse, List.map_map, List.map_map]
    apply List.map_congr_left
    intro i _
    exact (ptOf_eq F i).symm
  have hchain : IsRChain F (is.map Fin.val).reverse := by
    refine ⟨List.pairwise_reverse.mpr ?_, ?_⟩
    · rw [List.pairwise_map]
      exact hinc.imp (by intro a b h; exact Nat.le_of_lt h)
    · intro m hm
      obtain ⟨i, _, rfl⟩ := List.mem_map.mp (List.mem_reverse.mp hm)
      exact i.isLt
  have hub := h3 _ hchain (by simpa using hTk)
  rw [areaL_eq_hvSpec hF hchain] at hub
  rw [h6.symm, areaL_eq_hvSpec hF h4] at hub
  rw [hmap, hvSpec_perm ((List.reverse_perm _).map _)]
  refine Nat.le_trans (by exact_mod_cast hub) ?_
  apply hvSpec_mono_subset (m := 2) rfl (by simp [ptOf_length])
  intro p hp
  obtain ⟨m, hm, rfl⟩ := List.mem_map.mp hp
  exact List.mem_map.mpr ⟨m, f4 m (List.mem_eraseDups.mpr hm), rfl⟩
/-! ### L5: the operator.  (a) sorting with the intended comparator -/

/-- lexicographic `≤` on the key `(f1, f2)`: the order `ptLtFixed` sorts by -/
def keyLe (a b : P2) : Prop := a.f1 < b.f1 ∨ (a.f1 = b.f1 ∧ a.f2 ≤ b.f2)

theorem ptLtFixed_true {a b : P2} : ptLtFixed a b = true ↔ a.f1 < b.f1 ∨ (a.f1 = b.f1 ∧ a.f2 < b.f2) := by
  unfold ptLtFixed
  split
  · simp_all
  · split
    · constructor
      · intro h; simp at h
      · intro h; omega
    · simp only [decide_eq_true_eq]
      constructor
      · intro h; right; exact ⟨by omega, h⟩
      · intro h; omega

theorem keyLe_of_lt {a b : P2} (h : ptLtFixed a b = true) : keyLe a b := by
  rcases ptLtFixed_true.mp h with h | h
  · exact Or.inl h
  · exact Or.inr ⟨h.1, by omega⟩

theorem keyLe_of_not_lt {a b : P2} (h : ¬ ptLtFixed a b = true) : keyLe b a := by
  rw [ptLtFixed_true] at h
  unfold keyLe; omega

theorem keyLe_trans {a b c : P2} (h1 : keyLe a b) (h2 : keyLe b c) : keyLe a c := by
  unfold keyLe at *; omega

theorem linInsert_spec (v : P2) : ∀ (rl : List P2), rl.Pairwise (fun a b => keyLe b a) →
    (linInsert ptLtFixed v rl).Pairwise (fun a b => keyLe b a) ∧ (linInsert ptLtFixed v rl).Perm (v :: rl)
  | [], _ => by simp [linInsert]
  | e :: es, h => by
    have h' := List.pairwise_cons.mp h
    rw [linInsert]
    split
    · rename_i hlt
      obtain ⟨ih1, ih2⟩ := linInsert_spec v es h'.2
      refine ⟨List.pairwise_cons.mpr ⟨?_, ih1⟩, ?_⟩
      · intro q hq
        rcases List.mem_cons.mp (ih2.mem_iff.mp hq) with rfl | hq
        · exact keyLe_of_lt hlt
        · exact h'.1 q hq
      · exact (List.Perm.cons e ih2).trans (List.Perm.swap v e es)
    · rename_i hlt
      refine ⟨List.pairwise_cons.mpr ⟨?_, h⟩, List.Perm.refl _⟩
      intro q hq
      have hev := keyLe_of_not_lt hlt
      rcases List.mem_cons.mp hq with rfl | hq
      · exact hev
      · exact keyLe_trans (h'.1 q hq) hev

theorem insStep_spec (acc : List P2) (v : P2) (h : acc.Pairwise keyLe) :
    (insStep ptLtFixed acc v).Pairwise keyLe ∧ (insStep ptLtFixed acc v).Perm (v :: acc) := by
  match acc, h with
  | [], _ => simp [insStep]
  | first :: rest, h =>
    have h' := List.pairwise_cons.mp h
    rw [insStep]
    split
    · rename_i hlt
      refine ⟨List.pairwise_cons.mpr ⟨?_, h⟩, List.Perm.refl _⟩
      intro q hq
      have hvf := keyLe_of_lt hlt
      rcases List.mem_cons.mp hq with rfl | hq
      · exact hvf
      · exact keyLe_trans hvf (h'.1 q hq)
    · obtain ⟨h1, h2⟩ := linInsert_spec v (first :: rest).reverse (List.pairwise_reverse.mpr h)
      refine ⟨List.pairwise_reverse.mpr h1, ?_⟩
      exact (List.reverse_perm _).trans (h2.trans (List.Perm.cons v (List.reverse_perm _)))

theorem insSort_spec (l : List P2) : (insSort ptLtFixed l).Pairwise keyLe ∧ (insSort ptLtFixed l).Perm l := by
  unfold insSort
  have key : ∀ (l acc : List P2), acc.Pairwise keyLe →
      (l.foldl (insStep ptLtFixed) acc).Pairwise keyLe ∧ (l.foldl (insStep ptLtFixed) acc).Perm (acc ++ l) := by
    intro l
    induction l with
    | nil => intro acc h; simpa using h
    | cons v l ih =>
      intro acc h
      obtain ⟨s1, s2⟩ := insStep_spec acc v h
      obtain ⟨i1, i2⟩ := ih _ s1
      refine ⟨i1, i2.trans ?_⟩
      have : (v :: acc ++ l).Perm (acc ++ v :: l) := (List.perm_middle).symm
      exact (List.Perm.append_right l s2).trans this
  simpa using key l [] List.Pairwise.nil

/-! (b) `uniqueFront` -/

theorem uniqueGo_spec : ∀ (rest : List P2) (last : P2), (∀ y ∈ rest, keyLe last y) → rest.Pairwise keyLe →
    (uniqueGo last rest).Sublist rest ∧
    (last :: uniqueGo last rest).Pairwise (fun p q => p.f1 < q.f1 ∧ q.f2 < p.f2) ∧
    ∀ p ∈ rest, ∃ q ∈ last :: uniqueGo last rest, q.f1 ≤ p.f1 ∧ q.f2 ≤ p.f2
  | [], last, _, _ => by simp [uniqueGo]
  | y :: rest, last, hl, hs => by
    have hs' := List.pairwise_cons.mp hs
    have hly := hl y (by simp)
    rw [uniqueGo]
    split
    · rename_i hge
      obtain ⟨i1, i2, i3⟩ := uniqueGo_spec rest last (fun z hz => hl z (List.mem_cons_of_mem _ hz)) hs'.2
      refine ⟨i1.cons _, i2, ?_⟩
      intro p hp
      rcases List.mem_cons.mp hp with rfl | hp
      · refine ⟨last, by simp, ?_⟩
        unfold keyLe at hly; omega
      · exact i3 p hp
    · rename_i hge
      obtain ⟨i1, i2, i3⟩ := uniqueGo_spec rest y hs'.1 hs'.2
      have hi2 := List.pairwise_cons.mp i2
      have hlt : last.f1 < y.f1 ∧ y.f2 < last.f2 := by unfold keyLe at hly; omega
      refine ⟨i1.cons_cons _, List.pairwise_cons.mpr ⟨?_, i2⟩, ?_⟩
      · intro q hq
        rcases List.mem_cons.mp hq with rfl | hq
        · exact hlt
        · have := hi2.1 q hq; omega
      · intro p hp
        rcases List.mem_cons.mp hp with rfl | hp
        · exact ⟨p, by simp, Int.le_refl _, Int.le_refl _⟩
        · obtain ⟨q, hq, h⟩ := i3 p hp
          exact ⟨q, List.mem_cons_of_mem _ hq, h⟩

theorem uniqueFront_spec (L : List P2) (hs : L.Pairwise keyLe) :
    (uniqueFront L).Sublist L ∧ (uniqueFront L).Pairwise (fun p q => p.f1 < q.f1 ∧ q.f2 < p.f2) ∧
    ∀ p ∈ L, ∃ q ∈ uniqueFront L, q.f1 ≤ p.f1 ∧ q.f2 ≤ p.f2 := by
  match L, hs with
  | [], _ => simp [uniqueFront]
  | x :: rest, hs =>
    have hs' := List.pairwise_cons.mp hs
    obtain ⟨i1, i2, i3⟩ := uniqueGo_spec rest x hs'.1 hs'.2
    rw [uniqueFront]
    refine ⟨i1.cons_cons _, i2, ?_⟩
    intro p hp
    rcases List.mem_cons.mp hp with rfl | hp
    · exact ⟨p, by simp, Int.le_refl _, Int.le_refl _⟩
    · exact i3 p hp
/-! (c) translation invariance of the 2-D hypervolume -/

/-- the change of coordinates of `createFront`: the reference point becomes `(0,0)` -/
def shift (r p : Pt) : Pt := [px p - px r, py p - py r]

theorem px_shift (r p : Pt) : px (shift r p) = px p - px r := by simp [shift, px]
theorem py_shift (r p : Pt) : py (shift r p) = py p - py r := by simp [shift, py]

theorem sweep2d_shift (r : Pt) : ∀ (L : List Pt) (last : Int),
    sweep2d 0 (last - py r) (L.map (shift r)) = sweep2d (px r) last L
  | [], _ => by simp [sweep2d]
  | p :: rest, last => by
    simp only [List.map_cons, sweep2d, px_shift, py_shift]
    have e : last - py r - (py p - py r) = last - py p := by omega
    rw [e, sweep2d_shift r rest (py p), sweep2d_shift r rest last]
    split
    · ring
    · rfl

theorem hv2dSorted_shift (r : Pt) (L : List Pt) : hv2dSorted (L.map (shift r)) [0, 0] = hv2dSorted L r := by
  match L with
  | [] => simp [hv2dSorted]
  | p :: rest =>
    have e0 : px ([0, 0] : Pt) = 0 := rfl
    have e1 : py ([0, 0] : Pt) = 0 := rfl
    simp only [List.map_cons, hv2dSorted, px_shift, py_shift, e0, e1]
    rw [sweep2d_shift]
    ring

theorem leAll_shift {r p : Pt} (hp : p.length = 2) (hr : r.length = 2) (h : leAll p r = true) :
    leAll (shift r p) [0, 0] = true := by
  have := (leAll_2d hp hr).mp h
  simp only [shift, leAll, Bool.and_true, Bool.and_eq_true, decide_eq_true_eq]
  omega

/-- the hypervolume does not change when points and reference point are translated by `−r` -/
theorem hvSpec_shift {S : List Pt} {r : Pt} (hS : ∀ p ∈ S, p.length = 2) (hr : r.length = 2)
    (hle : ∀ p ∈ S, leAll p r = true) : hvSpec (S.map (shift r)) [0, 0] = hvSpec S r := by
  have hperm : (sortByKey S).Perm S := List.mergeSort_perm S _
  have h1 : (hvSpec S r : Int) = hv2dSorted (sortByKey S) r := (hv2d_eq_spec hS hr hle).symm
  have h2 : hv2dSorted ((sortByKey S).map (shift r)) [0, 0]
      = (hvSpec ((sortByKey S).map (shift r)) [0, 0] : Int) := by
    apply hv2dSorted_eq_spec
    · rw [List.pairwise_map]
      exact (pairwise_sortByKey S).imp (by intro a b h; rw [px_shift, px_shift]; omega)
    · intro p hp
      obtain ⟨q, _, rfl⟩ := List.mem_map.mp hp
      rfl
    · rfl
    · intro p hp
      obtain ⟨q, hq, rfl⟩ := List.mem_map.mp hp
      have hq' := hperm.mem_iff.mp hq
      exact leAll_shift (hS q hq') hr (hle q hq')
  rw [hv2dSorted_shift, ← h1, hvSpec_perm (hperm.map _)] at h2
  exact_mod_cast h2.symm

/-! (d) the front built by `createFront` -/

def mkP (r : Pt) (e : Pt × Nat) : P2 := { f1 := px e.1 - px r, f2 := py e.1 - py r, idx := e.2 }

theorem createFrontWith_eq (lt : P2 → P2 → Bool) (S : List Pt) (r : Pt) :
    createFrontWith lt S r = uniqueFront (insSort lt (S.zipIdx.map (mkP r))) := by
  unfold createFrontWith
  congr

/-- a point of the front comes from the input point with its index -/
def Good (S : List Pt) (r : Pt) (q : P2) : Prop := ∃ p, S[q.idx]? = some p ∧ q.pt = shift r p

theorem front_facts {S : List Pt} {r : Pt} (hS : ∀ p ∈ S, p.length = 2) (hr : r.length = 2)
    (hle : ∀ p ∈ S, leAll p r = true) :
    let F := createFrontWith ptLtFixed S r
    IsFront F ∧ (∀ q ∈ F, Good S r q) ∧ (F.map (·.idx)).Nodup ∧
    ∀ p ∈ S, ∃ q ∈ F, leAll q.pt (shift r p) = true := by
  intro F
  have hF : F = uniqueFront (insSort ptLtFixed (S.zipIdx.map (mkP r))) := createFrontWith_eq _ S r
  obtain ⟨s1, s2⟩ := insSort_spec (S.zipIdx.map (mkP r))
  obtain ⟨u1, u2, u3⟩ := uniqueFront_spec _ s1
  rw [← hF] at u1 u2 u3
  have hgood0 : ∀ q ∈ S.zipIdx.map (mkP r), Good S r q := by
    intro q hq
    obtain ⟨e, he, rfl⟩ := List.mem_map.mp hq
    exact ⟨e.1, List.mem_zipIdx_iff_getElem?.mp he, rfl⟩
  have hgood : ∀ q ∈ F, Good S r q := fun q hq => hgood0 q (s2.mem_iff.mp (u1.subset hq))
  refine ⟨⟨u2, ?_⟩, hgood, ?_, ?_⟩
  · intro q hq
    obtain ⟨p, hp, hqp⟩ := hgood q hq
    have hpS : p ∈ S := List.mem_of_getElem? hp
    have := (leAll_2d (hS p hpS) hr).mp (hle p hpS)
    simp only [P2.pt, shift, List.cons.injEq, and_true] at hqp
    omega
  · have h0 : ((S.zipIdx.map (mkP r)).map (·.idx)).Nodup := by
      rw [List.map_map]
      have : ((fun x : P2 => x.idx) ∘ mkP r) = Prod.snd := by funext e; rfl
      rw [this, List.zipIdx_map_snd]
      exact List.nodup_range'
    exact ((s2.map _).nodup_iff.mpr h0).sublist (u1.map _)
  · intro p hp
    obtain ⟨i, hi, rfl⟩ := List.mem_iff_getElem.mp hp
    have hmem : mkP r (S[i], i) ∈ insSort ptLtFixed (S.zipIdx.map (mkP r)) := by
      apply s2.mem_iff.mpr
      exact List.mem_map.mpr ⟨(S[i], i), List.mem_zipIdx_iff_getElem?.mpr (by simp [hi]), rfl⟩
    obtain ⟨q, hq, h1, h2⟩ := u3 _ hmem
    refine ⟨q, hq, ?_⟩
    simp only [P2.pt, shift, leAll, Bool.and_true, Bool.and_eq_true, decide_eq_true_eq]
    exact ⟨h1, h2⟩
/-! (e) the flags -/

theorem mem_flagged {S : List Pt} {sel : List Nat} {i : Nat} {p : Pt} (h : S[i]? = some p) (hi : i ∈ sel) :
    p ∈ ((S.zip ((List.range S.length).map fun i => sel.contains i)).filter (·.2)).map (·.1) := by
  have hil : i < S.length := (List.getElem?_eq_some_iff.mp h).1
  refine List.mem_map.mpr ⟨(p, true), List.mem_filter.mpr ⟨?_, rfl⟩, rfl⟩
  apply List.mem_iff_getElem?.mpr
  refine ⟨i, ?_⟩
  rw [List.getElem?_zip_eq_some]
  refine ⟨h, ?_⟩
  simp [hil, hi]

theorem flagged_subset {S : List Pt} {fl : List Bool} {p : Pt}
    (h : p ∈ ((S.zip fl).filter (·.2)).map (·.1)) : p ∈ S := by
  obtain ⟨e, he, rfl⟩ := List.mem_map.mp h
  exact (List.of_mem_zip (List.mem_filter.mp he).1).1

theorem count_flags {n : Nat} {sel : List Nat} (hnd : sel.Nodup) (hlt : ∀ i ∈ sel, i < n) :
    ((List.range n).map fun i => sel.contains i).count true = sel.length := by
  rw [List.count_eq_countP, List.countP_map, List.countP_eq_length_filter]
  apply List.Perm.length_eq
  apply (List.perm_ext_iff_of_nodup (List.nodup_range.sublist List.filter_sublist) hnd).mpr
  intro a
  simp only [List.mem_filter, List.mem_range, Function.comp, List.contains_eq_mem, beq_true,
    decide_eq_true_eq]
  exact ⟨fun h => h.2, fun h => ⟨hlt a h, h⟩⟩

theorem exists_dominators {F : List P2} {r : Pt} : ∀ (T : List Pt),
    (∀ p ∈ T, ∃ q ∈ F, leAll q.pt (shift r p) = true) →
    ∃ D : List P2, D.length = T.length ∧ (∀ q ∈ D, q ∈ F) ∧ ∀ p ∈ T, ∃ q ∈ D, leAll q.pt (shift r p) = true
  | [], _ => ⟨[], rfl, by simp, by simp⟩
  | p :: T, h => by
    obtain ⟨D, d1, d2, d3⟩ := exists_dominators T (fun p' hp' => h p' (List.mem_cons_of_mem _ hp'))
    obtain ⟨q, hq, hqp⟩ := h p (by simp)
    refine ⟨q :: D, by simp [d1], ?_, ?_⟩
    · intro q' hq'
      rcases List.mem_cons.mp hq' with rfl | hq'
      · exact hq
      · exact d2 q' hq'
    · intro p' hp'
      rcases List.mem_cons.mp hp' with rfl | hp'
      · exact ⟨q, by simp, hqp⟩
      · obtain ⟨q', hq', h'⟩ := d3 p' hp'
        exact ⟨q', List.mem_cons_of_mem _ hq', h'⟩

/-- the points selected by the operator run with comparator `lt` -/
def selectedWith (lt : P2 → P2 → Bool) (S : List Pt) (k : Nat) (r : Pt) : List Pt :=
  ((S.zip (selectWith lt S k r)).filter (·.2)).map (·.1)

/-- **L5** the operator with the intended comparator `ptLtFixed`: if all points are two-dimensional and weakly
dominate the reference point and `1 ≤ k ≤ |front|`, then exactly `k` flags are set, and no sub-list of the input
with at most `k` points has a larger hypervolume than the selected points. -/
theorem select_optimal {S : List Pt} {r : Pt} {k : Nat} (hS : ∀ p ∈ S, p.length = 2) (hr : r.length = 2)
    (hle : ∀ p ∈ S, leAll p r = true) (hk : 1 ≤ k) (hkF : k ≤ (createFrontWith ptLtFixed S r).length) :
    (selectWith ptLtFixed S k r).length = S.length ∧ (selectWith ptLtFixed S k r).count true = k ∧
    ∀ T : List Pt, T.Sublist S → T.length ≤ k →
      hvSpec T r ≤ hvSpec (selectedWith ptLtFixed S k r) r := by
  obtain ⟨hF, hgood, hidx, hdom⟩ := front_facts hS hr hle
  unfold selectedWith selectWith
  simp only at hF hgood hidx hdom ⊢
  generalize createFrontWith ptLtFixed S r = F at *
  obtain ⟨o1, o2, o3, o4⟩ := hypSSP_optimal hF hk hkF
  have hgetD : ∀ j (hj : j < F.length) (d : P2), F.getD j d = F[j] := by
    intro j hj d
    simp [List.getD_eq_getElem?_getD, List.getElem?_eq_getElem hj]
  generalize hsel : ((hypSSP F k).map fun i => (F.getD i ⟨0, 0, S.length⟩).idx) = sel
  have hselmem : ∀ j (hj : j ∈ hypSSP F k), (F[j]'(o3 j hj)).idx ∈ sel := by
    intro j hj
    rw [← hsel]
    exact List.mem_map.mpr ⟨j, hj, by rw [hgetD j (o3 j hj)]⟩
  have hsel_lt : ∀ i ∈ sel, i < S.length := by
    intro i hi
    rw [← hsel] at hi
    obtain ⟨j, hj, rfl⟩ := List.mem_map.mp hi
    rw [hgetD j (o3 j hj)]
    obtain ⟨p, hp, _⟩ := hgood _ (List.getElem_mem (o3 j hj))
    exact (List.getElem?_eq_some_iff.mp hp).1
  have hsel_nd : sel.Nodup := by
    rw [← hsel, List.Nodup, List.pairwise_map]
    refine List.Pairwise.imp_of_mem ?_ o1
    intro a b ha hb hab e
    rw [hgetD a (o3 a ha), hgetD b (o3 b hb)] at e
    have e' : (F.map (·.idx))[a]'(by simpa using o3 a ha) = (F.map (·.idx))[b]'(by simpa using o3 b hb) := by
      simpa using e
    exact hab ((List.getElem_inj hidx).mp e')
  refine ⟨by simp, ?_, ?_⟩
  · rw [count_flags hsel_nd hsel_lt, ← hsel, List.length_map, o2]
  · intro T hT hTk
    generalize hsp : ((S.zip ((List.range S.length).map fun i => sel.contains i)).filter (·.2)).map (·.1) = sp
    have hspS : ∀ p ∈ sp, p ∈ S := by intro p hp; rw [← hsp] at hp; exact flagged_subset hp
    have hTS : ∀ p ∈ T, p ∈ S := fun p hp => hT.subset hp
    rw [← hvSpec_shift (fun p hp => hS p (hTS p hp)) hr (fun p hp => hle p (hTS p hp)),
      ← hvSpec_shift (fun p hp => hS p (hspS p hp)) hr (fun p hp => hle p (hspS p hp))]
    obtain ⟨D, d1, d2, d3⟩ := exists_dominators (F := F) (r := r) T (fun p hp => hdom p (hTS p hp))
    have hT'sub : (F.filter fun q => decide (q ∈ D)).Sublist F := List.filter_sublist
    have hFnd : F.Nodup := hF.mono.imp (by intro a b h e; subst e; omega)
    have hT'len : (F.filter fun q => decide (q ∈ D)).length ≤ k := by
      refine Nat.le_trans (List.Nodup.length_le_of_subset (l₂ := D) (hFnd.sublist hT'sub) ?_) (by omega)
      intro q hq
      simpa using (List.mem_filter.mp hq).2
    refine Nat.le_trans ?_ (Nat.le_trans (o4 _ hT'sub hT'len) ?_)
    · apply hvSpec_mono (m := 2) rfl (by intro q hq; obtain ⟨x, _, rfl⟩ := List.mem_map.mp hq; rfl)
      intro p hp
      obtain ⟨p0, hp0, rfl⟩ := List.mem_map.mp hp
      obtain ⟨q, hq, hqp⟩ := d3 p0 hp0
      exact ⟨q.pt, List.mem_map.mpr ⟨q, List.mem_filter.mpr ⟨d2 q hq, by simpa using hq⟩, rfl⟩, hqp⟩
    · apply hvSpec_mono_subset (m := 2) rfl (by intro q hq; obtain ⟨x, _, rfl⟩ := List.mem_map.mp hq; rfl)
      intro p hp
      obtain ⟨j, hj, rfl⟩ := List.mem_map.mp hp
      have hjl := o3 j hj
      obtain ⟨p0, hp0, hpt⟩ := hgood _ (List.getElem_mem hjl)
      have : ptOf F j = shift r p0 := by rw [← hpt, ptOf, hgetD j hjl]
      rw [this]
      refine List.mem_map.mpr ⟨p0, ?_, rfl⟩
      rw [← hsp]
      exact mem_flagged hp0 (hselmem j hj)
/-- non-vacuity of L5 (the hypotheses; the front of this input has 3 points) -/
example : (∀ p ∈ ([[1, 5], [2, 3], [2, 4], [4, 1]] : List Pt), p.length = 2) ∧
    (∀ p ∈ ([[1, 5], [2, 3], [2, 4], [4, 1]] : List Pt), leAll p [6, 6] = true) ∧
    (createFrontWith ptLtFixed [[1, 5], [2, 3], [2, 4], [4, 1]] [6, 6]).length = 3 := by
  decide

/-! ### the comparator of the C++ (`ptLt`) on inputs with pairwise distinct first coordinates -/

/-- where the first coordinates differ, `Point::operator<` as written agrees with the intended order
(the script does not look at the tie-break line of the generated `sspPointLess`) -/
theorem ptLt_eq_fixed {a b : P2} (h : a.f1 ≠ b.f1) : ptLt a b = ptLtFixed a b := by
  unfold ptLt SharkVerif.Gen.sspPointLess ptLtFixed
  by_cases h1 : a.f1 < b.f1
  · simp [h1]
  · have h2 : b.f1 < a.f1 := by omega
    simp [h1, h2]

theorem linInsert_congr {α} {lt lt' : α → α → Bool} (v : α) : ∀ (rl : List α),
    (∀ e ∈ rl, lt v e = lt' v e) → linInsert lt v rl = linInsert lt' v rl
  | [], _ => rfl
  | e :: es, h => by
    rw [linInsert, linInsert, h e (by simp),
      linInsert_congr v es (fun e' he' => h e' (List.mem_cons_of_mem _ he'))]

theorem linInsert_perm {α} (lt : α → α → Bool) (v : α) : ∀ (rl : List α), (linInsert lt v rl).Perm (v :: rl)
  | [] => by simp [linInsert]
  | e :: es => by
    rw [linInsert]
    split
    · exact (List.Perm.cons e (linInsert_perm lt v es)).trans (List.Perm.swap v e es)
    · exact List.Perm.refl _

theorem insStep_congr {α} {lt lt' : α → α → Bool} (acc : List α) (v : α) (h : ∀ e ∈ acc, lt v e = lt' v e) :
    insStep lt acc v = insStep lt' acc v := by
  match acc, h with
  | [], _ => rfl
  | first :: rest, h =>
    rw [insStep, insStep, h first (by simp),
      linInsert_congr v (first :: rest).reverse (fun e he => h e (List.mem_reverse.mp he))]

theorem insStep_perm {α} (lt : α → α → Bool) (acc : List α) (v : α) : (insStep lt acc v).Perm (v :: acc) := by
  match acc with
  | [] => simp [insStep]
  | first :: rest =>
    rw [insStep]
    split
    · exact List.Perm.refl _
    · exact (List.reverse_perm _).trans
        ((linInsert_perm lt v _).trans (List.Perm.cons v (List.reverse_perm _)))

/-- insertion sort only compares each element with the elements before it -/
theorem insSort_congr {α} {lt lt' : α → α → Bool} (l : List α)
    (h : l.Pairwise (fun a b => lt b a = lt' b a)) : insSort lt l = insSort lt' l := by
  unfold insSort
  have key : ∀ (l acc : List α), (∀ v ∈ l, ∀ e ∈ acc, lt v e = lt' v e) →
      l.Pairwise (fun a b => lt b a = lt' b a) → l.foldl (insStep lt) acc = l.foldl (insStep lt') acc := by
    intro l
    induction l with
    | nil => intro acc _ _; rfl
    | cons v l ih =>
      intro acc h1 h2
      have h2' := List.pairwise_cons.mp h2
      rw [List.foldl_cons, List.foldl_cons, insStep_congr acc v (h1 v (by simp))]
      apply ih _ _ h2'.2
      intro w hw e he
      rcases List.mem_cons.mp ((insStep_perm lt' acc v).mem_iff.mp he) with rfl | he
      · exact h2'.1 w hw
      · exact h1 w (List.mem_cons_of_mem _ hw) e he
  exact key l [] (by simp) h

/-- on inputs with pairwise distinct first coordinates `std::sort` with the comparator as written and with the
intended comparator give the same front -/
theorem createFront_eq_fixed {S : List Pt} (hd : S.Pairwise (fun p q => px p ≠ px q)) (r : Pt) :
    createFront S r = createFrontWith ptLtFixed S r := by
  unfold createFront
  rw [createFrontWith_eq, createFrontWith_eq, insSort_congr]
  rw [List.pairwise_map]
  have hz : S.zipIdx.Pairwise (fun a b => px a.1 ≠ px b.1) :=
    (List.pairwise_map (f := Prod.fst) (R := fun p q : Pt => px p ≠ px q) (l := S.zipIdx)).mp
      (by rw [List.zipIdx_map_fst]; exact hd)
  refine hz.imp ?_
  intro a b hab
  apply ptLt_eq_fixed
  simp only [mkP]
  omega

/-- on inputs with pairwise distinct first coordinates the operator as written coincides with the operator run
with the intended comparator -/
theorem select_eq_selectWith_fixed {S : List Pt} (hd : S.Pairwise (fun p q => px p ≠ px q)) (k : Nat) (r : Pt) :
    select S k r = selectWith ptLtFixed S k r := by
  have hfront : createFrontWith ptLt S r = createFrontWith ptLtFixed S r := createFront_eq_fixed hd r
  unfold select selectWith
  rw [hfront]

theorem selected_eq_selectedWith_fixed {S : List Pt} (hd : S.Pairwise (fun p q => px p ≠ px q)) (k : Nat)
    (r : Pt) : selected S k r = selectedWith ptLtFixed S k r := by
  unfold selected selectedWith; rw [select_eq_selectWith_fixed hd]

/-- **L5 for the operator as written**, on inputs with pairwise distinct first coordinates -/
theorem select_optimal_distinct {S : List Pt} {r : Pt} {k : Nat} (hS : ∀ p ∈ S, p.length = 2) (hr : r.length = 2)
    (hle : ∀ p ∈ S, leAll p r = true) (hd : S.Pairwise (fun p q => px p ≠ px q))
    (hk : 1 ≤ k) (hkF : k ≤ (createFront S r).length) :
    (select S k r).length = S.length ∧ (select S k r).count true = k ∧
    ∀ T : List Pt, T.Sublist S → T.length ≤ k → hvSpec T r ≤ hvSpec (selected S k r) r := by
  rw [createFront_eq_fixed hd] at hkF
  rw [select_eq_selectWith_fixed hd, selected_eq_selectedWith_fixed hd]
  exact select_optimal hS hr hle hk hkF

example : ([[1, 5], [2, 3], [4, 1]] : List Pt).Pairwise (fun p q => px p ≠ px q) := by decide

/-! ### connection with the brute-force specification `bestSubsetHv` -/

theorem mem_choose : ∀ (k : Nat) (S T : List Pt), T ∈ choose k S ↔ T.Sublist S ∧ T.length = k
  | 0, S, T => by
    have e : choose 0 S = [[]] := by cases S <;> rfl
    rw [e, List.mem_singleton, List.length_eq_zero_iff]
    constructor
    · rintro rfl; simp
    · exact fun h => h.2
  | k + 1, [], T => by
    simp only [choose, List.not_mem_nil, List.sublist_nil, false_iff, not_and]
    rintro rfl; simp
  | k + 1, p :: rest, T => by
    simp only [choose, List.mem_append, List.mem_map, mem_choose k rest, mem_choose (k + 1) rest]
    constructor
    · rintro (⟨T', ⟨h1, h2⟩, rfl⟩ | ⟨h1, h2⟩)
      · exact ⟨h1.cons_cons p, by simp [h2]⟩
      · exact ⟨h1.cons p, h2⟩
    · rintro ⟨h1, h2⟩
      cases h1 with
      | cons _ h => exact Or.inr ⟨h, h2⟩
      | cons_cons _ h => exact Or.inl ⟨_, ⟨h, by simpa using h2⟩, rfl⟩

theorem foldl_max_eq_of_mem : ∀ (l : List Nat) (a m : Nat), a ≤ m → (∀ x ∈ l, x ≤ m) → (a = m ∨ m ∈ l) →
    l.foldl max a = m
  | [], a, m, _, _, h => by
    rcases h with rfl | h
    · rfl
    · simp at h
  | x :: l, a, m, ha, hub, h => by
    rw [List.foldl_cons]
    have hx := hub x (by simp)
    apply foldl_max_eq_of_mem l _ m (Nat.max_le.mpr ⟨ha, hx⟩) (fun y hy => hub y (List.mem_cons_of_mem _ hy))
    rcases h with rfl | h
    · left; omega
    · rcases List.mem_cons.mp h with rfl | h
      · left; omega
      · exact Or.inr h

/-- the selected points form a sub-list of the input with as many elements as flags are set -/
theorem selectedWith_sublist (lt : P2 → P2 → Bool) (S : List Pt) (k : Nat) (r : Pt) :
    (selectedWith lt S k r).Sublist S ∧ (selectedWith lt S k r).length = (selectWith lt S k r).count true := by
  have hlen : (selectWith lt S k r).length = S.length := by simp [selectWith]
  unfold selectedWith
  generalize selectWith lt S k r = fl at hlen
  constructor
  · have := (List.filter_sublist (p := fun x : Pt × Bool => x.2) (l := S.zip fl)).map Prod.fst
    rwa [List.map_fst_zip (by omega)] at this
  · have h2 : fl.filter (fun b => b == true) = ((S.zip fl).filter (fun x => x.2 == true)).map Prod.snd := by
      conv => lhs; rw [← List.map_snd_zip (l₁ := S) (l₂ := fl) (by omega), List.filter_map]
      rfl
    rw [List.count_eq_countP, List.countP_eq_length_filter, h2, List.length_map, List.length_map]
    congr 1
    apply List.filter_congr
    intro x _
    simp

/-- **end to end**: the hypervolume of the points selected by the operator (intended comparator) is the largest
hypervolume of a `k`-element sub-list of the input -/
theorem select_eq_bestSubsetHv {S : List Pt} {r : Pt} {k : Nat} (hS : ∀ p ∈ S, p.length = 2) (hr : r.length = 2)
    (hle : ∀ p ∈ S, leAll p r = true) (hk : 1 ≤ k) (hkF : k ≤ (createFrontWith ptLtFixed S r).length) :
    hvSpec (selectedWith ptLtFixed S k r) r = bestSubsetHv S k r := by
  obtain ⟨_, h2, h3⟩ := select_optimal hS hr hle hk hkF
  obtain ⟨s1, s2⟩ := selectedWith_sublist ptLtFixed S k r
  unfold bestSubsetHv
  symm
  apply foldl_max_eq_of_mem _ 0 _ (Nat.zero_le _)
  · intro x hx
    obtain ⟨T, hT, rfl⟩ := List.mem_map.mp hx
    obtain ⟨t1, t2⟩ := (mem_choose k S T).mp hT
    exact h3 T t1 (Nat.le_of_eq t2)
  · right
    exact List.mem_map.mpr ⟨_, (mem_choose k S _).mpr ⟨s1, by rw [s2, h2]⟩, rfl⟩

/-- the same for the operator as written, on inputs with pairwise distinct first coordinates -/
theorem selected_eq_bestSubsetHv_distinct {S : List Pt} {r : Pt} {k : Nat} (hS : ∀ p ∈ S, p.length = 2)
    (hr : r.length = 2) (hle : ∀ p ∈ S, leAll p r = true) (hd : S.Pairwise (fun p q => px p ≠ px q))
    (hk : 1 ≤ k) (hkF : k ≤ (createFront S r).length) :
    hvSpec (selected S k r) r = bestSubsetHv S k r := by
  rw [createFront_eq_fixed hd] at hkF
  rw [selected_eq_selectedWith_fixed hd]
  exact select_eq_bestSubsetHv hS hr hle hk hkF

end SharkVerif.SSP
