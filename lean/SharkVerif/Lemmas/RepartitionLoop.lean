/-
The element-by-element copy loop of `SharedContainer::repartition` computes `splitBySizes flat sizes`.
-/
import SharkVerif.Lemmas.Dataset
namespace SharkVerif.Dataset
open SharkVerif.CheckedNat

variable {ε : Type}

/-- loop invariant: either everything is consumed, or the index points into the (non-empty) first remaining batch -/
def LoopPos (old : List (List ε)) (idx : Nat) : Prop :=
  (old = [] ∧ idx = 0) ∨ (∃ b r, old = b :: r ∧ idx < b.length)

def NonEmptyAll (old : List (List ε)) : Prop := ∀ b ∈ old, b ≠ []

theorem copyN_spec : ∀ (n : Nat) (old : List (List ε)) (idx : Nat), LoopPos old idx → NonEmptyAll old →
    n ≤ (old.flatten.drop idx).length →
    ∃ old' idx', Data.copyN old idx n = some ((old.flatten.drop idx).take n, old', idx') ∧
      old'.flatten.drop idx' = (old.flatten.drop idx).drop n ∧ LoopPos old' idx' ∧ NonEmptyAll old' := by
  intro n
  induction n with
  | zero =>
    intro old idx hpos hne _
    refine ⟨old, idx, ?_, by simp, hpos, hne⟩
    cases old <;> simp [Data.copyN]
  | succ n ih =>
    intro old idx hpos hne hn
    rcases hpos with ⟨rfl, rfl⟩ | ⟨b, rest, rfl, hidx⟩
    · simp at hn
    · have hrest : NonEmptyAll rest := fun x hx => hne x (by simp [hx])
      have hx : b[idx]? = some b[idx] := List.getElem?_eq_getElem hidx
      have hrem : (b :: rest).flatten.drop idx = b[idx] :: ((b.drop (idx + 1)) ++ rest.flatten) := by
        simp only [List.flatten_cons]
        rw [List.drop_append_of_le_length (Nat.le_of_lt hidx)]
        conv => lhs; rw [List.drop_eq_getElem_cons hidx]
        rfl
      rw [hrem] at hn ⊢
      simp only [List.length_cons, Nat.add_le_add_iff_right] at hn
      unfold Data.copyN
      simp only [hx, Option.bind_eq_bind, Option.bind_some]
      by_cases hlast : idx + 1 = b.length
      · -- the current old batch is exhausted: step to the next one
        have hdrop : b.drop (idx + 1) = [] := List.drop_eq_nil_of_le (by omega)
        rw [hdrop, List.nil_append] at hn ⊢
        have hpos' : LoopPos rest 0 := by
          cases rest with
          | nil => exact Or.inl ⟨rfl, rfl⟩
          | cons b' r' =>
            refine Or.inr ⟨b', r', rfl, ?_⟩
            have := hrest b' (by simp)
            exact List.length_pos_iff.mpr this
        obtain ⟨old', idx', hc, hd, hp, hne'⟩ := ih rest 0 hpos' hrest (by simpa using hn)
        simp only [List.drop_zero] at hc hd
        refine ⟨old', idx', ?_, by simpa using hd, hp, hne'⟩
        simp [hlast, hc]
      · have hlt : idx + 1 < b.length := by omega
        have hrem2 : (b :: rest).flatten.drop (idx + 1) = b.drop (idx + 1) ++ rest.flatten := by
          simp only [List.flatten_cons]
          rw [List.drop_append_of_le_length (Nat.le_of_lt hlt)]
        obtain ⟨old', idx', hc, hd, hp, hne'⟩ := ih (b :: rest) (idx + 1) (Or.inr ⟨b, rest, rfl, hlt⟩) hne
          (by rw [hrem2]; exact hn)
        rw [hrem2] at hc hd
        refine ⟨old', idx', ?_, by simpa using hd, hp, hne'⟩
        simp [hlast, hc]

theorem repartitionLoop_spec : ∀ (sizes : List Nat) (old : List (List ε)) (idx : Nat), LoopPos old idx →
    NonEmptyAll old → (∀ s ∈ sizes, 0 < s) → sizes.sum = (old.flatten.drop idx).length →
    Data.repartitionLoop old idx sizes = some (splitBySizes (old.flatten.drop idx) sizes) := by
  intro sizes
  induction sizes with
  | nil =>
    intro old idx hpos _ _ hsum
    rcases hpos with ⟨rfl, rfl⟩ | ⟨b, rest, rfl, hidx⟩
    · simp [Data.repartitionLoop, splitBySizes]
    · exfalso
      simp only [List.sum_nil, List.flatten_cons] at hsum
      have : 0 < ((b ++ rest.flatten).drop idx).length := by
        simp [List.length_drop]; omega
      omega
  | cons s ss ih =>
    intro old idx hpos hne hall hsum
    have hs : 0 < s := hall s (by simp)
    simp only [List.sum_cons] at hsum
    have hold : old ≠ [] := by
      intro h0; subst h0; simp at hsum; omega
    obtain ⟨old', idx', hc, hd, hp, hne'⟩ := copyN_spec s old idx hpos hne (by omega)
    have hih := ih old' idx' hp hne' (fun x hx => hall x (by simp [hx])) (by rw [hd, List.length_drop]; omega)
    unfold Data.repartitionLoop
    have hemp : old.isEmpty = false := by cases old <;> simp_all
    simp [hemp, hc, hih, splitBySizes, hd]

/-- **the copy loop of `repartition` is correct**: on a dataset without empty batches, for positive sizes that sum
to the element count, the element-by-element loop of the C++ produces exactly the cut of the flat sequence -/
theorem repartition_loop_refines (d : Data ε) (sizes : List Nat) (hne : d.nonEmptyBatches = true)
    (hall : sizes.all (· > 0) = true) (hsum : sizes.sum = d.numberOfElements) :
    Data.repartitionLoop d.batches 0 sizes = some (splitBySizes d.flat sizes) := by
  have hN : NonEmptyAll d.batches := by
    intro b hb
    simp only [Data.nonEmptyBatches, List.all_eq_true] at hne
    have := hne b hb
    cases b <;> simp_all
  have hpos : LoopPos d.batches 0 := by
    cases hb : d.batches with
    | nil => exact Or.inl ⟨rfl, rfl⟩
    | cons b r =>
      refine Or.inr ⟨b, r, rfl, ?_⟩
      exact List.length_pos_iff.mpr (hN b (by simp [hb]))
  have := repartitionLoop_spec sizes d.batches 0 hpos hN (allPos_of_all sizes hall)
    (by rw [hsum, d.numberOfElements_eq]; simp [Data.flat])
  simpa [Data.flat] using this

end SharkVerif.Dataset
