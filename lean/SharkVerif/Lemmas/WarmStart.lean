/-
Helper lemmas for C07: the warm start of `CSvmTrainer::optimize` (model `SvmTrainer.warmStartVector`: clipping to the
per-example box, re-balancing of the heavier side) and the fold of `setInitialSolution`.
-/
import SharkVerif.Lemmas.Bias
namespace SharkVerif.Smo
open SharkVerif.Qp SharkVerif.SvmTrainer

/-- a fold that subtracts one term per selected row -/
theorem foldl_filter_sub (p : Nat → Bool) (t : Nat → Nat → Rat) (init : Nat → Rat) : ∀ m (k : Nat),
    ((List.range m).filter p).foldl (fun (gr : Nat → Rat) i => fun k => gr k - t i k) init k
      = init k - rsum (fun i => if p i then t i k else 0) m := by
  intro m
  induction m with
  | zero => intro k; simp
  | succ m ih =>
    intro k
    rw [List.range_succ, List.filter_append, List.foldl_append, rsum_succ]
    cases hp : p m
    · simp only [List.filter_cons, hp, Bool.false_eq_true, if_false, List.filter_nil, List.foldl_nil, add_zero]
      exact ih k
    · simp only [List.filter_cons, hp, if_true, List.filter_nil, List.foldl_cons, List.foldl_nil]
      rw [ih k]; ring

/-- clipped coefficient -/
def clipv (s : RS) (a1 : Nat → Rat) (k : Nat) : Rat := smax (smin (a1 k) (s.U k)) (s.L k)

theorem clipv_box (s : RS) (a1 : Nat → Rat) (k : Nat) (hLU : s.L k ≤ s.U k) :
    s.L k ≤ clipv s a1 k ∧ clipv s a1 k ≤ s.U k := by
  unfold clipv smax smin; split_ifs <;> constructor <;> linarith

/-- the two sums of the re-balancing loop: positive coefficients, and minus the non-positive ones -/
theorem warm_sums (c : Nat → Rat) : ∀ m,
    (List.range m).foldl (fun (acc : Rat × Rat) i =>
      if c i > (0.0 : Rat) then (acc.1 + c i, acc.2) else (acc.1, acc.2 - c i)) ((0.0 : Rat), (0.0 : Rat))
    = (rsum (fun i => if 0 < c i then c i else 0) m, rsum (fun i => if 0 < c i then 0 else - c i) m) := by
  intro m
  induction m with
  | zero => simp [lit0]
  | succ m ih =>
    rw [List.range_succ, List.foldl_append, ih]
    simp only [List.foldl_cons, List.foldl_nil, rsum_succ, lit0, gt_iff_lt]
    split <;> simp <;> ring

/-- scaling factor of the heavier side -/
def warmF (P N : Rat) : Rat := if P > N then N / P else P / N

theorem warmF_bounds {P N : Rat} (hP : 0 ≤ P) (hN : 0 ≤ N) (hne : P ≠ N) : 0 ≤ warmF P N ∧ warmF P N ≤ 1 := by
  unfold warmF
  by_cases hPN : P > N
  · rw [if_pos hPN]
    have hPpos : 0 < P := lt_of_le_of_lt hN hPN
    exact ⟨div_nonneg hN (le_of_lt hPpos), by rw [div_le_iff₀ hPpos]; linarith⟩
  · rw [if_neg hPN]
    have hlt : P < N := lt_of_le_of_ne (not_lt.mp hPN) hne
    have hNpos : 0 < N := lt_of_le_of_lt hP hlt
    exact ⟨div_nonneg hP (le_of_lt hNpos), by rw [div_le_iff₀ hNpos]; linarith⟩

def warmP (s : RS) (a1 : Nat → Rat) : Rat := rsum (fun i => if 0 < clipv s a1 i then clipv s a1 i else 0) s.n
def warmN (s : RS) (a1 : Nat → Rat) : Rat := rsum (fun i => if 0 < clipv s a1 i then 0 else - clipv s a1 i) s.n

/-- clipping changed at least one coefficient -/
def anyClip (s : RS) (a1 : Nat → Rat) : Prop := ∃ k, k < s.n ∧ clipv s a1 k ≠ a1 k

/-- `std::abs(sumPos - sumNeg)` -/
def absDiff (P N : Rat) : Rat := if P - N < 0 then -(P - N) else P - N

theorem absDiff_eq_abs (P N : Rat) : absDiff P N = |P - N| := by
  unfold absDiff; split
  · rename_i h; rw [abs_of_neg h]
  · rename_i h; rw [abs_of_nonneg (not_lt.mp h)]

/-- the trainer restores the equality constraint: clipping changed a coefficient, or the positive and the negative side of
the (clipped) start vector differ by more than `1e-12` relative (repair of F-C07-9) -/
def mustBalance (s : RS) (a1 : Nat → Rat) : Prop :=
  anyClip s a1 ∨ absDiff (warmP s a1) (warmN s a1) > 1 / 1000000000000 * (warmP s a1 + warmN s a1)

theorem anyClip_iff (s : RS) (a1 : Nat → Rat) :
    ((List.range s.n).any fun i => !(smax (smin (a1 i) (s.U i)) (s.L i) == a1 i)) = true ↔ anyClip s a1 := by
  unfold anyClip clipv
  rw [List.any_eq_true]
  constructor
  · rintro ⟨k, hk, h⟩
    refine ⟨k, List.mem_range.mp hk, ?_⟩
    simpa using h
  · rintro ⟨k, hk, h⟩
    exact ⟨k, List.mem_range.mpr hk, by simpa using h⟩

open Classical in
/-- pointwise description of the warm-start vector -/
theorem warmStartVector_apply (s : RS) (a1 : Nat → Rat) (bias : Bool) (k : Nat) :
    warmStartVector s a1 bias k =
      if bias = false then clipv s a1 k else if ¬ mustBalance s a1 ∨ warmP s a1 = warmN s a1 then clipv s a1 k else
      if (0 < clipv s a1 k ↔ warmN s a1 < warmP s a1) ∧ clipv s a1 k ≠ 0 then clipv s a1 k * warmF (warmP s a1) (warmN s a1)
      else clipv s a1 k := by
  unfold warmStartVector
  dsimp only
  rw [warm_sums (fun k => smax (smin (a1 k) (s.U k)) (s.L k)) s.n]
  show (if (!bias) = true then clipv s a1 else
      if (!(((List.range s.n).any fun i => !(smax (smin (a1 i) (s.U i)) (s.L i) == a1 i)) ||
            decide ((if warmP s a1 - warmN s a1 < (0.0 : Rat) then -(warmP s a1 - warmN s a1) else warmP s a1 - warmN s a1)
              > (1.0e-12 : Rat) * (warmP s a1 + warmN s a1))) || (warmP s a1 == warmN s a1)) = true
      then clipv s a1 else
      fun k => if ((decide (clipv s a1 k > (0.0 : Rat)) == decide (warmP s a1 > warmN s a1)) && !(clipv s a1 k == (0.0 : Rat))) = true
        then clipv s a1 k * (if decide (warmP s a1 > warmN s a1) = true then warmN s a1 / warmP s a1 else warmP s a1 / warmN s a1)
        else clipv s a1 k) k = _
  cases bias
  · simp
  · simp only [Bool.not_true, Bool.false_eq_true, if_false]
    rw [if_neg (show ¬ ((true : Bool) = false) by decide)]
    have hguard : ((!(((List.range s.n).any fun i => !(smax (smin (a1 i) (s.U i)) (s.L i) == a1 i)) ||
            decide ((if warmP s a1 - warmN s a1 < (0.0 : Rat) then -(warmP s a1 - warmN s a1) else warmP s a1 - warmN s a1)
              > (1.0e-12 : Rat) * (warmP s a1 + warmN s a1))) || (warmP s a1 == warmN s a1)) = true)
        ↔ (¬ mustBalance s a1 ∨ warmP s a1 = warmN s a1) := by
      have hA := anyClip_iff s a1
      have hB : decide ((if warmP s a1 - warmN s a1 < (0.0 : Rat) then -(warmP s a1 - warmN s a1) else warmP s a1 - warmN s a1)
              > (1.0e-12 : Rat) * (warmP s a1 + warmN s a1)) = true
          ↔ absDiff (warmP s a1) (warmN s a1) > 1 / 1000000000000 * (warmP s a1 + warmN s a1) := by
        rw [decide_eq_true_iff, lit0, litE]; rfl
      unfold mustBalance
      rw [Bool.or_eq_true, beq_iff_eq, Bool.not_eq_true', Bool.or_eq_false_iff, ← hA, ← hB]
      constructor
      · rintro (⟨h1, h2⟩ | h)
        · exact Or.inl (fun h' => h'.elim (fun e => by rw [h1] at e; exact absurd e (by decide))
            (fun e => by rw [h2] at e; exact absurd e (by decide)))
        · exact Or.inr h
      · rintro (h | h)
        · left
          constructor
          · cases hx : ((List.range s.n).any fun i => !(smax (smin (a1 i) (s.U i)) (s.L i) == a1 i))
            · rfl
            · exact absurd (Or.inl hx) h
          · cases hx : decide ((if warmP s a1 - warmN s a1 < (0.0 : Rat) then -(warmP s a1 - warmN s a1) else warmP s a1 - warmN s a1)
              > (1.0e-12 : Rat) * (warmP s a1 + warmN s a1))
            · rfl
            · exact absurd (Or.inr hx) h
        · exact Or.inr h
    by_cases hG : (¬ mustBalance s a1 ∨ warmP s a1 = warmN s a1)
    · rw [if_pos (hguard.2 hG), if_pos hG]
    · rw [if_neg (fun h => hG (hguard.1 h)), if_neg hG]
      have hcond : (((decide (clipv s a1 k > (0.0 : Rat)) == decide (warmP s a1 > warmN s a1)) && !(clipv s a1 k == (0.0 : Rat))) = true)
          ↔ ((0 < clipv s a1 k ↔ warmN s a1 < warmP s a1) ∧ clipv s a1 k ≠ 0) := by
        rw [lit0]
        by_cases h1 : 0 < clipv s a1 k <;> by_cases h2 : warmN s a1 < warmP s a1 <;> by_cases h3 : clipv s a1 k = 0 <;>
          simp [h1, h2, h3]
      by_cases hc : ((0 < clipv s a1 k ↔ warmN s a1 < warmP s a1) ∧ clipv s a1 k ≠ 0)
      · rw [if_pos (hcond.2 hc), if_pos hc]
        unfold warmF
        by_cases h2 : warmP s a1 > warmN s a1 <;> simp [h2]
      · rw [if_neg (fun h => hc (hcond.1 h)), if_neg hc]

theorem warmP_nonneg (s : RS) (a1 : Nat → Rat) : 0 ≤ warmP s a1 := rsum_nonneg (fun i _ => by split <;> linarith)
theorem warmN_nonneg (s : RS) (a1 : Nat → Rat) : 0 ≤ warmN s a1 := rsum_nonneg (fun i _ => by split <;> linarith)

end SharkVerif.Smo
