/-
The state of a system tag survives every rewrite of the solve / inverse expressions
(`Model/SolveExpr.lean`), for every rule set whose per-rule tag functions keep the state
(`Rules.Preserving`; the rule set regenerated from `solve.hpp` is shown to be one in `Props/C02.lean`).
-/
import SharkVerif.Model.SolveExpr
import Mathlib.Tactic.Tauto
namespace SharkVerif.LinSolve

/-- the states (`epsilon`, `max_iterations`) of the tag objects an expression carries -/
def E.params (e : E) : List (Option (Rat × Nat)) := e.tags.map Tag.params

def TagRule.Preserving (r : TagRule) : Prop := ∀ t, (r.tag t).params = t.params

structure Rules.Preserving (R : Rules) : Prop where
  transSolve : R.transSolve.Preserving
  transInv : R.transInv.Preserving
  prodInvVec : R.prodInvVec.Preserving
  prodSolveLeftVec : R.prodSolveLeftVec.Preserving
  prodSolveRightVec : R.prodSolveRightVec.Preserving
  rowSolveLeft : R.rowSolveLeft.Preserving
  rowSolveRight : R.rowSolveRight.Preserving
  prodInvMat : R.prodInvMat.Preserving
  prodMatInv : R.prodMatInv.Preserving

/-- same set of tag states -/
def SameParams (a b : List (Option (Rat × Nat))) : Prop := ∀ q, q ∈ a ↔ q ∈ b

theorem SameParams.rfl' {a : List (Option (Rat × Nat))} : SameParams a a := fun _ => Iff.rfl

@[simp] theorem params_mat (i : Nat) : (E.mat i).params = [] := rfl
@[simp] theorem params_vec (i : Nat) : (E.vec i).params = [] := rfl
@[simp] theorem params_unit (i : Nat) : (E.unit i).params = [] := rfl
@[simp] theorem params_trans (e : E) : (E.trans e).params = e.params := rfl
@[simp] theorem params_row (e : E) (i : Nat) : (E.row e i).params = e.params := rfl
@[simp] theorem params_msolve (A B : E) (t : Tag) (l : Bool) :
    (E.msolve A B t l).params = t.params :: (A.params ++ B.params) := by simp [E.params, E.tags]
@[simp] theorem params_vsolve (A b : E) (t : Tag) (l : Bool) :
    (E.vsolve A b t l).params = t.params :: (A.params ++ b.params) := by simp [E.params, E.tags]
@[simp] theorem params_inv (A : E) (t : Tag) : (E.inv A t).params = t.params :: A.params := by simp [E.params, E.tags]
@[simp] theorem params_mvprod (M v : E) : (E.mvprod M v).params = M.params ++ v.params := by simp [E.params, E.tags]
@[simp] theorem params_mmprod (X Y : E) : (E.mmprod X Y).params = X.params ++ Y.params := by simp [E.params, E.tags]

/-- `trans(e)`: the rewritten expression carries exactly the tag states of `e` -/
theorem transOpt_params (R : Rules) (h : R.Preserving) (e : E) :
    SameParams (transOpt R e).params e.params := by
  intro q
  induction e with
  | mat i => simp [transOpt]
  | vec i => simp [transOpt]
  | unit i => simp [transOpt]
  | trans e _ => simp [transOpt]
  | msolve A B t l ihA ihB =>
    simp only [transOpt, params_msolve, List.mem_cons, List.mem_append, h.transSolve t, ihA, ihB]
  | vsolve A b t l _ _ => simp [transOpt]
  | inv A t ihA => simp only [transOpt, params_inv, List.mem_cons, h.transInv t, ihA]
  | mvprod M v _ _ => simp [transOpt]
  | mmprod X Y ihX ihY =>
    simp only [transOpt, params_mmprod, List.mem_append, ihX, ihY]; exact Or.comm
  | row M i _ => simp [transOpt]

/-- `prod(M, v)` -/
theorem mvprodOpt_params (R : Rules) (h : R.Preserving) (M v : E) :
    SameParams (mvprodOpt R M v).params (M.params ++ v.params) := by
  intro q
  induction M generalizing v with
  | msolve A B t l _ ihB =>
    cases l with
    | true =>
      simp only [mvprodOpt, params_vsolve, params_msolve, List.mem_cons, List.mem_append,
        h.prodSolveLeftVec t, ihB v]
      tauto
    | false =>
      simp only [mvprodOpt, ihB, params_vsolve, params_msolve, List.mem_cons, List.mem_append,
        h.prodSolveRightVec t]
      tauto
  | inv A t _ =>
    simp only [mvprodOpt, params_vsolve, params_inv, List.mem_cons, List.mem_append, h.prodInvVec t]
    tauto
  | mat i => simp [mvprodOpt]
  | vec i => simp [mvprodOpt]
  | unit i => simp [mvprodOpt]
  | trans e _ => simp [mvprodOpt]
  | vsolve A b t l _ _ => simp [mvprodOpt]
  | mvprod M' v' _ _ => simp [mvprodOpt]
  | mmprod X Y _ _ => simp [mvprodOpt]
  | row M' i _ => simp [mvprodOpt]

/-- `row(M, i)` -/
theorem rowOpt_params (R : Rules) (h : R.Preserving) (M : E) (i : Nat) :
    SameParams (rowOpt R M i).params M.params := by
  intro q
  induction M with
  | msolve A B t l _ ihB =>
    cases l with
    | true =>
      have h1 := mvprodOpt_params R h (transOpt R B) (.vsolve A (.unit i) (R.rowSolveLeft.tag t) (R.rowSolveLeft.side true)) q
      have h2 := transOpt_params R h B q
      simp only [rowOpt, h1, params_vsolve, params_unit, params_msolve, List.mem_cons, List.mem_append,
        h.rowSolveLeft t, h2, List.append_nil]
      tauto
    | false =>
      simp only [rowOpt, params_vsolve, params_msolve, List.mem_cons, List.mem_append, h.rowSolveRight t, ihB]
  | mat i => simp [rowOpt]
  | vec i => simp [rowOpt]
  | unit i => simp [rowOpt]
  | trans e _ => simp [rowOpt]
  | vsolve A b t l _ _ => simp [rowOpt]
  | inv A t _ => simp [rowOpt]
  | mvprod M' v' _ _ => simp [rowOpt]
  | mmprod X Y _ _ => simp [rowOpt]
  | row M' i _ => simp [rowOpt]

/-- `prod(X, Y)` for matrices -/
theorem mmprodOpt_params (R : Rules) (h : R.Preserving) (X Y : E) :
    SameParams (mmprodOpt R X Y).params (X.params ++ Y.params) := by
  intro q
  unfold mmprodOpt
  split
  · simp only [params_msolve, params_inv, List.mem_cons, List.mem_append, h.prodInvMat _]; tauto
  · simp only [params_msolve, params_inv, List.mem_cons, List.mem_append, h.prodMatInv _]; tauto
  · simp

/-- `v % M` -/
theorem vmprodOpt_params (R : Rules) (h : R.Preserving) (v M : E) :
    SameParams (vmprodOpt R v M).params (M.params ++ v.params) := by
  intro q
  unfold vmprodOpt
  rw [mvprodOpt_params R h _ _ q]
  simp only [List.mem_append, transOpt_params R h M q]

/-- `column(M, k)` -/
theorem colOpt_params (R : Rules) (h : R.Preserving) (M : E) (k : Nat) :
    SameParams (colOpt R M k).params M.params := by
  intro q
  unfold colOpt
  rw [rowOpt_params R h _ _ q, transOpt_params R h M q]

end SharkVerif.LinSolve
