/-
Helper lemmas for C08: the passes of `QpSolver::solve` (model `solveIter`) -- variables that the shrink test never
accepts survive the loop of `shrink`, the box-problem KKT value is attained, and the maximum-gain criterion returns
active indices.
-/
import SharkVerif.Lemmas.Shrink
import SharkVerif.Lemmas.Select
namespace SharkVerif.Smo
open SharkVerif.Qp SharkVerif.Gen.Analytic

/-- a variable with property `Q` of its own (status bits, gradient) that `testShrinkVariable` never accepts stays among
the active variables through the whole loop of `shrink` -/
theorem shrinkGo_keeps (Q : Bool → Bool → Rat → Prop) (lu sd : Rat) (e : Bool)
    (hno : ∀ (t : RS) (x : Nat), t.eqc = e → Q (t.up x) (t.lo x) (t.g x) → t.testShrink x lu sd = false) :
    ∀ (a : Nat) (s : RS), a ≤ s.active → s.eqc = e →
    (∃ b, b < s.active ∧ Q (s.up b) (s.lo b) (s.g b)) →
    ∃ b, b < (State.shrinkGo lu sd a s).active ∧
      Q ((State.shrinkGo lu sd a s).up b) ((State.shrinkGo lu sd a s).lo b) ((State.shrinkGo lu sd a s).g b) := by
  intro a
  induction a with
  | zero => intro s _ _ h; exact h
  | succ a ih =>
    intro s ha he hex
    rw [shrinkGo_succ]
    by_cases ht : s.testShrink a lu sd = true
    · rw [if_pos ht]
      apply ih ({ s.flip a (s.active - 1) with active := s.active - 1 } : RS) (by show a ≤ s.active - 1; omega) he
      obtain ⟨b, hb, hQ⟩ := hex
      have hba : b ≠ a := by
        intro e; subst e
        have := hno s b he hQ
        rw [this] at ht; exact absurd ht (by simp)
      by_cases hlast : b = s.active - 1
      · refine ⟨a, by show a < s.active - 1; omega, ?_⟩
        have hσ : swapIdx a (s.active - 1) a = b := by simp [swapIdx, hlast]
        show Q (s.up (swapIdx a (s.active - 1) a)) (s.lo (swapIdx a (s.active - 1) a)) (s.g (swapIdx a (s.active - 1) a))
        rw [hσ]; exact hQ
      · refine ⟨b, by show b < s.active - 1; omega, ?_⟩
        have hσ : swapIdx a (s.active - 1) b = b := by simp [swapIdx, hba, hlast]
        show Q (s.up (swapIdx a (s.active - 1) b)) (s.lo (swapIdx a (s.active - 1) b)) (s.g (swapIdx a (s.active - 1) b))
        rw [hσ]; exact hQ
    · rw [if_neg ht]
      exact ih s (by omega) he hex


/-! ### box kind: every pass of `QpSolver::solve` keeps the invariant -/

/-- the box-problem `checkKKT` is 0 or attained by a variable that can still move in an improving direction -/
theorem checkKKT_box_attained (s : RS) (he : s.eqc = false) :
    s.checkKKT = 0 ∨ ∃ v, v < s.n ∧ ((s.up v = false ∧ s.g v = s.checkKKT) ∨ (s.lo v = false ∧ - s.g v = s.checkKKT)) := by
  unfold State.checkKKT; rw [if_neg (by rw [he]; simp)]
  have key := foldl_range_inv
    (fun (m : Rat) i =>
        if s.lo i && s.up i then m else
        have m := if !s.up i then smax m (s.g i) else m
        if !s.lo i then smax m (-(s.g i)) else m)
    (0.0 : Rat)
    (fun k m => m = 0 ∨ ∃ v, v < k ∧ ((s.up v = false ∧ s.g v = m) ∨ (s.lo v = false ∧ - s.g v = m)))
    (Or.inl lit0)
    (by
      intro k m hm
      have hm' : m = 0 ∨ ∃ v, v < k + 1 ∧ ((s.up v = false ∧ s.g v = m) ∨ (s.lo v = false ∧ - s.g v = m)) := by
        rcases hm with h | ⟨v, hv, h⟩
        · exact Or.inl h
        · exact Or.inr ⟨v, by omega, h⟩
      dsimp only
      unfold smax
      cases hu : s.up k <;> cases hl : s.lo k <;> simp only [Bool.and_true, Bool.and_false, Bool.not_true,
        Bool.not_false, Bool.false_eq_true, if_false, if_true, Bool.and_self] <;>
        first
          | exact hm'
          | (split_ifs <;> first
              | exact hm'
              | exact Or.inr ⟨k, Nat.lt_succ_self k, Or.inl ⟨hu, rfl⟩⟩
              | exact Or.inr ⟨k, Nat.lt_succ_self k, Or.inr ⟨hl, rfl⟩⟩))
    s.n
  exact key

theorem unshrink_of_active {s : RS} (h : s.active = s.n) : s.unshrink = s := by
  unfold State.unshrink; rw [if_pos h]

/-- `WS2MaximumGradientCriterion` returns the index 0 or an active index -/
theorem selectMaxGradient_lt (s : RS) (hpos : 0 < s.active) : s.selectMaxGradient.1 < s.active := by
  unfold State.selectMaxGradient
  dsimp only
  have := foldl_range_inv
    (fun (acc : Nat × Nat × Rat × Rat) a =>
      let g := s.g a
      let acc := if !s.up a ∧ g > acc.2.2.2 then (acc.1, a, acc.2.2.1, g) else acc
      let acc := if !s.lo a ∧ (-g) > acc.2.2.2 then (acc.1, a, acc.2.2.1, -g) else acc
      if acc.2.2.2 > acc.2.2.1 then (acc.2.1, acc.1, acc.2.2.2, acc.2.2.1) else acc)
    (0, 0, (0.0 : Rat), (0.0 : Rat))
    (fun m acc => m ≤ s.active → (acc.1 < s.active ∧ acc.2.1 < s.active))
    (fun _ => ⟨hpos, hpos⟩)
    (by
      intro m acc h hm
      obtain ⟨h1, h2⟩ := h (Nat.le_of_succ_le hm)
      have hm' : m < s.active := hm
      dsimp only
      split_ifs <;> first
        | exact ⟨h1, h2⟩
        | exact ⟨h1, hm'⟩
        | exact ⟨hm', h1⟩
        | exact ⟨h2, h1⟩)
    s.active (Nat.le_refl _)
  exact this.1

/-- `MaximumGainCriterion` returns active indices whenever there is an active variable at all -/
theorem selectMaxGain_lt (s : RS) (hpos : 0 < s.active) :
    s.selectMaxGain.1 < s.active ∧ s.selectMaxGain.2.1 < s.active := by
  have hi := selectMaxGradient_lt s hpos
  unfold State.selectMaxGain
  dsimp only
  split
  · exact ⟨hi, hi⟩
  · refine ⟨hi, ?_⟩
    have key2 := foldl_range_inv
      (fun (acc : Nat × Rat) a =>
        if a = s.selectMaxGradient.1 then acc else
        let ga := s.g a
        if (!s.lo a ∧ ga < (0.0 : Rat)) ∨ (!s.up a ∧ ga > (0.0 : Rat)) then
          let gain := maximumGainQuadratic2D (s.diag s.selectMaxGradient.1) (s.diag a) (s.q s.selectMaxGradient.1 a)
            (s.g s.selectMaxGradient.1) ga (1.0e-12 : Rat)
          if gain > acc.2 then (a, gain) else acc
        else acc)
      (s.selectMaxGradient.1, (0.0 : Rat))
      (fun m acc => m ≤ s.active → acc.1 < s.active)
      (fun _ => hi)
      (by
        intro m acc h hm
        have h' := h (Nat.le_of_succ_le hm)
        dsimp only
        split_ifs <;> first | exact h' | exact hm)
      s.active
    exact key2 (Nat.le_refl _)

/-- a box-kind variable that can still move in an improving direction is never shrunk -/
theorem box_improving_not_shrunk (lu sd : Rat) (t : RS) (x : Nat) (he : t.eqc = false)
    (hQ : (t.up x = false ∧ 0 < t.g x) ∨ (t.lo x = false ∧ t.g x < 0)) : t.testShrink x lu sd = false := by
  unfold State.testShrink
  simp only [he, Bool.false_eq_true, if_false, lit0]
  rcases hQ with ⟨hu, hg⟩ | ⟨hl, hg⟩
  · have h1 : ¬ t.g x < smin sd 0 := by unfold smin; split <;> linarith
    simp [hu, h1]
  · have h1 : ¬ t.g x > smax lu 0 := by unfold smax; split <;> linarith
    simp [hl, h1]


/-- after `shrink(eps)` on a fully active box-kind state whose KKT violation is positive there is still an active
variable -/
theorem shrink_box_active_pos {s1 : RS} (_h1 : Inv s1) (he : s1.eqc = false) (hact : s1.active = s1.n) (eps : Rat)
    (hk : 0 < s1.checkKKT) : 0 < (s1.shrink eps).1.active := by
  -- a variable that attains the violation can still move in an improving direction
  have hex : ∃ b, b < s1.active ∧ ((s1.up b = false ∧ 0 < s1.g b) ∨ (s1.lo b = false ∧ s1.g b < 0)) := by
    rcases checkKKT_box_attained s1 he with h0 | ⟨v, hv, hv'⟩
    · rw [h0] at hk; exact absurd hk (lt_irrefl _)
    · refine ⟨v, by rw [hact]; exact hv, ?_⟩
      rcases hv' with ⟨hu, hg⟩ | ⟨hl, hg⟩
      · exact Or.inl ⟨hu, by rw [hg]; exact hk⟩
      · exact Or.inr ⟨hl, by linarith⟩
  cases hs : s1.shrinkOn
  · have : (s1.shrink eps).1 = s1 := by unfold State.shrink; simp [hs]
    rw [this]; obtain ⟨b, hb, _⟩ := hex; omega
  · rw [shrink_eq s1 eps hs]
    have hst : (shrinkStart s1 eps).1 = s1 := by
      unfold shrinkStart; dsimp only; split
      · exact unshrink_of_active hact
      · rfl
    rw [hst]
    obtain ⟨b, hb, _⟩ := shrinkGo_keeps
      (fun up lo g => (up = false ∧ 0 < g) ∨ (lo = false ∧ g < 0)) (shrinkStart s1 eps).2.1 (shrinkStart s1 eps).2.2 false
      (fun t x het hQ => box_improving_not_shrunk _ _ t x het hQ) s1.active s1 (Nat.le_refl _) he hex
    omega

theorem shrink_eqc (s : RS) (h : Inv s) (eps : Rat) : (s.shrink eps).1.eqc = s.eqc :=
  orderFree_eqc.shrink h eps

theorem unshrink_eqc (s : RS) : s.unshrink.eqc = s.eqc := orderFree_eqc.unshrink s

theorem unshrink_active' (s : RS) (_h : Inv s) : s.unshrink.active = s.unshrink.n := unshrink_active s

/-! ### equality-constrained kind -/

/-- the bounds of `getMaxKKTViolations` are sentinels or attained -/
theorem maxKKT_attained (s : RS) : ∀ m,
    ((s.maxKKT m).1 = -(1.0e100 : Rat) ∨ ∃ a, a < m ∧ s.up a = false ∧ s.g a = (s.maxKKT m).1) ∧
    ((s.maxKKT m).2 = (1.0e100 : Rat) ∨ ∃ a, a < m ∧ s.lo a = false ∧ s.g a = (s.maxKKT m).2) := by
  intro m
  unfold State.maxKKT
  exact foldl_range_inv
    (fun (acc : Rat × Rat) a =>
      let sd := if !s.lo a then smin acc.2 (s.g a) else acc.2
      let lu := if !s.up a then smax acc.1 (s.g a) else acc.1
      (lu, sd))
    (-(1.0e100 : Rat), (1.0e100 : Rat))
    (fun m acc => (acc.1 = -(1.0e100 : Rat) ∨ ∃ a, a < m ∧ s.up a = false ∧ s.g a = acc.1) ∧
                  (acc.2 = (1.0e100 : Rat) ∨ ∃ a, a < m ∧ s.lo a = false ∧ s.g a = acc.2))
    ⟨Or.inl rfl, Or.inl rfl⟩
    (by
      intro m acc ⟨hA, hB⟩
      have hA' : acc.1 = -(1.0e100 : Rat) ∨ ∃ a, a < m + 1 ∧ s.up a = false ∧ s.g a = acc.1 := by
        rcases hA with h | ⟨a, ha, h⟩
        · exact Or.inl h
        · exact Or.inr ⟨a, by omega, h⟩
      have hB' : acc.2 = (1.0e100 : Rat) ∨ ∃ a, a < m + 1 ∧ s.lo a = false ∧ s.g a = acc.2 := by
        rcases hB with h | ⟨a, ha, h⟩
        · exact Or.inl h
        · exact Or.inr ⟨a, by omega, h⟩
      dsimp only
      constructor
      · cases hu : s.up m
        · simp only [Bool.not_false, if_true]; unfold smax; split
          · exact Or.inr ⟨m, Nat.lt_succ_self m, hu, rfl⟩
          · exact hA'
        · simp only [Bool.not_true, Bool.false_eq_true, if_false]; exact hA'
      · cases hl : s.lo m
        · simp only [Bool.not_false, if_true]; unfold smin; split
          · exact Or.inr ⟨m, Nat.lt_succ_self m, hl, rfl⟩
          · exact hB'
        · simp only [Bool.not_true, Bool.false_eq_true, if_false]; exact hB')
    m

/-- LibSVM second-order selection reports a positive violation whenever there is an active variable `b` that can move
up and an active variable `c` that can move down with `g_c < g_b`, the gradient of `b` above the sentinel -/
theorem selectLibSVM_pos (s : RS) {b c : Nat} (hb : b < s.active) (hub : s.up b = false)
    (hc : c < s.active) (hlc : s.lo c = false) (hg : s.g c < s.g b) (hsent : -(10 : Rat) ^ 100 < s.g b) :
    0 < s.selectLibSVM.2.2 := by
  unfold State.selectLibSVM
  dsimp only
  -- first loop: maximum over the variables that can move up
  have key1 := foldl_range_inv
    (fun (acc : Nat × Rat) a => if !s.up a ∧ s.g a > acc.2 then (a, s.g a) else acc)
    (0, -(1.0e100 : Rat))
    (fun m acc => -(1.0e100 : Rat) ≤ acc.2 ∧ ∀ a, a < m → s.up a = false → s.g a ≤ acc.2)
    ⟨le_refl _, fun a ha => by omega⟩
    (by
      intro m acc ⟨h0, hA⟩
      split_ifs with hcond
      · refine ⟨le_trans h0 (le_of_lt hcond.2), ?_⟩
        intro a ha hu
        by_cases ham : a = m
        · subst ham; exact le_refl _
        · exact le_trans (hA a (by omega) hu) (le_of_lt hcond.2)
      · refine ⟨h0, ?_⟩
        intro a ha hu
        by_cases ham : a = m
        · subst ham
          have : ¬ s.g a > acc.2 := fun hgt => hcond ⟨by simp [hu], hgt⟩
          exact not_lt.mp this
        · exact hA a (by omega) hu)
    s.active
  generalize (List.range s.active).foldl (fun (acc : Nat × Rat) a => if !s.up a ∧ s.g a > acc.2 then (a, s.g a) else acc)
    (0, -(1.0e100 : Rat)) = u at key1 ⊢
  have hub' : s.g b ≤ u.2 := key1.2 b hb hub
  have hne : ¬ ((u.2 == -(1.0e100 : Rat)) = true) := by
    rw [beq_iff_eq, lit1e100']; intro e; rw [e] at hub'; linarith
  rw [if_neg hne]
  -- second loop: best gain and smallest gradient over the variables that can move down
  have key2 := foldl_range_inv
    (fun (acc : Nat × Rat × Rat) a =>
      if !s.lo a then
        let ga := s.g a
        let sd := smin acc.2.2 ga
        let gain := maximumGainQuadratic2DOnLine (s.diag u.1) (s.diag a) (s.q u.1 a) u.2 ga (1.0e-12 : Rat)
        if gain > acc.2.1 then (a, gain, sd) else (acc.1, acc.2.1, sd)
      else acc)
    (1, (0.0 : Rat), (1.0e100 : Rat))
    (fun m acc => 0 ≤ acc.2.1 ∧ ∀ a, a < m → s.lo a = false →
      (maximumGainQuadratic2DOnLine (s.diag u.1) (s.diag a) (s.q u.1 a) u.2 (s.g a) (1.0e-12 : Rat) ≤ acc.2.1 ∧ acc.2.2 ≤ s.g a))
    ⟨by rw [lit0], fun a ha => by omega⟩
    (by
      intro m acc ⟨h0, hB⟩
      cases hl : s.lo m
      · simp only [Bool.not_false, if_true]
        split_ifs with hgain
        · refine ⟨le_trans h0 (le_of_lt hgain), ?_⟩
          intro a ha hla
          by_cases ham : a = m
          · subst ham; refine ⟨le_refl _, ?_⟩; unfold smin; split <;> linarith
          · obtain ⟨g1, g2⟩ := hB a (by omega) hla
            refine ⟨le_trans g1 (le_of_lt hgain), ?_⟩
            unfold smin; split <;> linarith
        · refine ⟨h0, ?_⟩
          intro a ha hla
          by_cases ham : a = m
          · subst ham; refine ⟨not_lt.mp hgain, ?_⟩; unfold smin; split <;> linarith
          · obtain ⟨g1, g2⟩ := hB a (by omega) hla
            refine ⟨g1, ?_⟩
            unfold smin; split <;> linarith
      · simp only [Bool.not_true, Bool.false_eq_true, if_false]
        refine ⟨h0, ?_⟩
        intro a ha hla
        by_cases ham : a = m
        · subst ham; rw [hl] at hla; exact absurd hla (by simp)
        · exact hB a (by omega) hla)
    s.active
  generalize (List.range s.active).foldl _ _ = r at key2 ⊢
  obtain ⟨g1, g2⟩ := key2.2 c hc hlc
  -- the gain of `c` is positive
  have hdiff : 0 < u.2 - s.g c := by linarith
  have hgainc : 0 < maximumGainQuadratic2DOnLine (s.diag u.1) (s.diag c) (s.q u.1 c) u.2 (s.g c) (1.0e-12 : Rat) := by
    unfold maximumGainQuadratic2DOnLine
    dsimp only
    rw [if_neg (by rw [lit0]; exact not_le.mpr hdiff)]
    apply div_pos (mul_pos hdiff hdiff)
    unfold smax; rw [litE, lit2]; split
    · norm_num
    · rename_i hh; have : (0:Rat) < 1 / 1000000000000 := by norm_num
      linarith [not_lt.mp hh]
  have hbest : ¬ ((r.2.1 == (0.0 : Rat)) = true) := by
    rw [beq_iff_eq, lit0]; intro e; rw [e] at g1; linarith
  rw [if_neg hbest]
  show 0 < u.2 - r.2.2
  linarith


theorem shrinkStart_unshrunk {s : RS} (hact : s.active = s.n) (eps : Rat) :
    shrinkStart s eps = (s, (s.maxKKT s.n).1, (s.maxKKT s.n).2) := by
  unfold shrinkStart
  dsimp only
  rw [unshrink_of_active hact, hact]
  split <;> rfl

/-- gradients of the un-shrunk state strictly inside the sentinel range of the C++ -/
def SentinelOK (s : RS) : Prop :=
  ∀ a, a < s.n → -(10 : Rat) ^ 100 < s.unshrink.g a ∧ s.unshrink.g a < 10 ^ 100

/-- after `shrink(eps)` on a fully active equality-constrained state with positive KKT violation (gradients inside the
sentinel range) the LibSVM criterion still finds a strictly violating pair -/
theorem shrink_svm_select_pos {s1 : RS} (h1 : Inv s1) (he : s1.eqc = true) (hact : s1.active = s1.n) (eps : Rat)
    (hk : 0 < s1.checkKKT) (hr : ∀ a, a < s1.n → -(10 : Rat) ^ 100 < s1.g a ∧ s1.g a < 10 ^ 100) :
    0 < (s1.shrink eps).1.selectLibSVM.2.2 := by
  rw [checkKKT_svm s1 he, hact] at hk
  obtain ⟨hA, hB⟩ := maxKKT_attained s1 s1.n
  rw [lit1e100'] at hA hB
  -- both bounds are attained
  have hb : ∃ b, b < s1.active ∧ s1.up b = false ∧ s1.g b = (s1.maxKKT s1.n).1 := by
    rcases hA with e | ⟨b, hb, h'⟩
    · exfalso
      rcases hB with e2 | ⟨c, hc, _, hgc⟩
      · rw [e, e2] at hk; norm_num at hk
      · have := (hr c hc).1; rw [hgc] at this; rw [e] at hk; linarith
    · exact ⟨b, by rw [hact]; exact hb, h'⟩
  have hc : ∃ c, c < s1.active ∧ s1.lo c = false ∧ s1.g c = (s1.maxKKT s1.n).2 := by
    rcases hB with e | ⟨c, hc, h'⟩
    · exfalso
      obtain ⟨b, hb', _, hgb⟩ := hb
      have := (hr b (by rw [← hact]; exact hb')).2; rw [hgb] at this; rw [e] at hk; linarith
    · exact ⟨c, by rw [hact]; exact hc, h'⟩
  have hsent : -(10 : Rat) ^ 100 < (s1.maxKKT s1.n).1 := by
    obtain ⟨b, hb', _, hgb⟩ := hb
    rw [← hgb]; exact (hr b (by rw [← hact]; exact hb')).1
  -- ... and survive the shrinking loop
  have hfin : ∃ b c, b < (s1.shrink eps).1.active ∧ (s1.shrink eps).1.up b = false ∧
      (s1.shrink eps).1.g b = (s1.maxKKT s1.n).1 ∧ c < (s1.shrink eps).1.active ∧ (s1.shrink eps).1.lo c = false ∧
      (s1.shrink eps).1.g c = (s1.maxKKT s1.n).2 := by
    cases hs : s1.shrinkOn
    · have : (s1.shrink eps).1 = s1 := by unfold State.shrink; simp [hs]
      rw [this]
      obtain ⟨b, hb1, hb2, hb3⟩ := hb
      obtain ⟨c, hc1, hc2, hc3⟩ := hc
      exact ⟨b, c, hb1, hb2, hb3, hc1, hc2, hc3⟩
    · rw [shrink_eq s1 eps hs, shrinkStart_unshrunk hact]
      dsimp only
      obtain ⟨b, hb1, hb2, hb3⟩ := shrinkGo_keeps (fun up _ g => up = false ∧ g = (s1.maxKKT s1.n).1)
        (s1.maxKKT s1.n).1 (s1.maxKKT s1.n).2 true
        (fun t x het hQ => by
          unfold State.testShrink
          simp only [het, if_true, hQ.1, Bool.false_and, Bool.or_false, Bool.and_eq_false_iff, decide_eq_false_iff_not]
          right; rw [hQ.2]; linarith)
        s1.active s1 (Nat.le_refl _) he hb
      obtain ⟨c, hc1, hc2, hc3⟩ := shrinkGo_keeps (fun _ lo g => lo = false ∧ g = (s1.maxKKT s1.n).2)
        (s1.maxKKT s1.n).1 (s1.maxKKT s1.n).2 true
        (fun t x het hQ => by
          unfold State.testShrink
          simp only [het, if_true, hQ.1, Bool.false_and, Bool.false_or, Bool.and_eq_false_iff, decide_eq_false_iff_not]
          right; rw [hQ.2]; linarith)
        s1.active s1 (Nat.le_refl _) he hc
      exact ⟨b, c, hb1, hb2, hb3, hc1, hc2, hc3⟩
  obtain ⟨b, c, hb1, hb2, hb3, hc1, hc2, hc3⟩ := hfin
  exact selectLibSVM_pos _ hb1 hb2 hc1 hc2 (by rw [hb3, hc3]; linarith) (by rw [hb3]; exact hsent)

end SharkVerif.Smo
